From FP Require Import Lexer Parser ShowPT Digest.
From Coq Require Import String List NArith.
Import ListNotations.
Open Scope string_scope.
Set Printing Width 100000000.
Set Printing Depth 100000000.
Definition nl : string := String (Ascii.ascii_of_nat 10) EmptyString.
Definition model_lex (rs : list rune) : string := show_toks (lex rs).
Definition model_parse (rs : list rune) : string :=
  show_pt (match lex rs with Some ts => parse ts | None => None end).
(* coqc is slow at printing long strings: digests first (Digest.v), full texts on demand *)
Definition check (rs : list rune) : string :=
  digest (model_lex rs) ++ " " ++ digest (model_parse rs).
Definition full (rs : list rune) : string := model_lex rs ++ nl ++ model_parse rs.
Definition terms (ts : list tok) (t : pt) : string :=
  digest (show_toks (Some ts)) ++ " " ++ digest (show_pt (Some t)) ++ " " ++ digest (show_pt (parse ts)).
Definition terms_full (ts : list tok) (t : pt) : string :=
  show_toks (Some ts) ++ nl ++ show_pt (Some t) ++ nl ++ show_pt (parse ts).
Eval vm_compute in ("<<<M30>>>" ++ check (runes_of_ascii "packet
u8x{ char[ 7 ]Logon//x
, @lengthOf( Foo) trueish Header
    , match
repeatCount as o { 00
: uint8x, [ 007 // " ++ [27880; 37322]%N ++ runes_of_ascii "
]
    :calculatedFrom
""abc"":
_x , } , char[] MetaDataX `it's` , } root  packet _x {
@lengthOf(As)
@lengthOf( asx
    ) zchar[ 42 //	t
]
    u128	@calculatedFrom( """ ++ [28040; 24687]%N ++ runes_of_ascii """ ),
repeat string
_x , asx{ zchar[ 1  ]
crc
    ,}
,
    } packet trueish { match
    i64_ as
    tag
{ 3:
    roots  ,
0123456789 :
    options1
    ,""it's""
    :
stringy , } , @tag(
    // `tick` ""quote"" 'q'
    10 ) @rightPad (// @lengthOf(
' ' )  @rightPad	(
    /// triple
    '\x00' )
repeat i64 // @lengthOf(
packetx
, repeat//x
o  x `// not a comment` , }
")).
Eval vm_compute in ("<<<M62>>>" ++ check (runes_of_ascii "
options{ Z9_ =7 ;zchar=	f64  ; }
")).
Eval vm_compute in ("<<<T62>>>" ++ terms [mkTok 1 "options" 2 0 false; mkTok 2 "{" 2 7 false; mkTok 42 "Z9_" 2 9 false; mkTok 4 "=" 2 13 false; mkTok 30 "7" 2 14 false; mkTok 41 ";" 2 16 false; mkTok 42 "zchar" 2 17 false; mkTok 4 "=" 2 22 false; mkTok 29 "f64" 2 24 false; mkTok 41 ";" 2 29 false; mkTok 3 "}" 2 31 false; mkTok 0 "<EOF>" 3 0 false] (mkPacket (mkPtok 1 "options" 2 0 0) (Some (mkPtok 3 "}" 2 31 10)) [(DOption (mkOptionDef (mkSpan (mkPtok 1 "options" 2 0 0) (mkPtok 3 "}" 2 31 10)) (mkPtok 1 "options" 2 0 0) (mkPtok 2 "{" 2 7 1) [(mkOptionDecl (mkSpan (mkPtok 42 "Z9_" 2 9 2) (mkPtok 41 ";" 2 16 5)) (mkPtok 42 "Z9_" 2 9 2) (mkPtok 4 "=" 2 13 3) (VDigits (mkSpan (mkPtok 30 "7" 2 14 4) (mkPtok 30 "7" 2 14 4)) (mkPtok 30 "7" 2 14 4)) (Some (mkPtok 41 ";" 2 16 5))); (mkOptionDecl (mkSpan (mkPtok 42 "zchar" 2 17 6) (mkPtok 41 ";" 2 29 9)) (mkPtok 42 "zchar" 2 17 6) (mkPtok 4 "=" 2 22 7) (VType (mkSpan (mkPtok 29 "f64" 2 24 8) (mkPtok 29 "f64" 2 24 8)) (TyBasic (mkSpan (mkPtok 29 "f64" 2 24 8) (mkPtok 29 "f64" 2 24 8)) (mkBasicType (mkSpan (mkPtok 29 "f64" 2 24 8) (mkPtok 29 "f64" 2 24 8)) (mkPtok 29 "f64" 2 24 8)))) (Some (mkPtok 41 ";" 2 29 9)))] (mkPtok 3 "}" 2 31 10)))])).
Eval vm_compute in ("<<<M94>>>" ++ check (runes_of_ascii "
packet Header{ @lengthOf( options1 )
@lengthOf( matchKey ) @tag( 10 )i8
options1 @lengthOf( //	t
Foo ) `tab	here` ,
// " ++ [128512]%N ++ runes_of_ascii " emoji
//	t
@lengthOf( Pad // " ++ [128512]%N ++ runes_of_ascii " emoji
) match
Pad	as u8x { 4294967296 :	i8i8 // `tick` ""quote"" 'q'
,} ,} packet roots { // " ++ [128512]%N ++ runes_of_ascii " emoji
packetx @lengthOf(msg_type )
    , char[0123456789
// trailing space 
// @lengthOf(
] calculatedFrom,i8 Logon , @tag(10 ) @tag( 00 ) zchar[ 65535]
float  @lengthOf( int )
, stringy@calculatedFrom(
// " ++ [128512]%N ++ runes_of_ascii " emoji
// 50% %s
""" ++ [233]%N ++ runes_of_ascii "t" ++ [233]%N ++ runes_of_ascii """ /// triple
)	,
repeat roots u128 , @calculatedFrom(
""{,}""
)chars
    {
match roots
    as	Foo
{ 10
:
trueish,}
,
}
    , // @lengthOf(
i8i8 , @calculatedFrom(
    ""x y"")	@calculatedFrom( ""a\""b"")repeat Z9_
{
    f32a msg_type
    , repeat o	{ zchar[ 0
    // `tick` ""quote"" 'q'
    ] charz @calculatedFrom( /// triple
""CRC32"" ) , } , } ,	}root // " ++ [27880; 37322]%N ++ runes_of_ascii "
packet BodyLength  {calculatedFrom {
char[] x @calculatedFrom( ""\n""
)
    , _x @calculatedFrom(
""`tick`"" ), repeat u128 ,
    float	Packet `
` ,
    } ,	repeat
Foo {
    uint64 a1 ,	}
    , repeat char[ 42 ]
matchKey
`line1
line2` ,  match /// triple
rootA as lengthOf { // `tick` ""quote"" 'q'
""it's"" :
    u128 , //x
1 :
    uint8x
    ""it's"": charz } ,
repeat int16  zchar , repeat char[] BodyLength , @leftPad
// " ++ [27880; 37322]%N ++ runes_of_ascii "
// 50% %s
( )
    @calculatedFrom( ""it's""
    ) @rightPad
    (  ' '
)char[
// " ++ [128512]%N ++ runes_of_ascii " emoji
// a // b
007 ] Logon @lengthOf(
BodyLength ) , @tag(42
)
zchar[00 ] T @calculatedFrom(
""" ++ [233]%N ++ runes_of_ascii "t" ++ [233]%N ++ runes_of_ascii """
    ) , u8x {//x
float{	packetx
    `a\` , A	{
    uint8 charz
`a\`
, _x matchKey
`" ++ [28040; 24687; 31867; 22411]%N ++ runes_of_ascii "`
//	t
// packet A { u8 x, }
,
match trueish // trailing space 
as options1 { ""{,}"" : A , """" :Z9_
/// triple
// trailing space 
""1""	: // `tick` ""quote"" 'q'
f32a , 1 :msg_type , ""a\\"" :
    Packet ,  [ """ ++ [128512]%N ++ runes_of_ascii """
    ,""a\\"" ] :
    chars, } ,
match  len
as
    BodyLength { 65535:
    int
//x
// a // b
,
""\n"" : f32a,	[""packet"" ,
00 ,
""CRC32""
// @lengthOf(
// `tick` ""quote"" 'q'
,
""`tick`""
//x
// 50% %s
, 0 ,
    ""a	b"" ,
    // 50% %s
    """"  ,""1"" ] // " ++ [128512]%N ++ runes_of_ascii " emoji
:
repeatCount
""1"" // @lengthOf(
:// " ++ [27880; 37322]%N ++ runes_of_ascii "
leftPad,""CRC32""
:
lengthOf // @lengthOf(
,	[7 ,	""a	b"" ] : //
repeatCount
    , }, } ,	char[]
    falsey @calculatedFrom(""" ++ [233]%N ++ runes_of_ascii "t" ++ [233]%N ++ runes_of_ascii """) `" ++ [28040; 24687; 31867; 22411]%N ++ runes_of_ascii "`, zchar[007 ] lengthOf @lengthOf(
x_y_z )`say ""hi""`, } //	t
, } ,
    MetaDataX ,
}
")).
Eval vm_compute in ("<<<M126>>>" ++ check (runes_of_ascii "packet int {
@leftPad(
    //x
    '\x00'
    ) @tag( 0
    //
    ) repeat char[ 1 ] Header ,@calculatedFrom( ""CRC32"" )
@tag( // a // b
65535 )
    lengthOf
    , match T as x// 50% %s
{ 3 : float
,[65535
, ""x y"" ]: Pad, }
, int32 f32a
`a\` ,}// a // b
packet zchar
{ options1 ,
@calculatedFrom( ""\" ++ [233]%N ++ runes_of_ascii """)	repeat
    i32 u8x ,}	packet
    f32a	{ // `tick` ""quote"" 'q'
@calculatedFrom( ""x y""
)
    u32 _x `u8 x,`//x
,	repeat char[] falsey, match msg_type as rootA {65535:  lengthOf,	}  ,}
")).
Eval vm_compute in ("<<<M158>>>" ++ check (runes_of_ascii "packet trueish {
zchar[ 65535
    ] x_y_z , repeat
char[
7
]
Foo`say ""hi""`, zchar[4294967296
] trueish ,@tag(
// " ++ [128512]%N ++ runes_of_ascii " emoji
// 50% %s
1	) matchKey
    { match uint8x
    as
Z9_ {
    // @lengthOf(
    [
10
] : matchKey}
    ,
}, } options { int = true }

")).
Eval vm_compute in ("<<<M190>>>" ++ check (runes_of_ascii "
MetaData
    //x
    float {u8 uint8x ,
// @lengthOf(
// packet A { u8 x, }
} options {}	root packet T /// triple
{ u , }
    packet
x_y_z // c
{@lengthOf( T
) asx lengthOf `
`, repeat
    f64
// c
// a // b
metadata
    ,char[
    4294967296
    ] u8x ,	repeat
    uint8 zchar, // a // b
@tag(
    0123456789)  repeat i64
_x,u16
u
    // `tick` ""quote"" 'q'
    ,match roots as
Header { 007 : zchar
    // packet A { u8 x, }
    ""it's""
: rootA , [""it's""
    ,""\n"", ""x y"" , 00 ,
    42  ,
""it's""
    ]
    : len , 0 :Z9_	, //x
},match Logon as falsey {4294967296 : T
    ""CRC32"" : u8x , [
""" ++ [28040; 24687]%N ++ runes_of_ascii """
    , ""1"" , ""it's"" , ""a\\"" , 3
    ,
4294967296 , """ ++ [128512]%N ++ runes_of_ascii """
// " ++ [27880; 37322]%N ++ runes_of_ascii "
// @lengthOf(
, ""CRC32"" ]
: _x ,
[
""// no comment"" ,// trailing space 
0123456789 ,
    10 , 65535 , """ ++ [128512]%N ++ runes_of_ascii """] : T , 42:
    lengthOf ,0 :x_y_z
    , } ,
    match crc as u8x {[
42]:repeatCount 0 : calculatedFrom , } , }

")).
Eval vm_compute in ("<<<M222>>>" ++ check (runes_of_ascii "packet rootA {
    // a // b
    } options {o
= false ; asx
=char[ 10 ] // `tick` ""quote"" 'q'
}
    options	{	}
")).
Eval vm_compute in ("<<<M254>>>" ++ check (runes_of_ascii "packet i64_ {
Logon{ u8
// a // b
// " ++ [27880; 37322]%N ++ runes_of_ascii "
i8i8//	t
@calculatedFrom(""" ++ [233]%N ++ runes_of_ascii "t" ++ [233]%N ++ runes_of_ascii """)
    ,} //x
, } packet lengthOf
// c
// c
{ }
")).
Eval vm_compute in ("<<<M286>>>" ++ check (runes_of_ascii "packet falsey { @calculatedFrom( ""\n"" ) pack T `
`, @rightPad /// triple
(
)char[] string_
/// triple
// " ++ [128512]%N ++ runes_of_ascii " emoji
,
    //
    } MetaData	string_ { u16 trueish
,
    float x_y_z `u8 x,` ,
zchar[ 65535 ]	float ,
lengthOf repeatCount`tab	here` ,
    metadata // trailing space 
chars`say ""hi""` , }
")).
Eval vm_compute in ("<<<T286>>>" ++ terms [mkTok 35 "packet" 1 0 false; mkTok 42 "falsey" 1 7 false; mkTok 2 "{" 1 14 false; mkTok 5 "@calculatedFrom(" 1 16 false; mkTok 31 """\n""" 1 33 false; mkTok 6 ")" 1 38 false; mkTok 42 "pack" 1 40 false; mkTok 42 "T" 1 45 false; mkTok 43 (string_of_bytes [96; 10; 96]%N) 1 47 false; mkTok 40 "," 2 1 false; mkTok 32 "@rightPad" 2 3 false; mkTok 44 "/// triple" 2 13 true; mkTok 8 "(" 3 0 false; mkTok 6 ")" 4 0 false; mkTok 16 "char[]" 4 1 false; mkTok 42 "string_" 4 8 false; mkTok 44 "/// triple" 5 0 true; mkTok 44 (string_of_bytes [47; 47; 32; 240; 159; 152; 128; 32; 101; 109; 111; 106; 105]%N) 6 0 true; mkTok 40 "," 7 0 false; mkTok 44 "//" 8 4 true; mkTok 3 "}" 9 4 false; mkTok 37 "MetaData" 9 6 false; mkTok 42 "string_" 9 15 false; mkTok 2 "{" 9 23 false; mkTok 21 "u16" 9 25 false; mkTok 42 "trueish" 9 29 false; mkTok 40 "," 10 0 false; mkTok 42 "float" 11 4 false; mkTok 42 "x_y_z" 11 10 false; mkTok 43 "`u8 x,`" 11 16 false; mkTok 40 "," 11 24 false; mkTok 14 "zchar[" 12 0 false; mkTok 30 "65535" 12 7 false; mkTok 13 "]" 12 13 false; mkTok 42 "float" 12 15 false; mkTok 40 "," 12 21 false; mkTok 42 "lengthOf" 13 0 false; mkTok 42 "repeatCount" 13 9 false; mkTok 43 (string_of_bytes [96; 116; 97; 98; 9; 104; 101; 114; 101; 96]%N) 13 20 false; mkTok 40 "," 13 31 false; mkTok 42 "metadata" 14 4 false; mkTok 44 "// trailing space " 14 13 true; mkTok 42 "chars" 15 0 false; mkTok 43 "`say ""hi""`" 15 5 false; mkTok 40 "," 15 16 false; mkTok 3 "}" 15 18 false; mkTok 0 "<EOF>" 16 0 false] (mkPacket (mkPtok 35 "packet" 1 0 0) (Some (mkPtok 3 "}" 15 18 45)) [(DPacket (mkPacketDef (mkSpan (mkPtok 35 "packet" 1 0 0) (mkPtok 3 "}" 9 4 20)) None (mkPtok 35 "packet" 1 0 0) (mkPtok 42 "falsey" 1 7 1) (mkPtok 2 "{" 1 14 2) [(mkFieldWithAttr (mkSpan (mkPtok 5 "@calculatedFrom(" 1 16 3) (mkPtok 40 "," 2 1 9)) [(FACalculatedFrom (mkSpan (mkPtok 5 "@calculatedFrom(" 1 16 3) (mkPtok 6 ")" 1 38 5)) (mkCalculatedFrom (mkSpan (mkPtok 5 "@calculatedFrom(" 1 16 3) (mkPtok 6 ")" 1 38 5)) (mkPtok 5 "@calculatedFrom(" 1 16 3) (mkPtok 31 """\n""" 1 33 4) (mkPtok 6 ")" 1 38 5)))] (ObjectField (mkSpan (mkPtok 42 "pack" 1 40 6) (mkPtok 40 "," 2 1 9)) None (mkPtok 42 "pack" 1 40 6) (Some (mkPtok 42 "T" 1 45 7)) (Some (mkPtok 43 (string_of_bytes [96; 10; 96]%N) 1 47 8)) (mkPtok 40 "," 2 1 9))); (mkFieldWithAttr (mkSpan (mkPtok 32 "@rightPad" 2 3 10) (mkPtok 40 "," 7 0 18)) [(FAPadding (mkSpan (mkPtok 32 "@rightPad" 2 3 10) (mkPtok 6 ")" 4 0 13)) (mkPaddingAttr (mkSpan (mkPtok 32 "@rightPad" 2 3 10) (mkPtok 6 ")" 4 0 13)) (mkPtok 32 "@rightPad" 2 3 10) (mkPtok 8 "(" 3 0 12) None (mkPtok 6 ")" 4 0 13)))] (MetaField (mkSpan (mkPtok 16 "char[]" 4 1 14) (mkPtok 40 "," 7 0 18)) None (mkMetaDecl (mkSpan (mkPtok 16 "char[]" 4 1 14) (mkPtok 40 "," 7 0 18)) (TyDynamic (mkSpan (mkPtok 16 "char[]" 4 1 14) (mkPtok 16 "char[]" 4 1 14)) (mkDynamicString (mkSpan (mkPtok 16 "char[]" 4 1 14) (mkPtok 16 "char[]" 4 1 14)) (mkPtok 16 "char[]" 4 1 14))) (mkPtok 42 "string_" 4 8 15) None (mkPtok 40 "," 7 0 18))))] (mkPtok 3 "}" 9 4 20))); (DMeta (mkMetaDef (mkSpan (mkPtok 37 "MetaData" 9 6 21) (mkPtok 3 "}" 15 18 45)) (mkPtok 37 "MetaData" 9 6 21) (mkPtok 42 "string_" 9 15 22) (mkPtok 2 "{" 9 23 23) [(MIDecl (mkMetaDecl (mkSpan (mkPtok 21 "u16" 9 25 24) (mkPtok 40 "," 10 0 26)) (TyBasic (mkSpan (mkPtok 21 "u16" 9 25 24) (mkPtok 21 "u16" 9 25 24)) (mkBasicType (mkSpan (mkPtok 21 "u16" 9 25 24) (mkPtok 21 "u16" 9 25 24)) (mkPtok 21 "u16" 9 25 24))) (mkPtok 42 "trueish" 9 29 25) None (mkPtok 40 "," 10 0 26))); (MIRef (mkRefMetaDecl (mkSpan (mkPtok 42 "float" 11 4 27) (mkPtok 40 "," 11 24 30)) (mkPtok 42 "float" 11 4 27) (mkPtok 42 "x_y_z" 11 10 28) (Some (mkPtok 43 "`u8 x,`" 11 16 29)) (mkPtok 40 "," 11 24 30))); (MIDecl (mkMetaDecl (mkSpan (mkPtok 14 "zchar[" 12 0 31) (mkPtok 40 "," 12 21 35)) (TyFixed (mkSpan (mkPtok 14 "zchar[" 12 0 31) (mkPtok 13 "]" 12 13 33)) (mkFixedString (mkSpan (mkPtok 14 "zchar[" 12 0 31) (mkPtok 13 "]" 12 13 33)) (mkPtok 14 "zchar[" 12 0 31) (mkPtok 30 "65535" 12 7 32) (mkPtok 13 "]" 12 13 33))) (mkPtok 42 "float" 12 15 34) None (mkPtok 40 "," 12 21 35))); (MIRef (mkRefMetaDecl (mkSpan (mkPtok 42 "lengthOf" 13 0 36) (mkPtok 40 "," 13 31 39)) (mkPtok 42 "lengthOf" 13 0 36) (mkPtok 42 "repeatCount" 13 9 37) (Some (mkPtok 43 (string_of_bytes [96; 116; 97; 98; 9; 104; 101; 114; 101; 96]%N) 13 20 38)) (mkPtok 40 "," 13 31 39))); (MIRef (mkRefMetaDecl (mkSpan (mkPtok 42 "metadata" 14 4 40) (mkPtok 40 "," 15 16 44)) (mkPtok 42 "metadata" 14 4 40) (mkPtok 42 "chars" 15 0 42) (Some (mkPtok 43 "`say ""hi""`" 15 5 43)) (mkPtok 40 "," 15 16 44)))] (mkPtok 3 "}" 15 18 45)))])).
Eval vm_compute in ("<<<M318>>>" ++ check (runes_of_ascii "// " ++ [128512]%N ++ runes_of_ascii " emoji
MetaData
    lengthOf	{ int16
asx,}")).
Eval vm_compute in ("<<<M350>>>" ++ check (runes_of_ascii "root packet
    //	t
    crc { // trailing space 
repeat
zchar[255 ]int
,}
")).
Eval vm_compute in ("<<<M382>>>" ++ check (runes_of_ascii "options { BodyLength
    //
    = """ ++ [28040; 24687]%N ++ runes_of_ascii """ Header= '0' ;  }root
packet
crc{
asx @lengthOf(crc)`" ++ [28040; 24687; 31867; 22411]%N ++ runes_of_ascii "`
, @calculatedFrom( ""x y""	)@lengthOf( Logon)repeat f32a
    // c
    {i32 calculatedFrom //x
@lengthOf( Packet )
    `// not a comment` , charz @lengthOf( u	) ,
    match  asx
    as
As{
    ""it's"":/// triple
_x
    //
    , ""x y"" :  calculatedFrom ,	""packet"" : Pad ,
}, charz
    chars//x
,
    } , @leftPad
    ( ' '	) // `tick` ""quote"" 'q'
i8 A`line1
line2` , repeat
    zchar[ 42 ]x
,As`" ++ [233]%N ++ runes_of_ascii "`
    , char[] crc , @calculatedFrom(	""`tick`"" ) Header
    // 50% %s
    {match
chars
// a // b
// 50% %s
as float // @lengthOf(
{
""abc""
:
matchKey , 007:calculatedFrom ,
    // 50% %s
    ""\n"" : i64_ , ""packet"": i8i8 [10 ,
0123456789
]
:
roots	, } ,
metadata repeatCount	, // " ++ [128512]%N ++ runes_of_ascii " emoji
}	,}
packet o{
u16 chars@calculatedFrom(	""abc"" //
), repeat int {uint8 len
,
    // `tick` ""quote"" 'q'
    u128 asx, match u128 as
    lengthOf
{ ""it's"": packetx 0123456789: // packet A { u8 x, }
a1 , [ """" ,0123456789] :	asx , } ,} ,
char _x
@lengthOf(  repeatCount )
    // `tick` ""quote"" 'q'
    ,repeat
uint64 u128 , } root
    // packet A { u8 x, }
    packet	_x
{
repeat int {repeat
Z9_
// trailing space 
//
body ,
// 50% %s
//x
} ,	}
// trailing space 
")).
Eval vm_compute in ("<<<M414>>>" ++ check (runes_of_ascii "packet
    trueish // packet A { u8 x, }
{  }

")).
Eval vm_compute in ("<<<M446>>>" ++ check (runes_of_ascii "root packet asx {
@tag(3 )int8 metadata `" ++ [233]%N ++ runes_of_ascii "` ,
    //x
    repeat char[] Z9_ ,	@rightPad// trailing space 
('\x00')
@lengthOf( Header )
@lengthOf(crc ) MetaDataX { u64 u128 , } , //
int16
    leftPad	, @tag( 10)
@tag( 4294967296
    ) @leftPad (' ')	repeat u16 repeatCount `100% of %d`
, @rightPad  () @tag( 0 )
match crc as chars
{
0123456789 :  BodyLength , """ ++ [128512]%N ++ runes_of_ascii """
    :	Logon, [ 10 , 255] // c
: MetaDataX
    ,	0123456789 ://	t
Packet ,""// no comment"": T , 65535
: charz,	} , match falsey
as
    //x
    u128
{
[
    """ ++ [28040; 24687]%N ++ runes_of_ascii """
,""// no comment"" ] : leftPad,[ 65535
]
:
    //
    asx
10 :u // " ++ [27880; 37322]%N ++ runes_of_ascii "
, ""{,}"" // 50% %s
: _x , }
    ,
// @lengthOf(
// trailing space 
match  As as
    MetaDataX { 0123456789
    : a1,
[ 65535,
    ""abc""
    ]://	t
tag //	t
,
    // `tick` ""quote"" 'q'
    [
""" ++ [233]%N ++ runes_of_ascii "t" ++ [233]%N ++ runes_of_ascii """,
    ""`tick`"" ,	""\" ++ [233]%N ++ runes_of_ascii """	,
    ""abc"" , ""\" ++ [233]%N ++ runes_of_ascii """ , ""packet""
    , // " ++ [27880; 37322]%N ++ runes_of_ascii "
""packet""
] : o	00 : crc
    } , } packet chars
{ @calculatedFrom( ""x y"") char[ 255 ]  crc
    // c
    `100% of %d` , @tag( // a // b
65535 ) f64
    BodyLength@calculatedFrom(
    ""CRC32"" ) ,
    }")).
Eval vm_compute in ("<<<M478>>>" ++ check (runes_of_ascii "
")).
Eval vm_compute in ("<<<M510>>>" ++ check (runes_of_ascii "packet pack { // " ++ [128512]%N ++ runes_of_ascii " emoji
stringy{ repeat
string falsey , char[] Z9_ , repeat i64_ { char[ 10
] msg_type ,match string_
as msg_type{
    3 : x_y_z, [7 ] :o 007: Foo // trailing space 
, ""{,}"" :
    T, [ ""CRC32""	, // " ++ [27880; 37322]%N ++ runes_of_ascii "
""`tick`"" //x
]	:u128 , // 50% %s
3 :
    i64_
    /// triple
    ,} , // trailing space 
} , zchar[ 4294967296 ]
crc ,
    } ,  repeat i8i8{ matchKey@lengthOf(  i8i8 )
`// not a comment`, } , @tag( 4294967296)repeat Logon {
    string asx
    `" ++ [233]%N ++ runes_of_ascii "`, } ,matchKey@lengthOf( Pad	),}
    MetaData leftPad
    {}
// " ++ [27880; 37322]%N ++ runes_of_ascii "
")).
Eval vm_compute in ("<<<T510>>>" ++ terms [mkTok 35 "packet" 1 0 false; mkTok 42 "pack" 1 7 false; mkTok 2 "{" 1 12 false; mkTok 44 (string_of_bytes [47; 47; 32; 240; 159; 152; 128; 32; 101; 109; 111; 106; 105]%N) 1 14 true; mkTok 42 "stringy" 2 0 false; mkTok 2 "{" 2 7 false; mkTok 36 "repeat" 2 9 false; mkTok 15 "string" 3 0 false; mkTok 42 "falsey" 3 7 false; mkTok 40 "," 3 14 false; mkTok 16 "char[]" 3 16 false; mkTok 42 "Z9_" 3 23 false; mkTok 40 "," 3 27 false; mkTok 36 "repeat" 3 29 false; mkTok 42 "i64_" 3 36 false; mkTok 2 "{" 3 41 false; mkTok 12 "char[" 3 43 false; mkTok 30 "10" 3 49 false; mkTok 13 "]" 4 0 false; mkTok 42 "msg_type" 4 2 false; mkTok 40 "," 4 11 false; mkTok 38 "match" 4 12 false; mkTok 42 "string_" 4 18 false; mkTok 17 "as" 5 0 false; mkTok 42 "msg_type" 5 3 false; mkTok 2 "{" 5 11 false; mkTok 30 "3" 6 4 false; mkTok 39 ":" 6 6 false; mkTok 42 "x_y_z" 6 8 false; mkTok 40 "," 6 13 false; mkTok 18 "[" 6 15 false; mkTok 30 "7" 6 16 false; mkTok 13 "]" 6 18 false; mkTok 39 ":" 6 20 false; mkTok 42 "o" 6 21 false; mkTok 30 "007" 6 23 false; mkTok 39 ":" 6 26 false; mkTok 42 "Foo" 6 28 false; mkTok 44 "// trailing space " 6 32 true; mkTok 40 "," 7 0 false; mkTok 31 """{,}""" 7 2 false; mkTok 39 ":" 7 8 false; mkTok 42 "T" 8 4 false; mkTok 40 "," 8 5 false; mkTok 18 "[" 8 7 false; mkTok 31 """CRC32""" 8 9 false; mkTok 40 "," 8 17 false; mkTok 44 (string_of_bytes [47; 47; 32; 230; 179; 168; 233; 135; 138]%N) 8 19 true; mkTok 31 """`tick`""" 9 0 false; mkTok 44 "//x" 9 9 true; mkTok 13 "]" 10 0 false; mkTok 39 ":" 10 2 false; mkTok 42 "u128" 10 3 false; mkTok 40 "," 10 8 false; mkTok 44 "// 50% %s" 10 10 true; mkTok 30 "3" 11 0 false; mkTok 39 ":" 11 2 false; mkTok 42 "i64_" 12 4 false; mkTok 44 "/// triple" 13 4 true; mkTok 40 "," 14 4 false; mkTok 3 "}" 14 5 false; mkTok 40 "," 14 7 false; mkTok 44 "// trailing space " 14 9 true; mkTok 3 "}" 15 0 false; mkTok 40 "," 15 2 false; mkTok 14 "zchar[" 15 4 false; mkTok 30 "4294967296" 15 11 false; mkTok 13 "]" 15 22 false; mkTok 42 "crc" 16 0 false; mkTok 40 "," 16 4 false; mkTok 3 "}" 17 4 false; mkTok 40 "," 17 6 false; mkTok 36 "repeat" 17 9 false; mkTok 42 "i8i8" 17 16 false; mkTok 2 "{" 17 20 false; mkTok 42 "matchKey" 17 22 false; mkTok 7 "@lengthOf(" 17 30 false; mkTok 42 "i8i8" 17 42 false; mkTok 6 ")" 17 47 false; mkTok 43 "`// not a comment`" 18 0 false; mkTok 40 "," 18 18 false; mkTok 3 "}" 18 20 false; mkTok 40 "," 18 22 false; mkTok 9 "@tag(" 18 24 false; mkTok 30 "4294967296" 18 30 false; mkTok 6 ")" 18 40 false; mkTok 36 "repeat" 18 41 false; mkTok 42 "Logon" 18 48 false; mkTok 2 "{" 18 54 false; mkTok 15 "string" 19 4 false; mkTok 42 "asx" 19 11 false; mkTok 43 (string_of_bytes [96; 195; 169; 96]%N) 20 4 false; mkTok 40 "," 20 7 false; mkTok 3 "}" 20 9 false; mkTok 40 "," 20 11 false; mkTok 42 "matchKey" 20 12 false; mkTok 7 "@lengthOf(" 20 20 false; mkTok 42 "Pad" 20 31 false; mkTok 6 ")" 20 35 false; mkTok 40 "," 20 36 false; mkTok 3 "}" 20 37 false; mkTok 37 "MetaData" 21 4 false; mkTok 42 "leftPad" 21 13 false; mkTok 2 "{" 22 4 false; mkTok 3 "}" 22 5 false; mkTok 44 (string_of_bytes [47; 47; 32; 230; 179; 168; 233; 135; 138]%N) 23 0 true; mkTok 0 "<EOF>" 24 0 false] (mkPacket (mkPtok 35 "packet" 1 0 0) (Some (mkPtok 3 "}" 22 5 104)) [(DPacket (mkPacketDef (mkSpan (mkPtok 35 "packet" 1 0 0) (mkPtok 3 "}" 20 37 100)) None (mkPtok 35 "packet" 1 0 0) (mkPtok 42 "pack" 1 7 1) (mkPtok 2 "{" 1 12 2) [(mkFieldWithAttr (mkSpan (mkPtok 42 "stringy" 2 0 4) (mkPtok 40 "," 17 6 71)) [] (InerObjectField (mkSpan (mkPtok 42 "stringy" 2 0 4) (mkPtok 40 "," 17 6 71)) None (InerObjectDecl (mkSpan (mkPtok 42 "stringy" 2 0 4) (mkPtok 3 "}" 17 4 70)) (mkPtok 42 "stringy" 2 0 4) (mkPtok 2 "{" 2 7 5) [(MetaField (mkSpan (mkPtok 36 "repeat" 2 9 6) (mkPtok 40 "," 3 14 9)) (Some (mkPtok 36 "repeat" 2 9 6)) (mkMetaDecl (mkSpan (mkPtok 15 "string" 3 0 7) (mkPtok 40 "," 3 14 9)) (TyDynamic (mkSpan (mkPtok 15 "string" 3 0 7) (mkPtok 15 "string" 3 0 7)) (mkDynamicString (mkSpan (mkPtok 15 "string" 3 0 7) (mkPtok 15 "string" 3 0 7)) (mkPtok 15 "string" 3 0 7))) (mkPtok 42 "falsey" 3 7 8) None (mkPtok 40 "," 3 14 9))); (MetaField (mkSpan (mkPtok 16 "char[]" 3 16 10) (mkPtok 40 "," 3 27 12)) None (mkMetaDecl (mkSpan (mkPtok 16 "char[]" 3 16 10) (mkPtok 40 "," 3 27 12)) (TyDynamic (mkSpan (mkPtok 16 "char[]" 3 16 10) (mkPtok 16 "char[]" 3 16 10)) (mkDynamicString (mkSpan (mkPtok 16 "char[]" 3 16 10) (mkPtok 16 "char[]" 3 16 10)) (mkPtok 16 "char[]" 3 16 10))) (mkPtok 42 "Z9_" 3 23 11) None (mkPtok 40 "," 3 27 12))); (InerObjectField (mkSpan (mkPtok 36 "repeat" 3 29 13) (mkPtok 40 "," 15 2 64)) (Some (mkPtok 36 "repeat" 3 29 13)) (InerObjectDecl (mkSpan (mkPtok 42 "i64_" 3 36 14) (mkPtok 3 "}" 15 0 63)) (mkPtok 42 "i64_" 3 36 14) (mkPtok 2 "{" 3 41 15) [(MetaField (mkSpan (mkPtok 12 "char[" 3 43 16) (mkPtok 40 "," 4 11 20)) None (mkMetaDecl (mkSpan (mkPtok 12 "char[" 3 43 16) (mkPtok 40 "," 4 11 20)) (TyFixed (mkSpan (mkPtok 12 "char[" 3 43 16) (mkPtok 13 "]" 4 0 18)) (mkFixedString (mkSpan (mkPtok 12 "char[" 3 43 16) (mkPtok 13 "]" 4 0 18)) (mkPtok 12 "char[" 3 43 16) (mkPtok 30 "10" 3 49 17) (mkPtok 13 "]" 4 0 18))) (mkPtok 42 "msg_type" 4 2 19) None (mkPtok 40 "," 4 11 20))); (MatchField (mkSpan (mkPtok 38 "match" 4 12 21) (mkPtok 40 "," 14 7 61)) (mkMatchFieldDecl (mkSpan (mkPtok 38 "match" 4 12 21) (mkPtok 3 "}" 14 5 60)) (mkPtok 38 "match" 4 12 21) (mkPtok 42 "string_" 4 18 22) (mkPtok 17 "as" 5 0 23) (mkPtok 42 "msg_type" 5 3 24) (mkPtok 2 "{" 5 11 25) [(mkMatchPair (mkSpan (mkPtok 30 "3" 6 4 26) (mkPtok 40 "," 6 13 29)) (MKDigits (mkPtok 30 "3" 6 4 26)) (mkPtok 39 ":" 6 6 27) (mkPtok 42 "x_y_z" 6 8 28) (Some (mkPtok 40 "," 6 13 29))); (mkMatchPair (mkSpan (mkPtok 18 "[" 6 15 30) (mkPtok 42 "o" 6 21 34)) (MKList (mkKeyList (mkSpan (mkPtok 18 "[" 6 15 30) (mkPtok 13 "]" 6 18 32)) (mkPtok 18 "[" 6 15 30) (mkPtok 30 "7" 6 16 31) [] (mkPtok 13 "]" 6 18 32))) (mkPtok 39 ":" 6 20 33) (mkPtok 42 "o" 6 21 34) None); (mkMatchPair (mkSpan (mkPtok 30 "007" 6 23 35) (mkPtok 40 "," 7 0 39)) (MKDigits (mkPtok 30 "007" 6 23 35)) (mkPtok 39 ":" 6 26 36) (mkPtok 42 "Foo" 6 28 37) (Some (mkPtok 40 "," 7 0 39))); (mkMatchPair (mkSpan (mkPtok 31 """{,}""" 7 2 40) (mkPtok 40 "," 8 5 43)) (MKString (mkPtok 31 """{,}""" 7 2 40)) (mkPtok 39 ":" 7 8 41) (mkPtok 42 "T" 8 4 42) (Some (mkPtok 40 "," 8 5 43))); (mkMatchPair (mkSpan (mkPtok 18 "[" 8 7 44) (mkPtok 40 "," 10 8 53)) (MKList (mkKeyList (mkSpan (mkPtok 18 "[" 8 7 44) (mkPtok 13 "]" 10 0 50)) (mkPtok 18 "[" 8 7 44) (mkPtok 31 """CRC32""" 8 9 45) [((mkPtok 40 "," 8 17 46), (mkPtok 31 """`tick`""" 9 0 48))] (mkPtok 13 "]" 10 0 50))) (mkPtok 39 ":" 10 2 51) (mkPtok 42 "u128" 10 3 52) (Some (mkPtok 40 "," 10 8 53))); (mkMatchPair (mkSpan (mkPtok 30 "3" 11 0 55) (mkPtok 40 "," 14 4 59)) (MKDigits (mkPtok 30 "3" 11 0 55)) (mkPtok 39 ":" 11 2 56) (mkPtok 42 "i64_" 12 4 57) (Some (mkPtok 40 "," 14 4 59)))] (mkPtok 3 "}" 14 5 60)) (mkPtok 40 "," 14 7 61))] (mkPtok 3 "}" 15 0 63)) (mkPtok 40 "," 15 2 64)); (MetaField (mkSpan (mkPtok 14 "zchar[" 15 4 65) (mkPtok 40 "," 16 4 69)) None (mkMetaDecl (mkSpan (mkPtok 14 "zchar[" 15 4 65) (mkPtok 40 "," 16 4 69)) (TyFixed (mkSpan (mkPtok 14 "zchar[" 15 4 65) (mkPtok 13 "]" 15 22 67)) (mkFixedString (mkSpan (mkPtok 14 "zchar[" 15 4 65) (mkPtok 13 "]" 15 22 67)) (mkPtok 14 "zchar[" 15 4 65) (mkPtok 30 "4294967296" 15 11 66) (mkPtok 13 "]" 15 22 67))) (mkPtok 42 "crc" 16 0 68) None (mkPtok 40 "," 16 4 69)))] (mkPtok 3 "}" 17 4 70)) (mkPtok 40 "," 17 6 71))); (mkFieldWithAttr (mkSpan (mkPtok 36 "repeat" 17 9 72) (mkPtok 40 "," 18 22 82)) [] (InerObjectField (mkSpan (mkPtok 36 "repeat" 17 9 72) (mkPtok 40 "," 18 22 82)) (Some (mkPtok 36 "repeat" 17 9 72)) (InerObjectDecl (mkSpan (mkPtok 42 "i8i8" 17 16 73) (mkPtok 3 "}" 18 20 81)) (mkPtok 42 "i8i8" 17 16 73) (mkPtok 2 "{" 17 20 74) [(LengthField (mkSpan (mkPtok 42 "matchKey" 17 22 75) (mkPtok 40 "," 18 18 80)) (mkLengthFieldDecl (mkSpan (mkPtok 42 "matchKey" 17 22 75) (mkPtok 40 "," 18 18 80)) None (mkPtok 42 "matchKey" 17 22 75) (mkLengthOf (mkSpan (mkPtok 7 "@lengthOf(" 17 30 76) (mkPtok 6 ")" 17 47 78)) (mkPtok 7 "@lengthOf(" 17 30 76) (mkPtok 42 "i8i8" 17 42 77) (mkPtok 6 ")" 17 47 78)) (Some (mkPtok 43 "`// not a comment`" 18 0 79)) (mkPtok 40 "," 18 18 80)))] (mkPtok 3 "}" 18 20 81)) (mkPtok 40 "," 18 22 82))); (mkFieldWithAttr (mkSpan (mkPtok 9 "@tag(" 18 24 83) (mkPtok 40 "," 20 11 94)) [(FATag (mkSpan (mkPtok 9 "@tag(" 18 24 83) (mkPtok 6 ")" 18 40 85)) (mkTagAttr (mkSpan (mkPtok 9 "@tag(" 18 24 83) (mkPtok 6 ")" 18 40 85)) (mkPtok 9 "@tag(" 18 24 83) (mkPtok 30 "4294967296" 18 30 84) (mkPtok 6 ")" 18 40 85)))] (InerObjectField (mkSpan (mkPtok 36 "repeat" 18 41 86) (mkPtok 40 "," 20 11 94)) (Some (mkPtok 36 "repeat" 18 41 86)) (InerObjectDecl (mkSpan (mkPtok 42 "Logon" 18 48 87) (mkPtok 3 "}" 20 9 93)) (mkPtok 42 "Logon" 18 48 87) (mkPtok 2 "{" 18 54 88) [(MetaField (mkSpan (mkPtok 15 "string" 19 4 89) (mkPtok 40 "," 20 7 92)) None (mkMetaDecl (mkSpan (mkPtok 15 "string" 19 4 89) (mkPtok 40 "," 20 7 92)) (TyDynamic (mkSpan (mkPtok 15 "string" 19 4 89) (mkPtok 15 "string" 19 4 89)) (mkDynamicString (mkSpan (mkPtok 15 "string" 19 4 89) (mkPtok 15 "string" 19 4 89)) (mkPtok 15 "string" 19 4 89))) (mkPtok 42 "asx" 19 11 90) (Some (mkPtok 43 (string_of_bytes [96; 195; 169; 96]%N) 20 4 91)) (mkPtok 40 "," 20 7 92)))] (mkPtok 3 "}" 20 9 93)) (mkPtok 40 "," 20 11 94))); (mkFieldWithAttr (mkSpan (mkPtok 42 "matchKey" 20 12 95) (mkPtok 40 "," 20 36 99)) [] (LengthField (mkSpan (mkPtok 42 "matchKey" 20 12 95) (mkPtok 40 "," 20 36 99)) (mkLengthFieldDecl (mkSpan (mkPtok 42 "matchKey" 20 12 95) (mkPtok 40 "," 20 36 99)) None (mkPtok 42 "matchKey" 20 12 95) (mkLengthOf (mkSpan (mkPtok 7 "@lengthOf(" 20 20 96) (mkPtok 6 ")" 20 35 98)) (mkPtok 7 "@lengthOf(" 20 20 96) (mkPtok 42 "Pad" 20 31 97) (mkPtok 6 ")" 20 35 98)) None (mkPtok 40 "," 20 36 99))))] (mkPtok 3 "}" 20 37 100))); (DMeta (mkMetaDef (mkSpan (mkPtok 37 "MetaData" 21 4 101) (mkPtok 3 "}" 22 5 104)) (mkPtok 37 "MetaData" 21 4 101) (mkPtok 42 "leftPad" 21 13 102) (mkPtok 2 "{" 22 4 103) [] (mkPtok 3 "}" 22 5 104)))])).
Eval vm_compute in ("<<<M542>>>" ++ check (runes_of_ascii " //x")).
Eval vm_compute in ("<<<M574>>>" ++ check (runes_of_ascii "  packet MetaDataX
{ body, @tag(
    00
)
options1`a\`
,
}")).
Eval vm_compute in ("<<<M606>>>" ++ check (runes_of_ascii "MetaData _x {//x
char[3// packet A { u8 x, }
]Pad `crlf
line` , }
    packet trueish{
// a // b
// c
u ,repeat
    f32a{ char[ 65535 ]MetaDataX ,}// " ++ [128512]%N ++ runes_of_ascii " emoji
, @calculatedFrom(
""// no comment""  ) zchar[ 007 ]crc  @calculatedFrom(
""a\""b"" )
    `{ , }`,
@lengthOf( x_y_z ) As //x
`
`, }
//
")).
Eval vm_compute in ("<<<M638>>>" ++ check (runes_of_ascii "packet
// 50% %s
// " ++ [27880; 37322]%N ++ runes_of_ascii "
Header {
zchar[
0123456789 ]i64_
    // @lengthOf(
    , @lengthOf(calculatedFrom ) u8x
calculatedFrom , @tag( //
1
) repeat float32
BodyLength ,chars crc	, repeat string	Header `{ , }` , @calculatedFrom( // packet A { u8 x, }
""\n""	)
    _x
@calculatedFrom(""it's"" ) , falsey{
    packetx
// c
// " ++ [128512]%N ++ runes_of_ascii " emoji
@lengthOf( Z9_ ) ,	As{
    zchar[
3 ]i64_ , } , string	u8x @calculatedFrom( ""a\""b""
) , }
, int32 T @calculatedFrom(
    ""{,}"" ) , len  { char[]chars@lengthOf( zchar ) , int16
    MetaDataX @lengthOf( a1
) , } , // `tick` ""quote"" 'q'
@tag(
    65535 )repeat f64 u , }
")).
Eval vm_compute in ("<<<M670>>>" ++ check (runes_of_ascii "// `tick` ""quote"" 'q'
options {calculatedFrom = false  ;}")).
Eval vm_compute in ("<<<M702>>>" ++ check (runes_of_ascii "MetaData u {}
")).
Eval vm_compute in ("<<<M734>>>" ++ check (runes_of_ascii "root packet roots
    { @lengthOf(
    _x )a1 @lengthOf( // a // b
stringy
) `{ , }` ,match // a // b
o
as
A { 42: i8i8 ,
    [""a\\"",  ""a\""b""	] : options1 ,  ""`tick`"" : falsey,
// `tick` ""quote"" 'q'
//	t
} , @calculatedFrom( ""packet""	)
    @lengthOf( zchar ) uint8 rootA //
,
//
/// triple
_x
, } packet pack { @tag(	3 )string int , u32 pack @lengthOf( Z9_ )`line1
line2`, a1 , @lengthOf(body) x //	t
T
`a\` ,
    string a1  , float32
    As
// c
// @lengthOf(
@calculatedFrom( """ ++ [233]%N ++ runes_of_ascii "t" ++ [233]%N ++ runes_of_ascii """ ), char[]	metadata `it's` , A `two words` ,@lengthOf(len
)	u128 { string  i8i8@lengthOf( calculatedFrom
) `` ,
    zchar[007
]	uint8x
`" ++ [233]%N ++ runes_of_ascii "` , Z9_
    { u16
    //	t
    matchKey ,
} , } ,}
// 50% %s
")).
Eval vm_compute in ("<<<T734>>>" ++ terms [mkTok 34 "root" 1 0 false; mkTok 35 "packet" 1 5 false; mkTok 42 "roots" 1 12 false; mkTok 2 "{" 2 4 false; mkTok 7 "@lengthOf(" 2 6 false; mkTok 42 "_x" 3 4 false; mkTok 6 ")" 3 7 false; mkTok 42 "a1" 3 8 false; mkTok 7 "@lengthOf(" 3 11 false; mkTok 44 "// a // b" 3 22 true; mkTok 42 "stringy" 4 0 false; mkTok 6 ")" 5 0 false; mkTok 43 "`{ , }`" 5 2 false; mkTok 40 "," 5 10 false; mkTok 38 "match" 5 11 false; mkTok 44 "// a // b" 5 17 true; mkTok 42 "o" 6 0 false; mkTok 17 "as" 7 0 false; mkTok 42 "A" 8 0 false; mkTok 2 "{" 8 2 false; mkTok 30 "42" 8 4 false; mkTok 39 ":" 8 6 false; mkTok 42 "i8i8" 8 8 false; mkTok 40 "," 8 13 false; mkTok 18 "[" 9 4 false; mkTok 31 """a\\""" 9 5 false; mkTok 40 "," 9 10 false; mkTok 31 """a\""b""" 9 13 false; mkTok 13 "]" 9 20 false; mkTok 39 ":" 9 22 false; mkTok 42 "options1" 9 24 false; mkTok 40 "," 9 33 false; mkTok 31 """`tick`""" 9 36 false; mkTok 39 ":" 9 45 false; mkTok 42 "falsey" 9 47 false; mkTok 40 "," 9 53 false; mkTok 44 "// `tick` ""quote"" 'q'" 10 0 true; mkTok 44 (string_of_bytes [47; 47; 9; 116]%N) 11 0 true; mkTok 3 "}" 12 0 false; mkTok 40 "," 12 2 false; mkTok 5 "@calculatedFrom(" 12 4 false; mkTok 31 """packet""" 12 21 false; mkTok 6 ")" 12 30 false; mkTok 7 "@lengthOf(" 13 4 false; mkTok 42 "zchar" 13 15 false; mkTok 6 ")" 13 21 false; mkTok 20 "uint8" 13 23 false; mkTok 42 "rootA" 13 29 false; mkTok 44 "//" 13 35 true; mkTok 40 "," 14 0 false; mkTok 44 "//" 15 0 true; mkTok 44 "/// triple" 16 0 true; mkTok 42 "_x" 17 0 false; mkTok 40 "," 18 0 false; mkTok 3 "}" 18 2 false; mkTok 35 "packet" 18 4 false; mkTok 42 "pack" 18 11 false; mkTok 2 "{" 18 16 false; mkTok 9 "@tag(" 18 18 false; mkTok 30 "3" 18 24 false; mkTok 6 ")" 18 26 false; mkTok 15 "string" 18 27 false; mkTok 42 "int" 18 34 false; mkTok 40 "," 18 38 false; mkTok 22 "u32" 18 40 false; mkTok 42 "pack" 18 44 false; mkTok 7 "@lengthOf(" 18 49 false; mkTok 42 "Z9_" 18 60 false; mkTok 6 ")" 18 64 false; mkTok 43 (string_of_bytes [96; 108; 105; 110; 101; 49; 10; 108; 105; 110; 101; 50; 96]%N) 18 65 false; mkTok 40 "," 19 6 false; mkTok 42 "a1" 19 8 false; mkTok 40 "," 19 11 false; mkTok 7 "@lengthOf(" 19 13 false; mkTok 42 "body" 19 23 false; mkTok 6 ")" 19 27 false; mkTok 42 "x" 19 29 false; mkTok 44 (string_of_bytes [47; 47; 9; 116]%N) 19 31 true; mkTok 42 "T" 20 0 false; mkTok 43 "`a\`" 21 0 false; mkTok 40 "," 21 5 false; mkTok 15 "string" 22 4 false; mkTok 42 "a1" 22 11 false; mkTok 40 "," 22 15 false; mkTok 28 "float32" 22 17 false; mkTok 42 "As" 23 4 false; mkTok 44 "// c" 24 0 true; mkTok 44 "// @lengthOf(" 25 0 true; mkTok 5 "@calculatedFrom(" 26 0 false; mkTok 31 (string_of_bytes [34; 195; 169; 116; 195; 169; 34]%N) 26 17 false; mkTok 6 ")" 26 23 false; mkTok 40 "," 26 24 false; mkTok 16 "char[]" 26 26 false; mkTok 42 "metadata" 26 33 false; mkTok 43 "`it's`" 26 42 false; mkTok 40 "," 26 49 false; mkTok 42 "A" 26 51 false; mkTok 43 "`two words`" 26 53 false; mkTok 40 "," 26 65 false; mkTok 7 "@lengthOf(" 26 66 false; mkTok 42 "len" 26 76 false; mkTok 6 ")" 27 0 false; mkTok 42 "u128" 27 2 false; mkTok 2 "{" 27 7 false; mkTok 15 "string" 27 9 false; mkTok 42 "i8i8" 27 17 false; mkTok 7 "@lengthOf(" 27 21 false; mkTok 42 "calculatedFrom" 27 32 false; mkTok 6 ")" 28 0 false; mkTok 43 "``" 28 2 false; mkTok 40 "," 28 5 false; mkTok 14 "zchar[" 29 4 false; mkTok 30 "007" 29 10 false; mkTok 13 "]" 30 0 false; mkTok 42 "uint8x" 30 2 false; mkTok 43 (string_of_bytes [96; 195; 169; 96]%N) 31 0 false; mkTok 40 "," 31 4 false; mkTok 42 "Z9_" 31 6 false; mkTok 2 "{" 32 4 false; mkTok 21 "u16" 32 6 false; mkTok 44 (string_of_bytes [47; 47; 9; 116]%N) 33 4 true; mkTok 42 "matchKey" 34 4 false; mkTok 40 "," 34 13 false; mkTok 3 "}" 35 0 false; mkTok 40 "," 35 2 false; mkTok 3 "}" 35 4 false; mkTok 40 "," 35 6 false; mkTok 3 "}" 35 7 false; mkTok 44 "// 50% %s" 36 0 true; mkTok 0 "<EOF>" 37 0 false] (mkPacket (mkPtok 34 "root" 1 0 0) (Some (mkPtok 3 "}" 35 7 127)) [(DPacket (mkPacketDef (mkSpan (mkPtok 34 "root" 1 0 0) (mkPtok 3 "}" 18 2 54)) (Some (mkPtok 34 "root" 1 0 0)) (mkPtok 35 "packet" 1 5 1) (mkPtok 42 "roots" 1 12 2) (mkPtok 2 "{" 2 4 3) [(mkFieldWithAttr (mkSpan (mkPtok 7 "@lengthOf(" 2 6 4) (mkPtok 40 "," 5 10 13)) [(FALengthOf (mkSpan (mkPtok 7 "@lengthOf(" 2 6 4) (mkPtok 6 ")" 3 7 6)) (mkLengthOf (mkSpan (mkPtok 7 "@lengthOf(" 2 6 4) (mkPtok 6 ")" 3 7 6)) (mkPtok 7 "@lengthOf(" 2 6 4) (mkPtok 42 "_x" 3 4 5) (mkPtok 6 ")" 3 7 6)))] (LengthField (mkSpan (mkPtok 42 "a1" 3 8 7) (mkPtok 40 "," 5 10 13)) (mkLengthFieldDecl (mkSpan (mkPtok 42 "a1" 3 8 7) (mkPtok 40 "," 5 10 13)) None (mkPtok 42 "a1" 3 8 7) (mkLengthOf (mkSpan (mkPtok 7 "@lengthOf(" 3 11 8) (mkPtok 6 ")" 5 0 11)) (mkPtok 7 "@lengthOf(" 3 11 8) (mkPtok 42 "stringy" 4 0 10) (mkPtok 6 ")" 5 0 11)) (Some (mkPtok 43 "`{ , }`" 5 2 12)) (mkPtok 40 "," 5 10 13)))); (mkFieldWithAttr (mkSpan (mkPtok 38 "match" 5 11 14) (mkPtok 40 "," 12 2 39)) [] (MatchField (mkSpan (mkPtok 38 "match" 5 11 14) (mkPtok 40 "," 12 2 39)) (mkMatchFieldDecl (mkSpan (mkPtok 38 "match" 5 11 14) (mkPtok 3 "}" 12 0 38)) (mkPtok 38 "match" 5 11 14) (mkPtok 42 "o" 6 0 16) (mkPtok 17 "as" 7 0 17) (mkPtok 42 "A" 8 0 18) (mkPtok 2 "{" 8 2 19) [(mkMatchPair (mkSpan (mkPtok 30 "42" 8 4 20) (mkPtok 40 "," 8 13 23)) (MKDigits (mkPtok 30 "42" 8 4 20)) (mkPtok 39 ":" 8 6 21) (mkPtok 42 "i8i8" 8 8 22) (Some (mkPtok 40 "," 8 13 23))); (mkMatchPair (mkSpan (mkPtok 18 "[" 9 4 24) (mkPtok 40 "," 9 33 31)) (MKList (mkKeyList (mkSpan (mkPtok 18 "[" 9 4 24) (mkPtok 13 "]" 9 20 28)) (mkPtok 18 "[" 9 4 24) (mkPtok 31 """a\\""" 9 5 25) [((mkPtok 40 "," 9 10 26), (mkPtok 31 """a\""b""" 9 13 27))] (mkPtok 13 "]" 9 20 28))) (mkPtok 39 ":" 9 22 29) (mkPtok 42 "options1" 9 24 30) (Some (mkPtok 40 "," 9 33 31))); (mkMatchPair (mkSpan (mkPtok 31 """`tick`""" 9 36 32) (mkPtok 40 "," 9 53 35)) (MKString (mkPtok 31 """`tick`""" 9 36 32)) (mkPtok 39 ":" 9 45 33) (mkPtok 42 "falsey" 9 47 34) (Some (mkPtok 40 "," 9 53 35)))] (mkPtok 3 "}" 12 0 38)) (mkPtok 40 "," 12 2 39))); (mkFieldWithAttr (mkSpan (mkPtok 5 "@calculatedFrom(" 12 4 40) (mkPtok 40 "," 14 0 49)) [(FACalculatedFrom (mkSpan (mkPtok 5 "@calculatedFrom(" 12 4 40) (mkPtok 6 ")" 12 30 42)) (mkCalculatedFrom (mkSpan (mkPtok 5 "@calculatedFrom(" 12 4 40) (mkPtok 6 ")" 12 30 42)) (mkPtok 5 "@calculatedFrom(" 12 4 40) (mkPtok 31 """packet""" 12 21 41) (mkPtok 6 ")" 12 30 42))); (FALengthOf (mkSpan (mkPtok 7 "@lengthOf(" 13 4 43) (mkPtok 6 ")" 13 21 45)) (mkLengthOf (mkSpan (mkPtok 7 "@lengthOf(" 13 4 43) (mkPtok 6 ")" 13 21 45)) (mkPtok 7 "@lengthOf(" 13 4 43) (mkPtok 42 "zchar" 13 15 44) (mkPtok 6 ")" 13 21 45)))] (MetaField (mkSpan (mkPtok 20 "uint8" 13 23 46) (mkPtok 40 "," 14 0 49)) None (mkMetaDecl (mkSpan (mkPtok 20 "uint8" 13 23 46) (mkPtok 40 "," 14 0 49)) (TyBasic (mkSpan (mkPtok 20 "uint8" 13 23 46) (mkPtok 20 "uint8" 13 23 46)) (mkBasicType (mkSpan (mkPtok 20 "uint8" 13 23 46) (mkPtok 20 "uint8" 13 23 46)) (mkPtok 20 "uint8" 13 23 46))) (mkPtok 42 "rootA" 13 29 47) None (mkPtok 40 "," 14 0 49)))); (mkFieldWithAttr (mkSpan (mkPtok 42 "_x" 17 0 52) (mkPtok 40 "," 18 0 53)) [] (ObjectField (mkSpan (mkPtok 42 "_x" 17 0 52) (mkPtok 40 "," 18 0 53)) None (mkPtok 42 "_x" 17 0 52) None None (mkPtok 40 "," 18 0 53)))] (mkPtok 3 "}" 18 2 54))); (DPacket (mkPacketDef (mkSpan (mkPtok 35 "packet" 18 4 55) (mkPtok 3 "}" 35 7 127)) None (mkPtok 35 "packet" 18 4 55) (mkPtok 42 "pack" 18 11 56) (mkPtok 2 "{" 18 16 57) [(mkFieldWithAttr (mkSpan (mkPtok 9 "@tag(" 18 18 58) (mkPtok 40 "," 18 38 63)) [(FATag (mkSpan (mkPtok 9 "@tag(" 18 18 58) (mkPtok 6 ")" 18 26 60)) (mkTagAttr (mkSpan (mkPtok 9 "@tag(" 18 18 58) (mkPtok 6 ")" 18 26 60)) (mkPtok 9 "@tag(" 18 18 58) (mkPtok 30 "3" 18 24 59) (mkPtok 6 ")" 18 26 60)))] (MetaField (mkSpan (mkPtok 15 "string" 18 27 61) (mkPtok 40 "," 18 38 63)) None (mkMetaDecl (mkSpan (mkPtok 15 "string" 18 27 61) (mkPtok 40 "," 18 38 63)) (TyDynamic (mkSpan (mkPtok 15 "string" 18 27 61) (mkPtok 15 "string" 18 27 61)) (mkDynamicString (mkSpan (mkPtok 15 "string" 18 27 61) (mkPtok 15 "string" 18 27 61)) (mkPtok 15 "string" 18 27 61))) (mkPtok 42 "int" 18 34 62) None (mkPtok 40 "," 18 38 63)))); (mkFieldWithAttr (mkSpan (mkPtok 22 "u32" 18 40 64) (mkPtok 40 "," 19 6 70)) [] (LengthField (mkSpan (mkPtok 22 "u32" 18 40 64) (mkPtok 40 "," 19 6 70)) (mkLengthFieldDecl (mkSpan (mkPtok 22 "u32" 18 40 64) (mkPtok 40 "," 19 6 70)) (Some (TyBasic (mkSpan (mkPtok 22 "u32" 18 40 64) (mkPtok 22 "u32" 18 40 64)) (mkBasicType (mkSpan (mkPtok 22 "u32" 18 40 64) (mkPtok 22 "u32" 18 40 64)) (mkPtok 22 "u32" 18 40 64)))) (mkPtok 42 "pack" 18 44 65) (mkLengthOf (mkSpan (mkPtok 7 "@lengthOf(" 18 49 66) (mkPtok 6 ")" 18 64 68)) (mkPtok 7 "@lengthOf(" 18 49 66) (mkPtok 42 "Z9_" 18 60 67) (mkPtok 6 ")" 18 64 68)) (Some (mkPtok 43 (string_of_bytes [96; 108; 105; 110; 101; 49; 10; 108; 105; 110; 101; 50; 96]%N) 18 65 69)) (mkPtok 40 "," 19 6 70)))); (mkFieldWithAttr (mkSpan (mkPtok 42 "a1" 19 8 71) (mkPtok 40 "," 19 11 72)) [] (ObjectField (mkSpan (mkPtok 42 "a1" 19 8 71) (mkPtok 40 "," 19 11 72)) None (mkPtok 42 "a1" 19 8 71) None None (mkPtok 40 "," 19 11 72))); (mkFieldWithAttr (mkSpan (mkPtok 7 "@lengthOf(" 19 13 73) (mkPtok 40 "," 21 5 80)) [(FALengthOf (mkSpan (mkPtok 7 "@lengthOf(" 19 13 73) (mkPtok 6 ")" 19 27 75)) (mkLengthOf (mkSpan (mkPtok 7 "@lengthOf(" 19 13 73) (mkPtok 6 ")" 19 27 75)) (mkPtok 7 "@lengthOf(" 19 13 73) (mkPtok 42 "body" 19 23 74) (mkPtok 6 ")" 19 27 75)))] (ObjectField (mkSpan (mkPtok 42 "x" 19 29 76) (mkPtok 40 "," 21 5 80)) None (mkPtok 42 "x" 19 29 76) (Some (mkPtok 42 "T" 20 0 78)) (Some (mkPtok 43 "`a\`" 21 0 79)) (mkPtok 40 "," 21 5 80))); (mkFieldWithAttr (mkSpan (mkPtok 15 "string" 22 4 81) (mkPtok 40 "," 22 15 83)) [] (MetaField (mkSpan (mkPtok 15 "string" 22 4 81) (mkPtok 40 "," 22 15 83)) None (mkMetaDecl (mkSpan (mkPtok 15 "string" 22 4 81) (mkPtok 40 "," 22 15 83)) (TyDynamic (mkSpan (mkPtok 15 "string" 22 4 81) (mkPtok 15 "string" 22 4 81)) (mkDynamicString (mkSpan (mkPtok 15 "string" 22 4 81) (mkPtok 15 "string" 22 4 81)) (mkPtok 15 "string" 22 4 81))) (mkPtok 42 "a1" 22 11 82) None (mkPtok 40 "," 22 15 83)))); (mkFieldWithAttr (mkSpan (mkPtok 28 "float32" 22 17 84) (mkPtok 40 "," 26 24 91)) [] (CheckSumField (mkSpan (mkPtok 28 "float32" 22 17 84) (mkPtok 40 "," 26 24 91)) (mkChecksumFieldDecl (mkSpan (mkPtok 28 "float32" 22 17 84) (mkPtok 40 "," 26 24 91)) (Some (TyBasic (mkSpan (mkPtok 28 "float32" 22 17 84) (mkPtok 28 "float32" 22 17 84)) (mkBasicType (mkSpan (mkPtok 28 "float32" 22 17 84) (mkPtok 28 "float32" 22 17 84)) (mkPtok 28 "float32" 22 17 84)))) (mkPtok 42 "As" 23 4 85) (mkCalculatedFrom (mkSpan (mkPtok 5 "@calculatedFrom(" 26 0 88) (mkPtok 6 ")" 26 23 90)) (mkPtok 5 "@calculatedFrom(" 26 0 88) (mkPtok 31 (string_of_bytes [34; 195; 169; 116; 195; 169; 34]%N) 26 17 89) (mkPtok 6 ")" 26 23 90)) None (mkPtok 40 "," 26 24 91)))); (mkFieldWithAttr (mkSpan (mkPtok 16 "char[]" 26 26 92) (mkPtok 40 "," 26 49 95)) [] (MetaField (mkSpan (mkPtok 16 "char[]" 26 26 92) (mkPtok 40 "," 26 49 95)) None (mkMetaDecl (mkSpan (mkPtok 16 "char[]" 26 26 92) (mkPtok 40 "," 26 49 95)) (TyDynamic (mkSpan (mkPtok 16 "char[]" 26 26 92) (mkPtok 16 "char[]" 26 26 92)) (mkDynamicString (mkSpan (mkPtok 16 "char[]" 26 26 92) (mkPtok 16 "char[]" 26 26 92)) (mkPtok 16 "char[]" 26 26 92))) (mkPtok 42 "metadata" 26 33 93) (Some (mkPtok 43 "`it's`" 26 42 94)) (mkPtok 40 "," 26 49 95)))); (mkFieldWithAttr (mkSpan (mkPtok 42 "A" 26 51 96) (mkPtok 40 "," 26 65 98)) [] (ObjectField (mkSpan (mkPtok 42 "A" 26 51 96) (mkPtok 40 "," 26 65 98)) None (mkPtok 42 "A" 26 51 96) None (Some (mkPtok 43 "`two words`" 26 53 97)) (mkPtok 40 "," 26 65 98))); (mkFieldWithAttr (mkSpan (mkPtok 7 "@lengthOf(" 26 66 99) (mkPtok 40 "," 35 6 126)) [(FALengthOf (mkSpan (mkPtok 7 "@lengthOf(" 26 66 99) (mkPtok 6 ")" 27 0 101)) (mkLengthOf (mkSpan (mkPtok 7 "@lengthOf(" 26 66 99) (mkPtok 6 ")" 27 0 101)) (mkPtok 7 "@lengthOf(" 26 66 99) (mkPtok 42 "len" 26 76 100) (mkPtok 6 ")" 27 0 101)))] (InerObjectField (mkSpan (mkPtok 42 "u128" 27 2 102) (mkPtok 40 "," 35 6 126)) None (InerObjectDecl (mkSpan (mkPtok 42 "u128" 27 2 102) (mkPtok 3 "}" 35 4 125)) (mkPtok 42 "u128" 27 2 102) (mkPtok 2 "{" 27 7 103) [(LengthField (mkSpan (mkPtok 15 "string" 27 9 104) (mkPtok 40 "," 28 5 110)) (mkLengthFieldDecl (mkSpan (mkPtok 15 "string" 27 9 104) (mkPtok 40 "," 28 5 110)) (Some (TyDynamic (mkSpan (mkPtok 15 "string" 27 9 104) (mkPtok 15 "string" 27 9 104)) (mkDynamicString (mkSpan (mkPtok 15 "string" 27 9 104) (mkPtok 15 "string" 27 9 104)) (mkPtok 15 "string" 27 9 104)))) (mkPtok 42 "i8i8" 27 17 105) (mkLengthOf (mkSpan (mkPtok 7 "@lengthOf(" 27 21 106) (mkPtok 6 ")" 28 0 108)) (mkPtok 7 "@lengthOf(" 27 21 106) (mkPtok 42 "calculatedFrom" 27 32 107) (mkPtok 6 ")" 28 0 108)) (Some (mkPtok 43 "``" 28 2 109)) (mkPtok 40 "," 28 5 110))); (MetaField (mkSpan (mkPtok 14 "zchar[" 29 4 111) (mkPtok 40 "," 31 4 116)) None (mkMetaDecl (mkSpan (mkPtok 14 "zchar[" 29 4 111) (mkPtok 40 "," 31 4 116)) (TyFixed (mkSpan (mkPtok 14 "zchar[" 29 4 111) (mkPtok 13 "]" 30 0 113)) (mkFixedString (mkSpan (mkPtok 14 "zchar[" 29 4 111) (mkPtok 13 "]" 30 0 113)) (mkPtok 14 "zchar[" 29 4 111) (mkPtok 30 "007" 29 10 112) (mkPtok 13 "]" 30 0 113))) (mkPtok 42 "uint8x" 30 2 114) (Some (mkPtok 43 (string_of_bytes [96; 195; 169; 96]%N) 31 0 115)) (mkPtok 40 "," 31 4 116))); (InerObjectField (mkSpan (mkPtok 42 "Z9_" 31 6 117) (mkPtok 40 "," 35 2 124)) None (InerObjectDecl (mkSpan (mkPtok 42 "Z9_" 31 6 117) (mkPtok 3 "}" 35 0 123)) (mkPtok 42 "Z9_" 31 6 117) (mkPtok 2 "{" 32 4 118) [(MetaField (mkSpan (mkPtok 21 "u16" 32 6 119) (mkPtok 40 "," 34 13 122)) None (mkMetaDecl (mkSpan (mkPtok 21 "u16" 32 6 119) (mkPtok 40 "," 34 13 122)) (TyBasic (mkSpan (mkPtok 21 "u16" 32 6 119) (mkPtok 21 "u16" 32 6 119)) (mkBasicType (mkSpan (mkPtok 21 "u16" 32 6 119) (mkPtok 21 "u16" 32 6 119)) (mkPtok 21 "u16" 32 6 119))) (mkPtok 42 "matchKey" 34 4 121) None (mkPtok 40 "," 34 13 122)))] (mkPtok 3 "}" 35 0 123)) (mkPtok 40 "," 35 2 124))] (mkPtok 3 "}" 35 4 125)) (mkPtok 40 "," 35 6 126)))] (mkPtok 3 "}" 35 7 127)))])).
Eval vm_compute in ("<<<M766>>>" ++ check (runes_of_ascii "packet
i8i8{
u32
T @lengthOf( MetaDataX
    )`u8 x,`
// c
// packet A { u8 x, }
, // c
As @calculatedFrom( ""abc"" )
    // trailing space 
    , @leftPad (' '
    ) @calculatedFrom(
    //
    """ ++ [128512]%N ++ runes_of_ascii """
    ) chars, // `tick` ""quote"" 'q'
zchar[255 ]zchar , Packet asx ,
// " ++ [128512]%N ++ runes_of_ascii " emoji
// packet A { u8 x, }
Z9_ charz , uint64 packetx
,
    @tag(
3
)@calculatedFrom( ""abc"")@tag( 007
) repeat BodyLength	lengthOf , }	packet	pack {
@lengthOf(rootA  )
@tag( /// triple
7
    )
@rightPad (// trailing space 
' ' )
body
// `tick` ""quote"" 'q'
// trailing space 
x_y_z
    ,
a1
{ f32 crc// `tick` ""quote"" 'q'
@lengthOf(repeatCount  ) //
, lengthOf
    int
`" ++ [28040; 24687; 31867; 22411]%N ++ runes_of_ascii "`
,
match pack as repeatCount {""1"":calculatedFrom
,
4294967296 // @lengthOf(
: charz }
, } , @tag( 255)
@lengthOf( float ) repeat i32 options1	, @lengthOf(
    msg_type) @leftPad
(
) @lengthOf(	body)
uint8x body , }root packet
    // c
    x
    { @tag(
    7) repeat f32a rootA `line1
line2`, @leftPad
    (
'\x00' )@calculatedFrom(
""it's"" )
    @lengthOf( i64_)
// packet A { u8 x, }
// " ++ [27880; 37322]%N ++ runes_of_ascii "
repeat roots { metadata // " ++ [128512]%N ++ runes_of_ascii " emoji
{ repeat calculatedFrom {f32
x , uint64 A,
    match
// " ++ [128512]%N ++ runes_of_ascii " emoji
// c
leftPad
as Pad { ""a	b""
    : leftPad , 255 //	t
:u8x , }  , } ,}  ,// c
repeat char[ 0123456789]
    //	t
    falsey,	char[ 0 ] trueish
@calculatedFrom(
    ""packet""
) ,	int16 repeatCount
, } ,
Packet @lengthOf(
int )`line1
line2`
    ,	uint16 i64_ , Header { // 50% %s
string metadata,
    // `tick` ""quote"" 'q'
    repeat Pad
    pack, crc@lengthOf( Z9_	) `" ++ [233]%N ++ runes_of_ascii "`
,
}//x
, @lengthOf( x_y_z ) @lengthOf( A ) @tag( 65535 )
int8 Logon
@calculatedFrom( ""`tick`""
) `line1
line2` , @calculatedFrom( ""packet"" ) u8x
Foo`100% of %d`,roots
@calculatedFrom(
// `tick` ""quote"" 'q'
//	t
""\n""
    ),x_y_z{ zchar[ 42// trailing space 
]
charz @lengthOf( u128
) , leftPad
`say ""hi""` ,}	,
    }
")).
Eval vm_compute in ("<<<M798>>>" ++ check (runes_of_ascii "// packet A { u8 x, }
MetaData repeatCount { // @lengthOf(
Z9_ int`a\`
    , } options {Pad=
' '
    ; /// triple
A =  ""\" ++ [233]%N ++ runes_of_ascii """
; As=
    uint64  ;//	t
}root packet
    f32a{}
")).
Eval vm_compute in ("<<<M830>>>" ++ check (runes_of_ascii "MetaData Packet
{ Z9_ zchar , Packet falsey
,
    //x
    } 	 ")).
Eval vm_compute in ("<<<M862>>>" ++ check (runes_of_ascii "root
    packet
    u8x { } //
packet Header
{ @calculatedFrom( ""{,}""/// triple
)
repeat a1
body	`// not a comment` ,
} root packet o // c
{
    uint8 Header`" ++ [233]%N ++ runes_of_ascii "` , }packet tag {
repeat x_y_z { uint16
msg_type //x
,
}
, }	root packet Z9_ {zchar[
4294967296]
    options1 ,
// @lengthOf(
// packet A { u8 x, }
@tag(
    // `tick` ""quote"" 'q'
    0123456789 ) u32
    i64_
    @calculatedFrom( ""abc"" )	`a\` , match leftPad  as // 50% %s
packetx { 00
: metadata
    ,
    65535: chars, ""// no comment""
    :  options1,},// packet A { u8 x, }
repeat zchar[1
]
    pack
    ,	@lengthOf(trueish )	repeat i32
    crc
    `
` , int16 crc@lengthOf( zchar )
, }
")).
Eval vm_compute in ("<<<M894>>>" ++ check (runes_of_ascii "
")).
Eval vm_compute in ("<<<M926>>>" ++ check (runes_of_ascii "packet a1{ @calculatedFrom( ""a\\"" ) // " ++ [128512]%N ++ runes_of_ascii " emoji
match
    u8x as
    Foo {[ 007 , 255
, ""it's""
] : T , } ,
    // c
    @leftPad ('\x00' // trailing space 
)
u ,
    @tag( 4294967296
)
char[
0
    ] Packet `a\` , int32 a1
, }packet // c
Packet { @leftPad
( ' ')float64 repeatCount @lengthOf( len ) ,  @lengthOf( asx )
    zchar[ 4294967296 ]Logon
, @calculatedFrom( ""\" ++ [233]%N ++ runes_of_ascii """ /// triple
)repeat tag
len
    , repeatCount @calculatedFrom( ""x y""	) // " ++ [128512]%N ++ runes_of_ascii " emoji
, } packet pack {
    @calculatedFrom(""\n"" )	u , }	packet f32a
    { @tag(10 )
char[255]  body@calculatedFrom( ""CRC32""  ) , Foo`100% of %d` , @leftPad (  '\x00'//x
) //	t
char[] stringy,
    @leftPad
// " ++ [128512]%N ++ runes_of_ascii " emoji
//x
( '\x00'
    ) zchar[
42 ]i8i8 , leftPad @lengthOf(  zchar
    ) ,
@rightPad ( '0' )
@rightPad
(	' ') @lengthOf(
Packet) charz ,
} options {
    Pad =
""\n""
    // `tick` ""quote"" 'q'
    int ='0' ;
options1
    =
0 ;	}
")).
Eval vm_compute in ("<<<M958>>>" ++ check (runes_of_ascii "options
    {} packet
    Pad { repeat
    //	t
    packetx rootA `" ++ [233]%N ++ runes_of_ascii "` , char[ 255 ] asx `u8 x,` , }
packet f32a {/// triple
repeat len
, //x
match calculatedFrom  as  u128{
// " ++ [128512]%N ++ runes_of_ascii " emoji
// " ++ [128512]%N ++ runes_of_ascii " emoji
0123456789:crc ,	[ 0 , 10 ,
""" ++ [128512]%N ++ runes_of_ascii """ , 65535 ,
// 50% %s
//
7 , ""it's""
, 0123456789
]
: i64_, 0123456789 : msg_type // " ++ [27880; 37322]%N ++ runes_of_ascii "
,
    } , } options { Z9_ =string ;
matchKey =
    ""packet"" }")).
Eval vm_compute in ("<<<T958>>>" ++ terms [mkTok 1 "options" 1 0 false; mkTok 2 "{" 2 4 false; mkTok 3 "}" 2 5 false; mkTok 35 "packet" 2 7 false; mkTok 42 "Pad" 3 4 false; mkTok 2 "{" 3 8 false; mkTok 36 "repeat" 3 10 false; mkTok 44 (string_of_bytes [47; 47; 9; 116]%N) 4 4 true; mkTok 42 "packetx" 5 4 false; mkTok 42 "rootA" 5 12 false; mkTok 43 (string_of_bytes [96; 195; 169; 96]%N) 5 18 false; mkTok 40 "," 5 22 false; mkTok 12 "char[" 5 24 false; mkTok 30 "255" 5 30 false; mkTok 13 "]" 5 34 false; mkTok 42 "asx" 5 36 false; mkTok 43 "`u8 x,`" 5 40 false; mkTok 40 "," 5 48 false; mkTok 3 "}" 5 50 false; mkTok 35 "packet" 6 0 false; mkTok 42 "f32a" 6 7 false; mkTok 2 "{" 6 12 false; mkTok 44 "/// triple" 6 13 true; mkTok 36 "repeat" 7 0 false; mkTok 42 "len" 7 7 false; mkTok 40 "," 8 0 false; mkTok 44 "//x" 8 2 true; mkTok 38 "match" 9 0 false; mkTok 42 "calculatedFrom" 9 6 false; mkTok 17 "as" 9 22 false; mkTok 42 "u128" 9 26 false; mkTok 2 "{" 9 30 false; mkTok 44 (string_of_bytes [47; 47; 32; 240; 159; 152; 128; 32; 101; 109; 111; 106; 105]%N) 10 0 true; mkTok 44 (string_of_bytes [47; 47; 32; 240; 159; 152; 128; 32; 101; 109; 111; 106; 105]%N) 11 0 true; mkTok 30 "0123456789" 12 0 false; mkTok 39 ":" 12 10 false; mkTok 42 "crc" 12 11 false; mkTok 40 "," 12 15 false; mkTok 18 "[" 12 17 false; mkTok 30 "0" 12 19 false; mkTok 40 "," 12 21 false; mkTok 30 "10" 12 23 false; mkTok 40 "," 12 26 false; mkTok 31 (string_of_bytes [34; 240; 159; 152; 128; 34]%N) 13 0 false; mkTok 40 "," 13 4 false; mkTok 30 "65535" 13 6 false; mkTok 40 "," 13 12 false; mkTok 44 "// 50% %s" 14 0 true; mkTok 44 "//" 15 0 true; mkTok 30 "7" 16 0 false; mkTok 40 "," 16 2 false; mkTok 31 """it's""" 16 4 false; mkTok 40 "," 17 0 false; mkTok 30 "0123456789" 17 2 false; mkTok 13 "]" 18 0 false; mkTok 39 ":" 19 0 false; mkTok 42 "i64_" 19 2 false; mkTok 40 "," 19 6 false; mkTok 30 "0123456789" 19 8 false; mkTok 39 ":" 19 19 false; mkTok 42 "msg_type" 19 21 false; mkTok 44 (string_of_bytes [47; 47; 32; 230; 179; 168; 233; 135; 138]%N) 19 30 true; mkTok 40 "," 20 0 false; mkTok 3 "}" 21 4 false; mkTok 40 "," 21 6 false; mkTok 3 "}" 21 8 false; mkTok 1 "options" 21 10 false; mkTok 2 "{" 21 18 false; mkTok 42 "Z9_" 21 20 false; mkTok 4 "=" 21 24 false; mkTok 15 "string" 21 25 false; mkTok 41 ";" 21 32 false; mkTok 42 "matchKey" 22 0 false; mkTok 4 "=" 22 9 false; mkTok 31 """packet""" 23 4 false; mkTok 3 "}" 23 13 false; mkTok 0 "<EOF>" 23 14 false] (mkPacket (mkPtok 1 "options" 1 0 0) (Some (mkPtok 3 "}" 23 13 75)) [(DOption (mkOptionDef (mkSpan (mkPtok 1 "options" 1 0 0) (mkPtok 3 "}" 2 5 2)) (mkPtok 1 "options" 1 0 0) (mkPtok 2 "{" 2 4 1) [] (mkPtok 3 "}" 2 5 2))); (DPacket (mkPacketDef (mkSpan (mkPtok 35 "packet" 2 7 3) (mkPtok 3 "}" 5 50 18)) None (mkPtok 35 "packet" 2 7 3) (mkPtok 42 "Pad" 3 4 4) (mkPtok 2 "{" 3 8 5) [(mkFieldWithAttr (mkSpan (mkPtok 36 "repeat" 3 10 6) (mkPtok 40 "," 5 22 11)) [] (ObjectField (mkSpan (mkPtok 36 "repeat" 3 10 6) (mkPtok 40 "," 5 22 11)) (Some (mkPtok 36 "repeat" 3 10 6)) (mkPtok 42 "packetx" 5 4 8) (Some (mkPtok 42 "rootA" 5 12 9)) (Some (mkPtok 43 (string_of_bytes [96; 195; 169; 96]%N) 5 18 10)) (mkPtok 40 "," 5 22 11))); (mkFieldWithAttr (mkSpan (mkPtok 12 "char[" 5 24 12) (mkPtok 40 "," 5 48 17)) [] (MetaField (mkSpan (mkPtok 12 "char[" 5 24 12) (mkPtok 40 "," 5 48 17)) None (mkMetaDecl (mkSpan (mkPtok 12 "char[" 5 24 12) (mkPtok 40 "," 5 48 17)) (TyFixed (mkSpan (mkPtok 12 "char[" 5 24 12) (mkPtok 13 "]" 5 34 14)) (mkFixedString (mkSpan (mkPtok 12 "char[" 5 24 12) (mkPtok 13 "]" 5 34 14)) (mkPtok 12 "char[" 5 24 12) (mkPtok 30 "255" 5 30 13) (mkPtok 13 "]" 5 34 14))) (mkPtok 42 "asx" 5 36 15) (Some (mkPtok 43 "`u8 x,`" 5 40 16)) (mkPtok 40 "," 5 48 17))))] (mkPtok 3 "}" 5 50 18))); (DPacket (mkPacketDef (mkSpan (mkPtok 35 "packet" 6 0 19) (mkPtok 3 "}" 21 8 65)) None (mkPtok 35 "packet" 6 0 19) (mkPtok 42 "f32a" 6 7 20) (mkPtok 2 "{" 6 12 21) [(mkFieldWithAttr (mkSpan (mkPtok 36 "repeat" 7 0 23) (mkPtok 40 "," 8 0 25)) [] (ObjectField (mkSpan (mkPtok 36 "repeat" 7 0 23) (mkPtok 40 "," 8 0 25)) (Some (mkPtok 36 "repeat" 7 0 23)) (mkPtok 42 "len" 7 7 24) None None (mkPtok 40 "," 8 0 25))); (mkFieldWithAttr (mkSpan (mkPtok 38 "match" 9 0 27) (mkPtok 40 "," 21 6 64)) [] (MatchField (mkSpan (mkPtok 38 "match" 9 0 27) (mkPtok 40 "," 21 6 64)) (mkMatchFieldDecl (mkSpan (mkPtok 38 "match" 9 0 27) (mkPtok 3 "}" 21 4 63)) (mkPtok 38 "match" 9 0 27) (mkPtok 42 "calculatedFrom" 9 6 28) (mkPtok 17 "as" 9 22 29) (mkPtok 42 "u128" 9 26 30) (mkPtok 2 "{" 9 30 31) [(mkMatchPair (mkSpan (mkPtok 30 "0123456789" 12 0 34) (mkPtok 40 "," 12 15 37)) (MKDigits (mkPtok 30 "0123456789" 12 0 34)) (mkPtok 39 ":" 12 10 35) (mkPtok 42 "crc" 12 11 36) (Some (mkPtok 40 "," 12 15 37))); (mkMatchPair (mkSpan (mkPtok 18 "[" 12 17 38) (mkPtok 40 "," 19 6 57)) (MKList (mkKeyList (mkSpan (mkPtok 18 "[" 12 17 38) (mkPtok 13 "]" 18 0 54)) (mkPtok 18 "[" 12 17 38) (mkPtok 30 "0" 12 19 39) [((mkPtok 40 "," 12 21 40), (mkPtok 30 "10" 12 23 41)); ((mkPtok 40 "," 12 26 42), (mkPtok 31 (string_of_bytes [34; 240; 159; 152; 128; 34]%N) 13 0 43)); ((mkPtok 40 "," 13 4 44), (mkPtok 30 "65535" 13 6 45)); ((mkPtok 40 "," 13 12 46), (mkPtok 30 "7" 16 0 49)); ((mkPtok 40 "," 16 2 50), (mkPtok 31 """it's""" 16 4 51)); ((mkPtok 40 "," 17 0 52), (mkPtok 30 "0123456789" 17 2 53))] (mkPtok 13 "]" 18 0 54))) (mkPtok 39 ":" 19 0 55) (mkPtok 42 "i64_" 19 2 56) (Some (mkPtok 40 "," 19 6 57))); (mkMatchPair (mkSpan (mkPtok 30 "0123456789" 19 8 58) (mkPtok 40 "," 20 0 62)) (MKDigits (mkPtok 30 "0123456789" 19 8 58)) (mkPtok 39 ":" 19 19 59) (mkPtok 42 "msg_type" 19 21 60) (Some (mkPtok 40 "," 20 0 62)))] (mkPtok 3 "}" 21 4 63)) (mkPtok 40 "," 21 6 64)))] (mkPtok 3 "}" 21 8 65))); (DOption (mkOptionDef (mkSpan (mkPtok 1 "options" 21 10 66) (mkPtok 3 "}" 23 13 75)) (mkPtok 1 "options" 21 10 66) (mkPtok 2 "{" 21 18 67) [(mkOptionDecl (mkSpan (mkPtok 42 "Z9_" 21 20 68) (mkPtok 41 ";" 21 32 71)) (mkPtok 42 "Z9_" 21 20 68) (mkPtok 4 "=" 21 24 69) (VType (mkSpan (mkPtok 15 "string" 21 25 70) (mkPtok 15 "string" 21 25 70)) (TyDynamic (mkSpan (mkPtok 15 "string" 21 25 70) (mkPtok 15 "string" 21 25 70)) (mkDynamicString (mkSpan (mkPtok 15 "string" 21 25 70) (mkPtok 15 "string" 21 25 70)) (mkPtok 15 "string" 21 25 70)))) (Some (mkPtok 41 ";" 21 32 71))); (mkOptionDecl (mkSpan (mkPtok 42 "matchKey" 22 0 72) (mkPtok 31 """packet""" 23 4 74)) (mkPtok 42 "matchKey" 22 0 72) (mkPtok 4 "=" 22 9 73) (VString (mkSpan (mkPtok 31 """packet""" 23 4 74) (mkPtok 31 """packet""" 23 4 74)) (mkPtok 31 """packet""" 23 4 74)) None)] (mkPtok 3 "}" 23 13 75)))])).
Eval vm_compute in ("<<<M990>>>" ++ check (runes_of_ascii "root packet BodyLength{ string
MetaDataX,
}")).
Eval vm_compute in ("<<<M1022>>>" ++ check (runes_of_ascii "packet
    x_y_z { msg_type  matchKey `doc` , }
")).
Eval vm_compute in ("<<<M1054>>>" ++ check (runes_of_ascii "root
packet
    // @lengthOf(
    x { @calculatedFrom( """ ++ [233]%N ++ runes_of_ascii "t" ++ [233]%N ++ runes_of_ascii """)
// `tick` ""quote"" 'q'
// 50% %s
Header tag
    // packet A { u8 x, }
    `
`
,	pack
BodyLength  `" ++ [233]%N ++ runes_of_ascii "` ,/// triple
@tag(7) Packet ,} packet
BodyLength { BodyLength	,} packet float{ match
packetx // " ++ [27880; 37322]%N ++ runes_of_ascii "
as u{ [
10, """ ++ [128512]%N ++ runes_of_ascii """
, 255 , ""// no comment""
, 42 //x
,
    // a // b
    00 // `tick` ""quote"" 'q'
,
/// triple
// a // b
""{,}"" ,
""" ++ [28040; 24687]%N ++ runes_of_ascii """ ]
    : Packet // " ++ [128512]%N ++ runes_of_ascii " emoji
,
    }, @rightPad
('0'
    )
    repeat  uint16 chars //
,
    @calculatedFrom(	""" ++ [233]%N ++ runes_of_ascii "t" ++ [233]%N ++ runes_of_ascii """
)
string
leftPad
,match len as stringy
    { 3 //	t
: pack , }
    ,repeat
    // " ++ [27880; 37322]%N ++ runes_of_ascii "
    u8
Foo
,	roots @lengthOf( len
    ) `it's` ,
// a // b
// trailing space 
@lengthOf(u128 ) char[255 ]	string_, zchar[0123456789 ] stringy
    , @tag(	10 //x
)match metadata
as A{ 0123456789: lengthOf ,
10:
    o
,
// packet A { u8 x, }
// 50% %s
[ ""a	b"" // a // b
,00
,3 , 007 ,
""a\""b"" , 10
] : chars
, 42 :
    u""" ++ [28040; 24687]%N ++ runes_of_ascii """ :
f32a
, 7 :
    u8x  , } // a // b
,
    }
root packet
    //x
    u { repeat o{ repeat crc { int8 i8i8
    // a // b
    @calculatedFrom(""x y"" )  `tab	here` , repeat falsey { uint32 crc
@lengthOf(
    MetaDataX
)  `100% of %d` , }
,
    }
    , }
, }
")).
Eval vm_compute in ("<<<M1086>>>" ++ check (runes_of_ascii "// `tick` ""quote"" 'q'
options{ u // `tick` ""quote"" 'q'
= false ;pack = 4294967296 u128 // " ++ [128512]%N ++ runes_of_ascii " emoji
= i8;
// a // b
// 50% %s
roots
= ""packet"";
falsey // 50% %s
=  007
;	} options {
    // @lengthOf(
    BodyLength = true ; metadata =  true x /// triple
=  uint16 ; }
")).
Eval vm_compute in ("<<<M1118>>>" ++ check (runes_of_ascii "//
packet Packet { repeat char[] len,zchar As
    `line1
line2` , @lengthOf( charz
// " ++ [27880; 37322]%N ++ runes_of_ascii "
// `tick` ""quote"" 'q'
) repeat int8 metadata, /// triple
}")).
Eval vm_compute in ("<<<M1150>>>" ++ check (runes_of_ascii "root packet charz { @calculatedFrom( """ ++ [233]%N ++ runes_of_ascii "t" ++ [233]%N ++ runes_of_ascii """ )Foo
    x `u8 x,` ,
    rootA @lengthOf(leftPad) , zchar[
0123456789 ]	MetaDataX
    `" ++ [28040; 24687; 31867; 22411]%N ++ runes_of_ascii "`,
@tag(7 )packetx
    // trailing space 
    @calculatedFrom( ""CRC32""
) `it's`
,	@lengthOf(falsey ) repeat zchar[ 4294967296
]
    string_ ,@lengthOf( options1  ) int
{ int64
//x
// 50% %s
u
@calculatedFrom( ""1""
) `line1
line2`
    ,	repeat zchar[  00 /// triple
]falsey , char[]	stringy @calculatedFrom( ""it's"" )// @lengthOf(
`crlf
line`	, // a // b
i16 A , } ,@calculatedFrom(
""`tick`"" )f64 BodyLength @lengthOf( /// triple
len	)  `crlf
line`
    , } MetaData msg_type{uint64
// trailing space 
// a // b
roots `100% of %d`
, } options { packetx= true
    }MetaData uint8x{}root packet
// trailing space 
//
crc { // trailing space 
char[
// `tick` ""quote"" 'q'
// " ++ [27880; 37322]%N ++ runes_of_ascii "
4294967296
    ]i64_ , @leftPad ( '0'
) @lengthOf(
    msg_type) repeat Foo`line1
line2` ,
asx i64_ //	t
`two words` ,@tag( 7
    ) Packet , repeat // c
i64 u8x`say ""hi""`
    ,zchar[ 7 ] x_y_z ,// `tick` ""quote"" 'q'
match Foo as
    Pad { // c
[""abc"" ,
""""
    ]:options1 ,
""a	b"":	crc , 42:rootA
, // " ++ [128512]%N ++ runes_of_ascii " emoji
}// " ++ [128512]%N ++ runes_of_ascii " emoji
,	@lengthOf( // trailing space 
Header)body int// 50% %s
, @tag(
1 )@calculatedFrom(""" ++ [233]%N ++ runes_of_ascii "t" ++ [233]%N ++ runes_of_ascii """ ) char[
255 ]
    // 50% %s
    charz	@lengthOf( A ) , /// triple
uint64
// @lengthOf(
/// triple
Packet
@calculatedFrom( ""1"")`100% of %d`
,}")).
Eval vm_compute in ("<<<M1182>>>" ++ check (runes_of_ascii "packet  rootA {}
    packet lengthOf /// triple
{
    @calculatedFrom(
""a\""b""
    )
    @leftPad (
'\x00' ) //
Logon {x@calculatedFrom(""a	b""
    ) , } , }
    // c
    packet //
Pad { // " ++ [27880; 37322]%N ++ runes_of_ascii "
@leftPad (
// @lengthOf(
/// triple
) @lengthOf( u128
) // @lengthOf(
@rightPad ( ' ') T @lengthOf( Foo )
    //	t
    `{ , }`, }
")).
Eval vm_compute in ("<<<T1182>>>" ++ terms [mkTok 35 "packet" 1 0 false; mkTok 42 "rootA" 1 8 false; mkTok 2 "{" 1 14 false; mkTok 3 "}" 1 15 false; mkTok 35 "packet" 2 4 false; mkTok 42 "lengthOf" 2 11 false; mkTok 44 "/// triple" 2 20 true; mkTok 2 "{" 3 0 false; mkTok 5 "@calculatedFrom(" 4 4 false; mkTok 31 """a\""b""" 5 0 false; mkTok 6 ")" 6 4 false; mkTok 32 "@leftPad" 7 4 false; mkTok 8 "(" 7 13 false; mkTok 33 "'\x00'" 8 0 false; mkTok 6 ")" 8 7 false; mkTok 44 "//" 8 9 true; mkTok 42 "Logon" 9 0 false; mkTok 2 "{" 9 6 false; mkTok 42 "x" 9 7 false; mkTok 5 "@calculatedFrom(" 9 8 false; mkTok 31 (string_of_bytes [34; 97; 9; 98; 34]%N) 9 24 false; mkTok 6 ")" 10 4 false; mkTok 40 "," 10 6 false; mkTok 3 "}" 10 8 false; mkTok 40 "," 10 10 false; mkTok 3 "}" 10 12 false; mkTok 44 "// c" 11 4 true; mkTok 35 "packet" 12 4 false; mkTok 44 "//" 12 11 true; mkTok 42 "Pad" 13 0 false; mkTok 2 "{" 13 4 false; mkTok 44 (string_of_bytes [47; 47; 32; 230; 179; 168; 233; 135; 138]%N) 13 6 true; mkTok 32 "@leftPad" 14 0 false; mkTok 8 "(" 14 9 false; mkTok 44 "// @lengthOf(" 15 0 true; mkTok 44 "/// triple" 16 0 true; mkTok 6 ")" 17 0 false; mkTok 7 "@lengthOf(" 17 2 false; mkTok 42 "u128" 17 13 false; mkTok 6 ")" 18 0 false; mkTok 44 "// @lengthOf(" 18 2 true; mkTok 32 "@rightPad" 19 0 false; mkTok 8 "(" 19 10 false; mkTok 33 "' '" 19 12 false; mkTok 6 ")" 19 15 false; mkTok 42 "T" 19 17 false; mkTok 7 "@lengthOf(" 19 19 false; mkTok 42 "Foo" 19 30 false; mkTok 6 ")" 19 34 false; mkTok 44 (string_of_bytes [47; 47; 9; 116]%N) 20 4 true; mkTok 43 "`{ , }`" 21 4 false; mkTok 40 "," 21 11 false; mkTok 3 "}" 21 13 false; mkTok 0 "<EOF>" 22 0 false] (mkPacket (mkPtok 35 "packet" 1 0 0) (Some (mkPtok 3 "}" 21 13 52)) [(DPacket (mkPacketDef (mkSpan (mkPtok 35 "packet" 1 0 0) (mkPtok 3 "}" 1 15 3)) None (mkPtok 35 "packet" 1 0 0) (mkPtok 42 "rootA" 1 8 1) (mkPtok 2 "{" 1 14 2) [] (mkPtok 3 "}" 1 15 3))); (DPacket (mkPacketDef (mkSpan (mkPtok 35 "packet" 2 4 4) (mkPtok 3 "}" 10 12 25)) None (mkPtok 35 "packet" 2 4 4) (mkPtok 42 "lengthOf" 2 11 5) (mkPtok 2 "{" 3 0 7) [(mkFieldWithAttr (mkSpan (mkPtok 5 "@calculatedFrom(" 4 4 8) (mkPtok 40 "," 10 10 24)) [(FACalculatedFrom (mkSpan (mkPtok 5 "@calculatedFrom(" 4 4 8) (mkPtok 6 ")" 6 4 10)) (mkCalculatedFrom (mkSpan (mkPtok 5 "@calculatedFrom(" 4 4 8) (mkPtok 6 ")" 6 4 10)) (mkPtok 5 "@calculatedFrom(" 4 4 8) (mkPtok 31 """a\""b""" 5 0 9) (mkPtok 6 ")" 6 4 10))); (FAPadding (mkSpan (mkPtok 32 "@leftPad" 7 4 11) (mkPtok 6 ")" 8 7 14)) (mkPaddingAttr (mkSpan (mkPtok 32 "@leftPad" 7 4 11) (mkPtok 6 ")" 8 7 14)) (mkPtok 32 "@leftPad" 7 4 11) (mkPtok 8 "(" 7 13 12) (Some (mkPtok 33 "'\x00'" 8 0 13)) (mkPtok 6 ")" 8 7 14)))] (InerObjectField (mkSpan (mkPtok 42 "Logon" 9 0 16) (mkPtok 40 "," 10 10 24)) None (InerObjectDecl (mkSpan (mkPtok 42 "Logon" 9 0 16) (mkPtok 3 "}" 10 8 23)) (mkPtok 42 "Logon" 9 0 16) (mkPtok 2 "{" 9 6 17) [(CheckSumField (mkSpan (mkPtok 42 "x" 9 7 18) (mkPtok 40 "," 10 6 22)) (mkChecksumFieldDecl (mkSpan (mkPtok 42 "x" 9 7 18) (mkPtok 40 "," 10 6 22)) None (mkPtok 42 "x" 9 7 18) (mkCalculatedFrom (mkSpan (mkPtok 5 "@calculatedFrom(" 9 8 19) (mkPtok 6 ")" 10 4 21)) (mkPtok 5 "@calculatedFrom(" 9 8 19) (mkPtok 31 (string_of_bytes [34; 97; 9; 98; 34]%N) 9 24 20) (mkPtok 6 ")" 10 4 21)) None (mkPtok 40 "," 10 6 22)))] (mkPtok 3 "}" 10 8 23)) (mkPtok 40 "," 10 10 24)))] (mkPtok 3 "}" 10 12 25))); (DPacket (mkPacketDef (mkSpan (mkPtok 35 "packet" 12 4 27) (mkPtok 3 "}" 21 13 52)) None (mkPtok 35 "packet" 12 4 27) (mkPtok 42 "Pad" 13 0 29) (mkPtok 2 "{" 13 4 30) [(mkFieldWithAttr (mkSpan (mkPtok 32 "@leftPad" 14 0 32) (mkPtok 40 "," 21 11 51)) [(FAPadding (mkSpan (mkPtok 32 "@leftPad" 14 0 32) (mkPtok 6 ")" 17 0 36)) (mkPaddingAttr (mkSpan (mkPtok 32 "@leftPad" 14 0 32) (mkPtok 6 ")" 17 0 36)) (mkPtok 32 "@leftPad" 14 0 32) (mkPtok 8 "(" 14 9 33) None (mkPtok 6 ")" 17 0 36))); (FALengthOf (mkSpan (mkPtok 7 "@lengthOf(" 17 2 37) (mkPtok 6 ")" 18 0 39)) (mkLengthOf (mkSpan (mkPtok 7 "@lengthOf(" 17 2 37) (mkPtok 6 ")" 18 0 39)) (mkPtok 7 "@lengthOf(" 17 2 37) (mkPtok 42 "u128" 17 13 38) (mkPtok 6 ")" 18 0 39))); (FAPadding (mkSpan (mkPtok 32 "@rightPad" 19 0 41) (mkPtok 6 ")" 19 15 44)) (mkPaddingAttr (mkSpan (mkPtok 32 "@rightPad" 19 0 41) (mkPtok 6 ")" 19 15 44)) (mkPtok 32 "@rightPad" 19 0 41) (mkPtok 8 "(" 19 10 42) (Some (mkPtok 33 "' '" 19 12 43)) (mkPtok 6 ")" 19 15 44)))] (LengthField (mkSpan (mkPtok 42 "T" 19 17 45) (mkPtok 40 "," 21 11 51)) (mkLengthFieldDecl (mkSpan (mkPtok 42 "T" 19 17 45) (mkPtok 40 "," 21 11 51)) None (mkPtok 42 "T" 19 17 45) (mkLengthOf (mkSpan (mkPtok 7 "@lengthOf(" 19 19 46) (mkPtok 6 ")" 19 34 48)) (mkPtok 7 "@lengthOf(" 19 19 46) (mkPtok 42 "Foo" 19 30 47) (mkPtok 6 ")" 19 34 48)) (Some (mkPtok 43 "`{ , }`" 21 4 50)) (mkPtok 40 "," 21 11 51))))] (mkPtok 3 "}" 21 13 52)))])).
Eval vm_compute in ("<<<M1214>>>" ++ check (runes_of_ascii "MetaData
pack
{ u8 _x
    //x
    ,
    //	t
    zchar
    uint8x`two words`  ,  chars  i8i8 // trailing space 
,	}
MetaData
chars{
    //
    i64 pack	`` ,
} packet _x
{
    }

")).
Eval vm_compute in ("<<<M1246>>>" ++ check (runes_of_ascii "// c
packet trueish{ match lengthOf	as a1 {
/// triple
// c
""{,}""
: o ,
} ,	match x  as string_ //	t
{ [
10, ""a\\""
    ]
:options1
    },
    // trailing space 
    } // 50% %s")).
Eval vm_compute in ("<<<M1278>>>" ++ check (runes_of_ascii "MetaData charz { msg_type //x
metadata`two words` ,
    //
    char[  7 ] uint8x `two words` , i16 leftPad ,
// " ++ [128512]%N ++ runes_of_ascii " emoji
// c
float64	repeatCount
`` // c
, } options
{
    o = false
    ; packetx =	true ;
float=
    //x
    ""it's""
; f32a =
//
// " ++ [128512]%N ++ runes_of_ascii " emoji
""\n"";
Z9_=0 }
")).
Eval vm_compute in ("<<<M1310>>>" ++ check (runes_of_ascii "
")).
Eval vm_compute in ("<<<M1342>>>" ++ check (runes_of_ascii "// 50% %s
options
    // c
    {
    f32a = '\x00' ; lengthOf = ' ' ;}")).
Eval vm_compute in ("<<<M1374>>>" ++ check (runes_of_ascii "
")).
Eval vm_compute in ("<<<M1406>>>" ++ check (runes_of_ascii "  packet // `tick` ""quote"" 'q'
i64_ { // " ++ [128512]%N ++ runes_of_ascii " emoji
@tag(  255
) uint16 u128 , } packet options1
    {
match
//x
// trailing space 
Logon as Z9_ { [ 1 , 1 ] /// triple
:
    crc""a	b"" :
roots ,""CRC32""//
: MetaDataX , }, @lengthOf( uint8x // @lengthOf(
)// `tick` ""quote"" 'q'
@leftPad ( '0'
    ) crc @calculatedFrom( ""it's"" ) , zchar[
// c
/// triple
4294967296 ] leftPad `two words` ,
    repeat falsey ,u8 o @calculatedFrom( ""x y"" )
    , @tag( 3
)
    @calculatedFrom( ""CRC32"" ) @lengthOf( lengthOf
)
    repeat string
uint8x ,	char[] chars
    , }")).
Eval vm_compute in ("<<<T1406>>>" ++ terms [mkTok 35 "packet" 1 2 false; mkTok 44 "// `tick` ""quote"" 'q'" 1 9 true; mkTok 42 "i64_" 2 0 false; mkTok 2 "{" 2 5 false; mkTok 44 (string_of_bytes [47; 47; 32; 240; 159; 152; 128; 32; 101; 109; 111; 106; 105]%N) 2 7 true; mkTok 9 "@tag(" 3 0 false; mkTok 30 "255" 3 7 false; mkTok 6 ")" 4 0 false; mkTok 21 "uint16" 4 2 false; mkTok 42 "u128" 4 9 false; mkTok 40 "," 4 14 false; mkTok 3 "}" 4 16 false; mkTok 35 "packet" 4 18 false; mkTok 42 "options1" 4 25 false; mkTok 2 "{" 5 4 false; mkTok 38 "match" 6 0 false; mkTok 44 "//x" 7 0 true; mkTok 44 "// trailing space " 8 0 true; mkTok 42 "Logon" 9 0 false; mkTok 17 "as" 9 6 false; mkTok 42 "Z9_" 9 9 false; mkTok 2 "{" 9 13 false; mkTok 18 "[" 9 15 false; mkTok 30 "1" 9 17 false; mkTok 40 "," 9 19 false; mkTok 30 "1" 9 21 false; mkTok 13 "]" 9 23 false; mkTok 44 "/// triple" 9 25 true; mkTok 39 ":" 10 0 false; mkTok 42 "crc" 11 4 false; mkTok 31 (string_of_bytes [34; 97; 9; 98; 34]%N) 11 7 false; mkTok 39 ":" 11 13 false; mkTok 42 "roots" 12 0 false; mkTok 40 "," 12 6 false; mkTok 31 """CRC32""" 12 7 false; mkTok 44 "//" 12 14 true; mkTok 39 ":" 13 0 false; mkTok 42 "MetaDataX" 13 2 false; mkTok 40 "," 13 12 false; mkTok 3 "}" 13 14 false; mkTok 40 "," 13 15 false; mkTok 7 "@lengthOf(" 13 17 false; mkTok 42 "uint8x" 13 28 false; mkTok 44 "// @lengthOf(" 13 35 true; mkTok 6 ")" 14 0 false; mkTok 44 "// `tick` ""quote"" 'q'" 14 1 true; mkTok 32 "@leftPad" 15 0 false; mkTok 8 "(" 15 9 false; mkTok 33 "'0'" 15 11 false; mkTok 6 ")" 16 4 false; mkTok 42 "crc" 16 6 false; mkTok 5 "@calculatedFrom(" 16 10 false; mkTok 31 """it's""" 16 27 false; mkTok 6 ")" 16 34 false; mkTok 40 "," 16 36 false; mkTok 14 "zchar[" 16 38 false; mkTok 44 "// c" 17 0 true; mkTok 44 "/// triple" 18 0 true; mkTok 30 "4294967296" 19 0 false; mkTok 13 "]" 19 11 false; mkTok 42 "leftPad" 19 13 false; mkTok 43 "`two words`" 19 21 false; mkTok 40 "," 19 33 false; mkTok 36 "repeat" 20 4 false; mkTok 42 "falsey" 20 11 false; mkTok 40 "," 20 18 false; mkTok 20 "u8" 20 19 false; mkTok 42 "o" 20 22 false; mkTok 5 "@calculatedFrom(" 20 24 false; mkTok 31 """x y""" 20 41 false; mkTok 6 ")" 20 47 false; mkTok 40 "," 21 4 false; mkTok 9 "@tag(" 21 6 false; mkTok 30 "3" 21 12 false; mkTok 6 ")" 22 0 false; mkTok 5 "@calculatedFrom(" 23 4 false; mkTok 31 """CRC32""" 23 21 false; mkTok 6 ")" 23 29 false; mkTok 7 "@lengthOf(" 23 31 false; mkTok 42 "lengthOf" 23 42 false; mkTok 6 ")" 24 0 false; mkTok 36 "repeat" 25 4 false; mkTok 15 "string" 25 11 false; mkTok 42 "uint8x" 26 0 false; mkTok 40 "," 26 7 false; mkTok 16 "char[]" 26 9 false; mkTok 42 "chars" 26 16 false; mkTok 40 "," 27 4 false; mkTok 3 "}" 27 6 false; mkTok 0 "<EOF>" 27 7 false] (mkPacket (mkPtok 35 "packet" 1 2 0) (Some (mkPtok 3 "}" 27 6 88)) [(DPacket (mkPacketDef (mkSpan (mkPtok 35 "packet" 1 2 0) (mkPtok 3 "}" 4 16 11)) None (mkPtok 35 "packet" 1 2 0) (mkPtok 42 "i64_" 2 0 2) (mkPtok 2 "{" 2 5 3) [(mkFieldWithAttr (mkSpan (mkPtok 9 "@tag(" 3 0 5) (mkPtok 40 "," 4 14 10)) [(FATag (mkSpan (mkPtok 9 "@tag(" 3 0 5) (mkPtok 6 ")" 4 0 7)) (mkTagAttr (mkSpan (mkPtok 9 "@tag(" 3 0 5) (mkPtok 6 ")" 4 0 7)) (mkPtok 9 "@tag(" 3 0 5) (mkPtok 30 "255" 3 7 6) (mkPtok 6 ")" 4 0 7)))] (MetaField (mkSpan (mkPtok 21 "uint16" 4 2 8) (mkPtok 40 "," 4 14 10)) None (mkMetaDecl (mkSpan (mkPtok 21 "uint16" 4 2 8) (mkPtok 40 "," 4 14 10)) (TyBasic (mkSpan (mkPtok 21 "uint16" 4 2 8) (mkPtok 21 "uint16" 4 2 8)) (mkBasicType (mkSpan (mkPtok 21 "uint16" 4 2 8) (mkPtok 21 "uint16" 4 2 8)) (mkPtok 21 "uint16" 4 2 8))) (mkPtok 42 "u128" 4 9 9) None (mkPtok 40 "," 4 14 10))))] (mkPtok 3 "}" 4 16 11))); (DPacket (mkPacketDef (mkSpan (mkPtok 35 "packet" 4 18 12) (mkPtok 3 "}" 27 6 88)) None (mkPtok 35 "packet" 4 18 12) (mkPtok 42 "options1" 4 25 13) (mkPtok 2 "{" 5 4 14) [(mkFieldWithAttr (mkSpan (mkPtok 38 "match" 6 0 15) (mkPtok 40 "," 13 15 40)) [] (MatchField (mkSpan (mkPtok 38 "match" 6 0 15) (mkPtok 40 "," 13 15 40)) (mkMatchFieldDecl (mkSpan (mkPtok 38 "match" 6 0 15) (mkPtok 3 "}" 13 14 39)) (mkPtok 38 "match" 6 0 15) (mkPtok 42 "Logon" 9 0 18) (mkPtok 17 "as" 9 6 19) (mkPtok 42 "Z9_" 9 9 20) (mkPtok 2 "{" 9 13 21) [(mkMatchPair (mkSpan (mkPtok 18 "[" 9 15 22) (mkPtok 42 "crc" 11 4 29)) (MKList (mkKeyList (mkSpan (mkPtok 18 "[" 9 15 22) (mkPtok 13 "]" 9 23 26)) (mkPtok 18 "[" 9 15 22) (mkPtok 30 "1" 9 17 23) [((mkPtok 40 "," 9 19 24), (mkPtok 30 "1" 9 21 25))] (mkPtok 13 "]" 9 23 26))) (mkPtok 39 ":" 10 0 28) (mkPtok 42 "crc" 11 4 29) None); (mkMatchPair (mkSpan (mkPtok 31 (string_of_bytes [34; 97; 9; 98; 34]%N) 11 7 30) (mkPtok 40 "," 12 6 33)) (MKString (mkPtok 31 (string_of_bytes [34; 97; 9; 98; 34]%N) 11 7 30)) (mkPtok 39 ":" 11 13 31) (mkPtok 42 "roots" 12 0 32) (Some (mkPtok 40 "," 12 6 33))); (mkMatchPair (mkSpan (mkPtok 31 """CRC32""" 12 7 34) (mkPtok 40 "," 13 12 38)) (MKString (mkPtok 31 """CRC32""" 12 7 34)) (mkPtok 39 ":" 13 0 36) (mkPtok 42 "MetaDataX" 13 2 37) (Some (mkPtok 40 "," 13 12 38)))] (mkPtok 3 "}" 13 14 39)) (mkPtok 40 "," 13 15 40))); (mkFieldWithAttr (mkSpan (mkPtok 7 "@lengthOf(" 13 17 41) (mkPtok 40 "," 16 36 54)) [(FALengthOf (mkSpan (mkPtok 7 "@lengthOf(" 13 17 41) (mkPtok 6 ")" 14 0 44)) (mkLengthOf (mkSpan (mkPtok 7 "@lengthOf(" 13 17 41) (mkPtok 6 ")" 14 0 44)) (mkPtok 7 "@lengthOf(" 13 17 41) (mkPtok 42 "uint8x" 13 28 42) (mkPtok 6 ")" 14 0 44))); (FAPadding (mkSpan (mkPtok 32 "@leftPad" 15 0 46) (mkPtok 6 ")" 16 4 49)) (mkPaddingAttr (mkSpan (mkPtok 32 "@leftPad" 15 0 46) (mkPtok 6 ")" 16 4 49)) (mkPtok 32 "@leftPad" 15 0 46) (mkPtok 8 "(" 15 9 47) (Some (mkPtok 33 "'0'" 15 11 48)) (mkPtok 6 ")" 16 4 49)))] (CheckSumField (mkSpan (mkPtok 42 "crc" 16 6 50) (mkPtok 40 "," 16 36 54)) (mkChecksumFieldDecl (mkSpan (mkPtok 42 "crc" 16 6 50) (mkPtok 40 "," 16 36 54)) None (mkPtok 42 "crc" 16 6 50) (mkCalculatedFrom (mkSpan (mkPtok 5 "@calculatedFrom(" 16 10 51) (mkPtok 6 ")" 16 34 53)) (mkPtok 5 "@calculatedFrom(" 16 10 51) (mkPtok 31 """it's""" 16 27 52) (mkPtok 6 ")" 16 34 53)) None (mkPtok 40 "," 16 36 54)))); (mkFieldWithAttr (mkSpan (mkPtok 14 "zchar[" 16 38 55) (mkPtok 40 "," 19 33 62)) [] (MetaField (mkSpan (mkPtok 14 "zchar[" 16 38 55) (mkPtok 40 "," 19 33 62)) None (mkMetaDecl (mkSpan (mkPtok 14 "zchar[" 16 38 55) (mkPtok 40 "," 19 33 62)) (TyFixed (mkSpan (mkPtok 14 "zchar[" 16 38 55) (mkPtok 13 "]" 19 11 59)) (mkFixedString (mkSpan (mkPtok 14 "zchar[" 16 38 55) (mkPtok 13 "]" 19 11 59)) (mkPtok 14 "zchar[" 16 38 55) (mkPtok 30 "4294967296" 19 0 58) (mkPtok 13 "]" 19 11 59))) (mkPtok 42 "leftPad" 19 13 60) (Some (mkPtok 43 "`two words`" 19 21 61)) (mkPtok 40 "," 19 33 62)))); (mkFieldWithAttr (mkSpan (mkPtok 36 "repeat" 20 4 63) (mkPtok 40 "," 20 18 65)) [] (ObjectField (mkSpan (mkPtok 36 "repeat" 20 4 63) (mkPtok 40 "," 20 18 65)) (Some (mkPtok 36 "repeat" 20 4 63)) (mkPtok 42 "falsey" 20 11 64) None None (mkPtok 40 "," 20 18 65))); (mkFieldWithAttr (mkSpan (mkPtok 20 "u8" 20 19 66) (mkPtok 40 "," 21 4 71)) [] (CheckSumField (mkSpan (mkPtok 20 "u8" 20 19 66) (mkPtok 40 "," 21 4 71)) (mkChecksumFieldDecl (mkSpan (mkPtok 20 "u8" 20 19 66) (mkPtok 40 "," 21 4 71)) (Some (TyBasic (mkSpan (mkPtok 20 "u8" 20 19 66) (mkPtok 20 "u8" 20 19 66)) (mkBasicType (mkSpan (mkPtok 20 "u8" 20 19 66) (mkPtok 20 "u8" 20 19 66)) (mkPtok 20 "u8" 20 19 66)))) (mkPtok 42 "o" 20 22 67) (mkCalculatedFrom (mkSpan (mkPtok 5 "@calculatedFrom(" 20 24 68) (mkPtok 6 ")" 20 47 70)) (mkPtok 5 "@calculatedFrom(" 20 24 68) (mkPtok 31 """x y""" 20 41 69) (mkPtok 6 ")" 20 47 70)) None (mkPtok 40 "," 21 4 71)))); (mkFieldWithAttr (mkSpan (mkPtok 9 "@tag(" 21 6 72) (mkPtok 40 "," 26 7 84)) [(FATag (mkSpan (mkPtok 9 "@tag(" 21 6 72) (mkPtok 6 ")" 22 0 74)) (mkTagAttr (mkSpan (mkPtok 9 "@tag(" 21 6 72) (mkPtok 6 ")" 22 0 74)) (mkPtok 9 "@tag(" 21 6 72) (mkPtok 30 "3" 21 12 73) (mkPtok 6 ")" 22 0 74))); (FACalculatedFrom (mkSpan (mkPtok 5 "@calculatedFrom(" 23 4 75) (mkPtok 6 ")" 23 29 77)) (mkCalculatedFrom (mkSpan (mkPtok 5 "@calculatedFrom(" 23 4 75) (mkPtok 6 ")" 23 29 77)) (mkPtok 5 "@calculatedFrom(" 23 4 75) (mkPtok 31 """CRC32""" 23 21 76) (mkPtok 6 ")" 23 29 77))); (FALengthOf (mkSpan (mkPtok 7 "@lengthOf(" 23 31 78) (mkPtok 6 ")" 24 0 80)) (mkLengthOf (mkSpan (mkPtok 7 "@lengthOf(" 23 31 78) (mkPtok 6 ")" 24 0 80)) (mkPtok 7 "@lengthOf(" 23 31 78) (mkPtok 42 "lengthOf" 23 42 79) (mkPtok 6 ")" 24 0 80)))] (MetaField (mkSpan (mkPtok 36 "repeat" 25 4 81) (mkPtok 40 "," 26 7 84)) (Some (mkPtok 36 "repeat" 25 4 81)) (mkMetaDecl (mkSpan (mkPtok 15 "string" 25 11 82) (mkPtok 40 "," 26 7 84)) (TyDynamic (mkSpan (mkPtok 15 "string" 25 11 82) (mkPtok 15 "string" 25 11 82)) (mkDynamicString (mkSpan (mkPtok 15 "string" 25 11 82) (mkPtok 15 "string" 25 11 82)) (mkPtok 15 "string" 25 11 82))) (mkPtok 42 "uint8x" 26 0 83) None (mkPtok 40 "," 26 7 84)))); (mkFieldWithAttr (mkSpan (mkPtok 16 "char[]" 26 9 85) (mkPtok 40 "," 27 4 87)) [] (MetaField (mkSpan (mkPtok 16 "char[]" 26 9 85) (mkPtok 40 "," 27 4 87)) None (mkMetaDecl (mkSpan (mkPtok 16 "char[]" 26 9 85) (mkPtok 40 "," 27 4 87)) (TyDynamic (mkSpan (mkPtok 16 "char[]" 26 9 85) (mkPtok 16 "char[]" 26 9 85)) (mkDynamicString (mkSpan (mkPtok 16 "char[]" 26 9 85) (mkPtok 16 "char[]" 26 9 85)) (mkPtok 16 "char[]" 26 9 85))) (mkPtok 42 "chars" 26 16 86) None (mkPtok 40 "," 27 4 87))))] (mkPtok 3 "}" 27 6 88)))])).
Eval vm_compute in ("<<<M1438>>>" ++ check (runes_of_ascii "  MetaData int {} root  packet MetaDataX { uint64 u
,
u8 calculatedFrom// packet A { u8 x, }
@lengthOf(tag
)
//x
// @lengthOf(
`it's`	,
As o`it's`, float64 string_
    , @tag( 42 )
@lengthOf( T)
    @calculatedFrom( ""abc"")
    match uint8x
as len
{ // `tick` ""quote"" 'q'
[""\n"" , ""a\""b""
    ,
42,
    ""// no comment"", """" ,  0123456789 , //x
""{,}"" ,
""a\""b""] : matchKey	, [
    ""\" ++ [233]%N ++ runes_of_ascii """	, ""\" ++ [233]%N ++ runes_of_ascii """ , 3 , """" ]
:// `tick` ""quote"" 'q'
_x ,  }, MetaDataX , match
    MetaDataX	as _x	{ 0 : // @lengthOf(
uint8x
, // trailing space 
} ,@leftPad
('\x00' ) uint16 roots
    @calculatedFrom(""abc""
    // " ++ [27880; 37322]%N ++ runes_of_ascii "
    )
    ,// packet A { u8 x, }
@rightPad
(  ' ' ) int32 leftPad
    @calculatedFrom( ""packet"" ) `a\`, } packet	len{ len
,@lengthOf(
    float
)@calculatedFrom(	""" ++ [28040; 24687]%N ++ runes_of_ascii """  )  @tag(  4294967296
)
uint8//	t
metadata // " ++ [128512]%N ++ runes_of_ascii " emoji
@calculatedFrom( ""`tick`""
)// packet A { u8 x, }
`" ++ [28040; 24687; 31867; 22411]%N ++ runes_of_ascii "` ,
@lengthOf( //x
BodyLength // 50% %s
) zchar[ 007
]Z9_ , _x{char[]i8i8 `doc` , } , repeatCount  @calculatedFrom(""`tick`"" ) ,match
    i8i8 as tag
{ 7 : Pad,} , u8 lengthOf //
`{ , }` ,
@tag(
    // `tick` ""quote"" 'q'
    00 ) // " ++ [128512]%N ++ runes_of_ascii " emoji
_x _x ,  } packet lengthOf
{ repeat calculatedFrom , @tag( 42 )
// @lengthOf(
// " ++ [27880; 37322]%N ++ runes_of_ascii "
match asx as A { ""\" ++ [233]%N ++ runes_of_ascii """ : int	""abc"" :
falsey , """ ++ [128512]%N ++ runes_of_ascii """// `tick` ""quote"" 'q'
: falsey , [""x y"", 42 ] : charz
    // @lengthOf(
    } , } // `tick` ""quote"" 'q'")).
Eval vm_compute in ("<<<M1470>>>" ++ check (runes_of_ascii "options/// triple
{ MetaDataX =
// 50% %s
// @lengthOf(
65535 ; }
    root
    packet
chars
    { match
    leftPad
as charz { 65535:
T ,	}
    // packet A { u8 x, }
    ,  string_
    @lengthOf( // " ++ [128512]%N ++ runes_of_ascii " emoji
float
)
    , BodyLength float // c
,@tag( 0123456789
    )
repeat
    f32 rootA`two words`
,	}	options { a1 =0 body = false f32a
= ""`tick`""x= // `tick` ""quote"" 'q'
char[ 4294967296  ]
; }
")).
Eval vm_compute in ("<<<M1502>>>" ++ check (runes_of_ascii "packet charz
{	@tag( 1 ) match T as _x{ 1
    : a1 ,  }
    //
    ,
// c
//
char[ 3
] leftPad  @lengthOf(
    msg_type ),	@tag( 00) MetaDataX
//
// `tick` ""quote"" 'q'
packetx `say ""hi""` ,
    match u as zchar
    // " ++ [128512]%N ++ runes_of_ascii " emoji
    {
    [ ""a\""b"" , ""{,}"" ,
7]  :As , } , // " ++ [27880; 37322]%N ++ runes_of_ascii "
char[
255] a1 @calculatedFrom( ""CRC32"" )
    `two words` ,zchar[ 0 ] As `a\`,
@lengthOf(
    T)
Logon
    // 50% %s
    len ,repeat _x a1
    /// triple
    ,@tag(
0 )
calculatedFrom Packet , }
MetaData//	t
len { x_y_z matchKey	, calculatedFrom options1`a\`
    , /// triple
}	packet
As {
repeat msg_type // trailing space 
rootA
    ``
, repeat
_x leftPad, tag
, char[] _x @calculatedFrom(""// no comment"") , match x_y_z as
Foo
    { [ //	t
""x y"" // packet A { u8 x, }
, //	t
1 ]	: float , } , // a // b
uint16 leftPad`doc`
,//x
@tag(7
)
    trueish , asx ,@lengthOf( //
repeatCount ) char[ 0
]A@lengthOf( Pad )`100% of %d`, @rightPad
( ' '// @lengthOf(
) u16 body , }
packet  x { match calculatedFrom  as
    options1{ """ ++ [128512]%N ++ runes_of_ascii """: chars ,
// packet A { u8 x, }
/// triple
} , }")).
Eval vm_compute in ("<<<M1534>>>" ++ check (runes_of_ascii "root packet Packet { } options { //
f32a=""abc""; }
    packet
    metadata { match metadata as matchKey
    { 0 : o
    ""x y"":	T
[
""" ++ [28040; 24687]%N ++ runes_of_ascii """ ] :
    float// a // b
,  } ,
    }
")).
Eval vm_compute in ("<<<M1566>>>" ++ check (runes_of_ascii "options	{ _x = ""\" ++ [233]%N ++ runes_of_ascii """
; pack =""abc""
string_ =char[]
    }
    options{
    As
=
'0'  ;}packet
    leftPad
    { @tag(00 )repeat uint64 x //x
`line1
line2` ,// packet A { u8 x, }
}
")).
Eval vm_compute in ("<<<M1598>>>" ++ check (runes_of_ascii "
 //	t")).
Eval vm_compute in ("<<<M1630>>>" ++ check (runes_of_ascii "options {
Logon
=// " ++ [27880; 37322]%N ++ runes_of_ascii "
007 x
= '\x00'lengthOf =
    // packet A { u8 x, }
    true ; /// triple
Logon = ""it's"" ; } packet
    u {// trailing space 
} packet _x
{
    match MetaDataX
as// `tick` ""quote"" 'q'
i8i8{
""`tick`""
: stringy ,[ 255 ,
    42 ,
    ""`tick`"" , ""1"",// `tick` ""quote"" 'q'
007 ]
: tag ,
""""
    :Z9_  } , }
")).
Eval vm_compute in ("<<<T1630>>>" ++ terms [mkTok 1 "options" 1 0 false; mkTok 2 "{" 1 8 false; mkTok 42 "Logon" 2 0 false; mkTok 4 "=" 3 0 false; mkTok 44 (string_of_bytes [47; 47; 32; 230; 179; 168; 233; 135; 138]%N) 3 1 true; mkTok 30 "007" 4 0 false; mkTok 42 "x" 4 4 false; mkTok 4 "=" 5 0 false; mkTok 33 "'\x00'" 5 2 false; mkTok 42 "lengthOf" 5 8 false; mkTok 4 "=" 5 17 false; mkTok 44 "// packet A { u8 x, }" 6 4 true; mkTok 10 "true" 7 4 false; mkTok 41 ";" 7 9 false; mkTok 44 "/// triple" 7 11 true; mkTok 42 "Logon" 8 0 false; mkTok 4 "=" 8 6 false; mkTok 31 """it's""" 8 8 false; mkTok 41 ";" 8 15 false; mkTok 3 "}" 8 17 false; mkTok 35 "packet" 8 19 false; mkTok 42 "u" 9 4 false; mkTok 2 "{" 9 6 false; mkTok 44 "// trailing space " 9 7 true; mkTok 3 "}" 10 0 false; mkTok 35 "packet" 10 2 false; mkTok 42 "_x" 10 9 false; mkTok 2 "{" 11 0 false; mkTok 38 "match" 12 4 false; mkTok 42 "MetaDataX" 12 10 false; mkTok 17 "as" 13 0 false; mkTok 44 "// `tick` ""quote"" 'q'" 13 2 true; mkTok 42 "i8i8" 14 0 false; mkTok 2 "{" 14 4 false; mkTok 31 """`tick`""" 15 0 false; mkTok 39 ":" 16 0 false; mkTok 42 "stringy" 16 2 false; mkTok 40 "," 16 10 false; mkTok 18 "[" 16 11 false; mkTok 30 "255" 16 13 false; mkTok 40 "," 16 17 false; mkTok 30 "42" 17 4 false; mkTok 40 "," 17 7 false; mkTok 31 """`tick`""" 18 4 false; mkTok 40 "," 18 13 false; mkTok 31 """1""" 18 15 false; mkTok 40 "," 18 18 false; mkTok 44 "// `tick` ""quote"" 'q'" 18 19 true; mkTok 30 "007" 19 0 false; mkTok 13 "]" 19 4 false; mkTok 39 ":" 20 0 false; mkTok 42 "tag" 20 2 false; mkTok 40 "," 20 6 false; mkTok 31 """""" 21 0 false; mkTok 39 ":" 22 4 false; mkTok 42 "Z9_" 22 5 false; mkTok 3 "}" 22 10 false; mkTok 40 "," 22 12 false; mkTok 3 "}" 22 14 false; mkTok 0 "<EOF>" 23 0 false] (mkPacket (mkPtok 1 "options" 1 0 0) (Some (mkPtok 3 "}" 22 14 58)) [(DOption (mkOptionDef (mkSpan (mkPtok 1 "options" 1 0 0) (mkPtok 3 "}" 8 17 19)) (mkPtok 1 "options" 1 0 0) (mkPtok 2 "{" 1 8 1) [(mkOptionDecl (mkSpan (mkPtok 42 "Logon" 2 0 2) (mkPtok 30 "007" 4 0 5)) (mkPtok 42 "Logon" 2 0 2) (mkPtok 4 "=" 3 0 3) (VDigits (mkSpan (mkPtok 30 "007" 4 0 5) (mkPtok 30 "007" 4 0 5)) (mkPtok 30 "007" 4 0 5)) None); (mkOptionDecl (mkSpan (mkPtok 42 "x" 4 4 6) (mkPtok 33 "'\x00'" 5 2 8)) (mkPtok 42 "x" 4 4 6) (mkPtok 4 "=" 5 0 7) (VPaddingChar (mkSpan (mkPtok 33 "'\x00'" 5 2 8) (mkPtok 33 "'\x00'" 5 2 8)) (mkPtok 33 "'\x00'" 5 2 8)) None); (mkOptionDecl (mkSpan (mkPtok 42 "lengthOf" 5 8 9) (mkPtok 41 ";" 7 9 13)) (mkPtok 42 "lengthOf" 5 8 9) (mkPtok 4 "=" 5 17 10) (VTrue (mkSpan (mkPtok 10 "true" 7 4 12) (mkPtok 10 "true" 7 4 12)) (mkPtok 10 "true" 7 4 12)) (Some (mkPtok 41 ";" 7 9 13))); (mkOptionDecl (mkSpan (mkPtok 42 "Logon" 8 0 15) (mkPtok 41 ";" 8 15 18)) (mkPtok 42 "Logon" 8 0 15) (mkPtok 4 "=" 8 6 16) (VString (mkSpan (mkPtok 31 """it's""" 8 8 17) (mkPtok 31 """it's""" 8 8 17)) (mkPtok 31 """it's""" 8 8 17)) (Some (mkPtok 41 ";" 8 15 18)))] (mkPtok 3 "}" 8 17 19))); (DPacket (mkPacketDef (mkSpan (mkPtok 35 "packet" 8 19 20) (mkPtok 3 "}" 10 0 24)) None (mkPtok 35 "packet" 8 19 20) (mkPtok 42 "u" 9 4 21) (mkPtok 2 "{" 9 6 22) [] (mkPtok 3 "}" 10 0 24))); (DPacket (mkPacketDef (mkSpan (mkPtok 35 "packet" 10 2 25) (mkPtok 3 "}" 22 14 58)) None (mkPtok 35 "packet" 10 2 25) (mkPtok 42 "_x" 10 9 26) (mkPtok 2 "{" 11 0 27) [(mkFieldWithAttr (mkSpan (mkPtok 38 "match" 12 4 28) (mkPtok 40 "," 22 12 57)) [] (MatchField (mkSpan (mkPtok 38 "match" 12 4 28) (mkPtok 40 "," 22 12 57)) (mkMatchFieldDecl (mkSpan (mkPtok 38 "match" 12 4 28) (mkPtok 3 "}" 22 10 56)) (mkPtok 38 "match" 12 4 28) (mkPtok 42 "MetaDataX" 12 10 29) (mkPtok 17 "as" 13 0 30) (mkPtok 42 "i8i8" 14 0 32) (mkPtok 2 "{" 14 4 33) [(mkMatchPair (mkSpan (mkPtok 31 """`tick`""" 15 0 34) (mkPtok 40 "," 16 10 37)) (MKString (mkPtok 31 """`tick`""" 15 0 34)) (mkPtok 39 ":" 16 0 35) (mkPtok 42 "stringy" 16 2 36) (Some (mkPtok 40 "," 16 10 37))); (mkMatchPair (mkSpan (mkPtok 18 "[" 16 11 38) (mkPtok 40 "," 20 6 52)) (MKList (mkKeyList (mkSpan (mkPtok 18 "[" 16 11 38) (mkPtok 13 "]" 19 4 49)) (mkPtok 18 "[" 16 11 38) (mkPtok 30 "255" 16 13 39) [((mkPtok 40 "," 16 17 40), (mkPtok 30 "42" 17 4 41)); ((mkPtok 40 "," 17 7 42), (mkPtok 31 """`tick`""" 18 4 43)); ((mkPtok 40 "," 18 13 44), (mkPtok 31 """1""" 18 15 45)); ((mkPtok 40 "," 18 18 46), (mkPtok 30 "007" 19 0 48))] (mkPtok 13 "]" 19 4 49))) (mkPtok 39 ":" 20 0 50) (mkPtok 42 "tag" 20 2 51) (Some (mkPtok 40 "," 20 6 52))); (mkMatchPair (mkSpan (mkPtok 31 """""" 21 0 53) (mkPtok 42 "Z9_" 22 5 55)) (MKString (mkPtok 31 """""" 21 0 53)) (mkPtok 39 ":" 22 4 54) (mkPtok 42 "Z9_" 22 5 55) None)] (mkPtok 3 "}" 22 10 56)) (mkPtok 40 "," 22 12 57)))] (mkPtok 3 "}" 22 14 58)))])).
Eval vm_compute in ("<<<M1662>>>" ++ check (runes_of_ascii "
MetaData
i64_
    { uint64
o
`two words` , repeatCount
falsey
`a\` , chars As
    ,} // @lengthOf(")).
Eval vm_compute in ("<<<M1694>>>" ++ check (runes_of_ascii "packet// c
options1	{  i32
    repeatCount
    @calculatedFrom( ""{,}"") // packet A { u8 x, }
, }")).
Eval vm_compute in ("<<<M1726>>>" ++ check (runes_of_ascii "MetaData packetx {
char[ 10 ] Logon `doc` // packet A { u8 x, }
,	}")).
Eval vm_compute in ("<<<M1758>>>" ++ check (runes_of_ascii "  packet Header
// packet A { u8 x, }
// `tick` ""quote"" 'q'
{ } // " ++ [27880; 37322]%N)).
Eval vm_compute in ("<<<M1790>>>" ++ check (runes_of_ascii "
root packet msg_type { @leftPad()zchar[ 3 ]
o
@lengthOf(
chars ),@lengthOf( crc)
repeat roots , @calculatedFrom(	""1""
    )x_y_z	, @lengthOf( A)
u64 BodyLength@calculatedFrom( ""1"" // @lengthOf(
) ,
//
// a // b
repeat i32 a1 `
` ,
    // " ++ [128512]%N ++ runes_of_ascii " emoji
    @lengthOf(  x
) match Pad	as len
    {	[
3,
7 ]:falsey
/// triple
// `tick` ""quote"" 'q'
, ""\n"" : x_y_z
/// triple
// " ++ [128512]%N ++ runes_of_ascii " emoji
,	} , @leftPad ( ' '  ) float64 As ,
match  pack as
    crc {
    ""\" ++ [233]%N ++ runes_of_ascii """ : o  ,	} , @tag( 4294967296 )
    @calculatedFrom( ""it's""
    )
    match As as asx	{ ""it's"" : i64_ ,[ 255,	""// no comment"" //
, ""a	b"" ,	""`tick`"" ] : A
, } ,zchar[
    0123456789 ] // a // b
float , }
")).
Eval vm_compute in ("<<<M1822>>>" ++ check (runes_of_ascii "MetaData len
{	} packet repeatCount {} MetaData/// triple
chars{ zchar MetaDataX ,
    // c
    metadata body ,  o//
o	, float crc, a1 o ,}")).
Eval vm_compute in ("<<<M1854>>>" ++ check (runes_of_ascii "// `tick` ""quote"" 'q'
packet falsey{
    @tag( 00 )
    // @lengthOf(
    f64 falsey @lengthOf(
// @lengthOf(
// `tick` ""quote"" 'q'
MetaDataX ) `" ++ [233]%N ++ runes_of_ascii "`, }
    // trailing space 
    packet leftPad
{
    uint8	_x `// not a comment`
    , @tag( 0123456789) Logon { match f32a as
    Pad // trailing space 
{ [ ""\n"" ]:
    msg_type ,
""" ++ [28040; 24687]%N ++ runes_of_ascii """ :  charz
} ,repeat
int8 Packet ,char[]  stringy
    // 50% %s
    ,
    // 50% %s
    }  ,pack @calculatedFrom( ""\n"" )`100% of %d`
,u16  trueish
@calculatedFrom(
""a\""b"") , }
")).
Eval vm_compute in ("<<<T1854>>>" ++ terms [mkTok 44 "// `tick` ""quote"" 'q'" 1 0 true; mkTok 35 "packet" 2 0 false; mkTok 42 "falsey" 2 7 false; mkTok 2 "{" 2 13 false; mkTok 9 "@tag(" 3 4 false; mkTok 30 "00" 3 10 false; mkTok 6 ")" 3 13 false; mkTok 44 "// @lengthOf(" 4 4 true; mkTok 29 "f64" 5 4 false; mkTok 42 "falsey" 5 8 false; mkTok 7 "@lengthOf(" 5 15 false; mkTok 44 "// @lengthOf(" 6 0 true; mkTok 44 "// `tick` ""quote"" 'q'" 7 0 true; mkTok 42 "MetaDataX" 8 0 false; mkTok 6 ")" 8 10 false; mkTok 43 (string_of_bytes [96; 195; 169; 96]%N) 8 12 false; mkTok 40 "," 8 15 false; mkTok 3 "}" 8 17 false; mkTok 44 "// trailing space " 9 4 true; mkTok 35 "packet" 10 4 false; mkTok 42 "leftPad" 10 11 false; mkTok 2 "{" 11 0 false; mkTok 20 "uint8" 12 4 false; mkTok 42 "_x" 12 10 false; mkTok 43 "`// not a comment`" 12 13 false; mkTok 40 "," 13 4 false; mkTok 9 "@tag(" 13 6 false; mkTok 30 "0123456789" 13 12 false; mkTok 6 ")" 13 22 false; mkTok 42 "Logon" 13 24 false; mkTok 2 "{" 13 30 false; mkTok 38 "match" 13 32 false; mkTok 42 "f32a" 13 38 false; mkTok 17 "as" 13 43 false; mkTok 42 "Pad" 14 4 false; mkTok 44 "// trailing space " 14 8 true; mkTok 2 "{" 15 0 false; mkTok 18 "[" 15 2 false; mkTok 31 """\n""" 15 4 false; mkTok 13 "]" 15 9 false; mkTok 39 ":" 15 10 false; mkTok 42 "msg_type" 16 4 false; mkTok 40 "," 16 13 false; mkTok 31 (string_of_bytes [34; 230; 182; 136; 230; 129; 175; 34]%N) 17 0 false; mkTok 39 ":" 17 5 false; mkTok 42 "charz" 17 8 false; mkTok 3 "}" 18 0 false; mkTok 40 "," 18 2 false; mkTok 36 "repeat" 18 3 false; mkTok 24 "int8" 19 0 false; mkTok 42 "Packet" 19 5 false; mkTok 40 "," 19 12 false; mkTok 16 "char[]" 19 13 false; mkTok 42 "stringy" 19 21 false; mkTok 44 "// 50% %s" 20 4 true; mkTok 40 "," 21 4 false; mkTok 44 "// 50% %s" 22 4 true; mkTok 3 "}" 23 4 false; mkTok 40 "," 23 7 false; mkTok 42 "pack" 23 8 false; mkTok 5 "@calculatedFrom(" 23 13 false; mkTok 31 """\n""" 23 30 false; mkTok 6 ")" 23 35 false; mkTok 43 "`100% of %d`" 23 36 false; mkTok 40 "," 24 0 false; mkTok 21 "u16" 24 1 false; mkTok 42 "trueish" 24 6 false; mkTok 5 "@calculatedFrom(" 25 0 false; mkTok 31 """a\""b""" 26 0 false; mkTok 6 ")" 26 6 false; mkTok 40 "," 26 8 false; mkTok 3 "}" 26 10 false; mkTok 0 "<EOF>" 27 0 false] (mkPacket (mkPtok 35 "packet" 2 0 1) (Some (mkPtok 3 "}" 26 10 71)) [(DPacket (mkPacketDef (mkSpan (mkPtok 35 "packet" 2 0 1) (mkPtok 3 "}" 8 17 17)) None (mkPtok 35 "packet" 2 0 1) (mkPtok 42 "falsey" 2 7 2) (mkPtok 2 "{" 2 13 3) [(mkFieldWithAttr (mkSpan (mkPtok 9 "@tag(" 3 4 4) (mkPtok 40 "," 8 15 16)) [(FATag (mkSpan (mkPtok 9 "@tag(" 3 4 4) (mkPtok 6 ")" 3 13 6)) (mkTagAttr (mkSpan (mkPtok 9 "@tag(" 3 4 4) (mkPtok 6 ")" 3 13 6)) (mkPtok 9 "@tag(" 3 4 4) (mkPtok 30 "00" 3 10 5) (mkPtok 6 ")" 3 13 6)))] (LengthField (mkSpan (mkPtok 29 "f64" 5 4 8) (mkPtok 40 "," 8 15 16)) (mkLengthFieldDecl (mkSpan (mkPtok 29 "f64" 5 4 8) (mkPtok 40 "," 8 15 16)) (Some (TyBasic (mkSpan (mkPtok 29 "f64" 5 4 8) (mkPtok 29 "f64" 5 4 8)) (mkBasicType (mkSpan (mkPtok 29 "f64" 5 4 8) (mkPtok 29 "f64" 5 4 8)) (mkPtok 29 "f64" 5 4 8)))) (mkPtok 42 "falsey" 5 8 9) (mkLengthOf (mkSpan (mkPtok 7 "@lengthOf(" 5 15 10) (mkPtok 6 ")" 8 10 14)) (mkPtok 7 "@lengthOf(" 5 15 10) (mkPtok 42 "MetaDataX" 8 0 13) (mkPtok 6 ")" 8 10 14)) (Some (mkPtok 43 (string_of_bytes [96; 195; 169; 96]%N) 8 12 15)) (mkPtok 40 "," 8 15 16))))] (mkPtok 3 "}" 8 17 17))); (DPacket (mkPacketDef (mkSpan (mkPtok 35 "packet" 10 4 19) (mkPtok 3 "}" 26 10 71)) None (mkPtok 35 "packet" 10 4 19) (mkPtok 42 "leftPad" 10 11 20) (mkPtok 2 "{" 11 0 21) [(mkFieldWithAttr (mkSpan (mkPtok 20 "uint8" 12 4 22) (mkPtok 40 "," 13 4 25)) [] (MetaField (mkSpan (mkPtok 20 "uint8" 12 4 22) (mkPtok 40 "," 13 4 25)) None (mkMetaDecl (mkSpan (mkPtok 20 "uint8" 12 4 22) (mkPtok 40 "," 13 4 25)) (TyBasic (mkSpan (mkPtok 20 "uint8" 12 4 22) (mkPtok 20 "uint8" 12 4 22)) (mkBasicType (mkSpan (mkPtok 20 "uint8" 12 4 22) (mkPtok 20 "uint8" 12 4 22)) (mkPtok 20 "uint8" 12 4 22))) (mkPtok 42 "_x" 12 10 23) (Some (mkPtok 43 "`// not a comment`" 12 13 24)) (mkPtok 40 "," 13 4 25)))); (mkFieldWithAttr (mkSpan (mkPtok 9 "@tag(" 13 6 26) (mkPtok 40 "," 23 7 58)) [(FATag (mkSpan (mkPtok 9 "@tag(" 13 6 26) (mkPtok 6 ")" 13 22 28)) (mkTagAttr (mkSpan (mkPtok 9 "@tag(" 13 6 26) (mkPtok 6 ")" 13 22 28)) (mkPtok 9 "@tag(" 13 6 26) (mkPtok 30 "0123456789" 13 12 27) (mkPtok 6 ")" 13 22 28)))] (InerObjectField (mkSpan (mkPtok 42 "Logon" 13 24 29) (mkPtok 40 "," 23 7 58)) None (InerObjectDecl (mkSpan (mkPtok 42 "Logon" 13 24 29) (mkPtok 3 "}" 23 4 57)) (mkPtok 42 "Logon" 13 24 29) (mkPtok 2 "{" 13 30 30) [(MatchField (mkSpan (mkPtok 38 "match" 13 32 31) (mkPtok 40 "," 18 2 47)) (mkMatchFieldDecl (mkSpan (mkPtok 38 "match" 13 32 31) (mkPtok 3 "}" 18 0 46)) (mkPtok 38 "match" 13 32 31) (mkPtok 42 "f32a" 13 38 32) (mkPtok 17 "as" 13 43 33) (mkPtok 42 "Pad" 14 4 34) (mkPtok 2 "{" 15 0 36) [(mkMatchPair (mkSpan (mkPtok 18 "[" 15 2 37) (mkPtok 40 "," 16 13 42)) (MKList (mkKeyList (mkSpan (mkPtok 18 "[" 15 2 37) (mkPtok 13 "]" 15 9 39)) (mkPtok 18 "[" 15 2 37) (mkPtok 31 """\n""" 15 4 38) [] (mkPtok 13 "]" 15 9 39))) (mkPtok 39 ":" 15 10 40) (mkPtok 42 "msg_type" 16 4 41) (Some (mkPtok 40 "," 16 13 42))); (mkMatchPair (mkSpan (mkPtok 31 (string_of_bytes [34; 230; 182; 136; 230; 129; 175; 34]%N) 17 0 43) (mkPtok 42 "charz" 17 8 45)) (MKString (mkPtok 31 (string_of_bytes [34; 230; 182; 136; 230; 129; 175; 34]%N) 17 0 43)) (mkPtok 39 ":" 17 5 44) (mkPtok 42 "charz" 17 8 45) None)] (mkPtok 3 "}" 18 0 46)) (mkPtok 40 "," 18 2 47)); (MetaField (mkSpan (mkPtok 36 "repeat" 18 3 48) (mkPtok 40 "," 19 12 51)) (Some (mkPtok 36 "repeat" 18 3 48)) (mkMetaDecl (mkSpan (mkPtok 24 "int8" 19 0 49) (mkPtok 40 "," 19 12 51)) (TyBasic (mkSpan (mkPtok 24 "int8" 19 0 49) (mkPtok 24 "int8" 19 0 49)) (mkBasicType (mkSpan (mkPtok 24 "int8" 19 0 49) (mkPtok 24 "int8" 19 0 49)) (mkPtok 24 "int8" 19 0 49))) (mkPtok 42 "Packet" 19 5 50) None (mkPtok 40 "," 19 12 51))); (MetaField (mkSpan (mkPtok 16 "char[]" 19 13 52) (mkPtok 40 "," 21 4 55)) None (mkMetaDecl (mkSpan (mkPtok 16 "char[]" 19 13 52) (mkPtok 40 "," 21 4 55)) (TyDynamic (mkSpan (mkPtok 16 "char[]" 19 13 52) (mkPtok 16 "char[]" 19 13 52)) (mkDynamicString (mkSpan (mkPtok 16 "char[]" 19 13 52) (mkPtok 16 "char[]" 19 13 52)) (mkPtok 16 "char[]" 19 13 52))) (mkPtok 42 "stringy" 19 21 53) None (mkPtok 40 "," 21 4 55)))] (mkPtok 3 "}" 23 4 57)) (mkPtok 40 "," 23 7 58))); (mkFieldWithAttr (mkSpan (mkPtok 42 "pack" 23 8 59) (mkPtok 40 "," 24 0 64)) [] (CheckSumField (mkSpan (mkPtok 42 "pack" 23 8 59) (mkPtok 40 "," 24 0 64)) (mkChecksumFieldDecl (mkSpan (mkPtok 42 "pack" 23 8 59) (mkPtok 40 "," 24 0 64)) None (mkPtok 42 "pack" 23 8 59) (mkCalculatedFrom (mkSpan (mkPtok 5 "@calculatedFrom(" 23 13 60) (mkPtok 6 ")" 23 35 62)) (mkPtok 5 "@calculatedFrom(" 23 13 60) (mkPtok 31 """\n""" 23 30 61) (mkPtok 6 ")" 23 35 62)) (Some (mkPtok 43 "`100% of %d`" 23 36 63)) (mkPtok 40 "," 24 0 64)))); (mkFieldWithAttr (mkSpan (mkPtok 21 "u16" 24 1 65) (mkPtok 40 "," 26 8 70)) [] (CheckSumField (mkSpan (mkPtok 21 "u16" 24 1 65) (mkPtok 40 "," 26 8 70)) (mkChecksumFieldDecl (mkSpan (mkPtok 21 "u16" 24 1 65) (mkPtok 40 "," 26 8 70)) (Some (TyBasic (mkSpan (mkPtok 21 "u16" 24 1 65) (mkPtok 21 "u16" 24 1 65)) (mkBasicType (mkSpan (mkPtok 21 "u16" 24 1 65) (mkPtok 21 "u16" 24 1 65)) (mkPtok 21 "u16" 24 1 65)))) (mkPtok 42 "trueish" 24 6 66) (mkCalculatedFrom (mkSpan (mkPtok 5 "@calculatedFrom(" 25 0 67) (mkPtok 6 ")" 26 6 69)) (mkPtok 5 "@calculatedFrom(" 25 0 67) (mkPtok 31 """a\""b""" 26 0 68) (mkPtok 6 ")" 26 6 69)) None (mkPtok 40 "," 26 8 70))))] (mkPtok 3 "}" 26 10 71)))])).
Eval vm_compute in ("<<<M1886>>>" ++ check (runes_of_ascii "packet
// packet A { u8 x, }
// packet A { u8 x, }
falsey
{  @tag(7) string Pad , // c
i8 stringy
// @lengthOf(
// 50% %s
@lengthOf(
calculatedFrom) `crlf
line` ,match x
    as
    //	t
    x_y_z{ 1
    :rootA
    , } , @rightPad ('0' )i64_
    @lengthOf(	roots ) `u8 x,` , metadata i8i8 ,@leftPad
    ( ' '
    //x
    ) f64 string_`line1
line2` , repeat MetaDataX , @rightPad ( '0' )
zchar[
7 ] charz@calculatedFrom(
    """ ++ [233]%N ++ runes_of_ascii "t" ++ [233]%N ++ runes_of_ascii """)`crlf
line` ,
string_ {roots
i8i8 `line1
line2` , T // @lengthOf(
{
    char[]u128
    `say ""hi""` , } ,
    float trueish , zchar
    , } ,
} MetaData asx { string msg_type , i8 roots //	t
`{ , }`
,falsey string_ `two words` ,
}packet
calculatedFrom { uint32
    x_y_z
    /// triple
    @calculatedFrom(	""a	b""
) , @calculatedFrom( """ ++ [233]%N ++ runes_of_ascii "t" ++ [233]%N ++ runes_of_ascii """ )	u64 metadata
, // `tick` ""quote"" 'q'
int8 msg_type `
`
    ,roots {
    // c
    A , match
    uint8x as repeatCount
{
007 : Z9_
,
""CRC32"" : MetaDataX ,4294967296 :	f32a ,
}, match i64_ as rootA{
65535 : uint8x  , } ,  string body
    @lengthOf(Logon	) ,  }
,
    /// triple
    i64
chars @calculatedFrom(""" ++ [28040; 24687]%N ++ runes_of_ascii """ ) ,@rightPad (
'\x00' )
    char[
255]
u8x // a // b
`say ""hi""`,msg_type @calculatedFrom( ""a	b"")  `crlf
line` ,	} packet o { }")).
Eval vm_compute in ("<<<M1918>>>" ++ check (runes_of_ascii "options { Z9_
= """ ++ [128512]%N ++ runes_of_ascii """ leftPad = char[0123456789 ] ;
    o=
    ""1"" ; }
    root//x
packet
    leftPad
{ repeat u8 u128
, } root packet asx
{}  options{ stringy = zchar[
    4294967296]
; } // @lengthOf(
packet
    As{ }
")).
Eval vm_compute in ("<<<M1950>>>" ++ check (runes_of_ascii "packet crc {
//	t
// @lengthOf(
@lengthOf(
falsey) falsey {BodyLength @lengthOf(
    trueish
    ) , Packet {
char[
    255]	rootA`doc` , }	,repeat char[ 10 ] stringy  `// not a comment`  , } , }  packet roots { // @lengthOf(
@tag( 7 ) char[ 0123456789 ]zchar	@lengthOf( float )
,
    float32 u8x
    ,}
MetaData options1 {
u64 zchar ,
packetx Pad, zchar[4294967296 ]
    Logon
, char
    calculatedFrom `u8 x,`, } // trailing space ")).
Eval vm_compute in ("<<<M1982>>>" ++ check (runes_of_ascii "MetaData T { zchar[ 1 ] A
,
    } // " ++ [128512]%N ++ runes_of_ascii " emoji")).
Eval vm_compute in ("<<<M2014>>>" ++ check (runes_of_ascii "MetaData  { float64 packetx,
} root packet  metadata {
char _x @lengthOf( trueish ), @leftPad
( ' '// " ++ [27880; 37322]%N ++ runes_of_ascii "
)/// triple
char[] len`doc` , // packet A { u8 x, }
repeatCount , }
")).
Eval vm_compute in ("<<<M2046>>>" ++ check (runes_of_ascii "MetaData repeatCount { float64 packetx,
} packet root  metadata {
char _x @lengthOf( trueish ), @leftPad
( ' '// " ++ [27880; 37322]%N ++ runes_of_ascii "
)/// triple
char[] len`doc` , // packet A { u8 x, }
repeatCount , }
")).
Eval vm_compute in ("<<<M2078>>>" ++ check (runes_of_ascii "MetaData repeatCount { float64 packetx,
} root packet  metadata {
char _x")).
Eval vm_compute in ("<<<M2110>>>" ++ check (runes_of_ascii "MetaData repeatCount { float64 packetx,
} root packet  metadata {
char _x @lengthOf( trueish ), @leftPad
( ' '// " ++ [27880; 37322]%N ++ runes_of_ascii "
) )/// triple
char[] len`doc` , // packet A { u8 x, }
repeatCount , }
")).
Eval vm_compute in ("<<<M2142>>>" ++ check (runes_of_ascii "MetaData repeatCount { float64 packetx,
} root packet  metadata {
char _x @lengthOf( trueish ), @leftPad
( ' '// " ++ [27880; 37322]%N ++ runes_of_ascii "
)/// triple
char[] len`doc` , // packet A { u8 x, }
repeatCount packet }
")).
Eval vm_compute in ("<<<M2174>>>" ++ check (@nil rune)).
Eval vm_compute in ("<<<M2206>>>" ++ check (runes_of_ascii "options{
leftPad
    =65535
;
a1 = = true ; packetx=  '\x00' ; packetx
=  """ ++ [28040; 24687]%N ++ runes_of_ascii """MetaDataX= // " ++ [27880; 37322]%N ++ runes_of_ascii "
false }root // c
packet // packet A { u8 x, }
Pad { repeat
u8 Header
// packet A { u8 x, }
//	t
`{ , }`
// a // b
//x
, }
")).
Eval vm_compute in ("<<<M2238>>>" ++ check (runes_of_ascii "options{
leftPad
    =65535
;
a1 = true ; packetx=  '\x00' match packetx
=  """ ++ [28040; 24687]%N ++ runes_of_ascii """MetaDataX= // " ++ [27880; 37322]%N ++ runes_of_ascii "
false }root // c
packet // packet A { u8 x, }
Pad { repeat
u8 Header
// packet A { u8 x, }
//	t
`{ , }`
// a // b
//x
, }
")).
Eval vm_compute in ("<<<M2270>>>" ++ check (runes_of_ascii "options{
leftPad
    =65535
;
a1 = true ; packetx=  '\x00' ; packetx
=  """ ++ [28040; 24687]%N ++ runes_of_ascii """MetaDataX= // " ++ [27880; 37322]%N ++ runes_of_ascii "
false root // c
packet // packet A { u8 x, }
Pad { repeat
u8 Header
// packet A { u8 x, }
//	t
`{ , }`
// a // b
//x
, }
")).
Eval vm_compute in ("<<<M2302>>>" ++ check (runes_of_ascii "options{
leftPad
    =65535
;
a1 = true ; packetx=  '\x00' ; packetx
=  """ ++ [28040; 24687]%N ++ runes_of_ascii """MetaDataX= // " ++ [27880; 37322]%N ++ runes_of_ascii "
false }root // c
packet // packet A { u8 x, }
Pad { repeat
Header u8
// packet A { u8 x, }
//	t
`{ , }`
// a // b
//x
, }
")).
Eval vm_compute in ("<<<M2334>>>" ++ check (runes_of_ascii "options{
leftPad
    =65535
;
a1 = true ; packetx=  '\x00' ; packetx
=  """ ++ [28040; 24687]%N ++ runes_of_ascii """MetaDataX= // " ++ [27880; 37322]%N ++ runes_of_ascii "
false }root // c
packet // packet A { u8 x, }
Pad { repeat
u8 Header
// packet A { u8 x, }
//	t
`{ , }`
// a // b
/" ++ [127]%N ++ runes_of_ascii "/x
, }
")).
Eval vm_compute in ("<<<M2366>>>" ++ check (runes_of_ascii "
packet float
{	@calculatedFrom(  )
@rightPad ( '\x00' )
    @calculatedFrom( ""x y"" ) string chars  ,
    // a // b
    char[0 ]
    u	@lengthOf( i8i8 ) `{ , }` ,repeat char[] o //x
`// not a comment`, } // c")).
Eval vm_compute in ("<<<M2398>>>" ++ check (runes_of_ascii "
packet float
{	@calculatedFrom( """ ++ [233]%N ++ runes_of_ascii "t" ++ [233]%N ++ runes_of_ascii """ )
@rightPad ( '\x00' )
    ""x y"" @calculatedFrom( ) string chars  ,
    // a // b
    char[0 ]
    u	@lengthOf( i8i8 ) `{ , }` ,repeat char[] o //x
`// not a comment`, } // c")).
Eval vm_compute in ("<<<M2430>>>" ++ check (runes_of_ascii "
packet float
{	@calculatedFrom( """ ++ [233]%N ++ runes_of_ascii "t" ++ [233]%N ++ runes_of_ascii """ )
@rightPad ( '\x00' )
    @calculatedFrom( ""x y"" ) string chars  ,")).
Eval vm_compute in ("<<<M2462>>>" ++ check (runes_of_ascii "
packet float
{	@calculatedFrom( """ ++ [233]%N ++ runes_of_ascii "t" ++ [233]%N ++ runes_of_ascii """ )
@rightPad ( '\x00' )
    @calculatedFrom( ""x y"" ) string chars  ,
    // a // b
    char[0 ]
    u	@lengthOf( i8i8 ) `{ , }` `{ , }` ,repeat char[] o //x
`// not a comment`, } // c")).
Eval vm_compute in ("<<<M2494>>>" ++ check (runes_of_ascii "
packet float
{	@calculatedFrom( """ ++ [233]%N ++ runes_of_ascii "t" ++ [233]%N ++ runes_of_ascii """ )
@rightPad ( '\x00' )
    @calculatedFrom( ""x y"" ) string chars  ,
    // a // b
    char[0 ]
    u	@lengthOf( i8i8 ) `{ , }` ,repeat char[] o //x
`// not a comment`@lengthOf( } // c")).
Eval vm_compute in ("<<<M2526>>>" ++ check (@nil rune)).
Eval vm_compute in ("<<<M2558>>>" ++ check (runes_of_ascii "root packet u128{
    repeat
    zchar[ 65535 ] ] u `" ++ [28040; 24687; 31867; 22411]%N ++ runes_of_ascii "` ,// `tick` ""quote"" 'q'
} packet i64_ {repeatCount
    `
` ,	} // " ++ [128512]%N ++ runes_of_ascii " emoji")).
Eval vm_compute in ("<<<M2590>>>" ++ check (runes_of_ascii "root packet u128{
    repeat
    zchar[ 65535 ] u `" ++ [28040; 24687; 31867; 22411]%N ++ runes_of_ascii "` ,// `tick` ""quote"" 'q'
} packet : {repeatCount
    `
` ,	} // " ++ [128512]%N ++ runes_of_ascii " emoji")).
Eval vm_compute in ("<<<M2622>>>" ++ check (runes_of_ascii "root packet u128{
    repeat
    zchar[ 65535 ]@x u `" ++ [28040; 24687; 31867; 22411]%N ++ runes_of_ascii "` ,// `tick` ""quote"" 'q'
} packet i64_ {repeatCount
    `
` ,	} // " ++ [128512]%N ++ runes_of_ascii " emoji")).
Eval vm_compute in ("<<<M2654>>>" ++ check (runes_of_ascii "
MetaData
roots { int8 int8
    BodyLength ,//	t
}
")).
Eval vm_compute in ("<<<M2686>>>" ++ check (runes_of_ascii "
MetaDat~a
roots { int8
    BodyLength ,//	t
}
")).
Eval vm_compute in ("<<<M2718>>>" ++ check (runes_of_ascii "options {Packet =")).
Eval vm_compute in ("<<<M2750>>>" ++ check (runes_of_ascii "options {Packet = ""CRC32""i8i8 = false; leftPad =
    '\x00' '\x00'
    // `tick` ""quote"" 'q'
    ; o=255  ;
    // packet A { u8 x, }
    }")).
Eval vm_compute in ("<<<M2782>>>" ++ check (runes_of_ascii "options {Packet = ""CRC32""i8i8 = false; leftPad =
    '\x00'
    // `tick` ""quote"" 'q'
    ; o=255  ;")).
Eval vm_compute in ("<<<M2814>>>" ++ check (runes_of_ascii "
packet")).
Eval vm_compute in ("<<<M2846>>>" ++ check (runes_of_ascii "
packet metadata { @rightPad (
    // packet A { u8 x, }
    ' ' ) repeat u32 u32	A
,matchKey ,
    @lengthOf( string_ ) @lengthOf( body )
    // a // b
    @lengthOf(float  )	repeat
int32 u8x
    // c
    `tab	here`
, } // a // b")).
Eval vm_compute in ("<<<M2878>>>" ++ check (runes_of_ascii "
packet metadata { @rightPad (
    // packet A { u8 x, }
    ' ' ) repeat u32	A
,matchKey ,
    @lengthOf( : ) @lengthOf( body )
    // a // b
    @lengthOf(float  )	repeat
int32 u8x
    // c
    `tab	here`
, } // a // b")).
Eval vm_compute in ("<<<M2910>>>" ++ check (runes_of_ascii "
packet metadata { @rightPad (
    // packet A { u8 x, }
    ' ' ) repeat u32	A
,matchKey ,
    @lengthOf( string_ ) @lengthOf( body )
    // a // b
    @lengthOf(float  	repeat
int32 u8x
    // c
    `tab	here`
, } // a // b")).
Eval vm_compute in ("<<<M2942>>>" ++ check (runes_of_ascii "
packet metadata { @rightPad (
    // packet A { u8 x, }
    ' ' ) repeat u32	A
,matchKey ,
    @lengthOf( string_ ) @lengthOf( body )
    // a // b
    @lengthOf(float  )	repeat
int32 u8x
    // c
    `tab	here`
, repeat // a // b")).
Eval vm_compute in ("<<<M2974>>>" ++ check (runes_of_ascii "packet char{
string
zchar , //	t
}
")).
Eval vm_compute in ("<<<M3006>>>" ++ check (runes_of_ascii "packet x{
string
zcha" ++ [8232]%N ++ runes_of_ascii "r , //	t
}
")).
Eval vm_compute in ("<<<M3038>>>" ++ check (runes_of_ascii "
MetaData Logon
{ // c
} }root packet
    Pad {
    } options
{
u
    =
    ""CRC32""
    // " ++ [128512]%N ++ runes_of_ascii " emoji
    i64_ = u16;
T =65535 x = ' '
    ; u128
= true ; }")).
Eval vm_compute in ("<<<M3070>>>" ++ check (runes_of_ascii "
MetaData Logon
{ // c
}root packet
    Pad {
    } i8
{
u
    =
    ""CRC32""
    // " ++ [128512]%N ++ runes_of_ascii " emoji
    i64_ = u16;
T =65535 x = ' '
    ; u128
= true ; }")).
Eval vm_compute in ("<<<M3102>>>" ++ check (runes_of_ascii "
MetaData Logon
{ // c
}root packet
    Pad {
    } options
{
u
    =
    ""CRC32""
    // " ++ [128512]%N ++ runes_of_ascii " emoji
    i64_ = ;
T =65535 x = ' '
    ; u128
= true ; }")).
Eval vm_compute in ("<<<M3134>>>" ++ check (runes_of_ascii "
MetaData Logon
{ // c
}root packet
    Pad {
    } options
{
u
    =
    ""CRC32""
    // " ++ [128512]%N ++ runes_of_ascii " emoji
    i64_ = u16;
T =65535 x ' ' =
    ; u128
= true ; }")).
Eval vm_compute in ("<<<M3166>>>" ++ check (runes_of_ascii "
MetaData Logon
{ // c
}root packet
    Pad {
    } options
{
u
    =
    ""CRC32""
    // " ++ [128512]%N ++ runes_of_ascii " emoji
    i64_ = u16;
T =65535 x = ' '
    ; u128
= true")).
Eval vm_compute in ("<<<M3198>>>" ++ check (runes_of_ascii "MetaData {}
packet	Packet { x_y_z @calculatedFrom(  ""a\\"")// `tick` ""quote"" 'q'
, }
")).
Eval vm_compute in ("<<<M3230>>>" ++ check (runes_of_ascii "MetaData body{}
packet	Packet { @calculatedFrom( x_y_z  ""a\\"")// `tick` ""quote"" 'q'
, }
")).
Eval vm_compute in ("<<<M3262>>>" ++ check (runes_of_ascii "MetaData body{}
packet	Packet { x_y_z @calculatedFrom(  #""a\\"")// `tick` ""quote"" 'q'
, }
")).
Eval vm_compute in ("<<<M3294>>>" ++ check (runes_of_ascii "packet f32a { root packet len {repeat u // " ++ [128512]%N ++ runes_of_ascii " emoji
`{ , }` , }
")).
Eval vm_compute in ("<<<M3326>>>" ++ check (runes_of_ascii "packet f32a {} root packet len {repeat `{ , }` // " ++ [128512]%N ++ runes_of_ascii " emoji
u , }
")).
Eval vm_compute in ("<<<M3358>>>" ++ check (runes_of_ascii "$packet f32a {} root packet len {repeat u // " ++ [128512]%N ++ runes_of_ascii " emoji
`{ , }` , }
")).
Eval vm_compute in ("<<<M3390>>>" ++ check (runes_of_ascii "options{ _x=""\" ++ [233]%N ++ runes_of_ascii """;
    Logon = 10	; Foo= 7;
i64_= char[]} options {
matchKey = ""// no comment"" // a // b
falsey = string
; trueish =
    4294967296
=options1
    ""it's"" string_	= true } options {
    /// triple
    }")).
Eval vm_compute in ("<<<M3422>>>" ++ check (runes_of_ascii "options{ _x=""\" ++ [233]%N ++ runes_of_ascii """;
    Logon = 10	; Foo= 7 7;
i64_= char[]} options {
matchKey = ""// no comment"" // a // b
falsey = string
; trueish =
    4294967296
options1=
    ""it's"" string_	= true } options {
    /// triple
    }")).
Eval vm_compute in ("<<<M3454>>>" ++ check (runes_of_ascii "options{ _x=""\" ++ [233]%N ++ runes_of_ascii """;
    Logon = 10 10	; Foo= 7;
i64_= char[]} options {
matchKey = ""// no comment"" // a // b
falsey = string
; trueish =
    4294967296
options1=
    ""it's"" string_	= true } options {
    /// triple
    }")).
Eval vm_compute in ("<<<M3486>>>" ++ check (runes_of_ascii "options{ _x=""\" ++ [233]%N ++ runes_of_ascii """;
    Logon = 10	; Foo= 7;
i64_= char[]} options {
matchKey = ""// no comment"" // a // b
falsey = string
; trueish =")).
Eval vm_compute in ("<<<M3518>>>" ++ check (runes_of_ascii "a")).
Eval vm_compute in ("<<<M3550>>>" ++ check (runes_of_ascii "@leftpad")).
Eval vm_compute in ("<<<M3582>>>" ++ check (runes_of_ascii """\\""")).
Eval vm_compute in ("<<<M3614>>>" ++ check (runes_of_ascii "	a")).
Eval vm_compute in ("<<<M3646>>>" ++ check (runes_of_ascii "packet A { char[ 3 y, }")).
Eval vm_compute in ("<<<M3678>>>" ++ check (runes_of_ascii "packet A { match k as n { [[1]] : B }, }")).
Eval vm_compute in ("<<<M3710>>>" ++ check (runes_of_ascii "root packet A { } root packet B { }")).
Eval vm_compute in ("<<<M3742>>>" ++ check (runes_of_ascii "{ }")).
Eval vm_compute in ("<<<M3774>>>" ++ check (runes_of_ascii "] ) } zchar[ 10 i32 } string as charz , } zchar[")).
Eval vm_compute in ("<<<M3806>>>" ++ check (runes_of_ascii "] uint8 ""`tick`"" `doc` '\x00'")).
Eval vm_compute in ("<<<M3838>>>" ++ check (runes_of_ascii "options packet ""packet""")).
Eval vm_compute in ("<<<M3870>>>" ++ check (runes_of_ascii """x y"" string Pad , packet ;")).
Eval vm_compute in ("<<<M3902>>>" ++ check (runes_of_ascii "int32 uint32 = uint64 i8 i16 = ( ] = uint16 MetaData :")).
Eval vm_compute in ("<<<M3934>>>" ++ check (runes_of_ascii "root ] u16 false @calculatedFrom( uint8 ) MetaData zchar[ ,")).
Eval vm_compute in ("<<<M3966>>>" ++ check (runes_of_ascii "; MetaData options uint32 zchar[ '0' true")).
Eval vm_compute in ("<<<M3998>>>" ++ check (runes_of_ascii "match packet match f32a @lengthOf( u8 char")).
