From FP Require Import Lexer Parser ShowPT Digest Formatter.
From Coq Require Import String List NArith.
Import ListNotations.
Open Scope string_scope.
Set Printing Width 100000000.
Set Printing Depth 100000000.
Definition show_fres (r : fres) : string :=
  match r with
  | FOk s => "OK:" ++ sh_escaped s ""
  | FErr s => "ERR:" ++ sh_escaped s ""
  | FPanic p => "PANIC:" ++ p
  end.
Definition check (rs : list rune) : string := digest (show_fres (format_res rs)).
Definition full (rs : list rune) : string := show_fres (format_res rs).
Eval vm_compute in ("<<<M3854>>>" ++ check (runes_of_ascii "packet u {
    @leftPad('\x00')
    match pack as Logon {
        """ ++ [28040; 24687]%N ++ runes_of_ascii """ : As,
        ""`tick`"" : asx,
        0 : float,
    },
    // @lengthOf(
    // " ++ [128512]%N ++ runes_of_ascii " emoji
    string trueish @calculatedFrom(""a	b""),// " ++ [27880; 37322]%N ++ runes_of_ascii "
    match matchKey as options1 {
        //x
        /// triple
        00 : lengthOf,
        // @lengthOf(
        //x
    },
    match roots as Header {
        42 : string_,
        [
            10, ""a\""b"", ""\" ++ [233]%N ++ runes_of_ascii """, ""\" ++ [233]%N ++ runes_of_ascii """, ""CRC32"",
            ""1"", ""it's"", ""abc""
        ] : lengthOf,
        ""CRC32"" : As,
    },
    char[] falsey,//	t
    chars @lengthOf(a1),
    @tag(255)
    @lengthOf(x)
    match metadata as rootA {
        007 : trueish,
        00 : metadata,
        [0123456789] : x_y_z,
        0 : Logon,
    },
    @leftPad('\x00')
    zchar[1] pack `" ++ [233]%N ++ runes_of_ascii "`,
    @leftPad()
    match x_y_z as Z9_ {
        // a // b
        //x
        """ ++ [128512]%N ++ runes_of_ascii """ : leftPad,
    },
    repeat Z9_ `tab	here`,// trailing space 
}

options {
    uint8x = string;
}

MetaData MetaDataX {
    i64_ uint8x,
    zchar[0] float,
    char[] packetx `it's`,
}

root packet crc {
    @tag(1)
    i64_ @calculatedFrom(""" ++ [233]%N ++ runes_of_ascii "t" ++ [233]%N ++ runes_of_ascii """),//x
    @calculatedFrom(""\n"")
    @calculatedFrom(""it's"")
    @calculatedFrom(""a\\"")
    chars uint8x,
    @tag(7)
    match Logon as string_ {
        3 : a1,
        // " ++ [128512]%N ++ runes_of_ascii " emoji
    },
    int16 i64_ `
        `,
    @tag(1)
    falsey T,
}

root packet Foo {
    // trailing space 
    repeat zchar {
        i64_ @calculatedFrom(""" ++ [233]%N ++ runes_of_ascii "t" ++ [233]%N ++ runes_of_ascii """) `line1
                line2`,
        match matchKey as zchar {
            ""1"" : As,
            [0] : f32a,
            [""x y""] : body,
            ""it's"" : _x,
            [""" ++ [28040; 24687]%N ++ runes_of_ascii """, 007] : matchKey,
            ""x y"" : x_y_z,
        },
        zchar[7] metadata @lengthOf(_x) `// not a comment`,
        float @lengthOf(matchKey),
    },
    packetx @calculatedFrom(""// no comment""),
    roots @lengthOf(falsey),// " ++ [128512]%N ++ runes_of_ascii " emoji
    u8 calculatedFrom `{ , }`,
    char[10] repeatCount `crlf
        line`,
    @lengthOf(float)
    int16 int `two words`,
    repeat u64 x,
    i8i8 @lengthOf(Packet) `" ++ [28040; 24687; 31867; 22411]%N ++ runes_of_ascii "`,
}")).
Eval vm_compute in ("<<<M390>>>" ++ check (runes_of_ascii "packet calculatedFrom {
    i8 i8i8 ,//
@tag(3 )// trailing space 
repeat	uint16 u128 , u64 x_y_z``,@tag( 00
    ) @leftPad ( // " ++ [128512]%N ++ runes_of_ascii " emoji
' ') u
//x
// trailing space 
{//x
match // `tick` ""quote"" 'q'
uint8x as i64_{007 : As
    ,
007
    : len
, 42//
:
asx , 10 :
    // trailing space 
    BodyLength 0123456789 :
calculatedFrom // " ++ [128512]%N ++ runes_of_ascii " emoji
,
[ 3 ,
""it's""  ,""\n"" // trailing space 
, """ ++ [28040; 24687]%N ++ runes_of_ascii """ , 0123456789
, 42  ,
255 ,
""" ++ [233]%N ++ runes_of_ascii "t" ++ [233]%N ++ runes_of_ascii """] :
//x
//	t
tag ,
    } // trailing space 
,
    match pack
    // `tick` ""quote"" 'q'
    as charz {""CRC32"" :int
}
,len
@calculatedFrom(
// a // b
/// triple
""packet"" )  , }
,}
    packet calculatedFrom
{	repeat packetx{ repeat string
    options1 , }
    ,int64 msg_type, @tag( 3 ) leftPad float
    , match body as /// triple
Pad { 255:calculatedFrom , [
""it's""
, """" ,
""CRC32""	,
4294967296 , 10  ,
""" ++ [233]%N ++ runes_of_ascii "t" ++ [233]%N ++ runes_of_ascii """  ,
0123456789
    ]	: trueish 10 :Z9_ , [
    ""a\\""
    ] : roots	,
    // c
    0123456789
: rootA , },
}options
{	options1=0123456789 } options
{  }// " ++ [27880; 37322]%N ++ runes_of_ascii "
root
packet asx{ @lengthOf(	a1 ) match u8x as lengthOf
{
// `tick` ""quote"" 'q'
//x
[ 00, 00 ]:
    Packet
    ,  [  ""CRC32""
    /// triple
    , ""abc""  ,
//x
// c
3 ]	:x_y_z[""" ++ [28040; 24687]%N ++ runes_of_ascii """ ,
7	] :
    packetx""a	b"" :
    As""a	b"" : x_y_z , ""// no comment"": u,
} , zchar[ 0
// trailing space 
//x
]i64_ ,
match stringy as // " ++ [27880; 37322]%N ++ runes_of_ascii "
zchar
    { [ ""// no comment"" ,10
,1,  """ ++ [128512]%N ++ runes_of_ascii """ ] : Foo
, } , @rightPad
    // trailing space 
    ( '\x00') // trailing space 
float
,u64	Foo `say ""hi""`
, matchKey, // packet A { u8 x, }
uint16 tag
    `crlf
line` ,string // a // b
u8x
`two words` ,  string pack @calculatedFrom( ""packet""  )
, @calculatedFrom( ""`tick`"" //x
) float64 Logon , }
// " ++ [128512]%N ++ runes_of_ascii " emoji
")).
Eval vm_compute in ("<<<M3645>>>" ++ check (runes_of_ascii "packet zchar {
    char[] string_,
    // @lengthOf(
    msg_type,
    match roots as metadata {
        3 : Logon,
        [
            ""a\\"", ""1"", 3, 00, ""a\\"",
            7, 65535, 3
        ] : x_y_z,
        0123456789 : o,
        ""\" ++ [233]%N ++ runes_of_ascii """ : x,
        ""CRC32"" : Foo,
    },
    char Header `u8 x,`,
}//	t

options {
}

packet As {
    zchar[10] roots,
    char[7] calculatedFrom @lengthOf(body),
    char stringy @lengthOf(metadata),
    Pad u128,
    @calculatedFrom(""it's"")
    Z9_,
    match falsey as MetaDataX {
        4294967296 : float,
        //x
        3 : Pad,
        1 : T,
    },
    @tag(3)
    char[] A @calculatedFrom(""it's""),
    o tag,
    @lengthOf(x)
    zchar[4294967296] rootA `
    `,
}

root packet Logon {
    repeat _x {
        leftPad `crlf
        line`,
    },
    repeat i8 Packet,
    MetaDataX `// not a comment`,
    asx `two words`,
    repeat lengthOf tag,
    @calculatedFrom(""CRC32"")
    // @lengthOf(
    match repeatCount as BodyLength {
        """ ++ [128512]%N ++ runes_of_ascii """ : len,
        [
            255, ""a\\"", 0123456789, ""CRC32"", 7,
            42
        ] : repeatCount,
    },
    i64_ msg_type `crlf
    line`,
}

packet repeatCount {
    @calculatedFrom(""a\""b"")
    match a1 as matchKey {
        00 : options1,
        4294967296 : x_y_z,
        [3, ""a	b"", 0123456789] : i64_,
        0 : leftPad,
        ""`tick`"" : int,
        [""" ++ [28040; 24687]%N ++ runes_of_ascii """] : Z9_,
    },
}")).
Eval vm_compute in ("<<<M4487>>>" ++ check (runes_of_ascii "
MetaData crc 
    // trailing space 
	// packet A { u8 x, }
{
    Z9_ metadata `u8 x,`
	, 
}	packet	// packet A { u8 x, }

matchKey 
{leftPad,

    string
x

    , 
	// " ++ [27880; 37322]%N ++ runes_of_ascii "
  }
packet
x  { match

    msg_type

    as 
MetaDataX	//
	{ // @lengthOf(
  00

:
roots

    , }	, char[255 ] 

    // packet A { u8 x, }
falsey

`" ++ [28040; 24687; 31867; 22411]%N ++ runes_of_ascii "` 
    //	t
    	, 
@lengthOf(
Logon
	) 
@tag(42  ) @lengthOf(
    Foo
)
    repeat //	t
	char[ 1]
	u,
// packet A { u8 x, }
	  //	t
i8 chars@calculatedFrom(

    ""a\""b"" 
    // @lengthOf(
    // trailing space 
),@calculatedFrom(  """ ++ [128512]%N ++ runes_of_ascii """ 	 /// triple
    )
    @calculatedFrom(
""`tick`"") f64 
Logon  , @lengthOf(
	calculatedFrom 
)  //

repeatCount
{ repeat Packet
    `two words`,

    match
	i64_
as	charz
{ ""a\\""	:
	int [	""\" ++ [233]%N ++ runes_of_ascii """,	0123456789
,""" ++ [28040; 24687]%N ++ runes_of_ascii """
	]
:Pad ,
1

:
As 
,""CRC32""
:
Header,
    }  ,	char[
007  // packet A { u8 x, }
    ] tag `doc` ,

repeat As `" ++ [233]%N ++ runes_of_ascii "` ,// c
	}
    ,
	MetaDataX

    @calculatedFrom(
	""""
	)

`line1
line2`  , // c
    } 
options	{  _x	= false
	As = zchar[ 65535 ]

    BodyLength

    =  int64
o = false
	; calculatedFrom =
'0'
; }
root packet
Packet
{// @lengthOf(
  falsey
	Packet
	, 
@lengthOf( 
BodyLength  )
	@lengthOf(uint8x	)@rightPad

    (	)
string 
float `// not a comment` 
,  }

")).
Eval vm_compute in ("<<<M4254>>>" ++ check (runes_of_ascii "
options  { 
Pad	//x

  =""""
	; // trailing space 
	  zchar
=
    char[ 
65535  ] 
Foo  // c
	= 
1

;  }
	packet

    asx  {
repeat
    char  u128 
        // " ++ [27880; 37322]%N ++ runes_of_ascii "
	//x
  ,  i16 Pad	,	x

@lengthOf(

Packet

)  `
` 
, @tag(
10
)  repeat	float32

    i64_`// not a comment`

    , @calculatedFrom(

"""" ) @calculatedFrom(
    """"

    )

@calculatedFrom(
	""it's"" ) 
repeat	BodyLength  Foo ``	, /// triple

	matchKey	As 
`say ""hi""`,
@rightPad

    (

    ' '

) i8i8  BodyLength

`" ++ [233]%N ++ runes_of_ascii "`,}

packet
    Pad
{
@tag(

    10
	)
    match  o// a // b

as

    zchar{

    [ ""abc""	]

    : 
i8i8,
""// no comment""

:

    T
,  } 
, u128 f32a

    `{ , }`	,

    @rightPad
(
)  float64 Packet

    @lengthOf(
    chars )

`it's`
	,@rightPad( '0'  /// triple
	)  repeat
    zchar Packet `" ++ [28040; 24687; 31867; 22411]%N ++ runes_of_ascii "`  ,
	@tag(

00
	// a // b
  /// triple
)
@rightPad

    ('0' ) match u  as  pack  {

""" ++ [28040; 24687]%N ++ runes_of_ascii """

    : repeatCount
""abc""
:

Foo
	7  :A	, ""\" ++ [233]%N ++ runes_of_ascii """ 	 // packet A { u8 x, }
	:

    _x
,
}

    ,  As

    @lengthOf(int
)
//
	  // " ++ [128512]%N ++ runes_of_ascii " emoji
  , 
char[ 7

    ]
rootA@lengthOf(
leftPad )`{ , }` 
,repeat  f64 x,@calculatedFrom(
""" ++ [128512]%N ++ runes_of_ascii """

)
char[]  u128 ,
    }
")).
Eval vm_compute in ("<<<M1403>>>" ++ check (runes_of_ascii "options {
	StringPrefixLenType = u16;
	ArrayPrefixLenType = u16;
}

packet SampleBinary {
	uint16 MsgType `" ++ [28040; 24687; 31867; 22411]%N ++ runes_of_ascii "`,
	u16 BodyLenght @lengthOf(Body) `" ++ [28040; 24687; 20307; 38271; 24230]%N ++ runes_of_ascii "`,
	match MsgType as Body {
		1 : Logon,
		2 : Logout,
		3 : Heartbeat,
		4 : RiskControlRequest,
		5 : RiskControlResponse,
	},
		@calculatedFrom(""CRC32"")
	u32 Ckecksum `" ++ [26657; 39564; 21644]%N ++ runes_of_ascii "`,
}

packet Logon {
	 @leftPad('0')
	char[10] UserName `" ++ [29992; 25143; 21517]%N ++ runes_of_ascii "`,
	string Password `" ++ [23494; 30721]%N ++ runes_of_ascii "`,
	uint64 ClientId `" ++ [23458; 25143; 31471]%N ++ runes_of_ascii "ID`,
	u16 HeartbeatInterval `" ++ [24515; 36339; 38388; 38548]%N ++ runes_of_ascii "`,
}

packet Logout {
	  @rightPad('0')
	char[10] UserName `" ++ [29992; 25143; 21517]%N ++ runes_of_ascii "`,
	uint64 ClientId `" ++ [23458; 25143; 31471]%N ++ runes_of_ascii "ID`,
}

packet Heartbeat {
}

packet RiskControlRequest {
	string UniqueOrderId `" ++ [21807; 19968; 35746; 21333; 21495]%N ++ runes_of_ascii "`,
	char[16] ClOrdID `" ++ [23458; 25143; 35746; 21333; 21495]%N ++ runes_of_ascii "`,
	char[3] MarketID `" ++ [24066; 22330]%N ++ runes_of_ascii "id`,
	char[12] SecurityID `" ++ [35777; 21048; 20195; 30721]%N ++ runes_of_ascii "`,
	char Side `" ++ [20080; 21334; 26041; 21521]%N ++ runes_of_ascii "`,
	char OrderType `" ++ [35746; 21333; 31867; 22411]%N ++ runes_of_ascii "`,
	u64 Price `" ++ [20215; 26684]%N ++ runes_of_ascii "`,
	u32 Qty `" ++ [25968; 37327]%N ++ runes_of_ascii "`,
	repeat string ExtraInfo `" ++ [38468; 21152; 20449; 24687]%N ++ runes_of_ascii "`,
	repeat SubOrder {
			char[16] ClOrdID `" ++ [23376; 35746; 21333; 21495]%N ++ runes_of_ascii "`,
			u64 Price `" ++ [23376; 35746; 21333; 20215; 26684]%N ++ runes_of_ascii "`,
			u32 Qty `" ++ [23376; 35746; 21333; 25968; 37327]%N ++ runes_of_ascii "`,
		},
}

packet RiskControlResponse {
	string UniqueOrderId `" ++ [21807; 19968; 35746; 21333; 21495]%N ++ runes_of_ascii "`,
	i32 Status `" ++ [29366; 24577]%N ++ runes_of_ascii "`,
	string Msg `" ++ [32467; 26524; 20449; 24687]%N ++ runes_of_ascii "`,
	repeat Detail,
}

packet Detail {
	string RuleName `" ++ [35268; 21017; 21517; 31216]%N ++ runes_of_ascii "`,
	u16 Code `" ++ [21407; 22240; 20195; 30721]%N ++ runes_of_ascii "`,
}")).
Eval vm_compute in ("<<<M4365>>>" ++ check (runes_of_ascii "packet  lengthOf {

crc  @calculatedFrom( 
""""

    ) `two words`, 
@lengthOf(crc
)
    // c
  @calculatedFrom(

    ""x y"" )
u16 Logon `line1
line2`
    ,
}  MetaData  u128{ 
}  packet
len
	{ 
match options1
    as pack
{
    00

: 
BodyLength
	,

    }

    ,  @calculatedFrom( ""a	b""  )
    asx Z9_  ``
	, @rightPad
()u32 calculatedFrom

    @lengthOf( asx )

`doc`, @calculatedFrom(
""" ++ [28040; 24687]%N ++ runes_of_ascii """
)	uint8x ,  repeat  zchar[// " ++ [128512]%N ++ runes_of_ascii " emoji
	007 ] u128
,stringy
{ repeat

zchar[

3
    ] 
A
    ,
repeat	i64

o/// triple

  ``

,
f32  // @lengthOf(
packetx @calculatedFrom( ""\" ++ [233]%N ++ runes_of_ascii """
),
packetx	charz 
,
    }
    ,
match

    int as
Z9_  {
	""a\\"" : 
crc 
    // " ++ [128512]%N ++ runes_of_ascii " emoji
  // " ++ [128512]%N ++ runes_of_ascii " emoji
    ,
""""
    /// triple
: trueish ,	[
00
, ""\" ++ [233]%N ++ runes_of_ascii """ , 
4294967296
    ]
	:  Packet

, 
}, 

/// triple

	// packet A { u8 x, }

	u8

// packet A { u8 x, }
	/// triple
  msg_type
    // @lengthOf(
	  //
  	@lengthOf(	i64_  )  ,
}	root packet
A
{

    BodyLength@lengthOf( stringy

    ) ,
rootA 
As ,
	repeat BodyLength
options1	`a\`,
}

")).
Eval vm_compute in ("<<<M3550>>>" ++ check (runes_of_ascii "
options

{ 
StringPrefixLenType
    = u8;
    ArrayPrefixLenType

    =
	u32 ;
	FixedStringPadFromLeft	= 
false

;
FixedStringPadChar
	=	' ';

}
    packet
    Party  {repeat 
i16
Qty, repeat

    string 
Tail
, i8
OrderId

    ,

i8  msgKind
    ,
}
    packet
    Ack {
Party
,repeat
InRef20 {  Party,

    int8 tag7

    ,  char[ 5 
]OrderId,	zchar[ 7  ]  Tail

    , char[] 
count ,
    InPrice45

{
Party	, char[
1 
]Px

, 
}
, },

char[ 12
]
	price , int8 sym,
}
packet	Reject

    {repeat

InPrice47 { Party  ,} ,  zchar[ 4

]	x

    , 
repeat
Ack  ,

    zchar[
	2] 
Ref
,repeat
    Party ,

    }packet  Cancel
{
Reject,

    repeat
    string  f1 
, uint16

OrderId

,

u8
    Acct  ,
    int8 msgKind,}  root packet 
Fill{ u8	count

, char[] 
tag7
    ,

zchar[
7
]Acct
,u32
    OrderId
	,u32
Note
	@lengthOf(
	Body
	) 
,
	match
    OrderId  as

Body {
    106 :Cancel,196

    :
	Reject 
, 74 :  Party
    ,75
: Ack	,
}
    , }
")).
Eval vm_compute in ("<<<M4378>>>" ++ check (runes_of_ascii "packet body {
    match u as f32a {
        ""// no comment"" : float,
    },
    // trailing space 
    float32 int,
    char[] tag `u8 x,`,
    @lengthOf(body)
    repeat i64_ crc,
    @leftPad('0')
    float64 zchar,// packet A { u8 x, }
    @lengthOf(A)
    @leftPad()
    @lengthOf(int)
    //
    crc @calculatedFrom(""1""),
}

root packet body {
    /// triple
    @lengthOf(T)
    repeat u128 `line1
    line2`,
    string BodyLength,
    @calculatedFrom(""x y"")
    char[] zchar @calculatedFrom(""a\""b"") `" ++ [28040; 24687; 31867; 22411]%N ++ runes_of_ascii "`,
    falsey trueish,/// triple
    @rightPad('\x00')
    @lengthOf(As)
    @tag(4294967296)
    repeat char[] uint8x,
    packetx,
    @tag(7)
    //
    i64 roots @calculatedFrom(""" ++ [233]%N ++ runes_of_ascii "t" ++ [233]%N ++ runes_of_ascii """) `// not a comment`,
    @calculatedFrom(""x y"")
    /// triple
    f64 float @lengthOf(Packet),
    @tag(4294967296)
    u32 lengthOf @calculatedFrom(""\" ++ [233]%N ++ runes_of_ascii """),
    @tag(10)
    Foo,
}

packet leftPad {
}

options {
    i8i8 = zchar[7]
}")).
Eval vm_compute in ("<<<M3513>>>" ++ check (runes_of_ascii "options {
    LittleEndian = true;
    StringPrefixLenType = u32;
    FixedStringPadChar = '0';
}
packet Logout {
    repeat InMsgkind49 {
        u8 pad0,
    },
    repeat char[5] seqNo,
    repeat u8 price,
}
packet Party {
    zchar[7] Qty,
}
packet Logon {
    repeat InRef10 {
        string price,
        char[] sym,
        repeat Logout,
    },
    repeat char[3] count,
    repeat Party,
    char[] tag7,
    @rightPad('0') char[2] clOrdID,
}
packet Order {
    InTail13 {
        Party,
    },
    repeat char[4] count,
}
root packet Cancel {
    Logout,
    @leftPad('0') char[9] msgKind,
    string lastPx,
    string tag7,
    zchar[1] OrderId,
    repeat Party,
    u16 sym,
    u16 Acct @lengthOf(Body),
    match sym as Body {
        [24, 44] : Logout,
        160 : Order,
        91 : Logon,
        43 : Party,
    },
    u16 Tail @calculatedFrom(""CR\
C32""),
}
")).
Eval vm_compute in ("<<<M381>>>" ++ check (runes_of_ascii "MetaData// " ++ [128512]%N ++ runes_of_ascii " emoji
A  { repeatCount f32a `it's`  ,} root packet rootA { @lengthOf(
//
// trailing space 
Foo ) @rightPad ('0'	)
@calculatedFrom(
""{,}"" ) int16 u8x ,
    @leftPad (	' ' //	t
) @calculatedFrom( // c
""it's""
) f64 metadata `two words`
    , //x
char[] T `{ , }` ,}
    packet crc{ int8 float @lengthOf( u
    // @lengthOf(
    )`" ++ [28040; 24687; 31867; 22411]%N ++ runes_of_ascii "`
    //x
    , // " ++ [128512]%N ++ runes_of_ascii " emoji
string options1  `
`	,
    @calculatedFrom(
""x y"" )
x_y_z o , /// triple
@tag( 007	)  a1
@calculatedFrom( ""a\\"" ) ,
}
    root
    packet Foo
    { repeat i16 chars ,Logon @calculatedFrom(""\" ++ [233]%N ++ runes_of_ascii """ )  ,
@calculatedFrom(
""packet""  )
    x_y_z
// packet A { u8 x, }
// trailing space 
`say ""hi""` ,
repeat string
Foo
, repeat metadata
i8i8`crlf
line`
// packet A { u8 x, }
// @lengthOf(
,@calculatedFrom(
    ""a	b"" ) char[] charz @calculatedFrom(""""
    )
    ,}
")).
Eval vm_compute in ("<<<M4328>>>" ++ check (runes_of_ascii "packet chars {
    // c
    string metadata,
    i32 u8x @calculatedFrom(""`tick`""),
    repeat char[] stringy,
    char[10] pack `u8 x,`,
    o,
    falsey @calculatedFrom(""`tick`"") `it's`,
    @leftPad()
    u32 body `u8 x,`,
    @calculatedFrom(""packet"")
    char metadata `// not a comment`,
    // " ++ [27880; 37322]%N ++ runes_of_ascii "
    @lengthOf(A)
    float64 _x @lengthOf(Header),
    body,
}

packet Header {
    falsey,
    match trueish as lengthOf {
        ""packet"" : i8i8,
        ""x y"" : falsey,
        [""\" ++ [233]%N ++ runes_of_ascii """] : zchar,
        00 : float,
        ""\n"" : f32a,
    },
    string A `two words`,
    repeat char[0] Z9_ `two words`,
    repeat Z9_ x,
    char trueish,
}

MetaData x_y_z {
    float32 x `a\`,
    u128 i64_ `a\`,
    x_y_z trueish,
    u16 i64_,
}

root packet pack {
}

options {
    msg_type = 007;
}")).
Eval vm_compute in ("<<<M1010>>>" ++ check (runes_of_ascii "packet int { char[] // a // b
crc`it's` , } packet metadata{pack
    Logon , @tag( 00 )
    len { repeat u8x
leftPad`" ++ [28040; 24687; 31867; 22411]%N ++ runes_of_ascii "` ,
repeat u16 i64_ , } , @lengthOf( x
) repeat T MetaDataX`tab	here`
    ,match
    //x
    matchKey
    as lengthOf {
""a\\""
    :	_x ,	[/// triple
255 , 00 // `tick` ""quote"" 'q'
]: chars	,
[ ""it's"",
    0 ]// `tick` ""quote"" 'q'
:
    crc,0 :matchKey ,
""\" ++ [233]%N ++ runes_of_ascii """
// " ++ [128512]%N ++ runes_of_ascii " emoji
// a // b
: //
rootA ""x y"" // trailing space 
: leftPad,
}
    /// triple
    , @tag(
    255)float32 options1 @calculatedFrom( ""`tick`"") , @rightPad (  ) i64 Packet `it's` ,repeat zchar[ 255 ] metadata
`tab	here` , /// triple
@rightPad ( '\x00' )// trailing space 
repeat i16 chars `" ++ [233]%N ++ runes_of_ascii "` , A
/// triple
// packet A { u8 x, }
@lengthOf(
    // c
    BodyLength ), }
")).
Eval vm_compute in ("<<<M423>>>" ++ check (runes_of_ascii "MetaData
i8i8 {
A u128  , } /// triple
packet  tag	{ repeat string_ falsey
`doc`,repeat Z9_
{ Header Logon `doc` // packet A { u8 x, }
,
int16 uint8x// `tick` ""quote"" 'q'
@lengthOf( body  ) ,
char[]  lengthOf , },
@lengthOf( asx )repeat
matchKey ,  @leftPad ( ' ' ) @rightPad (
// " ++ [128512]%N ++ runes_of_ascii " emoji
// " ++ [27880; 37322]%N ++ runes_of_ascii "
' ' ) Z9_ `{ , }`
    , char[
1]
    len	`{ , }` ,
} // trailing space 
options {
chars  = ""1""	trueish// c
= // " ++ [27880; 37322]%N ++ runes_of_ascii "
""a	b""u =
true ;crc ='0' ;
} packet
leftPad { @leftPad( ' ') // packet A { u8 x, }
zchar	i64_ ,
match options1
    as // c
string_ {
[ ""a\""b"" , ""packet"" , ""a\\"" , """ ++ [128512]%N ++ runes_of_ascii """ ] : i64_ ,  42/// triple
:
Z9_ ,
    },
zchar[
    00 ]trueish , @rightPad // trailing space 
( ' '  ) packetx options1
`line1
line2` , } //")).
Eval vm_compute in ("<<<M2>>>" ++ check (runes_of_ascii "
packet int{ len	T , }MetaData trueish { // packet A { u8 x, }
}
    packet BodyLength { @calculatedFrom( ""packet"" )
@calculatedFrom(
    ""CRC32"" )
    // c
    @tag(
00 ) char[ 4294967296 ] stringy, @lengthOf(
leftPad
)// c
char zchar ,@lengthOf( MetaDataX	)@tag(10) // " ++ [128512]%N ++ runes_of_ascii " emoji
@rightPad ( '0') options1 matchKey//
`{ , }`
    // packet A { u8 x, }
    , @tag( 42
    ) @tag( 1 ) @tag( 10
) char[] // c
stringy
`doc` , msg_type `" ++ [233]%N ++ runes_of_ascii "` ,
@lengthOf(trueish )body {	repeat o stringy `crlf
line` , repeat u32 i8i8 ,
    char[65535] stringy
`a\` ,
    //x
    }
    ,
@calculatedFrom(""packet""	) matchKey/// triple
, @tag( 4294967296 ) uint32 rootA @lengthOf( trueish ) ,string body `u8 x,` , }")).
Eval vm_compute in ("<<<M853>>>" ++ check (runes_of_ascii "options { metadata =
    7	matchKey= 42 ;
    A= ""`tick`"" ;
    matchKey = ""a\\"" u = """ ++ [128512]%N ++ runes_of_ascii """
}
    MetaData//	t
lengthOf  { //	t
matchKey Pad, } packet// " ++ [128512]%N ++ runes_of_ascii " emoji
float{ @rightPad( )
char[] int
@lengthOf(
    falsey ),
// " ++ [27880; 37322]%N ++ runes_of_ascii "
// trailing space 
@tag( 42 )
    repeat
zchar[
    1	] o `" ++ [28040; 24687; 31867; 22411]%N ++ runes_of_ascii "`	,
@calculatedFrom( """ ++ [233]%N ++ runes_of_ascii "t" ++ [233]%N ++ runes_of_ascii """)repeat
_x tag // " ++ [27880; 37322]%N ++ runes_of_ascii "
,
    @rightPad ( ' ' )float64 matchKey
    @lengthOf( u8x	) , @leftPad ( '\x00' )
    // trailing space 
    i8i8
    { char[] msg_type@calculatedFrom( ""// no comment""	) , } ,
    repeat char[	255
// trailing space 
// a // b
] i8i8,
}
options {matchKey = // trailing space 
1 float = // packet A { u8 x, }
""\" ++ [233]%N ++ runes_of_ascii """
; }
/// triple
")).
Eval vm_compute in ("<<<M1116>>>" ++ check (runes_of_ascii "packet MetaDataX { Foo , @rightPad( ' '
// " ++ [128512]%N ++ runes_of_ascii " emoji
// c
) match options1 as
    o { ""a\""b""
// c
// packet A { u8 x, }
:
T[7 , ""// no comment""
//	t
//
, ""{,}"" ,
7 ,	0 , 0 ,	""packet"" , 1 ] :
u128 , }	,@calculatedFrom( ""x y"" )// @lengthOf(
zchar[ 0123456789] Packet	,
    @rightPad ( '\x00'
    // packet A { u8 x, }
    )  repeat chars	x_y_z , repeat packetx leftPad , match uint8x as crc
{ [ """ ++ [233]%N ++ runes_of_ascii "t" ++ [233]%N ++ runes_of_ascii """  , ""CRC32"" ]
// packet A { u8 x, }
//
: body
, }
,@calculatedFrom(
""it's"" ) i8 zchar ,@lengthOf( MetaDataX )@rightPad ( ) @lengthOf( falsey) int , i8
trueish `say ""hi""` ,
@lengthOf(
matchKey	)repeat A // trailing space 
`a\` ,//x
}
")).
Eval vm_compute in ("<<<M774>>>" ++ check (runes_of_ascii "MetaData
chars{ } root packet
leftPad
{
@calculatedFrom(// " ++ [128512]%N ++ runes_of_ascii " emoji
""it's"" ) @calculatedFrom( ""\n"")@leftPad
( '\x00' )
repeat zchar[10
]Z9_ `" ++ [28040; 24687; 31867; 22411]%N ++ runes_of_ascii "`
, } root // @lengthOf(
packet matchKey
{ @leftPad
( '0' ) zchar[ 3
    // trailing space 
    ]
As,
A
    asx ,
@lengthOf(
    // packet A { u8 x, }
    int
)
    @leftPad ( ) repeat string	chars	, @tag( 0123456789
)@tag( 007
) match
    MetaDataX
    as	charz {
7 :	x_y_z
, [
    ""packet""
    // @lengthOf(
    ]: //x
roots , [""\n"" ]	:
A
, 7 :T , 42  : matchKey  ""x y""
: i64_ , } , } // " ++ [27880; 37322]%N ++ runes_of_ascii "
options {body
    = ""1""  ; x =char[/// triple
10
] ; } 	 ")).
Eval vm_compute in ("<<<M4266>>>" ++ check (runes_of_ascii "

  // top
  packet
	// c0
  trueish
// c1
{

// c2

repeat 
      // c3
    u32

// c4
	MetaDataX
	    // c5
`doc`
        // c6
, 
	    // c7

Header
// c8
{
    // c9
  packetx 
        // c10
    o
// c11
  `u8 x,` 
// c12
    ,

// c13
    	} 
// c14
    	, 
    // c15
  @leftPad
// c16
  (
	// c17

'\x00' 
	    // c18
  ) 
    // c19
  repeat 
	// c20

  char[

// c21
  0123456789
	// c22

]
    // c23
  repeatCount 
// c24
,
        // c25

  }
    // c26
packet
	    // c27
  Packet 
  // c28
    	{ 
	// c29
	} 
    // c30
 
")).
Eval vm_compute in ("<<<M472>>>" ++ check (runes_of_ascii "packet
    chars{@lengthOf(
//
// packet A { u8 x, }
Foo
    ) @tag(
65535 )@calculatedFrom(  ""a	b""
) match stringy as
    float { 10
:trueish ,[ 4294967296 ,""a\\""
/// triple
// trailing space 
,255 , ""a\""b"" ,0,""" ++ [128512]%N ++ runes_of_ascii """, ""`tick`""] :Header }
    ,
}packet u8x { int
    //
    @calculatedFrom(
    """ ++ [233]%N ++ runes_of_ascii "t" ++ [233]%N ++ runes_of_ascii """
) // packet A { u8 x, }
`" ++ [28040; 24687; 31867; 22411]%N ++ runes_of_ascii "` //	t
,@leftPad
( )A int
    , @tag( 10
    )
match roots // `tick` ""quote"" 'q'
as a1{ ""x y"" : u // `tick` ""quote"" 'q'
,
    }
,} MetaData falsey {	i8 metadata
    `{ , }`
, } // trailing space ")).
Eval vm_compute in ("<<<M976>>>" ++ check (runes_of_ascii "root packet uint8x{ @tag( 7 ) @leftPad ( ) // a // b
repeat Logon {  chars @calculatedFrom( /// triple
""x y""  )	`tab	here`
    //x
    ,
match falsey
// `tick` ""quote"" 'q'
// c
as uint8x { 7
    :
Logon,[ ""\n""
,42
    // trailing space 
    ]
:repeatCount ,
10 : x , """ ++ [28040; 24687]%N ++ runes_of_ascii """
    :i64_ , // c
}
    ,u128
    @calculatedFrom( ""a	b"") `crlf
line`  ,  }
// " ++ [27880; 37322]%N ++ runes_of_ascii "
// `tick` ""quote"" 'q'
,
    } packet charz
    //x
    { @lengthOf( Packet)
    // " ++ [27880; 37322]%N ++ runes_of_ascii "
    i64 // trailing space 
lengthOf
`tab	here` ,/// triple
}")).
Eval vm_compute in ("<<<M562>>>" ++ check (runes_of_ascii "MetaData	Z9_
    { char[ 00 ] i64_ `say ""hi""` ,
char
Foo
, char[	10 ] uint8x ,zchar[ 65535 ]
    float // @lengthOf(
`// not a comment` , f32
body `two words` , //x
i32
    body
    `{ , }` //	t
,
    } root
// trailing space 
// trailing space 
packet// @lengthOf(
i64_{
    // @lengthOf(
    }
MetaData options1 { i64 i8i8
`" ++ [28040; 24687; 31867; 22411]%N ++ runes_of_ascii "` , Logon metadata
    `tab	here` , i64_ calculatedFrom // c
`" ++ [28040; 24687; 31867; 22411]%N ++ runes_of_ascii "`	,}
options
{
charz=
""a\""b"" ;
chars = ' ' ; Header = 10 ;  i64_ =""\n"" ;	}
")).
Eval vm_compute in ("<<<M852>>>" ++ check (runes_of_ascii "packet charz	{ @lengthOf(
x_y_z
    )match
msg_type as msg_type{ ""a	b"" :
packetx ,}
, repeat	zchar[255 ] // a // b
i8i8 `tab	here` ,
    char[	255] i8i8 @lengthOf(
    i64_/// triple
)// c
, }
root
packet matchKey { zchar[3 ] body`crlf
line` ,
@calculatedFrom(
    ""x y"" )
char[	00 ]leftPad `u8 x,` ,} // packet A { u8 x, }
packet u8x  { @tag(00 ) metadata
    {
    repeat lengthOf
    {zchar[
0 ] _x @calculatedFrom( ""it's""  ) `say ""hi""`
, } , }	,
}
")).
Eval vm_compute in ("<<<M844>>>" ++ check (runes_of_ascii "packet
u128	{ string MetaDataX
@lengthOf(
matchKey ) , @lengthOf( calculatedFrom )
// " ++ [128512]%N ++ runes_of_ascii " emoji
// " ++ [128512]%N ++ runes_of_ascii " emoji
string // packet A { u8 x, }
uint8x `it's` , As @calculatedFrom(	""" ++ [233]%N ++ runes_of_ascii "t" ++ [233]%N ++ runes_of_ascii """)
    ,
} MetaData repeatCount{
    // c
    zchar[
    7 ]	msg_type // " ++ [128512]%N ++ runes_of_ascii " emoji
,// @lengthOf(
string trueish,u
As`doc`  ,
zchar
T	, string roots// c
`doc`,
} root packet o //
{repeat zchar[ 007
// a // b
//x
] u8x , repeat	char[4294967296 ]
    x ,u8x
    `{ , }` , }")).
Eval vm_compute in ("<<<M646>>>" ++ check (runes_of_ascii "root	packet	options1 {@rightPad (
' ' ) calculatedFrom @calculatedFrom(""x y"") , @rightPad	()
match  lengthOf as
    Logon
    {""1"" //
:Z9_,""it's""	:/// triple
metadata,
}	, @lengthOf(  o)match
options1
as//	t
As {
    255 :
u8x,	""""
:
    uint8x , [ 007, ""`tick`"" , 0123456789]
:
    // `tick` ""quote"" 'q'
    T ,""\" ++ [233]%N ++ runes_of_ascii """ : //x
As 7 // a // b
: Z9_ ,},
} MetaData pack	{
    string As
    , Header body `two words`, i32
f32a ,}
")).
Eval vm_compute in ("<<<M736>>>" ++ check (runes_of_ascii "options {} packet
calculatedFrom { } packet T{ @tag(
    42 ) match	len as
matchKey {
007  :
o
    , ""a\""b""
: calculatedFrom [  00//
,
42  ,
0 , 00 , 7 ]:
trueish
,	""packet"" // @lengthOf(
: MetaDataX , }, int @calculatedFrom( ""a\""b""
)`" ++ [233]%N ++ runes_of_ascii "` ,
@lengthOf(zchar) @tag( 65535 ) repeat string // c
uint8x , } MetaData leftPad
    // `tick` ""quote"" 'q'
    {
}
    //
    packet tag {	repeat Z9_ x_y_z `a\` ,}
")).
Eval vm_compute in ("<<<M4222>>>" ++ check (runes_of_ascii "root packet metadata {
    // packet A { u8 x, }
    @rightPad(' ')
    @leftPad('\x00')
    f64 a1 `u8 x,`,// trailing space 
    char[7] metadata @lengthOf(Logon),
    @calculatedFrom(""\n"")
    char[4294967296] repeatCount,
    @tag(65535)
    zchar[255] chars @lengthOf(stringy),
    zchar {
        zchar @lengthOf(crc),
        uint64 Packet `crlf
        line`,
    },
    /// triple
}")).
Eval vm_compute in ("<<<M3507>>>" ++ check (runes_of_ascii "options {
    LittleEndian = false;
    StringPrefixLenType = u32;
    ArrayPrefixLenType = u16;
}
packet Party {
    @leftPad('0') char[12] Ref,
    repeat char[6] x,
}
packet Logon {
    uint32 clOrdID,
    Party,
}
root packet Ack {
    zchar[2] f1,
    u32 seqNo,
    u32 Side2 @lengthOf(Body),
    match seqNo as Body {
        43 : Logon,
        93 : Party,
    },
}
")).
Eval vm_compute in ("<<<M116>>>" ++ check (runes_of_ascii "options//	t
{
BodyLength
    = ""{,}"" tag	=
    ""// no comment"" ; } options {
    charz
= '\x00' ; // a // b
repeatCount
= 255// c
; _x
=
    """ ++ [128512]%N ++ runes_of_ascii """
    ; Foo= '0'	a1 ='0'
//x
//
}root packet falsey { i64 packetx@lengthOf( Header//	t
)`" ++ [28040; 24687; 31867; 22411]%N ++ runes_of_ascii "` ,
len @lengthOf( roots )
`a\` , zchar	@lengthOf( MetaDataX
    //x
    )
    `line1
line2`
    , } // packet A { u8 x, }")).
Eval vm_compute in ("<<<M528>>>" ++ check (runes_of_ascii "options  { charz
    = char[ 0123456789
] zchar= float32 ;} packet
As
    { x_y_z crc `{ , }` ,	} root
    packet
body { @lengthOf( Logon
) Header repeatCount`it's`
,	char[ /// triple
255 ]
u128@lengthOf( uint8x
// " ++ [128512]%N ++ runes_of_ascii " emoji
// a // b
),
    // a // b
    repeat repeatCount`doc` //x
,
@lengthOf( packetx ) Z9_ x_y_z
    // " ++ [27880; 37322]%N ++ runes_of_ascii "
    `" ++ [28040; 24687; 31867; 22411]%N ++ runes_of_ascii "` ,}")).
Eval vm_compute in ("<<<M3516>>>" ++ check (runes_of_ascii "options
{

    LittleEndian=
    true;ArrayPrefixLenType
=u64
    ; 
FixedStringPadFromLeft=

    false 
;}	packet
	Quote{
}
    root  packet
    Order
{

i64 Side2 , Quote
, u32

Px

    ,
	match
Px
as

    Body
    {
    [  119 ,
	147]
    :
Quote	,
	}
,
u16
    Flags	@calculatedFrom(

    ""CRC32"" )
    , 
}

")).
Eval vm_compute in ("<<<M3725>>>" ++ check (runes_of_ascii "

  root packet 
Foo// " ++ [128512]%N ++ runes_of_ascii " emoji

{ }options
    {
    // a // b
		tag	// `tick` ""quote"" 'q'
      =//	t
"""";	u8x= 
zchar[ 
0]

}  MetaData 
int { zchar[
    10
	]lengthOf

`` ,

i64 u8x `// not a comment`	,

pack
    MetaDataX	// `tick` ""quote"" 'q'
      `crlf
line` , 
Logon
    charz `crlf
line`,
	// a // b
	  }
")).
Eval vm_compute in ("<<<M378>>>" ++ check (runes_of_ascii "options
{//
matchKey//x
=
42	x
    = '0';
charz= true
;  }MetaData	BodyLength
{
uint8 pack , zchar[ 1
]float, float32 x_y_z `` ,	u32 _x	, i16 body, } // a // b
MetaData asx { leftPad falsey ,
char[] float	,
char[] // `tick` ""quote"" 'q'
u128
    ,  char[]	float
, u64 // " ++ [128512]%N ++ runes_of_ascii " emoji
tag
,
    //	t
    }
")).
Eval vm_compute in ("<<<M1445>>>" ++ check (runes_of_ascii "root packet Foo // " ++ [128512]%N ++ runes_of_ascii " emoji
{ } options {
    // a // b
    tag tag // `tick` ""quote"" 'q'
= //	t
""""
    ; u8x = zchar[0  ] }
MetaData
    int {zchar[ 10]
lengthOf	`` , i64 u8x`// not a comment` ,MetaDataX pack// `tick` ""quote"" 'q'
`crlf
line`
, Logon charz `crlf
line`
    ,
    // a // b
    }
")).
Eval vm_compute in ("<<<M1460>>>" ++ check (runes_of_ascii "root packet Foo // " ++ [128512]%N ++ runes_of_ascii " emoji
{ } options {
    // a // b
    tag // `tick` ""quote"" 'q'
= //	t
""""
    ; ; u8x = zchar[0  ] }
MetaData
    int {zchar[ 10]
lengthOf	`` , i64 u8x`// not a comment` ,MetaDataX pack// `tick` ""quote"" 'q'
`crlf
line`
, Logon charz `crlf
line`
    ,
    // a // b
    }
")).
Eval vm_compute in ("<<<M1620>>>" ++ check (runes_of_ascii "root packet Foo // " ++ [128512]%N ++ runes_of_ascii " emoji
{ } options {
    // a // b
    tag // `tick` ""quote"" 'q'
= //	t
""""
    ; u8x = zchar[0  ] }
MetaData
    int {zchar[ 10]
lengthOf	`` , i64 u8x`// not a comment` ,MetaDataX pack// `tick` ""quote"" 'q'
`crlf
line`
, Logon charz `crlf
line`
    ,
    // a // b
    ?}
")).
Eval vm_compute in ("<<<M1556>>>" ++ check (runes_of_ascii "root packet Foo // " ++ [128512]%N ++ runes_of_ascii " emoji
{ } options {
    // a // b
    tag // `tick` ""quote"" 'q'
= //	t
""""
    ; u8x = zchar[0  ] }
MetaData
    int {zchar[ 10]
lengthOf	`` , i64 u8x`// not a comment` MetaDataX, pack// `tick` ""quote"" 'q'
`crlf
line`
, Logon charz `crlf
line`
    ,
    // a // b
    }
")).
Eval vm_compute in ("<<<M1624>>>" ++ check (runes_of_ascii "root packet Foo // " ++ [128512]%N ++ runes_of_ascii " emoji
{ } options {
    // a // b
    tag // `tick` ""quote"" 'q'
= //	t
""""
    ; u8x = zchar[0  ] }
MetaData
    " ++ [21517; 23383]%N ++ runes_of_ascii " {zchar[ 10]
lengthOf	`` , i64 u8x`// not a comment` ,MetaDataX pack// `tick` ""quote"" 'q'
`crlf
line`
, Logon charz `crlf
line`
    ,
    // a // b
    }
")).
Eval vm_compute in ("<<<M1579>>>" ++ check (runes_of_ascii "root packet Foo // " ++ [128512]%N ++ runes_of_ascii " emoji
{ } options {
    // a // b
    tag // `tick` ""quote"" 'q'
= //	t
""""
    ; u8x = zchar[0  ] }
MetaData
    int {zchar[ 10]
lengthOf	`` , i64 u8x`// not a comment` ,MetaDataX pack// `tick` ""quote"" 'q'
`crlf
line`
,  charz `crlf
line`
    ,
    // a // b
    }
")).
Eval vm_compute in ("<<<M3857>>>" ++ check (runes_of_ascii "

  // top

options 
// c0
    	{ 

// c1
	FixedStringPadFromLeft
    =

// c3

  true // c4
      ;

// c5

	}
// c6
	root 
  // c7
  packet 
P// c9a

	// c9b
	{
    // c10
  char[
    // c11
	4	// c12a
	  // c12b
	]

    z

    // c14
    , 	 // c15a
	  // c15b
      } ")).
Eval vm_compute in ("<<<M797>>>" ++ check (runes_of_ascii "
root packet Pad { @rightPad (
'\x00') trueish
`it's`
, } MetaData metadata
{ char[] falsey`
` ,} root
packet
    calculatedFrom { @lengthOf( packetx )@lengthOf( float)/// triple
@tag(
    00//
)int `doc`, @calculatedFrom( ""\" ++ [233]%N ++ runes_of_ascii """
) @tag( 4294967296	) char[]_x `doc`, }")).
Eval vm_compute in ("<<<M4288>>>" ++ check (runes_of_ascii "packet metadata { 
@rightPad
	//x
  	(

'\x00'
        // c
    ) @rightPad
( '\x00'
)char[]
_x @calculatedFrom(  ""a\\"" ) ,repeat int64
	roots ,
repeat// trailing space 
      zchar[  007 // c
	]i64_,
    match
A
as
	o
	{
	""1""
:Foo	, }	,  //x
    	}")).
Eval vm_compute in ("<<<M4115>>>" ++ check (runes_of_ascii "packet tag {
    u32 crc @lengthOf(a1),
    string falsey `say ""hi""`,
    @tag(1)
    asx,
}

options {
    f32a = true;
    zchar = '\x00';
}

packet BodyLength {
    @tag(007)
    @calculatedFrom(""" ++ [128512]%N ++ runes_of_ascii """)
    repeat zchar[007] packetx,
}
/// triple")).
Eval vm_compute in ("<<<M1267>>>" ++ check (runes_of_ascii "
MetaData
    // a // b
    uint8x /// triple
{ }packet matchKey	{ @rightPad (	)
    a1
{
zchar[
    1 ] u128 @calculatedFrom(  ""a\""b"" ),	i64_ i8i8 ,
    // c
    repeat int roots , i8 charz
//
// packet A { u8 x, }
,  }	,
} options { }")).
Eval vm_compute in ("<<<M3797>>>" ++ check (runes_of_ascii "packet	Logon{
    string 
user,
} root 
packet
    Frame 
{

    u8
	K
	,  match
K
as

    Body { 1:

Logon

,
	2 
:  Logout
	,
	}
    ,
Tail ,} packet
    Logout {

u16  reason, } 
packet
Tail

    {u32  crc
	,
	}

")).
Eval vm_compute in ("<<<M3871>>>" ++ check (runes_of_ascii "packet T {
    match Packet as Header {
        42 : BodyLength,
        ""// no comment"" : matchKey,
        ""`tick`"" : crc,
        [1] : o,
    },
}// " ++ [128512]%N ++ runes_of_ascii " emoji

packet As {
}

options {
    u128 = ' '
    body = char[]
}")).
Eval vm_compute in ("<<<M2256>>>" ++ check (runes_of_ascii "MetaData Packet { }packet	asx  { @lengthOf( asx) ) falsey`crlf
line`
,
    }
    packet x	{uint32// @lengthOf(
rootA	,u32 options1 `say ""hi""` , @tag( 7
    )// packet A { u8 x, }
msg_type @lengthOf(
stringy	)	, }

")).
Eval vm_compute in ("<<<M2391>>>" ++ check (runes_of_ascii "MetaData Packet { }packet	asx  { @lengthOf( asx) falsey`crlf
line`
,
    }
    packet x	{|uint32// @lengthOf(
rootA	,u32 options1 `say ""hi""` , @tag( 7
    )// packet A { u8 x, }
msg_type @lengthOf(
stringy	)	, }

")).
Eval vm_compute in ("<<<M2357>>>" ++ check (runes_of_ascii "MetaData Packet { }packet	asx  { @lengthOf( asx) falsey`crlf
line`
,
    }
    packet x	{uint32// @lengthOf(
rootA	,u32 options1 `say ""hi""` , @tag( 7
    )// packet A { u8 x, }
msg_type @lengthOf(
)	stringy	, }

")).
Eval vm_compute in ("<<<M1117>>>" ++ check (runes_of_ascii "MetaData string_
{ // c
len
MetaDataX`
` , char[] options1
// " ++ [27880; 37322]%N ++ runes_of_ascii "
/// triple
,u tag
, options1 Z9_ ,
x // c
f32a //x
`line1
line2`,zchar[ 0123456789 ] pack
,
}packet _x {  @leftPad ( ) char[	10
] roots , }
")).
Eval vm_compute in ("<<<M1123>>>" ++ check (runes_of_ascii "packet body { @rightPad /// triple
( // " ++ [27880; 37322]%N ++ runes_of_ascii "
'0') uint64 repeatCount , @lengthOf(o)@lengthOf(
asx
    // c
    ) @lengthOf( MetaDataX ) match falsey // packet A { u8 x, }
as
x { ""a\\"":float
    , } ,
} // " ++ [27880; 37322]%N)).
Eval vm_compute in ("<<<M2265>>>" ++ check (runes_of_ascii "MetaData Packet { }packet	asx  { @lengthOf( asx) falsey
,
    }
    packet x	{uint32// @lengthOf(
rootA	,u32 options1 `say ""hi""` , @tag( 7
    )// packet A { u8 x, }
msg_type @lengthOf(
stringy	)	, }

")).
Eval vm_compute in ("<<<M827>>>" ++ check (runes_of_ascii "packet _x{Pad``, f32 roots , i8 // " ++ [27880; 37322]%N ++ runes_of_ascii "
pack, @lengthOf(
    roots	)repeat
zchar[	65535 ] int,
@lengthOf( u8x )
repeat int16
msg_type , } // @lengthOf(
MetaData
BodyLength {char[] _x `doc`
, }
")).
Eval vm_compute in ("<<<M86>>>" ++ check (runes_of_ascii "
packet calculatedFrom { } MetaData charz
{
Z9_
    // @lengthOf(
    Pad // a // b
, uint64
// packet A { u8 x, }
// a // b
u `" ++ [233]%N ++ runes_of_ascii "` , char[
00]
Z9_,	}// `tick` ""quote"" 'q'
options {} 	 ")).
Eval vm_compute in ("<<<M3712>>>" ++ check (runes_of_ascii "packet  crc{} MetaData/// triple

  Packet{

    Logon

Pad
    `line1
line2` ,  u8
pack
	, // a // b

	}

    options 
    // c
	{
falsey

    =
""it's""	len
= """ ++ [28040; 24687]%N ++ runes_of_ascii """ ;
}
")).
Eval vm_compute in ("<<<M183>>>" ++ check (runes_of_ascii "packet x_y_z{  } packet  Logon { repeat i8 int
,} root packet stringy
{ char chars ,
char[] a1@calculatedFrom( ""// no comment"" )`// not a comment`, string
    Logon , }
")).
Eval vm_compute in ("<<<M4375>>>" ++ check (runes_of_ascii "  // `tick` ""quote"" 'q'
	  options

{ calculatedFrom	// " ++ [27880; 37322]%N ++ runes_of_ascii "
= ""{,}""

Pad= int32; 
uint8x /// triple
      =
    ""`tick`""  
  // @lengthOf(
  	// @lengthOf(
    }
")).
Eval vm_compute in ("<<<M1088>>>" ++ check (runes_of_ascii "packet u // c
{
    //x
    char[42 ]
roots
// " ++ [27880; 37322]%N ++ runes_of_ascii "
// `tick` ""quote"" 'q'
, @lengthOf( u128)
uint8 tag,repeat uint16
int `{ , }`
,
    }
// trailing space 
")).
Eval vm_compute in ("<<<M3466>>>" ++ check (runes_of_ascii "root packet
    // c1
P // c2
{ u8 // c4
s_u8 // c5
, // c6
repeat // c7
u8 // c8
r_u8 , u16 // c11
b_len
    // c12
, // c13a
  // c13b
}
    // c14
")).
Eval vm_compute in ("<<<M3733>>>" ++ check (runes_of_ascii "options {
    a1 = char[1];
    x = f64;
    Z9_ = char[3];
    Z9_ = '\x00'
    x_y_z = zchar[10];
}

packet x_y_z {
    chars trueish `it's`,
}")).
Eval vm_compute in ("<<<M4422>>>" ++ check (runes_of_ascii "packet A {
    match k as n {
        [
            ""a"", ""bb"", ""c c"", ""d"", ""e"",
            ""f"", ""g""
        ] : B,
        2 : C,
    },
}")).
Eval vm_compute in ("<<<M1630>>>" ++ check (runes_of_ascii "root packet packet /// triple
rootA {	i32
MetaDataX@calculatedFrom( ""CRC32"" ) `line1
line2` , } MetaData BodyLength {
u8
rootA, } // c")).
Eval vm_compute in ("<<<M398>>>" ++ check (runes_of_ascii "// `tick` ""quote"" 'q'
options { calculatedFrom // " ++ [27880; 37322]%N ++ runes_of_ascii "
=""{,}"" Pad
= int32 ;uint8x/// triple
= ""`tick`""
// @lengthOf(
// @lengthOf(
}")).
Eval vm_compute in ("<<<M198>>>" ++ check (runes_of_ascii "// c
options{
    //
    repeatCount = '0';leftPad =
' ';
// c
/// triple
msg_type
    = char[ 10
]
;}
packet
    Packet {//x
}
")).
Eval vm_compute in ("<<<M894>>>" ++ check (runes_of_ascii "options
{ As= string u =
    """ ++ [233]%N ++ runes_of_ascii "t" ++ [233]%N ++ runes_of_ascii """
} packet string_	{ @tag( 3) int32 As ,
} root packet stringy { //x
string int,}
options{  }")).
Eval vm_compute in ("<<<M1716>>>" ++ check (runes_of_ascii "root packet /// triple
rootA {	i32
MetaDataX@calculatedFrom( ""CRC32"" ) `line1
line2` , } MetaData BodyLength {
u8
rootA, } /")).
Eval vm_compute in ("<<<M1841>>>" ++ check (runes_of_ascii "packet
    Pad // a // b
{ i8i8 @calculatedFrom( ""a	b"") `u8 x,` ,
} options{ float float// " ++ [128512]%N ++ runes_of_ascii " emoji
= f64 i64_
=//	t
00 }
")).
Eval vm_compute in ("<<<M3641>>>" ++ check (runes_of_ascii "packet B {
    u8 a,
}

root packet P {
    u8 K,
    u8 L @lengthOf(Body),
    match K as Body {
        1 : B,
    },
}")).
Eval vm_compute in ("<<<M1871>>>" ++ check (runes_of_ascii "packet
    Pad // a // b
{ i8i8 @calculatedFrom( ""a	b"") `u8 x,` ,
} options{ float// " ++ [128512]%N ++ runes_of_ascii " emoji
= f64 i64_
=//	t
00 } }
")).
Eval vm_compute in ("<<<M4320>>>" ++ check (runes_of_ascii "
packet
A
	{

    match
k  as n	{
    [
""a""

    ,
""bb""

    ,
007
,
	""d""]	:B

    2

    : C  } ,
    }
")).
Eval vm_compute in ("<<<M1655>>>" ++ check (runes_of_ascii "root packet /// triple
rootA {	i32
MetaDataX tag ""CRC32"" ) `line1
line2` , } MetaData BodyLength {
u8
rootA, } // c")).
Eval vm_compute in ("<<<M111>>>" ++ check (runes_of_ascii "root packet Pad {@tag(  3
)
    @calculatedFrom(
""a\""b""
    )repeat zchar[
    // " ++ [128512]%N ++ runes_of_ascii " emoji
    00 ] repeatCount , }")).
Eval vm_compute in ("<<<M334>>>" ++ check (runes_of_ascii "// @lengthOf(
options{ } packet pack  {//
} options
    {
    }MetaData msg_type
{} root packet repeatCount  {}")).
Eval vm_compute in ("<<<M2374>>>" ++ check (runes_of_ascii "MetaData Packet { }packet	asx  { @lengthOf( asx) falsey`crlf
line`
,
    }
    packet x	{uint32// @lengthOf")).
Eval vm_compute in ("<<<M3454>>>" ++ check (runes_of_ascii "options {
    LittleEndian = true;
}
root packet P {
    u16 a,
    u32 Sum @calculatedFrom(""CR\
C32""),
}
")).
Eval vm_compute in ("<<<M2997>>>" ++ check (runes_of_ascii "packet A {
  match k as n {
    [1, 22, ""c c"", 4, 5, ""f"", 7, 8, ""i"", 10, 11, ""l""] : B,
    2 : C
  },
}")).
Eval vm_compute in ("<<<M3367>>>" ++ check (runes_of_ascii "packet calculatedFrom { @tag( 4294967296 ) u msg_type , char[ 3 ] crc @lengthOf( len // c
) `u8 x,` , }")).
Eval vm_compute in ("<<<M1468>>>" ++ check (runes_of_ascii "root packet Foo // " ++ [128512]%N ++ runes_of_ascii " emoji
{ } options {
    // a // b
    tag // `tick` ""quote"" 'q'
= //	t
""""
    ;")).
Eval vm_compute in ("<<<M2304>>>" ++ check (runes_of_ascii "MetaData Packet { }packet	asx  { @lengthOf( asx) falsey`crlf
line`
,
    }
    packet x	{uint32")).
Eval vm_compute in ("<<<M971>>>" ++ check (runes_of_ascii "options {}	packet
    u128 {repeat uint8x x `say ""hi""` , // trailing space 
}MetaData crc { }
")).
Eval vm_compute in ("<<<M3243>>>" ++ check (runes_of_ascii "packet Logon { @tag( 42 ) @rightPad ( ' ' ) @leftPad ( ) repeat
// c
trueish { string T , } , }")).
Eval vm_compute in ("<<<M2040>>>" ++ check (runes_of_ascii "@leftpadroot
packet crc
    { f32a @calculatedFrom( """ ++ [233]%N ++ runes_of_ascii "t" ++ [233]%N ++ runes_of_ascii """ )
    `say ""hi""`, lengthOf `` ,  }")).
Eval vm_compute in ("<<<M4185>>>" ++ check (runes_of_ascii "root packet

repeatCount{
@lengthOf(

Foo )@tag(4294967296
    ) repeat
f32  u8x,} 

// c
")).
Eval vm_compute in ("<<<M4400>>>" ++ check (runes_of_ascii "root packet crc {
    f32a @calculatedFrom(""" ++ [233]%N ++ runes_of_ascii "t" ++ [233]%N ++ runes_of_ascii """) `say ""hi""`,
    lengthOf lengthOf ``,
}")).
Eval vm_compute in ("<<<M3816>>>" ++ check (runes_of_ascii "packet

    _x 
{ repeat	crc

    {

    char[
7 
]
    float

    ,	}
    ,}
")).
Eval vm_compute in ("<<<M1968>>>" ++ check (runes_of_ascii "root
packet {
    crc f32a @calculatedFrom( """ ++ [233]%N ++ runes_of_ascii "t" ++ [233]%N ++ runes_of_ascii """ )
    `say ""hi""`, lengthOf `` ,  }")).
Eval vm_compute in ("<<<M2928>>>" ++ check (runes_of_ascii "packet A {
  match k as n {
    [1, ""bb"", 007, ""d"", 5, ""f"", 7] : B,
    2 : C
  },
}")).
Eval vm_compute in ("<<<M3293>>>" ++ check (runes_of_ascii "
// c
packet o { @tag( 42 ) repeat x { char[ 0123456789 ] i64_ , } , } options { }")).
Eval vm_compute in ("<<<M3310>>>" ++ check (runes_of_ascii "packet o { @tag( 42 ) repeat x { // c
char[ 0123456789 ] i64_ , } , } options { }")).
Eval vm_compute in ("<<<M1986>>>" ++ check (runes_of_ascii "root
packet crc
    { f32a @calculatedFrom(  )
    `say ""hi""`, lengthOf `` ,  }")).
Eval vm_compute in ("<<<M823>>>" ++ check (runes_of_ascii "options{Header = true ; pack
= ""{,}"" ; }
//
/// triple
options{
i8i8= false
}")).
Eval vm_compute in ("<<<M2734>>>" ++ check (runes_of_ascii "@lengthOf( float64 @calculatedFrom( f64 uint16 int8 char i16 packet = repeat")).
Eval vm_compute in ("<<<M3818>>>" ++ check (runes_of_ascii "packet

A  {	match	k 
as 
n

    { 
[

1 
,
""bb"" , 007 
]:
B 2 :C	},	}
")).
Eval vm_compute in ("<<<M1671>>>" ++ check (runes_of_ascii "root packet /// triple
rootA {	i32
MetaDataX@calculatedFrom( ""CRC32"" )")).
Eval vm_compute in ("<<<M3402>>>" ++ check (runes_of_ascii "MetaData _x { zchar[
// c
4294967296 ] lengthOf `// not a comment` , }")).
Eval vm_compute in ("<<<M294>>>" ++ check (runes_of_ascii "
packet
    //x
    MetaDataX { repeat rootA `two words` //x
,//
}")).
Eval vm_compute in ("<<<M2202>>>" ++ check (runes_of_ascii "root
    // `tick` ""quote"" 'q'
    packet As\ { trueish Packet , }
")).
Eval vm_compute in ("<<<M3699>>>" ++ check (runes_of_ascii "options 
{
    matchKey // `tick` ""quote"" 'q'
	  = '0' // " ++ [27880; 37322]%N ++ runes_of_ascii "
;
	}")).
Eval vm_compute in ("<<<M362>>>" ++ check (runes_of_ascii "//x
MetaData msg_type
    {// a // b
uint32 pack
`tab	here`, }
")).
Eval vm_compute in ("<<<M2174>>>" ++ check (runes_of_ascii "root
    // `tick` ""quote"" 'q'
    packet As { as Packet , }
")).
Eval vm_compute in ("<<<M2860>>>" ++ check (runes_of_ascii "packet A {
  match k as n {
    [""a""] : B,
    2 : C
  },
}")).
Eval vm_compute in ("<<<M1941>>>" ++ check (runes_of_ascii "
? packet	As { @calculatedFrom(//x
""{,}""	)lengthOf , } 	 ")).
Eval vm_compute in ("<<<M4046>>>" ++ check (runes_of_ascii "options	{ 
	// " ++ [27880; 37322]%N ++ runes_of_ascii "

  //
    	calculatedFrom =false
	}
")).
Eval vm_compute in ("<<<M1753>>>" ++ check (runes_of_ascii "options { }options options {  } // `tick` ""quote"" 'q'")).
Eval vm_compute in ("<<<M1225>>>" ++ check (runes_of_ascii "  packet  u { repeat x pack `// not a comment`, }
")).
Eval vm_compute in ("<<<M2397>>>" ++ check (runes_of_ascii "MetaData A
{
i64
chars	, } <// `tick` ""quote"" 'q'")).
Eval vm_compute in ("<<<M1177>>>" ++ check (runes_of_ascii "options {leftPad =
""it's""  u8x =1  tag=
true }
")).
Eval vm_compute in ("<<<M1767>>>" ++ check ([233]%N ++ runes_of_ascii "options { }options {  } // `tick` ""quote"" 'q'")).
Eval vm_compute in ("<<<M3006>>>" ++ check (runes_of_ascii "MetaData M {
    u8 x `a
b`,
    T t `a
b`,
}")).
Eval vm_compute in ("<<<M2560>>>" ++ check (runes_of_ascii "packet A { repeat x @calculatedFrom(""c""), }")).
Eval vm_compute in ("<<<M1939>>>" ++ check (runes_of_ascii "
packet	As { @calculatedFrom(//x
""{,}""	)l")).
Eval vm_compute in ("<<<M2376>>>" ++ check (runes_of_ascii "MetaData Packet { }packet	asx  { @length")).
Eval vm_compute in ("<<<M3863>>>" ++ check (runes_of_ascii "

  packet
	A {u8
    x
	`
x`

    ,}
")).
Eval vm_compute in ("<<<M2111>>>" ++ check (runes_of_ascii "MetaData x
i16// " ++ [128512]%N ++ runes_of_ascii " emoji
{ stringy , }")).
Eval vm_compute in ("<<<M2605>>>" ++ check (runes_of_ascii "packet A { match k as n { [] : B }, }")).
Eval vm_compute in ("<<<M1321>>>" ++ check (runes_of_ascii "MetaData packetx { _x	metadata , }
")).
Eval vm_compute in ("<<<M305>>>" ++ check (runes_of_ascii "
packet asx{ u64
MetaDataX
, }
")).
Eval vm_compute in ("<<<M4210>>>" ++ check (runes_of_ascii "packet A {
    u8 x `d" ++ [11]%N ++ runes_of_ascii "`,// c" ++ [11]%N ++ runes_of_ascii "
}")).
Eval vm_compute in ("<<<M2784>>>" ++ check (runes_of_ascii "uint32 : ; 7 `tab	here` , char")).
Eval vm_compute in ("<<<M2244>>>" ++ check (runes_of_ascii "MetaData Packet { }packet	asx")).
Eval vm_compute in ("<<<M4471>>>" ++ check (runes_of_ascii "packet lengthOf {
    // c
}")).
Eval vm_compute in ("<<<M904>>>" ++ check (runes_of_ascii "options { tag = 007
    }
")).
Eval vm_compute in ("<<<M2093>>>" ++ check (runes_of_ascii "MetaData $A { u64 pack, }")).
Eval vm_compute in ("<<<M2058>>>" ++ check (runes_of_ascii "MetaData A u64 { pack, }")).
Eval vm_compute in ("<<<M4096>>>" ++ check (runes_of_ascii "
packet A {
}	// c" ++ [8203]%N ++ runes_of_ascii "
 
")).
Eval vm_compute in ("<<<M979>>>" ++ check (runes_of_ascii "packet //
roots  { }
")).
Eval vm_compute in ("<<<M2743>>>" ++ check (runes_of_ascii "#" ++ [65533]%N ++ runes_of_ascii "k" ++ [65533; 4]%N ++ runes_of_ascii "M" ++ [1580]%N ++ runes_of_ascii "!" ++ [65533]%N ++ runes_of_ascii "W" ++ [65533]%N ++ runes_of_ascii "3J" ++ [14]%N ++ runes_of_ascii "fa" ++ [65533]%N ++ runes_of_ascii "R" ++ [65533]%N ++ runes_of_ascii ")D")).
Eval vm_compute in ("<<<M131>>>" ++ check (runes_of_ascii "  packet float { }
")).
Eval vm_compute in ("<<<M4414>>>" ++ check (runes_of_ascii "
MetaData
asx {} ")).
Eval vm_compute in ("<<<M3087>>>" ++ check (runes_of_ascii "// c" ++ [8192]%N ++ runes_of_ascii "
packet A {
}")).
Eval vm_compute in ("<<<M2566>>>" ++ check (runes_of_ascii "packet A { u8 x }")).
Eval vm_compute in ("<<<M184>>>" ++ check (runes_of_ascii "packet As
{
}
")).
Eval vm_compute in ("<<<M2720>>>" ++ check (runes_of_ascii "I/Ek^_AdRTyN""]*")).
Eval vm_compute in ("<<<M1970>>>" ++ check (runes_of_ascii "root
packet")).
Eval vm_compute in ("<<<M2634>>>" ++ check (runes_of_ascii "packet A }")).
Eval vm_compute in ("<<<M2447>>>" ++ check (runes_of_ascii "trueish")).
Eval vm_compute in ("<<<M3125>>>" ++ check (runes_of_ascii "// c 	")).
Eval vm_compute in ("<<<M3070>>>" ++ check (runes_of_ascii "// c" ++ [160]%N)).
Eval vm_compute in ("<<<M2514>>>" ++ check (runes_of_ascii """//""")).
Eval vm_compute in ("<<<M2529>>>" ++ check (runes_of_ascii "a-b")).
Eval vm_compute in ("<<<M2545>>>" ++ check (runes_of_ascii "	a")).
