From FP Require Import Lexer Parser ShowPT Digest Formatter.
From Coq Require Import String List NArith.
Import ListNotations.
Open Scope string_scope.
Set Printing Width 100000000.
Set Printing Depth 100000000.
Definition show_fres (r : fres) : string :=
  match r with
  | FOk s => "OK:" ++ sh_escaped s ""
  | FErr s => "ERR:" ++ sh_escaped s ""
  | FPanic p => "PANIC:" ++ p
  end.
Definition check (rs : list rune) : string := digest (show_fres (format_res rs)).
Definition full (rs : list rune) : string := show_fres (format_res rs).
Eval vm_compute in ("<<<M95>>>" ++ check (runes_of_ascii "MetaData chars {} packet lengthOf
{ @lengthOf(_x )uint16 /// triple
Z9_`" ++ [28040; 24687; 31867; 22411]%N ++ runes_of_ascii "`, repeat BodyLength{ repeat
    u8x zchar  , } ,a1	,
    // " ++ [27880; 37322]%N ++ runes_of_ascii "
    T @calculatedFrom( ""\" ++ [233]%N ++ runes_of_ascii """)
, match //	t
calculatedFrom
    as string_
    // " ++ [27880; 37322]%N ++ runes_of_ascii "
    { """ ++ [233]%N ++ runes_of_ascii "t" ++ [233]%N ++ runes_of_ascii """
    :// `tick` ""quote"" 'q'
_x // " ++ [128512]%N ++ runes_of_ascii " emoji
, ""a	b""
    : zchar [ ""x y"",
    10
    ,	""abc""
,
""packet""
, // c
""{,}"" //
,00] :  u128 ,""abc"":x_y_z
    ,  """ ++ [233]%N ++ runes_of_ascii "t" ++ [233]%N ++ runes_of_ascii """
    : // packet A { u8 x, }
packetx
} // a // b
, zchar[
    1 ]// " ++ [128512]%N ++ runes_of_ascii " emoji
A
    // " ++ [27880; 37322]%N ++ runes_of_ascii "
    @lengthOf( float
    // `tick` ""quote"" 'q'
    ) `say ""hi""`
    // trailing space 
    , repeat f32 asx
// " ++ [27880; 37322]%N ++ runes_of_ascii "
// " ++ [128512]%N ++ runes_of_ascii " emoji
,
    // " ++ [128512]%N ++ runes_of_ascii " emoji
    @rightPad
    ( ' ' // a // b
)	char[] msg_type `say ""hi""`,
} packet Pad
// " ++ [27880; 37322]%N ++ runes_of_ascii "
// " ++ [27880; 37322]%N ++ runes_of_ascii "
{ As @lengthOf( rootA )
`say ""hi""` , repeat
    _x // trailing space 
{
    Logon
Foo, // `tick` ""quote"" 'q'
falsey
MetaDataX ,
    }  ,msg_type
    // trailing space 
    roots `line1
line2`,pack pack , chars	`crlf
line` ,@lengthOf(lengthOf) match lengthOf
    as o { 3
    : falsey
    , } ,}packet // trailing space 
o {// packet A { u8 x, }
i64_`{ , }` ,
match MetaDataX as Foo { """ ++ [233]%N ++ runes_of_ascii "t" ++ [233]%N ++ runes_of_ascii """ :
    leftPad ,
[	00 ] : f32a
[ ""`tick`"",
    0123456789
]
: float ,
""it's"" : pack
, ""`tick`"" :
charz } ,
options1
    leftPad ,// packet A { u8 x, }
string body //
, @calculatedFrom(
""{,}""  )As
    //	t
    , // " ++ [128512]%N ++ runes_of_ascii " emoji
match u as
    Packet
    {
    ""it's"" :
_x	, 10 : BodyLength , ""\n"" :
float 4294967296 :falsey , 007 :	charz
,00 :stringy , },  repeat string_ ,
}root packet
Foo	{ repeat
    // " ++ [27880; 37322]%N ++ runes_of_ascii "
    char[	7 ] lengthOf `
`
    ,
//	t
//x
@lengthOf( Packet ) repeat // `tick` ""quote"" 'q'
i32 float , options1 _x	`{ , }`
, }
")).
Eval vm_compute in ("<<<M381>>>" ++ check (runes_of_ascii "options {
    StringPrefixLenType = u16;
    ArrayPrefixLenType = u16;
}

packet SampleBinary {
    uint16 MsgType `" ++ [28040; 24687; 31867; 22411]%N ++ runes_of_ascii "`,
    u16 BodyLenght @lengthOf(Body) `" ++ [28040; 24687; 20307; 38271; 24230]%N ++ runes_of_ascii "`,
    match MsgType as Body {
        1 : Logon,
        2 : Logout,
        3 : Heartbeat,
        4 : RiskControlRequest,
        5 : RiskControlResponse,
    },
    @calculatedFrom(""CRC32"")
    u32 Ckecksum `" ++ [26657; 39564; 21644]%N ++ runes_of_ascii "`,
}

packet Logon {
    @leftPad('0')
    char[10] UserName `" ++ [29992; 25143; 21517]%N ++ runes_of_ascii "`,
    string Password `" ++ [23494; 30721]%N ++ runes_of_ascii "`,
    uint64 ClientId `" ++ [23458; 25143; 31471]%N ++ runes_of_ascii "ID`,
    u16 HeartbeatInterval `" ++ [24515; 36339; 38388; 38548]%N ++ runes_of_ascii "`,
}

packet Logout {
    @rightPad('0')
    char[10] UserName `" ++ [29992; 25143; 21517]%N ++ runes_of_ascii "`,
    uint64 ClientId `" ++ [23458; 25143; 31471]%N ++ runes_of_ascii "ID`,
}

packet Heartbeat {
}

packet RiskControlRequest {
    string UniqueOrderId `" ++ [21807; 19968; 35746; 21333; 21495]%N ++ runes_of_ascii "`,
    char[16] ClOrdID `" ++ [23458; 25143; 35746; 21333; 21495]%N ++ runes_of_ascii "`,
    char[3] MarketID `" ++ [24066; 22330]%N ++ runes_of_ascii "id`,
    char[12] SecurityID `" ++ [35777; 21048; 20195; 30721]%N ++ runes_of_ascii "`,
    char Side `" ++ [20080; 21334; 26041; 21521]%N ++ runes_of_ascii "`,
    char OrderType `" ++ [35746; 21333; 31867; 22411]%N ++ runes_of_ascii "`,
    u64 Price `" ++ [20215; 26684]%N ++ runes_of_ascii "`,
    u32 Qty `" ++ [25968; 37327]%N ++ runes_of_ascii "`,
    repeat string ExtraInfo `" ++ [38468; 21152; 20449; 24687]%N ++ runes_of_ascii "`,
    repeat SubOrder {
        char[16] ClOrdID `" ++ [23376; 35746; 21333; 21495]%N ++ runes_of_ascii "`,
        u64 Price `" ++ [23376; 35746; 21333; 20215; 26684]%N ++ runes_of_ascii "`,
        u32 Qty `" ++ [23376; 35746; 21333; 25968; 37327]%N ++ runes_of_ascii "`,
    },
}

packet RiskControlResponse {
    string UniqueOrderId `" ++ [21807; 19968; 35746; 21333; 21495]%N ++ runes_of_ascii "`,
    i32 Status `" ++ [29366; 24577]%N ++ runes_of_ascii "`,
    string Msg `" ++ [32467; 26524; 20449; 24687]%N ++ runes_of_ascii "`,
    repeat Detail,
}

packet Detail {
    string RuleName `" ++ [35268; 21017; 21517; 31216]%N ++ runes_of_ascii "`,
    u16 Code `" ++ [21407; 22240; 20195; 30721]%N ++ runes_of_ascii "`,
}")).
Eval vm_compute in ("<<<M276>>>" ++ check (runes_of_ascii "
packet body {match u as f32a {  ""// no comment""	:
    float ,}	,
    // trailing space 
    float32 int ,
    char[]tag `u8 x,`
    // packet A { u8 x, }
    , @lengthOf( body ) repeat // " ++ [27880; 37322]%N ++ runes_of_ascii "
i64_ crc
,@leftPad ('0' ) float64 zchar
    , // packet A { u8 x, }
@lengthOf( A)
@leftPad  ( ) @lengthOf( int
)
    //
    crc	@calculatedFrom( ""1"") ,
    }  root packet
    body{
    /// triple
    @lengthOf( T
    ) repeat
u128 `line1
line2` ,
string // `tick` ""quote"" 'q'
BodyLength , @calculatedFrom( ""x y"" ) char[] zchar @calculatedFrom(
    ""a\""b"")	`" ++ [28040; 24687; 31867; 22411]%N ++ runes_of_ascii "` //x
, falsey//	t
trueish	, /// triple
@rightPad // @lengthOf(
( '\x00'  )	@lengthOf( As) @tag( 4294967296  )repeat char[] uint8x , packetx,
    @tag(
7 )
    //
    i64 roots
// `tick` ""quote"" 'q'
// " ++ [27880; 37322]%N ++ runes_of_ascii "
@calculatedFrom( """ ++ [233]%N ++ runes_of_ascii "t" ++ [233]%N ++ runes_of_ascii """
)  `// not a comment`
    , @calculatedFrom( ""x y"" )
    /// triple
    f64 float@lengthOf(
    Packet // " ++ [27880; 37322]%N ++ runes_of_ascii "
), @tag(  4294967296 ) u32
lengthOf@calculatedFrom(""\" ++ [233]%N ++ runes_of_ascii """)// c
, @tag(	10 ) Foo ,
}	packet leftPad { } options {i8i8 =zchar[ 7 ]}")).
Eval vm_compute in ("<<<M1531>>>" ++ check (runes_of_ascii "options {
    MetaDataX = ' ';
    trueish = """ ++ [233]%N ++ runes_of_ascii "t" ++ [233]%N ++ runes_of_ascii """;
    /// triple
}

packet BodyLength {
    @lengthOf(repeatCount)
    char[65535] crc @calculatedFrom(""""),
    zchar[0] x_y_z @calculatedFrom(""packet"") `a\`,
}

packet Header {
    repeat T {
        //x
        //x
        u128 chars,
    },
    match Pad as crc {
        ""a\""b"" : x,
    },
    @lengthOf(rootA)
    @lengthOf(stringy)
    i32 x,
    @calculatedFrom(""" ++ [128512]%N ++ runes_of_ascii """)
    int8 u @lengthOf(Pad) `doc`,
    @tag(65535)
    charz {
        a1 _x,
        repeat float32 Header `say ""hi""`,
        char u,
    },
    //x
    @leftPad()
    @leftPad('0')
    @rightPad('\x00')
    match falsey as As {
        // " ++ [128512]%N ++ runes_of_ascii " emoji
        ""a\\"" : pack,
    },
    repeat metadata,
    match i8i8 as u {
        [4294967296, 42] : uint8x,
    },
    repeat uint16 chars `u8 x,`,
    u16 repeatCount `crlf
        line`,
}

packet tag {
    char[7] trueish,
    int8 string_ ``,
}")).
Eval vm_compute in ("<<<M1774>>>" ++ check (runes_of_ascii "root packet options1 {
    @lengthOf(Packet)
    //x
    //	t
    repeat chars {
        repeatCount u128,
        match u as BodyLength {
            [65535] : packetx,
            3 : zchar,
            255 : roots,
            """ ++ [233]%N ++ runes_of_ascii "t" ++ [233]%N ++ runes_of_ascii """ : Header,
        },
        i64 Packet,
        char[] uint8x @calculatedFrom(""// no comment"") `crlf
                line`,
    },
    string trueish,
    @leftPad(' ')
    i8i8 {
        /// triple
        float64 T @lengthOf(leftPad),// @lengthOf(
        u128 `" ++ [233]%N ++ runes_of_ascii "`,
        lengthOf,// a // b
        matchKey,
    },
    repeat char[1] MetaDataX `a\`,
    // c
    // " ++ [128512]%N ++ runes_of_ascii " emoji
    @calculatedFrom(""1"")
    string chars `it's`,
    char[] calculatedFrom @lengthOf(calculatedFrom) `doc`,
    rootA _x `" ++ [28040; 24687; 31867; 22411]%N ++ runes_of_ascii "`,
}

MetaData calculatedFrom {
    u tag `
        `,
}")).
Eval vm_compute in ("<<<M1960>>>" ++ check (runes_of_ascii "packet int {
    len T,
}

MetaData trueish {
    // packet A { u8 x, }
}

packet BodyLength {
    @calculatedFrom(""packet"")
    @calculatedFrom(""CRC32"")
    // c
    @tag(00)
    char[4294967296] stringy,
    @lengthOf(leftPad)
    // c
    char zchar,
    @lengthOf(MetaDataX)
    @tag(10)
    // " ++ [128512]%N ++ runes_of_ascii " emoji
    @rightPad('0')
    options1 matchKey `{ , }`,
    @tag(42)
    @tag(1)
    @tag(10)
    char[] stringy `doc`,
    msg_type `" ++ [233]%N ++ runes_of_ascii "`,
    @lengthOf(trueish)
    body {
        repeat o stringy `crlf
                line`,
        repeat u32 i8i8,
        char[65535] stringy `a\`,
        //x
    },
    @calculatedFrom(""packet"")
    matchKey,
    @tag(4294967296)
    uint32 rootA @lengthOf(trueish),
    string body `u8 x,`,
}")).
Eval vm_compute in ("<<<M1177>>>" ++ check (runes_of_ascii "// top
options // c0
{ // c1
chars // c2
= // c3
""a\\"" // c4
} // c5
packet // c6
Z9_ // c7
{ // c8
match // c9
BodyLength // c10
as // c11
roots // c12
{ // c13
""" ++ [28040; 24687]%N ++ runes_of_ascii """ // c14
: // c15
falsey // c16
, // c17
00 // c18
: // c19
u128 // c20
0 // c21
: // c22
len // c23
, // c24
007 // c25
: // c26
f32a // c27
} // c28
, // c29
@tag( // c30
3 // c31
) // c32
@calculatedFrom( // c33
""`tick`"" // c34
) // c35
@leftPad // c36
( // c37
' ' // c38
) // c39
string // c40
asx // c41
, // c42
string // c43
u // c44
@lengthOf( // c45
options1 // c46
) // c47
, // c48
float32 // c49
i64_ // c50
@calculatedFrom( // c51
""a\""b"" // c52
) // c53
, // c54
} // c55
")).
Eval vm_compute in ("<<<M2037>>>" ++ check (runes_of_ascii "
// c
  options {

    i8i8= 
""" ++ [28040; 24687]%N ++ runes_of_ascii """ 

// trailing space 
; Pad

    =

' '
}

    root  packet	i8i8
{
i64

matchKey

    `" ++ [233]%N ++ runes_of_ascii "` , match
repeatCount	as
    x 	 // @lengthOf(
	{ 
    //	t
	  // a // b

	42 :	float
,  007 
: u 
,
} 
// trailing space 
    	//x

  , @calculatedFrom(
""a	b""	)	string_ 
      // @lengthOf(
/// triple

	{

matchKey
string_

    , 	 // trailing space 
},
    repeat
	char[]
    repeatCount,

    }
    options // a // b
  {msg_type

    =

true	; int
    // " ++ [128512]%N ++ runes_of_ascii " emoji

	// " ++ [27880; 37322]%N ++ runes_of_ascii "
	=
	u16 string_

= false;} ")).
Eval vm_compute in ("<<<M1757>>>" ++ check (runes_of_ascii "packet i64_ {
}

packet crc {
}

options {
}

root packet charz {
}

packet trueish {
    repeat char[255] lengthOf `" ++ [28040; 24687; 31867; 22411]%N ++ runes_of_ascii "`,
    zchar[00] x `it's`,/// triple
    repeat char[] Packet `say ""hi""`,
    @calculatedFrom(""x y"")
    char[1] lengthOf,
    lengthOf `crlf
    line`,
    match charz as MetaDataX {
        ""a	b"" : uint8x,
        ""\n"" : calculatedFrom,
    },
    @tag(10)
    float64 i8i8 @calculatedFrom(""" ++ [128512]%N ++ runes_of_ascii """) `say ""hi""`,
    @rightPad('\x00')
    i32 Foo `it's`,
}")).
Eval vm_compute in ("<<<M1575>>>" ++ check (runes_of_ascii "options {
    LittleEndian = false;
    StringPrefixLenType = u8;
    ArrayPrefixLenType = u16;
    FixedStringPadFromLeft = false;
}

packet Heartbeat {
    u8 seqNo,
    @rightPad('\x00')
    char[8] x,
}

root packet Trade {
    repeat Heartbeat,
    float32 OrderId,
    i64 Acct,
    u16 Qty,
    u16 clOrdID,
    match clOrdID as Body {
        131 : Heartbeat,
    },
    u16 sym @calculatedFrom(""CRC32""),
}")).
Eval vm_compute in ("<<<M190>>>" ++ check (runes_of_ascii "packet x_y_z
    {@calculatedFrom( """"
) repeat
// `tick` ""quote"" 'q'
// `tick` ""quote"" 'q'
_x f32a , @calculatedFrom(
    ""it's"")chars
// c
// `tick` ""quote"" 'q'
,
    int32 u8x// `tick` ""quote"" 'q'
, // c
}options
    // " ++ [128512]%N ++ runes_of_ascii " emoji
    {crc	= """ ++ [233]%N ++ runes_of_ascii "t" ++ [233]%N ++ runes_of_ascii """ }root packet  string_{ } packet x  { u8x
    Packet
    ,
i32 float, } options
    {Pad =  4294967296 ; leftPad
= """ ++ [233]%N ++ runes_of_ascii "t" ++ [233]%N ++ runes_of_ascii """}
")).
Eval vm_compute in ("<<<M142>>>" ++ check (runes_of_ascii "options { i8i8  =
    int64 ; charz = ""// no comment""; repeatCount ="""" ; f32a = 0 stringy ='\x00' }
    // packet A { u8 x, }
    options
    {
Logon = 255
}
    packet Header // c
{} MetaData
lengthOf{
    // `tick` ""quote"" 'q'
    }
options {stringy  =false ; options1
= true ; asx=3
/// triple
/// triple
roots =
'\x00' }
")).
Eval vm_compute in ("<<<M1204>>>" ++ check (runes_of_ascii "// top
packet
    // c0
o
    // c1
{
    // c2
@tag(
    // c3
42
    // c4
)
    // c5
repeat
    // c6
x
    // c7
{
    // c8
char[
    // c9
0123456789
    // c10
]
    // c11
i64_
    // c12
,
    // c13
}
    // c14
,
    // c15
}
    // c16
options
    // c17
{
    // c18
}
    // c19
")).
Eval vm_compute in ("<<<M65>>>" ++ check (runes_of_ascii "packet
    BodyLength { repeat char[
    1 ]
options1
`it's`
// c
// " ++ [128512]%N ++ runes_of_ascii " emoji
, x_y_z{
    packetx @lengthOf(zchar ) `tab	here` , repeat _x a1 ,
} , } packet roots{ // `tick` ""quote"" 'q'
}	options  { Foo	=char[ 1] // " ++ [27880; 37322]%N ++ runes_of_ascii "
;charz
=
1
; Packet = ""`tick`"" }
//x
")).
Eval vm_compute in ("<<<M1357>>>" ++ check (runes_of_ascii "// top
packet // c0a
  // c0b
B // c1a
  // c1b
{ u8 // c3a
  // c3b
a // c4
, string
    // c6
s , // c8
} // c9
root
    // c10
packet // c11
P // c12
{ u16 L @lengthOf( B ) , // c19
B // c20a
  // c20b
, u8
    // c22
t , } // c25
")).
Eval vm_compute in ("<<<M1753>>>" ++ check (runes_of_ascii "packet calculatedFrom {
    @lengthOf(zchar)
    char[] chars `line1
        line2`,
    string Logon @calculatedFrom(""it's""),
    matchKey `say ""hi""`,
    @lengthOf(T)
    x_y_z @calculatedFrom(""it's"") `// not a comment`,
}")).
Eval vm_compute in ("<<<M429>>>" ++ check (runes_of_ascii "options
{
matchKey = 42/// triple
x='0' '0'
// packet A { u8 x, }
//
charz
=
// packet A { u8 x, }
// trailing space 
true  ; } MetaData BodyLength
{
uint8
pack,zchar[ 1]float ,  float32 x_y_z `` ,u32
_x,i16 body  , }
")).
Eval vm_compute in ("<<<M573>>>" ++ check (runes_of_ascii "options
{
matchKe/y = 42/// triple
x='0' ;
// packet A { u8 x, }
//
charz
=
// packet A { u8 x, }
// trailing space 
true  ; } MetaData BodyLength
{
uint8
pack,zchar[ 1]float ,  float32 x_y_z `` ,u32
_x,i16 body  , }
")).
Eval vm_compute in ("<<<M513>>>" ++ check (runes_of_ascii "options
{
matchKey = 42/// triple
x='0' ;
// packet A { u8 x, }
//
charz
=
// packet A { u8 x, }
// trailing space 
true  ; } MetaData BodyLength
{
uint8
pack,zchar[ 1]float ,  x_y_z float32 `` ,u32
_x,i16 body  , }
")).
Eval vm_compute in ("<<<M313>>>" ++ check (runes_of_ascii "
packet	stringy
//	t
// " ++ [128512]%N ++ runes_of_ascii " emoji
{ match calculatedFrom // a // b
as MetaDataX { [ ""a\\"", """ ++ [28040; 24687]%N ++ runes_of_ascii """,// `tick` ""quote"" 'q'
""CRC32"" ,
10 ]:x,
    /// triple
    0
:  falsey
, 1 :u8x ,
//x
// c
65535
    :	Foo , }
,
    }")).
Eval vm_compute in ("<<<M456>>>" ++ check (runes_of_ascii "options
{
matchKey = 42/// triple
x='0' ;
// packet A { u8 x, }
//
charz
=
// packet A { u8 x, }
// trailing space 
true  ; }  BodyLength
{
uint8
pack,zchar[ 1]float ,  float32 x_y_z `` ,u32
_x,i16 body  , }
")).
Eval vm_compute in ("<<<M315>>>" ++ check (runes_of_ascii "packet// " ++ [27880; 37322]%N ++ runes_of_ascii "
trueish { match f32a
as stringy	{ """ ++ [28040; 24687]%N ++ runes_of_ascii """ : _x ,
1 : //x
stringy
    ,
    65535 :u8x 65535: // trailing space 
asx
// packet A { u8 x, }
// c
,  }
    // packet A { u8 x, }
    , }")).
Eval vm_compute in ("<<<M677>>>" ++ check (runes_of_ascii "// c
packet i64_ {	char[] calculatedFrom , } packet
trueish  {@calculatedFrom(
""a\\"" ) o { i32 falsey@lengthOf( uint8x ),
} , } // `tick` ""quote"" 'q'
options true// c
Z9_ = ' '//
}
")).
Eval vm_compute in ("<<<M695>>>" ++ check (runes_of_ascii "// c
packet i64_ {	char[] calculatedFrom , } packet
trueish  {@calculatedFrom(
""a\\"" )  { i32 falsey@lengthOf( uint8x ),
} , } // `tick` ""quote"" 'q'
options {// c
Z9_ = ' '//
}
")).
Eval vm_compute in ("<<<M183>>>" ++ check (runes_of_ascii "packet x_y_z{  } packet  Logon { repeat i8 int
,} root packet stringy
{ char chars ,
char[] a1@calculatedFrom( ""// no comment"" )`// not a comment`, string
    Logon , }
")).
Eval vm_compute in ("<<<M1565>>>" ++ check (runes_of_ascii "packet A {
    Inner {
        match k as n {
            [
                1, 22, 007, 4, 5,
                66, 7, 8
            ] : B,
        },
    },
}")).
Eval vm_compute in ("<<<M1626>>>" ++ check (runes_of_ascii "root packet stringy {
    @tag(7)
    @tag(1)
    @rightPad('\x00')
    Foo x `crlf
        line`,
    @calculatedFrom(""a	b"")
    roots `it's`,
}")).
Eval vm_compute in ("<<<M309>>>" ++ check (runes_of_ascii "options {
Pad = // " ++ [27880; 37322]%N ++ runes_of_ascii "
3 ; float =
false
    // packet A { u8 x, }
    ;
Z9_ =""packet""	chars=
""a\""b"" float=
""a\\""} MetaData zchar { } 	 ")).
Eval vm_compute in ("<<<M1770>>>" ++ check (runes_of_ascii "
packet 
A
    {	match k
as

n  { [
1

,
    22
	,	007 ,4

    ,	5	,
	66
, 7,8 ,
9

,
10,  11 ]
:

    B
2  :

C	} 
,	}
")).
Eval vm_compute in ("<<<M1669>>>" ++ check (runes_of_ascii "
packet

    o{
    @tag(  42
) repeat x
    {
    char[ 
0123456789 
]

    i64_
	, }	,
// c
      } options
{
}

")).
Eval vm_compute in ("<<<M1722>>>" ++ check (runes_of_ascii "
packet
A 
{ u16
    len@lengthOf(	body
)  `tab
	x` , u32	crc @calculatedFrom(  ""CRC32"") `tab
	x` ,

string  body
, }")).
Eval vm_compute in ("<<<M633>>>" ++ check (runes_of_ascii "MetaData
    // trailing space 
    matchKey
{ u64 chars // a // b
,char[] lengthOf `// not a comment`
    } //	t
,")).
Eval vm_compute in ("<<<M144>>>" ++ check (runes_of_ascii "  packet rootA	{ int @lengthOf(
    Packet // packet A { u8 x, }
) // `tick` ""quote"" 'q'
`// not a comment` , }
")).
Eval vm_compute in ("<<<M48>>>" ++ check (runes_of_ascii "//x
packet uint8x { u8 // packet A { u8 x, }
roots `a\`	, match len
as charz{
[ 3 , """" ] : Z9_
,
    } , }
")).
Eval vm_compute in ("<<<M317>>>" ++ check (runes_of_ascii "packet BodyLength
{
@calculatedFrom(	""""
)// c
char[  42 ]uint8x,} packet  len { uint64 a1  `{ , }`//x
,}
")).
Eval vm_compute in ("<<<M1266>>>" ++ check (runes_of_ascii "packet calculatedFrom { @tag( 4294967296 ) u
// c
msg_type , char[ 3 ] crc @lengthOf( len ) `u8 x,` , }")).
Eval vm_compute in ("<<<M2040>>>" ++ check (runes_of_ascii "
packet o {  @tag(
	42
)
repeat

x
{
	char[0123456789
        // c
]

i64_ 
,	} , }
options

{  }

")).
Eval vm_compute in ("<<<M931>>>" ++ check (runes_of_ascii "packet A {
    Inner {
        u8 x `
`,
        Deep {
            u8 y `
`,
        },
    },
}")).
Eval vm_compute in ("<<<M1144>>>" ++ check (runes_of_ascii "packet Logon { @tag( 42 ) @rightPad ( // c
' ' ) @leftPad ( ) repeat trueish { string T , } , }")).
Eval vm_compute in ("<<<M109>>>" ++ check (runes_of_ascii "root
    packet lengthOf { @tag(4294967296 ) @calculatedFrom(
""" ++ [128512]%N ++ runes_of_ascii """)
    i32
msg_type `a\`
, }
")).
Eval vm_compute in ("<<<M1784>>>" ++ check (runes_of_ascii "packet A
	{
match

    k  as n{

    [ 
1

, 
22
	, ""c c""
]
    :
B 2:
    C  }, 
}

")).
Eval vm_compute in ("<<<M845>>>" ++ check (runes_of_ascii "packet A {
  match k as n {
    [""a"", 22, ""c c"", 4, ""e"", 66, ""g""] : B
    2 : C
  },
}")).
Eval vm_compute in ("<<<M851>>>" ++ check (runes_of_ascii "packet A {
  match k as n {
    [1, 22, 007, 4, 5, 66, 7, 8] : B,
    2 : C
  },
}")).
Eval vm_compute in ("<<<M1227>>>" ++ check (runes_of_ascii "packet o { @tag( 42 ) repeat x { char[
// c
0123456789 ] i64_ , } , } options { }")).
Eval vm_compute in ("<<<M1381>>>" ++ check (runes_of_ascii "

  root 
packet
    P	{ u8 s_u8

, 
repeat

    u8 r_u8 ,	u16 b_len
    ,  } ")).
Eval vm_compute in ("<<<M2032>>>" ++ check (runes_of_ascii "  packet

string_  // `tick` ""quote"" 'q'
  	{  u 
    //
	// " ++ [128512]%N ++ runes_of_ascii " emoji
		, 
}")).
Eval vm_compute in ("<<<M237>>>" ++ check (runes_of_ascii "// " ++ [128512]%N ++ runes_of_ascii " emoji
packet	roots
    // trailing space 
    {
    } // @lengthOf(")).
Eval vm_compute in ("<<<M1309>>>" ++ check (runes_of_ascii "MetaData // c
_x { zchar[ 4294967296 ] lengthOf `// not a comment` , }")).
Eval vm_compute in ("<<<M1528>>>" ++ check (runes_of_ascii "MetaData

    zchar

{
	zchar[ 3
]  Pad

    ,  }
        // c
")).
Eval vm_compute in ("<<<M1180>>>" ++ check (runes_of_ascii "// top
options // c0
{ // c1
u8x // c2
= // c3
3 // c4
} // c5
")).
Eval vm_compute in ("<<<M1088>>>" ++ check (runes_of_ascii "packet A { // a
 @tag(1) u8 x, // b
 // c
 @tag(2) u8 y, }")).
Eval vm_compute in ("<<<M610>>>" ++ check (runes_of_ascii "MetaData
    // trailing space 
    matchKey
{ u64")).
Eval vm_compute in ("<<<M641>>>" ++ check (runes_of_ascii "MetaData
    // trailing space 
    matchK")).
Eval vm_compute in ("<<<M1119>>>" ++ check (runes_of_ascii "MetaData zchar { zchar[ 3 ] Pad ,
// c
}")).
Eval vm_compute in ("<<<M750>>>" ++ check (runes_of_ascii "@rightPad float64 char[ = char root")).
Eval vm_compute in ("<<<M2006>>>" ++ check (runes_of_ascii "MetaData M {
}// c

packet A {
}")).
Eval vm_compute in ("<<<M1778>>>" ++ check (runes_of_ascii "
// c
		options{
u8x 
=
	3}

")).
Eval vm_compute in ("<<<M1195>>>" ++ check (runes_of_ascii "options { u8x = 3 } // c
")).
Eval vm_compute in ("<<<M1897>>>" ++ check (runes_of_ascii "options {
    u8x = 3
}")).
Eval vm_compute in ("<<<M690>>>" ++ check (runes_of_ascii "// c
packet i64_ {")).
Eval vm_compute in ("<<<M1050>>>" ++ check (runes_of_ascii "packet A {
}
// c" ++ [65279]%N)).
Eval vm_compute in ("<<<M128>>>" ++ check (runes_of_ascii "packet i8i8
{}
")).
Eval vm_compute in ("<<<M1767>>>" ++ check (runes_of_ascii "
// c
")).
Eval vm_compute in ("<<<M1712>>>" ++ check (runes_of_ascii "  ")).
