From FP Require Import Lexer Parser ShowPT Digest Formatter.
From Coq Require Import String List NArith.
Import ListNotations.
Open Scope string_scope.
Set Printing Width 100000000.
Set Printing Depth 100000000.
Definition show_fres (r : fres) : string :=
  match r with
  | FOk s => "OK:" ++ sh_escaped s ""
  | FErr s => "ERR:" ++ sh_escaped s ""
  | FPanic p => "PANIC:" ++ p
  end.
Definition check (rs : list rune) : string := digest (show_fres (format_res rs)).
Definition full (rs : list rune) : string := show_fres (format_res rs).
Eval vm_compute in ("<<<M4278>>>" ++ check (runes_of_ascii "  // top
	options// c0
    { // c1
	LittleEndian  // c2a

	// c2b
=  
      // c3
    false  // c4
		;	StringPrefixLenType // c6a
	// c6b

  =
        // c7
u16 	 // c8
;  ArrayPrefixLenType 
      // c10
=
        // c11
  u64
	    // c12

; // c13
  	FixedStringPadFromLeft // c14a
	// c14b

	=  // c15

	true  ;  // c17
	FixedStringPadChar	// c18
  = ' ' ; 	 // c21a
    	// c21b
	}// c22
      packet

    // c23

Logon
    // c24
	{ 

    // c25
u16  // c26a
// c26b
	Tail  // c27

	,	// c28
    	repeat 	 // c29a
	// c29b
	string// c30a
// c30b
		x
    , // c32a
// c32b
	i16 count// c34a
	  // c34b
  	,@leftPad  (// c37a
		// c37b
	  '0' 

// c38
    ) // c39

	char[
	    // c40
3 

// c41
	  ] 	 // c42
	  Note 	 // c43a
      // c43b
  ,	// c44a
  	// c44b
  }	// c45

packet Fill 	 // c47
  {
}	// c49
    	packet	Heartbeat // c51a
// c51b

{	// c52
  } packet 
	// c54
	Reject
    // c55

	{string  msgKind// c58
	  ,	// c59a
  // c59b
  repeat 
  // c60
	Logon 
// c61
,InFlags25	{
        // c64

	repeat
InPrice29// c66

{
	u8
	price// c69a
	// c69b
,	// c70

	Logon  // c71
    , 	 // c72
  repeat	// c73
  char[	// c74
  1

    ]// c76a
  // c76b
		Note 	 // c77
      ,  // c78
		}	// c79a
  // c79b
		,
char[]

// c81
	  x , // c83
      Fill

    // c84
	,	} 	 // c86a
  	// c86b
, 

    // c87

	repeat  Heartbeat

// c89
,
    // c90
  }

root	// c92a

// c92b

	packet	// c93
  Order 	 // c94a

// c94b
    {  // c95a
    // c95b
    InNote88 
      // c96
  { repeat  
  // c98
	i32 
Acct 
// c100
	, // c101a
// c101b
repeat 
        // c102
    	i16 // c103a
    // c103b
  clOrdID	// c104
	,	repeat // c106a
  // c106b
	Logon 
// c107
  	,}

,
	u16  tag7
, // c113a
    // c113b
match

// c114
    	tag7 as

    // c116

	Body // c117
	{
[ 
	    // c119

  14

,  // c121
		22 
        // c122
    ]// c123
:

Logon// c125
    ,	55  // c127
      : 	 // c128a
	// c128b

  Heartbeat	// c129

	, // c130
  93  // c131
	:	// c132
Reject  // c133
	  ,
13
    // c135
  :

Fill// c137a

  // c137b
,
    } 	 // c139a
    // c139b
	  , 	 // c140

} // c141a
		// c141b
")).
Eval vm_compute in ("<<<M975>>>" ++ check (runes_of_ascii "MetaData BodyLength
    { zchar[ 42 // trailing space 
] falsey
    ,
x_y_z trueish `{ , }` , options1 Header
    `
` , uint8
    Header `tab	here` ,
uint8
    // packet A { u8 x, }
    zchar
    ,
float64 len
, } packet//x
chars {  zchar[ 00 ]
    options1 ,	zchar[ // c
7 ] Header , @tag( 0	)char[] MetaDataX `line1
line2`
,	repeat
metadata{ i64
// packet A { u8 x, }
// @lengthOf(
MetaDataX , int8 o ,leftPad Pad ,
string	Z9_ `u8 x,`
, } , @leftPad
    ( '0' ) u64 calculatedFrom
// trailing space 
// c
@calculatedFrom(
""a\""b"" )  , @lengthOf( leftPad
    ) repeat Foo `line1
line2`,}
    packet options1
//x
//	t
{ @tag(00	)body
asx,
// a // b
// " ++ [128512]%N ++ runes_of_ascii " emoji
repeat MetaDataX{ repeat i64
    u8x `" ++ [233]%N ++ runes_of_ascii "`, } , pack @calculatedFrom( ""CRC32"" ) `
`
,  repeat Pad { Foo{
    repeat i8i8, MetaDataX ,
    // @lengthOf(
    lengthOf @calculatedFrom(""abc"" )`// not a comment`	, /// triple
}	,}  , float64 string_ @calculatedFrom( //
""it's""	)
`u8 x,` ,
    i8  Z9_
@lengthOf(_x ),
BodyLength matchKey `tab	here`, uint64
    // " ++ [128512]%N ++ runes_of_ascii " emoji
    As  @calculatedFrom( ""// no comment"" ) ,  } packet leftPad { match packetx as// trailing space 
Foo
{ [ ""x y"" ,
    3]
    // " ++ [128512]%N ++ runes_of_ascii " emoji
    : As ,
00:
    leftPad
// a // b
//	t
, [""\n"" , """"
    ] : MetaDataX	,
00
    : x
"""" : int
    , }, i32
    // " ++ [27880; 37322]%N ++ runes_of_ascii "
    Foo,repeat string
roots  , repeat body chars `" ++ [28040; 24687; 31867; 22411]%N ++ runes_of_ascii "`,
int `" ++ [233]%N ++ runes_of_ascii "`
    , @rightPad (
' ' ) string BodyLength, @lengthOf(lengthOf // " ++ [128512]%N ++ runes_of_ascii " emoji
)
    char uint8x `line1
line2` , zchar[
00 ]
    repeatCount	@calculatedFrom( """ ++ [28040; 24687]%N ++ runes_of_ascii """ )
, @calculatedFrom( ""a	b"") falsey
    //x
    @calculatedFrom( ""1"" )
    `crlf
line` , } //x
packet Header { // trailing space 
@calculatedFrom(
""" ++ [28040; 24687]%N ++ runes_of_ascii """ ) int64 u	`crlf
line`,
@calculatedFrom(
""CRC32"" ) // packet A { u8 x, }
int64 uint8x,
char[255
] Foo `
`
    ,}
")).
Eval vm_compute in ("<<<M4100>>>" ++ check (runes_of_ascii "MetaData chars {
}

packet lengthOf {
    @lengthOf(_x)
    uint16 Z9_ `" ++ [28040; 24687; 31867; 22411]%N ++ runes_of_ascii "`,
    repeat BodyLength {
        repeat u8x zchar,
    },
    a1,
    // " ++ [27880; 37322]%N ++ runes_of_ascii "
    T @calculatedFrom(""\" ++ [233]%N ++ runes_of_ascii """),
    match calculatedFrom as string_ {
        """ ++ [233]%N ++ runes_of_ascii "t" ++ [233]%N ++ runes_of_ascii """ : _x,
        ""a	b"" : zchar,
        [
            10, 00, ""x y"", ""abc"", ""packet"",
            ""{,}""
        ] : u128,
        ""abc"" : x_y_z,
        """ ++ [233]%N ++ runes_of_ascii "t" ++ [233]%N ++ runes_of_ascii """ : packetx,
    },
    zchar[1] A @lengthOf(float) `say ""hi""`,
    repeat f32 asx,
    @rightPad(' ')
    char[] msg_type `say ""hi""`,
}

packet Pad {
    As @lengthOf(rootA) `say ""hi""`,
    repeat _x {
        Logon Foo,// `tick` ""quote"" 'q'
        falsey MetaDataX,
    },
    msg_type roots `line1
        line2`,
    pack pack,
    chars `crlf
        line`,
    @lengthOf(lengthOf)
    match lengthOf as o {
        3 : falsey,
    },
}

packet o {
    // packet A { u8 x, }
    i64_ `{ , }`,
    match MetaDataX as Foo {
        """ ++ [233]%N ++ runes_of_ascii "t" ++ [233]%N ++ runes_of_ascii """ : leftPad,
        [00] : f32a,
        [0123456789, ""`tick`""] : float,
        ""it's"" : pack,
        ""`tick`"" : charz,
    },
    options1 leftPad,// packet A { u8 x, }
    string body,
    @calculatedFrom(""{,}"")
    As,// " ++ [128512]%N ++ runes_of_ascii " emoji
    match u as Packet {
        ""it's"" : _x,
        10 : BodyLength,
        ""\n"" : float,
        4294967296 : falsey,
        007 : charz,
        00 : stringy,
    },
    repeat string_,
}

root packet Foo {
    repeat char[7] lengthOf `
        `,
    @lengthOf(Packet)
    repeat i32 float,
    options1 _x `{ , }`,
}")).
Eval vm_compute in ("<<<M1001>>>" ++ check (runes_of_ascii "packet zchar{uint32 msg_type `a\`	,	char[ // " ++ [27880; 37322]%N ++ runes_of_ascii "
255 // @lengthOf(
]packetx `doc`	, @calculatedFrom("""" ) char[] MetaDataX @lengthOf(	A
)
    , @calculatedFrom(""it's""
    ) // @lengthOf(
string_
@calculatedFrom( ""a\""b"" )
`crlf
line` , char[ 0123456789 ]A `u8 x,`,// trailing space 
}
// @lengthOf(
// `tick` ""quote"" 'q'
packet chars { @calculatedFrom( ""{,}"" )
    match i64_ as MetaDataX { // `tick` ""quote"" 'q'
""`tick`""
:
    roots, [ 4294967296	,
// " ++ [128512]%N ++ runes_of_ascii " emoji
// trailing space 
""1""  ] :u  ,// trailing space 
},
f32a {
    pack
,
packetx @calculatedFrom( ""a\\"" ) , float64 stringy @calculatedFrom(""// no comment""
    )`{ , }`	,char[ 4294967296 ]Packet
@calculatedFrom( ""a\""b"") , } , }  packet Packet
    { repeatCount
tag, char[ 1
] crc `{ , }` , @leftPad( )
    zchar[ 0	]Logon
    @calculatedFrom( """ ++ [233]%N ++ runes_of_ascii "t" ++ [233]%N ++ runes_of_ascii """ // c
) ,
    leftPad
// `tick` ""quote"" 'q'
// " ++ [128512]%N ++ runes_of_ascii " emoji
{
    //	t
    repeat
    uint32 stringy , string Foo	@calculatedFrom( ""it's"")`doc`, string  Foo @lengthOf(zchar /// triple
)
, } //x
, i64 body,repeat string x_y_z , zchar[ //x
007]Packet`doc`
    ,@tag( 65535 ) char[
    0 ] float  , } packet
// " ++ [128512]%N ++ runes_of_ascii " emoji
// `tick` ""quote"" 'q'
i8i8 { repeat
    falsey`two words`, }
options{roots =
    ""\" ++ [233]%N ++ runes_of_ascii """
o = '\x00' ;u = char[ 7
]
    metadata = true // trailing space 
float
=""\n"" ; }")).
Eval vm_compute in ("<<<M4439>>>" ++ check (runes_of_ascii "
options
{
MetaDataX  =

' ' 

//	t

	// trailing space 
  ;	trueish  =	""" ++ [233]%N ++ runes_of_ascii "t" ++ [233]%N ++ runes_of_ascii """

;
	/// triple
  	} packet 
BodyLength
{
	@lengthOf(

    repeatCount )char[
65535

    ]

crc @calculatedFrom(
"""" 
)
    ,zchar[0 ]
x_y_z
	@calculatedFrom(

    ""packet"" ) `a\`

, }
	packet
    Header
    {
    repeat 
    // " ++ [128512]%N ++ runes_of_ascii " emoji
	T { 
      //x

	//x
    u128 chars ,} ,

    match
	Pad
as crc

    { ""a\""b""
: x
	,
	}
, @lengthOf(

    rootA ) @lengthOf(
stringy
	)
i32 
    // a // b

x ,
	@calculatedFrom(

""" ++ [128512]%N ++ runes_of_ascii """
	)
    int8 u

    @lengthOf(
	Pad
)  `doc` ,
    @tag( 65535

)

charz{
a1	_x ,repeat
    float32

    Header
    `say ""hi""`
    ,char

u ,
} , 
    //x

  @leftPad ( )
@leftPad

    (
	'0'
)
    @rightPad
    ( '\x00'

    )  match falsey  as As { 	 // " ++ [128512]%N ++ runes_of_ascii " emoji
  ""a\\"" :  pack}  /// triple
    ,

repeat  metadata
	, match

    i8i8
as  u { [ 4294967296	,

    42
    ]	// @lengthOf(

	:uint8x, 
}	,
	repeat
uint16

    chars 
    // " ++ [27880; 37322]%N ++ runes_of_ascii "
  // @lengthOf(
  `u8 x,`
,u16  repeatCount 
`crlf
line`
	,
}

packet 
tag
	{
    char[ 7
] 	 // `tick` ""quote"" 'q'
	  trueish

    ,
int8  string_	`` 
// @lengthOf(

// @lengthOf(
,

    }
")).
Eval vm_compute in ("<<<M238>>>" ++ check (runes_of_ascii "
packet
    tag{repeat
    stringy {	repeat
i32 lengthOf
, // trailing space 
string msg_type // " ++ [27880; 37322]%N ++ runes_of_ascii "
@calculatedFrom( // " ++ [128512]%N ++ runes_of_ascii " emoji
""// no comment"" ) `" ++ [233]%N ++ runes_of_ascii "` ,
    zchar
    { x @calculatedFrom( """ ++ [28040; 24687]%N ++ runes_of_ascii """ )
    ,repeat u8x len , zchar[ 255 ] i8i8 , } ,
x @calculatedFrom( ""CRC32"")
`` ,} , packetx
//	t
//	t
u8x, @calculatedFrom( ""packet"" )
zchar[  007] body
@calculatedFrom( ""CRC32"" )
    , @lengthOf( x_y_z/// triple
) char[]
int
    `" ++ [28040; 24687; 31867; 22411]%N ++ runes_of_ascii "` , zchar[ 42 ]
Logon@calculatedFrom( ""// no comment""
    ) ,
    int8
f32a , }packet  As { @calculatedFrom(
""it's""
)  int64 msg_type	@calculatedFrom( ""a\""b"" )`it's`, i8i8 pack , tag {i64 _x ,match As as f32a { // trailing space 
007 : _x ,0123456789 : metadata
    , }
, }, @lengthOf( body )repeat
u8
f32a
    `` , char[] Pad `line1
line2` ,
    @lengthOf(msg_type)  string len , @lengthOf(	a1) @tag(00
) @rightPad('\x00' ) char[ 65535 ] Header ,// trailing space 
@calculatedFrom(
    // a // b
    ""1""
) @calculatedFrom(
""a\\""  )
    // @lengthOf(
    @lengthOf( body
//
// " ++ [27880; 37322]%N ++ runes_of_ascii "
)
    i8
x_y_z
, }
root packet a1 {
    }
    packet A{
}
    // " ++ [128512]%N ++ runes_of_ascii " emoji
    packet calculatedFrom {}")).
Eval vm_compute in ("<<<M3499>>>" ++ check (runes_of_ascii "// top
options // c0
{ LittleEndian
    // c2
= // c3a
  // c3b
false
    // c4
; // c5
StringPrefixLenType // c6a
  // c6b
= // c7
u32
    // c8
;
    // c9
ArrayPrefixLenType // c10a
  // c10b
= u16
    // c12
; } // c14
packet Party {
    // c17
@leftPad // c18
( '0' ) char[
    // c22
12 ] // c24
Ref , // c26
repeat // c27a
  // c27b
char[ // c28a
  // c28b
6 // c29a
  // c29b
]
    // c30
x // c31a
  // c31b
, // c32a
  // c32b
} // c33
packet
    // c34
Logon // c35a
  // c35b
{ // c36a
  // c36b
uint32 clOrdID
    // c38
,
    // c39
Party // c40
, // c41
} // c42a
  // c42b
root // c43
packet
    // c44
Ack // c45a
  // c45b
{
    // c46
zchar[ // c47
2 // c48a
  // c48b
] // c49a
  // c49b
f1
    // c50
, // c51
u32
    // c52
seqNo // c53a
  // c53b
, // c54a
  // c54b
u32 // c55
Side2 // c56a
  // c56b
@lengthOf( // c57a
  // c57b
Body ) // c59
, // c60
match // c61a
  // c61b
seqNo // c62a
  // c62b
as // c63
Body
    // c64
{ 43
    // c66
: Logon // c68a
  // c68b
, // c69
93 : Party // c72
, } // c74
,
    // c75
} ")).
Eval vm_compute in ("<<<M80>>>" ++ check (runes_of_ascii "// `tick` ""quote"" 'q'
packet	rootA{ }
root
packet x_y_z {
// `tick` ""quote"" 'q'
// packet A { u8 x, }
@calculatedFrom( """ ++ [28040; 24687]%N ++ runes_of_ascii """  )// a // b
@tag( 4294967296) @leftPad	(	'\x00')  match Z9_ as len // c
{0: x_y_z /// triple
, [ 255 , 007 ] : string_["""" ,
""`tick`"" , """" ,
10 ,""it's"" ,
    """ ++ [233]%N ++ runes_of_ascii "t" ++ [233]%N ++ runes_of_ascii """ ]	: BodyLength	, 4294967296 : u,4294967296
    // " ++ [27880; 37322]%N ++ runes_of_ascii "
    :	Header ,
""packet"": trueish , }
,
match int as asx { 007 : leftPad , ""abc"":
_x
65535 :stringy ""CRC32"" : int , 255 : A }, match asx as a1  {	[ 0123456789 ]: crc,""packet"" : leftPad ,
    ""\n"" : //x
crc
, 10
    //x
    :
// a // b
// a // b
chars ,},
    i16
rootA @calculatedFrom(
""abc"" ) , @lengthOf(Pad)  rootA As`" ++ [233]%N ++ runes_of_ascii "`,match i64_
    //	t
    as packetx{	[ """ ++ [28040; 24687]%N ++ runes_of_ascii """ ] :repeatCount
, 65535 : i8i8 ,
    } , // a // b
stringy len , }packet o{
} packet
Header {	_x
string_ ,
@lengthOf(
    u8x )
lengthOf `it's`
, } options
    { A // trailing space 
= ""it's"";
zchar
= ""packet"" ; // " ++ [128512]%N ++ runes_of_ascii " emoji
len
= 4294967296 ; T= ""abc""int
    =
3 ; }
")).
Eval vm_compute in ("<<<M168>>>" ++ check (runes_of_ascii "packet // trailing space 
crc {	match	trueish
    as pack {[// trailing space 
007
    , ""`tick`""
    , 42 ,3 ,
""x y"" ] :
    // " ++ [128512]%N ++ runes_of_ascii " emoji
    u128
, } , // packet A { u8 x, }
@tag( 255
)
    lengthOf
    // " ++ [128512]%N ++ runes_of_ascii " emoji
    lengthOf , repeat zchar[ 0123456789]
    calculatedFrom`" ++ [233]%N ++ runes_of_ascii "` , // trailing space 
@calculatedFrom(
""" ++ [28040; 24687]%N ++ runes_of_ascii """ ) repeat/// triple
f32a ,repeat char[]
// packet A { u8 x, }
/// triple
msg_type
`u8 x,` ,
    x @calculatedFrom( ""{,}"" ) , f32 uint8x// packet A { u8 x, }
`two words`,
    char[  0 ]
i8i8 , @calculatedFrom(
""1"" ) rootA BodyLength,
repeat string a1 //	t
, } root// " ++ [128512]%N ++ runes_of_ascii " emoji
packet
// c
// " ++ [27880; 37322]%N ++ runes_of_ascii "
metadata
{ @calculatedFrom( ""abc"" ) options1 // trailing space 
Header ,
// @lengthOf(
// " ++ [27880; 37322]%N ++ runes_of_ascii "
}root
packet charz{
repeat stringy ,@tag( 3 // trailing space 
)
    Foo x_y_z`{ , }` ,
    char[
    1]
Logon
@lengthOf( float)
,	int8
    int
    ,
    } //	t
packet Packet { char[] zchar
//x
// " ++ [128512]%N ++ runes_of_ascii " emoji
`
`
    // c
    , }
")).
Eval vm_compute in ("<<<M4253>>>" ++ check (runes_of_ascii "
options{ StringPrefixLenType =u32 ;ArrayPrefixLenType  =

u8	;

FixedStringPadFromLeft
=
	false
;

}

packet
Logon
	{

i8

venue,
    int16  f1 , zchar[8	]
Acct
, repeat

    InNote16{InQty73 
{
float32 tag7 
,}	,

    f32
Acct
, zchar[

5
    ]sym
, } 
,
uint16  Side2
,
i32  lastPx
	,
    }

packet
Fill {
repeat

    InOrderid15
	{

zchar[	8	]
	sym

,  repeat
	char[

2
    ]
	OrderId

    ,	repeat
	Logon  ,InQty82 
{

char[]
	Tail	,repeat Logon , float64 
price
, f64

Side2

,}, char[
	12 
] 
venue
	,
    char[
4  ]Px,

}
, 
@rightPad(	'0'

)

    char[
2] venue  ,InPrice99 
{  InAcct72 {

    u8
pad0

, } , u32 OrderId
,
Logon
	,	},
}

    root
    packet
	Reject

{zchar[
9 ]

    msgKind

,u32
    venue,

    u16 
seqNo@lengthOf( Body ),
match
venue
	as	Body {

57:

    Fill
    , 
8
    :	Logon,
}

,

u16	Tail@calculatedFrom(
""CRC32"" )
, }

")).
Eval vm_compute in ("<<<M782>>>" ++ check (runes_of_ascii "packet i8i8  { options1 @calculatedFrom(
""packet""
// trailing space 
/// triple
) `crlf
line` ,
    @rightPad (
' ' //x
) string
lengthOf `" ++ [233]%N ++ runes_of_ascii "` ,u64 string_
, }
options { options1  = false; } MetaData u
    { a1
    options1,
lengthOf
// trailing space 
//	t
x_y_z `line1
line2`
,// c
MetaDataX
rootA
    , zchar[255 ] len ,
    char[007 ] int //x
`say ""hi""`,
// @lengthOf(
//
char[ 4294967296] // `tick` ""quote"" 'q'
stringy, //	t
} root packet u8x { Z9_ @lengthOf(	Packet
    ) ,@calculatedFrom(
""packet"" ) // a // b
@rightPad (
'0' //
)
@calculatedFrom( ""it's"" )packetx`" ++ [28040; 24687; 31867; 22411]%N ++ runes_of_ascii "`
    , float64 Packet
@calculatedFrom(""`tick`"")
`a\`
, @leftPad (
'0' )  match
len as rootA {
    // `tick` ""quote"" 'q'
    ""x y"": uint8x ""1""
: asx
, ""a\""b"" :u8x ,
    } ,// " ++ [27880; 37322]%N ++ runes_of_ascii "
@lengthOf( tag
) trueish As , @lengthOf(falsey ) zchar[1 ] a1 , } root packet
    body
{ }")).
Eval vm_compute in ("<<<M613>>>" ++ check (runes_of_ascii "packet o // @lengthOf(
{repeat char[
//	t
// @lengthOf(
65535] rootA,	}packet repeatCount {@tag( // c
10)	@lengthOf( _x )  repeat int64 f32a //	t
`" ++ [233]%N ++ runes_of_ascii "`
    ,
    @leftPad
('0' )@leftPad(
' '
    )
    @tag(3
    ) // trailing space 
o`doc` ,
    // a // b
    @calculatedFrom( """"
)string o , @lengthOf( msg_type
    // c
    ) match  A as T { [ ""packet""
, ""a\\""
    // " ++ [27880; 37322]%N ++ runes_of_ascii "
    ,
    1,10 //
,""x y"" , 3 ]
: leftPad ,""packet"" : calculatedFrom, //	t
[255
//x
//x
]:  o
    , 42  : int ,}
    , Z9_
float `a\`
,
    char[] u , @lengthOf(i64_ )	string A@lengthOf( // a // b
int )
`it's` , @rightPad
( '0') roots { pack@lengthOf(
As )
`crlf
line`	,// c
zchar[ 00 ]zchar
    @lengthOf( // " ++ [128512]%N ++ runes_of_ascii " emoji
u8x )	,
    } , @tag(
    0 )
@rightPad (
)
    @calculatedFrom( """ ++ [128512]%N ++ runes_of_ascii """ )
f32a lengthOf
`{ , }` , }
// `tick` ""quote"" 'q'
")).
Eval vm_compute in ("<<<M403>>>" ++ check (runes_of_ascii "  options //x
{options1= 65535
; }	root  packet int { match string_ as u8x	{
0123456789
    // trailing space 
    : zchar
    , } ,
zchar @calculatedFrom( """" ) `` ,
    repeat T {  metadata@calculatedFrom(
""x y"" ) , match
    a1
    as metadata { // @lengthOf(
4294967296 : options1 , ""x y""
    : i8i8 } , repeat leftPad
    //
    {	char[42 ] float , }
    , }, @tag( 65535)
    char[ 7
    ]/// triple
Pad,trueish,
/// triple
//
Header { // @lengthOf(
char[4294967296
    ]
    /// triple
    repeatCount @calculatedFrom(""packet"" ) , // packet A { u8 x, }
}, } MetaData float { repeatCount metadata `crlf
line` ,asx lengthOf	, char[] roots
`two words`  ,
// trailing space 
//
string  Pad  ,
    calculatedFrom
/// triple
// @lengthOf(
zchar , char T
    `a\`	, } /// triple")).
Eval vm_compute in ("<<<M4381>>>" ++ check (runes_of_ascii "root packet body {
    /// triple
    crc x_y_z `say ""hi""`,
    float _x,
    T `a\`,
    uint64 MetaDataX,
    repeat zchar[7] calculatedFrom ``,
    uint32 len `a\`,
}/// triple

options {
}

packet a1 {
    @tag(1)
    Logon @lengthOf(options1) `{ , }`,
    @calculatedFrom(""abc"")
    /// triple
    f32a {
        leftPad {
            // trailing space 
            o matchKey ``,
        },
        int32 int ``,
        char[007] zchar @lengthOf(Z9_) `tab	here`,
        char[1] falsey,
    },
    repeat int16 Z9_,
    match zchar as zchar {
        ""packet"" : x_y_z,
        [3, 0, 0123456789, ""CRC32"", ""CRC32""] : len,
        [0, 4294967296] : Packet,
        [65535] : options1,
        [10] : u128,
    },// packet A { u8 x, }
}")).
Eval vm_compute in ("<<<M656>>>" ++ check (runes_of_ascii "packet
//x
/// triple
u8x { MetaDataX
@lengthOf( charz
    ) `u8 x,` , @tag(
    0
)
zchar[ 7 ]
    u , i8  len `two words` // c
,
}
MetaData roots {i64 body , // a // b
u  matchKey
    , Packet a1 ,  zchar[ 65535  ] Logon/// triple
`a\` , uint8 A  `line1
line2`
,	} root	packet
body {
// " ++ [128512]%N ++ runes_of_ascii " emoji
// c
repeatCount , u64
    x_y_z ,
o
A `a\` ,
float32 msg_type
    ,	} MetaData // trailing space 
_x
{ char[ 3 ] As `crlf
line`,} root packet u8x	{
    @tag(
7 ) char[
    // " ++ [27880; 37322]%N ++ runes_of_ascii "
    7 //	t
]
i8i8
    @calculatedFrom(""" ++ [233]%N ++ runes_of_ascii "t" ++ [233]%N ++ runes_of_ascii """
)
,f64 // " ++ [128512]%N ++ runes_of_ascii " emoji
u8x  @lengthOf( float) ,	@tag(255 ) Header Packet `// not a comment` , @leftPad
    ( ' ' ) @rightPad( ' ')
f32
trueish @lengthOf( x_y_z  ) ,
    }
//
")).
Eval vm_compute in ("<<<M853>>>" ++ check (runes_of_ascii "options { metadata =
    7	matchKey= 42 ;
    A= ""`tick`"" ;
    matchKey = ""a\\"" u = """ ++ [128512]%N ++ runes_of_ascii """
}
    MetaData//	t
lengthOf  { //	t
matchKey Pad, } packet// " ++ [128512]%N ++ runes_of_ascii " emoji
float{ @rightPad( )
char[] int
@lengthOf(
    falsey ),
// " ++ [27880; 37322]%N ++ runes_of_ascii "
// trailing space 
@tag( 42 )
    repeat
zchar[
    1	] o `" ++ [28040; 24687; 31867; 22411]%N ++ runes_of_ascii "`	,
@calculatedFrom( """ ++ [233]%N ++ runes_of_ascii "t" ++ [233]%N ++ runes_of_ascii """)repeat
_x tag // " ++ [27880; 37322]%N ++ runes_of_ascii "
,
    @rightPad ( ' ' )float64 matchKey
    @lengthOf( u8x	) , @leftPad ( '\x00' )
    // trailing space 
    i8i8
    { char[] msg_type@calculatedFrom( ""// no comment""	) , } ,
    repeat char[	255
// trailing space 
// a // b
] i8i8,
}
options {matchKey = // trailing space 
1 float = // packet A { u8 x, }
""\" ++ [233]%N ++ runes_of_ascii """
; }
/// triple
")).
Eval vm_compute in ("<<<M4500>>>" ++ check (runes_of_ascii "options // c
{  msg_type
	= 	 //	t
  1	; 
    // a // b

	_x
=  
  // packet A { u8 x, }
    char[];  // a // b
		pack
	=	' ' ;

}  MetaData 
i8i8 {
i8i8  // " ++ [27880; 37322]%N ++ runes_of_ascii "

roots	, options1
// " ++ [27880; 37322]%N ++ runes_of_ascii "
lengthOf ,  _x	Z9_	`// not a comment` ,x
i8i8`{ , }` ,

    leftPad

BodyLength
    /// triple
    , }

    root
	packet 
tag
{	zchar[
    4294967296
] 
// packet A { u8 x, }
    /// triple
    Z9_
    @calculatedFrom(
    ""abc""
	)

`" ++ [28040; 24687; 31867; 22411]%N ++ runes_of_ascii "` , char BodyLength	@calculatedFrom(
	""\n""
	)
	`// not a comment`,@leftPad	// c
      (	' '  // c
  )
@rightPad (

    ) repeat
MetaDataX
	u	`" ++ [233]%N ++ runes_of_ascii "`
	, 
}
	MetaData

    tag {
u64

x_y_z
`
` ,}")).
Eval vm_compute in ("<<<M1101>>>" ++ check (runes_of_ascii "
packet
    a1 { uint16 MetaDataX @lengthOf( f32a )
    , @lengthOf(
leftPad)
    @tag(
    00) @tag( 0 )msg_type , match body as x_y_z
{ """"  : trueish	,["""" , // " ++ [27880; 37322]%N ++ runes_of_ascii "
00 ]
    : pack
    , //x
0
:// a // b
i8i8 /// triple
, [
1 , ""// no comment""
/// triple
// " ++ [128512]%N ++ runes_of_ascii " emoji
]// trailing space 
: chars, } ,	repeat char[
4294967296 // " ++ [27880; 37322]%N ++ runes_of_ascii "
] stringy,T @calculatedFrom( """ ++ [128512]%N ++ runes_of_ascii """
),@lengthOf( falsey //	t
) float64
    // " ++ [27880; 37322]%N ++ runes_of_ascii "
    float `a\` , char[]	calculatedFrom@calculatedFrom(	""1"" ),
// a // b
//
float64	zchar `// not a comment` , float32 Header
    `a\`, //x
zchar[ 42
    ]
As@lengthOf(
chars )
,
    }
")).
Eval vm_compute in ("<<<M124>>>" ++ check (runes_of_ascii "packet
crc// @lengthOf(
{ @rightPad ( '0' ) char[7
    // c
    ]
matchKey  @calculatedFrom( ""{,}"") , } packet x_y_z  {  @calculatedFrom( ""a\""b"" )
T
{ Header
{
    // packet A { u8 x, }
    lengthOf
packetx
`// not a comment` ,A
    i8i8 `crlf
line` , string o `line1
line2` ,
string_ @lengthOf( tag ) `line1
line2` , },
    } ,
match
lengthOf as	Z9_ {
""\" ++ [233]%N ++ runes_of_ascii """
: A , }
, match rootA as
matchKey// `tick` ""quote"" 'q'
{	[""`tick`""// @lengthOf(
,""x y""
] :  Packet, }
, //x
repeat zchar[
    1 ]// a // b
_x
// " ++ [128512]%N ++ runes_of_ascii " emoji
/// triple
, char[]
    msg_type , A rootA , } //")).
Eval vm_compute in ("<<<M153>>>" ++ check (runes_of_ascii "packet  BodyLength { @rightPad // packet A { u8 x, }
()
i32 packetx
@lengthOf( leftPad) ,  @lengthOf( MetaDataX
    ) leftPad
    ,
    _x {
match
zchar as zchar {
    [ // `tick` ""quote"" 'q'
""a\\"" ]
: crc """ ++ [28040; 24687]%N ++ runes_of_ascii """ :
Foo ,  1 : trueish ,	42 : rootA , [ 4294967296
// @lengthOf(
// `tick` ""quote"" 'q'
]
    //	t
    :
    float
    // " ++ [128512]%N ++ runes_of_ascii " emoji
    ""a\\"": Foo ,}  ,	repeat
float
    leftPad, uint8x i8i8 ,char[ 255  ]As// trailing space 
,	} ,  char[
    // " ++ [27880; 37322]%N ++ runes_of_ascii "
    4294967296
] uint8x`u8 x,` , @leftPad ( )
float32
body `two words` , }
")).
Eval vm_compute in ("<<<M4081>>>" ++ check (runes_of_ascii "// a // b
MetaData crc {
    uint8x len,
    string BodyLength,
    asx body `" ++ [233]%N ++ runes_of_ascii "`,
    calculatedFrom i8i8,
}

packet Header {
    @tag(3)
    int64 uint8x,
    repeat lengthOf {
        match x as body {
            """ ++ [128512]%N ++ runes_of_ascii """ : trueish,
            3 : MetaDataX,
            [""it's"", """"] : o,
            ""CRC32"" : i8i8,
        },
    },
    i64 lengthOf `u8 x,`,
}

packet pack {
    @rightPad()
    @tag(255)
    repeat string leftPad `crlf
        line`,
}

options {
}

packet Packet {
    lengthOf,
}")).
Eval vm_compute in ("<<<M335>>>" ++ check (runes_of_ascii "packet Logon//x
{ @calculatedFrom( ""a	b""
    ) repeat options1 , @calculatedFrom(
    ""a\\"") // c
char[] options1 `it's`, @tag(4294967296 ) repeat Logon
{match trueish as
    u128
    {""x y""
    //	t
    :// c
i64_
    ,
    [ 4294967296 , 007, 10 ]: i8i8 , } ,
//
// @lengthOf(
T	`u8 x,` ,repeat uint64 T `u8 x,`
, } , } options // @lengthOf(
{u128 =// trailing space 
'0'tag =  true
    ; Packet  = char[ 0123456789 ] ;
    Foo = 007 body
= 3 ;
    } packet i64_
{ }
//x
")).
Eval vm_compute in ("<<<M767>>>" ++ check (runes_of_ascii "  root packet x_y_z{ @rightPad (  )repeat char[] int `tab	here`//x
, @calculatedFrom( ""// no comment"" )
    // c
    pack
, char[
1 // `tick` ""quote"" 'q'
]
int	@calculatedFrom(
""" ++ [28040; 24687]%N ++ runes_of_ascii """ ) , MetaDataX a1 ,Z9_
{u16 pack, char[
0]
options1, repeat stringy{ /// triple
i8i8 @lengthOf( int
    ) , zchar packetx , } ,Packet`// not a comment`
, } ,
@rightPad ( ' ' ) uint64 zchar `" ++ [28040; 24687; 31867; 22411]%N ++ runes_of_ascii "` , /// triple
u16 Header
    `crlf
line`,	}options{packetx=  false ;
    }
")).
Eval vm_compute in ("<<<M1139>>>" ++ check (runes_of_ascii "root
packet metadata{// packet A { u8 x, }
@rightPad( ' ' // a // b
) @leftPad (
'\x00')f64 a1
    `u8 x,`
, // trailing space 
char[ 7
    ] metadata @lengthOf( Logon
    )  ,@calculatedFrom( ""\n""
    ) char[
    4294967296 ] repeatCount
, @tag( 65535)
zchar[ 255 ] chars	@lengthOf(stringy )	, zchar // packet A { u8 x, }
{ zchar @lengthOf(  crc
/// triple
// " ++ [27880; 37322]%N ++ runes_of_ascii "
) // a // b
,
uint64
    Packet`crlf
line` ,
    } ,
    /// triple
    } 	 ")).
Eval vm_compute in ("<<<M1031>>>" ++ check (runes_of_ascii "options {x = ""it's""}MetaData falsey// trailing space 
{
char[0123456789 ] lengthOf,
zchar[0123456789 ] stringy , falsey metadata
, zchar[007 ]rootA `` , }MetaData
trueish{  int8 x ,
// packet A { u8 x, }
// " ++ [128512]%N ++ runes_of_ascii " emoji
f32 len , pack BodyLength `a\` ,
}packet Pad
{ @leftPad //	t
(
'0' ) u8x @calculatedFrom(""CRC32"" ) , }root packet _x { msg_type	{ lengthOf ,  uint32	packetx
`` , },repeat int64
zchar `line1
line2`,body Header,
}
")).
Eval vm_compute in ("<<<M253>>>" ++ check (runes_of_ascii "packet pack
{ @rightPad (' ' ) A// c
@calculatedFrom( ""a\\"" )
// " ++ [128512]%N ++ runes_of_ascii " emoji
// " ++ [128512]%N ++ runes_of_ascii " emoji
`
` , u8
    f32a, zchar[007 ] rootA
    `u8 x,`, repeat
/// triple
// a // b
string u128 //
`u8 x,`, @leftPad( ' ' ) char[ 1 ] repeatCount@calculatedFrom( //x
""\n"" ) `doc`,
    o
,
falsey
    leftPad,@calculatedFrom(""a\""b"") @leftPad
    ('0' )
//
// " ++ [27880; 37322]%N ++ runes_of_ascii "
roots	{
u8
zchar @lengthOf(	Logon ) // trailing space 
,
// c
//	t
} , }")).
Eval vm_compute in ("<<<M298>>>" ++ check (runes_of_ascii "// a // b
packet int  { //	t
pack
    // trailing space 
    @lengthOf(// " ++ [27880; 37322]%N ++ runes_of_ascii "
leftPad
// @lengthOf(
// c
),
u128 MetaDataX,	char[] charz
    // a // b
    @calculatedFrom(
""\" ++ [233]%N ++ runes_of_ascii """ ) ,calculatedFrom{
float
BodyLength,
}
, @calculatedFrom(
""" ++ [233]%N ++ runes_of_ascii "t" ++ [233]%N ++ runes_of_ascii """
    )  @lengthOf( MetaDataX) match Logon //
as  i64_{  [0 ,255 , 10, 7
    // `tick` ""quote"" 'q'
    , 0123456789 ]
    :  asx // " ++ [128512]%N ++ runes_of_ascii " emoji
}
,
    }")).
Eval vm_compute in ("<<<M3667>>>" ++ check (runes_of_ascii "
options { rootA

    =
""" ++ [28040; 24687]%N ++ runes_of_ascii """
    ;	a1
	= 	 // a // b
'\x00'

    ;
	asx=
' '	}	MetaData
string_
    {char[]

i64_
    `it's`  ,}packet 
float {
@calculatedFrom(
    ""// no comment"" )

repeat
	char[]
Z9_, @lengthOf( Foo

)
	uint16  u @calculatedFrom(
	""\n""	)
	, repeat	uint32 a1 ,	// `tick` ""quote"" 'q'
	Logon 

    // " ++ [128512]%N ++ runes_of_ascii " emoji
	// " ++ [128512]%N ++ runes_of_ascii " emoji
		`line1
line2`	,

}
	//
")).
Eval vm_compute in ("<<<M990>>>" ++ check (runes_of_ascii "packet chars { @rightPad ( ) /// triple
@tag( 42
    ) @tag( 00// c
)	int
// @lengthOf(
//
len
,zchar[ 4294967296 ]
    asx `` ,	@rightPad (
'0'
)@calculatedFrom(
/// triple
/// triple
""{,}"")@lengthOf( repeatCount )	repeat uint64
falsey `doc` , repeat zchar[ // packet A { u8 x, }
0 ] u8x , } MetaData crc{
uint32 packetx , }
    packet float{ //
u128 _x,}")).
Eval vm_compute in ("<<<M3669>>>" ++ check (runes_of_ascii "MetaData roots {
    char[42] packetx `u8 x,`,
}

MetaData len {
    u128 rootA `
    `,
    roots trueish `doc`,
    uint64 x_y_z,
    u32 string_,
    options1 int,
    i8 charz `it's`,
}

MetaData int {
}

packet len {
    @calculatedFrom(""a\\"")
    string Header `doc`,
}

packet o {
    @leftPad(' ')
    char[] crc @calculatedFrom(""{,}""),
}")).
Eval vm_compute in ("<<<M3212>>>" ++ check (runes_of_ascii "// top
packet
    // c0
Logon
    // c1
{
    // c2
@tag(
    // c3
42
    // c4
)
    // c5
@rightPad
    // c6
(
    // c7
' '
    // c8
)
    // c9
@leftPad
    // c10
(
    // c11
)
    // c12
repeat
    // c13
trueish
    // c14
{
    // c15
string
    // c16
T
    // c17
,
    // c18
}
    // c19
,
    // c20
}
    // c21
")).
Eval vm_compute in ("<<<M199>>>" ++ check (runes_of_ascii "packet
    body {
@rightPad(	'0'	) Packet a1 ,asx ,repeatCount
// trailing space 
// packet A { u8 x, }
{// trailing space 
repeat int64 falsey , },	@rightPad
// c
// a // b
( '0'
)	match int
    // " ++ [27880; 37322]%N ++ runes_of_ascii "
    as T { 4294967296
: _x, 00 :  string_// c
,
    [""x y""  ] :  stringy, } ,// packet A { u8 x, }
uint32 x_y_z
,
}")).
Eval vm_compute in ("<<<M1570>>>" ++ check (runes_of_ascii "root packet Foo // " ++ [128512]%N ++ runes_of_ascii " emoji
{ } options {
    // a // b
    tag // `tick` ""quote"" 'q'
= //	t
""""
    ; u8x = zchar[0  ] }
MetaData
    int {zchar[ 10]
lengthOf	`` , i64 u8x`// not a comment` ,MetaDataX pack// `tick` ""quote"" 'q'
`crlf
line` `crlf
line`
, Logon charz `crlf
line`
    ,
    // a // b
    }
")).
Eval vm_compute in ("<<<M4263>>>" ++ check (runes_of_ascii "root packet i64_ {
    @tag(4294967296)
    match lengthOf as charz {
        1 : T,
    },
    repeat char[00] MetaDataX,
    match Foo as chars {
        // `tick` ""quote"" 'q'
        """ ++ [28040; 24687]%N ++ runes_of_ascii """ : charz,
    },
}

root packet MetaDataX {
    @lengthOf(chars)
    uint16 Foo,
    Foo,
}

packet zchar {
}")).
Eval vm_compute in ("<<<M1530>>>" ++ check (runes_of_ascii "root packet Foo // " ++ [128512]%N ++ runes_of_ascii " emoji
{ } options {
    // a // b
    tag // `tick` ""quote"" 'q'
= //	t
""""
    ; u8x = zchar[0  ] }
MetaData
    int {zchar[ 10]
lengthOf	`` `` , i64 u8x`// not a comment` ,MetaDataX pack// `tick` ""quote"" 'q'
`crlf
line`
, Logon charz `crlf
line`
    ,
    // a // b
    }
")).
Eval vm_compute in ("<<<M1476>>>" ++ check (runes_of_ascii "root packet Foo // " ++ [128512]%N ++ runes_of_ascii " emoji
{ } options {
    // a // b
    tag // `tick` ""quote"" 'q'
= //	t
""""
    ; u8x = 0 zchar[  ] }
MetaData
    int {zchar[ 10]
lengthOf	`` , i64 u8x`// not a comment` ,MetaDataX pack// `tick` ""quote"" 'q'
`crlf
line`
, Logon charz `crlf
line`
    ,
    // a // b
    }
")).
Eval vm_compute in ("<<<M1496>>>" ++ check (runes_of_ascii "root packet Foo // " ++ [128512]%N ++ runes_of_ascii " emoji
{ } options {
    // a // b
    tag // `tick` ""quote"" 'q'
= //	t
""""
    ; u8x = zchar[0  ] }
int
    MetaData {zchar[ 10]
lengthOf	`` , i64 u8x`// not a comment` ,MetaDataX pack// `tick` ""quote"" 'q'
`crlf
line`
, Logon charz `crlf
line`
    ,
    // a // b
    }
")).
Eval vm_compute in ("<<<M1484>>>" ++ check (runes_of_ascii "root packet Foo // " ++ [128512]%N ++ runes_of_ascii " emoji
{ } options {
    // a // b
    tag // `tick` ""quote"" 'q'
= //	t
""""
    ; u8x = zchar[0   }
MetaData
    int {zchar[ 10]
lengthOf	`` , i64 u8x`// not a comment` ,MetaDataX pack// `tick` ""quote"" 'q'
`crlf
line`
, Logon charz `crlf
line`
    ,
    // a // b
    }
")).
Eval vm_compute in ("<<<M1410>>>" ++ check (runes_of_ascii " packet Foo // " ++ [128512]%N ++ runes_of_ascii " emoji
{ } options {
    // a // b
    tag // `tick` ""quote"" 'q'
= //	t
""""
    ; u8x = zchar[0  ] }
MetaData
    int {zchar[ 10]
lengthOf	`` , i64 u8x`// not a comment` ,MetaDataX pack// `tick` ""quote"" 'q'
`crlf
line`
, Logon charz `crlf
line`
    ,
    // a // b
    }
")).
Eval vm_compute in ("<<<M935>>>" ++ check (runes_of_ascii "options { Packet = '\x00' // " ++ [27880; 37322]%N ++ runes_of_ascii "
i64_	=3;
falsey//
=
    00
    ; x_y_z =
0 // a // b
; Header =// " ++ [128512]%N ++ runes_of_ascii " emoji
""a\""b""
}  MetaData
    f32a {
    } options	{ metadata = ""it's""
    ; } options
    {}options { calculatedFrom = int32 ;
    len	= """ ++ [128512]%N ++ runes_of_ascii """
_x = ""it's""BodyLength= 0123456789 }
")).
Eval vm_compute in ("<<<M3681>>>" ++ check (runes_of_ascii "options {
    uint8x = ""{,}"";
}

packet asx {
    match f32a as msg_type {
        ""{,}"" : int,
        [
            3, 1, """ ++ [233]%N ++ runes_of_ascii "t" ++ [233]%N ++ runes_of_ascii """, ""a\\"", """ ++ [128512]%N ++ runes_of_ascii """,
            ""a\""b"", """ ++ [128512]%N ++ runes_of_ascii """
        ] : repeatCount,
    },
    string Z9_ `{ , }`,
    u128 {
        char[] Packet,
    },//	t
}")).
Eval vm_compute in ("<<<M65>>>" ++ check (runes_of_ascii "packet
    BodyLength { repeat char[
    1 ]
options1
`it's`
// c
// " ++ [128512]%N ++ runes_of_ascii " emoji
, x_y_z{
    packetx @lengthOf(zchar ) `tab	here` , repeat _x a1 ,
} , } packet roots{ // `tick` ""quote"" 'q'
}	options  { Foo	=char[ 1] // " ++ [27880; 37322]%N ++ runes_of_ascii "
;charz
=
1
; Packet = ""`tick`"" }
//x
")).
Eval vm_compute in ("<<<M3808>>>" ++ check (runes_of_ascii "packet As {
    @calculatedFrom(""1"")
    x_y_z f32a,//	t
    repeat Packet,
    @leftPad(' ')
    float64 msg_type @calculatedFrom(""it's"") `
    `,
    @lengthOf(i64_)
    // " ++ [128512]%N ++ runes_of_ascii " emoji
    trueish @lengthOf(charz),
    @rightPad('0')
    Z9_ `" ++ [233]%N ++ runes_of_ascii "`,
}// c")).
Eval vm_compute in ("<<<M626>>>" ++ check (runes_of_ascii "packet T {u8 Packet, @leftPad ( ' ' // packet A { u8 x, }
)
    // " ++ [128512]%N ++ runes_of_ascii " emoji
    match o as BodyLength
    // `tick` ""quote"" 'q'
    {
    [ ""it's""
]: charz
0 :
T
,
""`tick`"" : stringy }  , } packet stringy {	_x leftPad `say ""hi""`
    , }
")).
Eval vm_compute in ("<<<M3334>>>" ++ check (runes_of_ascii "// top
packet // c0
calculatedFrom // c1
{ // c2
@tag( // c3
4294967296 // c4
) // c5
u // c6
msg_type // c7
, // c8
char[ // c9
3 // c10
] // c11
crc // c12
@lengthOf( // c13
len // c14
) // c15
`u8 x,` // c16
, // c17
} // c18
")).
Eval vm_compute in ("<<<M4158>>>" ++ check (runes_of_ascii "root packet pack {
    zchar[00] falsey,// " ++ [27880; 37322]%N ++ runes_of_ascii "
    leftPad,
    uint64 stringy @calculatedFrom(""\n"") `" ++ [28040; 24687; 31867; 22411]%N ++ runes_of_ascii "`,
}

root packet pack {
    @tag(65535)
    zchar[007] uint8x `crlf
    line`,
}

options {
    Header = ""CRC32"";
}")).
Eval vm_compute in ("<<<M2311>>>" ++ check (runes_of_ascii "MetaData Packet { }packet	asx  { @lengthOf( asx) falsey`crlf
line`
,
    }
    packet x	{uint32// @lengthOf(
rootA	,u32 u32 options1 `say ""hi""` , @tag( 7
    )// packet A { u8 x, }
msg_type @lengthOf(
stringy	)	, }

")).
Eval vm_compute in ("<<<M2238>>>" ++ check (runes_of_ascii "MetaData Packet { }packet	root  { @lengthOf( asx) falsey`crlf
line`
,
    }
    packet x	{uint32// @lengthOf(
rootA	,u32 options1 `say ""hi""` , @tag( 7
    )// packet A { u8 x, }
msg_type @lengthOf(
stringy	)	, }

")).
Eval vm_compute in ("<<<M2283>>>" ++ check (runes_of_ascii "MetaData Packet { }packet	asx  { @lengthOf( asx) falsey`crlf
line`
,
    }
    uint64 x	{uint32// @lengthOf(
rootA	,u32 options1 `say ""hi""` , @tag( 7
    )// packet A { u8 x, }
msg_type @lengthOf(
stringy	)	, }

")).
Eval vm_compute in ("<<<M2333>>>" ++ check (runes_of_ascii "MetaData Packet { }packet	asx  { @lengthOf( asx) falsey`crlf
line`
,
    }
    packet x	{uint32// @lengthOf(
rootA	,u32 options1 `say ""hi""` , root 7
    )// packet A { u8 x, }
msg_type @lengthOf(
stringy	)	, }

")).
Eval vm_compute in ("<<<M246>>>" ++ check (runes_of_ascii "packet a1 {//	t
} root packet float {char[] pack ,
@tag(
65535 ) u16 string_
// trailing space 
// c
, repeat rootA	{
// `tick` ""quote"" 'q'
//x
repeat
    asx charz
`a\`, }
    // `tick` ""quote"" 'q'
    ,}
")).
Eval vm_compute in ("<<<M26>>>" ++ check (runes_of_ascii "  packet lengthOf// " ++ [27880; 37322]%N ++ runes_of_ascii "
{ @leftPad(
)
    // a // b
    @tag( 7
//x
/// triple
)
u8 BodyLength ,
    char[ 1
] chars
`
`,
@tag( 00 )char[ 0]
    // packet A { u8 x, }
    Z9_ @lengthOf(
float) `u8 x,` ,
}")).
Eval vm_compute in ("<<<M4502>>>" ++ check (runes_of_ascii "options

    {
	a1 =
	char[ 
1	]	// " ++ [27880; 37322]%N ++ runes_of_ascii "
;x =

f64
;  Z9_=
	//x
//
	  char[	3
    ]
	;Z9_	= 
'\x00'x_y_z
    =
zchar[
10]
;
	}	packet x_y_z	{ 
chars  trueish `it's`

// " ++ [128512]%N ++ runes_of_ascii " emoji

//x
    	, } ")).
Eval vm_compute in ("<<<M4359>>>" ++ check (runes_of_ascii "options {
    FixedStringPadChar = '0';
}

packet Q {
    zchar[4] z,
    @rightPad('\x00')
    char[3] n,
    char[5] d,
}

root packet R {
    Q,
    zchar[8] top,
    repeat zchar[2] zs,
}")).
Eval vm_compute in ("<<<M705>>>" ++ check (runes_of_ascii "  options { x=zchar[ 42 ]
//	t
// a // b
;  }
// @lengthOf(
// trailing space 
packet
matchKey { } options{ Header /// triple
= char[] leftPad =
    false charz = true; Header = 1 }")).
Eval vm_compute in ("<<<M1114>>>" ++ check (runes_of_ascii "
packet stringy{ @tag( 0
    )// packet A { u8 x, }
repeatCount ,@calculatedFrom( """"
)body	falsey,
    @lengthOf(// " ++ [27880; 37322]%N ++ runes_of_ascii "
chars
) repeat x_y_z `two words`	, repeatCount Pad , }
")).
Eval vm_compute in ("<<<M3580>>>" ++ check (runes_of_ascii "options {
    roots = uint8;
    asx = ' ';
}

options {
}

root packet Packet {
    @lengthOf(T)
    @calculatedFrom(""abc"")
    @calculatedFrom(""1"")
    A lengthOf,
}")).
Eval vm_compute in ("<<<M83>>>" ++ check (runes_of_ascii "packet // trailing space 
msg_type { repeat string
// `tick` ""quote"" 'q'
// @lengthOf(
BodyLength  `two words`
// packet A { u8 x, }
// packet A { u8 x, }
, }
")).
Eval vm_compute in ("<<<M944>>>" ++ check (runes_of_ascii "packet crc {
    } MetaData/// triple
Packet { Logon
    Pad `line1
line2` ,u8 pack ,// a // b
} options
    // c
    { falsey
=  ""it's"" len = """ ++ [28040; 24687]%N ++ runes_of_ascii """ ; }
")).
Eval vm_compute in ("<<<M93>>>" ++ check (runes_of_ascii "MetaData  falsey { i64
    A // " ++ [27880; 37322]%N ++ runes_of_ascii "
, string
Header
,	zchar[	10 ]
Foo `" ++ [28040; 24687; 31867; 22411]%N ++ runes_of_ascii "`
    // @lengthOf(
    ,packetx
    body, f32a  MetaDataX `it's`,  }
")).
Eval vm_compute in ("<<<M3985>>>" ++ check (runes_of_ascii "  options{

    }
	MetaData 
    // c
      x_y_z{	u32

u8x `line1
line2`	,
    float64	u // a // b

	`line1
line2` ,	} 	 // @lengthOf(
 
")).
Eval vm_compute in ("<<<M1658>>>" ++ check (runes_of_ascii "root packet /// triple
rootA {	i32
MetaDataX@calculatedFrom( ""CRC32"" ""CRC32"" ) `line1
line2` , } MetaData BodyLength {
u8
rootA, } // c")).
Eval vm_compute in ("<<<M120>>>" ++ check (runes_of_ascii "root
packet Header
    // packet A { u8 x, }
    { // " ++ [27880; 37322]%N ++ runes_of_ascii "
@lengthOf(
rootA // a // b
) int8 Foo//
@lengthOf(	uint8x)`tab	here`
,}
")).
Eval vm_compute in ("<<<M299>>>" ++ check (runes_of_ascii "
packet a1
{ match i8i8
    as repeatCount
    // c
    { [ 00
    ] : crc, 3 :f32a 7 : matchKey , 0123456789	: float
    } , }
")).
Eval vm_compute in ("<<<M1640>>>" ++ check (runes_of_ascii "root packet /// triple
rootA }	i32
MetaDataX@calculatedFrom( ""CRC32"" ) `line1
line2` , } MetaData BodyLength {
u8
rootA, } // c")).
Eval vm_compute in ("<<<M4027>>>" ++ check (runes_of_ascii "

  options {LittleEndian
= 
true
    ;  }

    root

packet

P {  u16 a,
u32 
Sum
    @calculatedFrom( ""CR\
C32"" 
)  ,  }
")).
Eval vm_compute in ("<<<M385>>>" ++ check (runes_of_ascii "// @lengthOf(
packet
    // " ++ [27880; 37322]%N ++ runes_of_ascii "
    float{
    @calculatedFrom(
    ""abc"" )
char chars
    @calculatedFrom(""CRC32"" )`" ++ [233]%N ++ runes_of_ascii "`
, }
")).
Eval vm_compute in ("<<<M1856>>>" ++ check (runes_of_ascii "packet
    Pad // a // b
{ i8i8 @calculatedFrom( ""a	b"") `u8 x,` ,
} options{ float// " ++ [128512]%N ++ runes_of_ascii " emoji
= f64 i64_ i64_
=//	t
00 }
")).
Eval vm_compute in ("<<<M71>>>" ++ check (runes_of_ascii "options{ BodyLength=
    '\x00' }options
{ } options {  Pad
    = ""\" ++ [233]%N ++ runes_of_ascii """  msg_type
= uint32 ; a1 = '0'  Foo =
    ' ' ; }")).
Eval vm_compute in ("<<<M1883>>>" ++ check (runes_of_ascii "packet
    Pad // a // b
{ i8i8 @calculatedFrom( ""a	b"") `u8 x,` ,
} options{ #float// " ++ [128512]%N ++ runes_of_ascii " emoji
= f64 i64_
=//	t
00 }
")).
Eval vm_compute in ("<<<M1857>>>" ++ check (runes_of_ascii "packet
    Pad // a // b
{ i8i8 @calculatedFrom( ""a	b"") `u8 x,` ,
} options{ float// " ++ [128512]%N ++ runes_of_ascii " emoji
= f64 =
i64_//	t
00 }
")).
Eval vm_compute in ("<<<M1865>>>" ++ check (runes_of_ascii "packet
    Pad // a // b
{ i8i8 @calculatedFrom( ""a	b"") `u8 x,` ,
} options{ float// " ++ [128512]%N ++ runes_of_ascii " emoji
= f64 i64_
=//	t
 }
")).
Eval vm_compute in ("<<<M1855>>>" ++ check (runes_of_ascii "packet
    Pad // a // b
{ i8i8 @calculatedFrom( ""a	b"") `u8 x,` ,
} options{ float// " ++ [128512]%N ++ runes_of_ascii " emoji
= f64 
=//	t
00 }
")).
Eval vm_compute in ("<<<M3000>>>" ++ check (runes_of_ascii "packet A {
  match k as n {
    [""a"", ""bb"", 007, ""d"", ""e"", 66, ""g"", ""h"", 9, ""j"", ""k"", 12] : B
    2 : C
  },
}")).
Eval vm_compute in ("<<<M2996>>>" ++ check (runes_of_ascii "packet A {
  match k as n {
    [""a"", 22, ""c c"", 4, ""e"", 66, ""g"", 8, ""i"", 10, ""k"", 12] : B
    2 : C
  },
}")).
Eval vm_compute in ("<<<M3830>>>" ++ check (runes_of_ascii "packet o {
    @tag(42)
    repeat x {
        // c
        char[0123456789] i64_,
    },
}

options {
}")).
Eval vm_compute in ("<<<M3360>>>" ++ check (runes_of_ascii "packet calculatedFrom { @tag( 4294967296 ) u msg_type , char[ 3
// c
] crc @lengthOf( len ) `u8 x,` , }")).
Eval vm_compute in ("<<<M3005>>>" ++ check (runes_of_ascii "packet A {
    Inner {
        u8 x `a
b`,
        Deep {
            u8 y `a
b`,
        },
    },
}")).
Eval vm_compute in ("<<<M875>>>" ++ check (runes_of_ascii "
root packet T {
f32 pack // trailing space 
@calculatedFrom( ""abc"" )
`" ++ [28040; 24687; 31867; 22411]%N ++ runes_of_ascii "`
    , /// triple
}")).
Eval vm_compute in ("<<<M961>>>" ++ check (runes_of_ascii "options  { }MetaData
    u128 {
int64 u8x
,lengthOf
    u128 `it's` // c
,}options//	t
{ // c
}")).
Eval vm_compute in ("<<<M3242>>>" ++ check (runes_of_ascii "packet Logon { @tag( 42 ) @rightPad ( ' ' ) @leftPad ( ) repeat // c
trueish { string T , } , }")).
Eval vm_compute in ("<<<M1408>>>" ++ check (runes_of_ascii "root packet SimpleMessage {
    uint16 MsgType `" ++ [28040; 24687; 31867; 22411]%N ++ runes_of_ascii "`,
    string JsonBody `Json" ++ [23383; 31526; 20018; 28040; 24687; 20307]%N ++ runes_of_ascii "`,
}")).
Eval vm_compute in ("<<<M4174>>>" ++ check (runes_of_ascii "MetaData u {
    i32 i8i8 `u8 x,`,
    MetaDataX pack `
        `,
    Logon zchar `doc`,
}")).
Eval vm_compute in ("<<<M2942>>>" ++ check (runes_of_ascii "packet A {
  match k as n {
    [1, ""bb"", 007, ""d"", 5, ""f"", 7, ""h""] : B
    2 : C
  },
}")).
Eval vm_compute in ("<<<M2037>>>" ++ check (runes_of_ascii "r#oot
packet crc
    { f32a @calculatedFrom( """ ++ [233]%N ++ runes_of_ascii "t" ++ [233]%N ++ runes_of_ascii """ )
    `say ""hi""`, lengthOf `` ,  }")).
Eval vm_compute in ("<<<M2950>>>" ++ check (runes_of_ascii "packet A {
  match k as n {
    [1, 22, 007, 4, 5, 66, 7, 8, 9] : B,
    2 : C
  },
}")).
Eval vm_compute in ("<<<M1182>>>" ++ check (runes_of_ascii "options {
// a // b
//
Z9_
= char[
1
]
Foo = '0'
; // `tick` ""quote"" 'q'
} //	t")).
Eval vm_compute in ("<<<M3301>>>" ++ check (runes_of_ascii "packet o { @tag(
// c
42 ) repeat x { char[ 0123456789 ] i64_ , } , } options { }")).
Eval vm_compute in ("<<<M3655>>>" ++ check (runes_of_ascii "
packet
A {B
    b
    `tab
	x`

,
	B	`tab
	x`
	, repeat
B 
bs `tab
	x`
	,
}
")).
Eval vm_compute in ("<<<M3464>>>" ++ check (runes_of_ascii "root

    packet P  { 
repeat
string

    ss

    ,	repeat 
u16	ns

,}
")).
Eval vm_compute in ("<<<M2902>>>" ++ check (runes_of_ascii "packet A {
  match k as n {
    [1, ""bb"", 007, ""d"", 5] : B,
    2 : C
  },
}")).
Eval vm_compute in ("<<<M687>>>" ++ check (runes_of_ascii "packet asx
{
metadata// a // b
@calculatedFrom( ""// no comment"" ) ,
}

")).
Eval vm_compute in ("<<<M2899>>>" ++ check (runes_of_ascii "packet A {
  match k as n {
    [1, 22, 007, 4, 5] : B
    2 : C
  },
}")).
Eval vm_compute in ("<<<M3405>>>" ++ check (runes_of_ascii "MetaData _x { zchar[ 4294967296 ] // c
lengthOf `// not a comment` , }")).
Eval vm_compute in ("<<<M1834>>>" ++ check (runes_of_ascii "packet
    Pad // a // b
{ i8i8 @calculatedFrom( ""a	b"") `u8 x,` ,
}")).
Eval vm_compute in ("<<<M2877>>>" ++ check (runes_of_ascii "packet A {
  match k as n {
    [1, ""bb"", 007] : B
    2 : C
  },
}")).
Eval vm_compute in ("<<<M322>>>" ++ check (runes_of_ascii "root packet matchKey { } packet msg_type{	char[ 65535]
falsey ,}
")).
Eval vm_compute in ("<<<M1287>>>" ++ check (runes_of_ascii "MetaData falsey{ // a // b
char[]	pack ,string int `u8 x,` , }
")).
Eval vm_compute in ("<<<M2742>>>" ++ check (runes_of_ascii "[ ) repeatCount repeat float32 { uint8 int16 ""it's"" int64 : ;")).
Eval vm_compute in ("<<<M1953>>>" ++ check (runes_of_ascii "
@tagpacket	As { @calculatedFrom(//x
""{,}""	)lengthOf , } 	 ")).
Eval vm_compute in ("<<<M1941>>>" ++ check (runes_of_ascii "
? packet	As { @calculatedFrom(//x
""{,}""	)lengthOf , } 	 ")).
Eval vm_compute in ("<<<M29>>>" ++ check (runes_of_ascii "packet chars// packet A { u8 x, }
{} packet u {
}
//	t
")).
Eval vm_compute in ("<<<M1753>>>" ++ check (runes_of_ascii "options { }options options {  } // `tick` ""quote"" 'q'")).
Eval vm_compute in ("<<<M4058>>>" ++ check (runes_of_ascii "options
{ 
repeatCount = 00 ; }
	    // " ++ [128512]%N ++ runes_of_ascii " emoji
")).
Eval vm_compute in ("<<<M1957>>>" ++ check (runes_of_ascii "
packet	As { @calculatedFrom(//x
""{,}""	)" ++ [21517; 23383]%N ++ runes_of_ascii " , } 	 ")).
Eval vm_compute in ("<<<M738>>>" ++ check (runes_of_ascii "options {
float = ' '
;
    _x	= 4294967296 ; }")).
Eval vm_compute in ("<<<M1774>>>" ++ check (runes_of_ascii "options { }options {  ~} // `tick` ""quote"" 'q'")).
Eval vm_compute in ("<<<M4271>>>" ++ check (runes_of_ascii "packet A {
    u8 x,// a
    // b
    u8 y,
}")).
Eval vm_compute in ("<<<M3042>>>" ++ check (runes_of_ascii "MetaData M {
    u8 x `
x`,
    T t `
x`,
}")).
Eval vm_compute in ("<<<M2165>>>" ++ check (runes_of_ascii "root
    // `tick` ""quote"" 'q'
    packet")).
Eval vm_compute in ("<<<M2585>>>" ++ check (runes_of_ascii "packet A { x @calculatedFrom(""c"") `d`, }")).
Eval vm_compute in ("<<<M561>>>" ++ check (runes_of_ascii "options{ repeatCount =007 ;} /// triple")).
Eval vm_compute in ("<<<M2111>>>" ++ check (runes_of_ascii "MetaData x
i16// " ++ [128512]%N ++ runes_of_ascii " emoji
{ stringy , }")).
Eval vm_compute in ("<<<M2695>>>" ++ check ([65533]%N ++ runes_of_ascii "-" ++ [20; 65533]%N ++ runes_of_ascii "?" ++ [65533; 65533]%N ++ runes_of_ascii "&" ++ [65533]%N ++ runes_of_ascii "G" ++ [65533]%N ++ runes_of_ascii "i" ++ [65533; 8; 65533; 65533]%N ++ runes_of_ascii "*b2" ++ [65533; 65533]%N ++ runes_of_ascii "(" ++ [65533; 65533]%N ++ runes_of_ascii "~" ++ [65533; 65533]%N ++ runes_of_ascii "]n" ++ [65533; 65533; 65533; 65533; 12465]%N ++ runes_of_ascii "4E" ++ [20]%N)).
Eval vm_compute in ("<<<M1305>>>" ++ check (runes_of_ascii "MetaData Header {
pack o`doc` ,
}
")).
Eval vm_compute in ("<<<M3872>>>" ++ check (runes_of_ascii "options {
    Packet = ""packet"";
}")).
Eval vm_compute in ("<<<M3128>>>" ++ check (runes_of_ascii "packet A {
 u8 x `d 	`, // c 	
}")).
Eval vm_compute in ("<<<M2054>>>" ++ check (runes_of_ascii "MetaData options { u64 pack, }")).
Eval vm_compute in ("<<<M657>>>" ++ check (runes_of_ascii "
MetaData a1
{ // " ++ [128512]%N ++ runes_of_ascii " emoji
}")).
Eval vm_compute in ("<<<M2839>>>" ++ check (runes_of_ascii """{,}"" uint32 MetaData packet")).
Eval vm_compute in ("<<<M704>>>" ++ check (runes_of_ascii "
options { int	= i16 ; }
")).
Eval vm_compute in ("<<<M2088>>>" ++ check (runes_of_ascii "MetaData A { `u64 pack, }")).
Eval vm_compute in ("<<<M1214>>>" ++ check (runes_of_ascii "options {leftPad =' ' }
")).
Eval vm_compute in ("<<<M4247>>>" ++ check (runes_of_ascii "
// c" ++ [6158]%N ++ runes_of_ascii "
    packet
A
{}
")).
Eval vm_compute in ("<<<M1218>>>" ++ check (runes_of_ascii "packet
    Packet {
}
")).
Eval vm_compute in ("<<<M2645>>>" ++ check (runes_of_ascii "MetaData M { x y z, }")).
Eval vm_compute in ("<<<M3977>>>" ++ check (runes_of_ascii "

  options
    {
} ")).
Eval vm_compute in ("<<<M860>>>" ++ check (runes_of_ascii "//	t
options
{ }

")).
Eval vm_compute in ("<<<M3097>>>" ++ check (runes_of_ascii "// c" ++ [8232]%N ++ runes_of_ascii "
packet A {
}")).
Eval vm_compute in ("<<<M2632>>>" ++ check (runes_of_ascii "packet A { } // c")).
Eval vm_compute in ("<<<M912>>>" ++ check (runes_of_ascii "//
packet crc{ }")).
Eval vm_compute in ("<<<M2804>>>" ++ check (runes_of_ascii "f32 u32 ""CRC32""")).
Eval vm_compute in ("<<<M906>>>" ++ check (runes_of_ascii "
// " ++ [128512]%N ++ runes_of_ascii " emoji
")).
Eval vm_compute in ("<<<M2633>>>" ++ check (runes_of_ascii "packet A {")).
Eval vm_compute in ("<<<M1746>>>" ++ check (runes_of_ascii "options")).
Eval vm_compute in ("<<<M2510>>>" ++ check (runes_of_ascii """a\
b""")).
Eval vm_compute in ("<<<M2672>>>" ++ check (runes_of_ascii "u8 x,")).
Eval vm_compute in ("<<<M2476>>>" ++ check (runes_of_ascii "'  '")).
Eval vm_compute in ("<<<M2506>>>" ++ check (runes_of_ascii """a\")).
Eval vm_compute in ("<<<M2505>>>" ++ check (runes_of_ascii """a")).
Eval vm_compute in ("<<<M2684>>>" ++ check ([65279]%N)).
