From FP Require Import Lexer Parser ShowPT Digest Formatter.
From Coq Require Import String List NArith.
Import ListNotations.
Open Scope string_scope.
Set Printing Width 100000000.
Set Printing Depth 100000000.
Definition show_fres (r : fres) : string :=
  match r with
  | FOk s => "OK:" ++ sh_escaped s ""
  | FErr s => "ERR:" ++ sh_escaped s ""
  | FPanic p => "PANIC:" ++ p
  end.
Definition check (rs : list rune) : string := digest (show_fres (format_res rs)).
Definition full (rs : list rune) : string := show_fres (format_res rs).
Eval vm_compute in ("<<<M3605>>>" ++ check (runes_of_ascii "packet o {
    match crc as roots {
        4294967296 : o,
    },
    u128 @lengthOf(u8x),
    repeat Header `say ""hi""`,
    @rightPad(' ')
    repeat string charz,
    string BodyLength @calculatedFrom(""it's""),
    @leftPad('\x00')
    @tag(4294967296)
    repeat a1 {
        // " ++ [128512]%N ++ runes_of_ascii " emoji
        charz `// not a comment`,
        _x o,
        metadata,
        uint8 MetaDataX,
    },
    repeat u128 `two words`,
    @lengthOf(metadata)
    char[0123456789] _x,
    repeat Z9_ ``,//	t
}

packet packetx {
    //	t
    @lengthOf(pack)
    // 50% %s
    @rightPad('\x00')
    repeat char[42] f32a `doc`,
    @rightPad('0')
    BodyLength {
        u16 calculatedFrom @calculatedFrom(""a\\"") `crlf
        line`,
    },
    a1 {
        u pack,
        repeat o {
            // " ++ [27880; 37322]%N ++ runes_of_ascii "
            match int as falsey {
                ""CRC32"" : uint8x,
                7 : repeatCount,
                ""// no comment"" : i8i8,
                // " ++ [128512]%N ++ runes_of_ascii " emoji
                65535 : charz,
            },
        },
        falsey x_y_z,
        u16 i64_ @lengthOf(falsey) `" ++ [233]%N ++ runes_of_ascii "`,
    },
    match int as T {
        7 : int,
    },
}

packet roots {
    zchar[1] T @lengthOf(BodyLength) `{ , }`,
    match Z9_ as rootA {
        00 : f32a,
    },
    @lengthOf(u8x)
    f64 T @lengthOf(As) `two words`,
    i64_ matchKey `a\`,
    @calculatedFrom(""" ++ [233]%N ++ runes_of_ascii "t" ++ [233]%N ++ runes_of_ascii """)
    u32 falsey @lengthOf(u128) `two words`,
    u64 u8x @calculatedFrom(""it's"") `it's`,
    char[0] len @calculatedFrom(""" ++ [128512]%N ++ runes_of_ascii """) `" ++ [233]%N ++ runes_of_ascii "`,
    @tag(255)
    match stringy as Foo {
        007 : u,
        7 : BodyLength,
        1 : f32a,
        4294967296 : crc,
        """ ++ [28040; 24687]%N ++ runes_of_ascii """ : chars,
    },
    // " ++ [128512]%N ++ runes_of_ascii " emoji
}

MetaData matchKey {
}

root packet pack {
    @lengthOf(Header)
    u8 len @lengthOf(x_y_z) ``,
    @tag(4294967296)
    repeat matchKey {
        int8 pack,
    },
    @tag(65535)
    @rightPad()
    @lengthOf(Pad)
    uint8x `it's`,
    repeat zchar {
        match uint8x as u128 {
            ""it's"" : chars,
        },
    },
    @calculatedFrom(""x y"")
    @leftPad(' ')
    @lengthOf(zchar)
    float64 charz,
    @lengthOf(repeatCount)
    repeat f32a {
        repeat i8 _x `it's`,
    },
    Z9_ @lengthOf(Header) `
    `,
    lengthOf x,
}")).
Eval vm_compute in ("<<<M621>>>" ++ check (runes_of_ascii "packet uint8x{
@lengthOf( lengthOf )@lengthOf(	roots ) repeat i64_ crc`` , @lengthOf(
BodyLength ) repeat
charz
{ packetx	{  match // 50% %s
u128 as crc // trailing space 
{ ""it's""  : options1 , 1
    // @lengthOf(
    :asx, }
,//x
zchar[
3 ]
float
@calculatedFrom(""packet""
    )
`it's` ,match
x_y_z as tag {
    0 : repeatCount , }
, }
, repeat	string options1, char[65535
] stringy
    ,
    char[]
f32a @lengthOf(
o ) `line1
line2`
, } ,
    @calculatedFrom(""CRC32"" )/// triple
rootA
    `" ++ [28040; 24687; 31867; 22411]%N ++ runes_of_ascii "` , @tag( 1 )zchar calculatedFrom,
int
// c
// trailing space 
{ Logon  `// not a comment` ,
u Z9_ `crlf
line`,
char[
/// triple
// packet A { u8 x, }
007 ]a1 `a\` ,char[]options1	,	}
    , @lengthOf(
matchKey // " ++ [128512]%N ++ runes_of_ascii " emoji
)
    Logon @calculatedFrom( ""{,}""	)`{ , }` , u128 body `two words` , } MetaData
    matchKey { /// triple
int32 _x ,  } packet u8x
    {match len as
    calculatedFrom {
    [""// no comment""
    ,  ""CRC32""
// @lengthOf(
// " ++ [128512]%N ++ runes_of_ascii " emoji
]
:rootA , 65535:
    // packet A { u8 x, }
    crc ,
    007 : // c
zchar , 4294967296 : metadata
    // packet A { u8 x, }
    , }
    ,@calculatedFrom(""CRC32"") repeat
//	t
// 50% %s
char[ 007
    ]
As
    , @calculatedFrom(
    ""\" ++ [233]%N ++ runes_of_ascii """)i16 u128
`a\`
, repeat u8x
    {repeat len  zchar ,	BodyLength	calculatedFrom ,
}	, @calculatedFrom( """") A @calculatedFrom(""1""
    // a // b
    ) `100% of %d` ,} packet
o{
    //	t
    @calculatedFrom(""CRC32"" ) string
    // `tick` ""quote"" 'q'
    body @lengthOf(
int
)`line1
line2` ,
u64
    // " ++ [128512]%N ++ runes_of_ascii " emoji
    crc  `
` , BodyLength@lengthOf(Header ), tag @lengthOf(matchKey
) ,char[
    255 ] repeatCount `doc`
,
@lengthOf( Logon )	string
A @calculatedFrom( """ ++ [128512]%N ++ runes_of_ascii """ ) `it's` ,
a1 Foo
    /// triple
    , //
} options {T = false  } //")).
Eval vm_compute in ("<<<M1347>>>" ++ check (runes_of_ascii "packet	Z9_
// " ++ [27880; 37322]%N ++ runes_of_ascii "
// 50% %s
{ match asx	as pack {
    ""abc"" :
    //
    x_y_z ,},
    //	t
    @tag( 00 )
repeat zchar[ 65535 ] len ,
@calculatedFrom( ""abc"" )
@lengthOf(	stringy )
    string_ `" ++ [233]%N ++ runes_of_ascii "`,  u, uint32 msg_type @lengthOf(
    falsey )  `100% of %d` , u32 u8x// `tick` ""quote"" 'q'
@calculatedFrom( """ ++ [28040; 24687]%N ++ runes_of_ascii """)
    `tab	here`
    ,	zchar[ 00 ] Z9_
@lengthOf(
matchKey ) , } packet zchar {
match len as metadata{
    """":i8i8""{,}""	: uint8x , }// trailing space 
,
@tag( 10 )//	t
@calculatedFrom( ""a	b"" ) @leftPad ( '0' )f64 string_ ,  trueish {
char[1	] T @calculatedFrom(
//x
//	t
""// no comment"" ) ,}// a // b
, zchar[ 4294967296 ] /// triple
stringy @calculatedFrom(/// triple
""CRC32""
    ) `doc`
    , }packet a1
{ repeat i64
    packetx , }
    options { // c
len =zchar[ 007
// 50% %s
// c
] ;
}	packet roots{
    i32 metadata , //
@lengthOf( metadata) @tag(// a // b
7 )  @lengthOf( roots ) match
options1 as u128
{ [
    // `tick` ""quote"" 'q'
    ""1""/// triple
, 255
, ""`tick`"" , 1,42
,  ""packet""] :
i64_ 42 : x_y_z
    //
    ,10: f32a , } ,
@rightPad ( '0') @tag(
    0
    )  @calculatedFrom("""") int8
Header , zchar[
    007 ]
_x , len ,
    @tag( 007 )// 50% %s
string Packet @lengthOf( lengthOf // trailing space 
) ,zchar[ 00 ]len
,float64 Z9_ @lengthOf(charz )
, x_y_z {
repeat packetx {u
@lengthOf(
// `tick` ""quote"" 'q'
//	t
matchKey
)
`{ , }`
// a // b
//	t
, } ,float32 falsey `tab	here` ,
char[]
    int  `
`
,
    // 50% %s
    zchar[ 0 ]As , } ,
    } // " ++ [128512]%N ++ runes_of_ascii " emoji")).
Eval vm_compute in ("<<<M1409>>>" ++ check (runes_of_ascii "options {
    StringPrefixLenType = u16;
    ArrayPrefixLenType = u16;
}

packet SampleBinary {
    uint16 MsgType `" ++ [28040; 24687; 31867; 22411]%N ++ runes_of_ascii "`,
    u16 BodyLenght @lengthOf(Body) `" ++ [28040; 24687; 20307; 38271; 24230]%N ++ runes_of_ascii "`,
    match MsgType as Body {
        1 : Logon,
        2 : Logout,
        3 : Heartbeat,
        4 : RiskControlRequest,
        5 : RiskControlResponse,
    },
    @calculatedFrom(""CRC32"")
    u32 Ckecksum `" ++ [26657; 39564; 21644]%N ++ runes_of_ascii "`,
}

packet Logon {
    @leftPad('0')
    char[10] UserName `" ++ [29992; 25143; 21517]%N ++ runes_of_ascii "`,
    string Password `" ++ [23494; 30721]%N ++ runes_of_ascii "`,
    uint64 ClientId `" ++ [23458; 25143; 31471]%N ++ runes_of_ascii "ID`,
    u16 HeartbeatInterval `" ++ [24515; 36339; 38388; 38548]%N ++ runes_of_ascii "`,
}

packet Logout {
    @rightPad('0')
    char[10] UserName `" ++ [29992; 25143; 21517]%N ++ runes_of_ascii "`,
    uint64 ClientId `" ++ [23458; 25143; 31471]%N ++ runes_of_ascii "ID`,
}

packet Heartbeat {
}

packet RiskControlRequest {
    string UniqueOrderId `" ++ [21807; 19968; 35746; 21333; 21495]%N ++ runes_of_ascii "`,
    char[16] ClOrdID `" ++ [23458; 25143; 35746; 21333; 21495]%N ++ runes_of_ascii "`,
    char[3] MarketID `" ++ [24066; 22330]%N ++ runes_of_ascii "id`,
    char[12] SecurityID `" ++ [35777; 21048; 20195; 30721]%N ++ runes_of_ascii "`,
    char Side `" ++ [20080; 21334; 26041; 21521]%N ++ runes_of_ascii "`,
    char OrderType `" ++ [35746; 21333; 31867; 22411]%N ++ runes_of_ascii "`,
    u64 Price `" ++ [20215; 26684]%N ++ runes_of_ascii "`,
    u32 Qty `" ++ [25968; 37327]%N ++ runes_of_ascii "`,
    repeat string ExtraInfo `" ++ [38468; 21152; 20449; 24687]%N ++ runes_of_ascii "`,
    repeat SubOrder {
        char[16] ClOrdID `" ++ [23376; 35746; 21333; 21495]%N ++ runes_of_ascii "`,
        u64 Price `" ++ [23376; 35746; 21333; 20215; 26684]%N ++ runes_of_ascii "`,
        u32 Qty `" ++ [23376; 35746; 21333; 25968; 37327]%N ++ runes_of_ascii "`,
    },
}

packet RiskControlResponse {
    string UniqueOrderId `" ++ [21807; 19968; 35746; 21333; 21495]%N ++ runes_of_ascii "`,
    i32 Status `" ++ [29366; 24577]%N ++ runes_of_ascii "`,
    string Msg `" ++ [32467; 26524; 20449; 24687]%N ++ runes_of_ascii "`,
    repeat Detail,
}

packet Detail {
    string RuleName `" ++ [35268; 21017; 21517; 31216]%N ++ runes_of_ascii "`,
    u16 Code `" ++ [21407; 22240; 20195; 30721]%N ++ runes_of_ascii "`,
}")).
Eval vm_compute in ("<<<M3800>>>" ++ check (runes_of_ascii "MetaData pack {
    // trailing space 
    float32 pack `say ""hi""`,
}

root packet body {
    @calculatedFrom(""it's"")
    uint8x Pad,
    string chars,
    int8 a1 @lengthOf(A),
    pack {
        o {
            repeat Header MetaDataX,
        },
        charz,
        Header @calculatedFrom(""\n""),
    },
    @lengthOf(o)
    match asx as int {
        ""`tick`"" : x_y_z,
        4294967296 : u8x,
        ""a	b"" : repeatCount,
        ""a	b"" : Pad,
        10 : packetx,
    },
    A o,
    Packet {
        u `doc`,
        repeat Header u8x,
        i8i8 As,
    },
    @calculatedFrom(""a\\"")
    charz {
        char[] a1,
        string Pad,
        x repeatCount,
        metadata {
            // c
            chars {
                body `
                `,
                string u8x @lengthOf(u128),
                match string_ as BodyLength {
                    [""`tick`""] : a1,
                    ""packet"" : charz,
                },
            },
            char[] repeatCount,
            int16 msg_type,
            uint8x,
        },
    },
    @lengthOf(float)
    // `tick` ""quote"" 'q'
    match trueish as Header {
        // packet A { u8 x, }
        [""{,}"", ""1""] : f32a,
    },
}")).
Eval vm_compute in ("<<<M4242>>>" ++ check (runes_of_ascii "packet chars {
    zchar[1] u8x @lengthOf(uint8x),
    @calculatedFrom(""{,}"")
    roots `say ""hi""`,
    int8 asx `{ , }`,
    // `tick` ""quote"" 'q'
    // trailing space 
    @calculatedFrom(""a\""b"")
    //x
    i8 _x `// not a comment`,
}

root packet metadata {
    //x
    zchar[3] u128 @calculatedFrom(""a\""b"") `two words`,
    @rightPad(' ')
    @calculatedFrom(""// no comment"")
    @lengthOf(Logon)
    char[] Packet,
    @rightPad('0')
    trueish matchKey `line1
        line2`,
    @tag(65535)
    @lengthOf(f32a)
    @tag(0123456789)
    match zchar as falsey {
        10 : len,
        [
            """ ++ [128512]%N ++ runes_of_ascii """, ""a	b"", ""CRC32"", ""x y"", 3,
            7, ""\" ++ [233]%N ++ runes_of_ascii """, 7
        ] : options1,
        ""\n"" : Packet,
        0 : float,
        """ ++ [28040; 24687]%N ++ runes_of_ascii """ : zchar,
        4294967296 : Packet,
    },
    zchar[0123456789] lengthOf,
    zchar {
        zchar[0] Z9_,
    },
    float `it's`,
    repeat Z9_ {
        repeat options1,
        i32 As,
        // @lengthOf(
        string stringy @lengthOf(leftPad) `{ , }`,
        //
    },
    char[10] x,
}

root packet As {
    @tag(00)
    // `tick` ""quote"" 'q'
    repeat string i64_,
}// " ++ [27880; 37322]%N)).
Eval vm_compute in ("<<<M1314>>>" ++ check (runes_of_ascii "MetaData i64_ { i32 lengthOf
,} options { Header = ' '
    ; MetaDataX = int16 }options { len =' ' ; f32a
    // @lengthOf(
    = ' '
    ;packetx	=
char[
0123456789  ] rootA= 00 ;
body =
true; } packet x {Z9_, @rightPad ( )	@lengthOf( As )
    int64 MetaDataX
@calculatedFrom(
""" ++ [233]%N ++ runes_of_ascii "t" ++ [233]%N ++ runes_of_ascii """
    )
,	Header  @calculatedFrom( ""{,}"")`crlf
line`, @tag(
3) repeat x { match u128 as options1 { ""a\\"" :
    calculatedFrom ,[	007,""\n"", 0 ]	: Z9_, 4294967296 : a1 ,	[
    ""it's"" , ""CRC32"", """ ++ [28040; 24687]%N ++ runes_of_ascii """ // c
,  ""x y""
    ,65535, 7 ,10,//x
007
    // `tick` ""quote"" 'q'
    ]
    :Z9_ , [ """"
, 3 ] :x_y_z,
}
    , f64 repeatCount@lengthOf( A)  `tab	here`
, // packet A { u8 x, }
charz `
`
// " ++ [27880; 37322]%N ++ runes_of_ascii "
// 50% %s
,} ,
@calculatedFrom( ""{,}""
    )
// 50% %s
// trailing space 
@tag(
    // @lengthOf(
    1
//	t
//	t
) char[]Header ,	@lengthOf(falsey )
    char[] Header ,} packet
    // packet A { u8 x, }
    a1 {
@calculatedFrom( ""CRC32"")uint16
    A, int8 packetx
    @calculatedFrom( ""\n""
), T
@calculatedFrom( ""// no comment""
) , repeat char[
3 ] // @lengthOf(
calculatedFrom , }
")).
Eval vm_compute in ("<<<M4139>>>" ++ check (runes_of_ascii "  packet packetx  {

}	MetaData	u128
{

}  MetaData 
calculatedFrom 	 // 50% %s
{ repeatCount

    Packet

    ,a1
    rootA
`{ , }`

    , float64

    rootA `" ++ [28040; 24687; 31867; 22411]%N ++ runes_of_ascii "`
, 
u
	trueish
    //
    //	t

`100% of %d`
    ,
	As

    i8i8 , 	 // " ++ [128512]%N ++ runes_of_ascii " emoji
	  }

    //x
  packet  a1{  // " ++ [128512]%N ++ runes_of_ascii " emoji
	@lengthOf(
packetx  )
A @lengthOf( T ) `" ++ [233]%N ++ runes_of_ascii "`
    ,	repeat  i32 
rootA
`" ++ [233]%N ++ runes_of_ascii "`

, 	 //x
  repeat
	u16 	 // trailing space 
  metadata
	,@calculatedFrom( ""x y"" )
@leftPad	( '0'
)
	repeat zchar[ 255 ]	matchKey, // a // b
	match rootA

as
u128 {
[	7  ,
	""1"" , 
""{,}""  ,	""packet"" ,
	3 
]	:u, """ ++ [233]%N ++ runes_of_ascii "t" ++ [233]%N ++ runes_of_ascii """ 
: 
tag 
	    /// triple
    // " ++ [27880; 37322]%N ++ runes_of_ascii "

00

:
    T 
, 10
	:

    leftPad
,

""x y"" : options1 ,
// packet A { u8 x, }
  //
	}
	,

    @calculatedFrom(
""packet""

)
match
As
	as
    len

    {4294967296
	: trueish 
,42  : 	 // trailing space 
lengthOf
	, } ,
    @tag( 
1 )string
    _x	@lengthOf(
    string_ )
    ,  char[]  BodyLength@lengthOf(  int

    )	`100% of %d`

,  i8
pack ,	}")).
Eval vm_compute in ("<<<M3540>>>" ++ check (runes_of_ascii "// top
options // c0a
  // c0b
{ // c1a
  // c1b
StringPrefixLenType = // c3a
  // c3b
u32 ; // c5a
  // c5b
FixedStringPadFromLeft // c6
= // c7a
  // c7b
false ;
    // c9
} // c10
packet // c11
Logout
    // c12
{ // c13
f64 Flags // c15a
  // c15b
, // c16a
  // c16b
repeat // c17a
  // c17b
InTail1 // c18a
  // c18b
{ // c19
int32 // c20a
  // c20b
Flags // c21a
  // c21b
, // c22a
  // c22b
zchar[ // c23a
  // c23b
1
    // c24
] // c25a
  // c25b
tag7 , } // c28a
  // c28b
, // c29
repeat // c30
string
    // c31
x // c32a
  // c32b
, // c33a
  // c33b
} root // c35a
  // c35b
packet Trade { repeat f32 // c40a
  // c40b
Acct // c41a
  // c41b
, // c42
InTail62
    // c43
{ // c44
u32 // c45a
  // c45b
Qty // c46
, zchar[ // c48
1 // c49a
  // c49b
]
    // c50
x // c51a
  // c51b
, } // c53a
  // c53b
, // c54
repeat // c55
string Side2
    // c57
, // c58
u16 // c59
Ref // c60
, // c61a
  // c61b
} // c62a
  // c62b
")).
Eval vm_compute in ("<<<M4554>>>" ++ check (runes_of_ascii "// top
  packet 
	// c0
stringy// c1a

// c1b
		{ 	 // c2
	BodyLength	// c3a
// c3b

`crlf
line` // c4
  , 
// c5
  @calculatedFrom(
    // c6
	""`tick`"" 
	    // c7

) 
	// c8
	zchar[ 
	    // c9
    007 	 // c10
  ]// c11
  Header // c12a
// c12b

, 

    // c13
		@lengthOf( body	) // c16a
  // c16b
    zchar[ 42
        // c18
  ]  // c19
	pack // c20a
    // c20b

,} 
    // c22
    packet // c23
Z9_	// c24
		{
	// c25
    @lengthOf( 	 // c26a
	  // c26b

i64_// c27
  	) // c28
  char[// c29

255

    // c30
	] 	 // c31
  	u // c32a
	// c32b
  `u8 x,` 
,  // c34a
  // c34b
    @lengthOf(	MetaDataX	// c36a
// c36b
		)	// c37a

// c37b

	@calculatedFrom( 
    // c38
	  ""\n"" 
// c39
  	) 	 // c40

  float32 
	// c41
    Z9_// c42
,// c43a
      // c43b
		} options 
// c45

{ 
	    // c46
  _x// c47
	=// c48
	""it's""	;  // c50
}	// c51a

// c51b
 
")).
Eval vm_compute in ("<<<M975>>>" ++ check (runes_of_ascii "root packet int { uint64 BodyLength  `{ , }` ,} packet uint8x{repeat stringy , }
root packet /// triple
zchar { string Pad// trailing space 
@calculatedFrom( ""it's"" ) `crlf
line` , }
/// triple
// packet A { u8 x, }
options
    // c
    { }root packet Packet{ repeat	a1 `{ , }` ,@calculatedFrom(
""" ++ [28040; 24687]%N ++ runes_of_ascii """ ) char  calculatedFrom  ,zchar[  00 ] string_ ,
@calculatedFrom( ""CRC32"" )repeat	char[ 3] o // @lengthOf(
`// not a comment`
    , i64 u128	,	i16
packetx
@lengthOf(
falsey
    ) `` , @leftPad	(
    '\x00'  )
    // @lengthOf(
    float64 // @lengthOf(
stringy`" ++ [28040; 24687; 31867; 22411]%N ++ runes_of_ascii "` ,
@tag( 10 )
// c
// @lengthOf(
@calculatedFrom(	""\" ++ [233]%N ++ runes_of_ascii """)	@leftPad ( // `tick` ""quote"" 'q'
' ' ) i32
MetaDataX `" ++ [28040; 24687; 31867; 22411]%N ++ runes_of_ascii "` //
, a1{ match stringy as
Logon {""\" ++ [233]%N ++ runes_of_ascii """ :  T ,
    42
:int	[ ""\" ++ [233]%N ++ runes_of_ascii """// " ++ [27880; 37322]%N ++ runes_of_ascii "
]
: Foo ,
00 : pack ,
    // @lengthOf(
    3 :float//	t
,// c
""" ++ [128512]%N ++ runes_of_ascii """	:	float// c
,}
,
    } , }
")).
Eval vm_compute in ("<<<M3789>>>" ++ check (runes_of_ascii "root packet chars {
    match i64_ as MetaDataX {
        007 : float,
        // trailing space 
        ""a\\"" : leftPad,
        [255, ""x y"", 4294967296, 0, 3] : Packet,
        [""" ++ [128512]%N ++ runes_of_ascii """] : body,
        """ ++ [28040; 24687]%N ++ runes_of_ascii """ : Z9_,
    },
    @calculatedFrom(""abc"")
    @rightPad('0')
    match Z9_ as u128 {
        255 : Header,
    },
    repeat zchar[255] leftPad,
    @tag(255)
    u8 zchar `a\`,
}

packet As {
    @tag(00)
    MetaDataX BodyLength,
    i64 trueish,
    repeat o {
        i8 options1 @lengthOf(BodyLength),
    },
    @lengthOf(Z9_)
    @rightPad()
    @calculatedFrom(""packet"")
    float @lengthOf(x) `line1
    line2`,
}

/// triple
root packet T {
    crc `" ++ [233]%N ++ runes_of_ascii "`,
    match options1 as x {
        7 : int,
        """" : calculatedFrom,
        [""it's""] : packetx,
        7 : u128,
    },
    repeat crc,
}")).
Eval vm_compute in ("<<<M3725>>>" ++ check (runes_of_ascii "root packet metadata {
    i32 lengthOf @calculatedFrom(""1"") `line1
    line2`,
    repeat calculatedFrom int,
    repeat u rootA,// c
    @tag(0)
    // trailing space 
    repeat matchKey `say ""hi""`,// c
}

packet metadata {
    MetaDataX {
        f64 stringy @lengthOf(metadata) `it's`,
        //x
        char[0123456789] repeatCount @calculatedFrom(""`tick`""),
        repeat zchar[0] x_y_z `say ""hi""`,
        char i64_,
    },
    repeat char[10] trueish,
    match roots as charz {
        """ ++ [28040; 24687]%N ++ runes_of_ascii """ : i8i8,
        [
            4294967296, 00, 255, ""\n"", ""x y"",
            10, 0
        ] : trueish,
        [""\" ++ [233]%N ++ runes_of_ascii """, 7] : i64_,
        // packet A { u8 x, }
        // " ++ [27880; 37322]%N ++ runes_of_ascii "
        [""\n""] : body,
        [""""] : asx,
        [7, 1] : Z9_,
    },
    repeat int16 stringy,
}")).
Eval vm_compute in ("<<<M539>>>" ++ check (runes_of_ascii "  packet rootA	{ @tag(
    10 )match packetx // packet A { u8 x, }
as
    leftPad
{
7 : x //
,""abc""  : leftPad  ,""x y"" :
Z9_ // 50% %s
""""
    // @lengthOf(
    : Foo	, }, repeat u64 u ,
    repeat Packet
{
f32
uint8x ,repeat Packet
`{ , }`
,
repeat int16 chars`doc`// " ++ [128512]%N ++ runes_of_ascii " emoji
, } ,
} root packet//
x { @lengthOf( calculatedFrom
    // packet A { u8 x, }
    )char[] falsey @lengthOf(
    asx
    ) , match  x_y_z as
charz
{
""\n"" :
    trueish , ""// no comment"" :u128 , 0123456789 : Pad
    ,
} ,
// trailing space 
// c
repeatCount @lengthOf( i8i8
/// triple
//x
) ,  calculatedFrom
    @calculatedFrom(
    // c
    """ ++ [233]%N ++ runes_of_ascii "t" ++ [233]%N ++ runes_of_ascii """),}
options
{ body= true ; f32a  = 0123456789 len
=""{,}"";
}  options
    {}
MetaData
    //x
    Logon{ }
")).
Eval vm_compute in ("<<<M688>>>" ++ check (runes_of_ascii "packet uint8x { i16 T // c
`say ""hi""` ,
@tag( 007 ) zchar[
//	t
// packet A { u8 x, }
42]roots ``
, match uint8x // packet A { u8 x, }
as tag { 10 : T/// triple
,
007 :int  ,
    ""\" ++ [233]%N ++ runes_of_ascii """: charz
    // @lengthOf(
    [
255 , ""it's"",
    255 , //
7 , ""a\\"" , """ ++ [28040; 24687]%N ++ runes_of_ascii """] :
Pad [ ""// no comment""
]
    : matchKey
,} ,
@rightPad ('\x00'
)repeat u8x { repeat  i16	x_y_z ,  u8 calculatedFrom , x
// trailing space 
// a // b
u128// c
,body,} ,	i32	Logon@calculatedFrom(
    ""`tick`"" )  ,repeat crc,	u ,@calculatedFrom(
    """")
float64
    i8i8 , @tag( 42
)
@lengthOf(Z9_ )
@tag(
00
    ) Logon
// " ++ [27880; 37322]%N ++ runes_of_ascii "
//x
metadata , float64 packetx ,} packet int
{
    }MetaData	trueish
{
    u32 leftPad  , // @lengthOf(
}
")).
Eval vm_compute in ("<<<M632>>>" ++ check (runes_of_ascii "
packet MetaDataX { @lengthOf( crc // " ++ [128512]%N ++ runes_of_ascii " emoji
)
    //
    match
    u128 as float{ ""a	b"" :
Header,[3 ] : zchar ,00 // trailing space 
: leftPad ,// packet A { u8 x, }
""" ++ [233]%N ++ runes_of_ascii "t" ++ [233]%N ++ runes_of_ascii """ : repeatCount 42 :  A} // " ++ [128512]%N ++ runes_of_ascii " emoji
, //	t
}packet
options1
{ match u128 as tag {
7	: chars
// a // b
//	t
, // " ++ [27880; 37322]%N ++ runes_of_ascii "
42 : options1,255 :x ,
255
:chars , // trailing space 
[// a // b
""" ++ [28040; 24687]%N ++ runes_of_ascii """ ]:
stringy	,	} , char[] stringy @calculatedFrom( ""// no comment"" )
    ,
uint16
string_`crlf
line`	,
    // c
    }
root packet	trueish{ @lengthOf( matchKey //
)
    @lengthOf( T // packet A { u8 x, }
)
repeat char[]
u
, @lengthOf( A ) zchar[ 00
    ] chars
@lengthOf(
    T ) // " ++ [27880; 37322]%N ++ runes_of_ascii "
`" ++ [28040; 24687; 31867; 22411]%N ++ runes_of_ascii "`  , }
")).
Eval vm_compute in ("<<<M3758>>>" ++ check (runes_of_ascii "options{ a1
=
false	; } 
packet
tag {@tag(	3
)i8 chars 
, }
	options {
    Foo

    = // packet A { u8 x, }
int8 ; }

    packet  // `tick` ""quote"" 'q'

	uint8x  {

float64 i64_
@calculatedFrom(
    ""\n""
	)

    ,
@rightPad (

    )zchar[  0]
    string_ , match  // 50% %s
    	x	/// triple
    as metadata 
    // @lengthOf(
    {
42	:u128 
,
	[ ""`tick`""
	, 10
    ]
:
    tag
	""CRC32"" : x

    , ""{,}""	:
	matchKey ,
    }
    ,}
    packet

roots
{ 
@rightPad ( 
'0'
)
uint32 
u8x 
@calculatedFrom(// `tick` ""quote"" 'q'
	""abc"" )

    , 
match 
    // `tick` ""quote"" 'q'
    // c
	  i8i8  as
i64_
    {0	:
T  ,  } , 
}")).
Eval vm_compute in ("<<<M102>>>" ++ check (runes_of_ascii "root packet repeatCount{ // trailing space 
@lengthOf(
    /// triple
    i8i8) char[
00] u
    `say ""hi""` ,
u32
    metadata ,char[ 10 ]i64_ @lengthOf(
    Packet )
,
repeat
char[ 0123456789] /// triple
float ,@calculatedFrom( ""it's""
) u8 x @calculatedFrom( ""CRC32"" ) ,
    } packet matchKey{ } packet As { } packet chars
{// " ++ [128512]%N ++ runes_of_ascii " emoji
@lengthOf(Packet ) char[]  Header @calculatedFrom( """" ) , Packet Pad
`say ""hi""` ,MetaDataX @lengthOf(options1 ) , char[ 10	]T//	t
@calculatedFrom(
    ""1""
    //x
    )
, // a // b
@tag(
0
) char[ 255 ]
    // packet A { u8 x, }
    lengthOf
    @calculatedFrom( ""a\""b"" ) ,
}")).
Eval vm_compute in ("<<<M852>>>" ++ check (runes_of_ascii "packet uint8x { @lengthOf(
    i64_ ) repeat string T , } packet u128{ stringy Logon `" ++ [233]%N ++ runes_of_ascii "`,@rightPad // trailing space 
(
    ' '
)
Pad { zchar[ 7]Logon
    @calculatedFrom(""" ++ [28040; 24687]%N ++ runes_of_ascii """ ), } ,
match
rootA
as
A{ [ //x
""CRC32""
, 4294967296
,	""packet"",
""{,}""
    ] : zchar
""1""
: u
    // " ++ [27880; 37322]%N ++ runes_of_ascii "
    42 :o """ ++ [28040; 24687]%N ++ runes_of_ascii """
:lengthOf//
,
    }, repeat zchar[
0123456789 ] BodyLength  ,  @tag( 65535 )@tag( 007)
//	t
//x
@tag( /// triple
1
    ) packetx As , } MetaData
    BodyLength { asx len ,int len
`tab	here`, int64 MetaDataX
    `it's` ,_x
_x  ,
    string
stringy`tab	here`// packet A { u8 x, }
,
}")).
Eval vm_compute in ("<<<M1040>>>" ++ check (runes_of_ascii "// @lengthOf(
MetaData // trailing space 
o { Z9_
Logon
    `// not a comment` , }root packet body {x `100% of %d` , Foo
{ match a1 as
    //
    a1 { 1
:
charz
, 10: trueish , ""abc"" : i8i8 ,
    ""a\""b"" : int,
""" ++ [28040; 24687]%N ++ runes_of_ascii """
    : // `tick` ""quote"" 'q'
a1
} , } ,
match x_y_z as a1
{	10
:
repeatCount, } , match pack
    // a // b
    as
    BodyLength{	""a\\"":
// trailing space 
/// triple
options1 255 :
    Z9_
, [ """ ++ [233]%N ++ runes_of_ascii "t" ++ [233]%N ++ runes_of_ascii """ ]
    : i64_
,
// c
// 50% %s
""abc"" : u128 ,""abc""  : Z9_  ,}
, o
@lengthOf( i64_
    ) , char[ 007
]trueish
    @lengthOf(
leftPad ), }
")).
Eval vm_compute in ("<<<M338>>>" ++ check (runes_of_ascii "
options{ T  =char[] //x
; }root packet	repeatCount	{ @lengthOf( BodyLength )
repeat
    char[ 3
    ] Pad`u8 x,` , zchar[42 ] u @lengthOf(	float  ) `doc`, f32 metadata	`" ++ [28040; 24687; 31867; 22411]%N ++ runes_of_ascii "`
, repeat uint64 matchKey ,
match i64_ as calculatedFrom {""`tick`"" :i64_ ,}	, @leftPad ( )// c
u64 MetaDataX	@lengthOf(
rootA),metadata @calculatedFrom( // 50% %s
""it's""
)
    // c
    , T{ char[]asx @lengthOf(lengthOf  )
    ,}
,
// `tick` ""quote"" 'q'
/// triple
@leftPad ( ) len
    packetx `say ""hi""` ,
    // `tick` ""quote"" 'q'
    } // `tick` ""quote"" 'q'")).
Eval vm_compute in ("<<<M3506>>>" ++ check (runes_of_ascii "options { // c1
FixedStringPadChar
    // c2
= '0' // c4a
  // c4b
; }
    // c6
packet Q
    // c8
{ // c9a
  // c9b
zchar[
    // c10
4 ] z
    // c13
,
    // c14
@rightPad // c15
( // c16
'\x00'
    // c17
) char[ 3
    // c20
] // c21
n // c22a
  // c22b
, // c23a
  // c23b
char[ // c24
5 // c25
] // c26
d ,
    // c28
} root // c30
packet R // c32
{
    // c33
Q // c34a
  // c34b
, // c35
zchar[ 8 // c37
] // c38
top ,
    // c40
repeat
    // c41
zchar[ 2 ]
    // c44
zs // c45a
  // c45b
,
    // c46
} // c47
")).
Eval vm_compute in ("<<<M496>>>" ++ check (runes_of_ascii "
packet Logon
    // c
    { @lengthOf(  body
    )repeat i8i8 `two words`
, repeat
chars
Pad,	repeat	a1
//	t
//
{trueish
    x`
`
,
},
@lengthOf( Header
) lengthOf BodyLength `u8 x,` ,	repeat
char[ 007] packetx , @lengthOf(f32a )
match crc as
stringy { [""a	b"" ,"""" ,
""a	b"" , 1,
    255] :matchKey ,
    } , repeat string
tag ,  @lengthOf( int
)  @rightPad (	) @lengthOf(
leftPad
    )
    char[]
    T @lengthOf( int	) `{ , }` ,
    } packet u8x{ repeat char[] // @lengthOf(
stringy,
}
")).
Eval vm_compute in ("<<<M3255>>>" ++ check (runes_of_ascii "// top
MetaData
    // c0
body
    // c1
{
    // c2
}
    // c3
root
    // c4
packet
    // c5
chars
    // c6
{
    // c7
@lengthOf(
    // c8
i64_
    // c9
)
    // c10
chars
    // c11
,
    // c12
i8i8
    // c13
{
    // c14
falsey
    // c15
@lengthOf(
    // c16
stringy
    // c17
)
    // c18
``
    // c19
,
    // c20
}
    // c21
,
    // c22
x
    // c23
@lengthOf(
    // c24
A
    // c25
)
    // c26
`tab	here`
    // c27
,
    // c28
}
    // c29
")).
Eval vm_compute in ("<<<M577>>>" ++ check (runes_of_ascii "packet As	{
repeat // trailing space 
trueish Logon  `crlf
line`, @lengthOf(
stringy
    )  i8i8 // " ++ [128512]%N ++ runes_of_ascii " emoji
{ u16 MetaDataX `line1
line2`, string matchKey ,  }
, @calculatedFrom( // " ++ [27880; 37322]%N ++ runes_of_ascii "
""it's"" )
    // " ++ [128512]%N ++ runes_of_ascii " emoji
    string falsey @calculatedFrom( """" )
,  char
    // c
    zchar
,repeat	len	calculatedFrom `it's` , @lengthOf( // a // b
asx  ) f64
    u128
,leftPad calculatedFrom //
`say ""hi""`, }packet packetx { @tag( 42 )  char[ 255 ] len , }
")).
Eval vm_compute in ("<<<M3527>>>" ++ check (runes_of_ascii "packet u128 // c1
{ u8 // c3a
  // c3b
a
    // c4
, } // c6a
  // c6b
root
    // c7
packet
    // c8
Msg
    // c9
{ // c10a
  // c10b
u8 k // c12a
  // c12b
, u24 { // c15
u8
    // c16
Hi , // c18a
  // c18b
u16 // c19
Lo // c20a
  // c20b
, } , // c23
repeat // c24a
  // c24b
i24 { u32 q // c28
, // c29
}
    // c30
, // c31
u128 // c32
, u16 float32x // c35
, // c36a
  // c36b
string s // c38a
  // c38b
, // c39
} // c40
")).
Eval vm_compute in ("<<<M128>>>" ++ check (runes_of_ascii "root packet
Z9_ //	t
{
// packet A { u8 x, }
//x
x_y_z, // 50% %s
@calculatedFrom( ""a	b""
)
u128 { // a // b
lengthOf
    @calculatedFrom(	""// no comment"" ), roots lengthOf, repeat Header Z9_
    , } , }
options // @lengthOf(
{
    f32a =
""a\""b""Packet
    = false // `tick` ""quote"" 'q'
; Foo =
false
    ;}
options // 50% %s
{// a // b
o
= 10
    // a // b
    options1 =
true Foo
= """ ++ [28040; 24687]%N ++ runes_of_ascii """  ;x =
    char[] ; }
")).
Eval vm_compute in ("<<<M3703>>>" ++ check (runes_of_ascii "options {
    packetx = 0
    metadata = char[0123456789]
    As = 42;
    msg_type = '0';
}

options {
    body = ""packet"";
    metadata = false;
    chars = 42
    falsey = 42
}

packet body {
    @leftPad('\x00')
    leftPad @lengthOf(repeatCount),
}

MetaData _x {
    uint16 lengthOf `100% of %d`,
    crc T,
    uint32 Pad `
        `,
    u64 msg_type,
    string_ u128,
    zchar[4294967296] _x,
}")).
Eval vm_compute in ("<<<M4049>>>" ++ check (runes_of_ascii "

  options { Header
    =
float32 ;
    charz=
	true

    ;
    falsey  = 
	// a // b

	// 50% %s

""// no comment""

len
	= 	 // @lengthOf(

' ' 
A
	=	true;

    }packet

    i64_

    {  repeat

string
	float

`" ++ [233]%N ++ runes_of_ascii "`// a // b
,f64 T	@lengthOf(chars // packet A { u8 x, }
    )  `100% of %d` ,  msg_type
@lengthOf(
    calculatedFrom
)
    `{ , }`  
  // " ++ [128512]%N ++ runes_of_ascii " emoji
  // " ++ [27880; 37322]%N ++ runes_of_ascii "

,
}

")).
Eval vm_compute in ("<<<M202>>>" ++ check (runes_of_ascii "//	t
options
// c
// a // b
{ leftPad
=	' ' ;
    // " ++ [27880; 37322]%N ++ runes_of_ascii "
    len= false ;
lengthOf =char[ 7 ]  ;// c
matchKey
    =' '  ; roots  =false ; }// packet A { u8 x, }
packet Logon
{
} MetaData zchar{ int64// 50% %s
zchar , char[ 4294967296 ] zchar ,chars Foo `` ,// `tick` ""quote"" 'q'
zchar[ 0123456789
    ]rootA	, a1 body ,
// trailing space 
//x
i16 matchKey	`100% of %d`,}

")).
Eval vm_compute in ("<<<M596>>>" ++ check (runes_of_ascii "
packet zchar
{ string uint8x  @calculatedFrom( ""a\\"" ),
@rightPad (
    // " ++ [27880; 37322]%N ++ runes_of_ascii "
    ) match zchar as
T
    { 65535
    : f32a[ ""1"",
    1
,
    007
]: calculatedFrom , ""\" ++ [233]%N ++ runes_of_ascii """  :
metadata // a // b
, 0123456789 : x
    // 50% %s
    ,3  :trueish } ,  char[
42] o@lengthOf(
_x ) , @lengthOf(	BodyLength
) @lengthOf( a1 )repeat char[]	Packet `100% of %d`,}
")).
Eval vm_compute in ("<<<M4410>>>" ++ check (runes_of_ascii "options {
    StringPrefixLenType = u32;
    FixedStringPadFromLeft = false;
}

packet Logout {
    f64 Flags,
    repeat InTail1 {
        int32 Flags,
        zchar[1] tag7,
    },
    repeat string x,
}

root packet Trade {
    repeat f32 Acct,
    InTail62 {
        u32 Qty,
        zchar[1] x,
    },
    repeat string Side2,
    u16 Ref,
}")).
Eval vm_compute in ("<<<M736>>>" ++ check (runes_of_ascii "packet falsey{
    // @lengthOf(
    @rightPad  (' ')int
a1 ,@calculatedFrom( ""packet""  )
@lengthOf(lengthOf
)
repeat
uint64 Logon,
char[ 3] T`crlf
line`
/// triple
// " ++ [128512]%N ++ runes_of_ascii " emoji
,
@rightPad ( )
@tag(
    255)
@lengthOf( BodyLength )repeat char[
007] asx ,
    repeat _x Pad `a\` ,int16
//
//	t
asx ``, char uint8x
    `doc` ,}")).
Eval vm_compute in ("<<<M394>>>" ++ check (runes_of_ascii "packet float { zchar[ 3] crc,
repeat zchar[ 10 ]
// trailing space 
//x
options1, repeat
Foo T , // " ++ [27880; 37322]%N ++ runes_of_ascii "
@calculatedFrom(
    ""CRC32"" ) @calculatedFrom( """ ++ [233]%N ++ runes_of_ascii "t" ++ [233]%N ++ runes_of_ascii """)
@tag(4294967296)  repeat uint8x _x ,
@rightPad ( ) string
    // trailing space 
    rootA ,zchar[ // trailing space 
255
]lengthOf	@lengthOf( falsey
) ,}")).
Eval vm_compute in ("<<<M3798>>>" ++ check (runes_of_ascii "MetaData lengthOf {
    i16 asx,
    msg_type rootA `it's`,
}

root packet packetx {
    @tag(1)
    uint32 options1 @calculatedFrom(""" ++ [28040; 24687]%N ++ runes_of_ascii """),
    @tag(10)
    lengthOf stringy `" ++ [28040; 24687; 31867; 22411]%N ++ runes_of_ascii "`,
    u16 x_y_z `100% of %d`,
    /// triple
    char[] Foo,
}

options {
    x = '0'
    lengthOf = ' '
    i64_ = uint8
}")).
Eval vm_compute in ("<<<M825>>>" ++ check (runes_of_ascii "// trailing space 
root packet Z9_{ u8x
    , match
// trailing space 
// c
crc
// " ++ [128512]%N ++ runes_of_ascii " emoji
// a // b
as T
//	t
// 50% %s
{
    [
""a	b""
,007 ] :	leftPad, 7:
stringy
    ,} ,@leftPad(
    '0'	) @lengthOf(
    trueish) packetx trueish `" ++ [233]%N ++ runes_of_ascii "`
, }
packet msg_type	{
    char[ 0 ]repeatCount , } 	 ")).
Eval vm_compute in ("<<<M603>>>" ++ check (runes_of_ascii "
options { u128 = u32 ;Z9_
=""`tick`"" trueish= ""`tick`"" ;
    // @lengthOf(
    tag
    = '0'
} options
    { metadata = ""a	b"" ;
packetx =//	t
'\x00' // " ++ [128512]%N ++ runes_of_ascii " emoji
} options {charz
    = 65535}
options {
    msg_type // trailing space 
=zchar[
10 ] ;
    asx	= false
    tag
= char[] ;
}")).
Eval vm_compute in ("<<<M349>>>" ++ check (runes_of_ascii "packet  chars	{
    string_ {  repeat
    zchar { match u128 as A
// `tick` ""quote"" 'q'
//
{42 :pack
    ,
} ,// " ++ [27880; 37322]%N ++ runes_of_ascii "
int64 u128 // trailing space 
, repeatCount `it's` ,
    a1 Z9_
//
// trailing space 
,
// packet A { u8 x, }
/// triple
} ,
matchKey @calculatedFrom(	""1""
) ,} ,	}
")).
Eval vm_compute in ("<<<M2042>>>" ++ check (runes_of_ascii "packet	packetx { // trailing space 
x_y_z
{
string
charz ,
string x// @lengthOf(
`two words`
    ,  u8x { // `tick` ""quote"" 'q'
charz `100% of %d` // packet A { u8 x, }
,}// " ++ [27880; 37322]%N ++ runes_of_ascii "
,} , }
    // a // b
    packet metadata {  @leftPad ( '0'< ) repeat i32 options1 ,u64 uint8x , }
")).
Eval vm_compute in ("<<<M1943>>>" ++ check (runes_of_ascii "packet	packetx { // trailing space 
x_y_z
{
string
charz ,
string x// @lengthOf(
`two words`
    ,  u8x { // `tick` ""quote"" 'q'
charz `100% of %d` // packet A { u8 x, }
,}// " ++ [27880; 37322]%N ++ runes_of_ascii "
,, } }
    // a // b
    packet metadata {  @leftPad ( '0') repeat i32 options1 ,u64 uint8x , }
")).
Eval vm_compute in ("<<<M1941>>>" ++ check (runes_of_ascii "packet	packetx { // trailing space 
x_y_z
{
string
charz ,
string x// @lengthOf(
`two words`
    ,  u8x { // `tick` ""quote"" 'q'
charz `100% of %d` // packet A { u8 x, }
,}// " ++ [27880; 37322]%N ++ runes_of_ascii "
, , }
    // a // b
    packet metadata {  @leftPad ( '0') repeat i32 options1 ,u64 uint8x , }
")).
Eval vm_compute in ("<<<M900>>>" ++ check (runes_of_ascii "packet BodyLength{ i8 asx `100% of %d`
    ,	repeat len { f64	o//x
@lengthOf( Z9_ ) `a\` , float64
    tag,} , @leftPad(
    '\x00' ) zchar,
    i32
Z9_ , @tag( 0) char[ 0	]
_x
    `
`, chars `doc`, @rightPad // `tick` ""quote"" 'q'
( '\x00') zchar[  7 ] u8x
,f32
    f32a, }")).
Eval vm_compute in ("<<<M1961>>>" ++ check (runes_of_ascii "packet	packetx { // trailing space 
x_y_z
{
string
charz ,
string x// @lengthOf(
`two words`
    ,  u8x { // `tick` ""quote"" 'q'
charz `100% of %d` // packet A { u8 x, }
,}// " ++ [27880; 37322]%N ++ runes_of_ascii "
,} , }
    // a // b
    packet  {  @leftPad ( '0') repeat i32 options1 ,u64 uint8x , }
")).
Eval vm_compute in ("<<<M2020>>>" ++ check (runes_of_ascii "packet	packetx { // trailing space 
x_y_z
{
string
charz ,
string x// @lengthOf(
`two words`
    ,  u8x { // `tick` ""quote"" 'q'
charz `100% of %d` // packet A { u8 x, }
,}// " ++ [27880; 37322]%N ++ runes_of_ascii "
,} , }
    // a // b
    packet metadata {  @leftPad ( '0') repeat i32 options1 ,u64")).
Eval vm_compute in ("<<<M65>>>" ++ check (runes_of_ascii "packet i64_ {
    match stringy as
    body { ""\n""
:
rootA  , ""\" ++ [233]%N ++ runes_of_ascii """ : zchar 3:A
[ """ ++ [128512]%N ++ runes_of_ascii """
, 1	,
""" ++ [233]%N ++ runes_of_ascii "t" ++ [233]%N ++ runes_of_ascii """ ,
255
    , 0123456789
, 007
] : pack
    , 3 // trailing space 
: tag,
[
""" ++ [128512]%N ++ runes_of_ascii """ , 1 // " ++ [128512]%N ++ runes_of_ascii " emoji
,
""a	b"" , ""packet"" ,""a\\"" ,""" ++ [28040; 24687]%N ++ runes_of_ascii """
    ,
10 ] :
    lengthOf
,}
, }
")).
Eval vm_compute in ("<<<M3811>>>" ++ check (runes_of_ascii "packet a1 {
    match Pad as As {
        ""abc"" : falsey,
        00 : _x,
        [""" ++ [28040; 24687]%N ++ runes_of_ascii """, 255] : Packet,
    },
    Z9_ {
        int16 x @calculatedFrom(""1""),
        string asx,
        repeat options1 `two words`,
    },
    Pad `100% of %d`,
    x `" ++ [28040; 24687; 31867; 22411]%N ++ runes_of_ascii "`,
}")).
Eval vm_compute in ("<<<M2141>>>" ++ check (runes_of_ascii "packet// packet A { u8 x, }
repeatCount	{// packet A { u8 x, }
@leftPad ( '\x00'
) repeat u8x MetaDataX `crlf
line`,
    repeat
    char[] MetaDataX
    ,
u64	uint8x""a\""b""@calculatedFrom(
// c
// packet A { u8 x, }
) `tab	here`
,//
}MetaData pack
    {
    }
")).
Eval vm_compute in ("<<<M2089>>>" ++ check (runes_of_ascii "packet// packet A { u8 x, }
repeatCount	{// packet A { u8 x, }
@leftPad ( '\x00'
) repeat  MetaDataX `crlf
line`,
    repeat
    char[] MetaDataX
    ,
u64	uint8x@calculatedFrom(""a\""b""
// c
// packet A { u8 x, }
) `tab	here`
,//
}MetaData pack
    {
    }
")).
Eval vm_compute in ("<<<M1029>>>" ++ check (runes_of_ascii "// trailing space 
options { trueish =
// `tick` ""quote"" 'q'
// packet A { u8 x, }
""it's"";	MetaDataX
// packet A { u8 x, }
// " ++ [27880; 37322]%N ++ runes_of_ascii "
=
// trailing space 
// trailing space 
""// no comment"" ;_x =
//x
//x
false A // " ++ [27880; 37322]%N ++ runes_of_ascii "
= ""a	b""; MetaDataX=
    0123456789 }
//
")).
Eval vm_compute in ("<<<M2119>>>" ++ check (runes_of_ascii "packet// packet A { u8 x, }
repeatCount	{// packet A { u8 x, }
@leftPad ( '\x00'
) repeat u8x MetaDataX `crlf
line`,
    repeat
    char[] 
    ,
u64	uint8x@calculatedFrom(""a\""b""
// c
// packet A { u8 x, }
) `tab	here`
,//
}MetaData pack
    {
    }
")).
Eval vm_compute in ("<<<M1623>>>" ++ check (runes_of_ascii "packet calculatedFrom
{ @calculatedFrom( ""a\\"" ) zchar[ 4294967296 " ++ [0]%N ++ runes_of_ascii " ]
calculatedFrom@lengthOf( pack )	`100% of %d` ,char[]body@calculatedFrom( ""// no comment"" )  ,
@tag( 007) //x
int8
leftPad`it's` , repeat pack
    { repeat char[ 3] body
,},
}")).
Eval vm_compute in ("<<<M1420>>>" ++ check (runes_of_ascii "packet {
calculatedFrom @calculatedFrom( ""a\\"" ) zchar[ 4294967296 ]
calculatedFrom@lengthOf( pack )	`100% of %d` ,char[]body@calculatedFrom( ""// no comment"" )  ,
@tag( 007) //x
int8
leftPad`it's` , repeat pack
    { repeat char[ 3] body
,},
}")).
Eval vm_compute in ("<<<M1590>>>" ++ check (runes_of_ascii "packet calculatedFrom
{ @calculatedFrom( ""a\\"" ) zchar[ 4294967296 ]
calculatedFrom@lengthOf( pack )	`100% of %d` ,char[]body@calculatedFrom( ""// no comment"" )  ,
@tag( 007) //x
int8
leftPad`it's` , repeat pack
    { repeat char[ 3] ,
body},
}")).
Eval vm_compute in ("<<<M3447>>>" ++ check (runes_of_ascii "// top
packet // c0
Inner // c1
{
    // c2
u8
    // c3
a // c4
, }
    // c6
root
    // c7
packet P // c9a
  // c9b
{ // c10
repeat // c11a
  // c11b
Inner
    // c12
items
    // c13
, u8
    // c15
x // c16a
  // c16b
, // c17a
  // c17b
} ")).
Eval vm_compute in ("<<<M4185>>>" ++ check (runes_of_ascii "// a // b

root 
packet
packetx {
	string
	matchKey 
, tag chars
`u8 x,`
    ,  }  MetaData
	Foo{stringy
	len

,	// @lengthOf(
  	float32 matchKey

    ,
	int64 lengthOf	,  }MetaData 
i8i8
    {	char[ 10 
]
body,
	}  // `tick` ""quote"" 'q'")).
Eval vm_compute in ("<<<M2173>>>" ++ check (runes_of_ascii "packet// packet A { u8 x, }
repeatCount	{// packet A { u8 x, }
@leftPad ( '\x00'
) repeat u8x MetaDataX `crlf
line`,
    repeat
    char[] MetaDataX
    ,
u64	uint8x@calculatedFrom(""a\""b""
// c
// packet A { u8 x, }
) `tab	here`
,//
}")).
Eval vm_compute in ("<<<M792>>>" ++ check (runes_of_ascii "root packet trueish {
}
packet  pack{
    char[]
    string_
, }MetaData Logon	{ uint8 body `u8 x,` ,// @lengthOf(
char[
00
]matchKey `// not a comment` , i8i8 Z9_	, packetx MetaDataX
, f64	crc `" ++ [233]%N ++ runes_of_ascii "`
,
    } options {
    }
")).
Eval vm_compute in ("<<<M1965>>>" ++ check (runes_of_ascii "packet	packetx { // trailing space 
x_y_z
{
string
charz ,
string x// @lengthOf(
`two words`
    ,  u8x { // `tick` ""quote"" 'q'
charz `100% of %d` // packet A { u8 x, }
,}// " ++ [27880; 37322]%N ++ runes_of_ascii "
,} , }
    // a // b
    packet")).
Eval vm_compute in ("<<<M1169>>>" ++ check (runes_of_ascii "packet len // c
{
MetaDataX
    ,
    repeat  string_ { int body ,
uint8 chars	,} , repeat// trailing space 
string roots`100% of %d` , } options
{
    } root packet u128 // " ++ [27880; 37322]%N ++ runes_of_ascii "
{ float32 msg_type
    ,}")).
Eval vm_compute in ("<<<M4140>>>" ++ check (runes_of_ascii "
// packet A { u8 x, }
    options {float	= i8 ;int

=uint16 BodyLength=
    '\x00';chars=
	false
}
packet
	msg_type {
    } //	t
    options {

    BodyLength	= false 
Pad

    =string }

")).
Eval vm_compute in ("<<<M3668>>>" ++ check (runes_of_ascii "options {
    i8i8 = true
}

packet Header {
    @lengthOf(f32a)
    // 50% %s
    string Header `
    `,
}

root packet calculatedFrom {
    @rightPad()
    repeat matchKey string_,
}//	t")).
Eval vm_compute in ("<<<M1225>>>" ++ check (runes_of_ascii "packet
    MetaDataX
{
    @lengthOf(	x_y_z) @calculatedFrom(	""`tick`"" )
@tag(255	) // 50% %s
u8 // packet A { u8 x, }
i64_@lengthOf( falsey //	t
) `" ++ [28040; 24687; 31867; 22411]%N ++ runes_of_ascii "`, }
// packet A { u8 x, }
")).
Eval vm_compute in ("<<<M3941>>>" ++ check (runes_of_ascii "

  options
{
    // trailing space 
  // `tick` ""quote"" 'q'

u128 = false;

    Pad
=
    false
	; BodyLength	=char[] 
body=  true

u=
    ' '  }  // packet A { u8 x, }
 
")).
Eval vm_compute in ("<<<M3827>>>" ++ check (runes_of_ascii "MetaData 
    // packet A { u8 x, }

  // " ++ [27880; 37322]%N ++ runes_of_ascii "
msg_type{float32

u128`
`

,	u8x
u8x
	, x uint8x,  o

    Pad// " ++ [27880; 37322]%N ++ runes_of_ascii "
		``
,
    falsey MetaDataX
	`100% of %d`

,	}
")).
Eval vm_compute in ("<<<M4439>>>" ++ check (runes_of_ascii "  packet

falsey {  repeat

leftPad
    { repeat i64_	// " ++ [128512]%N ++ runes_of_ascii " emoji

	pack	`// not a comment`

    // packet A { u8 x, }
    ,

    } 

// " ++ [128512]%N ++ runes_of_ascii " emoji
  // " ++ [27880; 37322]%N ++ runes_of_ascii "
  	,	}
")).
Eval vm_compute in ("<<<M2404>>>" ++ check (runes_of_ascii "
packet MetaDataX
{
    @leftPad
( // a // b
'0'
) i8 i8 u @lengthOf(
MetaDataX
    ) `say ""hi""` ,	} MetaData BodyLength {
    asx
x_y_z `" ++ [233]%N ++ runes_of_ascii "`
, uint64 u128 , }
")).
Eval vm_compute in ("<<<M4522>>>" ++ check (runes_of_ascii "// " ++ [27880; 37322]%N ++ runes_of_ascii "
root packet i8i8 {
    Foo @calculatedFrom(""a\\"") `" ++ [28040; 24687; 31867; 22411]%N ++ runes_of_ascii "`,
}

packet BodyLength {
    @calculatedFrom(""" ++ [28040; 24687]%N ++ runes_of_ascii """)
    @rightPad()
    @tag(42)
    len `it's`,
}")).
Eval vm_compute in ("<<<M2366>>>" ++ check (runes_of_ascii "
packet MetaDataX
{
    @leftPad
( // a // b
'0'
) i8 u @lengthOf(
)
    MetaDataX `say ""hi""` ,	} MetaData BodyLength {
    asx
x_y_z `" ++ [233]%N ++ runes_of_ascii "`
, uint64 u128 , }
")).
Eval vm_compute in ("<<<M1778>>>" ++ check (runes_of_ascii "options { } packet Packet{char[] i64_ ,
@tag(
    255) match
crc as i8i8{""{,}"" : trueish """" : Pad , ""a\\"" :
Foo ,
    1 : :packetx
, """ ++ [128512]%N ++ runes_of_ascii """ : trueish , } , }")).
Eval vm_compute in ("<<<M1689>>>" ++ check (runes_of_ascii "options { } packet Packet{char[] i64_ ,
@tag(
    255 match )
crc as i8i8{""{,}"" : trueish """" : Pad , ""a\\"" :
Foo ,
    1 :packetx
, """ ++ [128512]%N ++ runes_of_ascii """ : trueish , } , }")).
Eval vm_compute in ("<<<M1709>>>" ++ check (runes_of_ascii "options { } packet Packet{char[] i64_ ,
@tag(
    255) match
crc as {i8i8""{,}"" : trueish """" : Pad , ""a\\"" :
Foo ,
    1 :packetx
, """ ++ [128512]%N ++ runes_of_ascii """ : trueish , } , }")).
Eval vm_compute in ("<<<M4425>>>" ++ check (runes_of_ascii "MetaData MetaDataX {
    tag Pad `{ , }`,
    zchar[255] stringy `crlf
    line`,
    string packetx `crlf
    line`,
    i32 o,
    char[1] uint8x,//
}")).
Eval vm_compute in ("<<<M4018>>>" ++ check (runes_of_ascii "MetaData 
metadata{  }

MetaData
rootA 
{ i8
	i64_,

    roots options1

    `a\`
, 
lengthOf Header

,
	Z9_
Foo  ,  int16
	BodyLength
, } 
// c
 
")).
Eval vm_compute in ("<<<M2362>>>" ++ check (runes_of_ascii "
packet MetaDataX
{
    @leftPad
( // a // b
'0'
) i8 u @lengthOf(
MetaDataX
    ) `say ""hi""` ,	} MetaData BodyLength {
    asx
x_y_z `" ++ [233]%N ++ runes_of_ascii "`
,  u128 , }
")).
Eval vm_compute in ("<<<M1652>>>" ++ check (runes_of_ascii "options { } packet {char[] i64_ ,
@tag(
    255) match
crc as i8i8{""{,}"" : trueish """" : Pad , ""a\\"" :
Foo ,
    1 :packetx
, """ ++ [128512]%N ++ runes_of_ascii """ : trueish , } , }")).
Eval vm_compute in ("<<<M4255>>>" ++ check (runes_of_ascii "packet A {
    match k as n {
        [
            ""a"", ""bb"", ""c c"", ""d"", ""e"",
            ""f"", ""g"", ""h""
        ] : B,
        2 : C,
    },
}")).
Eval vm_compute in ("<<<M3454>>>" ++ check (runes_of_ascii "  packet  B{ u8

a
    ,  } root

packet

    P {

u8	K	,

u8	L  @lengthOf( Body
)
,

    match
	K as
    Body  {
	1
    : B 
,} ,}
")).
Eval vm_compute in ("<<<M4373>>>" ++ check (runes_of_ascii "

  MetaData
matchKey {o 
Logon
	,

    T 
i64_

    , 
float  u ,
	MetaDataX	lengthOf	`
` 

//	t
	,
i16

o
, a1	chars

    ,} ")).
Eval vm_compute in ("<<<M4215>>>" ++ check (runes_of_ascii "
packet
	As
{ @lengthOf(crc	) 

    // " ++ [128512]%N ++ runes_of_ascii " emoji
	char[
	4294967296
    ]// trailing space 
    u8x  `// not a comment`

    ,
}
")).
Eval vm_compute in ("<<<M4008>>>" ++ check (runes_of_ascii "
packet tag {

    repeat
char[4294967296 
        // 50% %s
    ]zchar

    `` ,

    repeat 
i8i8 
_x  ,} // a // b
 
")).
Eval vm_compute in ("<<<M3282>>>" ++ check (runes_of_ascii "MetaData metadata { } MetaData rootA { i8 i64_ , roots // c
options1 `a\` , lengthOf Header , Z9_ Foo , int16 BodyLength , }")).
Eval vm_compute in ("<<<M4532>>>" ++ check (runes_of_ascii "
options	{ lengthOf// 50% %s
	= true	int  //
  =// c

	""1""
	;
string_  = 

    //x

  false
;  //
msg_type
    = 
""CRC32""}")).
Eval vm_compute in ("<<<M3778>>>" ++ check (runes_of_ascii "MetaData zchar {
    _x charz `crlf
        line`,
    packetx Foo `crlf
        line`,
    char[] A `
        `,
}")).
Eval vm_compute in ("<<<M143>>>" ++ check (runes_of_ascii "options
    {
// `tick` ""quote"" 'q'
/// triple
x// " ++ [128512]%N ++ runes_of_ascii " emoji
=  '\x00';asx = char[ 42 // 50% %s
]
}
// @lengthOf(
")).
Eval vm_compute in ("<<<M3321>>>" ++ check (runes_of_ascii "MetaData float
// c
{ uint8 BodyLength , } MetaData charz { float32 trueish `a\` , i16 metadata `say ""hi""` , }")).
Eval vm_compute in ("<<<M3353>>>" ++ check (runes_of_ascii "MetaData float { uint8 BodyLength , } MetaData charz { float32 trueish `a\` , i16 metadata `say ""hi""` ,
// c
}")).
Eval vm_compute in ("<<<M4272>>>" ++ check (runes_of_ascii "  MetaData
options1
{	len

    chars  // c
	`crlf
line` , charz  Logon	// trailing space 
    `
` , }")).
Eval vm_compute in ("<<<M4003>>>" ++ check (runes_of_ascii "packet matchKey {
}

packet int {
}

MetaData As {
    int16 metadata `100% of %d`,
}// trailing space ")).
Eval vm_compute in ("<<<M3667>>>" ++ check (runes_of_ascii "options {
}

MetaData asx {
    float64 x_y_z,
}

options {
    stringy = '0';// packet A { u8 x, }
}")).
Eval vm_compute in ("<<<M2982>>>" ++ check (runes_of_ascii "packet A {
  match k as n {
    [""a"", ""bb"", 007, ""d"", ""e"", 66, ""g"", ""h"", 9] : B,
    2 : C
  },
}")).
Eval vm_compute in ("<<<M2978>>>" ++ check (runes_of_ascii "packet A {
  match k as n {
    [""a"", 22, ""c c"", 4, ""e"", 66, ""g"", 8, ""i""] : B,
    2 : C
  },
}")).
Eval vm_compute in ("<<<M4101>>>" ++ check (runes_of_ascii "MetaData M {
    u8 x `a
            b
          c`,
    T t `a
            b
          c`,
}")).
Eval vm_compute in ("<<<M2265>>>" ++ check (runes_of_ascii "MetaData _x {string x `// not a comment` , string
i64_ // trailing space 
`a\` ,
    } }
")).
Eval vm_compute in ("<<<M2985>>>" ++ check (runes_of_ascii "packet A {
  match k as n {
    [1, 22, 007, 4, 5, 66, 7, 8, 9, 10] : B,
    2 : C
  },
}")).
Eval vm_compute in ("<<<M2259>>>" ++ check (runes_of_ascii "MetaData _x {string x `// not a comment` , string
i64_ // trailing space 
`a\` 
    }
")).
Eval vm_compute in ("<<<M3663>>>" ++ check (runes_of_ascii "options {
    LittleEndian = true;
}

root packet P {
    repeat char cs,
    u8 x,
}")).
Eval vm_compute in ("<<<M4381>>>" ++ check (runes_of_ascii "  packet

Inner{  u8 a	,

} root
packet 
P

{
    repeat
Inner  items,u8
x
	,
}
")).
Eval vm_compute in ("<<<M4144>>>" ++ check (runes_of_ascii "

  root 
packet
leftPad 	 /// triple

  {}
options 
{ msg_type

=
    """ ++ [233]%N ++ runes_of_ascii "t" ++ [233]%N ++ runes_of_ascii """ }
")).
Eval vm_compute in ("<<<M3023>>>" ++ check (runes_of_ascii "packet A { Inner { match k as n { [1,22,007,4,5,66,7,8,9,10,11,12] : B, }, }, }")).
Eval vm_compute in ("<<<M687>>>" ++ check (runes_of_ascii "MetaData
    matchKey{ }  options{ }
    //
    packet repeatCount
{
    }
")).
Eval vm_compute in ("<<<M3386>>>" ++ check (runes_of_ascii "MetaData _x { f64 charz `tab	here` , } options { BodyLength = // c
""" ++ [233]%N ++ runes_of_ascii "t" ++ [233]%N ++ runes_of_ascii """ ; }")).
Eval vm_compute in ("<<<M2078>>>" ++ check (runes_of_ascii "packet// packet A { u8 x, }
repeatCount	{// packet A { u8 x, }
@leftPad (")).
Eval vm_compute in ("<<<M755>>>" ++ check (runes_of_ascii "MetaData len
// c
/// triple
{char[
7
    ] lengthOf	`100% of %d` , }
")).
Eval vm_compute in ("<<<M3215>>>" ++ check (runes_of_ascii "packet A { match k as n { [ // a
 1 // b
 , // c
 2 ] // d
 : B }, }")).
Eval vm_compute in ("<<<M544>>>" ++ check (runes_of_ascii "packet msg_type{ @lengthOf( asx
    )@leftPad ( '0'
) repeat _x , }")).
Eval vm_compute in ("<<<M3768>>>" ++ check (runes_of_ascii "

  MetaData zchar 
{
zchar[

    3

]
    // c
      Pad
,  } ")).
Eval vm_compute in ("<<<M2889>>>" ++ check (runes_of_ascii "packet A {
  match k as n {
    [1, ""bb""] : B,
    2 : C
  },
}")).
Eval vm_compute in ("<<<M1316>>>" ++ check (runes_of_ascii "MetaData
lengthOf
    {// packet A { u8 x, }
}  options { }")).
Eval vm_compute in ("<<<M117>>>" ++ check (runes_of_ascii "
packet x_y_z { string charz
// trailing space 
// " ++ [27880; 37322]%N ++ runes_of_ascii "
, }")).
Eval vm_compute in ("<<<M3451>>>" ++ check (runes_of_ascii "
root packet	P
{hdr
{
u8
	a

    ,

    }
,u8 x , }")).
Eval vm_compute in ("<<<M4299>>>" ++ check (runes_of_ascii "
packet 
trueish

    { 
}
options
	{ _x
= true;}")).
Eval vm_compute in ("<<<M2319>>>" ++ check (runes_of_ascii "
MetaData Pad{
u32 rootA `line1
line2` , ,
    }
")).
Eval vm_compute in ("<<<M2802>>>" ++ check (runes_of_ascii "char int16 char[] @tag( MetaData false ) as uint8")).
Eval vm_compute in ("<<<M2871>>>" ++ check (runes_of_ascii "@tag( msg_type ; repeat { ' ' i8 false repeat =")).
Eval vm_compute in ("<<<M3905>>>" ++ check (runes_of_ascii "packet MetaDataX {
    uint32 A `say ""hi""`,
}")).
Eval vm_compute in ("<<<M4002>>>" ++ check (runes_of_ascii "  options
{
    asx =

    u8;

    }

")).
Eval vm_compute in ("<<<M75>>>" ++ check (runes_of_ascii "packet len
    {repeat lengthOf `a\` , }")).
Eval vm_compute in ("<<<M2063>>>" ++ check (runes_of_ascii "packet// packet A { u8 x, }
repeatCount")).
Eval vm_compute in ("<<<M2627>>>" ++ check (runes_of_ascii "packet A { match k as n { [] : B }, }")).
Eval vm_compute in ("<<<M467>>>" ++ check (runes_of_ascii "root packet i8i8 {i64
options1 ,
}
")).
Eval vm_compute in ("<<<M2795>>>" ++ check (runes_of_ascii "i64 u16 = , ( i64 root { 007 ""{,}""")).
Eval vm_compute in ("<<<M910>>>" ++ check (runes_of_ascii "MetaData Pad{  } options
    { }")).
Eval vm_compute in ("<<<M3106>>>" ++ check (runes_of_ascii "packet A {
 u8 x `d `, // c 
}")).
Eval vm_compute in ("<<<M4220>>>" ++ check (runes_of_ascii "

  packet
A
{
    x  ,
} ")).
Eval vm_compute in ("<<<M3999>>>" ++ check (runes_of_ascii "packet A {
    char[3] x,
}")).
Eval vm_compute in ("<<<M2598>>>" ++ check (runes_of_ascii "packet A { char[ x ] y, }")).
Eval vm_compute in ("<<<M70>>>" ++ check (runes_of_ascii "
packet BodyLength { }
")).
Eval vm_compute in ("<<<M1427>>>" ++ check (runes_of_ascii "packet calculatedFrom")).
Eval vm_compute in ("<<<M557>>>" ++ check (runes_of_ascii "MetaData
    x
{}
")).
Eval vm_compute in ("<<<M2733>>>" ++ check (runes_of_ascii "3G&lk0;kvRjS8i9uAP")).
Eval vm_compute in ("<<<M3180>>>" ++ check (runes_of_ascii "// c" ++ [65279]%N ++ runes_of_ascii "
packet A {
}")).
Eval vm_compute in ("<<<M3122>>>" ++ check (runes_of_ascii "packet A {
}// c" ++ [5760]%N)).
Eval vm_compute in ("<<<M187>>>" ++ check (runes_of_ascii "packet tag { }
")).
Eval vm_compute in ("<<<M857>>>" ++ check (runes_of_ascii "options{ } 	 ")).
Eval vm_compute in ("<<<M2223>>>" ++ check (runes_of_ascii "MetaData _x")).
Eval vm_compute in ("<<<M4343>>>" ++ check (runes_of_ascii "// a
// b")).
Eval vm_compute in ("<<<M2757>>>" ++ check (runes_of_ascii "~4BA-c\")).
Eval vm_compute in ("<<<M2449>>>" ++ check (runes_of_ascii "chars")).
Eval vm_compute in ("<<<M3158>>>" ++ check (runes_of_ascii "// c" ++ [11]%N)).
Eval vm_compute in ("<<<M2868>>>" ++ check ([65533; 65533; 31]%N ++ runes_of_ascii "D")).
Eval vm_compute in ("<<<M2571>>>" ++ check (runes_of_ascii "a" ++ [8232]%N ++ runes_of_ascii "b")).
Eval vm_compute in ("<<<M14>>>" ++ check (runes_of_ascii "
")).
