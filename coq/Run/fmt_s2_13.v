From FP Require Import Lexer Parser ShowPT Digest Formatter.
From Coq Require Import String List NArith.
Import ListNotations.
Open Scope string_scope.
Set Printing Width 100000000.
Set Printing Depth 100000000.
Definition show_fres (r : fres) : string :=
  match r with
  | FOk s => "OK:" ++ sh_escaped s ""
  | FErr s => "ERR:" ++ sh_escaped s ""
  | FPanic p => "PANIC:" ++ p
  end.
Definition check (rs : list rune) : string := digest (show_fres (format_res rs)).
Definition full (rs : list rune) : string := show_fres (format_res rs).
Eval vm_compute in ("<<<M134>>>" ++ check (runes_of_ascii "packet int
    {
match Pad as	Z9_ { [65535,
    ""// no comment"" , ""a	b""//x
, // " ++ [128512]%N ++ runes_of_ascii " emoji
""CRC32"" ,
00 , 0123456789 , 0]
:  Z9_
4294967296
: stringy ,""""//
: f32a
    ,
"""" :
//	t
// " ++ [27880; 37322]%N ++ runes_of_ascii "
Header, [""it's"" , 1,""1"" ] :
msg_type , } , @leftPad ( )
f32 Foo
    // `tick` ""quote"" 'q'
    ``	, charz {
repeat int8
options1  ,repeat  char[]
T
,
repeat string
crc // c
`doc`
    //x
    , uint8x`a\`
    ,} ,} packet
    Logon{ A, u8
metadata , @lengthOf( trueish )
// a // b
// packet A { u8 x, }
@lengthOf(u8x) @lengthOf( A)
    // " ++ [27880; 37322]%N ++ runes_of_ascii "
    repeat string
trueish
    // " ++ [128512]%N ++ runes_of_ascii " emoji
    , @tag( 3) match
    rootA as
    Pad // @lengthOf(
{42 :msg_type,[ 0
    // a // b
    ,
// trailing space 
// `tick` ""quote"" 'q'
""" ++ [128512]%N ++ runes_of_ascii """ ,00
] : asx
, [ """ ++ [233]%N ++ runes_of_ascii "t" ++ [233]%N ++ runes_of_ascii """ ,""{,}""
,""" ++ [233]%N ++ runes_of_ascii "t" ++ [233]%N ++ runes_of_ascii """ , 255 ] //	t
:T ""x y"" : calculatedFrom
[
""a	b""	,0123456789	,
    ""{,}"" ,
    3 , 3
, 7 ,
    4294967296 ,  4294967296 ]: Header , [0,4294967296,
    10
    // packet A { u8 x, }
    ,
007 , 007 ,1 , ""1"",	""`tick`""
    //	t
    ] : Packet }/// triple
,
    zchar[
0
    ] asx @lengthOf( x_y_z
    )
`{ , }`
,
repeat char[
    7 ] leftPad, stringy`` , falsey //
repeatCount
`{ , }` ,}packet
    MetaDataX // packet A { u8 x, }
{
options1,	}
    // " ++ [27880; 37322]%N ++ runes_of_ascii "
    packet
    zchar { // " ++ [27880; 37322]%N ++ runes_of_ascii "
uint16 falsey ,  match string_ as BodyLength {
[
    4294967296 , 42 ,255 , ""1""
, """ ++ [28040; 24687]%N ++ runes_of_ascii """ ,""packet"" ,""`tick`"" ]
: Logon ,
7 : packetx , } , @leftPad  (
) @calculatedFrom(
    /// triple
    ""\n"" )
    @leftPad  () match T as
packetx {""1"" :options1, } //
,uint8 MetaDataX@lengthOf(	roots  ), @tag( 0123456789 //	t
) body// packet A { u8 x, }
@calculatedFrom( ""packet"" // @lengthOf(
)
// c
// trailing space 
`{ , }` ,@lengthOf(	roots )
zchar[ 0123456789 ]
repeatCount
    , repeat int32 matchKey `a\` , @lengthOf(
    options1 )u8 pack , @rightPad( ' ' ) float32 f32a
    , @rightPad (
    /// triple
    '\x00' )
    @rightPad(	) @calculatedFrom(// trailing space 
""CRC32"" )repeat
pack { // @lengthOf(
zchar[00 ] falsey ``
    , match calculatedFrom	as // c
leftPad { 65535 // trailing space 
: // packet A { u8 x, }
Z9_
    , 007//x
:
charz,} , repeat zchar[7] Pad ,} , }
//x
")).
Eval vm_compute in ("<<<M1153>>>" ++ check (runes_of_ascii "
root packet
a1 { repeat zchar int ,
string u ,
string u8x @lengthOf( msg_type ) , rootA `it's`
, @tag(
    255 ) //x
uint16 packetx
    @lengthOf( Z9_ ) `it's` ,
@leftPad( '\x00')  uint8
zchar , @tag( 007 ) @tag(// trailing space 
4294967296 )
trueish	@lengthOf( i64_ )
,  uint8 repeatCount`crlf
line` , string
metadata ,
    match  len as
    metadata {0	: Packet,
    } , } packet As { repeat i8
T ,
    pack , @lengthOf( stringy
) char[0	]
Pad , repeat char[ 0 ]
tag ,
    @lengthOf(roots)uint16
    // a // b
    string_// " ++ [128512]%N ++ runes_of_ascii " emoji
@lengthOf(
    // a // b
    zchar ) `{ , }` ,
@lengthOf(a1 // " ++ [128512]%N ++ runes_of_ascii " emoji
) repeat x_y_z
    { int8
f32a, packetx{match Header	as Packet
{  [
// @lengthOf(
// trailing space 
""it's""] :
uint8x
    1 : u128
    ,
""\" ++ [233]%N ++ runes_of_ascii """
:MetaDataX
, [""a\\"" ,	1, ""x y""] : f32a ,
    65535 : BodyLength
, }
    ,
msg_type @calculatedFrom( ""abc""
    )
    //
    `// not a comment` , match chars as
Header {
7:x_y_z, 10
    : matchKey /// triple
,
""x y""
: // " ++ [128512]%N ++ runes_of_ascii " emoji
x_y_z ,007	: float , }
, // a // b
uint8x u , },	repeat Foo { //	t
repeat float64 chars , //x
match
    len
//
//x
as Pad { [ ""\" ++ [233]%N ++ runes_of_ascii """ , 1 ] :
    u8x  ,
10:i64_	[  ""CRC32""  ] : Logon
    ,[""CRC32"" ,  255
    ]  :
u8x , }
,
} ,
    } ,
@lengthOf( Packet ) @leftPad (	'0'
) @rightPad
    // c
    (
) zchar[3
]uint8x//
,	match int as pack {
    // " ++ [128512]%N ++ runes_of_ascii " emoji
    [ 3 ] :
string_  ""a\""b"" : repeatCount ,
    007 :	zchar} ,repeat uint8 lengthOf`// not a comment` , } options { Logon = ""packet""
// @lengthOf(
// `tick` ""quote"" 'q'
rootA=//	t
true
    packetx = false f32a =  ""a\\"" }
    root packet
u {  repeat char[] body , //
@calculatedFrom( ""a\""b"" )
    @lengthOf( Foo ) A
@calculatedFrom( ""{,}"" ) , } options
{ trueish = 0 charz= ""abc"" }")).
Eval vm_compute in ("<<<M1322>>>" ++ check (runes_of_ascii "options { rootA = """" BodyLength = 0123456789 ; roots =
    string options1=
' ' } root packet
int {repeat zchar[ 00	]
Logon, repeat	uint16
    //	t
    body `// not a comment` , @calculatedFrom(	""a\""b"")repeat
    string MetaDataX
    `a\` , string lengthOf `" ++ [28040; 24687; 31867; 22411]%N ++ runes_of_ascii "` ,
    @tag( 3 ) trueish calculatedFrom , //
} root
packet i64_ {
zchar[ 007
] //x
rootA
    `" ++ [28040; 24687; 31867; 22411]%N ++ runes_of_ascii "` , @leftPad ( ' ')
@calculatedFrom(""a\\""	) @calculatedFrom(
    // @lengthOf(
    ""a\""b"")
repeat	f64 trueish	`" ++ [233]%N ++ runes_of_ascii "`, repeat int { match msg_type as asx
    {"""" : u128 , [ //
""1"" ,
//	t
// trailing space 
""\" ++ [233]%N ++ runes_of_ascii """ ]
: options1 ,  ""x y""	: u8x,
""// no comment"" : BodyLength  , [
    7	,  ""a\""b""	, 4294967296 ]
: asx ,
} , crc @calculatedFrom(  """" )  ,
    // `tick` ""quote"" 'q'
    match metadata as lengthOf
{
[4294967296
, ""a	b"",""packet"", ""// no comment"" ]
    // a // b
    : repeatCount
    // c
    , }
    // @lengthOf(
    , u128
    { crc ,repeat options1  , uint64 BodyLength ,matchKey
    `
` ,
} ,}
    , @lengthOf(zchar ) int8 lengthOf `say ""hi""`  , }	root packet pack  {	@calculatedFrom( ""a	b"" )
    // " ++ [27880; 37322]%N ++ runes_of_ascii "
    Pad, @calculatedFrom( ""packet"" ) match u as leftPad
    { [ ""{,}""]
:// `tick` ""quote"" 'q'
A""{,}"" : u128 [  ""1""
    ,007 ]
:  a1
    ,
[ ""1"" ] :
Packet
4294967296:
    i8i8 , 00 :
// " ++ [128512]%N ++ runes_of_ascii " emoji
// @lengthOf(
roots
,
//
// packet A { u8 x, }
}	,//
char[0123456789  ] calculatedFrom`say ""hi""`
,	uint8 int @calculatedFrom(
    ""a\\""
),Packet pack,// c
}
")).
Eval vm_compute in ("<<<M1049>>>" ++ check (runes_of_ascii "
packet
charz {  match Packet as x_y_z {
    """" :f32a
    , [255 // " ++ [27880; 37322]%N ++ runes_of_ascii "
,
4294967296 ,0 ,
    4294967296 ,
10 , 00
]
:
crc""{,}"" :Foo , 65535	:
    // a // b
    Pad 10 :Logon,
}
    ,	repeat  Foo {
match  tag
as matchKey {[ 65535, 3 ]  :
    //
    body  , 10: A , 42 :
    body
    , 007 : As ,  [
    // trailing space 
    ""a\\""
// " ++ [128512]%N ++ runes_of_ascii " emoji
//x
] : msg_type ,
[
0123456789, 255 ] : msg_type
    /// triple
    ,	} , u16// " ++ [128512]%N ++ runes_of_ascii " emoji
MetaDataX
, o { match
    T as string_ { 0	:
// packet A { u8 x, }
/// triple
trueish,
    3 : MetaDataX ,
    //x
    ""packet"" :
rootA ,
    7 : o[
""a\\""
    // trailing space 
    , 42 ,//
0123456789 , ""a	b"",
    // " ++ [27880; 37322]%N ++ runes_of_ascii "
    ""packet"" ] /// triple
: f32a , [ ""a	b""
    , 4294967296 ,""packet""	, 65535 ] :
    falsey,
} ,}
, },packetx u ``// c
,@tag(	42
    // a // b
    )u32
    f32a  ``
,msg_type@lengthOf( matchKey )	`{ , }` ,  @leftPad ( ' ' )
char[] asx @calculatedFrom( """ ++ [28040; 24687]%N ++ runes_of_ascii """
    )
    ,
/// triple
// " ++ [128512]%N ++ runes_of_ascii " emoji
zchar[ 3 ]rootA ,	uint16 // a // b
u8x `two words`
, @rightPad
('0' ) match zchar/// triple
as
repeatCount {
    ""a\\"" : T , ""a\\"" : As,[ 255, ""// no comment"" , 4294967296 , ""x y""
//	t
//x
, ""{,}""
,	00 , 7 ,""it's"" ] :
leftPad ,007//
: zchar
, ""a	b""
    :
    // packet A { u8 x, }
    falsey,
}
, }options {
lengthOf
    = '0'// a // b
}
")).
Eval vm_compute in ("<<<M1126>>>" ++ check (runes_of_ascii "packet // `tick` ""quote"" 'q'
BodyLength {char[ 3//
]i64_ @calculatedFrom( ""`tick`"" )  `line1
line2`
    // trailing space 
    ,@leftPad// " ++ [128512]%N ++ runes_of_ascii " emoji
(
) x `two words` // trailing space 
,zchar[ 0123456789 ]
pack
// a // b
//	t
@calculatedFrom(""a\""b""//
) `crlf
line`	,	calculatedFrom{ char[
    255 ] MetaDataX @calculatedFrom( ""packet"" ) `doc` , zchar[
    //x
    007
]leftPad `crlf
line`,
uint8x
    @calculatedFrom(
""a\""b"") ,
//
//
MetaDataX  _x , },@calculatedFrom( // " ++ [27880; 37322]%N ++ runes_of_ascii "
""packet"" )
zchar[  7] repeatCount
    `" ++ [28040; 24687; 31867; 22411]%N ++ runes_of_ascii "`
, @lengthOf(Foo ) // " ++ [128512]%N ++ runes_of_ascii " emoji
int64  A @lengthOf(	charz	)``
    , @tag(	7
    ) packetx
@calculatedFrom( """")`a\`,  } root
packet u128 { } packet
Logon {
    T {
T
    @lengthOf(
// a // b
//	t
u8x ) `tab	here` // packet A { u8 x, }
,
As `u8 x,`,
}  , int64
    T
, i64 tag // `tick` ""quote"" 'q'
@lengthOf( i64_ )
    , @lengthOf( metadata
) repeat i8
rootA , int64 Foo // trailing space 
@lengthOf( a1	) , chars
    {  string// @lengthOf(
packetx // a // b
@lengthOf(chars
) `" ++ [233]%N ++ runes_of_ascii "` , a1 @calculatedFrom(""a\""b"" ), char[] crc // packet A { u8 x, }
@lengthOf(i8i8 // " ++ [128512]%N ++ runes_of_ascii " emoji
)
    , } , }options{ matchKey  =	' '
    asx = true ; MetaDataX=	""it's""; }

")).
Eval vm_compute in ("<<<M207>>>" ++ check (runes_of_ascii "
root packet	msg_type {u128//
, @calculatedFrom(
""" ++ [233]%N ++ runes_of_ascii "t" ++ [233]%N ++ runes_of_ascii """ ) repeat char[
    //
    3]
    metadata`crlf
line`,
char[255 ]	Pad
,  asx @calculatedFrom(""packet"" )
    , repeat stringy `tab	here`
    ,
//x
//	t
repeat //x
As `two words`, @leftPad ( '\x00'
    ) repeat matchKey`a\`	, @rightPad (' ' ) repeat/// triple
Pad
{ repeat
    u
,
// trailing space 
// packet A { u8 x, }
repeat char[] uint8x , }
    ,
u128	{ repeat
As `u8 x,` ,
pack msg_type,	uint32 lengthOf @calculatedFrom( ""1""	), match roots as
    // " ++ [128512]%N ++ runes_of_ascii " emoji
    x{ ""{,}"" :
    // " ++ [27880; 37322]%N ++ runes_of_ascii "
    Pad
    }
    ,  } ,}
root packet tag
{string pack , } root
packet u8x
    {
string
    pack `doc` , @lengthOf( options1
    )f32	matchKey @calculatedFrom( ""`tick`"" )
`two words` , @leftPad (  '\x00' )@lengthOf( Packet) @tag( 007//x
)
int32
    Pad	@calculatedFrom(""a\\""
)
, @calculatedFrom( """" ) string a1 @lengthOf( metadata ) ,match u128 as Foo {
    [ ""`tick`"" ]
: msg_type
    ,
    10 // a // b
:
msg_type, 00
:  len, ""`tick`"" : _x ,1 : repeatCount
    , [ 1 , //	t
1 ] :
    // packet A { u8 x, }
    pack ,} , @leftPad ( )
float64 pack
    `
` ,
    }")).
Eval vm_compute in ("<<<M1316>>>" ++ check (runes_of_ascii "packet
calculatedFrom { Pad { match
    tag as metadata {
    ""x y"":tag 10 :Packet,[ 007
, ""it's"" ,
    0
, 3
,
4294967296
    // c
    ,""" ++ [28040; 24687]%N ++ runes_of_ascii """ , ""\n"" ,""a	b"" ] : Logon , 3 : A ,
    [
0123456789 ] : leftPad, } , } ,//	t
@lengthOf( int
) repeat char[ 255 ] msg_type `" ++ [28040; 24687; 31867; 22411]%N ++ runes_of_ascii "` , Pad @calculatedFrom(""" ++ [233]%N ++ runes_of_ascii "t" ++ [233]%N ++ runes_of_ascii """ ) , @tag(65535)  f32 u128 `// not a comment` ,zchar[ //x
3 ]
    leftPad
// trailing space 
// " ++ [27880; 37322]%N ++ runes_of_ascii "
`" ++ [28040; 24687; 31867; 22411]%N ++ runes_of_ascii "`,@rightPad( ' ' ) @lengthOf( roots ) /// triple
repeat char[
    10]
leftPad,Logon charz
    // @lengthOf(
    `line1
line2` , } MetaData _x
{ string Z9_
`tab	here`
,u _x ``
    , zchar[
    10]
asx
`line1
line2`, u128 Logon , char[
    7
] u128 , options1	repeatCount , }options {} packet
    /// triple
    body
    {// `tick` ""quote"" 'q'
@calculatedFrom( ""a	b""
)  char[] len
,	@lengthOf( Packet )
    match
//	t
/// triple
zchar as i64_{ [ ""x y"",""" ++ [28040; 24687]%N ++ runes_of_ascii """ ,	3, 65535
    ,""`tick`"" , ""{,}"" , ""\" ++ [233]%N ++ runes_of_ascii """ , 42 ] : i64_ ,} ,
matchKey
chars , @lengthOf( x_y_z
// packet A { u8 x, }
//
) @tag( 00 )a1 @lengthOf(repeatCount ) // trailing space 
,}

")).
Eval vm_compute in ("<<<M4438>>>" ++ check (runes_of_ascii "root packet chars {
    @tag(1)
    zchar[0123456789] MetaDataX,
    f32 Packet,
    @rightPad(' ')
    repeat chars {
        o stringy `crlf
                line`,
        matchKey int,
    },
}

packet uint8x {
    match stringy as len {
        ""CRC32"" : trueish,
        [3, 42] : x_y_z,
        ""CRC32"" : leftPad,
        // " ++ [128512]%N ++ runes_of_ascii " emoji
        [
            3, 42, ""a\\"", ""1"", ""it's"",
            255, ""CRC32"", 0123456789
        ] : uint8x,
        //	t
        [
            42, ""a	b"", 7, 65535, 42,
            """", """"
        ] : x_y_z,
    },
    repeat trueish {
        repeat As `u8 x,`,
    },
    repeat chars `two words`,
    @rightPad('\x00')
    repeat f64 _x `" ++ [233]%N ++ runes_of_ascii "`,
    repeat i16 u `say ""hi""`,// c
    @lengthOf(x)
    i8i8 {
        match options1 as a1 {
            1 : u128,
        },
    },
    string chars,
    repeat char[] Logon `it's`,
    u8 float @lengthOf(o) `{ , }`,
    @lengthOf(int)
    @tag(1)
    asx @calculatedFrom(""\" ++ [233]%N ++ runes_of_ascii """),// `tick` ""quote"" 'q'
}")).
Eval vm_compute in ("<<<M4501>>>" ++ check (runes_of_ascii "options
{ StringPrefixLenType

=

    u32;
    ArrayPrefixLenType
    =u8 
;	FixedStringPadFromLeft
= false	;
    }

    packet	Logon { i8
venue	, int16
	f1
    ,	zchar[8 
]
    Acct 
, repeat InNote16 
{ InQty73 {

float32 tag7

,  }

, 
f32 
Acct

    , zchar[ 5
	]
sym	,
}
	, uint16
Side2
	,	i32
	lastPx  , }
    packet
Fill
{ repeat

InOrderid15
{ zchar[
	8 ]
	sym  , repeat
	char[2
] OrderId

    ,

    repeat Logon, InQty82

    {
	char[]  Tail,
repeat Logon , float64  price
	,

    f64  Side2

,	}

    ,

char[  12
	]
venue
    ,char[ 4 ]
Px
    , 
} ,  @rightPad	( '0'
	)
char[
2 
]venue,
	InPrice99 {
	InAcct72{u8
    pad0

,}	,
    u32	OrderId ,Logon

,

    }
    ,  }  root

    packet
	Reject

{ zchar[
	9]
	msgKind,u32
venue  ,
u16

    seqNo
    @lengthOf(Body

) 
,
    match venue as Body 
{  57
:

    Fill,  8

    :
    Logon

    ,

}

, 
u16
	Tail
@calculatedFrom(

""CR\
C32""),}
")).
Eval vm_compute in ("<<<M570>>>" ++ check (runes_of_ascii "MetaData charz{ }	packet
tag // " ++ [27880; 37322]%N ++ runes_of_ascii "
{
    @tag( 00) i64 i8i8
    `// not a comment`  , repeat options1, char[]  float , string a1
,
i8 asx ,
// @lengthOf(
// c
match
u as // " ++ [27880; 37322]%N ++ runes_of_ascii "
BodyLength
{ 65535: A ,} , } packet msg_type {@calculatedFrom( """ ++ [28040; 24687]%N ++ runes_of_ascii """ )Foo , @calculatedFrom( ""a\""b"" ) char[ 0123456789]
    lengthOf	@lengthOf( a1	)	,  repeat stringy Header `
`  , match	o as float{
    ""// no comment"" : Pad
, ""a\\"" :string_ , } , @leftPad
// @lengthOf(
//
( ) match tag as body
{0 : o,// " ++ [128512]%N ++ runes_of_ascii " emoji
10 :
charz ,7
:u
,
    65535 // trailing space 
:Header
    ,
    255 : body , }, } options //	t
{ } root packet leftPad {
@rightPad( ' ' ) i8 zchar ,
    @calculatedFrom(
""abc"" )metadata @lengthOf(
    // c
    packetx
    ) , @tag(
65535 ) string crc  @lengthOf(Z9_ /// triple
) , @rightPad (' ') uint32 u8x
// `tick` ""quote"" 'q'
// c
`say ""hi""`,@tag( //x
255)
    @lengthOf(x_y_z ) As , }")).
Eval vm_compute in ("<<<M4259>>>" ++ check (runes_of_ascii "packet i8i8 {
    options1 @calculatedFrom(""packet"") `crlf
        line`,
    @rightPad(' ')
    string lengthOf `" ++ [233]%N ++ runes_of_ascii "`,
    u64 string_,
}

options {
    options1 = false;
}

MetaData u {
    a1 options1,
    lengthOf x_y_z `line1
        line2`,// c
    MetaDataX rootA,
    zchar[255] len,
    char[007] int `say ""hi""`,
    // @lengthOf(
    //
    char[4294967296] stringy,//	t
}

root packet u8x {
    Z9_ @lengthOf(Packet),
    @calculatedFrom(""packet"")
    // a // b
    @rightPad('0')
    @calculatedFrom(""it's"")
    packetx `" ++ [28040; 24687; 31867; 22411]%N ++ runes_of_ascii "`,
    float64 Packet @calculatedFrom(""`tick`"") `a\`,
    @leftPad('0')
    match len as rootA {
        // `tick` ""quote"" 'q'
        ""x y"" : uint8x,
        ""1"" : asx,
        ""a\""b"" : u8x,
    },// " ++ [27880; 37322]%N ++ runes_of_ascii "
    @lengthOf(tag)
    trueish As,
    @lengthOf(falsey)
    zchar[1] a1,
}

root packet body {
}")).
Eval vm_compute in ("<<<M3529>>>" ++ check (runes_of_ascii "options {
    LittleEndian = false;
    StringPrefixLenType = u16;
    ArrayPrefixLenType = u64;
    FixedStringPadFromLeft = true;
    FixedStringPadChar = ' ';
}
packet Logon {
    u16 Tail,
    repeat string x,
    i16 count,
    @leftPad('0') char[3] Note,
}
packet Fill {
}
packet Heartbeat {
}
packet Reject {
    string msgKind,
    repeat Logon,
    InFlags25 {
        repeat InPrice29 {
            u8 price,
            Logon,
            repeat char[1] Note,
        },
        char[] x,
        Fill,
    },
    repeat Heartbeat,
}
root packet Order {
    InNote88 {
        repeat i32 Acct,
        repeat i16 clOrdID,
        repeat Logon,
    },
    u16 tag7,
    match tag7 as Body {
        [14, 22] : Logon,
        55 : Heartbeat,
        93 : Reject,
        13 : Fill,
    },
}
")).
Eval vm_compute in ("<<<M4459>>>" ++ check (runes_of_ascii "
// top
  packet 
    // c0
      Sub	// c1
	{ 

    // c2
    	u8 	 // c3a
	// c3b

  a 	 // c4
    ,// c5
u32
	SubSum
@calculatedFrom( 	 // c8a
    // c8b
	""CRC16"" 
	    // c9
    ) 	 // c10a
    	// c10b
  , }	// c12a
	  // c12b
    	root  // c13
	  packet 

    // c14
	Frame// c15a
  // c15b

  { 	 // c16a

// c16b
u16 
    // c17
		MsgType // c18a
      // c18b
  , 
	    // c19
    	u16 	 // c20a

// c20b
	  BodyLen // c21
  @lengthOf( 

// c22
	  Body)

    , Sub// c26a
	// c26b
	Body

    // c27
    ,	// c28
      string note
    // c30
  	,	// c31a
	// c31b
      u32  // c32a
    // c32b
		Checksum @calculatedFrom(	// c34a
	  // c34b
    	""CRC16"" 
	// c35
      )// c36
    , u8  // c38
tail	// c39
      , 	 // c40
  } // c41
")).
Eval vm_compute in ("<<<M0>>>" ++ check (runes_of_ascii "packet body{ @tag( 0123456789 )repeatCount { // @lengthOf(
i32
roots	@calculatedFrom( ""it's""
    )
    // trailing space 
    ,
    char[]repeatCount @calculatedFrom(
""packet"" ) `two words` // " ++ [128512]%N ++ runes_of_ascii " emoji
,repeat u16 roots , match lengthOf as As //	t
{ [ ""packet"" ,""" ++ [28040; 24687]%N ++ runes_of_ascii """,	255
, 42 ,""\" ++ [233]%N ++ runes_of_ascii """ ] : x_y_z ,
    } , } , trueish ,@tag( 65535 )
@tag( 255  ) /// triple
@tag(00) chars @calculatedFrom(""it's"" ) ,	match o as
    // `tick` ""quote"" 'q'
    roots {
// " ++ [27880; 37322]%N ++ runes_of_ascii "
// c
""{,}""
: options1 , """ ++ [28040; 24687]%N ++ runes_of_ascii """
    :	lengthOf	, 00: pack  ,[ ""a\""b"" ] :
    msg_type ,1 : i8i8
, [ 10  , 3 ,"""" ] : falsey ,} , }
root packet// `tick` ""quote"" 'q'
Z9_ {repeat char[] // a // b
Packet	, string chars@calculatedFrom( ""a\""b"" )
`// not a comment`
    // " ++ [128512]%N ++ runes_of_ascii " emoji
    ,	}
")).
Eval vm_compute in ("<<<M663>>>" ++ check (runes_of_ascii "packet lengthOf {	@lengthOf( As ) Foo { repeat string
f32a ,crc
    @calculatedFrom( ""CRC32"")
, } ,
uint8x @calculatedFrom(
""CRC32""
) ,string charz	@calculatedFrom(""\" ++ [233]%N ++ runes_of_ascii """ ), @rightPad ( '\x00'
// trailing space 
//
)	u16 int @lengthOf(
    x )
, tag string_ // @lengthOf(
`" ++ [233]%N ++ runes_of_ascii "`  , MetaDataX @calculatedFrom( ""1"")//	t
, @tag(
    7  ) @calculatedFrom( """"
)// " ++ [27880; 37322]%N ++ runes_of_ascii "
@lengthOf(As)trueish	@lengthOf(// @lengthOf(
Logon  )
`two words`  ,}options {
    Foo /// triple
= char[
    // trailing space 
    10]}packet
    // @lengthOf(
    calculatedFrom { match charz as u128{ [
/// triple
// packet A { u8 x, }
0123456789 ,
""packet"" ,
    /// triple
    ""\n""
    , 00 , 1 ,  ""1""
,"""" ] :
    //x
    Foo} , }")).
Eval vm_compute in ("<<<M4173>>>" ++ check (runes_of_ascii "

  packet Logon 	 // c1
    {	// c2
  string// c3a
  	// c3b

  user // c4

,// c5a

  // c5b
    } 
    // c6
    root packet Frame // c9a
// c9b
      { 

    // c10
    u8 

// c11
  K  ,// c13
  match 
    // c14
  K 
    // c15
  as
	    // c16

Body	// c17a
  // c17b

	{ 1  // c19a
	  // c19b
	  :
Logon // c21
    ,	// c22a

// c22b
2:  
      // c24
	Logout 
        // c25
  , 
}	,  
  // c28
  Tail, 
}packet// c32
    Logout 
    // c33
	{ 	 // c34
    	u16// c35a
// c35b
reason// c36a
  // c36b

	,	// c37
	}  // c38a
  // c38b
  packet // c39a
// c39b
	  Tail	// c40
{

u32
        // c42
    crc ,// c44a
  // c44b
} // c45a
	// c45b
 
")).
Eval vm_compute in ("<<<M3776>>>" ++ check (runes_of_ascii "packet rootA {
}// " ++ [27880; 37322]%N ++ runes_of_ascii "

packet MetaDataX {
    @leftPad('0')
    @calculatedFrom(""`tick`"")
    pack @calculatedFrom(""1""),
    f32a {
        a1 {
            lengthOf {
                repeat uint8 charz `crlf
                                line`,
            },
            match roots as Packet {
                7 : Foo,
                ""\" ++ [233]%N ++ runes_of_ascii """ : metadata,
                ""a	b"" : trueish,
                0123456789 : Z9_,
                [4294967296, ""packet"", """", 3, """ ++ [233]%N ++ runes_of_ascii "t" ++ [233]%N ++ runes_of_ascii """] : pack,
                10 : a1,
            },
            u16 u128 `" ++ [28040; 24687; 31867; 22411]%N ++ runes_of_ascii "`,
        },
    },
    zchar[00] _x @calculatedFrom(""x y"") `doc`,
}

packet pack {
}")).
Eval vm_compute in ("<<<M3543>>>" ++ check (runes_of_ascii "options {
    LittleEndian = true;
    FixedStringPadFromLeft = true;
    FixedStringPadChar = '0';
}
packet Trade {
    string clOrdID,
    char[] Px,
    u32 x,
}
packet Reject {
    int32 Side2,
    repeat char[3] clOrdID,
    i32 tag7,
}
packet Leg {
}
root packet Quote {
    string Side2,
    string lastPx,
    InSym58 {
        int16 OrderId,
        Reject,
        i8 Qty,
        i64 venue,
        f32 Note,
    },
    char[] count,
    zchar[9] price,
    u16 Qty,
    match Qty as Body {
        69 : Leg,
        48 : Trade,
        51 : Reject,
    },
    u16 Acct @calculatedFrom(""CR\
C32""),
}
")).
Eval vm_compute in ("<<<M3487>>>" ++ check (runes_of_ascii "options { // c1a
  // c1b
FixedStringPadChar = // c3
'0'
    // c4
; // c5
} packet
    // c7
Q { zchar[ // c10a
  // c10b
4 // c11
] // c12a
  // c12b
z ,
    // c14
@rightPad // c15
( // c16
'\x00' )
    // c18
char[ // c19a
  // c19b
3 ] // c21
n
    // c22
,
    // c23
char[
    // c24
5
    // c25
] // c26a
  // c26b
d , // c28a
  // c28b
} // c29a
  // c29b
root // c30
packet // c31
R // c32
{ // c33a
  // c33b
Q // c34a
  // c34b
, zchar[
    // c36
8
    // c37
] // c38
top
    // c39
, // c40
repeat // c41
zchar[ // c42
2 ] // c44
zs // c45
,
    // c46
} ")).
Eval vm_compute in ("<<<M3982>>>" ++ check (runes_of_ascii "  packet chars  { 
    // `tick` ""quote"" 'q'
// `tick` ""quote"" 'q'
	@lengthOf( trueish
)
char[10
    ]
	metadata  
      //	t
    // packet A { u8 x, }

	@calculatedFrom(
""x y""
)  ,MetaDataX

@lengthOf(
    BodyLength ) 
`u8 x,`	, 
match 
x 
// trailing space 
as 
trueish

{
7  /// triple
  : 
matchKey
,
} , }
root

packet
    len	{  // packet A { u8 x, }
      x@lengthOf( Pad// `tick` ""quote"" 'q'
  	)
, asx	{pack  _x ,
}, }

MetaData	// `tick` ""quote"" 'q'
pack { int8	//x
    zchar
    // @lengthOf(

`tab	here`
    ,}

")).
Eval vm_compute in ("<<<M442>>>" ++ check (runes_of_ascii "packet u8x {match BodyLength	as // c
string_{ // c
""\" ++ [233]%N ++ runes_of_ascii """	:
zchar
}
    ,}  packet// trailing space 
metadata
    {// `tick` ""quote"" 'q'
@tag( //
0123456789	) /// triple
@leftPad // `tick` ""quote"" 'q'
( '\x00' )repeat	char[] trueish , repeat metadata {
char[]
    float `line1
line2`
, char[// " ++ [128512]%N ++ runes_of_ascii " emoji
00] T,
uint8x {repeat len string_
    `doc` , }
    // @lengthOf(
    , options1 @lengthOf(
    T
)`say ""hi""` , } , @calculatedFrom(
    ""CRC32"" //
) uint16 BodyLength  @calculatedFrom( """ ++ [28040; 24687]%N ++ runes_of_ascii """ )
, } //	t")).
Eval vm_compute in ("<<<M3906>>>" ++ check (runes_of_ascii "packet u {
    repeat zchar[0123456789] x `tab	here`,
    @lengthOf(u8x)
    @tag(3)
    @tag(255)
    options1 f32a `tab	here`,
    string BodyLength `u8 x,`,
    @calculatedFrom(""" ++ [28040; 24687]%N ++ runes_of_ascii """)
    string u8x `" ++ [28040; 24687; 31867; 22411]%N ++ runes_of_ascii "`,
    char[3] BodyLength,// " ++ [128512]%N ++ runes_of_ascii " emoji
    match rootA as msg_type {
        007 : MetaDataX,
        // " ++ [27880; 37322]%N ++ runes_of_ascii "
        [1, 255, ""CRC32"", 4294967296] : tag,
    },
    float64 a1 `doc`,
    @calculatedFrom(""a	b"")
    char[3] body,
    _x,
}

root packet len {
    repeat o rootA,
}")).
Eval vm_compute in ("<<<M857>>>" ++ check (runes_of_ascii "packet
    charz// `tick` ""quote"" 'q'
{
@rightPad
    ( '0' ) match leftPad as stringy
{	007
//	t
// " ++ [128512]%N ++ runes_of_ascii " emoji
:
    a1 [ 42 , ""{,}"",""`tick`"" ,
    10
//	t
/// triple
]
    :rootA , ""a	b"" :  Logon},// @lengthOf(
} packet/// triple
float  {	repeat pack { zchar[ 255
    // `tick` ""quote"" 'q'
    ]// `tick` ""quote"" 'q'
repeatCount @lengthOf( uint8x ) `u8 x,` , }
    ,
    // " ++ [27880; 37322]%N ++ runes_of_ascii "
    charz
@lengthOf(
    _x )
`it's` ,// @lengthOf(
} root packet  rootA
    { //
}
")).
Eval vm_compute in ("<<<M662>>>" ++ check (runes_of_ascii "packet
    Foo {repeat u {char[ 0123456789 ]
    string_
@calculatedFrom(""it's"")
    `" ++ [233]%N ++ runes_of_ascii "` , }, } options { Foo =
    ""a\\"";
msg_type= 4294967296 o = ""CRC32"" ;
options1 = char[ // " ++ [128512]%N ++ runes_of_ascii " emoji
7
]; }
    root packet	u{match
    _x as
rootA
{
007 :
    f32a
[ 007
] :
    u8x
,[ 007
,  ""packet""
]
    // @lengthOf(
    :
_x, [
// packet A { u8 x, }
// trailing space 
007 ,  10 ]
: i64_, }
, int8 charz
    // `tick` ""quote"" 'q'
    `two words` ,}
")).
Eval vm_compute in ("<<<M1031>>>" ++ check (runes_of_ascii "options {x = ""it's""}MetaData falsey// trailing space 
{
char[0123456789 ] lengthOf,
zchar[0123456789 ] stringy , falsey metadata
, zchar[007 ]rootA `` , }MetaData
trueish{  int8 x ,
// packet A { u8 x, }
// " ++ [128512]%N ++ runes_of_ascii " emoji
f32 len , pack BodyLength `a\` ,
}packet Pad
{ @leftPad //	t
(
'0' ) u8x @calculatedFrom(""CRC32"" ) , }root packet _x { msg_type	{ lengthOf ,  uint32	packetx
`` , },repeat int64
zchar `line1
line2`,body Header,
}
")).
Eval vm_compute in ("<<<M253>>>" ++ check (runes_of_ascii "packet pack
{ @rightPad (' ' ) A// c
@calculatedFrom( ""a\\"" )
// " ++ [128512]%N ++ runes_of_ascii " emoji
// " ++ [128512]%N ++ runes_of_ascii " emoji
`
` , u8
    f32a, zchar[007 ] rootA
    `u8 x,`, repeat
/// triple
// a // b
string u128 //
`u8 x,`, @leftPad( ' ' ) char[ 1 ] repeatCount@calculatedFrom( //x
""\n"" ) `doc`,
    o
,
falsey
    leftPad,@calculatedFrom(""a\""b"") @leftPad
    ('0' )
//
// " ++ [27880; 37322]%N ++ runes_of_ascii "
roots	{
u8
zchar @lengthOf(	Logon ) // trailing space 
,
// c
//	t
} , }")).
Eval vm_compute in ("<<<M105>>>" ++ check (runes_of_ascii "
MetaData u8x {
    packetx
    len `crlf
line`
    ,char[
255
] calculatedFrom `" ++ [28040; 24687; 31867; 22411]%N ++ runes_of_ascii "` , float64  MetaDataX // `tick` ""quote"" 'q'
`say ""hi""` ,BodyLength
// `tick` ""quote"" 'q'
// trailing space 
charz
`crlf
line`// a // b
,
}packet lengthOf{
    //	t
    @tag( 4294967296 ) uint8x @calculatedFrom(
    ""\n"" ) `" ++ [28040; 24687; 31867; 22411]%N ++ runes_of_ascii "` ,
    char calculatedFrom	@calculatedFrom(
""" ++ [28040; 24687]%N ++ runes_of_ascii """) // " ++ [27880; 37322]%N ++ runes_of_ascii "
`two words` , }
")).
Eval vm_compute in ("<<<M22>>>" ++ check (runes_of_ascii "packet  Pad{
@leftPad ( '0' ) @calculatedFrom( ""`tick`""
    )// @lengthOf(
match
    i64_ as x
    {
    /// triple
    00: zchar
    , } , i8i8 o // " ++ [27880; 37322]%N ++ runes_of_ascii "
,char[] _x
, repeat zchar[007 ] trueish
    ,zchar @lengthOf( trueish)`{ , }`
,// c
@calculatedFrom(""a\""b"") @tag( 1 ) trueish zchar ,
char[
    3 ] rootA @calculatedFrom(
    ""a\""b"" )
`tab	here`
//	t
// trailing space 
,
}")).
Eval vm_compute in ("<<<M1048>>>" ++ check (runes_of_ascii "
packet i64_	{
    @rightPad(	'\x00' ) char[] zchar, repeat string stringy ,repeat stringy // @lengthOf(
`{ , }`  , MetaDataX metadata , char[
    42 // c
]calculatedFrom `doc`
    ,zchar[ 4294967296	] repeatCount , }	MetaData msg_type { } packet
body
{ zchar[ 00] string_ @calculatedFrom( ""\" ++ [233]%N ++ runes_of_ascii """
    ) `two words`
, string_ @lengthOf( A ) `line1
line2`
,
    }")).
Eval vm_compute in ("<<<M3942>>>" ++ check (runes_of_ascii "root	packet  x 
{ string packetx 
// @lengthOf(
  `{ , }`

, char stringy
`// not a comment` , match 
charz
    as u128
{
""" ++ [128512]%N ++ runes_of_ascii """: _x ,

0 :
	options1 	 // packet A { u8 x, }
  42 :

    trueish ,[ 
	    // @lengthOf(
  // `tick` ""quote"" 'q'
    ""it's""  ,	00 ,""" ++ [28040; 24687]%N ++ runes_of_ascii """,	""\n""
// trailing space 
  ,

255 , 00  ]
: 
lengthOf
, 1 :len	,
    },
    } ")).
Eval vm_compute in ("<<<M3745>>>" ++ check (runes_of_ascii "packet A {
    // c2
    u8 a,
    // c5
}

// c6
packet B {
    // c9
    u16 b,// c12
}

// c13
root packet P {
    u8 K1,// c20a
    // c20b
    u8 K2,// c23a
    // c23b
    match K1 as M1 {
        1 : A,
        // c32a
        // c32b
    },// c34
    match K2 as M2 {
        // c39
        1 : B,
        // c43
    },
}")).
Eval vm_compute in ("<<<M1312>>>" ++ check (runes_of_ascii "packet repeatCount {@tag(  7 )int16 crc, zchar[007]  a1 @lengthOf( falsey) , repeat char[]	Packet, o , } packet crc
{ @rightPad ('\x00' ) @rightPad
('0'	) i64 A
    , match // a // b
stringy as o {
    4294967296: chars , }	, body int
    //
    ,
    // `tick` ""quote"" 'q'
    @calculatedFrom( ""\n""
)
    Packet ,  }
")).
Eval vm_compute in ("<<<M1570>>>" ++ check (runes_of_ascii "root packet Foo // " ++ [128512]%N ++ runes_of_ascii " emoji
{ } options {
    // a // b
    tag // `tick` ""quote"" 'q'
= //	t
""""
    ; u8x = zchar[0  ] }
MetaData
    int {zchar[ 10]
lengthOf	`` , i64 u8x`// not a comment` ,MetaDataX pack// `tick` ""quote"" 'q'
`crlf
line` `crlf
line`
, Logon charz `crlf
line`
    ,
    // a // b
    }
")).
Eval vm_compute in ("<<<M1462>>>" ++ check (runes_of_ascii "root packet Foo // " ++ [128512]%N ++ runes_of_ascii " emoji
{ } options {
    // a // b
    tag // `tick` ""quote"" 'q'
= //	t
""""
    char[] u8x = zchar[0  ] }
MetaData
    int {zchar[ 10]
lengthOf	`` , i64 u8x`// not a comment` ,MetaDataX pack// `tick` ""quote"" 'q'
`crlf
line`
, Logon charz `crlf
line`
    ,
    // a // b
    }
")).
Eval vm_compute in ("<<<M1425>>>" ++ check (runes_of_ascii "root packet Foo // " ++ [128512]%N ++ runes_of_ascii " emoji
{ { } options {
    // a // b
    tag // `tick` ""quote"" 'q'
= //	t
""""
    ; u8x = zchar[0  ] }
MetaData
    int {zchar[ 10]
lengthOf	`` , i64 u8x`// not a comment` ,MetaDataX pack// `tick` ""quote"" 'q'
`crlf
line`
, Logon charz `crlf
line`
    ,
    // a // b
    }
")).
Eval vm_compute in ("<<<M1609>>>" ++ check (runes_of_ascii "root packet Foo // " ++ [128512]%N ++ runes_of_ascii " emoji
{ } options {
    // a // b
    tag // `tick` ""quote"" 'q'
= //	t
""""
    ; u8x = zchar[0  ] }
MetaData
    int {zchar[ 10]
lengthOf	`` , i64 u8x`// not a comment` ,MetaDataX pack// `tick` ""quote"" 'q'
`crlf
line`
, Logon charz `crlf
line`
   % ,
    // a // b
    }
")).
Eval vm_compute in ("<<<M1536>>>" ++ check (runes_of_ascii "root packet Foo // " ++ [128512]%N ++ runes_of_ascii " emoji
{ } options {
    // a // b
    tag // `tick` ""quote"" 'q'
= //	t
""""
    ; u8x = zchar[0  ] }
MetaData
    int {zchar[ 10]
lengthOf	`` i64 , u8x`// not a comment` ,MetaDataX pack// `tick` ""quote"" 'q'
`crlf
line`
, Logon charz `crlf
line`
    ,
    // a // b
    }
")).
Eval vm_compute in ("<<<M1534>>>" ++ check (runes_of_ascii "root packet Foo // " ++ [128512]%N ++ runes_of_ascii " emoji
{ } options {
    // a // b
    tag // `tick` ""quote"" 'q'
= //	t
""""
    ; u8x = zchar[0  ] }
MetaData
    int {zchar[ 10]
lengthOf	``  i64 u8x`// not a comment` ,MetaDataX pack// `tick` ""quote"" 'q'
`crlf
line`
, Logon charz `crlf
line`
    ,
    // a // b
    }
")).
Eval vm_compute in ("<<<M1562>>>" ++ check (runes_of_ascii "root packet Foo // " ++ [128512]%N ++ runes_of_ascii " emoji
{ } options {
    // a // b
    tag // `tick` ""quote"" 'q'
= //	t
""""
    ; u8x = zchar[0  ] }
MetaData
    int {zchar[ 10]
lengthOf	`` , i64 u8x`// not a comment` ,@tag( pack// `tick` ""quote"" 'q'
`crlf
line`
, Logon charz `crlf
line`
    ,
    // a // b
    }
")).
Eval vm_compute in ("<<<M773>>>" ++ check (runes_of_ascii "
packet u8x { int32
u , @leftPad
    ( '\x00' )	int16
    /// triple
    leftPad
    ,@lengthOf(
    stringy ) uint32 BodyLength@calculatedFrom(
""" ++ [28040; 24687]%N ++ runes_of_ascii """// a // b
)
    `say ""hi""` ,	} root packet  msg_type {float64  Foo ,string repeatCount
    ,} root packet
    repeatCount {
    }")).
Eval vm_compute in ("<<<M522>>>" ++ check (runes_of_ascii "packet As{ // packet A { u8 x, }
repeatCount @lengthOf( Pad )`" ++ [28040; 24687; 31867; 22411]%N ++ runes_of_ascii "`, // c
}MetaData uint8x { char[
    3 ] o`say ""hi""`, uint16 A, leftPad
    matchKey ,char[] As `line1
line2`	, u32 string_ ,/// triple
metadata len , } packet
    options1 {metadata	options1// " ++ [27880; 37322]%N ++ runes_of_ascii "
,
}
")).
Eval vm_compute in ("<<<M1145>>>" ++ check (runes_of_ascii "
packet Pad
{ @lengthOf(
    // c
    x_y_z) @leftPad (
    ' ' )	@tag(65535
)
roots uint8x// @lengthOf(
, trueish
    { char[]float @calculatedFrom( ""it's"" )
, a1 u128 , }
,@tag( 42
) repeat float `" ++ [28040; 24687; 31867; 22411]%N ++ runes_of_ascii "`
    // trailing space 
    ,// trailing space 
}
")).
Eval vm_compute in ("<<<M537>>>" ++ check (runes_of_ascii "MetaData charz {}// " ++ [27880; 37322]%N ++ runes_of_ascii "
root packet matchKey{o  @calculatedFrom( ""a\""b"") ,zchar[ 10
]i8i8 @calculatedFrom( ""1"" )
`tab	here` ,
match crc as rootA { 255 : Z9_ , 42 : // c
lengthOf
,
[ 0 ,007
    ] : Logon  ""\n"" : T 0123456789 :  float  ,
    } , }
")).
Eval vm_compute in ("<<<M1578>>>" ++ check (runes_of_ascii "root packet Foo // " ++ [128512]%N ++ runes_of_ascii " emoji
{ } options {
    // a // b
    tag // `tick` ""quote"" 'q'
= //	t
""""
    ; u8x = zchar[0  ] }
MetaData
    int {zchar[ 10]
lengthOf	`` , i64 u8x`// not a comment` ,MetaDataX pack// `tick` ""quote"" 'q'
`crlf
line`")).
Eval vm_compute in ("<<<M458>>>" ++ check (runes_of_ascii "// packet A { u8 x, }
options { matchKey
    =  char[] x = char[] // " ++ [27880; 37322]%N ++ runes_of_ascii "
} packet i64_{ repeat pack
    `say ""hi""`, i16 calculatedFrom `u8 x,`,} MetaData calculatedFrom
{ // trailing space 
Logon Packet , } // `tick` ""quote"" 'q'")).
Eval vm_compute in ("<<<M2231>>>" ++ check (runes_of_ascii "MetaData Packet { }packet packet	asx  { @lengthOf( asx) falsey`crlf
line`
,
    }
    packet x	{uint32// @lengthOf(
rootA	,u32 options1 `say ""hi""` , @tag( 7
    )// packet A { u8 x, }
msg_type @lengthOf(
stringy	)	, }

")).
Eval vm_compute in ("<<<M1059>>>" ++ check (runes_of_ascii "// " ++ [128512]%N ++ runes_of_ascii " emoji
MetaData //x
Foo
    { }  MetaData
x {
}MetaData zchar
{ options1	f32a , int32 stringy ,
    string
    msg_type
`
` ,string T , a1 trueish `{ , }`
// packet A { u8 x, }
/// triple
, f32 BodyLength
    , }")).
Eval vm_compute in ("<<<M2385>>>" ++ check (runes_of_ascii "MetaData Packet { }packet	asx  { @lengthOf( asx) falsey`crlf
line`
,
    }
    packet x	{uint32// @lengthOf(
rootA	,u32 options1 `say ""hi""` , @tag( 7
    )// packet A { u8 x, }
msg_type @lengthOf(
stringy	)	@, }

")).
Eval vm_compute in ("<<<M2332>>>" ++ check (runes_of_ascii "MetaData Packet { }packet	asx  { @lengthOf( asx) falsey`crlf
line`
,
    }
    packet x	{uint32// @lengthOf(
rootA	,u32 options1 `say ""hi""` , 7 @tag(
    )// packet A { u8 x, }
msg_type @lengthOf(
stringy	)	, }

")).
Eval vm_compute in ("<<<M4421>>>" ++ check (runes_of_ascii "
options
	{// `tick` ""quote"" 'q'
    len // `tick` ""quote"" 'q'
	  = """ ++ [28040; 24687]%N ++ runes_of_ascii """
	;  options1	= // " ++ [27880; 37322]%N ++ runes_of_ascii "
int32

    zchar
=""1"" ;float = 
true tag = """ ++ [28040; 24687]%N ++ runes_of_ascii """  ;
} MetaData
    u128{msg_type	i8i8 `doc` , o

    body  ,	}
")).
Eval vm_compute in ("<<<M3997>>>" ++ check (runes_of_ascii "MetaData MetaDataX {
    stringy chars,
    Z9_ Foo,
}

options {
}// " ++ [27880; 37322]%N ++ runes_of_ascii "

packet x_y_z {
}

packet stringy {
    uint64 packetx,
    o,
    metadata MetaDataX,
    repeat float32 len,
    i64_,
}

options {
}")).
Eval vm_compute in ("<<<M3955>>>" ++ check (runes_of_ascii "
root

    packet 
msg_type 
    // " ++ [27880; 37322]%N ++ runes_of_ascii "
//	t
		{string
    lengthOf

    `a\` , @tag(
    65535

)
	rootA

calculatedFrom	, char[] crc
`{ , }`
, zchar[
    // c
		//	t
    65535 
]  msg_type,	}
")).
Eval vm_compute in ("<<<M155>>>" ++ check (runes_of_ascii "packet pack
    { @calculatedFrom(
""CRC32""
) i8i8 { MetaDataX @lengthOf( x
//x
// packet A { u8 x, }
), char As @lengthOf( len	) ,
// " ++ [128512]%N ++ runes_of_ascii " emoji
//x
chars metadata `say ""hi""` , char[ 0] int ,}, }
")).
Eval vm_compute in ("<<<M4462>>>" ++ check (runes_of_ascii "// " ++ [128512]%N ++ runes_of_ascii " emoji
MetaData Foo {
}

MetaData x {
}

MetaData zchar {
    options1 f32a,
    int32 stringy,
    string msg_type `
    `,
    string T,
    a1 trueish `{ , }`,
    f32 BodyLength,
}")).
Eval vm_compute in ("<<<M3574>>>" ++ check (runes_of_ascii "packet 
BodyLength

{
repeat u128 charz  ,
i64

    i64_
@lengthOf( asx  ) ,repeat
    i64_ {repeat int
    `u8 x,`
,	//	t
  	}
    , repeat
	float32 pack
    `" ++ [233]%N ++ runes_of_ascii "`

    ,
    }
")).
Eval vm_compute in ("<<<M1080>>>" ++ check (runes_of_ascii "packet
// `tick` ""quote"" 'q'
// " ++ [27880; 37322]%N ++ runes_of_ascii "
len
{
match x as  pack { // @lengthOf(
3 : MetaDataX 255
    :Foo , 00
:
o
}, @calculatedFrom(  ""CRC32"" ) u128@lengthOf(packetx	) ,
}")).
Eval vm_compute in ("<<<M3659>>>" ++ check (runes_of_ascii "options {
    len = true;
    MetaDataX = zchar[00]
    lengthOf = '0';
    Pad = ""packet"";
    x_y_z = ""a\""b"";
}

packet calculatedFrom {
    repeat matchKey Foo,
}")).
Eval vm_compute in ("<<<M1104>>>" ++ check (runes_of_ascii "packet
As {u128 MetaDataX , char[
3
] falsey ,  } options { falsey
    /// triple
    = ""it's""	;
}MetaData a1
{u8x A , matchKey _x `" ++ [28040; 24687; 31867; 22411]%N ++ runes_of_ascii "` ,
    string T
, }")).
Eval vm_compute in ("<<<M4493>>>" ++ check (runes_of_ascii "
options{ 
charz
= 
00
;
leftPad
    =

zchar[0123456789

]
; 
//x
  	/// triple
} options	{
falsey
    =
u32;
}	root

    packet

float

{
}
")).
Eval vm_compute in ("<<<M4465>>>" ++ check (runes_of_ascii "
packet
    calculatedFrom

    {  @tag( 
4294967296

) 	 // c
u 
msg_type 
,
char[

3 ] crc  @lengthOf(
len

    ) `u8 x,`

    ,
    } ")).
Eval vm_compute in ("<<<M4163>>>" ++ check (runes_of_ascii "

  packet

    calculatedFrom
	{
@tag(  4294967296

) 
u

    msg_type , char[  3

    ]
crc
@lengthOf(
len )
`u8 x,`  ,
}	// c
")).
Eval vm_compute in ("<<<M309>>>" ++ check (runes_of_ascii "options {
Pad = // " ++ [27880; 37322]%N ++ runes_of_ascii "
3 ; float =
false
    // packet A { u8 x, }
    ;
Z9_ =""packet""	chars=
""a\""b"" float=
""a\\""} MetaData zchar { } 	 ")).
Eval vm_compute in ("<<<M3604>>>" ++ check (runes_of_ascii "packet
    calculatedFrom
{
    @tag( 
    // c

	4294967296
    )
	u	msg_type	,char[
	3 ]crc
	@lengthOf(
len
    )
`u8 x,` 
,	}

")).
Eval vm_compute in ("<<<M3435>>>" ++ check (runes_of_ascii "
packet	B
{
	u8 a	, 
}

    root

packet P {  u8  K , 
u8
    L @lengthOf(
Body)

,	match
K as Body
{  1

    :B,  }	,
	} ")).
Eval vm_compute in ("<<<M1699>>>" ++ check (runes_of_ascii "root packet /// triple
rootA {	i32
MetaDataX@calculatedFrom( ""CRC32"" ) `line1
line2` , } MetaData BodyLength {
rootA
u8, } // c")).
Eval vm_compute in ("<<<M1628>>>" ++ check (runes_of_ascii "} packet /// triple
rootA {	i32
MetaDataX@calculatedFrom( ""CRC32"" ) `line1
line2` , } MetaData BodyLength {
u8
rootA, } // c")).
Eval vm_compute in ("<<<M723>>>" ++ check (runes_of_ascii "packet
    // @lengthOf(
    roots { u32 calculatedFrom @calculatedFrom(
""\" ++ [233]%N ++ runes_of_ascii """ // @lengthOf(
) // `tick` ""quote"" 'q'
, }

")).
Eval vm_compute in ("<<<M1838>>>" ++ check (runes_of_ascii "packet
    Pad // a // b
{ i8i8 @calculatedFrom( ""a	b"") `u8 x,` ,
} options true float// " ++ [128512]%N ++ runes_of_ascii " emoji
= f64 i64_
=//	t
00 }
")).
Eval vm_compute in ("<<<M1826>>>" ++ check (runes_of_ascii "packet
    Pad // a // b
{ i8i8 @calculatedFrom( ""a	b"") `u8 x,` ,
} } options{ float// " ++ [128512]%N ++ runes_of_ascii " emoji
= f64 i64_
=//	t
00 }
")).
Eval vm_compute in ("<<<M3970>>>" ++ check (runes_of_ascii "MetaData string_ {
    char[0123456789] Pad,
    u128 Header ``,
    Foo u8x,
    leftPad trueish,
    char[1] i64_,
}")).
Eval vm_compute in ("<<<M3023>>>" ++ check (runes_of_ascii "packet A {
    Inner {
        u8 x `a
    b
  c`,
        Deep {
            u8 y `a
    b
  c`,
        },
    },
}")).
Eval vm_compute in ("<<<M3052>>>" ++ check (runes_of_ascii "packet A {
    match k as n {
        ""x\
y"" : B,
        [""x\
y"", 1] : C,
        [1,2,3,4,5,""x\
y""] : D,
    },
}")).
Eval vm_compute in ("<<<M1840>>>" ++ check (runes_of_ascii "packet
    Pad // a // b
{ i8i8 @calculatedFrom( ""a	b"") `u8 x,` ,
} options{ // " ++ [128512]%N ++ runes_of_ascii " emoji
= f64 i64_
=//	t
00 }
")).
Eval vm_compute in ("<<<M48>>>" ++ check (runes_of_ascii "//x
packet uint8x { u8 // packet A { u8 x, }
roots `a\`	, match len
as charz{
[ 3 , """" ] : Z9_
,
    } , }
")).
Eval vm_compute in ("<<<M2966>>>" ++ check (runes_of_ascii "packet A {
  match k as n {
    [""a"", ""bb"", ""c c"", ""d"", ""e"", ""f"", ""g"", ""h"", ""i"", ""j""] : B
    2 : C
  },
}")).
Eval vm_compute in ("<<<M4396>>>" ++ check (runes_of_ascii "packet o {
    @tag(42)
    repeat x {
        // c
        char[0123456789] i64_,
    },
}

options {
}")).
Eval vm_compute in ("<<<M3362>>>" ++ check (runes_of_ascii "packet calculatedFrom { @tag( 4294967296 ) u msg_type , char[ 3 ]
// c
crc @lengthOf( len ) `u8 x,` , }")).
Eval vm_compute in ("<<<M2980>>>" ++ check (runes_of_ascii "packet A {
  match k as n {
    [1, ""bb"", 007, ""d"", 5, ""f"", 7, ""h"", 9, ""j"", 11] : B,
    2 : C
  },
}")).
Eval vm_compute in ("<<<M572>>>" ++ check (runes_of_ascii "MetaData //	t
calculatedFrom {	uint32 trueish`crlf
line`
, i32 roots `doc`
,float64 lengthOf
,}")).
Eval vm_compute in ("<<<M393>>>" ++ check (runes_of_ascii "MetaData len {
i64
tag `// not a comment`
, int32 i8i8
,
crc
    i8i8 `{ , }` ,} // @lengthOf(")).
Eval vm_compute in ("<<<M3238>>>" ++ check (runes_of_ascii "packet Logon { @tag( 42 ) @rightPad ( ' ' ) @leftPad ( // c
) repeat trueish { string T , } , }")).
Eval vm_compute in ("<<<M2971>>>" ++ check (runes_of_ascii "packet A {
  match k as n {
    [1, 22, ""c c"", 4, 5, ""f"", 7, 8, ""i"", 10] : B,
    2 : C
  },
}")).
Eval vm_compute in ("<<<M2299>>>" ++ check (runes_of_ascii "MetaData Packet { }packet	asx  { @lengthOf( asx) falsey`crlf
line`
,
    }
    packet x	{")).
Eval vm_compute in ("<<<M2959>>>" ++ check (runes_of_ascii "packet A {
  match k as n {
    [1, 22, ""c c"", 4, 5, ""f"", 7, 8, ""i""] : B
    2 : C
  },
}")).
Eval vm_compute in ("<<<M3021>>>" ++ check (runes_of_ascii "packet A {
    B b `a
    b
  c`,
    B `a
    b
  c`,
    repeat B bs `a
    b
  c`,
}")).
Eval vm_compute in ("<<<M4391>>>" ++ check (runes_of_ascii "

  // c
MetaData

    _x

{	zchar[ 4294967296	]
    lengthOf`// not a comment`,
}
")).
Eval vm_compute in ("<<<M2001>>>" ++ check (runes_of_ascii "root
packet crc
    { f32a @calculatedFrom( """ ++ [233]%N ++ runes_of_ascii "t" ++ [233]%N ++ runes_of_ascii """ )
    `say ""hi""` lengthOf `` ,  }")).
Eval vm_compute in ("<<<M2024>>>" ++ check (runes_of_ascii "root
packet crc
    { f32a @calculatedFrom( """ ++ [233]%N ++ runes_of_ascii "t" ++ [233]%N ++ runes_of_ascii """ )
    `say ""hi""`, lengthOf `` ,")).
Eval vm_compute in ("<<<M3305>>>" ++ check (runes_of_ascii "packet o { @tag( 42 )
// c
repeat x { char[ 0123456789 ] i64_ , } , } options { }")).
Eval vm_compute in ("<<<M4457>>>" ++ check (runes_of_ascii "root packet options1 {
    @calculatedFrom(""" ++ [128512]%N ++ runes_of_ascii """)
    u8x @calculatedFrom(""a\\""),
}")).
Eval vm_compute in ("<<<M3779>>>" ++ check (runes_of_ascii "MetaData M {
    u8 x `a
        
        b`,
    T t `a
        
        b`,
}")).
Eval vm_compute in ("<<<M989>>>" ++ check (runes_of_ascii "packet falsey {
} options{
}
    options{
body
= '0' } MetaData o
{
    }
")).
Eval vm_compute in ("<<<M2906>>>" ++ check (runes_of_ascii "packet A {
  match k as n {
    [1, 22, ""c c"", 4, 5] : B,
    2 : C
  },
}")).
Eval vm_compute in ("<<<M146>>>" ++ check (runes_of_ascii "// `tick` ""quote"" 'q'
options { leftPad =float32
} root
packet o
{ }
")).
Eval vm_compute in ("<<<M3397>>>" ++ check (runes_of_ascii "MetaData _x // c
{ zchar[ 4294967296 ] lengthOf `// not a comment` , }")).
Eval vm_compute in ("<<<M3633>>>" ++ check (runes_of_ascii "packet falsey{ } 
options	{}options 
{
body = 
'0'
	} MetaData

o{

}")).
Eval vm_compute in ("<<<M1032>>>" ++ check (runes_of_ascii "options { Logon
=
    /// triple
    4294967296 metadata = """ ++ [28040; 24687]%N ++ runes_of_ascii """ }
")).
Eval vm_compute in ("<<<M3009>>>" ++ check (runes_of_ascii "packet A {
    B b `a
b`,
    B `a
b`,
    repeat B bs `a
b`,
}")).
Eval vm_compute in ("<<<M3268>>>" ++ check (runes_of_ascii "options { // c1
u8x // c2a
  // c2b
= // c3a
  // c3b
3 } // c5
")).
Eval vm_compute in ("<<<M546>>>" ++ check (runes_of_ascii "options
// c
// a // b
{
packetx=
    1 ;
    body =char[] }")).
Eval vm_compute in ("<<<M1210>>>" ++ check (runes_of_ascii "options
    {matchKey // `tick` ""quote"" 'q'
='0' // " ++ [27880; 37322]%N ++ runes_of_ascii "
; }
")).
Eval vm_compute in ("<<<M1906>>>" ++ check (runes_of_ascii "
packet	As { { @calculatedFrom(//x
""{,}""	)lengthOf , } 	 ")).
Eval vm_compute in ("<<<M1954>>>" ++ check (runes_of_ascii "
packet	As { @calculatedFrom(//x
""{,}""	)le""ngthOf , } 	 ")).
Eval vm_compute in ("<<<M4127>>>" ++ check (runes_of_ascii "packet A {
    u8 x,
}// a

// b
packet B {
}// c
// d")).
Eval vm_compute in ("<<<M3048>>>" ++ check (runes_of_ascii "MetaData M {
    u8 x `tab
	x`,
    T t `tab
	x`,
}")).
Eval vm_compute in ("<<<M1329>>>" ++ check (runes_of_ascii "packet As  {
//x
// " ++ [128512]%N ++ runes_of_ascii " emoji
repeat
char zchar , }")).
Eval vm_compute in ("<<<M4239>>>" ++ check (runes_of_ascii "  MetaData zchar
{	// c
    zchar[ 3 ]
Pad  , }")).
Eval vm_compute in ("<<<M4492>>>" ++ check (runes_of_ascii "
// c
	MetaData
zchar 
{	zchar[ 3 ]
	Pad

,}
")).
Eval vm_compute in ("<<<M2647>>>" ++ check (runes_of_ascii "MetaData M { u8 x `d` , y z `e`, char[3] w, }")).
Eval vm_compute in ("<<<M1155>>>" ++ check (runes_of_ascii "MetaData	u8x {
// a // b
// c
chars crc, }
")).
Eval vm_compute in ("<<<M76>>>" ++ check (runes_of_ascii "options { repeatCount= 00 ; }
// " ++ [128512]%N ++ runes_of_ascii " emoji
")).
Eval vm_compute in ("<<<M2110>>>" ++ check (runes_of_ascii "MetaData x
{ {// " ++ [128512]%N ++ runes_of_ascii " emoji
i16 stringy , }")).
Eval vm_compute in ("<<<M3205>>>" ++ check (runes_of_ascii "MetaData zchar { zchar[ 3 ] Pad ,
// c
}")).
Eval vm_compute in ("<<<M1738>>>" ++ check (runes_of_ascii " { }options {  } // `tick` ""quote"" 'q'")).
Eval vm_compute in ("<<<M2109>>>" ++ check (runes_of_ascii "MetaData x
// " ++ [128512]%N ++ runes_of_ascii " emoji
i16 stringy , }")).
Eval vm_compute in ("<<<M197>>>" ++ check (runes_of_ascii "  options { leftPad =	""it's""
    }
")).
Eval vm_compute in ("<<<M3843>>>" ++ check (runes_of_ascii "
options

{	falsey
    = false
	} ")).
Eval vm_compute in ("<<<M3128>>>" ++ check (runes_of_ascii "packet A {
 u8 x `d 	`, // c 	
}")).
Eval vm_compute in ("<<<M2085>>>" ++ check (runes_of_ascii "MetaD'\x01'ata A { u64 pack, }")).
Eval vm_compute in ("<<<M1641>>>" ++ check (runes_of_ascii "root packet /// triple
rootA")).
Eval vm_compute in ("<<<M3002>>>" ++ check (runes_of_ascii "packet A {
    u8 x `a
b`,
}")).
Eval vm_compute in ("<<<M288>>>" ++ check (runes_of_ascii "packet
repeatCount {
    }")).
Eval vm_compute in ("<<<M1720>>>" ++ check (runes_of_ascii "root packet /// triple
r")).
Eval vm_compute in ("<<<M1034>>>" ++ check (runes_of_ascii "root packet a1 //	t
{ }")).
Eval vm_compute in ("<<<M3386>>>" ++ check (runes_of_ascii "packet lengthOf { // c
}")).
Eval vm_compute in ("<<<M319>>>" ++ check (runes_of_ascii "MetaData
    i64_ { }
")).
Eval vm_compute in ("<<<M2075>>>" ++ check (runes_of_ascii "MetaData A { u64 pack")).
Eval vm_compute in ("<<<M2768>>>" ++ check (runes_of_ascii "} float64 ""a	b"" : u8")).
Eval vm_compute in ("<<<M3994>>>" ++ check (runes_of_ascii "

  packet float{} ")).
Eval vm_compute in ("<<<M3076>>>" ++ check (runes_of_ascii "packet A {
}
// c" ++ [133]%N)).
Eval vm_compute in ("<<<M1063>>>" ++ check (runes_of_ascii "packet x_y_z {
}
")).
Eval vm_compute in ("<<<M3129>>>" ++ check (runes_of_ascii "packet A {
}// c" ++ [8203]%N)).
Eval vm_compute in ("<<<M2491>>>" ++ check (runes_of_ascii "@calculatedFrom")).
Eval vm_compute in ("<<<M3649>>>" ++ check (runes_of_ascii "
options
{ } ")).
Eval vm_compute in ("<<<M2483>>>" ++ check (runes_of_ascii "@centerPad")).
Eval vm_compute in ("<<<M1904>>>" ++ check (runes_of_ascii "
packet")).
Eval vm_compute in ("<<<M2555>>>" ++ check (runes_of_ascii "// " ++ [233]%N ++ runes_of_ascii "
" ++ [21517]%N)).
Eval vm_compute in ("<<<M2786>>>" ++ check ([65533; 17; 65533; 31; 65533]%N)).
Eval vm_compute in ("<<<M2488>>>" ++ check (runes_of_ascii "@tag")).
Eval vm_compute in ("<<<M2521>>>" ++ check (runes_of_ascii "`\`")).
Eval vm_compute in ("<<<M2518>>>" ++ check (runes_of_ascii "`a")).
Eval vm_compute in ("<<<M2763>>>" ++ check ([65533]%N)).
