From FP Require Import Lexer Parser ShowPT Digest Formatter.
From Coq Require Import String List NArith.
Import ListNotations.
Open Scope string_scope.
Set Printing Width 100000000.
Set Printing Depth 100000000.
Definition show_fres (r : fres) : string :=
  match r with
  | FOk s => "OK:" ++ sh_escaped s ""
  | FErr s => "ERR:" ++ sh_escaped s ""
  | FPanic p => "PANIC:" ++ p
  end.
Definition check (rs : list rune) : string := digest (show_fres (format_res rs)).
Definition full (rs : list rune) : string := show_fres (format_res rs).
Eval vm_compute in ("<<<M88>>>" ++ check (runes_of_ascii "options  { BodyLength
=
    string; trueish	=""it's"" i8i8
    =  ""// no comment""
    // trailing space 
    roots
// a // b
// packet A { u8 x, }
=// `tick` ""quote"" 'q'
""" ++ [28040; 24687]%N ++ runes_of_ascii """ ;// a // b
falsey = '\x00' ; } packet metadata{
    packetx
    { repeat rootA x_y_z `tab	here` , repeat pack
, Logon {
    u16 msg_type , u8 BodyLength
`
`,
zchar[
3 ] int  ,} ,
a1
T, }
, // `tick` ""quote"" 'q'
repeat f32 o `crlf
line`
, i32 rootA, int32  matchKey , @leftPad
// a // b
// @lengthOf(
( )
x_y_z {	match body	as	u8x
    { [ ""{,}"" ]:u8x	, 3:
u8x , 4294967296: As ,
[ ""CRC32"" ]:A
,
255 // packet A { u8 x, }
: body
    //
    , // c
42
    :
x_y_z }
, } , repeat
body float
, } // trailing space 
packet trueish
{ stringy @lengthOf( float )	`{ , }`
,repeat// packet A { u8 x, }
i64_ ,
    uint16 string_
    // `tick` ""quote"" 'q'
    @calculatedFrom(
""\" ++ [233]%N ++ runes_of_ascii """)
`
`	, // a // b
@tag( 0123456789)char[
    //x
    4294967296 ]
    calculatedFrom @lengthOf( int )`line1
line2`	, // packet A { u8 x, }
match rootA as asx
{	""\" ++ [233]%N ++ runes_of_ascii """: f32a, ""\n"" :
    rootA [ ""a\\""
//
//
, 0123456789 ] : crc
,1 : msg_type , ""a	b"" :stringy// packet A { u8 x, }
, }
    // " ++ [27880; 37322]%N ++ runes_of_ascii "
    ,repeat len	{ string_{i16 _x , _x { repeat uint8x a1
, char[ 42
    ]	zchar
    `say ""hi""` , zchar[ 7  ] uint8x ,
}
    ,repeat i8i8 body, }
    // " ++ [128512]%N ++ runes_of_ascii " emoji
    , uint8
T	@lengthOf(
repeatCount ), } ,}root packet asx { @calculatedFrom(	""x y""
)
repeat pack ,repeat string_ { u8 metadata
,} ,  @calculatedFrom( ""abc"" )	roots
@lengthOf(
    T
) `` , match asx as uint8x
{ 3: u8x, }
    // a // b
    ,// trailing space 
u8x@calculatedFrom( ""{,}"" ) , } packet o // " ++ [128512]%N ++ runes_of_ascii " emoji
{ string Logon ,charz metadata , match// c
len as
float{
255
    :
    //	t
    uint8x , ""CRC32"": As ,
    1
    : body , 7
:	options1 ,[	""" ++ [128512]%N ++ runes_of_ascii """,""it's"" //
]:
    repeatCount}, @leftPad ( ) @calculatedFrom( ""x y"" )  @leftPad(  ' ' )repeat lengthOf,zchar[
42  ]
    Logon@calculatedFrom(// packet A { u8 x, }
"""" ), }
//x
")).
Eval vm_compute in ("<<<M1484>>>" ++ check (runes_of_ascii "

  packet
    tag  { repeat stringy
{repeat  i32	lengthOf 
,// trailing space 
    string

    msg_type// " ++ [27880; 37322]%N ++ runes_of_ascii "
	@calculatedFrom(  // " ++ [128512]%N ++ runes_of_ascii " emoji
    	""// no comment""
)

    `" ++ [233]%N ++ runes_of_ascii "`	,zchar 
{ x 
@calculatedFrom( """ ++ [28040; 24687]%N ++ runes_of_ascii """
)

    ,
repeat

u8x

    len	, zchar[ 255

]  i8i8 , } ,
x @calculatedFrom(

    ""CRC32"" ) ``

    ,
	}  ,
	packetx 
//	t
  //	t
u8x ,
@calculatedFrom( 
""packet""  )zchar[007	] body
    @calculatedFrom(
    ""CRC32""
)

,
@lengthOf(

x_y_z  /// triple
	)  char[]
int `" ++ [28040; 24687; 31867; 22411]%N ++ runes_of_ascii "` ,  zchar[
	42
    ]

    Logon
    @calculatedFrom( ""// no comment""),int8
    f32a  ,
    }packet 
As  {
@calculatedFrom(
""it's""
	)	int64
msg_type
    @calculatedFrom(  ""a\""b""
)	`it's`
    ,
	i8i8 pack
, tag { i64 _x, match As
    as
f32a
{  // trailing space 

007	:
_x ,
0123456789
:
metadata

,
	}
, } ,

@lengthOf(	body )

    repeat 
u8
f32a
    ``
,
	char[] Pad

    `line1
line2`,
@lengthOf(
msg_type )  string
len  ,	@lengthOf(
    a1

    ) @tag(
	00  )
	@rightPad
	(
    '\x00') 
char[

65535

]
Header	,  // trailing space 
	@calculatedFrom(  
      // a // b

""1""

)
	@calculatedFrom(
	""a\\""  )

// @lengthOf(
      @lengthOf(  body 
	    //
	// " ++ [27880; 37322]%N ++ runes_of_ascii "
    )

i8 
x_y_z
    ,
}root packet a1 { 
} packet A{

} 
	// " ++ [128512]%N ++ runes_of_ascii " emoji
    packet 
calculatedFrom {  }
")).
Eval vm_compute in ("<<<M2029>>>" ++ check (runes_of_ascii "packet zchar {
    i8 uint8x `a\`,
    match leftPad as matchKey {
        007 : f32a,
        7 : falsey,
        3 : _x,
        [""1""] : u8x,
        //	t
        ""it's"" : i8i8,
        10 : pack,
    },
    repeat string rootA `say ""hi""`,
    repeat int32 repeatCount `" ++ [233]%N ++ runes_of_ascii "`,
    @lengthOf(calculatedFrom)
    zchar[4294967296] T,
    @tag(4294967296)
    crc @calculatedFrom(""""),
    @calculatedFrom(""abc"")
    u8x @lengthOf(o) `crlf
    line`,
}

packet T {
    i64 repeatCount,
    calculatedFrom pack,
    @calculatedFrom(""`tick`"")
    f32a Foo,
    match body as string_ {
        ""packet"" : uint8x,
        // @lengthOf(
        """ ++ [128512]%N ++ runes_of_ascii """ : body,
        007 : Logon,
        ""it's"" : leftPad,
        [""x y"", 255, ""\" ++ [233]%N ++ runes_of_ascii """, 1, 0123456789] : options1,
    },
    @rightPad('\x00')
    // packet A { u8 x, }
    match As as roots {
        4294967296 : len,
        """ ++ [28040; 24687]%N ++ runes_of_ascii """ : msg_type,
    },
    f32 chars,
    // `tick` ""quote"" 'q'
    // @lengthOf(
    repeat calculatedFrom,
    @calculatedFrom(""x y"")
    f32 roots `{ , }`,
}

root packet calculatedFrom {
}")).
Eval vm_compute in ("<<<M101>>>" ++ check (runes_of_ascii "MetaData
    asx
{ }
    options{
body =
//x
// @lengthOf(
char[] ;// @lengthOf(
repeatCount =true ;
    packetx= ""a\""b""; float
=
""x y"" ; zchar
    // @lengthOf(
    = ""\" ++ [233]%N ++ runes_of_ascii """ ; } MetaData _x{
u16 falsey  `` , } root packet
    metadata {  }	packet Foo { repeat
    // trailing space 
    u128
    , @tag(// trailing space 
7
) uint16
MetaDataX
    , @tag(1 )
    /// triple
    falsey `say ""hi""` , @rightPad ( //	t
) @tag(3 ) u , @lengthOf( roots// " ++ [128512]%N ++ runes_of_ascii " emoji
) match body as repeatCount
{ ""CRC32"" // " ++ [27880; 37322]%N ++ runes_of_ascii "
: asx  , 42	:  msg_type
} ,// packet A { u8 x, }
stringy {repeat char[
    // c
    3
] uint8x ,	match
Logon
as	A{ ""abc"" :i8i8 , }  ,match BodyLength as len
    { [0123456789 ,
//
// @lengthOf(
007
    ,4294967296,""{,}""
]:// " ++ [128512]%N ++ runes_of_ascii " emoji
Foo , } //	t
, } , @leftPad ( '0'  ) uint8x
@lengthOf(i8i8) ,//	t
_x
    {repeat x  `line1
line2` , }, @tag( 42 )
falsey
    // trailing space 
    u128 // trailing space 
, int64 MetaDataX ,}
")).
Eval vm_compute in ("<<<M1603>>>" ++ check (runes_of_ascii "options {
    LittleEndian = false;
    StringPrefixLenType = u16;
    ArrayPrefixLenType = u64;
    FixedStringPadFromLeft = true;
    FixedStringPadChar = ' ';
}

packet Logon {
    u16 Tail,
    repeat string x,
    i16 count,
    @leftPad('0')
    char[3] Note,
}

packet Fill {
}

packet Heartbeat {
}

packet Reject {
    string msgKind,
    repeat Logon,
    InFlags25 {
        repeat InPrice29 {
            u8 price,
            Logon,
            repeat char[1] Note,
        },
        char[] x,
        Fill,
    },
    repeat Heartbeat,
}

root packet Order {
    InNote88 {
        repeat i32 Acct,
        repeat i16 clOrdID,
        repeat Logon,
    },
    u16 tag7,
    match tag7 as Body {
        [14, 22] : Logon,
        55 : Heartbeat,
        93 : Reject,
        13 : Fill,
    },
}")).
Eval vm_compute in ("<<<M1538>>>" ++ check (runes_of_ascii "options {
    LittleEndian = false;
    StringPrefixLenType = u16;
    ArrayPrefixLenType = u32;
}

packet Order {
    uint8 x,
    repeat string venue,
}

packet Heartbeat {
    i64 count,
    zchar[1] Qty,
    repeat InX29 {
        InSeqno26 {
            int64 f1,
            char[5] Acct,
            Order,
        },
        repeat InSide285 {
            repeat Order,
            char[10] Px,
            zchar[9] OrderId,
        },
        char[] venue,
        Order,
    },
    @rightPad('\x00')
    char[4] clOrdID,
}

root packet Party {
    zchar[3] f1,
    u32 clOrdID,
    u32 Px @lengthOf(Body),
    match clOrdID as Body {
        [180, 64] : Heartbeat,
        11 : Order,
    },
    u32 Side2 @calculatedFrom(""CRC32""),
}")).
Eval vm_compute in ("<<<M1478>>>" ++ check (runes_of_ascii "// top
options // c0
{
    // c1
LittleEndian // c2a
  // c2b
=
    // c3
true // c4
; // c5
} // c6
packet Logon // c8a
  // c8b
{ u8
    // c10
x
    // c11
, string
    // c13
user // c14a
  // c14b
, // c15a
  // c15b
} // c16a
  // c16b
packet // c17
Logout // c18
{ // c19
u16 reason , // c22
} // c23
packet // c24a
  // c24b
Empty
    // c25
{ // c26
} root
    // c28
packet // c29a
  // c29b
Frame
    // c30
{
    // c31
u16 // c32
MsgType // c33
, // c34
@lengthOf( // c35
Body
    // c36
) // c37
u8
    // c38
BodyLen , // c40
u8 // c41
flags // c42
, Logon // c44a
  // c44b
Body , u32 // c47a
  // c47b
trailer
    // c48
, // c49a
  // c49b
} // c50
")).
Eval vm_compute in ("<<<M1595>>>" ++ check (runes_of_ascii "//
packet chars {
    int16 int,
    match calculatedFrom as zchar {
        4294967296 : i8i8,
        [""// no comment""] : stringy,
        ""a\""b"" : u128,
        007 : msg_type,
        65535 : a1,
        """" : u128,
    },
    Packet @lengthOf(f32a) `it's`,
    int16 stringy `u8 x,`,
    roots @lengthOf(trueish),
    match charz as A {
        10 : A,
    },
    string Header @calculatedFrom(""`tick`"") `doc`,
}

MetaData roots {
    asx metadata,
    int64 MetaDataX,
    char[42] o `// not a comment`,
    f32 packetx,
    rootA As `it's`,
    msg_type tag,
}")).
Eval vm_compute in ("<<<M167>>>" ++ check (runes_of_ascii "root
packet i64_{
    packetx
// " ++ [128512]%N ++ runes_of_ascii " emoji
// " ++ [27880; 37322]%N ++ runes_of_ascii "
{	string zchar // c
@calculatedFrom(
""`tick`""
    )
    `
`
, zchar[1 ]  metadata	`doc`	, Foo
    @calculatedFrom(
""CRC32""
    )
    ,}
    //	t
    ,char[]roots `crlf
line`
//	t
//x
, @calculatedFrom(""it's"" )  char
    rootA
    ,
@tag( 7 )
    charz o //x
`it's`
, // a // b
char[ 007] msg_type@lengthOf(x_y_z )
,
    repeat //	t
zchar[ 007 ]repeatCount `say ""hi""` , match i64_ as rootA
{ [""abc"" ] :T }
, repeat chars ,  }
")).
Eval vm_compute in ("<<<M1348>>>" ++ check (runes_of_ascii "// top
packet
    // c0
B // c1
{
    // c2
u8 a // c4a
  // c4b
,
    // c5
} // c6a
  // c6b
root packet // c8
P // c9
{
    // c10
u8 K
    // c12
, // c13
u8 // c14a
  // c14b
L // c15a
  // c15b
@lengthOf( // c16a
  // c16b
Body
    // c17
)
    // c18
, // c19
match // c20a
  // c20b
K // c21a
  // c21b
as
    // c22
Body // c23a
  // c23b
{ // c24a
  // c24b
1 : // c26
B , }
    // c29
, // c30
} // c31a
  // c31b
")).
Eval vm_compute in ("<<<M22>>>" ++ check (runes_of_ascii "packet  Pad{
@leftPad ( '0' ) @calculatedFrom( ""`tick`""
    )// @lengthOf(
match
    i64_ as x
    {
    /// triple
    00: zchar
    , } , i8i8 o // " ++ [27880; 37322]%N ++ runes_of_ascii "
,char[] _x
, repeat zchar[007 ] trueish
    ,zchar @lengthOf( trueish)`{ , }`
,// c
@calculatedFrom(""a\""b"") @tag( 1 ) trueish zchar ,
char[
    3 ] rootA @calculatedFrom(
    ""a\""b"" )
`tab	here`
//	t
// trailing space 
,
}")).
Eval vm_compute in ("<<<M58>>>" ++ check (runes_of_ascii "
MetaData// `tick` ""quote"" 'q'
asx
{
    // packet A { u8 x, }
    char
// @lengthOf(
//x
Z9_ , } options{ Pad
= '0' /// triple
} options { trueish = ""it's"" matchKey =
    false
    ; T = float32 ;
    /// triple
    len= ' ' ; string_
=
    i16 ; } root// `tick` ""quote"" 'q'
packet f32a{char[]
    // trailing space 
    u8x
    , }")).
Eval vm_compute in ("<<<M1655>>>" ++ check (runes_of_ascii "packet body {
    @rightPad('0')
    Packet a1,
    asx,
    repeatCount {
        // trailing space 
        repeat int64 falsey,
    },
    @rightPad('0')
    match int as T {
        4294967296 : _x,
        00 : string_,
        [""x y""] : stringy,
    },// packet A { u8 x, }
    uint32 x_y_z,
}")).
Eval vm_compute in ("<<<M1411>>>" ++ check (runes_of_ascii "  packet 
P1{

    u8

a 
,}	packet
P2 {
    P1	,} packet
P3 {
P2
,
P1	,}  packet
    P4

    {
repeat P3
,	P2 ,}
root	packet P5

{ 
P4,

    P3

,P1 ,	u8  K

    ,
    match  K	as  Body	{

4 :	P4

,	3
:P3

    , 
2 : P2

,
    1
:

P1 ,

    } ,} ")).
Eval vm_compute in ("<<<M82>>>" ++ check (runes_of_ascii "packet
x { char matchKey
    @lengthOf( x_y_z ) //
, }packet	trueish  {
    @tag( 255
    )
char calculatedFrom @lengthOf( Header ) , }
    MetaData options1
    // trailing space 
    { }
packet MetaDataX {
    }
    packet trueish{	}")).
Eval vm_compute in ("<<<M472>>>" ++ check (runes_of_ascii "options
{
matchKey = 42/// triple
x='0' ;
// packet A { u8 x, }
//
charz
=
// packet A { u8 x, }
// trailing space 
true  ; } MetaData BodyLength
{
uint8 uint8
pack,zchar[ 1]float ,  float32 x_y_z `` ,u32
_x,i16 body  , }
")).
Eval vm_compute in ("<<<M394>>>" ++ check (runes_of_ascii "options
u64
matchKey = 42/// triple
x='0' ;
// packet A { u8 x, }
//
charz
=
// packet A { u8 x, }
// trailing space 
true  ; } MetaData BodyLength
{
uint8
pack,zchar[ 1]float ,  float32 x_y_z `` ,u32
_x,i16 body  , }
")).
Eval vm_compute in ("<<<M504>>>" ++ check (runes_of_ascii "options
{
matchKey = 42/// triple
x='0' ;
// packet A { u8 x, }
//
charz
=
// packet A { u8 x, }
// trailing space 
true  ; } MetaData BodyLength
{
uint8
pack,zchar[ 1]string ,  float32 x_y_z `` ,u32
_x,i16 body  , }
")).
Eval vm_compute in ("<<<M479>>>" ++ check (runes_of_ascii "options
{
matchKey = 42/// triple
x='0' ;
// packet A { u8 x, }
//
charz
=
// packet A { u8 x, }
// trailing space 
true  ; } MetaData BodyLength
{
uint8
true,zchar[ 1]float ,  float32 x_y_z `` ,u32
_x,i16 body  , }
")).
Eval vm_compute in ("<<<M390>>>" ++ check (runes_of_ascii "int16
{
matchKey = 42/// triple
x='0' ;
// packet A { u8 x, }
//
charz
=
// packet A { u8 x, }
// trailing space 
true  ; } MetaData BodyLength
{
uint8
pack,zchar[ 1]float ,  float32 x_y_z `` ,u32
_x,i16 body  , }
")).
Eval vm_compute in ("<<<M387>>>" ++ check (runes_of_ascii "
{
matchKey = 42/// triple
x='0' ;
// packet A { u8 x, }
//
charz
=
// packet A { u8 x, }
// trailing space 
true  ; } MetaData BodyLength
{
uint8
pack,zchar[ 1]float ,  float32 x_y_z `` ,u32
_x,i16 body  , }
")).
Eval vm_compute in ("<<<M336>>>" ++ check (runes_of_ascii "packet
    a1//	t
{ @tag( 10 )	match x
    as float { 007
: falsey
    , }	,}
options
    { uint8x  = false ; } MetaData
    rootA
    {
//	t
// packet A { u8 x, }
u32 i64_	,zchar[ 42] zchar, }
")).
Eval vm_compute in ("<<<M662>>>" ++ check (runes_of_ascii "// c
packet i64_ {	char[] calculatedFrom , } packet
trueish  {@calculatedFrom(
""a\\"" ) o { i32 falsey@lengthOf( uint8x ),
} , } // `tick` ""quote"" 'q'
options {// c
Z9_ Z9_ = ' '//
}
")).
Eval vm_compute in ("<<<M717>>>" ++ check (runes_of_ascii "// c
i64_ packet {	char[] calculatedFrom , } packet
trueish  {@calculatedFrom(
""a\\"" ) o { i32 falsey@lengthOf( uint8x ),
} , } // `tick` ""quote"" 'q'
options {// c
Z9_ = ' '//
}
")).
Eval vm_compute in ("<<<M681>>>" ++ check (runes_of_ascii "// c
packet i64_ {	char[] calculatedFrom , } packet
  {@calculatedFrom(
""a\\"" ) o { i32 falsey@lengthOf( uint8x ),
} , } // `tick` ""quote"" 'q'
options {// c
Z9_ = ' '//
}
")).
Eval vm_compute in ("<<<M1870>>>" ++ check (runes_of_ascii "packet A {
    match k as n {
        [
            1, ""bb"", 007, ""d"", 5,
            ""f"", 7, ""h"", 9, ""j"",
            11
        ] : B,
        2 : C,
    },
}")).
Eval vm_compute in ("<<<M1746>>>" ++ check (runes_of_ascii "  // top
    	root  
  // c0
    	packet
	P
    {  
  // c3
    char 	 // c4

  c  // c5
, 
        // c6
u8	// c7
    x 	 // c8
  ,	// c9
}// c10")).
Eval vm_compute in ("<<<M1333>>>" ++ check (runes_of_ascii "// top
root // c0
packet P
    // c2
{ // c3
repeat
    // c4
char cs
    // c6
, u8 x // c9a
  // c9b
, // c10a
  // c10b
}
    // c11
")).
Eval vm_compute in ("<<<M1759>>>" ++ check (runes_of_ascii "packet A {

match k as	n	{[""a"",  22
	,

    ""c c"" , 4 ,
""e""	, 
66
    , ""g"",	8
,
	""i""

    ,

10
, ""k""
]  : B 
,2: C} ,}
")).
Eval vm_compute in ("<<<M1350>>>" ++ check (runes_of_ascii "packet B {
    u8 a,
}
root packet P {
    u8 K,
    u64 L @lengthOf(Body),
    match K as Body {
        1 : B,
    },
}
")).
Eval vm_compute in ("<<<M650>>>" ++ check (runes_of_ascii "MetaData
    // trailing space 
    matchKey
{ u64 chars // a // b
,char[] lengthOf `// not a comment`
    , //	t
~ }")).
Eval vm_compute in ("<<<M613>>>" ++ check (runes_of_ascii "MetaData
    // trailing space 
    matchKey
{ u64 chars // a // b
char[], lengthOf `// not a comment`
    , //	t
}")).
Eval vm_compute in ("<<<M1775>>>" ++ check (runes_of_ascii "  packet
	A
{

match k 
as  n

    { [1
,
    ""bb""	,	007	,
""d""
	,

    5
,
""f"",

7] :
B
    2
:	C
	}
	,

}
")).
Eval vm_compute in ("<<<M914>>>" ++ check (runes_of_ascii "packet A {
  match k as n {
    [""a"", ""bb"", 007, ""d"", ""e"", 66, ""g"", ""h"", 9, ""j"", ""k"", 12] : B
    2 : C
  },
}")).
Eval vm_compute in ("<<<M948>>>" ++ check (runes_of_ascii "packet A {
    u16 len @lengthOf(body) `x
`,
    u32 crc @calculatedFrom(""CRC32"") `x
`,
    string body,
}")).
Eval vm_compute in ("<<<M1261>>>" ++ check (runes_of_ascii "packet calculatedFrom { @tag( 4294967296 // c
) u msg_type , char[ 3 ] crc @lengthOf( len ) `u8 x,` , }")).
Eval vm_compute in ("<<<M1946>>>" ++ check (runes_of_ascii "

  packet
o

{@tag(
42
    )
    repeat 
// c
    x
	{ char[
0123456789 ] i64_
,
    },
}
options{
	}")).
Eval vm_compute in ("<<<M853>>>" ++ check (runes_of_ascii "packet A {
  match k as n {
    [""a"", ""bb"", ""c c"", ""d"", ""e"", ""f"", ""g"", ""h""] : B,
    2 : C
  },
}")).
Eval vm_compute in ("<<<M1139>>>" ++ check (runes_of_ascii "packet Logon { @tag( 42
// c
) @rightPad ( ' ' ) @leftPad ( ) repeat trueish { string T , } , }")).
Eval vm_compute in ("<<<M1171>>>" ++ check (runes_of_ascii "packet Logon { @tag( 42 ) @rightPad ( ' ' ) @leftPad ( ) repeat trueish { string T , } ,
// c
}")).
Eval vm_compute in ("<<<M384>>>" ++ check (runes_of_ascii "root packet SimpleMessage {
    uint16 MsgType `" ++ [28040; 24687; 31867; 22411]%N ++ runes_of_ascii "`,
    string JsonBody `Json" ++ [23383; 31526; 20018; 28040; 24687; 20307]%N ++ runes_of_ascii "`,
}")).
Eval vm_compute in ("<<<M1085>>>" ++ check (runes_of_ascii "packet A { match k as n // a
 { // b
 1 // c
 : // d
 B // e
 , // f
 } // g
 , // h
 }")).
Eval vm_compute in ("<<<M1729>>>" ++ check (runes_of_ascii "MetaData
_x
    {
zchar[	4294967296	]
    lengthOf `// not a comment` 
// c

,
}")).
Eval vm_compute in ("<<<M1222>>>" ++ check (runes_of_ascii "packet o { @tag( 42 ) repeat x // c
{ char[ 0123456789 ] i64_ , } , } options { }")).
Eval vm_compute in ("<<<M231>>>" ++ check (runes_of_ascii "MetaData Z9_
    { a1
//
/// triple
Z9_
    , zchar[ 10	] x
    , } options { }
")).
Eval vm_compute in ("<<<M1601>>>" ++ check (runes_of_ascii "

  packet A
{
B b

`tab
	x` ,
B 
`tab
	x`
,
    repeat
B bs 
`tab
	x`

, } ")).
Eval vm_compute in ("<<<M440>>>" ++ check (runes_of_ascii "options
{
matchKey = 42/// triple
x='0' ;
// packet A { u8 x, }
//
charz")).
Eval vm_compute in ("<<<M792>>>" ++ check (runes_of_ascii "packet A {
  match k as n {
    [""a"", 22, ""c c""] : B,
    2 : C
  },
}")).
Eval vm_compute in ("<<<M790>>>" ++ check (runes_of_ascii "packet A {
  match k as n {
    [1, ""bb"", 007] : B,
    2 : C
  },
}")).
Eval vm_compute in ("<<<M362>>>" ++ check (runes_of_ascii "//x
MetaData msg_type
    {// a // b
uint32 pack
`tab	here`, }
")).
Eval vm_compute in ("<<<M1376>>>" ++ check (runes_of_ascii "root packet P {
    repeat string ss,
    repeat u16 ns,
}
")).
Eval vm_compute in ("<<<M138>>>" ++ check (runes_of_ascii "MetaData
    /// triple
    falsey { uint16 Z9_ ,
}")).
Eval vm_compute in ("<<<M1094>>>" ++ check (runes_of_ascii "packet A { char[ // a
 3 // b
 ] // c
 x, }")).
Eval vm_compute in ("<<<M1114>>>" ++ check (runes_of_ascii "MetaData zchar { zchar[ 3 ] // c
Pad , }")).
Eval vm_compute in ("<<<M1608>>>" ++ check (runes_of_ascii "  // c
		packet lengthOf	{

    }")).
Eval vm_compute in ("<<<M1773>>>" ++ check (runes_of_ascii "packet A
    { u8 x
`x
`  ,
	} ")).
Eval vm_compute in ("<<<M1037>>>" ++ check (runes_of_ascii "packet A {
 u8 x `d" ++ [12]%N ++ runes_of_ascii "`, // c" ++ [12]%N ++ runes_of_ascii "
}")).
Eval vm_compute in ("<<<M1977>>>" ++ check (runes_of_ascii "

  packet	A 
{  }  // c" ++ [160]%N ++ runes_of_ascii "
")).
Eval vm_compute in ("<<<M1978>>>" ++ check (runes_of_ascii "packet A {
}// a// b// c")).
Eval vm_compute in ("<<<M1060>>>" ++ check (runes_of_ascii "packet A {
}
// c x")).
Eval vm_compute in ("<<<M1035>>>" ++ check (runes_of_ascii "packet A {
}
// c" ++ [12]%N)).
Eval vm_compute in ("<<<M1048>>>" ++ check (runes_of_ascii "packet A {
}// c" ++ [65279]%N)).
Eval vm_compute in ("<<<M770>>>" ++ check (runes_of_ascii "uint8 i8")).
Eval vm_compute in ("<<<M735>>>" ++ check (runes_of_ascii " " ++ [12]%N ++ runes_of_ascii " ")).
