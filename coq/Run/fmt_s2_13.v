From FP Require Import Lexer Parser ShowPT Digest Formatter.
From Coq Require Import String List NArith.
Import ListNotations.
Open Scope string_scope.
Set Printing Width 100000000.
Set Printing Depth 100000000.
Definition show_fres (r : fres) : string :=
  match r with
  | FOk s => "OK:" ++ sh_escaped s ""
  | FErr s => "ERR:" ++ sh_escaped s ""
  | FPanic p => "PANIC:" ++ p
  end.
Definition check (rs : list rune) : string := digest (show_fres (format_res rs)).
Definition full (rs : list rune) : string := show_fres (format_res rs).
Eval vm_compute in ("<<<M3837>>>" ++ check (runes_of_ascii "options {
    LittleEndian = true;
    StringPrefixLenType = u8;
    ArrayPrefixLenType = u16;
    FixedStringPadChar = '0';
    JavaPackage = ""com.example.msg"";
    GoPackage = ""msg"";
    GoModule = ""example.com/msg"";
}

MetaData Meta {
    u32 SeqNum `sequence number`,
    char[8] Symbol `symbol`,
    zchar[5] ZSym `z symbol`,
    string Note,
    Symbol AltSymbol `alias of symbol`,
    f64 Price,
}

packet Inner {
    u8 a,
    i16 b,
    string c,
}

packet Inner2 {
    u8 a2,
    char[3] c2,
}

packet Logon {
    u8 x,
    string user,
    repeat u16 codes,
}

packet Logout {
    u16 reason,
}

packet Empty {
}

root packet Msg {
    u8 su8,
    uint8 luint8,
    u16 su16,
    uint16 luint16,
    u32 su32,
    uint32 luint32,
    u64 su64,
    uint64 luint64,
    i8 si8,
    int8 lint8,
    i16 si16,
    int16 lint16,
    i32 si32,
    int32 lint32,
    i64 si64,
    int64 lint64,
    f32 sf32,
    float32 lfloat32,
    f64 sf64,
    float64 lfloat64,
    char[6] fsplain,
    @leftPad('0')
    char[4] fs0,
    @rightPad('0')
    char[5] fs1,
    @leftPad(' ')
    char[6] fs2,
    @rightPad(' ')
    char[7] fs3,
    @leftPad('\x00')
    char[8] fs4,
    @rightPad('\x00')
    char[9] fs5,
    @leftPad()
    char[10] fs6,
    @rightPad()
    char[11] fs7,
    zchar[7] fz,
    @leftPad('0')
    zchar[3] fzl0,
    string s1 `doc`,
    char[] s2,
    Inner,
    Sub {
        u8 q,
        string w,
        Deep {
            u16 z,
            repeat i32 zs,
        },
    },
    repeat u8 ru8,
    repeat u16 ru16,
    repeat u32 ru32,
    repeat u64 ru64,
    repeat i8 ri8,
    repeat i16 ri16,
    repeat i32 ri32,
    repeat i64 ri64,
    repeat f32 rf32,
    repeat f64 rf64,
    repeat string rstr,
    repeat char[] rstr2,
    repeat char[3] rfs,
    repeat zchar[3] rfz,
    repeat Inner2,
    repeat Grp {
        u8 k,
        char[2] v,
    },
    SeqNum,
    SeqNum seq2,
    repeat SeqNum seqs,
    Symbol,
    AltSymbol alt,
    ZSym,
    Note,
    repeat Symbol syms,
    Price px,
    u16 MsgType,
    u32 BodyLen @lengthOf(Body),
    match MsgType as Body {
        1 : Logon,
        [2, 3] : Logout,
        7 : Logon,
        9 : Empty,
    },
    u32 Checksum @calculatedFrom(""CRC32""),
}")).
Eval vm_compute in ("<<<M3733>>>" ++ check (runes_of_ascii "options
{ 
}  root packet	msg_type
{	match u8x	// `tick` ""quote"" 'q'
    as

zchar  {
[  0 ,  00 ]

:metadata //x
  ,	10
:

    Z9_,""a\""b"" :
//	t
      chars ,

0
:	uint8x , 
    // " ++ [27880; 37322]%N ++ runes_of_ascii "
    007 :
	chars	/// triple
	,}, 
A
@lengthOf(
	Pad  // c
	  )  ,	@leftPad

    (' '
	)	@leftPad(' '
)  @tag(  00
)
int8  Pad @calculatedFrom( ""x y"" )
,  }root
packet 
	// trailing space 
    msg_type
    {  i64
	uint8x

,
@leftPad	(
	'\x00' )
    Z9_ @calculatedFrom(
    """"
)	,Pad

    `two words` , }packet
f32a
{  zchar[ 
4294967296

    ] // @lengthOf(
u, @leftPad (
	'0' 
)

repeat
uint64  zchar 
`crlf
line`	,
        // 50% %s

int16  msg_type
	`100% of %d`	,  @lengthOf(  crc
    )

calculatedFrom{ 
// packet A { u8 x, }
    	// " ++ [27880; 37322]%N ++ runes_of_ascii "
  Header
    { matchKey @lengthOf( 
falsey  )	/// triple
      ,match  int as  
      /// triple

//
	BodyLength{ 	 // 50% %s
    7:packetx	,

    """ ++ [28040; 24687]%N ++ runes_of_ascii """ :
msg_type
,}	, 
x @calculatedFrom(

    ""a\""b""
    ) ,match
    body as
    len{	""`tick`""
	:

    body
,""" ++ [128512]%N ++ runes_of_ascii """
:
roots
    ,
	// trailing space 
  	//
4294967296	: 
packetx  ,

    /// triple
    // @lengthOf(
		""a\""b"" :
	matchKey

    , 
},
	}
	,
} 
,
repeat
i8i8

    body
	, 
repeat As

crc ,match  uint8x  as
    tag
{ [ ""a\\"" ,7  , ""x y""

]
:float,	""a	b"" 

// @lengthOf(
	  :
	A 
""CRC32""
:	rootA,

    [ 
  //	t

""a\""b""

    , ""CRC32""

,  3  ,	""it's"", 
42
,  // `tick` ""quote"" 'q'
		65535
,""""]

:  options1 
, [ 1

]
:
Packet
, } , match string_ as	u8x
{

0123456789

:
	zchar  ,  
  //x

	}
    ,
zchar	@calculatedFrom(
"""" )`line1
line2`,

repeat  T {	metadata @calculatedFrom(
    ""x y"" )

, match
	a1
    as
    metadata { 4294967296:
	options1

    ,  ""x y"" 
:  i8i8
} , repeat
    leftPad {
char[
42 ] 	 //
  float

    ,	// a // b
} 
, 
}

, 
} 
options{i64_  =true	}
")).
Eval vm_compute in ("<<<M709>>>" ++ check (runes_of_ascii "MetaData i8i8{zchar leftPad  , _x x ,
    u roots ``, }
    // " ++ [27880; 37322]%N ++ runes_of_ascii "
    packet leftPad {
int16 Z9_
    ,	@calculatedFrom( """ ++ [128512]%N ++ runes_of_ascii """) uint64 leftPad`u8 x,`
// `tick` ""quote"" 'q'
// @lengthOf(
, @leftPad (	'\x00' )packetx @calculatedFrom(  ""1"")`say ""hi""` , leftPad @calculatedFrom(""\" ++ [233]%N ++ runes_of_ascii """ ) ,
@lengthOf(
MetaDataX	) zchar[ 3]	msg_type, } packet
    matchKey { string_ { repeat u32
    roots
    // `tick` ""quote"" 'q'
    `two words` , A
    // packet A { u8 x, }
    @calculatedFrom(	""// no comment"" )  ,
    repeat x
// trailing space 
//x
{
match
    A
    as leftPad { [ 65535 , 65535, ""1"" ,
""" ++ [128512]%N ++ runes_of_ascii """
    , 10
, ""CRC32"" ]
    :
BodyLength,
// " ++ [27880; 37322]%N ++ runes_of_ascii "
// " ++ [128512]%N ++ runes_of_ascii " emoji
""" ++ [128512]%N ++ runes_of_ascii """ : string_ , """ ++ [28040; 24687]%N ++ runes_of_ascii """ : x_y_z , // " ++ [128512]%N ++ runes_of_ascii " emoji
7
: metadata 1
    : leftPad , 0 :
roots
,  },  repeat
    i64 // c
Logon
// 50% %s
// trailing space 
,calculatedFrom , repeat// `tick` ""quote"" 'q'
u64
/// triple
// " ++ [27880; 37322]%N ++ runes_of_ascii "
MetaDataX	`{ , }` , },repeat chars pack `tab	here`,
// a // b
// " ++ [128512]%N ++ runes_of_ascii " emoji
},
    @calculatedFrom(""a\\""
) @rightPad ( ' '
    )@rightPad
    (	) Logon matchKey
, body i8i8 `it's`, @calculatedFrom( ""1"" ) string As @lengthOf(
Packet )
, @lengthOf( matchKey
    ) repeat tag	{ matchKey{ repeat i16 lengthOf `// not a comment` , char[] Logon @calculatedFrom(""a\\"" ) `// not a comment`
    , falsey {
zchar[
    10 ]	int @lengthOf(len
) `100% of %d` , match
    // trailing space 
    Foo as
T {[
""CRC32""  ,""{,}"", 42 ,
    10 ]:
uint8x
,	3 :BodyLength,""a	b""
: rootA 0
:
a1 , // " ++ [128512]%N ++ runes_of_ascii " emoji
} ,
    }	, } ,} , T,
    } options
{	Logon = 3 int =
10
i64_	= ""it's"" ; }")).
Eval vm_compute in ("<<<M996>>>" ++ check (runes_of_ascii "// a // b
MetaData stringy{ _x
    o, // 50% %s
string o
, // `tick` ""quote"" 'q'
} packet MetaDataX { match lengthOf as falsey {
    // a // b
    """ ++ [128512]%N ++ runes_of_ascii """ : Packet , // `tick` ""quote"" 'q'
""CRC32"" : MetaDataX	,	0
    : calculatedFrom
, } , @tag( 00
    ) match
    leftPad as uint8x { [ // " ++ [27880; 37322]%N ++ runes_of_ascii "
""a\""b""
, 00,
""a\\"" ,""\n"" , 42 ] :T
,	} ,
    u64 Foo @lengthOf( tag ) `
` , Pad
, @lengthOf( f32a )
@calculatedFrom( """ ++ [28040; 24687]%N ++ runes_of_ascii """	) @rightPad ( ' ' )
    a1
,  int8 chars `line1
line2` ,
    match
Packet
    as Z9_ { 42 :
// c
//x
metadata , } ,	@tag( 0123456789 ) //
uint8 As ,
}
// trailing space 
// packet A { u8 x, }
packet//
Foo  { int64 BodyLength@calculatedFrom(
    ""`tick`"" ) // " ++ [27880; 37322]%N ++ runes_of_ascii "
, float32
// " ++ [128512]%N ++ runes_of_ascii " emoji
// trailing space 
string_ // a // b
,	repeat char[	10 ]
    i8i8
``, @tag(
42 )@lengthOf(u8x )// `tick` ""quote"" 'q'
u64
matchKey
    @calculatedFrom(	""// no comment"" )
`doc`	,
@tag(
65535
    //x
    )
int8 calculatedFrom , @lengthOf(
    metadata )
    match u128 as	leftPad
    {42 : u8x
    , """ ++ [28040; 24687]%N ++ runes_of_ascii """ :
    x_y_z // `tick` ""quote"" 'q'
""" ++ [28040; 24687]%N ++ runes_of_ascii """
// trailing space 
// c
:u8x	, ""packet"" // packet A { u8 x, }
:
packetx
""`tick`""
    : Foo,
    } , As
@calculatedFrom( ""packet""), @lengthOf( u8x ) x @calculatedFrom( ""x y""),	calculatedFrom{ trueish	,// a // b
} ,
    i32//	t
u128
`tab	here`
    , } options { } packet roots
{ } // " ++ [27880; 37322]%N)).
Eval vm_compute in ("<<<M920>>>" ++ check (runes_of_ascii "packet metadata
    //x
    { // a // b
@tag( 0123456789	)
repeat options1
    , rootA{
u32 x_y_z `two words` , u8
    // packet A { u8 x, }
    options1 `" ++ [28040; 24687; 31867; 22411]%N ++ runes_of_ascii "`// " ++ [27880; 37322]%N ++ runes_of_ascii "
, } // packet A { u8 x, }
, @lengthOf( Header )string Pad
@calculatedFrom(""a\\""
) `" ++ [233]%N ++ runes_of_ascii "`
,match u as pack { [ 255,
""" ++ [233]%N ++ runes_of_ascii "t" ++ [233]%N ++ runes_of_ascii """ ,
    1 ] : packetx , [3
    ]// " ++ [128512]%N ++ runes_of_ascii " emoji
:
    //
    stringy ,7 :
chars, [""a	b""] :leftPad 3 : matchKey  ,""a\""b"": i64_ },
    @tag(
00 ) a1 options1
`crlf
line` , @tag(
42) string Logon @calculatedFrom( ""\" ++ [233]%N ++ runes_of_ascii """ ), @lengthOf(	Foo ) @calculatedFrom( ""// no comment"" // 50% %s
)@calculatedFrom( ""packet"")int16 Header `u8 x,` ,stringy , }// @lengthOf(
packet o{ repeat
i16
// c
// " ++ [128512]%N ++ runes_of_ascii " emoji
T
    `two words` , @tag( 7)a1
    @lengthOf(asx
) `tab	here`, @tag( 7 )@calculatedFrom( ""a	b""
) char[
    65535]asx // " ++ [27880; 37322]%N ++ runes_of_ascii "
@calculatedFrom( ""a\\""
) , } packet	metadata { } packet
falsey { char[] calculatedFrom@lengthOf( falsey
    // `tick` ""quote"" 'q'
    )
`a\`
,@calculatedFrom(""\n"" ) repeat char[] o`// not a comment`
    /// triple
    ,
    char[] a1 , o
    @calculatedFrom(
""packet"" ) , lengthOf  , @lengthOf(	x_y_z
)
repeat i8 calculatedFrom `line1
line2`
    ,
i64 pack // trailing space 
, @tag(
007
) @rightPad
    (' ' ) f32a @lengthOf(
len ) ,  }
")).
Eval vm_compute in ("<<<M854>>>" ++ check (runes_of_ascii "packet
    string_ { char[1 ] u8x ,
}
root
packet a1 {@tag( 4294967296
)repeat
msg_type
    options1 `tab	here` ,
    // packet A { u8 x, }
    char
uint8x `" ++ [233]%N ++ runes_of_ascii "`,@calculatedFrom(""it's""  )
    // " ++ [128512]%N ++ runes_of_ascii " emoji
    float64
float `u8 x,`
// 50% %s
//x
, @rightPad ( ' ' )	repeat
    float { zchar[
    4294967296 ]
A ,} ,
    // " ++ [128512]%N ++ runes_of_ascii " emoji
    int8
    float `100% of %d`
//	t
// a // b
,zchar i64_ , Header { // trailing space 
match rootA as
//
// a // b
T {
    [ 1 , 3 , 1] : leftPad 3
    :
/// triple
//
tag ,
}, float// trailing space 
,
    o ,lengthOf{ match
// c
// `tick` ""quote"" 'q'
Header as	Foo { 255  :  i64_ ""packet""
: packetx , 65535
    : options1 } ,	string
    float @lengthOf( Z9_ )
    , string_`two words` , match
    calculatedFrom as falsey { """ ++ [128512]%N ++ runes_of_ascii """ :As ,
    ""packet"" : calculatedFrom
,
[ 3 ]
: repeatCount// packet A { u8 x, }
, 3 : f32a ,  42 :	float ,0123456789
    //x
    : calculatedFrom
} , // `tick` ""quote"" 'q'
},
}, @tag( 65535
)
i8  _x , zchar[1 ]
    chars
,  Packet , }
    packet
    x_y_z { }  MetaData
    len{// trailing space 
char[] asx
    ,i32 T `
` , uint8x
Header
`" ++ [233]%N ++ runes_of_ascii "` ,
    }
// `tick` ""quote"" 'q'
")).
Eval vm_compute in ("<<<M488>>>" ++ check (runes_of_ascii "MetaData // a // b
T { i16
    zchar ,// trailing space 
}
    packet stringy // c
{ @leftPad (
    '0' // 50% %s
)
    int16 repeatCount`100% of %d`
    ,
    @leftPad ( '0'
) @rightPad (' '  ) @calculatedFrom(""{,}"" ) repeat
u8x , int8
    // packet A { u8 x, }
    Packet
    ``
    ,int64
asx  @calculatedFrom( ""\n"")
`it's` ,int16 int `it's` , } packet u128
{ u Packet ``, }// " ++ [27880; 37322]%N ++ runes_of_ascii "
packet string_ // a // b
{ // trailing space 
} root packet x{ @calculatedFrom(	""a	b"") @lengthOf( rootA
    )@leftPad
(' ' ) repeat
    len `tab	here`
// packet A { u8 x, }
//x
,
char[ 65535 //x
] lengthOf @calculatedFrom( """" ) `{ , }`	, match _x // trailing space 
as i8i8	{  [
""x y""
    ]
    :
charz ,  4294967296 : x_y_z, }
,	@calculatedFrom( ""CRC32"" )As	_x , @rightPad// a // b
(
'\x00'  ) @tag(0123456789	) @calculatedFrom( ""it's"")
zchar[ 3 ] f32a  `doc`, @calculatedFrom( ""a\\"" // @lengthOf(
) match rootA as
len {  [
    0123456789 , // a // b
""`tick`"" ,7 , // " ++ [27880; 37322]%N ++ runes_of_ascii "
007
// @lengthOf(
//	t
, ""it's"" , 007 ]: body ,// packet A { u8 x, }
}
    , // trailing space 
}
// " ++ [27880; 37322]%N ++ runes_of_ascii "
")).
Eval vm_compute in ("<<<M3797>>>" ++ check (runes_of_ascii "packet int {
    // packet A { u8 x, }
    @tag(00)
    repeat zchar[65535] crc,
    repeat u32 body `it's`,
    @calculatedFrom(""x y"")
    match zchar as T {
        [""// no comment"", 7] : uint8x,
        007 : Header,
        ""{,}"" : BodyLength,
        ""packet"" : int,
        [""abc"", 1, ""a\\"", ""packet""] : u128,
        [""abc""] : string_,
        // c
    },
    msg_type a1 `" ++ [233]%N ++ runes_of_ascii "`,
    @lengthOf(calculatedFrom)
    repeat i32 asx,
    @calculatedFrom(""{,}"")
    //x
    @lengthOf(x)
    @rightPad('0')
    repeat i32 a1,
    float32 int @lengthOf(lengthOf) `a\`,
    @tag(255)
    i32 Z9_,
}// packet A { u8 x, }

packet Z9_ {
    rootA a1 `doc`,
    Header MetaDataX `u8 x,`,
}// " ++ [128512]%N ++ runes_of_ascii " emoji

root packet uint8x {
    @lengthOf(falsey)
    // 50% %s
    @tag(1)
    @lengthOf(pack)
    i16 calculatedFrom @calculatedFrom(""1""),
}

MetaData i64_ {
    uint8 int,
    string falsey,
    f64 u128,
}

packet x_y_z {
    @calculatedFrom(""" ++ [233]%N ++ runes_of_ascii "t" ++ [233]%N ++ runes_of_ascii """)
    repeat _x {
        lengthOf @calculatedFrom(""x y""),
    },
}")).
Eval vm_compute in ("<<<M369>>>" ++ check (runes_of_ascii "root	packet int {
    char[
    4294967296 ]
Pad ,
    }
//
// @lengthOf(
packet MetaDataX { @lengthOf( string_ ) @tag(  1 )
match
    // " ++ [128512]%N ++ runes_of_ascii " emoji
    repeatCount as
leftPad { 007
    :
    MetaDataX ,
}  , @rightPad
    ( ' ' )
    @tag( 4294967296)
zchar[255 ] chars //x
,
    //	t
    @tag( 7
) match
    trueish
as matchKey
{
    [	10
    ]  :zchar [1
    ]
    :
    // a // b
    x, 4294967296 : falsey ,[
    ""packet""
/// triple
// trailing space 
,	""`tick`"" , ""\n"" , 007 , 255 , ""`tick`"" //	t
, """ ++ [28040; 24687]%N ++ runes_of_ascii """ ]
:	f32a,
    [	4294967296
    // c
    ,
    ""1"", ""a\\""
    // " ++ [128512]%N ++ runes_of_ascii " emoji
    , ""it's""
    ,""`tick`""
    , 00 ,	10] :matchKey,	0
:
    int ,}, zchar[
    00
] msg_type , @tag(
    3 ) pack @calculatedFrom(
""CRC32"" ) ,
msg_type
// c
// " ++ [128512]%N ++ runes_of_ascii " emoji
lengthOf, MetaDataX{	float {
repeat	i64_ , }  , int BodyLength ,}
    ,char[] crc`// not a comment`, char[]o @calculatedFrom(
""CRC32"" ), // `tick` ""quote"" 'q'
i16 As
@lengthOf( len )
`" ++ [233]%N ++ runes_of_ascii "`	, }
")).
Eval vm_compute in ("<<<M692>>>" ++ check (runes_of_ascii "MetaData body
{
body pack
`tab	here` ,}packet
u8x{ repeat char[ // c
007
//	t
//	t
]Header // a // b
`a\` ,
}root packet f32a {
    @calculatedFrom(
"""" )
    @calculatedFrom(
    ""`tick`"" ) @calculatedFrom( ""1"" )
    uint8x
    @calculatedFrom(  ""a\\""	)
    `100% of %d` , }root packet Header { @lengthOf(	u8x
)//x
char[]u8x @calculatedFrom(""\n"")
    ,
@lengthOf( Pad )
i8 i64_
// trailing space 
// 50% %s
@calculatedFrom(""CRC32""
// trailing space 
// packet A { u8 x, }
) , uint64 a1 @lengthOf( //
falsey
    //
    ) , @leftPad (	'\x00'
    )
@leftPad
( '0' ) @leftPad	(  '0' )
    repeat f32
// packet A { u8 x, }
// trailing space 
Header
`// not a comment` , @calculatedFrom( """ ++ [233]%N ++ runes_of_ascii "t" ++ [233]%N ++ runes_of_ascii """ ) i32 // 50% %s
f32a @lengthOf(
// 50% %s
// a // b
T ) , @leftPad
(
) repeat
//
// 50% %s
Packet ,
    //
    Logon ,
    @tag( //	t
255) string chars
,rootA	Header,repeat i8i8 Foo
`" ++ [233]%N ++ runes_of_ascii "`
    ,	}")).
Eval vm_compute in ("<<<M4043>>>" ++ check (runes_of_ascii "MetaData asx {
    msg_type leftPad,
    roots T `{ , }`,
}

root packet MetaDataX {
    i16 u @calculatedFrom(""packet""),
    match As as chars {
        ""a	b"" : metadata,
        [
            ""a	b"", ""1"", ""// no comment"", 0123456789, """",
            ""x y"", 00, 0
        ] : x,
        ""packet"" : stringy,
        10 : Logon,
        // " ++ [27880; 37322]%N ++ runes_of_ascii "
        // a // b
        [7, 4294967296] : calculatedFrom,
        ""it's"" : matchKey,
    },
    uint32 trueish ``,
    string string_,
}

packet Foo {
    Foo @lengthOf(f32a),
    repeat metadata {
        // c
        // " ++ [27880; 37322]%N ++ runes_of_ascii "
        char[255] matchKey `{ , }`,
        repeat string_ Pad,
    },
    repeat tag {
        i32 options1,
        falsey @calculatedFrom(""x y""),
        float {
            i64 body @lengthOf(metadata),
            int64 falsey `say ""hi""`,
        },/// triple
    },
    roots roots ``,
}")).
Eval vm_compute in ("<<<M11>>>" ++ check (runes_of_ascii "
root	packet // a // b
o {  As@lengthOf( chars
)
, // c
} root packet A { // c
match T	as// `tick` ""quote"" 'q'
lengthOf {[
0
    ]: Packet , [42 ] : Packet 7
    : options1
,65535 : Z9_ ,  3
    : msg_type// trailing space 
, ""a	b"" : matchKey  } , repeat  int
{ string float	@lengthOf(	msg_type  )`` ,string_ { BodyLength { repeat
rootA`100% of %d`
    //
    , },
    f32a // c
@lengthOf(
pack ) ,repeat char[] u,
    i64_
{ string x,
T`
` ,	i8 lengthOf
    , u64 leftPad
, } , } , i8 Packet
@calculatedFrom( """ ++ [128512]%N ++ runes_of_ascii """ ) ,
}	,@calculatedFrom( ""packet"" )f32 _x
    , match
Pad as x {
    42:u	, [4294967296 ] :	zchar [ ""\n"" , ""{,}"" ] :roots,
// `tick` ""quote"" 'q'
//x
007 // packet A { u8 x, }
: // trailing space 
A ,
[ // 50% %s
0 //
]: charz ,
[ ""a	b"" , 10 ]
: i64_ ,
}
    ,char[]i64_ ,
repeat metadata
    ,}")).
Eval vm_compute in ("<<<M710>>>" ++ check (runes_of_ascii "// " ++ [27880; 37322]%N ++ runes_of_ascii "
MetaData a1
{
}
packet
u8x {	match a1 as	As{""" ++ [233]%N ++ runes_of_ascii "t" ++ [233]%N ++ runes_of_ascii """ : Foo ,} , // " ++ [27880; 37322]%N ++ runes_of_ascii "
} packet /// triple
trueish{@lengthOf(
Foo ) uint32 trueish,
repeat zchar[  1  ]
    Foo
`line1
line2` , // a // b
u16 options1 ,
@calculatedFrom(
    """ ++ [233]%N ++ runes_of_ascii "t" ++ [233]%N ++ runes_of_ascii """
)/// triple
u8  msg_type@calculatedFrom( ""{,}""
)
,  char[ 255 ]int`u8 x,`
, } packet u { @tag( //
3 ) chars Foo// 50% %s
, @tag( 3 )
i16 Pad	@calculatedFrom( """ ++ [128512]%N ++ runes_of_ascii """)
    `// not a comment`
, // " ++ [27880; 37322]%N ++ runes_of_ascii "
zchar[  1
]calculatedFrom ,
repeat chars// " ++ [27880; 37322]%N ++ runes_of_ascii "
{ float
, string_ {  zchar[ 007 ]
    trueish , char[42
    ] rootA `u8 x,`,
    repeat chars
{ //	t
o stringy
`tab	here`
    ,
// @lengthOf(
// " ++ [128512]%N ++ runes_of_ascii " emoji
matchKey  int,}
, uint8x , } ,
} ,
    } MetaData roots
{ stringy len , int16 len, char[] // 50% %s
MetaDataX`" ++ [233]%N ++ runes_of_ascii "` ,
    f32a x`100% of %d`  , } /// triple")).
Eval vm_compute in ("<<<M3536>>>" ++ check (runes_of_ascii "options {
    StringPrefixLenType = u64;
    ArrayPrefixLenType = u8;
    FixedStringPadChar = '0';
}
packet Logout {
    char[] f1,
    repeat u64 Qty,
    string Acct,
    char[] Side2,
    repeat i64 clOrdID,
}
packet Logon {
    i64 tag7,
    Logout,
    @rightPad('\x00') char[4] Qty,
    repeat char[4] venue,
    string seqNo,
}
packet Party {
    Logon,
    float32 x,
    uint32 price,
    repeat string venue,
    repeat char[3] seqNo,
}
packet Leg {
    string Flags,
    i32 Ref,
    repeat Logout,
    repeat u16 x,
}
packet Cancel {
    repeat Logon,
    int8 Ref,
    Logout,
    char[] OrderId,
    int16 Tail,
}
root packet Heartbeat {
    zchar[8] price,
    repeat Logout,
    Cancel,
    char[] Qty,
    int32 x,
    Leg,
}
")).
Eval vm_compute in ("<<<M1377>>>" ++ check (runes_of_ascii "options// c
{ As=false }
    packet falsey { @lengthOf(
float) @calculatedFrom(	""\n"" ) u32 As , match leftPad as repeatCount
{ 0 :
    Z9_ ,  1 : repeatCount
, [ 65535 ]// trailing space 
:// c
Pad 00
:	packetx
    ""a\\""
    : packetx
,
00:crc ,} , repeat Packet
, repeat
    float {u128 /// triple
@calculatedFrom( """ ++ [28040; 24687]%N ++ runes_of_ascii """
    ) `a\`
    , u64 Foo `a\`	, } ,  @leftPad ( '\x00')
@tag(
1	)
@calculatedFrom( ""`tick`"")  f64
    lengthOf , @rightPad
( '0')
@leftPad ( ) @lengthOf(
f32a ) repeat i64_ x_y_z , @rightPad( '\x00' ) o
@calculatedFrom("""") `doc`  , asx	{
// a // b
//x
repeat
    T chars `two words`
,
repeat char[0] string_ ,
} ,  repeat char repeatCount
`{ , }`, @rightPad ( )int16 float
,}
")).
Eval vm_compute in ("<<<M4366>>>" ++ check (runes_of_ascii "// " ++ [27880; 37322]%N ++ runes_of_ascii "
packet crc {
    charz stringy `u8 x,`,// c
    @lengthOf(metadata)
    repeat matchKey {
        Logon @calculatedFrom(""it's"") `crlf
                line`,
        i64 len,
    },
    zchar[255] calculatedFrom `tab	here`,
    repeat Pad {
        match options1 as Header {
            ""\n"" : Logon,
            255 : pack,
            10 : crc,
            [007, 4294967296, 255, ""\n""] : repeatCount,
            00 : crc,
            ""a\\"" : chars,
        },
        x {
            _x _x,
            zchar[0] tag @lengthOf(body) ``,
        },
        zchar[65535] msg_type,
        repeat u16 A `doc`,
    },
    i8 x `a\`,
    repeat x {
        o,
    },
}")).
Eval vm_compute in ("<<<M4318>>>" ++ check (runes_of_ascii "  root	packet u
{repeat
float ,}	MetaData	rootA 
{u32 
  //
      //
	  stringy  ,
int64	matchKey `tab	here` , matchKey
    o
,

    char[	0123456789
    ]  a1  // 50% %s
	`tab	here`
,
matchKey  leftPad ,
    } packet int
	{@rightPad

( 
' '
)  zchar[

    1

] Z9_ , // `tick` ""quote"" 'q'
	@leftPad (

'0'
) 
body packetx
,
@calculatedFrom( ""x y"") zchar[

    1 ] A
,@rightPad
('0'

) 
    // " ++ [128512]%N ++ runes_of_ascii " emoji
    	repeat leftPad  charz
`" ++ [28040; 24687; 31867; 22411]%N ++ runes_of_ascii "` ,	@lengthOf(	BodyLength	)@tag(

    0

) @calculatedFrom(
	""it's"" 
) string
f32a
    @lengthOf(
	int
)
	,
	u8x

,
Foo @calculatedFrom(""x y""

    ) , 
} packet	asx 
{ 
}

    packet  u
{
}")).
Eval vm_compute in ("<<<M1004>>>" ++ check (runes_of_ascii "MetaData falsey{
    char[ 42 ]msg_type , i16 tag
    // trailing space 
    , f64  i8i8
    // 50% %s
    `two words` ,
a1 msg_type
    `crlf
line`
//	t
// packet A { u8 x, }
,char[ 3
] string_`// not a comment`, }
    options {
x_y_z =
4294967296;	} // " ++ [128512]%N ++ runes_of_ascii " emoji
packet options1{ @calculatedFrom( ""a\""b"" )@tag( 00 ) @tag( 65535 )string_	packetx,
As{ // c
zchar[ 1 ]
f32a @calculatedFrom(
""" ++ [128512]%N ++ runes_of_ascii """ ) ,
    Packet
    // c
    @lengthOf( a1 ) `{ , }` , repeat
Foo { // " ++ [128512]%N ++ runes_of_ascii " emoji
chars// trailing space 
leftPad ,f64
falsey
    // trailing space 
    @calculatedFrom( ""{,}"" )	, } //x
, i64_ @lengthOf(
packetx )	,} , //
}

")).
Eval vm_compute in ("<<<M572>>>" ++ check (runes_of_ascii "
packet falsey { }
    options
    /// triple
    { x_y_z
=
""1"" ; o = ""{,}"";
metadata= // " ++ [128512]%N ++ runes_of_ascii " emoji
false } packet leftPad { @rightPad ( ) Pad{ pack
_x,match i8i8 as uint8x { 3
: o ,[65535 ,	""{,}""	, ""\" ++ [233]%N ++ runes_of_ascii """,
0123456789 , ""{,}""
, ""\" ++ [233]%N ++ runes_of_ascii """ , 255
    , 7]:
msg_type  ,  },
repeat falsey
    ,
tag @calculatedFrom( ""// no comment""
// 50% %s
// `tick` ""quote"" 'q'
),}
,
}options { A = uint64	;As  = ""it's""; a1
=  255}MetaData trueish {
    float64 string_
// 50% %s
// a // b
, // c
a1 Header
`// not a comment`
// a // b
//	t
,
    /// triple
    x
    charz
`tab	here` // c
,
    // " ++ [27880; 37322]%N ++ runes_of_ascii "
    }")).
Eval vm_compute in ("<<<M42>>>" ++ check (runes_of_ascii "packet metadata { @leftPad
    (' '
)// " ++ [128512]%N ++ runes_of_ascii " emoji
match
asx as Logon
    {[""it's""
, ""{,}"", 00 ]
    :
    f32a, ""\n""  :charz
// trailing space 
// " ++ [27880; 37322]%N ++ runes_of_ascii "
4294967296:i8i8, }
,
@calculatedFrom( ""a\""b"" ) //	t
@calculatedFrom( """ ++ [233]%N ++ runes_of_ascii "t" ++ [233]%N ++ runes_of_ascii """
    ) @tag( 42 ) match
    asx as
    /// triple
    falsey {
    [
""abc"" , ""a\""b"" ] :
x  , // @lengthOf(
42 : o ,},
@lengthOf(Z9_ ) zchar[ 42 ]	int
    `100% of %d` ,@lengthOf( msg_type
    )  calculatedFrom  ``  , }
MetaData roots { }
    options { asx = false
    ; leftPad  =
    3 ;
// `tick` ""quote"" 'q'
// 50% %s
}
// a // b
")).
Eval vm_compute in ("<<<M3494>>>" ++ check (runes_of_ascii "// top
packet
    // c0
A // c1
{ // c2
u8 // c3
a // c4a
  // c4b
, // c5a
  // c5b
} // c6
packet // c7a
  // c7b
B // c8
{ // c9
u16 // c10a
  // c10b
b // c11a
  // c11b
, // c12
}
    // c13
root
    // c14
packet
    // c15
P // c16a
  // c16b
{ // c17
u8 // c18a
  // c18b
K
    // c19
, match // c21a
  // c21b
K // c22
as // c23
M // c24
{ // c25a
  // c25b
[ // c26a
  // c26b
1 , 2 ] // c30
: // c31
A // c32
, // c33a
  // c33b
3 : B // c36
, // c37a
  // c37b
7 :
    // c39
A , // c41a
  // c41b
} // c42
,
    // c43
} // c44
")).
Eval vm_compute in ("<<<M567>>>" ++ check (runes_of_ascii "
MetaData u128 {f32 stringy // @lengthOf(
`tab	here`, string  float `// not a comment` ,u32 //	t
BodyLength `it's`
    // c
    ,x /// triple
As `{ , }` , string
_x
,
// c
//
zchar[ 10 ]
body ,}
root // a // b
packet  i64_{	@rightPad (' '// a // b
) int32 repeatCount @lengthOf(
matchKey ), @rightPad
(
'0' )
//	t
// @lengthOf(
repeat
u8
x_y_z `{ , }` ,
    @tag(4294967296 )  @rightPad
    ('0' ) repeat Foo chars  , @tag( 10
    ) zchar[
1 ] repeatCount @lengthOf( crc )
, }
    MetaData trueish { char[ 007
] pack,}

")).
Eval vm_compute in ("<<<M1104>>>" ++ check (runes_of_ascii "root packet chars
{
int16 As ,
@calculatedFrom( """"  ) uint8x	Logon ,match trueish as
As {
[ 10,7
    , 65535, 1 ,""a	b"" , """ ++ [128512]%N ++ runes_of_ascii """,""// no comment""
] : string_ ,[ 10 ] : u8x
    , [4294967296
    , 00] : o
, } ,
@calculatedFrom( ""a\\""
)	@lengthOf( calculatedFrom) @calculatedFrom(
""`tick`"" ) char[] charz //	t
`it's`
, @calculatedFrom(
""1""  )f32a
    { repeat u64
    options1 ,	x //x
int
    ,repeat x  ,  } , repeat char[	4294967296] // 50% %s
body	`line1
line2`
, }  options{leftPad =  false ;	}")).
Eval vm_compute in ("<<<M839>>>" ++ check (runes_of_ascii "root
    packet A {
char[
0123456789 ]
    // c
    zchar	`say ""hi""`, match i64_  as
body
{ [ 0123456789 ]  : float 10 // a // b
:
    Foo , [ ""CRC32"" ]
// trailing space 
// packet A { u8 x, }
:
Foo
""x y"" :metadata , [
    10
// " ++ [128512]%N ++ runes_of_ascii " emoji
// c
, 255
    ,
""abc"" ,
0123456789,
    0	,
1
, // `tick` ""quote"" 'q'
7 // " ++ [128512]%N ++ runes_of_ascii " emoji
]
    :
    f32a , },@calculatedFrom(  ""{,}"") @lengthOf( len
)
    //	t
    match  x_y_z as uint8x
{ ""\" ++ [233]%N ++ runes_of_ascii """ :
// c
// `tick` ""quote"" 'q'
T ,} , }
")).
Eval vm_compute in ("<<<M3722>>>" ++ check (runes_of_ascii "

  packet roots {
char[
	10]
	a1 , @leftPad /// triple
	('\x00'// " ++ [128512]%N ++ runes_of_ascii " emoji
	)  @calculatedFrom(
""" ++ [28040; 24687]%N ++ runes_of_ascii """)

@calculatedFrom(

    ""`tick`""  ) repeat chars 
As 
,

@lengthOf( roots

    ) 
repeat
string_  { char[
7 ]
As@calculatedFrom(
""packet"" // trailing space 
	) 
	// `tick` ""quote"" 'q'

// 50% %s
	, i16 x_y_z @calculatedFrom(
""" ++ [128512]%N ++ runes_of_ascii """ 
)	, repeat  zchar
    // @lengthOf(

MetaDataX  // @lengthOf(
`100% of %d`
	,
	    // " ++ [27880; 37322]%N ++ runes_of_ascii "

//x

}
    , }
")).
Eval vm_compute in ("<<<M893>>>" ++ check (runes_of_ascii "packet Pad
{
/// triple
//x
@lengthOf( charz
    ) match // a // b
o
// " ++ [128512]%N ++ runes_of_ascii " emoji
//	t
as stringy {	007 : asx ,
    // @lengthOf(
    }
, @tag(
65535
) // trailing space 
match Pad as packetx { [ 007
] :
rootA , } , @tag(65535 ) char[
    0123456789	]	tag `" ++ [233]%N ++ runes_of_ascii "` ,  } MetaData As
{
char packetx `100% of %d`
    , }	options
{ // c
Packet = // a // b
'\x00'	i64_=3	;
    falsey	= 00 ; x_y_z
// c
// @lengthOf(
= 0
    ;	Header =
""a\""b"" }
")).
Eval vm_compute in ("<<<M3552>>>" ++ check (runes_of_ascii "options {
    LittleEndian = false;
    StringPrefixLenType = u16;
    ArrayPrefixLenType = u32;
    FixedStringPadFromLeft = true;
    FixedStringPadChar = '0';
}
packet Quote {
    repeat InSide284 {
        repeat string Acct,
        int64 OrderId,
    },
    uint8 Px,
    int32 lastPx,
    uint8 Flags,
}
packet Fill {
    f32 clOrdID,
    uint32 msgKind,
    repeat Quote,
}
root packet Trade {
    string Acct,
}
")).
Eval vm_compute in ("<<<M675>>>" ++ check (runes_of_ascii "packet int { match BodyLength  as Z9_ {[7,
""\" ++ [233]%N ++ runes_of_ascii """ ]: metadata, 0 :
    o, [
//
// 50% %s
""\n"" ]: packetx	} , repeat // trailing space 
char[ 255 ]
Packet `line1
line2`, @rightPad('\x00'	) uint16 i8i8 ,
repeat
    char[255	] zchar, //
} /// triple
root packet int {
    // packet A { u8 x, }
    @leftPad (
' ' // `tick` ""quote"" 'q'
)repeat int8 packetx , }	packet // `tick` ""quote"" 'q'
Header{ }
// a // b
")).
Eval vm_compute in ("<<<M316>>>" ++ check (runes_of_ascii "options { u8x ='0' ; float
    = '\x00'; i8i8 =
    u8; }options{ //
x = ""a\\""
;
    body
    = '\x00' ;
}packet rootA { @lengthOf(trueish )
@rightPad (
    '0' )@lengthOf(
//	t
// " ++ [128512]%N ++ runes_of_ascii " emoji
leftPad
    ) repeat
zchar[ 0123456789 ] body`100% of %d`	,
}options {} MetaData i64_{ A leftPad
, As calculatedFrom`say ""hi""` , f64 metadata/// triple
,
    x o `doc`, zchar[ 0123456789 ] u8x,  }")).
Eval vm_compute in ("<<<M4125>>>" ++ check (runes_of_ascii "packet zchar {
}

packet Logon {
    // a // b
    // @lengthOf(
    char[42] zchar,
}// " ++ [27880; 37322]%N ++ runes_of_ascii "

MetaData calculatedFrom {
    char[10] x_y_z `it's`,
    char[0] options1,
    float32 Logon `" ++ [28040; 24687; 31867; 22411]%N ++ runes_of_ascii "`,
    string stringy `line1
    line2`,
    zchar[42] BodyLength,
    options1 f32a `it's`,
}

MetaData roots {
    string i64_,
}

// @lengthOf(
// packet A { u8 x, }
MetaData A {
}")).
Eval vm_compute in ("<<<M4165>>>" ++ check (runes_of_ascii "packet len {
    x_y_z body `100% of %d`,
    @tag(1)
    zchar[4294967296] u `two words`,
    @tag(007)
    match BodyLength as Z9_ {
        [
            007, 4294967296, ""packet"", ""\n"", 10,
            ""CRC32""
        ] : repeatCount,
        42 : len,
        [42, ""packet""] : MetaDataX,
    },
    @rightPad()
    zchar[42] x_y_z @lengthOf(Pad) `doc`,
}")).
Eval vm_compute in ("<<<M812>>>" ++ check (runes_of_ascii "packet /// triple
roots
    { a1`{ , }`
,// 50% %s
@tag(	0123456789 )// " ++ [128512]%N ++ runes_of_ascii " emoji
@calculatedFrom(""" ++ [128512]%N ++ runes_of_ascii """
    // packet A { u8 x, }
    )  match metadata as x {""it's"" :
    //
    i8i8 0123456789 :i64_ [ ""\n""
    , ""1""
] : pack 65535
    : calculatedFrom ,007 : Header
    ""it's""  : packetx } ,// " ++ [128512]%N ++ runes_of_ascii " emoji
@rightPad
('\x00' )
    f64
lengthOf `it's`	, }
")).
Eval vm_compute in ("<<<M4403>>>" ++ check (runes_of_ascii "// top

MetaData 	 // c0
  metadata	// c1
{  // c2
} // c3
	MetaData// c4
    	rootA	// c5
	{	// c6
  i8// c7
  i64_	// c8
	, // c9
	roots// c10
options1  // c11

  `a\` // c12
, 	 // c13
	  lengthOf  // c14
	Header  // c15
  ,	// c16
Z9_// c17
		Foo // c18
,// c19
int16 	 // c20

BodyLength// c21
  ,// c22
  	}	// c23")).
Eval vm_compute in ("<<<M501>>>" ++ check (runes_of_ascii "
MetaData lengthOf{i16 asx ,msg_type rootA
    `it's`
, } root packet packetx
{ @tag(1 ) uint32 options1 @calculatedFrom(  """ ++ [28040; 24687]%N ++ runes_of_ascii """
    ) , @tag(
    10
)lengthOf stringy `" ++ [28040; 24687; 31867; 22411]%N ++ runes_of_ascii "` ,
u16 x_y_z `100% of %d`
,
    /// triple
    char[] Foo, }options
    { x = '0' lengthOf // packet A { u8 x, }
= ' ' i64_
//
// c
= uint8 }")).
Eval vm_compute in ("<<<M3574>>>" ++ check (runes_of_ascii "options {
    LittleEndian = true;
}
packet Logon {
    u8 x,
}
packet Logout {
    u16 reason,
}
root packet Frame {
    u16 Kind,
    u16 Kind2,
    match Kind as Body {
        1 : Logon,
        [2, 3, 4] : Logout,
        100 : Logon,
    },
    match Kind2 as Trailer {
        0 : Logout,
    },
}
")).
Eval vm_compute in ("<<<M4098>>>" ++ check (runes_of_ascii "

  packet
	calculatedFrom

    { @calculatedFrom(  ""a\\""

    ) 
zchar[  4294967296	]calculatedFrom@lengthOf(
	pack)
    `100% of %d`

, body 
@calculatedFrom(
    ""// no comment""
) , 
@tag(  007

)  //x
		int8

leftPad
`it's`
,

    repeat	pack

{ repeat
	char[
    3] body

,	},	}
")).
Eval vm_compute in ("<<<M1853>>>" ++ check (runes_of_ascii "packet	packetx packetx { // trailing space 
x_y_z
{
string
charz ,
string x// @lengthOf(
`two words`
    ,  u8x { // `tick` ""quote"" 'q'
charz `100% of %d` // packet A { u8 x, }
,}// " ++ [27880; 37322]%N ++ runes_of_ascii "
,} , }
    // a // b
    packet metadata {  @leftPad ( '0') repeat i32 options1 ,u64 uint8x , }
")).
Eval vm_compute in ("<<<M1999>>>" ++ check (runes_of_ascii "packet	packetx { // trailing space 
x_y_z
{
string
charz ,
string x// @lengthOf(
`two words`
    ,  u8x { // `tick` ""quote"" 'q'
charz `100% of %d` // packet A { u8 x, }
,}// " ++ [27880; 37322]%N ++ runes_of_ascii "
,} , }
    // a // b
    packet metadata {  @leftPad ( '0') repeat float64 options1 ,u64 uint8x , }
")).
Eval vm_compute in ("<<<M2007>>>" ++ check (runes_of_ascii "packet	packetx { // trailing space 
x_y_z
{
string
charz ,
string x// @lengthOf(
`two words`
    ,  u8x { // `tick` ""quote"" 'q'
charz `100% of %d` // packet A { u8 x, }
,}// " ++ [27880; 37322]%N ++ runes_of_ascii "
,} , }
    // a // b
    packet metadata {  @leftPad ( '0') repeat i32 options1 , ,u64 uint8x , }
")).
Eval vm_compute in ("<<<M1918>>>" ++ check (runes_of_ascii "packet	packetx { // trailing space 
x_y_z
{
string
charz ,
string x// @lengthOf(
`two words`
    ,  u8x { // `tick` ""quote"" 'q'
`100% of %d` charz // packet A { u8 x, }
,}// " ++ [27880; 37322]%N ++ runes_of_ascii "
,} , }
    // a // b
    packet metadata {  @leftPad ( '0') repeat i32 options1 ,u64 uint8x , }
")).
Eval vm_compute in ("<<<M1901>>>" ++ check (runes_of_ascii "packet	packetx { // trailing space 
x_y_z
{
string
charz ,
string x// @lengthOf(
`two words`
      u8x { // `tick` ""quote"" 'q'
charz `100% of %d` // packet A { u8 x, }
,}// " ++ [27880; 37322]%N ++ runes_of_ascii "
,} , }
    // a // b
    packet metadata {  @leftPad ( '0') repeat i32 options1 ,u64 uint8x , }
")).
Eval vm_compute in ("<<<M2029>>>" ++ check (runes_of_ascii "packet	packetx { // trailing space 
x_y_z
{
string
charz ,
string x// @lengthOf(
`two words`
    ,  u8x { // `tick` ""quote"" 'q'
charz `100% of %d` // packet A { u8 x, }
,}// " ++ [27880; 37322]%N ++ runes_of_ascii "
,} , }
    // a // b
    packet metadata {  @leftPad ( '0') repeat i32 options1 ,u64 uint8x ,")).
Eval vm_compute in ("<<<M1852>>>" ++ check (runes_of_ascii "packet	 { // trailing space 
x_y_z
{
string
charz ,
string x// @lengthOf(
`two words`
    ,  u8x { // `tick` ""quote"" 'q'
charz `100% of %d` // packet A { u8 x, }
,}// " ++ [27880; 37322]%N ++ runes_of_ascii "
,} , }
    // a // b
    packet metadata {  @leftPad ( '0') repeat i32 options1 ,u64 uint8x , }
")).
Eval vm_compute in ("<<<M2145>>>" ++ check (runes_of_ascii "packet// packet A { u8 x, }
repeatCount	{// packet A { u8 x, }
@leftPad ( '\x00'
) repeat u8x MetaDataX `crlf
line`,
    repeat
    char[] MetaDataX
    ,
u64	uint8x@calculatedFrom(""a\""b"" ""a\""b""
// c
// packet A { u8 x, }
) `tab	here`
,//
}MetaData pack
    {
    }
")).
Eval vm_compute in ("<<<M2015>>>" ++ check (runes_of_ascii "packet	packetx { // trailing space 
x_y_z
{
string
charz ,
string x// @lengthOf(
`two words`
    ,  u8x { // `tick` ""quote"" 'q'
charz `100% of %d` // packet A { u8 x, }
,}// " ++ [27880; 37322]%N ++ runes_of_ascii "
,} , }
    // a // b
    packet metadata {  @leftPad ( '0') repeat i32 options1 ,")).
Eval vm_compute in ("<<<M2201>>>" ++ check (runes_of_ascii "packet// packet A { u8 x, }
repeatCount	{// packet A { u8 x, }
@leftPad ( '\x00'
) repeat u8x MetaDataX `crlf
line`,
    repeat
    char[] MetaDataX
    ,
u64	uint8x@calculatedFrom(""a\""b""
// c
// packet A { u8 x, }
) `tab	here`
@,//
}MetaData pack
    {
    }
")).
Eval vm_compute in ("<<<M2121>>>" ++ check (runes_of_ascii "packet// packet A { u8 x, }
repeatCount	{// packet A { u8 x, }
@leftPad ( '\x00'
) repeat u8x MetaDataX `crlf
line`,
    repeat
    char[] ,
    MetaDataX
u64	uint8x@calculatedFrom(""a\""b""
// c
// packet A { u8 x, }
) `tab	here`
,//
}MetaData pack
    {
    }
")).
Eval vm_compute in ("<<<M2067>>>" ++ check (runes_of_ascii "packet// packet A { u8 x, }
repeatCount	{// packet A { u8 x, }
string ( '\x00'
) repeat u8x MetaDataX `crlf
line`,
    repeat
    char[] MetaDataX
    ,
u64	uint8x@calculatedFrom(""a\""b""
// c
// packet A { u8 x, }
) `tab	here`
,//
}MetaData pack
    {
    }
")).
Eval vm_compute in ("<<<M2134>>>" ++ check (runes_of_ascii "packet// packet A { u8 x, }
repeatCount	{// packet A { u8 x, }
@leftPad ( '\x00'
) repeat u8x MetaDataX `crlf
line`,
    repeat
    char[] MetaDataX
    ,
u64	@calculatedFrom(""a\""b""
// c
// packet A { u8 x, }
) `tab	here`
,//
}MetaData pack
    {
    }
")).
Eval vm_compute in ("<<<M1551>>>" ++ check (runes_of_ascii "packet calculatedFrom
{ @calculatedFrom( ""a\\"" ) zchar[ 4294967296 ]
calculatedFrom@lengthOf( pack )	`100% of %d` ,char[]body@calculatedFrom( ""// no comment"" )  ,
@tag( 007) //x
int8
leftPad`it's` ""{,}"" repeat pack
    { repeat char[ 3] body
,},
}")).
Eval vm_compute in ("<<<M1599>>>" ++ check (runes_of_ascii "packet calculatedFrom
{ @calculatedFrom( ""a\\"" ) zchar[ 4294967296 ]
calculatedFrom@lengthOf( pack )	`100% of %d` ,char[]body@calculatedFrom( ""// no comment"" )  ,
@tag( 007) //x
int8
leftPad`it's` , repeat pack
    { repeat char[ 3] body
,} },
}")).
Eval vm_compute in ("<<<M4340>>>" ++ check (runes_of_ascii "
root
packet trueish
	{

    }  packet
pack
    {

char[]

string_	,	}MetaData

Logon	{
    uint8 body  `u8 x,`
, 	 // @lengthOf(
char[
    00] matchKey
	`// not a comment`
, 
i8i8
	Z9_	,  packetx  MetaDataX ,f64	crc
    `" ++ [233]%N ++ runes_of_ascii "`, }
	options { }
")).
Eval vm_compute in ("<<<M1555>>>" ++ check (runes_of_ascii "packet calculatedFrom
{ @calculatedFrom( ""a\\"" ) zchar[ 4294967296 ]
calculatedFrom@lengthOf( pack )	`100% of %d` ,char[]body@calculatedFrom( ""// no comment"" )  ,
@tag( 007) //x
int8
leftPad`it's` , pack repeat
    { repeat char[ 3] body
,},
}")).
Eval vm_compute in ("<<<M3987>>>" ++ check (runes_of_ascii "root packet Z9_ {
    @calculatedFrom(""a\\"")
    zchar[1] a1 @lengthOf(Z9_),
    @tag(0123456789)
    @lengthOf(Header)
    /// triple
    @tag(4294967296)
    uint8 u128,
    i16 msg_type,// packet A { u8 x, }
    tag matchKey,
}

packet u8x {
}")).
Eval vm_compute in ("<<<M1556>>>" ++ check (runes_of_ascii "packet calculatedFrom
{ @calculatedFrom( ""a\\"" ) zchar[ 4294967296 ]
calculatedFrom@lengthOf( pack )	`100% of %d` ,char[]body@calculatedFrom( ""// no comment"" )  ,
@tag( 007) //x
int8
leftPad`it's` , [ pack
    { repeat char[ 3] body
,},
}")).
Eval vm_compute in ("<<<M3475>>>" ++ check (runes_of_ascii "// top
root // c0a
  // c0b
packet // c1a
  // c1b
P // c2a
  // c2b
{
    // c3
u16 a // c5a
  // c5b
, // c6a
  // c6b
u32 Sum // c8a
  // c8b
@calculatedFrom( // c9a
  // c9b
""CRC32"" // c10
)
    // c11
, // c12a
  // c12b
} // c13
")).
Eval vm_compute in ("<<<M1577>>>" ++ check (runes_of_ascii "packet calculatedFrom
{ @calculatedFrom( ""a\\"" ) zchar[ 4294967296 ]
calculatedFrom@lengthOf( pack )	`100% of %d` ,char[]body@calculatedFrom( ""// no comment"" )  ,
@tag( 007) //x
int8
leftPad`it's` , repeat pack
    { repeat")).
Eval vm_compute in ("<<<M745>>>" ++ check (runes_of_ascii "packet u128 // packet A { u8 x, }
{@lengthOf(
    Header ) //	t
i8i8
@calculatedFrom( ""{,}""	) `a\`	, } root packet// 50% %s
uint8x
    //x
    { @calculatedFrom(""a\""b"" )
// " ++ [27880; 37322]%N ++ runes_of_ascii "
// " ++ [128512]%N ++ runes_of_ascii " emoji
zchar[ 7 ]BodyLength ,
}
")).
Eval vm_compute in ("<<<M3889>>>" ++ check (runes_of_ascii "packet f32a {
    repeat packetx `// not a comment`,
    @lengthOf(Foo)
    zchar,
    @tag(007)
    @calculatedFrom(""\" ++ [233]%N ++ runes_of_ascii """)
    @tag(007)
    x_y_z @calculatedFrom(""packet"") `
        `,
    char[3] pack,
}")).
Eval vm_compute in ("<<<M1372>>>" ++ check (runes_of_ascii "root packet trueish {
leftPad
    body , } root // c
packet
    lengthOf
    {
@rightPad(  '0' )repeat char crc `line1
line2` , } options {  }
root packet int{
    } MetaData trueish
    { } // c")).
Eval vm_compute in ("<<<M3615>>>" ++ check (runes_of_ascii "packet x_y_z {
    uint64 i64_,
}

// " ++ [27880; 37322]%N ++ runes_of_ascii "
// " ++ [128512]%N ++ runes_of_ascii " emoji
packet A {
    @lengthOf(chars)
    @rightPad('0')
    a1 i8i8,
}

MetaData As {
}

packet body {
    @lengthOf(Logon)
    string f32a,
}")).
Eval vm_compute in ("<<<M933>>>" ++ check (runes_of_ascii "packet  o{ @lengthOf(Pad)@tag( 1 ) @lengthOf( stringy
)  int32
    rootA
`it's` , @lengthOf(
    int
)// a // b
@tag(65535)@lengthOf(Header
)uint8 Header @calculatedFrom( """ ++ [233]%N ++ runes_of_ascii "t" ++ [233]%N ++ runes_of_ascii """ )	, }")).
Eval vm_compute in ("<<<M511>>>" ++ check (runes_of_ascii "
MetaData rootA { lengthOf falsey
`crlf
line` ,
u32 u8x `say ""hi""` // " ++ [128512]%N ++ runes_of_ascii " emoji
, int16
    As `two words`,zchar[3
// c
// a // b
] x
    //x
    `
`
/// triple
// c
,
    }
")).
Eval vm_compute in ("<<<M92>>>" ++ check (runes_of_ascii "packet x_y_z
{zchar[ 10] body , repeat	char[]
asx, u64 x_y_z `// not a comment` ,@tag(  00 ) @lengthOf(
a1)@tag(
3	) BodyLength
    // " ++ [27880; 37322]%N ++ runes_of_ascii "
    asx	`tab	here` , } // " ++ [27880; 37322]%N)).
Eval vm_compute in ("<<<M1820>>>" ++ check (runes_of_ascii "options { } packet Packet{char[] i64_ ,
@tag(
    255) match
crc as i8i8{""{,}"" : trueish """" : Pad , ""a\\"" :
Foo ,
    1 :packetx
, """ ++ [128512]%N ++ runes_of_ascii """ : trueish , } @lengthOf( }")).
Eval vm_compute in ("<<<M1678>>>" ++ check (runes_of_ascii "options { } packet Packet{char[] i64_ ,
@tag( @tag(
    255) match
crc as i8i8{""{,}"" : trueish """" : Pad , ""a\\"" :
Foo ,
    1 :packetx
, """ ++ [128512]%N ++ runes_of_ascii """ : trueish , } , }")).
Eval vm_compute in ("<<<M2418>>>" ++ check (runes_of_ascii "
packet MetaDataX
{
    @leftPad
( // a // b
'0'
) i8 u u @lengthOf(
MetaDataX
    ) `say ""hi""` ,	} MetaData BodyLength {
    asx
x_y_z `" ++ [233]%N ++ runes_of_ascii "`
, uint64 u128 , }
")).
Eval vm_compute in ("<<<M1795>>>" ++ check (runes_of_ascii "options { } packet Packet{char[] i64_ ,
@tag(
    255) match
crc as i8i8{""{,}"" : trueish """" : Pad , ""a\\"" :
Foo ,
    1 :packetx
, packet : trueish , } , }")).
Eval vm_compute in ("<<<M1738>>>" ++ check (runes_of_ascii "options { } packet Packet{char[] i64_ ,
@tag(
    255) match
crc as i8i8{""{,}"" : trueish """" : : Pad , ""a\\"" :
Foo ,
    1 :packetx
, """ ++ [128512]%N ++ runes_of_ascii """ : trueish , } , }")).
Eval vm_compute in ("<<<M619>>>" ++ check (runes_of_ascii "options { }packet asx {@lengthOf( Foo )roots Packet, x  {repeat
    char[] u /// triple
, } ,//	t
@lengthOf( crc ) repeat
    // c
    u128 `{ , }`	,} // c")).
Eval vm_compute in ("<<<M1679>>>" ++ check (runes_of_ascii "options { } packet Packet{char[] i64_ ,
255
    @tag() match
crc as i8i8{""{,}"" : trueish """" : Pad , ""a\\"" :
Foo ,
    1 :packetx
, """ ++ [128512]%N ++ runes_of_ascii """ : trueish , } , }")).
Eval vm_compute in ("<<<M2378>>>" ++ check (runes_of_ascii "
packet MetaDataX
{
    @leftPad
( // a // b
'0'
) i8 u @lengthOf(
MetaDataX
    ) `say ""hi""` ,	} MetaData BodyLength {
    
x_y_z `" ++ [233]%N ++ runes_of_ascii "`
, uint64 u128 , }
")).
Eval vm_compute in ("<<<M2413>>>" ++ check (runes_of_ascii "
packet MetaDataX
{
    @leftPad
( // a // b
'0'
) i8 u @lengthOf(
MetaDataX
    ) `say ""hi""` ,	} MetaData BodyLength {
    asx
x_y_z `" ++ [233]%N ++ runes_of_ascii "`
, uint64  , }
")).
Eval vm_compute in ("<<<M1742>>>" ++ check (runes_of_ascii "options { } packet Packet{char[] i64_ ,
@tag(
    255) match
crc as i8i8{""{,}"" : trueish """" :  , ""a\\"" :
Foo ,
    1 :packetx
, """ ++ [128512]%N ++ runes_of_ascii """ : trueish , } , }")).
Eval vm_compute in ("<<<M666>>>" ++ check (runes_of_ascii "
options
{ rootA =
false asx
=  false //x
;BodyLength
='0' }	MetaData
zchar{	i64_ /// triple
_x `" ++ [233]%N ++ runes_of_ascii "`,uint64 T`{ , }`
    ,// packet A { u8 x, }
} 	 ")).
Eval vm_compute in ("<<<M1615>>>" ++ check (runes_of_ascii "packet calculatedFrom
{ @calculatedFrom( ""a\\"" ) zchar[ 4294967296 ]
calculatedFrom@lengthOf( pack )	`100% of %d` ,char[]body@calculatedFrom( ""/")).
Eval vm_compute in ("<<<M459>>>" ++ check (runes_of_ascii "// " ++ [27880; 37322]%N ++ runes_of_ascii "
root packet Packet { @tag(00
// 50% %s
// `tick` ""quote"" 'q'
)	@calculatedFrom(
    ""it's"" )float64 f32a@lengthOf( zchar )`it's` , }
")).
Eval vm_compute in ("<<<M216>>>" ++ check (runes_of_ascii "options
    { len = true string_ = ""a\\"" repeatCount= //	t
""{,}"" ; uint8x
//	t
//
=char[ 3 // " ++ [27880; 37322]%N ++ runes_of_ascii "
] } options {
// 50% %s
// a // b
}
")).
Eval vm_compute in ("<<<M1796>>>" ++ check (runes_of_ascii "options { } packet Packet{char[] i64_ ,
@tag(
    255) match
crc as i8i8{""{,}"" : trueish """" : Pad , ""a\\"" :
Foo ,
    1 :packetx
,")).
Eval vm_compute in ("<<<M4325>>>" ++ check (runes_of_ascii "// top
MetaData _x {
    // c2
    f64 charz `tab	here`,// c6
}// c7

options {
    // c9
    BodyLength = """ ++ [233]%N ++ runes_of_ascii "t" ++ [233]%N ++ runes_of_ascii """;// c13
}// c14")).
Eval vm_compute in ("<<<M3277>>>" ++ check (runes_of_ascii "MetaData metadata { } MetaData rootA { i8
// c
i64_ , roots options1 `a\` , lengthOf Header , Z9_ Foo , int16 BodyLength , }")).
Eval vm_compute in ("<<<M3833>>>" ++ check (runes_of_ascii "MetaData float {
    uint8 BodyLength,
    // c
}

MetaData charz {
    float32 trueish `a\`,
    i16 metadata `say ""hi""`,
}")).
Eval vm_compute in ("<<<M549>>>" ++ check (runes_of_ascii "MetaData
    chars {	int A , } packet i64_ { match
Foo
/// triple
// c
as falsey
{ [ 10
//
// " ++ [27880; 37322]%N ++ runes_of_ascii "
, 3] : Header
,} ,}
")).
Eval vm_compute in ("<<<M3068>>>" ++ check (runes_of_ascii "packet A {
    u16 len @lengthOf(body) `tab
	x`,
    u32 crc @calculatedFrom(""CRC32"") `tab
	x`,
    string body,
}")).
Eval vm_compute in ("<<<M3050>>>" ++ check (runes_of_ascii "packet A {
    u16 len @lengthOf(body) `a

b`,
    u32 crc @calculatedFrom(""CRC32"") `a

b`,
    string body,
}")).
Eval vm_compute in ("<<<M3348>>>" ++ check (runes_of_ascii "MetaData float { uint8 BodyLength , } MetaData charz { float32 trueish `a\` , i16 metadata // c
`say ""hi""` , }")).
Eval vm_compute in ("<<<M2432>>>" ++ check (runes_of_ascii "
packet MetaDataX
{
    @leftPad
( // a // b
'0'
) i8 u @lengthOf(
MetaDataX
    ) `say ""hi""` ,	} MetaData")).
Eval vm_compute in ("<<<M3005>>>" ++ check (runes_of_ascii "packet A {
  match k as n {
    [""a"", 22, ""c c"", 4, ""e"", 66, ""g"", 8, ""i"", 10, ""k""] : B
    2 : C
  },
}")).
Eval vm_compute in ("<<<M2996>>>" ++ check (runes_of_ascii "packet A {
  match k as n {
    [""a"", ""bb"", 007, ""d"", ""e"", 66, ""g"", ""h"", 9, ""j""] : B
    2 : C
  },
}")).
Eval vm_compute in ("<<<M1023>>>" ++ check (runes_of_ascii "MetaData Z9_
    // 50% %s
    {x
    u8x , lengthOf chars ,uint32 options1 , }
    options{ } 	 ")).
Eval vm_compute in ("<<<M2225>>>" ++ check (runes_of_ascii "MetaData _x {string string x `// not a comment` , string
i64_ // trailing space 
`a\` ,
    }
")).
Eval vm_compute in ("<<<M2878>>>" ++ check (runes_of_ascii "int64 ; matchKey int8 MetaData f32 int32 uint8 MetaData MetaData char[] i64 uint32 @lengthOf(")).
Eval vm_compute in ("<<<M2217>>>" ++ check (runes_of_ascii "MetaData char {string x `// not a comment` , string
i64_ // trailing space 
`a\` ,
    }
")).
Eval vm_compute in ("<<<M2285>>>" ++ check (runes_of_ascii "MetaData _x {string x `// not a comment` , string
i64_ // trailing space 
`a\`~ ,
    }
")).
Eval vm_compute in ("<<<M3732>>>" ++ check (runes_of_ascii "packet x {
    @rightPad('0')
    int32 T @calculatedFrom(""a\\""),// packet A { u8 x, }
}")).
Eval vm_compute in ("<<<M787>>>" ++ check (runes_of_ascii "
packet
x_y_z/// triple
{ @leftPad
    ( '0' )repeat Logon`
` , // trailing space 
}")).
Eval vm_compute in ("<<<M990>>>" ++ check (runes_of_ascii "packet Foo { @tag( 4294967296
) i8i8
    @calculatedFrom(
""\" ++ [233]%N ++ runes_of_ascii """ )`line1
line2` , }
")).
Eval vm_compute in ("<<<M2960>>>" ++ check (runes_of_ascii "packet A {
  match k as n {
    [1, 22, 007, 4, 5, 66, 7, 8] : B
    2 : C
  },
}")).
Eval vm_compute in ("<<<M2263>>>" ++ check (runes_of_ascii "MetaData _x {string x `// not a comment` , string
i64_ // trailing space 
`a\`")).
Eval vm_compute in ("<<<M3393>>>" ++ check (runes_of_ascii "MetaData _x { f64 charz `tab	here` , } options { BodyLength = """ ++ [233]%N ++ runes_of_ascii "t" ++ [233]%N ++ runes_of_ascii """ ; }
// c
")).
Eval vm_compute in ("<<<M3381>>>" ++ check (runes_of_ascii "MetaData _x { f64 charz `tab	here` , } options
// c
{ BodyLength = """ ++ [233]%N ++ runes_of_ascii "t" ++ [233]%N ++ runes_of_ascii """ ; }")).
Eval vm_compute in ("<<<M3443>>>" ++ check (runes_of_ascii "packet Inner {
    u8 a,
}
root packet P {
    Inner ref_obj,
    u8 x,
}
")).
Eval vm_compute in ("<<<M2921>>>" ++ check (runes_of_ascii "packet A {
  match k as n {
    [1, 22, 007, 4, 5] : B
    2 : C
  },
}")).
Eval vm_compute in ("<<<M2814>>>" ++ check (runes_of_ascii "@calculatedFrom( MetaData root char falsey , char[ lengthOf } uint16")).
Eval vm_compute in ("<<<M3961>>>" ++ check (runes_of_ascii "
root	packet P{ u8  s_u8
, repeat

    u8
	r_u8, u16  b_len , }

")).
Eval vm_compute in ("<<<M3049>>>" ++ check (runes_of_ascii "packet A {
    B b `a

b`,
    B `a

b`,
    repeat B bs `a

b`,
}")).
Eval vm_compute in ("<<<M1116>>>" ++ check (runes_of_ascii "packet u128 { @calculatedFrom( ""\n"" // c
) repeatCount ,
    }
")).
Eval vm_compute in ("<<<M408>>>" ++ check (runes_of_ascii "packet
int
{
zchar[
    00 ]T
    @lengthOf(
trueish ) ,}
")).
Eval vm_compute in ("<<<M2883>>>" ++ check (runes_of_ascii "packet A {
  match k as n {
    [""a""] : B
    2 : C
  },
}")).
Eval vm_compute in ("<<<M1096>>>" ++ check (runes_of_ascii "  packet As
    { repeat char
    metadata	`" ++ [28040; 24687; 31867; 22411]%N ++ runes_of_ascii "` , }
")).
Eval vm_compute in ("<<<M2846>>>" ++ check (runes_of_ascii "( @calculatedFrom( uint64 ] @lengthOf( @lengthOf( ' '")).
Eval vm_compute in ("<<<M4454>>>" ++ check (runes_of_ascii "
MetaData	zchar
    {  zchar[
3]  Pad , // c
	}

")).
Eval vm_compute in ("<<<M2345>>>" ++ check (runes_of_ascii "
MetaData Pa""d{
u32 rootA `line1
line2` ,
    }
")).
Eval vm_compute in ("<<<M1442>>>" ++ check (runes_of_ascii "packet calculatedFrom
{ @calculatedFrom( ""a\\""")).
Eval vm_compute in ("<<<M2630>>>" ++ check (runes_of_ascii "packet A { match k as n { [1,""a"",2] : B, }, }")).
Eval vm_compute in ("<<<M2767>>>" ++ check (runes_of_ascii ": char[] i64 `it's` @lengthOf( uint16 match")).
Eval vm_compute in ("<<<M3232>>>" ++ check (runes_of_ascii "
// c
MetaData zchar { zchar[ 3 ] Pad , }")).
Eval vm_compute in ("<<<M3434>>>" ++ check (runes_of_ascii "root packet P {
    char c,
    u8 x,
}
")).
Eval vm_compute in ("<<<M842>>>" ++ check (runes_of_ascii "packet repeatCount
    { }
// 50% %s
")).
Eval vm_compute in ("<<<M4041>>>" ++ check (runes_of_ascii "MetaData zchar {
    zchar[3] Pad,
}")).
Eval vm_compute in ("<<<M2633>>>" ++ check (runes_of_ascii "packet A { match k as { 1 : B }, }")).
Eval vm_compute in ("<<<M3970>>>" ++ check (runes_of_ascii "root packet u {
    float32 a1,
}")).
Eval vm_compute in ("<<<M278>>>" ++ check (runes_of_ascii "options {float =
""packet"" ; }
")).
Eval vm_compute in ("<<<M2827>>>" ++ check (runes_of_ascii "packet false int64 root '0' ;")).
Eval vm_compute in ("<<<M2848>>>" ++ check ([65533; 65533; 65533; 17]%N ++ runes_of_ascii "Q" ++ [65533]%N ++ runes_of_ascii "%" ++ [0]%N ++ runes_of_ascii "WJ" ++ [65533; 6]%N ++ runes_of_ascii "_g" ++ [65533; 17]%N ++ runes_of_ascii "?x" ++ [18]%N ++ runes_of_ascii "n" ++ [65533; 65533; 24; 4]%N ++ runes_of_ascii "Vs" ++ [65533]%N)).
Eval vm_compute in ("<<<M446>>>" ++ check (runes_of_ascii "packet As /// triple
{
}
")).
Eval vm_compute in ("<<<M2834>>>" ++ check (runes_of_ascii "' ' @rightPad @lengthOf(")).
Eval vm_compute in ("<<<M378>>>" ++ check (runes_of_ascii "root packet
tag {	}
")).
Eval vm_compute in ("<<<M36>>>" ++ check (runes_of_ascii "MetaData roots {
}
")).
Eval vm_compute in ("<<<M987>>>" ++ check (runes_of_ascii "packet	chars { }

")).
Eval vm_compute in ("<<<M3165>>>" ++ check (runes_of_ascii "// c" ++ [12]%N ++ runes_of_ascii "
packet A {
}")).
Eval vm_compute in ("<<<M2812>>>" ++ check ([895]%N ++ runes_of_ascii "(" ++ [65533]%N ++ runes_of_ascii "K@" ++ [65533; 65533; 65533; 65533; 65533; 65533]%N ++ runes_of_ascii "t0" ++ [3]%N ++ runes_of_ascii "a4v")).
Eval vm_compute in ("<<<M2717>>>" ++ check (runes_of_ascii "6`" ++ [65533; 65533]%N ++ runes_of_ascii "y" ++ [65533; 3; 65533; 65533; 65533; 65533; 65533; 65533; 18; 65533; 65533]%N)).
Eval vm_compute in ("<<<M2653>>>" ++ check (runes_of_ascii "packet A { } 1")).
Eval vm_compute in ("<<<M289>>>" ++ check (runes_of_ascii "options { }")).
Eval vm_compute in ("<<<M2502>>>" ++ check (runes_of_ascii "@leftPadx")).
Eval vm_compute in ("<<<M2481>>>" ++ check (runes_of_ascii "packets")).
Eval vm_compute in ("<<<M3666>>>" ++ check (runes_of_ascii "// c" ++ [8239]%N ++ runes_of_ascii "
")).
Eval vm_compute in ("<<<M3133>>>" ++ check (runes_of_ascii "// c" ++ [8202]%N)).
Eval vm_compute in ("<<<M2565>>>" ++ check (runes_of_ascii "a
b")).
Eval vm_compute in ("<<<M2563>>>" ++ check (runes_of_ascii "a	b")).
Eval vm_compute in ("<<<M2718>>>" ++ check (runes_of_ascii "mE")).
