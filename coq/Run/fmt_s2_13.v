From FP Require Import Lexer Parser ShowPT Digest Formatter.
From Coq Require Import String List NArith.
Import ListNotations.
Open Scope string_scope.
Set Printing Width 100000000.
Set Printing Depth 100000000.
Definition show_fres (r : fres) : string :=
  match r with
  | FOk s => "OK:" ++ sh_escaped s ""
  | FErr s => "ERR:" ++ sh_escaped s ""
  | FPanic p => "PANIC:" ++ p
  end.
Definition check (rs : list rune) : string := digest (show_fres (format_res rs)).
Definition full (rs : list rune) : string := show_fres (format_res rs).
Eval vm_compute in ("<<<M4288>>>" ++ check (runes_of_ascii "packet u {
    @tag(007)
    @calculatedFrom("""")
    match i64_ as roots {
        [0, 3, ""`tick`"", ""1""] : rootA,
        //x
        // c
        00 : pack,
        [0123456789, 0123456789, 255, ""1""] : msg_type,
        10 : chars,
        ""it's"" : o,
    },
    BodyLength {
        char[255] metadata `
                `,
    },
    options1 {
        match asx as packetx {
            ""abc"" : u128,
            [3, 4294967296, 4294967296, """", """ ++ [28040; 24687]%N ++ runes_of_ascii """] : leftPad,
            0 : Header,
            """ ++ [233]%N ++ runes_of_ascii "t" ++ [233]%N ++ runes_of_ascii """ : T,
        },
        repeat char[] Z9_ `{ , }`,
    },
    @calculatedFrom(""packet"")
    @calculatedFrom(""x y"")
    @tag(255)
    leftPad {
        repeat leftPad {
            float32 falsey @lengthOf(falsey) `a\`,
            zchar[0] matchKey,
            zchar[4294967296] a1,
            match packetx as u {
                [
                    00, 00, ""abc"", """ ++ [233]%N ++ runes_of_ascii "t" ++ [233]%N ++ runes_of_ascii """, ""a\\"",
                    ""{,}""
                ] : BodyLength,
                """ ++ [233]%N ++ runes_of_ascii "t" ++ [233]%N ++ runes_of_ascii """ : asx,
                [007, ""a	b""] : body,
                [00, 0123456789] : crc,
            },
        },
    },
    repeat uint8x o `doc`,
    @tag(65535)
    u16 Logon @lengthOf(uint8x) `a\`,
    f32a {
        repeat char[] matchKey `
                `,
        zchar[4294967296] i64_,
        // packet A { u8 x, }
        repeat lengthOf {
            repeat i16 matchKey,
            u8 falsey,
            i32 Pad @lengthOf(u8x) ``,
            charz `crlf
                        line`,
        },
        packetx {
            int64 trueish,
            char[42] u @lengthOf(u) `// not a comment`,
            repeat char[1] i8i8,
            match x_y_z as u8x {
                [""\n""] : calculatedFrom,
            },
        },
    },
    @leftPad('0')
    As @calculatedFrom(""it's""),
    @calculatedFrom(""CRC32"")
    x_y_z @lengthOf(crc),
    @leftPad('0')
    @calculatedFrom(""`tick`"")
    @tag(10)
    char[42] Z9_ @calculatedFrom(""abc""),
}

MetaData repeatCount {
    i8 u `tab	here`,
    char[255] u,
    u32 msg_type `doc`,
    i64_ _x,
}

options {
    repeatCount = 255;
    x_y_z = ' ';
    charz = uint8;
    Packet = false
    BodyLength = true;
}

options {
    asx = """ ++ [128512]%N ++ runes_of_ascii """
    uint8x = char[4294967296];
    u = '0'
}")).
Eval vm_compute in ("<<<M3528>>>" ++ check (runes_of_ascii "options { // c1a
  // c1b
StringPrefixLenType // c2
=
    // c3
u16 // c4a
  // c4b
; // c5a
  // c5b
ArrayPrefixLenType // c6
= u32 // c8
;
    // c9
FixedStringPadFromLeft
    // c10
=
    // c11
false ; FixedStringPadChar // c14a
  // c14b
= '0' ; // c17
}
    // c18
packet
    // c19
Logout
    // c20
{ // c21a
  // c21b
f64 // c22
f1
    // c23
, // c24
i16 // c25
Note // c26
,
    // c27
@rightPad
    // c28
( // c29a
  // c29b
'\x00' // c30
) // c31a
  // c31b
char[ // c32a
  // c32b
11 // c33
] // c34
Flags , // c36
} // c37
packet
    // c38
Cancel
    // c39
{
    // c40
float64
    // c41
msgKind
    // c42
, // c43a
  // c43b
} // c44
packet Reject { // c47a
  // c47b
InQty43 { float32 // c50
sym
    // c51
,
    // c52
char[ // c53a
  // c53b
10 // c54
] // c55a
  // c55b
Tail
    // c56
, // c57
uint8 // c58a
  // c58b
venue , // c60
uint16 // c61a
  // c61b
f1
    // c62
,
    // c63
char[ // c64
9 ] // c66
Acct // c67a
  // c67b
, }
    // c69
, }
    // c71
packet
    // c72
Trade // c73
{ // c74a
  // c74b
char[] // c75a
  // c75b
x // c76a
  // c76b
,
    // c77
zchar[ // c78a
  // c78b
6 ] // c80
Note // c81
, // c82
repeat // c83a
  // c83b
Reject // c84
, // c85
}
    // c86
root packet // c88
Order // c89
{ // c90a
  // c90b
Cancel // c91a
  // c91b
,
    // c92
Logout , // c94
u64 // c95a
  // c95b
Acct , // c97
u32 // c98a
  // c98b
OrderId // c99a
  // c99b
, match // c101a
  // c101b
OrderId // c102
as Body // c104
{ [ 127 // c107
, // c108
70 // c109
] // c110
: // c111
Reject
    // c112
, 177
    // c114
: // c115a
  // c115b
Trade // c116a
  // c116b
, // c117
58 // c118
:
    // c119
Logout ,
    // c121
75 :
    // c123
Cancel // c124
, // c125
} // c126a
  // c126b
, // c127
u32 // c128
Tail @calculatedFrom( // c130
""CRC32"" // c131
)
    // c132
, } ")).
Eval vm_compute in ("<<<M4357>>>" ++ check (runes_of_ascii "root packet len {
    @lengthOf(A)
    repeat u64 packetx,
    @calculatedFrom(""a	b"")
    repeat charz {
        BodyLength calculatedFrom,
        leftPad `it's`,
        int32 msg_type,
        float64 i64_,
    },
    // c
    string MetaDataX @lengthOf(roots),
    @lengthOf(len)
    @lengthOf(Logon)
    // " ++ [128512]%N ++ runes_of_ascii " emoji
    // @lengthOf(
    calculatedFrom @calculatedFrom(""// no comment""),
    zchar[3] MetaDataX @calculatedFrom(""it's"") `a\`,
    @leftPad('0')
    match Foo as As {
        [255, ""{,}""] : metadata,
        ""{,}"" : Header,
        // trailing space 
        [""\n""] : stringy,
        ""a	b"" : x,
    },
    @tag(0123456789)
    Foo {
        char[0] rootA,
    },
    // packet A { u8 x, }
    i64_ leftPad `a\`,
    string A,
    match BodyLength as float {
        7 : MetaDataX,
        007 : int,
    },
}

MetaData crc {
    u8 o `crlf
    line`,
}

// " ++ [128512]%N ++ runes_of_ascii " emoji
packet crc {
    repeat uint32 Foo `a\`,/// triple
    a1,
    @rightPad(' ')
    repeat roots,
    @calculatedFrom(""" ++ [233]%N ++ runes_of_ascii "t" ++ [233]%N ++ runes_of_ascii """)
    @rightPad()
    BodyLength,
    repeat x_y_z ``,
    @rightPad()
    repeat string pack `
    `,
    @calculatedFrom(""" ++ [128512]%N ++ runes_of_ascii """)
    int64 Foo,
    char[65535] Foo @lengthOf(BodyLength),
    @lengthOf(charz)
    //
    trueish charz,
}

packet msg_type {
    u32 Foo `line1
    line2`,
    T {
        pack,
        char[] int,
        zchar[1] _x @lengthOf(Pad) `it's`,
    },
    msg_type,
    falsey lengthOf,
    char[4294967296] string_ @lengthOf(Pad),
    @calculatedFrom(""\n"")
    //
    o @lengthOf(options1),
}

// c
packet u {
}")).
Eval vm_compute in ("<<<M1405>>>" ++ check (runes_of_ascii "options {
    StringPrefixLenType = u16;
    ArrayPrefixLenType = u16;
}

packet SampleBinary {
    uint16 MsgType `" ++ [28040; 24687; 31867; 22411]%N ++ runes_of_ascii "`,
    u16 BodyLenght @lengthOf(Body) `" ++ [28040; 24687; 20307; 38271; 24230]%N ++ runes_of_ascii "`,
    match MsgType as Body {
        1 : Logon,
        2 : Logout,
        3 : Heartbeat,
        4 : RiskControlRequest,
        5 : RiskControlResponse,
    },
    @calculatedFrom(""CRC32"")
    u32 Ckecksum `" ++ [26657; 39564; 21644]%N ++ runes_of_ascii "`,
}

packet Logon {
    @leftPad('0')
    char[10] UserName `" ++ [29992; 25143; 21517]%N ++ runes_of_ascii "`,
    string Password `" ++ [23494; 30721]%N ++ runes_of_ascii "`,
    uint64 ClientId `" ++ [23458; 25143; 31471]%N ++ runes_of_ascii "ID`,
    u16 HeartbeatInterval `" ++ [24515; 36339; 38388; 38548]%N ++ runes_of_ascii "`,
}

packet Logout {
    @rightPad('0')
    char[10] UserName `" ++ [29992; 25143; 21517]%N ++ runes_of_ascii "`,
    uint64 ClientId `" ++ [23458; 25143; 31471]%N ++ runes_of_ascii "ID`,
}

packet Heartbeat {
}

packet RiskControlRequest {
    string UniqueOrderId `" ++ [21807; 19968; 35746; 21333; 21495]%N ++ runes_of_ascii "`,
    char[16] ClOrdID `" ++ [23458; 25143; 35746; 21333; 21495]%N ++ runes_of_ascii "`,
    char[3] MarketID `" ++ [24066; 22330]%N ++ runes_of_ascii "id`,
    char[12] SecurityID `" ++ [35777; 21048; 20195; 30721]%N ++ runes_of_ascii "`,
    char Side `" ++ [20080; 21334; 26041; 21521]%N ++ runes_of_ascii "`,
    char OrderType `" ++ [35746; 21333; 31867; 22411]%N ++ runes_of_ascii "`,
    u64 Price `" ++ [20215; 26684]%N ++ runes_of_ascii "`,
    u32 Qty `" ++ [25968; 37327]%N ++ runes_of_ascii "`,
    repeat string ExtraInfo `" ++ [38468; 21152; 20449; 24687]%N ++ runes_of_ascii "`,
    repeat SubOrder {
        char[16] ClOrdID `" ++ [23376; 35746; 21333; 21495]%N ++ runes_of_ascii "`,
        u64 Price `" ++ [23376; 35746; 21333; 20215; 26684]%N ++ runes_of_ascii "`,
        u32 Qty `" ++ [23376; 35746; 21333; 25968; 37327]%N ++ runes_of_ascii "`,
    },
}

packet RiskControlResponse {
    string UniqueOrderId `" ++ [21807; 19968; 35746; 21333; 21495]%N ++ runes_of_ascii "`,
    i32 Status `" ++ [29366; 24577]%N ++ runes_of_ascii "`,
    string Msg `" ++ [32467; 26524; 20449; 24687]%N ++ runes_of_ascii "`,
    repeat Detail,
}

packet Detail {
    string RuleName `" ++ [35268; 21017; 21517; 31216]%N ++ runes_of_ascii "`,
    u16 Code `" ++ [21407; 22240; 20195; 30721]%N ++ runes_of_ascii "`,
}")).
Eval vm_compute in ("<<<M3927>>>" ++ check (runes_of_ascii "packet matchKey {
    string stringy `tab	here`,
}

root packet Z9_ {
    @lengthOf(o)
    @calculatedFrom(""" ++ [128512]%N ++ runes_of_ascii """)
    @lengthOf(matchKey)
    u {
        string msg_type,
        pack {
            uint64 As @lengthOf(u128),// `tick` ""quote"" 'q'
            repeat i64_ `crlf
            line`,
        },
    },
    @lengthOf(len)
    match rootA as stringy {
        [
            65535, 65535, 65535, 10, ""`tick`"",
            ""a\""b"", ""abc""
        ] : options1,
        ""1"" : a1,
        255 : As,
        """" : metadata,
        4294967296 : body,
    },
    repeat u8x,
    @lengthOf(asx)
    @tag(10)
    @calculatedFrom(""\n"")
    match Logon as options1 {
        ""CRC32"" : charz,
        [10, 65535, ""\n"", """ ++ [233]%N ++ runes_of_ascii "t" ++ [233]%N ++ runes_of_ascii """] : As,
        // packet A { u8 x, }
        [4294967296] : repeatCount,
    },
    @tag(007)
    @leftPad('0')
    @leftPad(' ')
    i16 u128 @calculatedFrom(""packet""),
    @leftPad()
    x @calculatedFrom(""\n"") `a\`,
    repeat zchar {
        zchar[007] Foo,
    },
    @tag(42)
    match chars as metadata {
        [""{,}""] : calculatedFrom,
        0 : x,
        4294967296 : leftPad,
        [42] : trueish,
        // packet A { u8 x, }
    },
}

options {
}")).
Eval vm_compute in ("<<<M929>>>" ++ check (runes_of_ascii "packet	string_ // packet A { u8 x, }
{ @lengthOf( x_y_z// " ++ [128512]%N ++ runes_of_ascii " emoji
) u8x // @lengthOf(
@lengthOf( MetaDataX
) , match u128 as calculatedFrom
    { ""// no comment"" :
    Foo } ,@tag(
255	)f32a body , f64 i64_
`two words`	, @tag( 7  ) @leftPad (
)
// c
// a // b
@calculatedFrom( """ ++ [233]%N ++ runes_of_ascii "t" ++ [233]%N ++ runes_of_ascii """ ) uint16 u @lengthOf( i64_	) `tab	here` , @lengthOf( options1 )
    roots {
string
    x@calculatedFrom( ""1""	)
,
len
`say ""hi""` ,
    rootA @lengthOf( crc )
    //	t
    , i64_ @lengthOf( Logon )
    // trailing space 
    `doc` , }
//
//
, Packet @calculatedFrom( ""abc"" )
,	@tag( 7
) @lengthOf( crc )match crc  as Z9_{42
    : u128 10: Packet
    ,
    ""packet"" : repeatCount[ """ ++ [128512]%N ++ runes_of_ascii """
, ""abc""// " ++ [27880; 37322]%N ++ runes_of_ascii "
] : u8x[
    ""a\""b"" /// triple
, 42
]:  rootA
,
[ 007
, ""1"" ,
    //	t
    """ ++ [233]%N ++ runes_of_ascii "t" ++ [233]%N ++ runes_of_ascii """ ] : chars
    ,
    }
    , }	root  packet	u {
    @calculatedFrom( ""CRC32"") _x
@calculatedFrom(""\" ++ [233]%N ++ runes_of_ascii """), calculatedFrom lengthOf  ,@rightPad
    (	)uint32 zchar
@calculatedFrom( """ ++ [233]%N ++ runes_of_ascii "t" ++ [233]%N ++ runes_of_ascii """) , A,
    } root packet int{
// `tick` ""quote"" 'q'
// `tick` ""quote"" 'q'
char stringy `a\` , // trailing space 
}
    options {Z9_//	t
= ""abc"";crc = ' '
; matchKey
= 00
    ;}
")).
Eval vm_compute in ("<<<M196>>>" ++ check (runes_of_ascii "packet
a1
    { @rightPad
    ( ' '  ) repeat	a1 ,
    //	t
    repeat
float32 i8i8	`two words`, @lengthOf( A ) float zchar ,@rightPad(
'0'
)	uint32 o `doc`
, @calculatedFrom( ""packet""
    )	repeat
asx `crlf
line`//	t
, @tag( 007 )
@calculatedFrom(	""CRC32""
)repeat uint64 A `line1
line2` , @leftPad ( '\x00'
)
// packet A { u8 x, }
//x
string stringy `` , @rightPad( '\x00' ) @tag( 255 /// triple
)
body
    @lengthOf( Z9_	)
,match
x_y_z
// packet A { u8 x, }
// " ++ [128512]%N ++ runes_of_ascii " emoji
as
falsey{""\" ++ [233]%N ++ runes_of_ascii """: options1
, } ,Logon falsey
// c
// " ++ [27880; 37322]%N ++ runes_of_ascii "
`say ""hi""`
, } packet// " ++ [128512]%N ++ runes_of_ascii " emoji
Foo { }options {
// @lengthOf(
// `tick` ""quote"" 'q'
f32a
=	""a\""b"" ;
float= '0' ;  calculatedFrom
    = 65535
    ; msg_type= '0';
    // trailing space 
    A = """"
} root packet
string_ {
match float as u128{ [ ""\n""
]	:// trailing space 
Packet , }
    ,} packet charz { lengthOf @calculatedFrom(
    // " ++ [128512]%N ++ runes_of_ascii " emoji
    """ ++ [28040; 24687]%N ++ runes_of_ascii """)
,
    @leftPad
( ' ' ) repeat chars`" ++ [28040; 24687; 31867; 22411]%N ++ runes_of_ascii "`, match leftPad
    as a1 {
    ""`tick`"" :
    string_ // c
,
// c
// c
10
:
    string_, 4294967296// a // b
: Foo
, } , }")).
Eval vm_compute in ("<<<M650>>>" ++ check (runes_of_ascii "// `tick` ""quote"" 'q'
packet
Logon { @lengthOf( //
Logon)	repeat f64// " ++ [27880; 37322]%N ++ runes_of_ascii "
MetaDataX ,
char[ 0
]
    // `tick` ""quote"" 'q'
    options1
,
    // " ++ [27880; 37322]%N ++ runes_of_ascii "
    repeat Foo
    `a\`  , // `tick` ""quote"" 'q'
@lengthOf( Header) u16 u128//x
@calculatedFrom( // `tick` ""quote"" 'q'
""\" ++ [233]%N ++ runes_of_ascii """
) //	t
,
    @lengthOf(	len )Header // trailing space 
{MetaDataX @calculatedFrom( ""a\""b""),
i32 rootA @calculatedFrom(
""a\""b"" //
)	`" ++ [28040; 24687; 31867; 22411]%N ++ runes_of_ascii "`	,
match A as
packetx { [0123456789]	: rootA
    , } ,
    }
    ,  }
    options{
Foo
    =// c
""CRC32""/// triple
;} MetaData MetaDataX
    { }packet lengthOf {// packet A { u8 x, }
repeat char[  3
] Pad,@calculatedFrom(  """ ++ [28040; 24687]%N ++ runes_of_ascii """ ) int16 roots
@lengthOf(
Logon )
, MetaDataX
{ //x
char[]
asx@lengthOf( calculatedFrom//x
) // " ++ [128512]%N ++ runes_of_ascii " emoji
, string
    //
    A@lengthOf( /// triple
Logon ) ,
char[]pack,}
    /// triple
    ,
    repeat options1 u ,@tag( 1 )
    repeat // c
pack	trueish ,repeat string repeatCount
, @calculatedFrom( """ ++ [28040; 24687]%N ++ runes_of_ascii """)  f32 float
    @calculatedFrom(""{,}"" )  , }")).
Eval vm_compute in ("<<<M1090>>>" ++ check (runes_of_ascii "
options{ body = ""it's""
; //
Z9_ = string ;
}
    //x
    packet
x
{repeat u128 { char[]u `a\`, } , @leftPad
(  ' ' ) @tag(
    00 ) @rightPad (
    '0' )  tag ,repeat f64
    // a // b
    float, repeat string o ,repeat int16  float
    ,
@calculatedFrom( ""it's"" ) @rightPad ( '\x00')@lengthOf(
lengthOf // " ++ [128512]%N ++ runes_of_ascii " emoji
) f32
    i8i8 ,
    repeat f32 tag `// not a comment` ,
@tag(
// trailing space 
/// triple
42// trailing space 
)x `" ++ [233]%N ++ runes_of_ascii "`
    ,
@lengthOf(
Pad )
    char[4294967296] repeatCount
`` // c
,
@lengthOf( pack
) @tag(
    007  )	uint32 leftPad
,
    } // trailing space 
root	packet int
    { @tag( 10 ) Packet // `tick` ""quote"" 'q'
@lengthOf(	MetaDataX ) , @rightPad
( '0' ) char[] MetaDataX @calculatedFrom( ""{,}""
)  `it's` , @tag(
0) // `tick` ""quote"" 'q'
@lengthOf(i64_
)
BodyLength,
@tag(
4294967296 ) repeat string Logon
    `" ++ [233]%N ++ runes_of_ascii "`/// triple
, @lengthOf( chars	)
    @tag(
10 ) @calculatedFrom( ""\" ++ [233]%N ++ runes_of_ascii """)char[] A @lengthOf( _x
    ),
    }
")).
Eval vm_compute in ("<<<M3760>>>" ++ check (runes_of_ascii "options {
    LittleEndian = true;
    StringPrefixLenType = u32;
    FixedStringPadChar = '0';
}

packet Logout {
    repeat InMsgkind49 {
        u8 pad0,
    },
    repeat char[5] seqNo,
    repeat u8 price,
}

packet Party {
    zchar[7] Qty,
}

packet Logon {
    repeat InRef10 {
        string price,
        char[] sym,
        repeat Logout,
    },
    repeat char[3] count,
    repeat Party,
    char[] tag7,
    @rightPad('0')
    char[2] clOrdID,
}

packet Order {
    InTail13 {
        Party,
    },
    repeat char[4] count,
}

root packet Cancel {
    Logout,
    @leftPad('0')
    char[9] msgKind,
    string lastPx,
    string tag7,
    zchar[1] OrderId,
    repeat Party,
    u16 sym,
    u16 Acct @lengthOf(Body),
    match sym as Body {
        [24, 44] : Logout,
        160 : Order,
        91 : Logon,
        43 : Party,
    },
    u16 Tail @calculatedFrom(""CR\
    C32""),
}")).
Eval vm_compute in ("<<<M3835>>>" ++ check (runes_of_ascii "
// `tick` ""quote"" 'q'
root 
packet// " ++ [27880; 37322]%N ++ runes_of_ascii "
    MetaDataX {

    zchar[10  ]len `// not a comment` ,  // " ++ [128512]%N ++ runes_of_ascii " emoji
  repeat matchKey 

    // " ++ [128512]%N ++ runes_of_ascii " emoji
{
u  // a // b
    falsey
`tab	here`

,
	},

@tag(
    0123456789

) 
string u8x 
,

    zchar[
    3
	]msg_type	@lengthOf( As 
)
    ,@rightPad  // `tick` ""quote"" 'q'

  ()  char
Packet 
,

    @rightPad 
(
	)
f64

u
    // `tick` ""quote"" 'q'
    ,@lengthOf(

uint8x
    )
	@lengthOf(
	x_y_z
) @lengthOf( float
)Logon @lengthOf( pack ) `a\`

,@lengthOf(
	Logon	)
	char[]

// a // b

  rootA  @calculatedFrom(  // " ++ [128512]%N ++ runes_of_ascii " emoji
    ""1"" )

    ,int64

    stringy@lengthOf(  zchar

    )	`{ , }` , match
    // a // b

// " ++ [27880; 37322]%N ++ runes_of_ascii "
    	string_ 
as

    As { 7
	:
    metadata""x y""  // " ++ [128512]%N ++ runes_of_ascii " emoji
  : 
packetx
, """ ++ [233]%N ++ runes_of_ascii "t" ++ [233]%N ++ runes_of_ascii """

    :
	repeatCount
	,}	, 
// @lengthOf(
} root
	packet matchKey{  }  packet

charz{ 
} ")).
Eval vm_compute in ("<<<M4223>>>" ++ check (runes_of_ascii "

  root
	packet
uint8x

{	} 
options
{o=
	    //x
    	//
	' ';
x_y_z	=
	0123456789

    stringy =

""packet""  }
	packet	A	{
match
falsey
as string_
{ """ ++ [28040; 24687]%N ++ runes_of_ascii """  :
packetx ,

    0 :BodyLength	,
    } 	 // @lengthOf(
	,

float32  // " ++ [27880; 37322]%N ++ runes_of_ascii "
	string_
@lengthOf(

    a1	),

    trueish @calculatedFrom(""abc""
),
@leftPad  //	t
    (
	'0')  string

    matchKey @lengthOf(
    x_y_z )`` ,	leftPad
{
trueish 
@calculatedFrom(
""a\""b"" 
)// c
  ,

}, // `tick` ""quote"" 'q'
@tag( 1
    // trailing space 
		)
repeat

float64
calculatedFrom	`{ , }`

,
@leftPad 
    // @lengthOf(
  (
    '\x00'
)

    match Z9_	//	t
	  as crc
	{ [  0
]

    :

a1

    , 	 //

	}
	,_x 
@lengthOf( T
    )// trailing space 
    ,
    x_y_z `" ++ [28040; 24687; 31867; 22411]%N ++ runes_of_ascii "` 
        // c
	// `tick` ""quote"" 'q'
		,  repeat
char[]Z9_
    ,
} 
// " ++ [27880; 37322]%N ++ runes_of_ascii "
")).
Eval vm_compute in ("<<<M3794>>>" ++ check (runes_of_ascii "packet a1 {
    @lengthOf(packetx)
    A @lengthOf(T) `tab	here`,
    zchar[42] Header,// " ++ [128512]%N ++ runes_of_ascii " emoji
    @leftPad('0')
    match o as int {
        1 : Logon,
    },
    repeat packetx `line1
    line2`,
    string x @calculatedFrom(""CRC32""),
    i8 repeatCount `// not a comment`,
    match i64_ as x_y_z {
        3 : len,
        4294967296 : u8x,
        00 : crc,
        [
            10, 007, 3, 00, 0123456789,
            0123456789, """ ++ [128512]%N ++ runes_of_ascii """
        ] : tag,
        42 : repeatCount,
    },
    @lengthOf(f32a)
    @lengthOf(stringy)
    @calculatedFrom(""\" ++ [233]%N ++ runes_of_ascii """)
    repeat i64 As,
    @rightPad()
    repeat leftPad {
        uint32 crc @calculatedFrom(""" ++ [233]%N ++ runes_of_ascii "t" ++ [233]%N ++ runes_of_ascii """),
    },
}

MetaData Pad {
    As pack,
}

root packet len {
    @calculatedFrom(""\" ++ [233]%N ++ runes_of_ascii """)
    int64 a1 @calculatedFrom(""CRC32""),
}")).
Eval vm_compute in ("<<<M3208>>>" ++ check (runes_of_ascii "// top
root // c0
packet // c1
msg_type // c2
{ // c3
i64 // c4
options1 // c5
, // c6
@lengthOf( // c7
f32a // c8
) // c9
repeat // c10
uint16 // c11
Foo // c12
, // c13
@calculatedFrom( // c14
""x y"" // c15
) // c16
repeat // c17
int64 // c18
pack // c19
, // c20
@leftPad // c21
( // c22
' ' // c23
) // c24
uint8 // c25
Foo // c26
, // c27
} // c28
packet // c29
rootA // c30
{ // c31
f32a // c32
x // c33
`two words` // c34
, // c35
char // c36
asx // c37
@lengthOf( // c38
falsey // c39
) // c40
`u8 x,` // c41
, // c42
@lengthOf( // c43
i64_ // c44
) // c45
uint16 // c46
chars // c47
, // c48
@tag( // c49
0 // c50
) // c51
string // c52
_x // c53
@calculatedFrom( // c54
""abc"" // c55
) // c56
`// not a comment` // c57
, // c58
} // c59
")).
Eval vm_compute in ("<<<M1086>>>" ++ check (runes_of_ascii "// " ++ [128512]%N ++ runes_of_ascii " emoji
packet u128{ repeat
MetaDataX
    ,
int64
leftPad
, //	t
@lengthOf(
    matchKey ) //
@calculatedFrom( """ ++ [28040; 24687]%N ++ runes_of_ascii """ )match T as Header{255 :repeatCount, ""it's""
    : roots
, },
}
//
//	t
packet MetaDataX{ repeat
// a // b
// packet A { u8 x, }
chars
asx  `tab	here`
    , repeat o
// c
// trailing space 
{ repeat _x { repeat uint32 charz`u8 x,` ,
zchar[42  ] leftPad @calculatedFrom( """ ++ [28040; 24687]%N ++ runes_of_ascii """ ) `doc` , /// triple
} ,  },  int16 u@lengthOf( f32a//	t
) `tab	here` ,match f32a
as i64_
    { 00 :
    len
    // `tick` ""quote"" 'q'
    , } ,
    } MetaData
    //x
    pack { f32a
packetx ,zchar[ 10 ] Header
    `tab	here` , zchar[
007
    ]
    string_ `crlf
line`
, char[]
    matchKey , float64 float,}
")).
Eval vm_compute in ("<<<M193>>>" ++ check (runes_of_ascii "options {
// c
//x
u128 = true ; Header // trailing space 
= ""packet""
    stringy =""CRC32"" A =
    '0' ;} packet calculatedFrom  { repeat
u128
    Logon ,
// packet A { u8 x, }
// " ++ [128512]%N ++ runes_of_ascii " emoji
}
packet body { @calculatedFrom( ""\" ++ [233]%N ++ runes_of_ascii """
)
    metadata
`a\`  ,
// c
// c
stringy{
    //	t
    uint8 A `tab	here` , repeat
    u
    // `tick` ""quote"" 'q'
    As
, /// triple
zchar[
65535]x_y_z@lengthOf(
crc ) //
, }  , @calculatedFrom(
    ""{,}"" )len /// triple
@lengthOf(	roots ) ,char[  7 ]BodyLength`{ , }` ,
    // c
    int64
    _x , @calculatedFrom(""it's""// " ++ [27880; 37322]%N ++ runes_of_ascii "
) match
pack as As { ""CRC32"": o
    ,
    } , zchar[ 4294967296]i64_@calculatedFrom( ""// no comment"" ) ,
}
")).
Eval vm_compute in ("<<<M998>>>" ++ check (runes_of_ascii "  root packet Packet {
u128
    `{ , }`
, // @lengthOf(
@calculatedFrom(""\n"")char[
65535	] float@calculatedFrom(
    /// triple
    ""abc"" ) , f32a
, f32 i64_, @leftPad( ' '
)
    @lengthOf( body ) @leftPad ( ' '
) u64 x `doc`,char[ 00]
int@lengthOf(roots
)`tab	here` , float64 msg_type,
    @calculatedFrom(
""a\\""
) @leftPad (
// a // b
// packet A { u8 x, }
) match
    zchar as
_x{
    10:
asx
,42
    //
    :  A , 00 : options1
    , [007]
: chars, 65535
// @lengthOf(
//	t
: _x [ ""a\""b"" ] : pack , } ,@tag( 10 )// " ++ [128512]%N ++ runes_of_ascii " emoji
match o
    as  a1	{ 255
// trailing space 
// packet A { u8 x, }
:
    lengthOf ,10 :
float, } ,}
")).
Eval vm_compute in ("<<<M994>>>" ++ check (runes_of_ascii "packet trueish { i64 T// @lengthOf(
`it's` ,
    repeat	_x {
    char[]
charz ,
leftPad
{ u64 uint8x `` ,
    // c
    } ,	} ,string	asx @calculatedFrom( ""1"" )`tab	here` , @lengthOf( T )match A
as
msg_type
{[42
    , ""// no comment"" ,""x y""	,
""" ++ [128512]%N ++ runes_of_ascii """ , ""CRC32"" ] :
Logon
    ,
255
    :matchKey , }, // trailing space 
uint32 stringy , int64 msg_type @calculatedFrom(""" ++ [233]%N ++ runes_of_ascii "t" ++ [233]%N ++ runes_of_ascii """ ) `tab	here`
    , repeat Logon {repeat roots Header`` , u16 falsey`a\`
    ,
} ,@lengthOf(leftPad )
    // a // b
    tag @calculatedFrom( //x
""CRC32"" ) `" ++ [233]%N ++ runes_of_ascii "` ,// @lengthOf(
}
    MetaData Logon {float32
int,} options {// a // b
} 	 ")).
Eval vm_compute in ("<<<M524>>>" ++ check (runes_of_ascii "options {
tag = ""it's""
//	t
// packet A { u8 x, }
;
int  = zchar[ 00
] ; x_y_z =""a	b"" ;  packetx =' '
    ;}packet
rootA {  uint8x @calculatedFrom( ""CRC32""
) ,// " ++ [27880; 37322]%N ++ runes_of_ascii "
u // `tick` ""quote"" 'q'
{
repeat
string repeatCount
    `line1
line2`,
    repeat Logon{ f32a @lengthOf( roots), Packet {int32
Z9_ `u8 x,` ,  } , Packet Packet , } , repeat
// " ++ [128512]%N ++ runes_of_ascii " emoji
// trailing space 
repeatCount zchar, } ,
    a1 @calculatedFrom(""abc""
) // `tick` ""quote"" 'q'
,}// `tick` ""quote"" 'q'
root
packet crc {
@tag(00	)
    char[7
    // `tick` ""quote"" 'q'
    ]asx @lengthOf( T ) `` ,
}
")).
Eval vm_compute in ("<<<M539>>>" ++ check (runes_of_ascii "
root
packet
packetx {
charz `" ++ [233]%N ++ runes_of_ascii "`
    // " ++ [27880; 37322]%N ++ runes_of_ascii "
    , float64 x @calculatedFrom( ""// no comment""
)
    `{ , }`
// packet A { u8 x, }
/// triple
,
}
packet crc{ }packet x {
@tag(10)@rightPad ('\x00' ) repeat uint32 Z9_
    `
`, @lengthOf(
rootA ) @calculatedFrom(
    // @lengthOf(
    ""{,}"" // " ++ [128512]%N ++ runes_of_ascii " emoji
)
    stringy // c
``, @leftPad ( '0'
    )
@lengthOf( i64_ ) @lengthOf( zchar	) repeat zchar[0123456789]body,
//	t
// @lengthOf(
@rightPad (	)
    @lengthOf( leftPad )
@leftPad (  '\x00' )string
zchar // @lengthOf(
@lengthOf( T ) , } //	t")).
Eval vm_compute in ("<<<M1089>>>" ++ check (runes_of_ascii "options
{ u128// trailing space 
=i8  T = float64
    body =	char[ 0123456789 ] ;i8i8 = uint64	; }
root packet calculatedFrom{
    zchar[
0123456789 ] As  @calculatedFrom(
""" ++ [28040; 24687]%N ++ runes_of_ascii """ ) , // " ++ [128512]%N ++ runes_of_ascii " emoji
@calculatedFrom( """ ++ [233]%N ++ runes_of_ascii "t" ++ [233]%N ++ runes_of_ascii """ ) repeat
    Logon{ string
    matchKey	@lengthOf( i8i8
// `tick` ""quote"" 'q'
// `tick` ""quote"" 'q'
)
    ,
    repeat
    i64_ ,
} // a // b
,repeat
    uint8 u8x `a\`
,
char[ 255] pack
    ,} MetaData options1 {
string Pad `{ , }`
, Header _x , u16 repeatCount// a // b
`u8 x,`
, }
")).
Eval vm_compute in ("<<<M167>>>" ++ check (runes_of_ascii "root
packet i64_{
    packetx
// " ++ [128512]%N ++ runes_of_ascii " emoji
// " ++ [27880; 37322]%N ++ runes_of_ascii "
{	string zchar // c
@calculatedFrom(
""`tick`""
    )
    `
`
, zchar[1 ]  metadata	`doc`	, Foo
    @calculatedFrom(
""CRC32""
    )
    ,}
    //	t
    ,char[]roots `crlf
line`
//	t
//x
, @calculatedFrom(""it's"" )  char
    rootA
    ,
@tag( 7 )
    charz o //x
`it's`
, // a // b
char[ 007] msg_type@lengthOf(x_y_z )
,
    repeat //	t
zchar[ 007 ]repeatCount `say ""hi""` , match i64_ as rootA
{ [""abc"" ] :T }
, repeat chars ,  }
")).
Eval vm_compute in ("<<<M3765>>>" ++ check (runes_of_ascii "root packet options1 {
    @lengthOf(msg_type)
    Logon @lengthOf(packetx) `
    `,
    As {
        repeat T `
        `,
        float64 Foo `crlf
        line`,
        repeat repeatCount x_y_z `a\`,
        int8 msg_type,
    },// `tick` ""quote"" 'q'
    msg_type @lengthOf(body),
    u64 rootA @calculatedFrom(""" ++ [128512]%N ++ runes_of_ascii """),
    @calculatedFrom(""packet"")
    i32 Header,
    uint32 BodyLength @lengthOf(trueish),
    @lengthOf(f32a)
    f32 Z9_ `{ , }`,
}// a // b")).
Eval vm_compute in ("<<<M1339>>>" ++ check (runes_of_ascii "packet trueish { @tag(  007  )len {
string float ,
    // packet A { u8 x, }
    repeat
// c
//	t
Z9_ `tab	here`
    , f32
A @calculatedFrom(
""CRC32"") ,	} , match
BodyLength// " ++ [27880; 37322]%N ++ runes_of_ascii "
as // `tick` ""quote"" 'q'
int {1 :msg_type  , """ ++ [128512]%N ++ runes_of_ascii """ // @lengthOf(
:
falsey
    // a // b
    ,
// " ++ [128512]%N ++ runes_of_ascii " emoji
/// triple
""// no comment""/// triple
:x_y_z // @lengthOf(
} , repeat // @lengthOf(
i32 rootA `doc` ,  }packet asx
{ }options// `tick` ""quote"" 'q'
{ T
=	""a	b"" }
")).
Eval vm_compute in ("<<<M4132>>>" ++ check (runes_of_ascii "root packet options1 {
    @rightPad(' ')
    calculatedFrom @calculatedFrom(""x y""),
    @rightPad()
    match lengthOf as Logon {
        ""1"" : Z9_,
        ""it's"" : metadata,
    },
    @lengthOf(o)
    match options1 as As {
        255 : u8x,
        """" : uint8x,
        [007, 0123456789, ""`tick`""] : T,
        ""\" ++ [233]%N ++ runes_of_ascii """ : As,
        7 : Z9_,
    },
}

MetaData pack {
    string As,
    Header body `two words`,
    i32 f32a,
}")).
Eval vm_compute in ("<<<M3640>>>" ++ check (runes_of_ascii "root packet chars {
    falsey,
    uint64 f32a @lengthOf(lengthOf),// c
}

MetaData T {
    char[] As,
}

// trailing space 
packet tag {
    i64 Foo @lengthOf(a1),
    @calculatedFrom(""" ++ [128512]%N ++ runes_of_ascii """)
    @leftPad('\x00')
    @leftPad('\x00')
    repeat Foo MetaDataX,
}

root packet body {
    repeat u64 MetaDataX `u8 x,`,
    @rightPad(' ')
    charz @lengthOf(matchKey),
    @calculatedFrom("""")
    len @lengthOf(tag),
}")).
Eval vm_compute in ("<<<M300>>>" ++ check (runes_of_ascii "
root
    packet pack
{
repeat u8x
    `a\`
    , char[ 3 ]MetaDataX `two words` ,
    @leftPad ( ' '  ) zchar[ 4294967296 ]crc
@calculatedFrom( """ ++ [128512]%N ++ runes_of_ascii """
)
    // c
    ,  @lengthOf(
    // " ++ [27880; 37322]%N ++ runes_of_ascii "
    options1 )
// " ++ [128512]%N ++ runes_of_ascii " emoji
// " ++ [27880; 37322]%N ++ runes_of_ascii "
@calculatedFrom( ""x y"" )repeat u{ repeat	x_y_z options1
`two words` , zchar[3	]
charz ,
    Logon { u8	pack ,
repeat zchar , i8i8{ repeat
    u8
    matchKey , }, } ,
}, }")).
Eval vm_compute in ("<<<M1171>>>" ++ check (runes_of_ascii "root packet
string_ {
zchar[1
// a // b
// `tick` ""quote"" 'q'
] stringy //	t
@lengthOf(charz  )
    `u8 x,` // " ++ [27880; 37322]%N ++ runes_of_ascii "
,
repeat falsey {i8 u128
    @lengthOf(
    u128
//	t
// packet A { u8 x, }
) `line1
line2` ,
    float@calculatedFrom( ""a	b"" )
// a // b
//
,chars
,
    char[
0] Header ,},	i8i8 `// not a comment` , //
} packet T
    // a // b
    { repeat //	t
lengthOf
,}
")).
Eval vm_compute in ("<<<M3437>>>" ++ check (runes_of_ascii "packet B // c1
{ // c2
u8 // c3a
  // c3b
a // c4
,
    // c5
} // c6a
  // c6b
root
    // c7
packet
    // c8
P // c9
{ // c10a
  // c10b
u8 // c11
K // c12a
  // c12b
, // c13a
  // c13b
u64 // c14
L @lengthOf( Body // c17a
  // c17b
) // c18
,
    // c19
match // c20a
  // c20b
K as // c22
Body // c23
{
    // c24
1 // c25
: // c26
B // c27
, } , } // c31
")).
Eval vm_compute in ("<<<M3665>>>" ++ check (runes_of_ascii "options {
    A = ""it's""
}

options {
}

packet pack {
    int16 zchar,
    @tag(007)
    @lengthOf(Pad)
    @leftPad(' ')
    match stringy as body {
        [
            255, 42, 1, 00, 10,
            """", ""{,}""
        ] : repeatCount,
        [1] : x_y_z,
        ""`tick`"" : packetx,
        7 : u128,
    },
    u32 body @lengthOf(stringy),
}")).
Eval vm_compute in ("<<<M209>>>" ++ check (runes_of_ascii "
packet //
u8x
    {
    @lengthOf( Logon )
    u128 { //x
Logon@lengthOf( msg_type
), }
    ,  repeat
uint8x
, // @lengthOf(
int64 // c
o `tab	here`
    , }MetaData
    int{// " ++ [128512]%N ++ runes_of_ascii " emoji
char[]
    // `tick` ""quote"" 'q'
    chars `it's`,	int crc `{ , }`, // @lengthOf(
}root packet chars
    { char[]
x_y_z , }
// trailing space 
")).
Eval vm_compute in ("<<<M1312>>>" ++ check (runes_of_ascii "packet repeatCount {@tag(  7 )int16 crc, zchar[007]  a1 @lengthOf( falsey) , repeat char[]	Packet, o , } packet crc
{ @rightPad ('\x00' ) @rightPad
('0'	) i64 A
    , match // a // b
stringy as o {
    4294967296: chars , }	, body int
    //
    ,
    // `tick` ""quote"" 'q'
    @calculatedFrom( ""\n""
)
    Packet ,  }
")).
Eval vm_compute in ("<<<M4019>>>" ++ check (runes_of_ascii "packet chars {
    @rightPad()
    @tag(42)
    @tag(00)
    int len,
    zchar[4294967296] asx ``,
    @rightPad('0')
    @calculatedFrom(""{,}"")
    @lengthOf(repeatCount)
    repeat uint64 falsey `doc`,
    repeat zchar[0] u8x,
}

MetaData crc {
    uint32 packetx,
}

packet float {
    //
    u128 _x,
}")).
Eval vm_compute in ("<<<M4082>>>" ++ check (runes_of_ascii "
options{ LittleEndian
= true ;  }packet

Logon

    { u8
x

    , }	packet
Logout	{ u16 reason,
}	root packet	Frame	{
i64
Kind
    ,

    i64 Kind2
,
match

    Kind
as  Body

{ 1 : Logon	, [
	2
, 
3 ,
4 ] :
	Logout
	,	100  :  Logon ,} ,
match	Kind2
as

Trailer 
{ 
0	:  Logout , }	,
}
")).
Eval vm_compute in ("<<<M1487>>>" ++ check (runes_of_ascii "root packet Foo // " ++ [128512]%N ++ runes_of_ascii " emoji
{ } options {
    // a // b
    tag // `tick` ""quote"" 'q'
= //	t
""""
    ; u8x = zchar[0  true }
MetaData
    int {zchar[ 10]
lengthOf	`` , i64 u8x`// not a comment` ,MetaDataX pack// `tick` ""quote"" 'q'
`crlf
line`
, Logon charz `crlf
line`
    ,
    // a // b
    }
")).
Eval vm_compute in ("<<<M1610>>>" ++ check (runes_of_ascii "root packet Foo // " ++ [128512]%N ++ runes_of_ascii " emoji
{ } options {
    // a // b
    tag // `tick` ""quote"" 'q'
= //	t
""""
    ; u8x = zchar[0  ] }
' MetaData
    int {zchar[ 10]
lengthOf	`` , i64 u8x`// not a comment` ,MetaDataX pack// `tick` ""quote"" 'q'
`crlf
line`
, Logon charz `crlf
line`
    ,
    // a // b
    }
")).
Eval vm_compute in ("<<<M1466>>>" ++ check (runes_of_ascii "root packet Foo // " ++ [128512]%N ++ runes_of_ascii " emoji
{ } options {
    // a // b
    tag // `tick` ""quote"" 'q'
= //	t
""""
    ; = u8x zchar[0  ] }
MetaData
    int {zchar[ 10]
lengthOf	`` , i64 u8x`// not a comment` ,MetaDataX pack// `tick` ""quote"" 'q'
`crlf
line`
, Logon charz `crlf
line`
    ,
    // a // b
    }
")).
Eval vm_compute in ("<<<M1439>>>" ++ check (runes_of_ascii "root packet Foo // " ++ [128512]%N ++ runes_of_ascii " emoji
{ } options 
    // a // b
    tag // `tick` ""quote"" 'q'
= //	t
""""
    ; u8x = zchar[0  ] }
MetaData
    int {zchar[ 10]
lengthOf	`` , i64 u8x`// not a comment` ,MetaDataX pack// `tick` ""quote"" 'q'
`crlf
line`
, Logon charz `crlf
line`
    ,
    // a // b
    }
")).
Eval vm_compute in ("<<<M1539>>>" ++ check (runes_of_ascii "root packet Foo // " ++ [128512]%N ++ runes_of_ascii " emoji
{ } options {
    // a // b
    tag // `tick` ""quote"" 'q'
= //	t
""""
    ; u8x = zchar[0  ] }
MetaData
    int {zchar[ 10]
lengthOf	`` ,  u8x`// not a comment` ,MetaDataX pack// `tick` ""quote"" 'q'
`crlf
line`
, Logon charz `crlf
line`
    ,
    // a // b
    }
")).
Eval vm_compute in ("<<<M92>>>" ++ check (runes_of_ascii "root
    packet packetx {	uint32
x_y_z@calculatedFrom( """ ++ [233]%N ++ runes_of_ascii "t" ++ [233]%N ++ runes_of_ascii """ ) ,@calculatedFrom(
    ""{,}"" // trailing space 
)	float calculatedFrom
`line1
line2` ,u16 Packet @lengthOf( f32a ) ,
char[] o `tab	here`, @calculatedFrom( ""x y""  )T {
repeat i64 chars , } ,
i16  roots	,
} // @lengthOf(")).
Eval vm_compute in ("<<<M1602>>>" ++ check (runes_of_ascii "root packet Foo // " ++ [128512]%N ++ runes_of_ascii " emoji
{ } options {
    // a // b
    tag // `tick` ""quote"" 'q'
= //	t
""""
    ; u8x = zchar[0  ] }
MetaData
    int {zchar[ 10]
lengthOf	`` , i64 u8x`// not a comment` ,MetaDataX pack// `tick` ""quote"" 'q'
`crlf
line`
, Logon charz `crlf
line`
    ,")).
Eval vm_compute in ("<<<M380>>>" ++ check (runes_of_ascii "options {
falsey =
    ""a	b"" ;leftPad = '0'// " ++ [128512]%N ++ runes_of_ascii " emoji
; o =// c
float64 } packet//
x { match f32a
as uint8x {
[
    255 ,
    7 , 42
    /// triple
    , 7 ,  ""abc""
    , 255 , ""1"" //	t
, 0 ]:matchKey
,
    // trailing space 
    } , } // packet A { u8 x, }")).
Eval vm_compute in ("<<<M509>>>" ++ check (runes_of_ascii "MetaData len
{ f64 u ,char[] Z9_ `doc` ,metadata
    // " ++ [27880; 37322]%N ++ runes_of_ascii "
    A,i64 stringy`line1
line2` , A int`line1
line2` // `tick` ""quote"" 'q'
, f32 i8i8 , }packet
// c
//
stringy/// triple
{ @calculatedFrom( """ ++ [128512]%N ++ runes_of_ascii """
    )char[]
roots, }
root packet metadata {
}")).
Eval vm_compute in ("<<<M788>>>" ++ check (runes_of_ascii "  root
packet i64_ {
    @calculatedFrom( ""\n"") repeat// packet A { u8 x, }
uint32	BodyLength ,@leftPad /// triple
( ' ' // @lengthOf(
) i32
falsey@lengthOf( i64_  )//x
`line1
line2`  , @rightPad
    ( ) repeat int64 int`" ++ [233]%N ++ runes_of_ascii "` ,
    }
// " ++ [27880; 37322]%N ++ runes_of_ascii "
")).
Eval vm_compute in ("<<<M1392>>>" ++ check (runes_of_ascii "MetaData matchKey// `tick` ""quote"" 'q'
{ metadata u8x
    ,int8 chars ,
// @lengthOf(
//
MetaDataX u128``
, }MetaData As{ uint8x
u , u32
falsey `" ++ [28040; 24687; 31867; 22411]%N ++ runes_of_ascii "` ,
zchar[ 1 ] tag ,
    zchar[ 0 ] float
,
char[]  metadata
, } // @lengthOf(")).
Eval vm_compute in ("<<<M771>>>" ++ check (runes_of_ascii "packet Logon { @lengthOf( Pad
    ) int{ match matchKey
as
Pad { ""CRC32"" :
body
,
    }
    ,  len
    // `tick` ""quote"" 'q'
    @lengthOf(// `tick` ""quote"" 'q'
chars )
    /// triple
    , float
@lengthOf( Foo ), } , }
")).
Eval vm_compute in ("<<<M262>>>" ++ check (runes_of_ascii "packet charz
{ @lengthOf(leftPad ) charz  @calculatedFrom( ""a\""b""
)`it's`	, char[]
Foo ,	uint8 MetaDataX `u8 x,`
    ,int64 i8i8 , @calculatedFrom( ""a	b""
) zchar[ // trailing space 
7 ] string_, } MetaData Pad{
    }")).
Eval vm_compute in ("<<<M2371>>>" ++ check (runes_of_ascii "MetaData Packet { }packet	asx  { @lengthOf( asx) falsey`crlf
line`
,
    }
    packet x	{uint32// @lengthOf(
rootA	,u32 options1 `say ""hi""` , @tag( 7
    )// packet A { u8 x, }
msg_type @lengthOf(
stringy	)	, } }

")).
Eval vm_compute in ("<<<M2262>>>" ++ check (runes_of_ascii "MetaData Packet { }packet	asx  { @lengthOf( asx) `crlf
line`falsey
,
    }
    packet x	{uint32// @lengthOf(
rootA	,u32 options1 `say ""hi""` , @tag( 7
    )// packet A { u8 x, }
msg_type @lengthOf(
stringy	)	, }

")).
Eval vm_compute in ("<<<M2275>>>" ++ check (runes_of_ascii "MetaData Packet { }packet	asx  { @lengthOf( asx) falsey`crlf
line`
,
    
    packet x	{uint32// @lengthOf(
rootA	,u32 options1 `say ""hi""` , @tag( 7
    )// packet A { u8 x, }
msg_type @lengthOf(
stringy	)	, }

")).
Eval vm_compute in ("<<<M4363>>>" ++ check (runes_of_ascii "
options  /// triple
    { 
T

    =//

  """ ++ [128512]%N ++ runes_of_ascii """  ;
	o
=  '\x00'	As  =
'\x00'//	t
tag  =	// a // b
  ""1""

}root
packet MetaDataX

    {  @rightPad
(

    '0')	_x
    `// not a comment`	, /// triple

  }
")).
Eval vm_compute in ("<<<M7>>>" ++ check (runes_of_ascii "MetaData trueish {	tag Foo `say ""hi""` , zchar[ 4294967296 ]
    charz // packet A { u8 x, }
,
/// triple
// a // b
Z9_ _x ,
char[	0123456789 ] lengthOf
    , i64 u8x `// not a comment` , f32a a1 `doc`,	}
")).
Eval vm_compute in ("<<<M1568>>>" ++ check (runes_of_ascii "root packet Foo // " ++ [128512]%N ++ runes_of_ascii " emoji
{ } options {
    // a // b
    tag // `tick` ""quote"" 'q'
= //	t
""""
    ; u8x = zchar[0  ] }
MetaData
    int {zchar[ 10]
lengthOf	`` , i64 u8x`// not a comment` ,MetaDataX")).
Eval vm_compute in ("<<<M604>>>" ++ check (runes_of_ascii "options { rootA = '\x00' _x = true
//
// @lengthOf(
}
    packet //
uint8x
{ uint16 u
    /// triple
    @lengthOf( x_y_z )
    //
    `say ""hi""` ,} MetaData // @lengthOf(
_x { } options
{ }
")).
Eval vm_compute in ("<<<M1374>>>" ++ check (runes_of_ascii "// c
packet // `tick` ""quote"" 'q'
f32a{ }  MetaData rootA { zchar[007 // trailing space 
] As
, A u,a1
A
,
} root
packet  Logon // @lengthOf(
{	@tag( 1 )	x_y_z
{ repeat
u
_x , } , }")).
Eval vm_compute in ("<<<M147>>>" ++ check (runes_of_ascii "root packet stringy { @tag( 7 ) @tag( 1
    ) @rightPad (
'\x00'
    )Foo // `tick` ""quote"" 'q'
x`crlf
line` ,@calculatedFrom(  ""a	b"" ) roots //x
`it's`// @lengthOf(
,
    }")).
Eval vm_compute in ("<<<M4353>>>" ++ check (runes_of_ascii "  root

    packet

charz 
{ @calculatedFrom(

""a	b""
)
repeat

f32a

options1

    `u8 x,`
    , } options{  // " ++ [27880; 37322]%N ++ runes_of_ascii "

zchar
= char[3
	]
    ; }
        /// triple
 
")).
Eval vm_compute in ("<<<M1307>>>" ++ check (runes_of_ascii "MetaData
stringy { zchar[ 255 ] u`
` , // packet A { u8 x, }
string repeatCount ,
    As i8i8 `{ , }` ,
string x_y_z
    // c
    , uint16 Pad , uint32
asx ,
}
")).
Eval vm_compute in ("<<<M952>>>" ++ check (runes_of_ascii "packet msg_type
{ char[]
    body@calculatedFrom(
    ""1"" )`doc` , @tag( 00 ) lengthOf
@lengthOf( // c
trueish)
    `crlf
line` , } // trailing space ")).
Eval vm_compute in ("<<<M346>>>" ++ check (runes_of_ascii "packet BodyLength {repeat u128 charz ,
i64 i64_
@lengthOf(
asx )
,
repeat
    i64_ { repeat int `u8 x,` , //	t
},repeat float32
pack
`" ++ [233]%N ++ runes_of_ascii "` ,
    }")).
Eval vm_compute in ("<<<M1668>>>" ++ check (runes_of_ascii "root packet /// triple
rootA {	i32
MetaDataX@calculatedFrom( ""CRC32"" ) `line1
line2` `line1
line2` , } MetaData BodyLength {
u8
rootA, } // c")).
Eval vm_compute in ("<<<M3860>>>" ++ check (runes_of_ascii "packet A {
    Inner {
        u8 x `
                `,
        Deep {
            u8 y `
                        `,
        },
    },
}")).
Eval vm_compute in ("<<<M3831>>>" ++ check (runes_of_ascii "
MetaData
	u128	{  char[	255 
]  _x `{ , }`,	string leftPad

, 
u8  A ,
zchar[	0123456789
    ]Foo	,

char[]
As

    `{ , }` ,

} ")).
Eval vm_compute in ("<<<M3471>>>" ++ check (runes_of_ascii "packet A {
    u8 a,
}
packet B {
    u16 b,
}
root packet P {
    u8 K,
    match K as M {
        1 : A,
        1 : B,
    },
}
")).
Eval vm_compute in ("<<<M1503>>>" ++ check (runes_of_ascii "root packet Foo // " ++ [128512]%N ++ runes_of_ascii " emoji
{ } options {
    // a // b
    tag // `tick` ""quote"" 'q'
= //	t
""""
    ; u8x = zchar[0  ] }
MetaData")).
Eval vm_compute in ("<<<M1707>>>" ++ check (runes_of_ascii "root packet /// triple
rootA {	i32
MetaDataX@calculatedFrom( ""CRC32"" ) `line1
line2` , } MetaData BodyLength {
u8
rootA } // c")).
Eval vm_compute in ("<<<M1831>>>" ++ check (runes_of_ascii "packet
    Pad // a // b
{ i8i8 @calculatedFrom( ""a	b"") `u8 x,` ,
} options options{ float// " ++ [128512]%N ++ runes_of_ascii " emoji
= f64 i64_
=//	t
00 }
")).
Eval vm_compute in ("<<<M1047>>>" ++ check (runes_of_ascii "options{
//	t
// " ++ [27880; 37322]%N ++ runes_of_ascii "
falsey
    // c
    =7 u128
    =""" ++ [233]%N ++ runes_of_ascii "t" ++ [233]%N ++ runes_of_ascii """ calculatedFrom
// c
// c
= ""// no comment"" // trailing space 
}")).
Eval vm_compute in ("<<<M1866>>>" ++ check (runes_of_ascii "packet
    Pad // a // b
{ i8i8 @calculatedFrom( ""a	b"") `u8 x,` ,
} options{ float// " ++ [128512]%N ++ runes_of_ascii " emoji
= f64 i64_
=//	t
00 00 }
")).
Eval vm_compute in ("<<<M1828>>>" ++ check (runes_of_ascii "packet
    Pad // a // b
{ i8i8 @calculatedFrom( ""a	b"") `u8 x,` ,
i8 options{ float// " ++ [128512]%N ++ runes_of_ascii " emoji
= f64 i64_
=//	t
00 }
")).
Eval vm_compute in ("<<<M1832>>>" ++ check (runes_of_ascii "packet
    Pad // a // b
{ i8i8 @calculatedFrom( ""a	b"") `u8 x,` ,
} {options float// " ++ [128512]%N ++ runes_of_ascii " emoji
= f64 i64_
=//	t
00 }
")).
Eval vm_compute in ("<<<M254>>>" ++ check (runes_of_ascii "options { i8i8= char[]
    ; } packet
MetaDataX{ @calculatedFrom( ""x y"" )int32 T `" ++ [28040; 24687; 31867; 22411]%N ++ runes_of_ascii "` ,
    f64 matchKey
    , }")).
Eval vm_compute in ("<<<M501>>>" ++ check (runes_of_ascii "options { u128 =  zchar[	255 ] ;  Pad=
00 x_y_z= i16 Header  = ""\n""  ;  }
    root packet
BodyLength {//x
}
//x
")).
Eval vm_compute in ("<<<M250>>>" ++ check (runes_of_ascii "
MetaData	Logon {	zchar[ 10 ]float `" ++ [233]%N ++ runes_of_ascii "` , BodyLength Z9_ , float32 o `a\` ,uint64 roots `two words` // " ++ [27880; 37322]%N ++ runes_of_ascii "
,  }
")).
Eval vm_compute in ("<<<M511>>>" ++ check (runes_of_ascii "
MetaData
crc { MetaDataX pack
    //x
    ,
/// triple
// c
}
    MetaData repeatCount
{
// " ++ [128512]%N ++ runes_of_ascii " emoji
//
}
")).
Eval vm_compute in ("<<<M3016>>>" ++ check (runes_of_ascii "packet A {
    u16 len @lengthOf(body) `
`,
    u32 crc @calculatedFrom(""CRC32"") `
`,
    string body,
}")).
Eval vm_compute in ("<<<M3355>>>" ++ check (runes_of_ascii "packet calculatedFrom { @tag( 4294967296 ) u msg_type , // c
char[ 3 ] crc @lengthOf( len ) `u8 x,` , }")).
Eval vm_compute in ("<<<M62>>>" ++ check (runes_of_ascii "
options{metadata
    =
// @lengthOf(
// @lengthOf(
""a	b"" u = 0
; // trailing space 
i8i8 = 0
;	} 	 ")).
Eval vm_compute in ("<<<M2984>>>" ++ check (runes_of_ascii "packet A {
  match k as n {
    [1, 22, ""c c"", 4, 5, ""f"", 7, 8, ""i"", 10, 11] : B,
    2 : C
  },
}")).
Eval vm_compute in ("<<<M327>>>" ++ check (runes_of_ascii "MetaData
    // " ++ [128512]%N ++ runes_of_ascii " emoji
    msg_type { As  roots , i32  rootA, f64 falsey  ,
char[]
rootA ,}
")).
Eval vm_compute in ("<<<M3237>>>" ++ check (runes_of_ascii "packet Logon { @tag( 42 ) @rightPad ( ' ' ) @leftPad
// c
( ) repeat trueish { string T , } , }")).
Eval vm_compute in ("<<<M2947>>>" ++ check (runes_of_ascii "packet A {
  match k as n {
    [""a"", ""bb"", 007, ""d"", ""e"", 66, ""g"", ""h""] : B,
    2 : C
  },
}")).
Eval vm_compute in ("<<<M3579>>>" ++ check (runes_of_ascii "root
	packet

    u 
        //	t

//	t
    {

Foo

int

,  // `tick` ""quote"" 'q'
	  }

")).
Eval vm_compute in ("<<<M282>>>" ++ check (runes_of_ascii "MetaData charz {
Pad tag `two words` ,
    u32 matchKey ,u128 Foo ,
char[ 255 ] body ,}
")).
Eval vm_compute in ("<<<M2014>>>" ++ check (runes_of_ascii "root
packet crc
    { f32a @calculatedFrom( """ ++ [233]%N ++ runes_of_ascii "t" ++ [233]%N ++ runes_of_ascii """ )
    `say ""hi""`, lengthOf i64 ,  }")).
Eval vm_compute in ("<<<M2008>>>" ++ check (runes_of_ascii "root
packet crc
    { f32a @calculatedFrom( """ ++ [233]%N ++ runes_of_ascii "t" ++ [233]%N ++ runes_of_ascii """ )
    `say ""hi""`, `` lengthOf ,  }")).
Eval vm_compute in ("<<<M2922>>>" ++ check (runes_of_ascii "packet A {
  match k as n {
    [""a"", ""bb"", 007, ""d"", ""e"", 66] : B
    2 : C
  },
}")).
Eval vm_compute in ("<<<M3296>>>" ++ check (runes_of_ascii "packet o // c
{ @tag( 42 ) repeat x { char[ 0123456789 ] i64_ , } , } options { }")).
Eval vm_compute in ("<<<M3328>>>" ++ check (runes_of_ascii "packet o { @tag( 42 ) repeat x { char[ 0123456789 ] i64_ , } , } options // c
{ }")).
Eval vm_compute in ("<<<M2919>>>" ++ check (runes_of_ascii "packet A {
  match k as n {
    [1, 22, ""c c"", 4, 5, ""f""] : B,
    2 : C
  },
}")).
Eval vm_compute in ("<<<M2199>>>" ++ check (runes_of_ascii "root
    // `tick` ""quote"" 'q'
    packet As @lengthOf { trueish Packet , }
")).
Eval vm_compute in ("<<<M3424>>>" ++ check (runes_of_ascii "packet Inner {
    u8 a,
}
root packet P {
    Inner ref_obj,
    u8 x,
}
")).
Eval vm_compute in ("<<<M698>>>" ++ check (runes_of_ascii "root packet Z9_{ @rightPad(
    ) packetx `" ++ [233]%N ++ runes_of_ascii "` , }
root packet falsey {}")).
Eval vm_compute in ("<<<M3400>>>" ++ check (runes_of_ascii "MetaData _x {
// c
zchar[ 4294967296 ] lengthOf `// not a comment` , }")).
Eval vm_compute in ("<<<M269>>>" ++ check (runes_of_ascii "MetaData u8x { uint32 i8i8 `it's`, } options
{
    Logon
= '0'	; }
")).
Eval vm_compute in ("<<<M2202>>>" ++ check (runes_of_ascii "root
    // `tick` ""quote"" 'q'
    packet As\ { trueish Packet , }
")).
Eval vm_compute in ("<<<M3465>>>" ++ check (runes_of_ascii "root packet P {
    u8 s_u8,
    repeat u8 r_u8,
    u16 b_len,
}
")).
Eval vm_compute in ("<<<M4366>>>" ++ check (runes_of_ascii "  root  
  // @lengthOf(
	// @lengthOf(

packet f32a
    {
	}

")).
Eval vm_compute in ("<<<M1916>>>" ++ check (runes_of_ascii "
packet	As { @calculatedFrom(//x
""{,}"" ""{,}""	)lengthOf , } 	 ")).
Eval vm_compute in ("<<<M366>>>" ++ check (runes_of_ascii "
packet Logon{ match
    float as trueish { 3 : int } , }

")).
Eval vm_compute in ("<<<M1906>>>" ++ check (runes_of_ascii "
packet	As { { @calculatedFrom(//x
""{,}""	)lengthOf , } 	 ")).
Eval vm_compute in ("<<<M2706>>>" ++ check (runes_of_ascii "; f64 ; ' ' [ as char[] } : float32 char[] '\x00' char[]")).
Eval vm_compute in ("<<<M3155>>>" ++ check (runes_of_ascii "packet A { match k as n { 1 : B // a // b 2 : C }, }")).
Eval vm_compute in ("<<<M2401>>>" ++ check (runes_of_ascii "MetaData A
{
i64
@x chars	, } // `tick` ""quote"" 'q'")).
Eval vm_compute in ("<<<M547>>>" ++ check (runes_of_ascii "
options {
    tag
=i32
    zchar =
    ""\n""; }
")).
Eval vm_compute in ("<<<M3418>>>" ++ check (runes_of_ascii "root packet P {
    repeat char cs,
    u8 x,
}
")).
Eval vm_compute in ("<<<M591>>>" ++ check (runes_of_ascii "
root
packet BodyLength { } packet uint8x { }")).
Eval vm_compute in ("<<<M2812>>>" ++ check (runes_of_ascii "@tag( `tab	here` repeat int16 zchar[ uint64 )")).
Eval vm_compute in ("<<<M2599>>>" ++ check (runes_of_ascii "packet A { B { match k as n { 1 : C }, }, }")).
Eval vm_compute in ("<<<M866>>>" ++ check (runes_of_ascii "packet
o
//	t
// `tick` ""quote"" 'q'
{
}
")).
Eval vm_compute in ("<<<M2112>>>" ++ check (runes_of_ascii "MetaData x
f64// " ++ [128512]%N ++ runes_of_ascii " emoji
i16 stringy , }")).
Eval vm_compute in ("<<<M3415>>>" ++ check (runes_of_ascii "root packet P {
    char c,
    u8 x,
}
")).
Eval vm_compute in ("<<<M1738>>>" ++ check (runes_of_ascii " { }options {  } // `tick` ""quote"" 'q'")).
Eval vm_compute in ("<<<M2405>>>" ++ check (runes_of_ascii "MetaData A
{
i64
chars	, } // `tick` ")).
Eval vm_compute in ("<<<M4149>>>" ++ check (runes_of_ascii "// packet A { u8 x, }
  options{
}
")).
Eval vm_compute in ("<<<M2799>>>" ++ check (runes_of_ascii "Y'; XMxS`r%e+3e8IXpIp]:H8_+-WZ@@1,")).
Eval vm_compute in ("<<<M2829>>>" ++ check ([127; 65533; 65533; 65533; 65533]%N ++ runes_of_ascii "Cx" ++ [65533]%N ++ runes_of_ascii "Z" ++ [20; 28; 65533; 65533]%N ++ runes_of_ascii "b" ++ [65533; 65533; 65533; 65533]%N ++ runes_of_ascii "g" ++ [65533]%N ++ runes_of_ascii "`P" ++ [3; 65533]%N ++ runes_of_ascii "j" ++ [65533; 65533]%N ++ runes_of_ascii "&" ++ [26; 65533]%N ++ runes_of_ascii "z" ++ [65533]%N)).
Eval vm_compute in ("<<<M444>>>" ++ check (runes_of_ascii "packet
//	t
/// triple
Z9_
{ }")).
Eval vm_compute in ("<<<M3692>>>" ++ check (runes_of_ascii "
packet
	A 
{
    }
	// c" ++ [8232]%N ++ runes_of_ascii "
 
")).
Eval vm_compute in ("<<<M2688>>>" ++ check (runes_of_ascii "Li][ahWRkj9ULC5)4z,vi9B>n""<h")).
Eval vm_compute in ("<<<M3560>>>" ++ check (runes_of_ascii "packet A {
    char[3] x,
}")).
Eval vm_compute in ("<<<M642>>>" ++ check (runes_of_ascii "packet u{
    } // a // b")).
Eval vm_compute in ("<<<M746>>>" ++ check (runes_of_ascii "// a // b
 // @lengthOf(")).
Eval vm_compute in ("<<<M3383>>>" ++ check (runes_of_ascii "packet
// c
lengthOf { }")).
Eval vm_compute in ("<<<M415>>>" ++ check (runes_of_ascii "// packet A { u8 x, }
")).
Eval vm_compute in ("<<<M2061>>>" ++ check (runes_of_ascii "MetaData A {  pack, }")).
Eval vm_compute in ("<<<M2699>>>" ++ check ([65533; 65533]%N ++ runes_of_ascii "0" ++ [65533; 5; 65533]%N ++ runes_of_ascii "b_" ++ [65533]%N ++ runes_of_ascii "!" ++ [11; 65533; 65533; 65533; 29; 65533]%N ++ runes_of_ascii "XR" ++ [65533]%N ++ runes_of_ascii ";")).
Eval vm_compute in ("<<<M4344>>>" ++ check (runes_of_ascii "root packet Z9_ {
}")).
Eval vm_compute in ("<<<M3086>>>" ++ check (runes_of_ascii "packet A {
}
// c" ++ [8192]%N)).
Eval vm_compute in ("<<<M2229>>>" ++ check (runes_of_ascii "MetaData Packet {")).
Eval vm_compute in ("<<<M3167>>>" ++ check (runes_of_ascii "options { // a
 }")).
Eval vm_compute in ("<<<M2564>>>" ++ check (runes_of_ascii "packet A { u8 }")).
Eval vm_compute in ("<<<M2751>>>" ++ check ([26; 21]%N ++ runes_of_ascii "G" ++ [65533]%N ++ runes_of_ascii "t~" ++ [28]%N ++ runes_of_ascii "?" ++ [65533]%N ++ runes_of_ascii "w" ++ [65533; 65533]%N)).
Eval vm_compute in ("<<<M2113>>>" ++ check (runes_of_ascii "MetaData x")).
Eval vm_compute in ("<<<M2806>>>" ++ check ([65533]%N ++ runes_of_ascii ">e" ++ [65533]%N ++ runes_of_ascii "ka(" ++ [65533]%N)).
Eval vm_compute in ("<<<M2454>>>" ++ check (runes_of_ascii "option")).
Eval vm_compute in ("<<<M2487>>>" ++ check (runes_of_ascii "@tag(")).
Eval vm_compute in ("<<<M2081>>>" ++ check (runes_of_ascii "Meta")).
Eval vm_compute in ("<<<M2469>>>" ++ check (runes_of_ascii "' '")).
Eval vm_compute in ("<<<M2473>>>" ++ check (runes_of_ascii "''")).
Eval vm_compute in ("<<<M2673>>>" ++ check (runes_of_ascii "x")).
