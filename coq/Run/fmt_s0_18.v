From FP Require Import Lexer Parser ShowPT Digest Formatter.
From Coq Require Import String List NArith.
Import ListNotations.
Open Scope string_scope.
Set Printing Width 100000000.
Set Printing Depth 100000000.
Definition show_fres (r : fres) : string :=
  match r with
  | FOk s => "OK:" ++ sh_escaped s ""
  | FErr s => "ERR:" ++ sh_escaped s ""
  | FPanic p => "PANIC:" ++ p
  end.
Definition check (rs : list rune) : string := digest (show_fres (format_res rs)).
Definition full (rs : list rune) : string := show_fres (format_res rs).
Eval vm_compute in ("<<<M1651>>>" ++ check (runes_of_ascii "
packet
body  {
    @tag( 3 )

    i16 options1
, repeat string body

    ,
@calculatedFrom(// trailing space 
    	""a\""b""

)x_y_z
	@calculatedFrom(
""a\\""	)
`it's`

    ,	match
    o 
as

    BodyLength
	{
00	:
pack

,

1 : u

,
    [
	255 , 255

    ,

    ""// no comment""]	:

    Packet
[

    65535
]
	:i64_ ,

    }  
  // @lengthOf(
	  //
  , // a // b
  @calculatedFrom(  // c
	""" ++ [233]%N ++ runes_of_ascii "t" ++ [233]%N ++ runes_of_ascii """)

string// `tick` ""quote"" 'q'
	len  `tab	here`  ,@tag(0123456789 )
repeat 
  //	t
	matchKey

A 
`a\`	,
i8i8 
Packet

,
	stringy @calculatedFrom(  ""x y""	)
    , 
f32a 
As	`crlf
line` ,
    u128 {

repeat int	{
	repeat
	zchar[255]

    a1
`{ , }`  , 
// a // b

  // a // b

  match	calculatedFrom	as body //	t
		{

    0  // " ++ [27880; 37322]%N ++ runes_of_ascii "

:	body

    42  
      // c
  :

    tag	// @lengthOf(
    , ""1""
	:

    packetx

    ,	""it's""	:	roots  ,
} 
, i32
u 
@calculatedFrom(// " ++ [128512]%N ++ runes_of_ascii " emoji
    ""a\\"" 
)
,}

,

    string_ `crlf
line`
    , _x
	, repeat
lengthOf crc ,	} ,  // " ++ [27880; 37322]%N ++ runes_of_ascii "
	}
	MetaData

    rootA
    {

uint8
tag,	string Z9_`u8 x,`
,  f64  float
	,
	Logon falsey
`a\`,  }

    packet

    len	{
    char[]
	u`// not a comment`,
char[]
	Header	`// not a comment` 
,

    string  charz

// a // b

/// triple
	`tab	here` 
, 
    //
  @leftPad 

// packet A { u8 x, }

  ( )  @lengthOf(

a1  )
// " ++ [128512]%N ++ runes_of_ascii " emoji
	  //x
	len crc

,
@leftPad(
' ' ) Packet @calculatedFrom(
""" ++ [128512]%N ++ runes_of_ascii """ )
    ,
    repeat
    uint8 a1 ,match	T
    as

As
{

    ""packet""
:

Logon
    ,

    [  """ ++ [128512]%N ++ runes_of_ascii """ ,
0
    ]:i64_,
[""packet""
,	7
]	:  string_, }

    ,repeat //
      zchar[
007 ]	zchar
	`{ , }` , }")).
Eval vm_compute in ("<<<M43>>>" ++ check (runes_of_ascii "packet asx {
    leftPad@calculatedFrom( """ ++ [233]%N ++ runes_of_ascii "t" ++ [233]%N ++ runes_of_ascii """ ) , @leftPad
(  '0')
    // trailing space 
    u8x As `crlf
line` ,char[ 3 ] asx @calculatedFrom( ""{,}"" )  ,
// @lengthOf(
// trailing space 
repeat u128  { int {packetx @calculatedFrom( ""packet"" )
    ,	match
T as  T
{ ""a	b""
: o , } , zchar[ 00
    ]lengthOf
`{ , }` ,
/// triple
// trailing space 
char[] crc @calculatedFrom( ""abc"" )
, } , Header	@calculatedFrom( """ ++ [233]%N ++ runes_of_ascii "t" ++ [233]%N ++ runes_of_ascii """ )
`two words` ,
repeat uint8 uint8x , repeat
    //
    char[0123456789 ]float`u8 x,`,} ,
packetx x `say ""hi""` , @rightPad ( )
i8i8
    @calculatedFrom( ""x y""), @leftPad
    ( ) BodyLength {repeat	int32
_x ``  , i8 msg_type
`doc` //
, }, }
// `tick` ""quote"" 'q'
// packet A { u8 x, }
packet body { }	packet	repeatCount{zchar[  3 ] Packet, @lengthOf( // @lengthOf(
Header  )
    i64
// c
// c
Packet `two words` ,
zchar[ 65535
]calculatedFrom `tab	here`//	t
, match x as leftPad
    { ""// no comment"": rootA
    , ""`tick`"" :
o,
}
,// " ++ [128512]%N ++ runes_of_ascii " emoji
zchar[ //	t
3 ]
// packet A { u8 x, }
// " ++ [27880; 37322]%N ++ runes_of_ascii "
u128 @calculatedFrom( ""{,}"" ) `{ , }`
    ,
}
    //	t
    options { u = char[ 42 ] // " ++ [27880; 37322]%N ++ runes_of_ascii "
metadata
=""a\\""
;  Logon =
string ; Z9_ = u16
;  }
")).
Eval vm_compute in ("<<<M1392>>>" ++ check (runes_of_ascii "options {
    FixedStringPadFromLeft = true;
    FixedStringPadChar = '0';
}

packet Leg {
    InPrice0 {
        repeat string clOrdID,
        int16 msgKind,
        zchar[5] Px,
    },
    i16 f1,
    repeat f64 Side2,
    string Acct,
}

packet Cancel {
    zchar[4] clOrdID,
    string seqNo,
    Leg,
    @leftPad('0')
    char[11] OrderId,
}

packet Quote {
    repeat char[4] sym,
    f64 OrderId,
    repeat Leg,
    repeat i64 f1,
    int16 Note,
    zchar[3] count,
}

root packet Ack {
    @leftPad(' ')
    char[10] sym,
    InPx60 {
        Cancel,
        repeat char[1] f1,
        string Tail,
        repeat InNote55 {
            int8 count,
            f64 f1,
            repeat Cancel,
        },
        char[] tag7,
        repeat string msgKind,
    },
    u8 lastPx,
    match lastPx as Body {
        152 : Quote,
        173 : Cancel,
        4 : Leg,
    },
    u16 Ref @calculatedFrom(""CRC32""),
}")).
Eval vm_compute in ("<<<M104>>>" ++ check (runes_of_ascii "options{  matchKey = ""x y""
    ;	MetaDataX
= '0'
;
} packet // c
msg_type { @rightPad ( ' '  )repeat u128 body	, match body	as /// triple
pack{ [ ""\" ++ [233]%N ++ runes_of_ascii """ , ""1"" ]: BodyLength
, [ 255
, ""a	b"" , ""a\\"" , ""{,}""
,  007 , 007 ,
    0123456789
] : options1	,	} ,@leftPad
()@lengthOf(charz	)
@tag(	42
) o{	i32 msg_type @lengthOf( A )// " ++ [27880; 37322]%N ++ runes_of_ascii "
`doc` ,zchar[ 1] charz  , // c
i8 packetx`{ , }`,
msg_type `crlf
line`
    , }	,
@calculatedFrom( ""\" ++ [233]%N ++ runes_of_ascii """ ) Z9_ @calculatedFrom(
""" ++ [128512]%N ++ runes_of_ascii """ )`tab	here` ,
repeat char[] Foo ,
repeat zchar[ 0123456789]	u128
, }	packet f32a{
    f32a @lengthOf( matchKey )//x
, @rightPad (
    ' ' // " ++ [27880; 37322]%N ++ runes_of_ascii "
)@lengthOf( chars ) _x Foo  `` ,  match
    body // c
as
    body
    {	[4294967296
    , ""packet"", 3 , """ ++ [128512]%N ++ runes_of_ascii """
,
0123456789  ]
: T [ ""a\\"" ]// `tick` ""quote"" 'q'
: T
, ""\n""
:
u8x , }
//	t
//x
,} //x
root packet lengthOf
{ }
")).
Eval vm_compute in ("<<<M1761>>>" ++ check (runes_of_ascii "MetaData x {
    len crc,
    float asx,
    i32 uint8x `line1
    line2`,
    u16 tag `it's`,
    As string_,
}

packet metadata {
    @lengthOf(zchar)
    // c
    i64_ @calculatedFrom(""\" ++ [233]%N ++ runes_of_ascii """),//x
    @leftPad('\x00')
    zchar[10] zchar,
    lengthOf string_,
    int @lengthOf(pack),
    zchar[00] Foo,
    @lengthOf(packetx)
    @leftPad('\x00')
    @calculatedFrom(""x y"")
    uint16 len @calculatedFrom("""") `two words`,
    int8 metadata @lengthOf(Foo) `two words`,// @lengthOf(
}

options {
}

packet pack {
    // `tick` ""quote"" 'q'
    //
    f64 o,
    T BodyLength,
    repeat uint8 chars `" ++ [233]%N ++ runes_of_ascii "`,
    repeat Logon u,
    @tag(0123456789)
    char[] repeatCount @lengthOf(_x) `
    `,//
    @tag(7)
    repeatCount @calculatedFrom(""packet"") `{ , }`,
}")).
Eval vm_compute in ("<<<M1361>>>" ++ check (runes_of_ascii "options {
    // c1
LittleEndian // c2
= false ;
    // c5
StringPrefixLenType // c6a
  // c6b
= // c7a
  // c7b
u16
    // c8
; // c9a
  // c9b
}
    // c10
packet Heartbeat // c12
{ @rightPad // c14a
  // c14b
( // c15
'0' )
    // c17
char[ // c18
7 // c19a
  // c19b
]
    // c20
seqNo , uint64 Tail
    // c24
, // c25a
  // c25b
i16 Flags // c27a
  // c27b
, // c28
u16 // c29a
  // c29b
msgKind , // c31a
  // c31b
} root // c33a
  // c33b
packet Reject
    // c35
{ // c36
zchar[ 3 // c38a
  // c38b
] tag7 // c40a
  // c40b
, // c41
repeat // c42
Heartbeat
    // c43
, // c44
repeat string // c46
clOrdID // c47a
  // c47b
, // c48a
  // c48b
} // c49a
  // c49b
")).
Eval vm_compute in ("<<<M247>>>" ++ check (runes_of_ascii "
options { leftPad // packet A { u8 x, }
= 0
;
    //
    Logon
    =
char // `tick` ""quote"" 'q'
i64_ = '\x00'
; }
options { crc =
i32	; matchKey =
255
    leftPad = ' ' ; metadata= 42// trailing space 
; packetx =10
    }
root packet//
A { @calculatedFrom( ""x y"" // c
)/// triple
zchar[ 00]
f32a, @tag(
255 )
    zchar[
0123456789 ]	a1
@lengthOf(As )`" ++ [28040; 24687; 31867; 22411]%N ++ runes_of_ascii "`
    /// triple
    , int16 body, // `tick` ""quote"" 'q'
uint64
x
@calculatedFrom(""1""
//	t
// " ++ [128512]%N ++ runes_of_ascii " emoji
) // packet A { u8 x, }
`line1
line2` ,@lengthOf( Logon )char[
    0// packet A { u8 x, }
]float@calculatedFrom(
""abc"" ) ,
} MetaData u128 { }
")).
Eval vm_compute in ("<<<M1121>>>" ++ check (runes_of_ascii "// top
root // c0
packet // c1
_x
    // c2
{ match
    // c4
Foo // c5
as // c6a
  // c6b
Z9_ {
    // c8
""a	b"" // c9a
  // c9b
: // c10
Pad // c11
,
    // c12
} , // c14
repeat // c15a
  // c15b
x `line1
line2`
    // c17
, // c18
@rightPad // c19a
  // c19b
(
    // c20
' ' // c21
) // c22
@calculatedFrom( ""a\\""
    // c24
) // c25a
  // c25b
metadata MetaDataX
    // c27
, @tag(
    // c29
0 ) // c31
Logon int
    // c33
``
    // c34
,
    // c35
} // c36
options // c37
{
    // c38
T // c39
= // c40a
  // c40b
'\x00' } // c42a
  // c42b
")).
Eval vm_compute in ("<<<M1727>>>" ++ check (runes_of_ascii "packet leftPad {
    @rightPad()
    repeat chars {
        crc pack,
    },
    @calculatedFrom(""" ++ [28040; 24687]%N ++ runes_of_ascii """)
    @lengthOf(options1)
    @tag(65535)
    Foo,
    match matchKey as tag {
        // c
        [
            ""{,}"", """", ""`tick`"", 3, ""it's"",
            """ ++ [128512]%N ++ runes_of_ascii """, ""it's""
        ] : As,
        [""x y""] : chars,
        """ ++ [233]%N ++ runes_of_ascii "t" ++ [233]%N ++ runes_of_ascii """ : uint8x,
        4294967296 : packetx,
        ""// no comment"" : calculatedFrom,
    },
    @calculatedFrom(""// no comment"")
    char[007] f32a,
}// a // b")).
Eval vm_compute in ("<<<M180>>>" ++ check (runes_of_ascii "options
    // @lengthOf(
    {}
packet charz { @rightPad (  ' ') @calculatedFrom(
    ""a\\"" ) repeat int	crc `two words` , string stringy
    @calculatedFrom( ""a	b""
    // " ++ [128512]%N ++ runes_of_ascii " emoji
    )`// not a comment`	,//
char i8i8,
}  MetaData	crc {// `tick` ""quote"" 'q'
crc i64_`{ , }`
,
    // `tick` ""quote"" 'q'
    i32// c
u128 ,// packet A { u8 x, }
BodyLength Header
    ,char[ 0123456789]
/// triple
//
Packet `u8 x,`
, uint8 repeatCount , //	t
}")).
Eval vm_compute in ("<<<M1331>>>" ++ check (runes_of_ascii "packet	Frame

{  u8 HK 
,  u8

BK, u8
    TK
,match 
HK as

Hdr
{	1

    :
    HdrA 
,

2 : HdrB
, },	match	BK
as

Body{  1	:

    BodyA ,  2
:

    BodyB 
,}
	, 
match

    TK as Trl {
	1 : TrlA

,} , } packet HdrA { u8 a  ,
}packet
    HdrB 
{ 
u16
    b
	,  }packet BodyA{ u32 c ,
}packet
    BodyB
	{

    u64
d , }
    packet
TrlA  {  u8
e,} root
	packet
Msg

{ Frame
,
    u8

x,} ")).
Eval vm_compute in ("<<<M1671>>>" ++ check (runes_of_ascii "packet a1 
{@leftPad
(
)	float @lengthOf(
uint8x) 
,

    } 
packet	Logon {

    char	Logon@calculatedFrom( ""a\\"" 
)	, T

    stringy  ,
    //
// c
  repeat
uint8
stringy	`two words`	,}

MetaData  charz{

    u  tag
`
`	,	a1
	falsey , //x

Z9_ matchKey
,
f64
lengthOf
`a\`// @lengthOf(
	,f32a roots

    `` ,
	float64 
x_y_z// @lengthOf(
  , } ")).
Eval vm_compute in ("<<<M30>>>" ++ check (runes_of_ascii "packet
repeatCount
    {@calculatedFrom(	""abc"" ) zchar[
    // @lengthOf(
    0
] // `tick` ""quote"" 'q'
MetaDataX  `
`	, string_
@calculatedFrom( ""1""
    ) ,	match string_
    as msg_type{ [// a // b
65535	,// a // b
""a	b""
    , 7
    ,	255 ]:
matchKey , 10 :
    options1 , 3 :Logon
    , } ,
    // " ++ [27880; 37322]%N ++ runes_of_ascii "
    packetx `a\` ,}
")).
Eval vm_compute in ("<<<M81>>>" ++ check (runes_of_ascii "root packet o {
} MetaData uint8x
    { int64 rootA  ,}
    MetaData
As{i32 // packet A { u8 x, }
chars,	}packet Z9_// trailing space 
{
@leftPad( )char[]	x_y_z,} packet tag {	@leftPad(
// " ++ [128512]%N ++ runes_of_ascii " emoji
// " ++ [27880; 37322]%N ++ runes_of_ascii "
' '
    )
zchar[ 0 // `tick` ""quote"" 'q'
] rootA @calculatedFrom(
    ""a\\"" )
    `tab	here`
,}")).
Eval vm_compute in ("<<<M1314>>>" ++ check (runes_of_ascii "packet MDSnapshotZZ {
    u8 a,
}
packet OrderACK {
    u16 b,
}
packet HTTPServerInfo {
    string s,
}
root packet FIXMsg {
    u8 KType,
    MDSnapshotZZ,
    repeat OrderACK,
    match KType as Body {
        1 : HTTPServerInfo,
        2 : OrderACK,
    },
}
")).
Eval vm_compute in ("<<<M1313>>>" ++ check (runes_of_ascii "options	{ FixedStringPadChar
=

'0';  }packet
Q
{ zchar[4  ]

z
	, @rightPad  ('\x00'  )

    char[ 
3
]
n , char[
    5 ]  d,
}

    root
packet
R

{

    Q 
, zchar[8 
]top

    ,	repeat zchar[	2
]
	zs

    , 
}")).
Eval vm_compute in ("<<<M249>>>" ++ check (runes_of_ascii "
packet
rootA {
} // trailing space 
packet f32a //	t
{ match
zchar as zchar
    {	65535 : f32a , 7 : charz// trailing space 
,
""{,}""
//	t
//x
: Header , 42
    :a1 // packet A { u8 x, }
, }
, }
")).
Eval vm_compute in ("<<<M1875>>>" ++ check (runes_of_ascii "// top
packet B {
    // c2
    u8 a,
}// c6

root packet P {
    // c10
    u8 K,// c13
    u8 L @lengthOf(Body),
    match K as Body {
        1 : B,
    },
    // c30
}
// c31")).
Eval vm_compute in ("<<<M283>>>" ++ check (runes_of_ascii "
root packet /// triple
u8x {}options { o =	zchar[ 1 ]
    Packet
    // trailing space 
    =u32 ; uint8x =""a\\"";
    /// triple
    u8x
=0
;
    crc =""\n"" ; }")).
Eval vm_compute in ("<<<M443>>>" ++ check (runes_of_ascii "packet uint8x
{ match pack
    as msg_type	{
    0123456789 :	@lengthOf(
}
,
} packet //	t
a1
    { } options {packetx
    = '\x00'	; u128= ""a	b""  ; }
")).
Eval vm_compute in ("<<<M488>>>" ++ check (runes_of_ascii "packet uint8x
{ match pack
    as msg_type	{
    0123456789 :	float
}
,
} packet //	t
a1
    { } options i8 packetx
    = '\x00'	; u128= ""a	b""  ; }
")).
Eval vm_compute in ("<<<M412>>>" ++ check (runes_of_ascii "packet uint8x
{ match as
    pack msg_type	{
    0123456789 :	float
}
,
} packet //	t
a1
    { } options {packetx
    = '\x00'	; u128= ""a	b""  ; }
")).
Eval vm_compute in ("<<<M435>>>" ++ check (runes_of_ascii "packet uint8x
{ match pack
    as msg_type	{
    0123456789 	float
}
,
} packet //	t
a1
    { } options {packetx
    = '\x00'	; u128= ""a	b""  ; }
")).
Eval vm_compute in ("<<<M1531>>>" ++ check (runes_of_ascii "
packet B 
{u8  a,  } 
root
packet

    P{

    u8
K

    ,  match
K
as
    Body
	{

    1 :

B 
,} ,u16 
L@lengthOf(
    Body  )
,	}
")).
Eval vm_compute in ("<<<M551>>>" ++ check (runes_of_ascii "packet uint8x
{ match pack
    as " ++ [21517; 23383]%N ++ runes_of_ascii "	{
    0123456789 :	float
}
,
} packet //	t
a1
    { } options {packetx
    = '\x00'	; u128= ""a	b""  ; }
")).
Eval vm_compute in ("<<<M420>>>" ++ check (runes_of_ascii "packet uint8x
{ match pack
    as 	{
    0123456789 :	float
}
,
} packet //	t
a1
    { } options {packetx
    = '\x00'	; u128= ""a	b""  ; }
")).
Eval vm_compute in ("<<<M697>>>" ++ check (runes_of_ascii "// @lengthOf(
packet i8i8 { u128 o , }
, { MetaDataX = true;
    BodyLength =""packet"" x_y_z= 007
crc //x
= ""abc"" ;
    msg_type =
i16 }")).
Eval vm_compute in ("<<<M1395>>>" ++ check (runes_of_ascii "MetaData leftPad {
    chars MetaDataX,
    // c
}

packet repeatCount {
    char[255] uint8x `" ++ [233]%N ++ runes_of_ascii "`,
}

MetaData pack {
    As Foo,
}")).
Eval vm_compute in ("<<<M1514>>>" ++ check (runes_of_ascii "packet A {
    Inner {
        u8 x `a
        b`,
        Deep {
            u8 y `a
            b`,
        },
    },
}")).
Eval vm_compute in ("<<<M1148>>>" ++ check (runes_of_ascii "MetaData leftPad {
// c
chars MetaDataX , } packet repeatCount { char[ 255 ] uint8x `" ++ [233]%N ++ runes_of_ascii "` , } MetaData pack { As Foo , }")).
Eval vm_compute in ("<<<M1180>>>" ++ check (runes_of_ascii "MetaData leftPad { chars MetaDataX , } packet repeatCount { char[ 255 ] uint8x `" ++ [233]%N ++ runes_of_ascii "` , } MetaData pack
// c
{ As Foo , }")).
Eval vm_compute in ("<<<M1828>>>" ++ check (runes_of_ascii "  packet

A
{ Inner 
{ 
match

k
    as n {
    [1
,
    22
, 
007
, 4
,
	5  ,66 , 7

    ]:B

, }
,
},

}

")).
Eval vm_compute in ("<<<M1269>>>" ++ check (runes_of_ascii "  packet	B
{
u8 a , 
string	s
	,
    }
    root
	packet P

{ u16

L @lengthOf( B ), B
    , 
u8  t ,
}
")).
Eval vm_compute in ("<<<M895>>>" ++ check (runes_of_ascii "packet A {
  match k as n {
    [1, ""bb"", 007, ""d"", 5, ""f"", 7, ""h"", 9, ""j"", 11] : B,
    2 : C
  },
}")).
Eval vm_compute in ("<<<M1840>>>" ++ check (runes_of_ascii "

  packet

    A

{ @leftPad(
	) char[4

    ]	x 
,  @rightPad (
) zchar[

2
    ] y
,
	}
")).
Eval vm_compute in ("<<<M630>>>" ++ check (runes_of_ascii "
packet
    a@tagsx {match u128 as lengthOf
{
//	t
// `tick` ""quote"" 'q'
255 : x ,
    } ,	}")).
Eval vm_compute in ("<<<M682>>>" ++ check (runes_of_ascii "// @lengthOf(
packet i8i8 { u128 o , }
options { MetaDataX = true;
    BodyLength =""packet""")).
Eval vm_compute in ("<<<M604>>>" ++ check (runes_of_ascii "
packet
    asx {match u128 as lengthOf
{
//	t
// `tick` ""quote"" 'q'
255 : , x
    } ,	}")).
Eval vm_compute in ("<<<M936>>>" ++ check (runes_of_ascii "packet A {
    B b `a
    b
  c`,
    B `a
    b
  c`,
    repeat B bs `a
    b
  c`,
}")).
Eval vm_compute in ("<<<M1555>>>" ++ check (runes_of_ascii "packet 
Inner
    {
u8 
a
, }
	root  packet P 
{  Inner

    ref_obj	, u8	x  ,}
")).
Eval vm_compute in ("<<<M1453>>>" ++ check (runes_of_ascii "packet
    A{

    match
k
    as

n{ 
1 :
	B	// a
    // b
  2
: 
C }
,  }

")).
Eval vm_compute in ("<<<M817>>>" ++ check (runes_of_ascii "packet A {
  match k as n {
    [1, ""bb"", 007, ""d"", 5] : B,
    2 : C
  },
}")).
Eval vm_compute in ("<<<M813>>>" ++ check (runes_of_ascii "packet A {
  match k as n {
    [1, 22, 007, 4, 5] : B,
    2 : C
  },
}")).
Eval vm_compute in ("<<<M796>>>" ++ check (runes_of_ascii "packet A {
  match k as n {
    [1, 22, ""c c""] : B
    2 : C
  },
}")).
Eval vm_compute in ("<<<M444>>>" ++ check (runes_of_ascii "packet uint8x
{ match pack
    as msg_type	{
    0123456789 :")).
Eval vm_compute in ("<<<M1089>>>" ++ check (runes_of_ascii "packet A { // a
 @tag(1) u8 x, // b
 // c
 @tag(2) u8 y, }")).
Eval vm_compute in ("<<<M1552>>>" ++ check (runes_of_ascii "options {
    Logon = """ ++ [28040; 24687]%N ++ runes_of_ascii """;
    BodyLength = false;
}")).
Eval vm_compute in ("<<<M1504>>>" ++ check (runes_of_ascii "MetaData M {
    u8 x `
    x`,
    T t `
    x`,
}")).
Eval vm_compute in ("<<<M968>>>" ++ check (runes_of_ascii "options {
    a = ""x\
y"";
    b = ""x\
y""
}")).
Eval vm_compute in ("<<<M1726>>>" ++ check (runes_of_ascii "
root packet
    A
	{ 
u8 x`tab
	x`, }
")).
Eval vm_compute in ("<<<M200>>>" ++ check (runes_of_ascii "options {
options1 =
    ' ' ;
}

")).
Eval vm_compute in ("<<<M1558>>>" ++ check (runes_of_ascii "packet A {
    u8 x `d" ++ [8192]%N ++ runes_of_ascii "`,// c" ++ [8192]%N ++ runes_of_ascii "
}")).
Eval vm_compute in ("<<<M1033>>>" ++ check (runes_of_ascii "packet A {
 u8 x `d" ++ [11]%N ++ runes_of_ascii "`, // c" ++ [11]%N ++ runes_of_ascii "
}")).
Eval vm_compute in ("<<<M1895>>>" ++ check (runes_of_ascii "

  packet
	A { }  // c" ++ [8287]%N ++ runes_of_ascii "
 
")).
Eval vm_compute in ("<<<M1111>>>" ++ check (runes_of_ascii "MetaData tag { } // c
")).
Eval vm_compute in ("<<<M1137>>>" ++ check (runes_of_ascii "MetaData u { }
// c
")).
Eval vm_compute in ("<<<M992>>>" ++ check (runes_of_ascii "// c" ++ [133]%N ++ runes_of_ascii "
packet A {
}")).
Eval vm_compute in ("<<<M1570>>>" ++ check (runes_of_ascii "
packet

len 
{

}")).
Eval vm_compute in ("<<<M1946>>>" ++ check (runes_of_ascii "packet x {
}
// c")).
Eval vm_compute in ("<<<M255>>>" ++ check (runes_of_ascii " /// triple")).
Eval vm_compute in ("<<<M1055>>>" ++ check (runes_of_ascii "// c" ++ [6158]%N)).
