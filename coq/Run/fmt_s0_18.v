From FP Require Import Lexer Parser ShowPT Digest Formatter.
From Coq Require Import String List NArith.
Import ListNotations.
Open Scope string_scope.
Set Printing Width 100000000.
Set Printing Depth 100000000.
Definition show_fres (r : fres) : string :=
  match r with
  | FOk s => "OK:" ++ sh_escaped s ""
  | FErr s => "ERR:" ++ sh_escaped s ""
  | FPanic p => "PANIC:" ++ p
  end.
Definition check (rs : list rune) : string := digest (show_fres (format_res rs)).
Definition full (rs : list rune) : string := show_fres (format_res rs).
Eval vm_compute in ("<<<M11>>>" ++ check (runes_of_ascii "root packet repeatCount
    {repeat tag As  , Logon @calculatedFrom(
""it's"" )
, @calculatedFrom( ""`tick`""
) string uint8x , repeat /// triple
Pad u8x `line1
line2`
,@leftPad( )char[
    007
    ] string_
    , @lengthOf(Packet ) repeat
    int8 Header `it's`,
    // `tick` ""quote"" 'q'
    } root packet pack{
    uint64  Packet @calculatedFrom(	""\n""
    )
, }
    options {	pack	=
    ""// no comment"" //x
;
body // " ++ [128512]%N ++ runes_of_ascii " emoji
= ""a	b""
;} // trailing space 
packet Logon// trailing space 
{ u8x{
    // 50% %s
    trueish
@lengthOf(tag) `two words` , match body
    // trailing space 
    as
int  {// trailing space 
0 :i8i8 } ,
    repeat uint8x o
, } //	t
,
@tag(65535)
int16 falsey, zchar[ 10] float `100% of %d`
    , repeat
    // packet A { u8 x, }
    calculatedFrom
`a\` , zchar[ 10]	crc
@lengthOf(
    repeatCount
)
`" ++ [28040; 24687; 31867; 22411]%N ++ runes_of_ascii "` , // `tick` ""quote"" 'q'
match
// trailing space 
// " ++ [128512]%N ++ runes_of_ascii " emoji
rootA as repeatCount  {
3: crc
""CRC32""
    : //x
x
    //x
    , 007
    :A 7: chars
    ,	[
    007 ]: x ,  [
    //x
    007// " ++ [27880; 37322]%N ++ runes_of_ascii "
, 255  ,""" ++ [28040; 24687]%N ++ runes_of_ascii """ , 42 ]: Z9_
    , } ,  @tag(
007//	t
)
repeat string len , int	, Foo  {
match
roots
as
    _x
    { ""// no comment"" : o, [ 4294967296, """ ++ [233]%N ++ runes_of_ascii "t" ++ [233]%N ++ runes_of_ascii """ , 4294967296 , 7  , ""packet""
,
    3
] : string_ ,""x y""// " ++ [27880; 37322]%N ++ runes_of_ascii "
:float [ ""a\""b"" //x
,
""1""
] // packet A { u8 x, }
: zchar  ,}
    , rootA { repeat metadata{ repeat
char[
    1 ] i64_
`100% of %d`, match matchKey as stringy{ [ ""`tick`"" ] :x ,
[
    3 , 65535 ,255 ,  ""a\\"",""a\\"" , ""x y"" //x
] : _x,} , }
, }	,
repeat char stringy ,
    A `crlf
line`
, //	t
}, @leftPad ( ) Header{	i32 asx @lengthOf(
    lengthOf
)
,
} , }
")).
Eval vm_compute in ("<<<M1341>>>" ++ check (runes_of_ascii "// top
packet
    // c0
Frame // c1a
  // c1b
{
    // c2
u8 // c3
HK // c4
, // c5
u8 // c6
BK , // c8a
  // c8b
u8
    // c9
TK // c10
, match // c12
HK
    // c13
as Hdr
    // c15
{ // c16a
  // c16b
1 // c17
: // c18a
  // c18b
HdrA // c19a
  // c19b
, 2 // c21a
  // c21b
:
    // c22
HdrB , // c24
}
    // c25
, // c26a
  // c26b
match // c27a
  // c27b
BK
    // c28
as
    // c29
Body { 1 // c32a
  // c32b
: // c33a
  // c33b
BodyA // c34a
  // c34b
, // c35a
  // c35b
2
    // c36
:
    // c37
BodyB , // c39a
  // c39b
} ,
    // c41
match
    // c42
TK // c43
as Trl // c45a
  // c45b
{ 1 // c47
: // c48
TrlA // c49
, // c50
} ,
    // c52
}
    // c53
packet HdrA // c55
{ // c56
u8 // c57
a // c58a
  // c58b
, // c59
} // c60a
  // c60b
packet HdrB // c62
{
    // c63
u16 b
    // c65
, } packet
    // c68
BodyA // c69
{ // c70
u32
    // c71
c
    // c72
, // c73
}
    // c74
packet // c75
BodyB // c76
{ u64 d , // c80a
  // c80b
}
    // c81
packet // c82
TrlA
    // c83
{ // c84a
  // c84b
u8 // c85
e
    // c86
, // c87a
  // c87b
} root
    // c89
packet
    // c90
Msg // c91
{ // c92
Frame // c93a
  // c93b
, // c94a
  // c94b
u8 // c95a
  // c95b
x
    // c96
, // c97
}
    // c98
")).
Eval vm_compute in ("<<<M1320>>>" ++ check (runes_of_ascii "// top
packet // c0a
  // c0b
A { // c2a
  // c2b
u8 // c3
a // c4a
  // c4b
, // c5
} // c6a
  // c6b
packet // c7
B
    // c8
{
    // c9
u16 b // c11
, } // c13a
  // c13b
packet // c14a
  // c14b
C // c15
{ // c16a
  // c16b
u32 c // c18
, }
    // c20
root // c21a
  // c21b
packet M
    // c23
{ // c24
u16 // c25
Kc , // c27a
  // c27b
u16 // c28
Kb // c29
, // c30a
  // c30b
u16 Ka // c32a
  // c32b
,
    // c33
match Kc
    // c35
as
    // c36
X // c37
{ 9
    // c39
: A // c41
, 10 // c43
: // c44
B // c45
,
    // c46
} , // c48a
  // c48b
match // c49
Kb // c50a
  // c50b
as // c51
Y // c52a
  // c52b
{ 2 // c54
: C , // c57a
  // c57b
1 // c58a
  // c58b
: // c59a
  // c59b
A ,
    // c61
}
    // c62
, // c63a
  // c63b
match
    // c64
Ka // c65
as Z // c67a
  // c67b
{
    // c68
1 // c69
: // c70
B // c71a
  // c71b
, // c72a
  // c72b
} // c73
, // c74a
  // c74b
A // c75a
  // c75b
, // c76
B // c77
, // c78a
  // c78b
C , // c80a
  // c80b
} // c81
")).
Eval vm_compute in ("<<<M1>>>" ++ check (runes_of_ascii "root packet
    len { match x as metadata// " ++ [27880; 37322]%N ++ runes_of_ascii "
{ [
    1
// packet A { u8 x, }
//x
,
    0 ,	"""" , ""a	b"",00 ]
    :	pack , [""// no comment"" , ""x y""
, """ ++ [233]%N ++ runes_of_ascii "t" ++ [233]%N ++ runes_of_ascii """ ]:	Packet //
,	} , repeat lengthOf u128, @calculatedFrom(
    // " ++ [128512]%N ++ runes_of_ascii " emoji
    ""it's""
) @lengthOf( calculatedFrom
// trailing space 
// 50% %s
) @lengthOf( u )	metadata
{ int8 lengthOf
    `crlf
line` ,} ,
@tag(// trailing space 
4294967296 ) calculatedFrom {f32 i64_ // packet A { u8 x, }
`" ++ [233]%N ++ runes_of_ascii "`,} ,@lengthOf(
BodyLength  )	repeat//x
char[65535 ] float
// `tick` ""quote"" 'q'
// c
,@calculatedFrom(
""\" ++ [233]%N ++ runes_of_ascii """) i64_ { match
stringy as
    _x{ //	t
[ 4294967296 ,
    3 ]
:	i8i8
, [ ""a\""b"" ]: x_y_z ,
    3:len , }
    , }  , @tag( // trailing space 
0)
zchar[
    7
] x_y_z ,@lengthOf( Header )
repeat
// 50% %s
/// triple
u64 As `
` ,// " ++ [27880; 37322]%N ++ runes_of_ascii "
@rightPad
    ( ) /// triple
@rightPad (  '\x00') u16
Header	`{ , }` , }
")).
Eval vm_compute in ("<<<M291>>>" ++ check (runes_of_ascii "MetaData len { float  roots
    `u8 x,` ,	u32 int `" ++ [233]%N ++ runes_of_ascii "` , } root packet x{ @tag(1	)repeat charz
, Pad @calculatedFrom( """ ++ [233]%N ++ runes_of_ascii "t" ++ [233]%N ++ runes_of_ascii """
)
,match int as
    u8x { //x
0 :
leftPad, [  1,0123456789 , 10 ] : uint8x }
,@leftPad( ) /// triple
repeat u128
    { f64 _x `two words`
,T @calculatedFrom(""\n""
) `u8 x,`
    /// triple
    ,match
A as crc{ 3:
    // a // b
    leftPad
    ,""" ++ [128512]%N ++ runes_of_ascii """ : falsey , [ """ ++ [233]%N ++ runes_of_ascii "t" ++ [233]%N ++ runes_of_ascii """ ,
4294967296,
""" ++ [28040; 24687]%N ++ runes_of_ascii """
, ""a	b"" , 00 // a // b
,""" ++ [233]%N ++ runes_of_ascii "t" ++ [233]%N ++ runes_of_ascii """  ] :
    rootA	,  ""1""
    :MetaDataX , } , f32
o@calculatedFrom( ""// no comment"" ) `// not a comment`
,// a // b
} ,
    chars@calculatedFrom( ""{,}""
)  , @rightPad
    (
' ' ) @tag( 0 )  repeat BodyLength``,body ,
}
MetaData	T
{len i8i8
    , }options { f32a = true } packet falsey { }
")).
Eval vm_compute in ("<<<M161>>>" ++ check (runes_of_ascii "root/// triple
packet options1
    {// " ++ [27880; 37322]%N ++ runes_of_ascii "
@tag(
// c
// 50% %s
0
    // `tick` ""quote"" 'q'
    )
    len leftPad	, @calculatedFrom(
    """ ++ [233]%N ++ runes_of_ascii "t" ++ [233]%N ++ runes_of_ascii """ )
    stringy a1 `` ,	@rightPad ( )a1	`" ++ [28040; 24687; 31867; 22411]%N ++ runes_of_ascii "`
// " ++ [27880; 37322]%N ++ runes_of_ascii "
// a // b
, char Header @lengthOf( x
) `a\` ,uint8x
Z9_ `it's` ,
match
roots as
    o { [ ""{,}"" , ""CRC32"" // `tick` ""quote"" 'q'
] : o ,
    ""CRC32"": Pad ,
} , // 50% %s
@tag(
    00) zchar[ 4294967296
]	x , @lengthOf( repeatCount
) uint16 // `tick` ""quote"" 'q'
T ,  @lengthOf( u128 ) repeat
i64_ { repeat	u8 MetaDataX // `tick` ""quote"" 'q'
`" ++ [233]%N ++ runes_of_ascii "` ,
    repeat
    // a // b
    u8x
    // c
    `two words`
    ,
}  ,
} // packet A { u8 x, }")).
Eval vm_compute in ("<<<M71>>>" ++ check (runes_of_ascii "root
packet
    matchKey { } MetaData
u  {
    } packet zchar { uint32 Z9_
@lengthOf(A ) `" ++ [233]%N ++ runes_of_ascii "` , @calculatedFrom( ""packet"" ) @tag( 0123456789 )
Header @calculatedFrom(
    ""1""
) `say ""hi""` , @lengthOf(
// a // b
//x
repeatCount // trailing space 
)
u8 //
stringy
@lengthOf(
    x
) , string	string_ @calculatedFrom(""{,}"" ) ,zchar[ 4294967296] tag , char[]
    trueish @calculatedFrom( ""`tick`"") `doc`
,float32 repeatCount @lengthOf(	charz )
`" ++ [233]%N ++ runes_of_ascii "` , @rightPad( )repeat
f64 lengthOf `tab	here`
    , @rightPad ( '0' )
@calculatedFrom(
    ""a\""b"" ) roots
    ,	}
")).
Eval vm_compute in ("<<<M1605>>>" ++ check (runes_of_ascii "packet MDSnapshotZZ {
    // c2
    u8 a,// c5a
    // c5b
}// c6a

// c6b
packet OrderACK {
    // c9a
    // c9b
    u16 b,// c12a
    // c12b
}// c13a

// c13b
packet HTTPServerInfo {
    string s,
    // c19
}

root packet FIXMsg {
    // c24a
    // c24b
    u8 KType,// c27
    MDSnapshotZZ,// c29a
    // c29b
    repeat OrderACK,// c32
    match KType as Body {
        // c37a
        // c37b
        1 : HTTPServerInfo,
        // c41
        2 : OrderACK,
    },// c47a
    // c47b
}// c48")).
Eval vm_compute in ("<<<M1632>>>" ++ check (runes_of_ascii "MetaData T {
    char[0123456789] rootA `line1
        line2`,
    i32 Logon,
    rootA asx,
}

root packet Header {
    uint32 len @lengthOf(u) `
        `,
    repeat char MetaDataX `" ++ [28040; 24687; 31867; 22411]%N ++ runes_of_ascii "`,
    uint8x @lengthOf(zchar) `u8 x,`,
    uint8 Z9_,
    @lengthOf(u128)
    @lengthOf(MetaDataX)
    @tag(0123456789)
    Logon @lengthOf(body),
}

options {
    Z9_ = uint32;
    options1 = '\x00'
}

options {
    Foo = ""// no comment"";
}

packet float {
}")).
Eval vm_compute in ("<<<M1379>>>" ++ check (runes_of_ascii "options {
    ArrayPrefixLenType = u64;
    FixedStringPadFromLeft = true;
    FixedStringPadChar = '0';
}
packet Order {
}
root packet Leg {
    char[] Ref,
    repeat Order,
    f32 Acct,
    @leftPad('0') char[10] venue,
    @rightPad('0') char[3] seqNo,
    repeat u64 Px,
    u8 Flags,
    u32 lastPx @lengthOf(Body),
    match Flags as Body {
        185 : Order,
    },
    u16 sym @calculatedFrom(""CR\
C32""),
}
")).
Eval vm_compute in ("<<<M35>>>" ++ check (runes_of_ascii "options {  stringy =
// packet A { u8 x, }
// a // b
true
;
    x_y_z
=
    false x ='\x00' //x
;
matchKey  =
    i64
; // c
}root packet o {@lengthOf( float ) int32 As
,
}
    root
/// triple
// trailing space 
packet x
{ // a // b
@rightPad
( ) i8i8 @calculatedFrom( ""x y"")//x
, } MetaData
u  { A
    /// triple
    u8x ,
} options {
    u8x = i64 _x  =""CRC32"" ; MetaDataX = u8 }
")).
Eval vm_compute in ("<<<M231>>>" ++ check (runes_of_ascii "MetaData	Logon /// triple
{
char[255 ]
// trailing space 
// `tick` ""quote"" 'q'
msg_type
,
    A msg_type , char[
4294967296
    ]u ,// 50% %s
} root packet
    /// triple
    uint8x
    { match _x as len
    { 255
    : a1 , 10
    // a // b
    : options1
    } ,
crc
    // a // b
    ,
@lengthOf(
Header ) repeat roots `say ""hi""`,
//
// c
}
")).
Eval vm_compute in ("<<<M1200>>>" ++ check (runes_of_ascii "// top
options // c0
{ // c1a
  // c1b
}
    // c2
options // c3
{
    // c4
MetaDataX
    // c5
= // c6a
  // c6b
char // c7a
  // c7b
; } // c9
MetaData // c10
Pad // c11
{ // c12
i8 metadata // c14a
  // c14b
, // c15
string // c16a
  // c16b
stringy , int8 // c19a
  // c19b
As // c20
`{ , }`
    // c21
, } ")).
Eval vm_compute in ("<<<M329>>>" ++ check (runes_of_ascii "packet roots {  pack  ``
, //	t
T @lengthOf( tag ) , x{ match len as
    packetx {	[10] : // c
rootA ,
    }, repeat
string
leftPad
`
` , //	t
char[ 7 ] Packet
@calculatedFrom(	""a	b""
    ) ,
    char[]
    uint8x  ``
// trailing space 
// a // b
,} ,
uint16
leftPad
,
}
")).
Eval vm_compute in ("<<<M144>>>" ++ check (runes_of_ascii "packet leftPad { @leftPad
(
' ' ) @calculatedFrom( """ ++ [28040; 24687]%N ++ runes_of_ascii """	) zchar[
    4294967296 ]string_, metadata
    { tag  @lengthOf( body ) `two words` ,} ,@tag( 255 )
int16 asx @calculatedFrom( ""a	b""
    )
// `tick` ""quote"" 'q'
// `tick` ""quote"" 'q'
`{ , }`// c
, }
")).
Eval vm_compute in ("<<<M514>>>" ++ check (runes_of_ascii "packet
    asx { @calculatedFrom(
""""  ) @tag( 255 )repeat
// packet A { u8 x, }
// trailing space 
int16 u8x
,
@tag(
    //
    007 )
    @tag( 0
    /// triple
    ) @tag( 1) u
    @lengthOf( T packet,
// `tick` ""quote"" 'q'
//x
} // " ++ [128512]%N ++ runes_of_ascii " emoji")).
Eval vm_compute in ("<<<M1801>>>" ++ check (runes_of_ascii "  packet
Logon{ 
string	user 
,

    }

root  packet
Frame {
	u8
K

    ,

    match K	as Body{	1

:Logon

    ,
2
	:
Logout

,  } ,  Tail
,  }
    packet Logout	{

    u16
    reason  ,
    }
packet

    Tail { u32 crc ,
} ")).
Eval vm_compute in ("<<<M454>>>" ++ check (runes_of_ascii "packet
    asx { @calculatedFrom(
""""  ) @tag( 255 )repeat
// packet A { u8 x, }
// trailing space 
int16 u8x
,
uint8
    //
    007 )
    @tag( 0
    /// triple
    ) @tag( 1) u
    @lengthOf( T ),
// `tick` ""quote"" 'q'
//x
} // " ++ [128512]%N ++ runes_of_ascii " emoji")).
Eval vm_compute in ("<<<M506>>>" ++ check (runes_of_ascii "packet
    asx { @calculatedFrom(
""""  ) @tag( 255 )repeat
// packet A { u8 x, }
// trailing space 
int16 u8x
,
@tag(
    //
    007 )
    @tag( 0
    /// triple
    ) @tag( 1) u
    @lengthOf(  ),
// `tick` ""quote"" 'q'
//x
} // " ++ [128512]%N ++ runes_of_ascii " emoji")).
Eval vm_compute in ("<<<M248>>>" ++ check (runes_of_ascii "packet roots
{ @lengthOf(	Header ) @tag( 4294967296 //	t
) repeat leftPad `
` , calculatedFrom
    // packet A { u8 x, }
    {
repeat
    char[] As , } , //	t
char[] charz
@calculatedFrom( //
""" ++ [28040; 24687]%N ++ runes_of_ascii """	) ,
    uint8x `tab	here` ,}")).
Eval vm_compute in ("<<<M1846>>>" ++ check (runes_of_ascii "packet roots {
    @lengthOf(Header)
    @tag(4294967296)
    repeat leftPad `
        `,
    calculatedFrom {
        repeat char[] As,
    },//	t
    char[] charz @calculatedFrom(""" ++ [28040; 24687]%N ++ runes_of_ascii """),
    uint8x `tab	here`,
}")).
Eval vm_compute in ("<<<M111>>>" ++ check (runes_of_ascii "
MetaData
_x
{Z9_ MetaDataX
// trailing space 
// @lengthOf(
, char[]_x`u8 x,`,
} packet charz {
//x
// " ++ [128512]%N ++ runes_of_ascii " emoji
@tag(
65535 ) string_ chars , asx
    //
    @lengthOf( u128
    )
, } 	 ")).
Eval vm_compute in ("<<<M1688>>>" ++ check (runes_of_ascii "packet A {
    match k as n {
        [
            ""a"", ""bb"", ""c c"", ""d"", ""e"",
            ""f"", ""g"", ""h"", ""i"", ""j"",
            ""k"", ""l""
        ] : B,
        2 : C,
    },
}")).
Eval vm_compute in ("<<<M716>>>" ++ check (runes_of_ascii "packet
crc
{repeat  F" ++ [127]%N ++ runes_of_ascii "oo A  `u8 x,` ,	@lengthOf( uint8x ) string
matchKey @lengthOf( stringy ) `a\`
,
    // c
    }
MetaData chars{
leftPad
    //	t
    crc
`" ++ [233]%N ++ runes_of_ascii "`
,}")).
Eval vm_compute in ("<<<M698>>>" ++ check (runes_of_ascii "MetaData u
    { } MetaData o
{ float uint8x
`100% of %d` ,repeatCount u8x, string_ leftPad
, i32
    Foo , int64 x `two words` , calculatedFrom
@xstringy `a\` ,
}
")).
Eval vm_compute in ("<<<M609>>>" ++ check (runes_of_ascii "MetaData u
    { } MetaData o
{ float uint8x
`100% of %d` ,repeatCount `
`, string_ leftPad
, i32
    Foo , int64 x `two words` , calculatedFrom
stringy `a\` ,
}
")).
Eval vm_compute in ("<<<M674>>>" ++ check (runes_of_ascii "MetaData u
    { } MetaData o
{ float uint8x
`100% of %d` ,repeatCount u8x, string_ leftPad
, i32
    Foo , int64 x `two words` , calculatedFrom
packet `a\` ,
}
")).
Eval vm_compute in ("<<<M1443>>>" ++ check (runes_of_ascii "MetaData _x {
    Z9_ MetaDataX,
    char[] _x `u8 x,`,
}

packet charz {
    //x
    // " ++ [128512]%N ++ runes_of_ascii " emoji
    @tag(65535)
    string_ chars,
    asx @lengthOf(u128),
}")).
Eval vm_compute in ("<<<M211>>>" ++ check (runes_of_ascii "
MetaData float { }packet
    x
    {
// 50% %s
// a // b
float@calculatedFrom( ""\" ++ [233]%N ++ runes_of_ascii """
) , uint32 body ,} options { repeatCount
= float32 } // @lengthOf(")).
Eval vm_compute in ("<<<M1758>>>" ++ check (runes_of_ascii "packet A {
    Inner {
        u8 x `a
                b`,
        Deep {
            u8 y `a
                        b`,
        },
    },
}")).
Eval vm_compute in ("<<<M1686>>>" ++ check (runes_of_ascii "  options	{ A
	=""\n""

; // @lengthOf(
  	len
    =
	' '
	; 
body
	= 4294967296 ;
int
	=3
charz ='0'
	}
        // packet A { u8 x, }")).
Eval vm_compute in ("<<<M85>>>" ++ check (runes_of_ascii "
MetaData metadata
{
u64 charz	`crlf
line`  , int64 options1	, } options
{ tag = ""CRC32""
    // " ++ [27880; 37322]%N ++ runes_of_ascii "
    ; u8x
    ='\x00' }")).
Eval vm_compute in ("<<<M1428>>>" ++ check (runes_of_ascii "
root

    packet
	string_  {}

    options {i64_
=
'\x00'  ;

Pad
    =
	int32

;
calculatedFrom= 
255
    }

")).
Eval vm_compute in ("<<<M1216>>>" ++ check (runes_of_ascii "options { } options { MetaDataX =
// c
char ; } MetaData Pad { i8 metadata , string stringy , int8 As `{ , }` , }")).
Eval vm_compute in ("<<<M1248>>>" ++ check (runes_of_ascii "options { } options { MetaDataX = char ; } MetaData Pad { i8 metadata , string stringy , int8 As `{ , }` ,
// c
}")).
Eval vm_compute in ("<<<M1290>>>" ++ check (runes_of_ascii "options {
    LittleEndian = true;
}
root packet P {
    u16 a,
    u32 Sum @calculatedFrom(""CR\
C32""),
}
")).
Eval vm_compute in ("<<<M866>>>" ++ check (runes_of_ascii "packet A {
  match k as n {
    [""a"", ""bb"", ""c c"", ""d"", ""e"", ""f"", ""g"", ""h"", ""i""] : B
    2 : C
  },
}")).
Eval vm_compute in ("<<<M852>>>" ++ check (runes_of_ascii "packet A {
  match k as n {
    [""a"", ""bb"", ""c c"", ""d"", ""e"", ""f"", ""g"", ""h""] : B,
    2 : C
  },
}")).
Eval vm_compute in ("<<<M385>>>" ++ check (runes_of_ascii "root packet SimpleMessage {
    uint16 MsgType `" ++ [28040; 24687; 31867; 22411]%N ++ runes_of_ascii "`,
    string JsonBody `Json" ++ [23383; 31526; 20018; 28040; 24687; 20307]%N ++ runes_of_ascii "`,
}")).
Eval vm_compute in ("<<<M872>>>" ++ check (runes_of_ascii "packet A {
  match k as n {
    [1, 22, ""c c"", 4, 5, ""f"", 7, 8, ""i""] : B
    2 : C
  },
}")).
Eval vm_compute in ("<<<M1315>>>" ++ check (runes_of_ascii "
packet
    order_item {	u8 
a
,
	}
root packet	new_order{  order_item ,

u8  x

,} ")).
Eval vm_compute in ("<<<M114>>>" ++ check (runes_of_ascii "// `tick` ""quote"" 'q'
options{
chars  =
65535	packetx =
""packet""Z9_
    = '0' ; }")).
Eval vm_compute in ("<<<M801>>>" ++ check (runes_of_ascii "packet A {
  match k as n {
    [""a"", ""bb"", ""c c"", ""d""] : B
    2 : C
  },
}")).
Eval vm_compute in ("<<<M888>>>" ++ check (runes_of_ascii "packet A { Inner { match k as n { [1,22,007,4,5,66,7,8,9,10] : B, }, }, }")).
Eval vm_compute in ("<<<M798>>>" ++ check (runes_of_ascii "packet A {
  match k as n {
    [1, 22, 007, 4] : B,
    2 : C
  },
}")).
Eval vm_compute in ("<<<M1567>>>" ++ check (runes_of_ascii "root packet P {
    u8 s_u8,
    repeat u8 r_u8,
    u16 b_len,
}")).
Eval vm_compute in ("<<<M1476>>>" ++ check (runes_of_ascii "

  MetaData M
{u8

x`tab
	x` ,

    T  t	`tab
	x`
	,
	}
")).
Eval vm_compute in ("<<<M1138>>>" ++ check (runes_of_ascii "// top
root // c0
packet // c1
a1 // c2
{ // c3
} // c4
")).
Eval vm_compute in ("<<<M1812>>>" ++ check (runes_of_ascii "root packet u {
    Pad asx,
    calculatedFrom,
}")).
Eval vm_compute in ("<<<M1830>>>" ++ check (runes_of_ascii "MetaData i8i8 {
    // a // b
    int8 As,
}")).
Eval vm_compute in ("<<<M1821>>>" ++ check (runes_of_ascii "root packet A {
    u8 x `tab
    	x`,
}")).
Eval vm_compute in ("<<<M1185>>>" ++ check (runes_of_ascii "options { // c
A = ""// no comment"" }")).
Eval vm_compute in ("<<<M747>>>" ++ check ([1771]%N ++ runes_of_ascii "$" ++ [65533]%N ++ runes_of_ascii ":" ++ [1970]%N ++ runes_of_ascii "6x" ++ [1777]%N ++ runes_of_ascii "[$-." ++ [65533]%N ++ runes_of_ascii "3" ++ [1235; 65533; 65533; 65533]%N ++ runes_of_ascii "$" ++ [65533; 65533]%N ++ runes_of_ascii "u" ++ [65533]%N ++ runes_of_ascii "@~" ++ [65533; 65533]%N ++ runes_of_ascii "P" ++ [0; 65533]%N ++ runes_of_ascii "l" ++ [65533; 16]%N)).
Eval vm_compute in ("<<<M1017>>>" ++ check (runes_of_ascii "packet A {
 u8 x `d" ++ [5760]%N ++ runes_of_ascii "`, // c" ++ [5760]%N ++ runes_of_ascii "
}")).
Eval vm_compute in ("<<<M740>>>" ++ check (runes_of_ascii "? Yk{t2<omLkW}'N@Vi/x[_j_,J")).
Eval vm_compute in ("<<<M157>>>" ++ check (runes_of_ascii "MetaData x_y_z
    { }
")).
Eval vm_compute in ("<<<M1127>>>" ++ check (runes_of_ascii "MetaData tag
// c
{ }")).
Eval vm_compute in ("<<<M1025>>>" ++ check (runes_of_ascii "packet A {
}
// c" ++ [8202]%N)).
Eval vm_compute in ("<<<M1003>>>" ++ check (runes_of_ascii "packet A {
}// c" ++ [160]%N)).
Eval vm_compute in ("<<<M367>>>" ++ check (runes_of_ascii "
 // @lengthOf(")).
Eval vm_compute in ("<<<M754>>>" ++ check (runes_of_ascii "int64")).
Eval vm_compute in ("<<<M732>>>" ++ check ([65279]%N)).
