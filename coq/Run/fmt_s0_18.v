From FP Require Import Lexer Parser ShowPT Digest Formatter.
From Coq Require Import String List NArith.
Import ListNotations.
Open Scope string_scope.
Set Printing Width 100000000.
Set Printing Depth 100000000.
Definition show_fres (r : fres) : string :=
  match r with
  | FOk s => "OK:" ++ sh_escaped s ""
  | FErr s => "ERR:" ++ sh_escaped s ""
  | FPanic p => "PANIC:" ++ p
  end.
Definition check (rs : list rune) : string := digest (show_fres (format_res rs)).
Definition full (rs : list rune) : string := show_fres (format_res rs).
Eval vm_compute in ("<<<M146>>>" ++ check (runes_of_ascii "MetaData
chars {	int8 Z9_,	float rootA	`tab	here`// @lengthOf(
,
//x
// @lengthOf(
T o `it's` ,
roots int , // c
repeatCount MetaDataX, float32
    falsey `say ""hi""`,} packet
    msg_type
{ repeat f32
o // `tick` ""quote"" 'q'
, @tag( 0
)char[]  A	,  repeat char[] tag `say ""hi""` ,repeat char[ 0 ] Z9_ ,
zchar[ 1 ] lengthOf ,
i64 T , match float as
leftPad {
    007 : len /// triple
, ""it's"" : len
    , ""it's"" : // @lengthOf(
float
    [ 255 ,
00
, ""abc"", ""abc""
,
1
, """ ++ [28040; 24687]%N ++ runes_of_ascii """ // `tick` ""quote"" 'q'
, ""x y"" , """" // a // b
] :	_x ,
    """" : len ,""\" ++ [233]%N ++ runes_of_ascii """  : // a // b
i64_
, //	t
}, roots{ char[ 1
]// @lengthOf(
Header
@lengthOf( x_y_z )
    , body u128 , // `tick` ""quote"" 'q'
char[]
float ,chars@lengthOf( x  )
    `doc` ,}
,
    crc `it's`
    // `tick` ""quote"" 'q'
    , @calculatedFrom(""" ++ [128512]%N ++ runes_of_ascii """
    )
    BodyLength `" ++ [28040; 24687; 31867; 22411]%N ++ runes_of_ascii "` , }
    packet
    u128{  lengthOf ,pack
@lengthOf( u8x// c
)`// not a comment`// " ++ [27880; 37322]%N ++ runes_of_ascii "
,@leftPad
    (
' ' ) float{match
    asx as
    charz
{ [ 4294967296,""""
, 255 ,42
    ,""1""  ] : u8x ""{,}""	: Foo 42  :
leftPad[ // trailing space 
255 ,
    // " ++ [128512]%N ++ runes_of_ascii " emoji
    ""a\""b"" , ""it's""  , 4294967296 ] : stringy , 3
:Header ,
} ,match o // `tick` ""quote"" 'q'
as
    Pad
    // trailing space 
    { 3 :
    i64_//x
, } ,repeat
    string msg_type ,
    match
packetx // " ++ [27880; 37322]%N ++ runes_of_ascii "
as
lengthOf
    { [ ""x y"","""" ]
:x_y_z
// " ++ [27880; 37322]%N ++ runes_of_ascii "
// c
}, } ,i64 float,repeat
    zchar[ 3  ] rootA
    `crlf
line`, match msg_type as len{
""CRC32"":
MetaDataX
,
} ,
    f32
A , char[
0123456789 ] chars// " ++ [27880; 37322]%N ++ runes_of_ascii "
`{ , }` , /// triple
@calculatedFrom( ""a\""b""
) string
string_
    `" ++ [233]%N ++ runes_of_ascii "` ,}
")).
Eval vm_compute in ("<<<M1557>>>" ++ check (runes_of_ascii "root
    packet  // " ++ [27880; 37322]%N ++ runes_of_ascii "
		crc {@lengthOf(
    As

    )
@calculatedFrom(""\" ++ [233]%N ++ runes_of_ascii """)  zchar[ 4294967296
] 
MetaDataX	`doc`

    ,  /// triple
    	rootA 
@calculatedFrom(""it's""	) , 
@tag(65535	) @tag(  // c

	7
	)@tag( 00  
      //
  // c
)

    len

@lengthOf( 
A)
    `two words`, 
  // trailing space 
	// " ++ [128512]%N ++ runes_of_ascii " emoji
  string

    rootA @lengthOf(

    pack
// trailing space 
  //	t
),  
  // " ++ [128512]%N ++ runes_of_ascii " emoji

// trailing space 
  repeat
    zchar , @calculatedFrom(""abc""  )@leftPad 
( '\x00' 
) @rightPad ( )
    match x_y_z
as	Z9_
    {  ""it's""
:	Logon 	 //x
    ,
    ""x y""
:Packet ,""abc""
:trueish 
4294967296 	 // @lengthOf(
    : repeatCount

    """ ++ [128512]%N ++ runes_of_ascii """:x_y_z } 
, char[

    10 // @lengthOf(
  ]
stringy 
`it's`

,
	@leftPad (  '\x00'
)rootA  @lengthOf(

    i64_ 
)
	,}	MetaData  falsey{
	Packet

repeatCount `tab	here`
	,

    } MetaData

string_
{	float64
roots `line1
line2`
	,char

As  //
  	`
`,zchar[
	65535]

    falsey 
`a\` ,
A  T
,  _x  metadata ,
} packet _x  // packet A { u8 x, }
  {
zchar[ 255 ]

string_
@lengthOf(
        //	t
		// @lengthOf(
  u128)
	`{ , }`  ,}
    root  packet  Packet
    {
repeat // " ++ [128512]%N ++ runes_of_ascii " emoji
    	lengthOf

    ,}

")).
Eval vm_compute in ("<<<M316>>>" ++ check (runes_of_ascii "// `tick` ""quote"" 'q'
packet crc { @tag(0 ) //x
chars , i8i8
@lengthOf( packetx ), repeat
f32a
    {
match packetx as a1{
    ""x y""
:
//
// `tick` ""quote"" 'q'
Packet, } ,}
, @leftPad(
'\x00' )
uint8 int ,
match float as a1 {
    // `tick` ""quote"" 'q'
    [4294967296
    ]
:// " ++ [27880; 37322]%N ++ runes_of_ascii "
Packet
    , } //
, repeat zchar[ 007 ] zchar`tab	here`
    , repeat
// " ++ [27880; 37322]%N ++ runes_of_ascii "
// a // b
x
    , }	packet
string_
    // c
    { char[
0123456789] a1
, @calculatedFrom( ""a\\"" ) @tag( 42)
@leftPad
('\x00' ) options1
    @calculatedFrom( """ ++ [28040; 24687]%N ++ runes_of_ascii """
)`it's`	, repeat
rootA// packet A { u8 x, }
{
    //
    match Logon as Packet { [10 ,	255 , 0,
007 ,
""CRC32""
, ""abc"" ] : len , """ ++ [28040; 24687]%N ++ runes_of_ascii """:	a1	, } , match leftPad as Header { 007:  As
, 255: repeatCount , /// triple
"""" // packet A { u8 x, }
: matchKey //
, [ 255 ,
    3,	""abc"" , """", ""\n"" , 1
, """"// " ++ [27880; 37322]%N ++ runes_of_ascii "
,
42//x
] : pack ,
}
, }
// @lengthOf(
// `tick` ""quote"" 'q'
, int
{int64 chars , }// @lengthOf(
, } 	 ")).
Eval vm_compute in ("<<<M28>>>" ++ check (runes_of_ascii "options
    { string_
= false
    ; falsey  = char[// " ++ [128512]%N ++ runes_of_ascii " emoji
4294967296 ] ; } packet
    zchar{match float as len { [ """ ++ [233]%N ++ runes_of_ascii "t" ++ [233]%N ++ runes_of_ascii """ ]:
matchKey
    , 3 : // " ++ [27880; 37322]%N ++ runes_of_ascii "
u [ 4294967296
, ""1"" ] :
// `tick` ""quote"" 'q'
// c
zchar , } // c
,} MetaData
    // @lengthOf(
    T {
// c
// a // b
}	packet packetx  { uint16 uint8x @calculatedFrom( ""it's"" ) ,
stringy { i16 crc
`{ , }`	, }
, zchar[ 00
] x
,
    zchar{ uint64 tag , zchar
f32a	`say ""hi""` , uint32 A `{ , }` , match _x as
falsey
{ [ 007// " ++ [128512]%N ++ runes_of_ascii " emoji
,
    """ ++ [128512]%N ++ runes_of_ascii """] :
    matchKey// " ++ [128512]%N ++ runes_of_ascii " emoji
[ 0123456789,3 ] : T
// " ++ [128512]%N ++ runes_of_ascii " emoji
// `tick` ""quote"" 'q'
1: Foo ,
}
    ,// trailing space 
} ,A ,
    zchar[
    // packet A { u8 x, }
    4294967296 ] string_ @lengthOf( float ) ,match rootA as As
    { [ ""it's"",
255 , 0123456789 ,
// packet A { u8 x, }
//	t
""" ++ [233]%N ++ runes_of_ascii "t" ++ [233]%N ++ runes_of_ascii """	, ""{,}"" ,	""abc""
    , """ ++ [233]%N ++ runes_of_ascii "t" ++ [233]%N ++ runes_of_ascii """]:int, 4294967296 : tag , } , }
")).
Eval vm_compute in ("<<<M1383>>>" ++ check (runes_of_ascii "
options{

    StringPrefixLenType=u16
; ArrayPrefixLenType
=u32

;

    FixedStringPadFromLeft	=  true  ; FixedStringPadChar=	'0'  ;  } packet

    Cancel
    {}

    packet

Party
    {
    } packet
	Logon 
{}
	packet  Ack {	} packet Logout{

repeat InSym87

    { InClordid94{

string
clOrdID
,  }
,  string 
Px ,

i16

Qty 
,
    repeat

InCount71 {	repeat Cancel

,

    uint16
	Tail

, char[

    2 
] x  , repeat 
string

    Ref  ,	}
	, Cancel , }

,
} 
root	packet  Order
	{

repeat	string
	tag7

,@leftPad(
' '

    )  char[

3 ] 
Px ,
u8
    Qty
,match
    Qty

    as

    Body
    {

    [
	28, 
62

    ]  :

    Logon
, 
148

    :
    Ack ,

88

    : 
Party , 184 : Cancel ,} , u16  Note

    @calculatedFrom( ""CR\
C32""
)
,  }")).
Eval vm_compute in ("<<<M52>>>" ++ check (runes_of_ascii "  MetaData
    // " ++ [27880; 37322]%N ++ runes_of_ascii "
    packetx { zchar[ 7 ] leftPad
`// not a comment` ,	}	packet i64_{@calculatedFrom(
"""" )
// trailing space 
// c
@lengthOf(
x_y_z ) @tag( 00
)
repeatCount
    // packet A { u8 x, }
    @calculatedFrom(""1"" ), } packet falsey { int16
_x
@calculatedFrom(	""it's"") , } // @lengthOf(
root
packet matchKey
    {repeat u32  Pad  `" ++ [233]%N ++ runes_of_ascii "`, zchar[ 7 ]
    leftPad
,match chars as lengthOf
{ 1 :
o
    42 : chars
// trailing space 
// c
,
}//x
, repeat
zchar[
    255]
a1, matchKey //
Packet
    // `tick` ""quote"" 'q'
    ,
f32
    tag
    ,
// @lengthOf(
// trailing space 
@calculatedFrom(  ""a\""b"" ) @leftPad( ' ' ) @lengthOf(
T) stringy
@lengthOf( o) ,packetx  i64_ ,}
/// triple
")).
Eval vm_compute in ("<<<M1625>>>" ++ check (runes_of_ascii "root packet matchKey {
    match Foo as Z9_ {
        // c
        [007, 7, ""x y"", ""1""] : pack,
        ""`tick`"" : u128,
        ""a	b"" : msg_type,
        [00, 65535] : a1,
        ""it's"" : Foo,
        // " ++ [128512]%N ++ runes_of_ascii " emoji
        [""""] : u,
    },
}

packet calculatedFrom {
    msg_type {
        T @calculatedFrom(""\n""),
        float64 i8i8,
        As `
        `,
        u32 rootA @lengthOf(float),
    },
}

packet x_y_z {
    @tag(0)
    i64_ @lengthOf(MetaDataX),
}

packet A {
    @calculatedFrom(""a\\"")
    @calculatedFrom(""abc"")
    _x u `say ""hi""`,
}

options {
    // trailing space 
    metadata = ""a\\"";// a // b
}")).
Eval vm_compute in ("<<<M1844>>>" ++ check (runes_of_ascii "// top
    packet// c0
    	float  // c1
    { // c2
  @rightPad// c3
  (// c4

)	// c5
    rootA	// c6
	@lengthOf(	// c7
	trueish// c8
	  )	// c9
	,	// c10
    	stringy// c11

  @lengthOf(  // c12

  matchKey 	 // c13
	  ) // c14
    ,// c15
  char[ // c16
	4294967296// c17
    ] 	 // c18
    pack // c19
		@lengthOf(	// c20
  uint8x // c21

)  // c22
  , // c23

}  // c24
	root 	 // c25
packet 	 // c26

	trueish // c27
    	{	// c28

repeat 	 // c29

uint64// c30

  u128 	 // c31
      `line1
line2`// c32
  , // c33
}  // c34")).
Eval vm_compute in ("<<<M1477>>>" ++ check (runes_of_ascii "
packet
    leftPad // trailing space 
      {

@tag(	10

    )  @tag(

007 )@lengthOf(
a1
) 
    // a // b
//
  repeat
metadata
    ,

} 	 // " ++ [128512]%N ++ runes_of_ascii " emoji
options
	// @lengthOf(
  	{lengthOf =""" ++ [128512]%N ++ runes_of_ascii """
;
    }	packet  T
	// " ++ [27880; 37322]%N ++ runes_of_ascii "
	{
A

{ 
      //
    	// `tick` ""quote"" 'q'

	tag
@calculatedFrom(	""abc""
)

,  } 
,@lengthOf(  matchKey
    )
    string

    Header	@lengthOf(

    metadata)

    ,

leftPad
    // trailing space 
  @calculatedFrom(  ""a\""b"" ) `crlf
line` ,

    }
")).
Eval vm_compute in ("<<<M161>>>" ++ check (runes_of_ascii "packet rootA{ options1 _x , u64
    Header , } packet lengthOf {
    @rightPad ( ' '	)
@lengthOf( u128 // trailing space 
)	@calculatedFrom(	""a\""b"" )  A {string i64_	`it's`,
//	t
// trailing space 
uint8
body
, match pack as u {
// @lengthOf(
// trailing space 
00 : charz , 00: int ,3
: falsey 255 :body
    ,
[0123456789 ] :x_y_z ,
// a // b
//
}
,
} ,
} MetaData chars{ u128
    zchar , char[ 42  ]
// a // b
// a // b
metadata
    , }
")).
Eval vm_compute in ("<<<M306>>>" ++ check (runes_of_ascii "packet rootA { @tag(0123456789 ) options1 {int32 uint8x
    `u8 x,`
    , u8x
//x
// packet A { u8 x, }
{
    match Header as
    metadata {[	10 ]
: pack } ,
    } , f64 // `tick` ""quote"" 'q'
chars , }
, @lengthOf( body ) u64
// @lengthOf(
//
Z9_ , }
MetaData repeatCount
    {zchar[10 ] string_ , f64 A
, u32 BodyLength , zchar[ 00 ] uint8x ,
    trueish
leftPad,char[ 65535  ] rootA	, }
//	t
")).
Eval vm_compute in ("<<<M372>>>" ++ check (runes_of_ascii "// @lengthOf(
MetaData leftPad { string	options1`say ""hi""` ,
    //x
    int16 metadata`" ++ [233]%N ++ runes_of_ascii "`,f32 i64_
//	t
// c
, }  packet
trueish { // c
MetaDataX roots ,_x
    a1 , match
packetx as charz { 0
: // c
f32a ,
} //
, repeat body Logon , }	options { repeatCount=
    int8
charz // `tick` ""quote"" 'q'
=	char[];  msg_type =""it's""	u
=
    007 Z9_
    = uint32
    //
    }")).
Eval vm_compute in ("<<<M323>>>" ++ check (runes_of_ascii "options{ }
MetaData  string_ // `tick` ""quote"" 'q'
{ u32
matchKey `u8 x,`,
    string  MetaDataX , uint8
Logon, uint64 options1
, char[ 00 ] len
// `tick` ""quote"" 'q'
// trailing space 
`tab	here` , u8
options1
, }// a // b
packet a1 { chars ,
char[]
i64_ @lengthOf(
    // " ++ [27880; 37322]%N ++ runes_of_ascii "
    stringy
) ,char T,repeat i8 charz
`a\`
,
}
")).
Eval vm_compute in ("<<<M1310>>>" ++ check (runes_of_ascii "
packet
A
	{

u8 a
	, } packet
    B 
{ u16 b
,
	} packet
    C 
{	u32 
c,

}
	root
    packet

    M
	{u16

    Kc ,
u16 Kb
	, u16
    Ka

,
match  Kc

    as
X
	{9
:A

    ,
10
:B  , } ,match	Kb  as
Y{	2
: C
,  1 :A

,

} ,  match	Ka
    as
Z {
1 :
B	, 
}, A 
,B
, C
,

    }")).
Eval vm_compute in ("<<<M1904>>>" ++ check (runes_of_ascii "  packet

    i8i8

{
    repeat 
char[

    00 ]
    Pad

`a\`
,@leftPad (
'\x00' )
	string
a1

@lengthOf(

tag )
``
,
	float64
    u128 @calculatedFrom(""1""
)

    ,

@lengthOf(
x)	u128  @lengthOf(tag
    ) 
`" ++ [28040; 24687; 31867; 22411]%N ++ runes_of_ascii "` 
,	int64

    u,A //x
  T  `say ""hi""`
,} ")).
Eval vm_compute in ("<<<M308>>>" ++ check (runes_of_ascii "options { pack// `tick` ""quote"" 'q'
= 0123456789
}
packet metadata { @leftPad ( ' ' ) stringy
@lengthOf( _x )
    , repeat	u8
int
    `{ , }` ,
@leftPad //	t
('0' ) repeat char msg_type `it's`,
} MetaData x_y_z { // trailing space 
}")).
Eval vm_compute in ("<<<M1836>>>" ++ check (runes_of_ascii "root packet int {
    f32a @calculatedFrom(""packet"") `
    `,
}

options {
    rootA = ""\" ++ [233]%N ++ runes_of_ascii """;
}

packet i8i8 {
    // trailing space 
    uint8 uint8x @lengthOf(string_),
    i32 tag @lengthOf(Logon),
}")).
Eval vm_compute in ("<<<M1537>>>" ++ check (runes_of_ascii "packet A {
    match k as n {
        [
            ""a"", ""bb"", ""c c"", ""d"", ""e"",
            ""f"", ""g"", ""h"", ""i"", ""j"",
            ""k""
        ] : B,
        2 : C,
    },
}")).
Eval vm_compute in ("<<<M421>>>" ++ check (runes_of_ascii "packet uint8x
{ match pack
    as msg_type msg_type	{
    0123456789 :	float
}
,
} packet //	t
a1
    { } options {packetx
    = '\x00'	; u128= ""a	b""  ; }
")).
Eval vm_compute in ("<<<M55>>>" ++ check (runes_of_ascii "MetaData x_y_z
//x
//x
{ int32
    o
,zchar[
65535  ]Packet , i64_ o , i64 o`
` , } options
{ x =
//x
/// triple
u8;
// " ++ [27880; 37322]%N ++ runes_of_ascii "
// a // b
} // trailing space ")).
Eval vm_compute in ("<<<M496>>>" ++ check (runes_of_ascii "packet uint8x
{ match pack
    as msg_type	{
    0123456789 :	float
}
,
} packet //	t
a1
    { } options {packetx
    = = '\x00'	; u128= ""a	b""  ; }
")).
Eval vm_compute in ("<<<M407>>>" ++ check (runes_of_ascii "packet uint8x
{ pack match
    as msg_type	{
    0123456789 :	float
}
,
} packet //	t
a1
    { } options {packetx
    = '\x00'	; u128= ""a	b""  ; }
")).
Eval vm_compute in ("<<<M400>>>" ++ check (runes_of_ascii "packet uint8x
 match pack
    as msg_type	{
    0123456789 :	float
}
,
} packet //	t
a1
    { } options {packetx
    = '\x00'	; u128= ""a	b""  ; }
")).
Eval vm_compute in ("<<<M408>>>" ++ check (runes_of_ascii "packet uint8x
{ i8 pack
    as msg_type	{
    0123456789 :	float
}
,
} packet //	t
a1
    { } options {packetx
    = '\x00'	; u128= ""a	b""  ; }
")).
Eval vm_compute in ("<<<M1552>>>" ++ check (runes_of_ascii "
packet

    A{  match

k
as
n{ [

    1, 
22 , 
""c c""
,  4

    ,

    5 
,
    ""f""
    ,
7

    , 
8
    ]:B

2:  C 
} ,

    }

")).
Eval vm_compute in ("<<<M722>>>" ++ check (runes_of_ascii "// @lengthOf(
packet i8i8 { u128 o , }
options { MetaDataX = true;
    BodyLength =x_y_z ""packet""= 007
crc //x
= ""abc"" ;
    msg_type =
i16 }")).
Eval vm_compute in ("<<<M706>>>" ++ check (runes_of_ascii "// @lengthOf(
packet i8i8 { u128 o , }
options { MetaDataX = ;
    BodyLength =""packet"" x_y_z= 007
crc //x
= ""abc"" ;
    msg_type =
i16 }")).
Eval vm_compute in ("<<<M1845>>>" ++ check (runes_of_ascii "

  options
{

    lengthOf
=
    3	trueish
    // packet A { u8 x, }
	// trailing space 
  	=  true	;
	calculatedFrom=
007

;  } ")).
Eval vm_compute in ("<<<M1471>>>" ++ check (runes_of_ascii "packet
	B  {
	u8  a ,
	}

root 
packet  P  {
u8	K
, u64
    L
@lengthOf( Body  )

, match	K

as	Body{
	1:
B
    , 
}, }

")).
Eval vm_compute in ("<<<M1149>>>" ++ check (runes_of_ascii "MetaData leftPad { chars // c
MetaDataX , } packet repeatCount { char[ 255 ] uint8x `" ++ [233]%N ++ runes_of_ascii "` , } MetaData pack { As Foo , }")).
Eval vm_compute in ("<<<M1181>>>" ++ check (runes_of_ascii "MetaData leftPad { chars MetaDataX , } packet repeatCount { char[ 255 ] uint8x `" ++ [233]%N ++ runes_of_ascii "` , } MetaData pack { // c
As Foo , }")).
Eval vm_compute in ("<<<M894>>>" ++ check (runes_of_ascii "packet A {
  match k as n {
    [""a"", ""bb"", ""c c"", ""d"", ""e"", ""f"", ""g"", ""h"", ""i"", ""j"", ""k""] : B
    2 : C
  },
}")).
Eval vm_compute in ("<<<M909>>>" ++ check (runes_of_ascii "packet A {
  match k as n {
    [1, ""bb"", 007, ""d"", 5, ""f"", 7, ""h"", 9, ""j"", 11, ""l""] : B
    2 : C
  },
}")).
Eval vm_compute in ("<<<M896>>>" ++ check (runes_of_ascii "packet A {
  match k as n {
    [1, ""bb"", 007, ""d"", 5, ""f"", 7, ""h"", 9, ""j"", 11] : B
    2 : C
  },
}")).
Eval vm_compute in ("<<<M905>>>" ++ check (runes_of_ascii "packet A {
  match k as n {
    [1, 22, 007, 4, 5, 66, 7, 8, 9, 10, 11, 12] : B
    2 : C
  },
}")).
Eval vm_compute in ("<<<M635>>>" ++ check (runes_of_ascii "
packet
    asx {'1'match u128 as lengthOf
{
//	t
// `tick` ""quote"" 'q'
255 : x ,
    } ,	}")).
Eval vm_compute in ("<<<M633>>>" ++ check (runes_of_ascii "
packet
    asx {match u128 as `lengthOf
{
//	t
// `tick` ""quote"" 'q'
255 : x ,
    } ,	}")).
Eval vm_compute in ("<<<M587>>>" ++ check (runes_of_ascii "
packet
    asx {match u128 as lengthOf

//	t
// `tick` ""quote"" 'q'
255 : x ,
    } ,	}")).
Eval vm_compute in ("<<<M1585>>>" ++ check (runes_of_ascii "packet A {
    match k as n {
        [22, 4, ""a"", ""c c""] : B,
        2 : C,
    },
}")).
Eval vm_compute in ("<<<M832>>>" ++ check (runes_of_ascii "packet A {
  match k as n {
    [""a"", 22, ""c c"", 4, ""e"", 66] : B,
    2 : C
  },
}")).
Eval vm_compute in ("<<<M835>>>" ++ check (runes_of_ascii "packet A {
  match k as n {
    [1, 22, ""c c"", 4, 5, ""f""] : B
    2 : C
  },
}")).
Eval vm_compute in ("<<<M1700>>>" ++ check (runes_of_ascii "packet A {
    B b `a
    b`,
    B `a
    b`,
    repeat B bs `a
    b`,
}")).
Eval vm_compute in ("<<<M797>>>" ++ check (runes_of_ascii "packet A {
  match k as n {
    [""a"", ""bb"", 007] : B,
    2 : C
  },
}")).
Eval vm_compute in ("<<<M942>>>" ++ check (runes_of_ascii "packet A {
    B b `a

b`,
    B `a

b`,
    repeat B bs `a

b`,
}")).
Eval vm_compute in ("<<<M1126>>>" ++ check (runes_of_ascii "// top
MetaData
    // c0
u
    // c1
{
    // c2
}
    // c3
")).
Eval vm_compute in ("<<<M1719>>>" ++ check (runes_of_ascii "root

    packet

    P
    {

    string s
    ,
	} ")).
Eval vm_compute in ("<<<M1198>>>" ++ check (runes_of_ascii "
// c
packet body { i32 f32a `{ , }` , } options { }")).
Eval vm_compute in ("<<<M1079>>>" ++ check (runes_of_ascii "packet A { u8 x, } // a
// b
packet B {} // c
// d")).
Eval vm_compute in ("<<<M921>>>" ++ check (runes_of_ascii "MetaData M {
    u8 x `a
b`,
    T t `a
b`,
}")).
Eval vm_compute in ("<<<M1792>>>" ++ check (runes_of_ascii "options
{ int = char[] ; }
        //
")).
Eval vm_compute in ("<<<M946>>>" ++ check (runes_of_ascii "root packet A {
    u8 x `a

b`,
}")).
Eval vm_compute in ("<<<M36>>>" ++ check (runes_of_ascii "// c
packet asx  {} /// triple")).
Eval vm_compute in ("<<<M83>>>" ++ check (runes_of_ascii "
options{ options1 =	7 ;
}
")).
Eval vm_compute in ("<<<M1848>>>" ++ check (runes_of_ascii "root packet msg_type {
}")).
Eval vm_compute in ("<<<M1107>>>" ++ check (runes_of_ascii "MetaData tag // c
{ }")).
Eval vm_compute in ("<<<M95>>>" ++ check (runes_of_ascii "
packet  Logon {}
")).
Eval vm_compute in ("<<<M1046>>>" ++ check (runes_of_ascii "packet A {
}
// c" ++ [8203]%N)).
Eval vm_compute in ("<<<M1044>>>" ++ check (runes_of_ascii "packet A {
}// c" ++ [8203]%N)).
Eval vm_compute in ("<<<M297>>>" ++ check (runes_of_ascii "// " ++ [128512]%N ++ runes_of_ascii " emoji


")).
Eval vm_compute in ("<<<M1015>>>" ++ check (runes_of_ascii "// c" ++ [8233]%N)).
