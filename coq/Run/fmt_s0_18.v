From FP Require Import Lexer Parser ShowPT Digest Formatter.
From Coq Require Import String List NArith.
Import ListNotations.
Open Scope string_scope.
Set Printing Width 100000000.
Set Printing Depth 100000000.
Definition show_fres (r : fres) : string :=
  match r with
  | FOk s => "OK:" ++ sh_escaped s ""
  | FErr s => "ERR:" ++ sh_escaped s ""
  | FPanic p => "PANIC:" ++ p
  end.
Definition check (rs : list rune) : string := digest (show_fres (format_res rs)).
Definition full (rs : list rune) : string := show_fres (format_res rs).
Eval vm_compute in ("<<<M1657>>>" ++ check (runes_of_ascii "
// top

options  
  // c0
      {  // c1a
	// c1b

LittleEndian 
// c2
  =	// c3a
    // c3b
	false 

// c4
; ArrayPrefixLenType=  // c7a

	// c7b
u8  
  // c8
;// c9
FixedStringPadFromLeft	// c10a

	// c10b
	=// c11

  true 
;	// c13
    FixedStringPadChar 
        // c14

	=
'0' 	 // c16
      ;

    // c17
		}  // c18
	packet 
    // c19
  Heartbeat{ 
	// c21
	  string	lastPx
	, uint8  // c25
  	Qty
, 
    // c27
	i64 	 // c28a
    // c28b
    Acct 

    // c29
	  ,  
      // c30
    char[// c31

4

    ]  // c33
	Ref	// c34
		, 	 // c35
  	} packet // c37
Fill  // c38
      {	// c39

uint8 	 // c40a
  	// c40b
	Ref 	 // c41
    ,	Heartbeat 	 // c43
  , 	 // c44a
      // c44b
	f32  // c45
  OrderId, // c47
		repeat	f32 	 // c49
x 
      // c50
,// c51a
  // c51b
}	root
packet Order
// c55
    {// c56a
      // c56b
      zchar[
    // c57
  2 // c58
]// c59a

// c59b
	OrderId ,  
      // c61
	zchar[ // c62a

// c62b
2 ] 
    // c64
    Acct 
// c65
,
// c66
	zchar[	// c67
	1  ] // c69
Note // c70a
	// c70b
  ,
    // c71
  zchar[ 
        // c72
	  9 	 // c73
] Qty // c75a
	  // c75b

  , // c76a
    // c76b
    string price// c78
  , // c79
	string // c80a

// c80b
  tag7 
	// c81
, 	 // c82a
	// c82b
u32 

    // c83

	x
    // c84
  ,  // c85a
	// c85b
match  // c86
	  x as 	 // c88
	Body  // c89

{  // c90
123  // c91
  :  // c92a
    	// c92b
Fill , 	 // c94a
	// c94b
112 // c95a
	// c95b
  :// c96a
// c96b
  Heartbeat
	, 	 // c98
  } // c99
  ,	// c100
  u32 seqNo
    // c102
	@calculatedFrom( 	 // c103
	  ""CRC32"" 	 // c104
    )  
      // c105

  ,
    // c106
    }  // c107
")).
Eval vm_compute in ("<<<M1826>>>" ++ check (runes_of_ascii "// a // b
    	packet

stringy

{ 
string
    zchar ,
repeat
T	,  match	u
as charz { 007
//x
	:
	    //	t
	// @lengthOf(
float	// trailing space 
    ,  ""\" ++ [233]%N ++ runes_of_ascii """ :
    Logon""a	b""
: 
	    //	t

//	t
	pack
    ,  } ,
	match uint8x  as
    // " ++ [27880; 37322]%N ++ runes_of_ascii "
    roots  {	1
// `tick` ""quote"" 'q'
  :
len ,
} 
      //x
  // " ++ [27880; 37322]%N ++ runes_of_ascii "
    ,
	}	packet
    zchar
	{
    roots 
options1
    //x
    `// not a comment`  ,int64
As , i16
float
@lengthOf(falsey 
        // " ++ [27880; 37322]%N ++ runes_of_ascii "

  ) 
`a\`	,
int64 
msg_type `tab	here` ,
@tag(
	0
	// `tick` ""quote"" 'q'
  ) repeat
uint8x

,@lengthOf( x
	) 
repeat metadata,

    zchar[0
]
int,
uint64 zchar ,zchar[
7  // " ++ [27880; 37322]%N ++ runes_of_ascii "
  ]
    msg_type ,
@calculatedFrom( 
        /// triple
	  // " ++ [27880; 37322]%N ++ runes_of_ascii "
  """ ++ [28040; 24687]%N ++ runes_of_ascii """ )  crc
,
}root packet zchar {repeat leftPad
, } 
packet
	A  {  @lengthOf(

    string_
	)

x  @lengthOf( options1 
)`two words` 
,string

    len,
}  packet

    falsey  {

i64_ @calculatedFrom( ""{,}"" 
)
	, repeat string chars 
, 
zchar[ 
7	] calculatedFrom  ,Header{
	char u`two words`,

repeat
    char[]// c

	tag `say ""hi""`

    , Z9_ @lengthOf( 
T	) `line1
line2`
	,
} 
,msg_type @calculatedFrom(
    ""// no comment"" )
,

    @rightPad

(// packet A { u8 x, }
	'\x00' 
) @lengthOf(
	asx

    )falsey

    ,}// packet A { u8 x, }
 
")).
Eval vm_compute in ("<<<M1728>>>" ++ check (runes_of_ascii "
packet pack {@lengthOf(Foo 

// c
    ) asx@lengthOf(
	_x
)  /// triple
  ,
    u8
    x_y_z 
`two words`
,
repeat

    zchar[0

    ] roots
	`
`
    // `tick` ""quote"" 'q'
      ,
    lengthOf@calculatedFrom(

    ""abc""

    )
,	@tag(  3 )

@rightPad
    (

' '

    )

@calculatedFrom( ""1""
//x
    	// " ++ [27880; 37322]%N ++ runes_of_ascii "
)
	repeat
    uint64
	i64_	// trailing space 
`say ""hi""`// @lengthOf(
      ,@tag(
007
    )
    match
	roots 
as
    float

    { 
""a	b""

: lengthOf  , [
    1	, // @lengthOf(
	""\n""  ,""a\""b""	,""\" ++ [233]%N ++ runes_of_ascii """	,

""1"" 
, 
42	] :msg_type	,
""" ++ [128512]%N ++ runes_of_ascii """  : Foo
	}

,T 	 //x
{ match
	Header

as trueish {  [
    // `tick` ""quote"" 'q'
    // @lengthOf(
    0
	, 3  // @lengthOf(

	,	""{,}"" 
, 
""1"" , 00
    , 
0123456789	, 
""// no comment""

]

:  As

,
} ,},
    repeat	char[ 10 ] o

`
` ,

@calculatedFrom( 
    //
  ""`tick`"" 	 //x
      )
    repeat

crc
{repeatCount o  ,u8x
As  ,
},  }

packet  pack
    {

@calculatedFrom(""" ++ [233]%N ++ runes_of_ascii "t" ++ [233]%N ++ runes_of_ascii """  )
    u32
    f32a  ,
} MetaData  float {
u32

    options1
,

}packet
	f32a{ } ")).
Eval vm_compute in ("<<<M70>>>" ++ check (runes_of_ascii "packet pack { @lengthOf(
Foo
    // c
    )
    asx @lengthOf( _x ) /// triple
, u8	x_y_z `two words` ,repeat
    zchar[0
    ] roots `
`
    // `tick` ""quote"" 'q'
    , lengthOf @calculatedFrom( ""abc""
) ,
@tag( 3 ) @rightPad	( ' ')@calculatedFrom(
""1""
//x
// " ++ [27880; 37322]%N ++ runes_of_ascii "
)
repeat uint64 i64_ // trailing space 
`say ""hi""` // @lengthOf(
,	@tag( 007 ) match roots as float {	""a	b""
    : lengthOf,
    [1, // @lengthOf(
""\n""
,
""a\""b"" , ""\" ++ [233]%N ++ runes_of_ascii """ ,  ""1"",
    42 ]: msg_type, """ ++ [128512]%N ++ runes_of_ascii """: Foo} ,T//x
{
    match
Header
as trueish
{ [
// `tick` ""quote"" 'q'
// @lengthOf(
0 , 3// @lengthOf(
, ""{,}"" ,
""1"" ,
00  ,
0123456789
,
    ""// no comment"" ]
:As
    , }
    , } , repeat char[
    10
]
o `
`
, @calculatedFrom(
    //
    ""`tick`"" //x
) repeat crc {
    repeatCount o ,
    u8x
As, } ,
} packet pack{@calculatedFrom( """ ++ [233]%N ++ runes_of_ascii "t" ++ [233]%N ++ runes_of_ascii """ )  u32 f32a
,
}
    MetaData float
{u32 options1 , }
packet
f32a { }
")).
Eval vm_compute in ("<<<M362>>>" ++ check (runes_of_ascii "MetaData len
{i8 _x
    //	t
    `` , zchar[ 00 ] tag , roots
u
    // `tick` ""quote"" 'q'
    ,uint16 repeatCount , msg_type tag , } packet x_y_z
    {
metadata { i8i8 chars
,i64
chars , }
, repeat u16 asx
// a // b
// a // b
,
}	packet u8x  { @lengthOf( BodyLength	)	@leftPad(
// a // b
//
)float
    /// triple
    `
` ,
@calculatedFrom( ""// no comment"" ) float32 // " ++ [128512]%N ++ runes_of_ascii " emoji
chars`// not a comment` , uint32
u128 , @tag( 0 )
int16	tag , leftPad
    msg_type , // trailing space 
pack
    `tab	here` ,
@lengthOf(
repeatCount
// c
// c
)zchar[ 4294967296 ] len, i32 packetx`tab	here` , calculatedFrom ,metadata @calculatedFrom(
""// no comment"" ) , } options { // trailing space 
options1 = 42 ; i64_
    // a // b
    = char[] falsey=
// packet A { u8 x, }
//	t
42 // a // b
Packet =
true
;}
")).
Eval vm_compute in ("<<<M1935>>>" ++ check (runes_of_ascii "root packet As {
}

MetaData Pad {
    string metadata `// not a comment`,
}

packet metadata {
    string charz `a\`,
    @leftPad(' ')
    pack @lengthOf(x_y_z),
    @calculatedFrom(""packet"")
    match crc as chars {
        [""packet"", 7] : repeatCount,
    },
    Pad @lengthOf(matchKey),
    @calculatedFrom(""\n"")
    int64 Z9_ @lengthOf(_x),
    @lengthOf(repeatCount)
    repeat float {
        u128 @lengthOf(zchar),
        u8 crc,
    },
    int64 pack,
    u128 `it's`,
    repeat i32 T,//	t
    @tag(00)
    rootA @lengthOf(float),
}

MetaData Header {
    u32 u,
    string A `crlf
    line`,
    u16 roots `a\`,
    int16 chars,
}

packet repeatCount {
    repeat char[65535] x `line1
    line2`,
}")).
Eval vm_compute in ("<<<M1548>>>" ++ check (runes_of_ascii "MetaData packetx {
    zchar[7] leftPad `// not a comment`,
}

packet i64_ {
    @calculatedFrom("""")
    // trailing space 
    // c
    @lengthOf(x_y_z)
    @tag(00)
    repeatCount @calculatedFrom(""1""),
}

packet falsey {
    int16 _x @calculatedFrom(""it's""),
}// @lengthOf(

root packet matchKey {
    repeat u32 Pad `" ++ [233]%N ++ runes_of_ascii "`,
    zchar[7] leftPad,
    match chars as lengthOf {
        1 : o,
        42 : chars,
    },
    repeat zchar[255] a1,
    matchKey Packet,
    f32 tag,
    // @lengthOf(
    // trailing space 
    @calculatedFrom(""a\""b"")
    @leftPad(' ')
    @lengthOf(T)
    stringy @lengthOf(o),
    packetx i64_,
}
/// triple")).
Eval vm_compute in ("<<<M1801>>>" ++ check (runes_of_ascii "
options{ LittleEndian=
    false

; ArrayPrefixLenType =	u8 ; 
FixedStringPadFromLeft
	=
    true;	FixedStringPadChar =	'0'

;} packet	Heartbeat
    {	string
lastPx
, uint8
Qty
    ,	i64
	Acct,
    char[4
] Ref
,  } packet  Fill
	{
uint8	Ref ,

    Heartbeat

,

    f32 OrderId , repeat f32 x
,
	} root packet  Order
{

zchar[
2	] 
OrderId,
zchar[ 2	] Acct 
,
zchar[
	1
]

    Note
	,zchar[9  ] Qty
	,
    string
    price, string	tag7,
	u32
    x ,

match
x as
Body	{ 123: 
Fill

,112:	Heartbeat
	, }

,u32
	seqNo	@calculatedFrom(

    ""CR\
C32""
    ) 
,}
")).
Eval vm_compute in ("<<<M1678>>>" ++ check (runes_of_ascii "
MetaData

falsey {	} 
root
	packet  // `tick` ""quote"" 'q'
o 
{ @tag( 3 // " ++ [128512]%N ++ runes_of_ascii " emoji
	)@calculatedFrom(

""""

)
    @lengthOf( pack
    )char[65535 ] 
falsey @lengthOf( falsey )  ,

}

    root

packet  roots
    {  @lengthOf(  chars )
match

    Logon
as chars	{
""`tick`"": 
charz  
  // packet A { u8 x, }
""a\\"" :

Z9_

007
	:
trueish
""CRC32""
:
	msg_type
	,  [ 3 , 3 // `tick` ""quote"" 'q'
      ,	00 ,	4294967296 ,

0 ,	7
, //
  ""x y""

,""\" ++ [233]%N ++ runes_of_ascii """ 
    //	t
	] 
:  metadata

    ,
""a	b""
//x
  // " ++ [27880; 37322]%N ++ runes_of_ascii "
: crc}
	, }")).
Eval vm_compute in ("<<<M1681>>>" ++ check (runes_of_ascii "options
    {	// c1a

  // c1b
	LittleEndian  
  // c2
  = 	 // c3
	true  // c4

  ; }	// c6a
		// c6b
  packet

    B
	{  u8	// c10a
// c10b
a 
      // c11
  , // c12a
// c12b
	string	// c13
s  // c14

,
	}	// c16
  root // c17a
    // c17b
      packet

// c18
    P  // c19
    {

u16 // c21
	L @lengthOf(
    B
)// c25a
	// c25b

,  // c26a

// c26b
B  // c27a
	// c27b
, 
  // c28
		u8 
  // c29
    t 	 // c30
		, // c31

  }	// c32a
  // c32b")).
Eval vm_compute in ("<<<M374>>>" ++ check (runes_of_ascii "MetaData BodyLength { zchar[ 65535 ]	As `crlf
line`
, u16 charz , body len,
zchar msg_type ,uint64 metadata
,}
root packet //
matchKey
    {
repeat i8i8  `{ , }` ,
} MetaData a1 { i8i8 Pad`it's`	,
// trailing space 
// `tick` ""quote"" 'q'
int64
    // " ++ [128512]%N ++ runes_of_ascii " emoji
    roots `doc` ,
Foo BodyLength `u8 x,` , } packet	_x
{ lengthOf
    {
pack `" ++ [28040; 24687; 31867; 22411]%N ++ runes_of_ascii "` ,
string_ // @lengthOf(
, repeat //
rootA len , zchar[ 1
] u8x,} , }
")).
Eval vm_compute in ("<<<M1139>>>" ++ check (runes_of_ascii "// top
MetaData
    // c0
leftPad
    // c1
{
    // c2
chars
    // c3
MetaDataX
    // c4
,
    // c5
}
    // c6
packet
    // c7
repeatCount
    // c8
{
    // c9
char[
    // c10
255
    // c11
]
    // c12
uint8x
    // c13
`" ++ [233]%N ++ runes_of_ascii "`
    // c14
,
    // c15
}
    // c16
MetaData
    // c17
pack
    // c18
{
    // c19
As
    // c20
Foo
    // c21
,
    // c22
}
    // c23
")).
Eval vm_compute in ("<<<M1337>>>" ++ check (runes_of_ascii "options 
{

LittleEndian	=

    true
; StringPrefixLenType
=
u16 ;
FixedStringPadChar
	=
' ' 
; } packet
Logon
{

@leftPad	( '0') char[ 10 ]

tag7
	,
}
root packet

    Ack	{ int32
Px ,uint16	count ,

string Qty	,
    string
    OrderId 
,string
Flags, u8
    x	,  match
x
	as
    Body{
[	58
,  169  ] :	Logon
, } 
, } ")).
Eval vm_compute in ("<<<M1310>>>" ++ check (runes_of_ascii "
packet
A
	{

u8 a
	, } packet
    B 
{ u16 b
,
	} packet
    C 
{	u32 
c,

}
	root
    packet

    M
	{u16

    Kc ,
u16 Kb
	, u16
    Ka

,
match  Kc

    as
X
	{9
:A

    ,
10
:B  , } ,match	Kb  as
Y{	2
: C
,  1 :A

,

} ,  match	Ka
    as
Z {
1 :
B	, 
}, A 
,B
, C
,

    }")).
Eval vm_compute in ("<<<M1680>>>" ++ check (runes_of_ascii "// top
options {
    // c1
    f32a = 0
    // c4
}

// c5
packet trueish {
    // c8
}

// c9
MetaData _x {
    // c12
    char[0123456789] zchar,
    // c17
    string crc,
    // c20
    char[1] options1,
    // c25
    uint8 repeatCount,
    // c28
}
// c29")).
Eval vm_compute in ("<<<M1247>>>" ++ check (runes_of_ascii "options { LittleEndian // c2a
  // c2b
= // c3
true
    // c4
; } root
    // c7
packet P // c9a
  // c9b
{ repeat char // c12a
  // c12b
cs // c13a
  // c13b
, // c14a
  // c14b
u8
    // c15
x
    // c16
, // c17
}
    // c18
")).
Eval vm_compute in ("<<<M1421>>>" ++ check (runes_of_ascii "root packet int {
    f32a @calculatedFrom(""packet"") `
    `,
}

options {
    rootA = ""\" ++ [233]%N ++ runes_of_ascii """;
}

packet i8i8 {
    // trailing space 
    uint8 uint8x @lengthOf(string_),
    i32 tag @lengthOf(Logon),
}")).
Eval vm_compute in ("<<<M309>>>" ++ check (runes_of_ascii "packet
    // `tick` ""quote"" 'q'
    _x {//
repeat zchar[ 1 ] metadata
    ,@leftPad
    ( ' ' ) @lengthOf( T )@lengthOf(
Z9_ )
    char[] As// @lengthOf(
,string f32a  , }
")).
Eval vm_compute in ("<<<M1398>>>" ++ check (runes_of_ascii "

  packet 
A {

    match

    k
    as n

    {
	[  ""a""

,
22 ,

""c c""

,
    4, ""e""

, 66 
,
    ""g""

,
    8  ,""i""

    ]
: B

    2:

C
} 
, }
")).
Eval vm_compute in ("<<<M518>>>" ++ check (runes_of_ascii "packet uint8x
{ match pack
    as msg_type	{
    0123456789 :	float
}
,
} packet //	t
a1
    { } options {packetx
    = '\x00'	; u128 true ""a	b""  ; }
")).
Eval vm_compute in ("<<<M526>>>" ++ check (runes_of_ascii "packet uint8x
{ match pack
    as msg_type	{
    0123456789 :	float
}
,
} packet //	t
a1
    { } options {packetx
    = '\x00'	; u128= ""a	b""  ; ; }
")).
Eval vm_compute in ("<<<M428>>>" ++ check (runes_of_ascii "packet uint8x
{ match pack
    as msg_type	}
    0123456789 :	float
}
,
} packet //	t
a1
    { } options {packetx
    = '\x00'	; u128= ""a	b""  ; }
")).
Eval vm_compute in ("<<<M450>>>" ++ check (runes_of_ascii "packet uint8x
{ match pack
    as msg_type	{
    0123456789 :	float
}

} packet //	t
a1
    { } options {packetx
    = '\x00'	; u128= ""a	b""  ; }
")).
Eval vm_compute in ("<<<M493>>>" ++ check (runes_of_ascii "packet uint8x
{ match pack
    as msg_type	{
    0123456789 :	float
}
,
} packet //	t
a1
    { } options {f64
    = '\x00'	; u128= ""a	b""  ; }
")).
Eval vm_compute in ("<<<M664>>>" ++ check (runes_of_ascii "// @lengthOf(
packet i8i8 { u128 o , }
options { MetaDataX = true;
    BodyLength =""packet"" packet= 007
crc //x
= ""abc"" ;
    msg_type =
i16 }")).
Eval vm_compute in ("<<<M699>>>" ++ check (runes_of_ascii "// @lengthOf(
packet i8i8 { a" ++ [769]%N ++ runes_of_ascii "b o , }
options { MetaDataX = true;
    BodyLength =""packet"" x_y_z= 007
crc //x
= ""abc"" ;
    msg_type =
i16 }")).
Eval vm_compute in ("<<<M1831>>>" ++ check (runes_of_ascii "  packet
    A
    {

match 
k as
    n
{

[ ""a""  ,

""bb""
    ,
	007

    , ""d""
	,
""e""
,66
,	""g""

,
""h"" ]

    :
B

, 2
:C }
, }
")).
Eval vm_compute in ("<<<M1450>>>" ++ check (runes_of_ascii "MetaData leftPad {
    // c
    chars MetaDataX,
}

packet repeatCount {
    char[255] uint8x `" ++ [233]%N ++ runes_of_ascii "`,
}

MetaData pack {
    As Foo,
}")).
Eval vm_compute in ("<<<M1390>>>" ++ check (runes_of_ascii "MetaData leftPad {
    chars MetaDataX,
}

packet repeatCount {
    char[255] uint8x `" ++ [233]%N ++ runes_of_ascii "`,
}

MetaData pack {
    As Foo,
}")).
Eval vm_compute in ("<<<M1153>>>" ++ check (runes_of_ascii "MetaData leftPad { chars MetaDataX , // c
} packet repeatCount { char[ 255 ] uint8x `" ++ [233]%N ++ runes_of_ascii "` , } MetaData pack { As Foo , }")).
Eval vm_compute in ("<<<M1185>>>" ++ check (runes_of_ascii "MetaData leftPad { chars MetaDataX , } packet repeatCount { char[ 255 ] uint8x `" ++ [233]%N ++ runes_of_ascii "` , } MetaData pack { As Foo // c
, }")).
Eval vm_compute in ("<<<M914>>>" ++ check (runes_of_ascii "packet A {
  match k as n {
    [""a"", ""bb"", 007, ""d"", ""e"", 66, ""g"", ""h"", 9, ""j"", ""k"", 12] : B,
    2 : C
  },
}")).
Eval vm_compute in ("<<<M1400>>>" ++ check (runes_of_ascii "packet A
	{
	match	k

as n{[  ""a""  , ""bb"" ,
	""c c""
,
""d""	,""e"",

""f""
,
""g""
] : 
B

,
2 : C
}
,

    }")).
Eval vm_compute in ("<<<M1902>>>" ++ check (runes_of_ascii "
root

    packet
SimpleMessage {uint16	MsgType
	`" ++ [28040; 24687; 31867; 22411]%N ++ runes_of_ascii "`
,string
	JsonBody`Json" ++ [23383; 31526; 20018; 28040; 24687; 20307]%N ++ runes_of_ascii "`

,

    }")).
Eval vm_compute in ("<<<M855>>>" ++ check (runes_of_ascii "packet A {
  match k as n {
    [""a"", ""bb"", ""c c"", ""d"", ""e"", ""f"", ""g"", ""h""] : B
    2 : C
  },
}")).
Eval vm_compute in ("<<<M1559>>>" ++ check (runes_of_ascii "packet A {
    match k as n {
        [""a"", ""bb"", 007, ""d"", ""e""] : B,
        2 : C,
    },
}")).
Eval vm_compute in ("<<<M631>>>" ++ check (runes_of_ascii "
packet
    asx {match u128 as lengthOf
{
//	t
// `tick` ""quote"" 'q'
255 %: x ,
    } ,	}")).
Eval vm_compute in ("<<<M878>>>" ++ check (runes_of_ascii "packet A {
  match k as n {
    [1, 22, 007, 4, 5, 66, 7, 8, 9, 10] : B,
    2 : C
  },
}")).
Eval vm_compute in ("<<<M1404>>>" ++ check (runes_of_ascii "packet A {
    match k as n {
        [""a"", 22, ""c c"", 4] : B,
        2 : C,
    },
}")).
Eval vm_compute in ("<<<M469>>>" ++ check (runes_of_ascii "packet uint8x
{ match pack
    as msg_type	{
    0123456789 :	float
}
,
} packet")).
Eval vm_compute in ("<<<M835>>>" ++ check (runes_of_ascii "packet A {
  match k as n {
    [1, 22, ""c c"", 4, 5, ""f""] : B
    2 : C
  },
}")).
Eval vm_compute in ("<<<M1249>>>" ++ check (runes_of_ascii "packet Inner {
    u8 a,
}
root packet P {
    Inner ref_obj,
    u8 x,
}
")).
Eval vm_compute in ("<<<M797>>>" ++ check (runes_of_ascii "packet A {
  match k as n {
    [""a"", ""bb"", 007] : B,
    2 : C
  },
}")).
Eval vm_compute in ("<<<M1671>>>" ++ check (runes_of_ascii "root packet P {
    u16 a,
    u32 Sum @calculatedFrom(""CRC32""),
}")).
Eval vm_compute in ("<<<M939>>>" ++ check (runes_of_ascii "MetaData M {
    u8 x `a
    b
  c`,
    T t `a
    b
  c`,
}")).
Eval vm_compute in ("<<<M1097>>>" ++ check (runes_of_ascii "packet A {
    match k as n {
        1 : B,// c
    },
}")).
Eval vm_compute in ("<<<M1197>>>" ++ check (runes_of_ascii "// c
packet body { i32 f32a `{ , }` , } options { }")).
Eval vm_compute in ("<<<M1710>>>" ++ check (runes_of_ascii "  options
{ a
    =

1 // c
	b =2 ; 	 // d
    }
")).
Eval vm_compute in ("<<<M233>>>" ++ check (runes_of_ascii "MetaData _x { i64 u128	, Packet Header, } 	 ")).
Eval vm_compute in ("<<<M1451>>>" ++ check (runes_of_ascii "packet	A  {@tag(	// a
    	1)
u8 x
	,
} ")).
Eval vm_compute in ("<<<M1573>>>" ++ check (runes_of_ascii "// top
packet x {
    // c2
}
// c3")).
Eval vm_compute in ("<<<M766>>>" ++ check (runes_of_ascii "Dr1UAAa-*U|u3S?xE-Vr&9^'H>gI<.E")).
Eval vm_compute in ("<<<M1936>>>" ++ check (runes_of_ascii "

  MetaData 
// c
u
    { } ")).
Eval vm_compute in ("<<<M1080>>>" ++ check (runes_of_ascii "options { a = 1 // a
 ; }")).
Eval vm_compute in ("<<<M1069>>>" ++ check (runes_of_ascii "// a// bpacket A {}")).
Eval vm_compute in ("<<<M1128>>>" ++ check (runes_of_ascii "// c
MetaData u { }")).
Eval vm_compute in ("<<<M1017>>>" ++ check (runes_of_ascii "// c" ++ [8233]%N ++ runes_of_ascii "
packet A {
}")).
Eval vm_compute in ("<<<M994>>>" ++ check (runes_of_ascii "packet A {
}// c" ++ [5760]%N)).
Eval vm_compute in ("<<<M46>>>" ++ check (runes_of_ascii "//x

// a // b
")).
Eval vm_compute in ("<<<M1399>>>" ++ check (runes_of_ascii "
// c" ++ [8192]%N ++ runes_of_ascii "
")).
Eval vm_compute in ("<<<M726>>>" ++ check (runes_of_ascii "
	 ")).
