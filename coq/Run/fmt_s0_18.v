From FP Require Import Lexer Parser ShowPT Digest Formatter.
From Coq Require Import String List NArith.
Import ListNotations.
Open Scope string_scope.
Set Printing Width 100000000.
Set Printing Depth 100000000.
Definition show_fres (r : fres) : string :=
  match r with
  | FOk s => "OK:" ++ sh_escaped s ""
  | FErr s => "ERR:" ++ sh_escaped s ""
  | FPanic p => "PANIC:" ++ p
  end.
Definition check (rs : list rune) : string := digest (show_fres (format_res rs)).
Definition full (rs : list rune) : string := show_fres (format_res rs).
Eval vm_compute in ("<<<M263>>>" ++ check (runes_of_ascii "
packet Z9_ //x
{ @calculatedFrom( ""1"" )
match
body as u8x{ [ 7 ] :
u ,
[7
,00, ""a\""b""
, """" , ""\n"" , 00
] : charz , 1	: // c
Packet
, """ ++ [28040; 24687]%N ++ runes_of_ascii """ :
f32a ,  00 : // trailing space 
len } ,@lengthOf(calculatedFrom )	MetaDataX
    , Packet	@lengthOf(
    int ) , repeat // `tick` ""quote"" 'q'
char[ 7 ]calculatedFrom, @calculatedFrom(""a\\"" ) zchar[ //
255 // " ++ [128512]%N ++ runes_of_ascii " emoji
] f32a @calculatedFrom( """ ++ [233]%N ++ runes_of_ascii "t" ++ [233]%N ++ runes_of_ascii """ ) ,	@calculatedFrom( ""a\""b"" // packet A { u8 x, }
)char[7
    //	t
    ] i8i8 @calculatedFrom(""a\\"") `crlf
line` ,zchar[
    0123456789	]
x `line1
line2`
,@leftPad () repeat
u64 stringy , @lengthOf( x	) repeat
body
{//	t
Z9_ {
repeat asx , repeat crc i64_ // " ++ [27880; 37322]%N ++ runes_of_ascii "
, repeat rootA { repeat rootA MetaDataX `line1
line2`
    // `tick` ""quote"" 'q'
    ,match
i64_ as
calculatedFrom {
    7
:
x[ 7 ] : stringy , ""1"": i8i8 , [
""1"" , 42 ,
// trailing space 
/// triple
""" ++ [233]%N ++ runes_of_ascii "t" ++ [233]%N ++ runes_of_ascii """ , 10 ,
255 , 0 , 10 ]
: u ,
""x y""
:
    i8i8 }
// `tick` ""quote"" 'q'
//x
,uint64 _x `
` ,char[ 0 ] i64_ @calculatedFrom( ""CRC32""
)
    , }, x_y_z {
char[] T
// a // b
// @lengthOf(
,} ,} ,repeat  u64 Foo `a\`,
    uint8
uint8x,
match
//	t
// trailing space 
roots
as chars {1
    : _x ""a\""b"" :uint8x, 42 : metadata // " ++ [128512]%N ++ runes_of_ascii " emoji
, // `tick` ""quote"" 'q'
[// @lengthOf(
""\n"" ,
255]
: zchar
[ """ ++ [233]%N ++ runes_of_ascii "t" ++ [233]%N ++ runes_of_ascii """ ,3
, 4294967296 ,// trailing space 
0123456789 , ""x y"" ] : metadata[ // c
""it's"" , ""// no comment""
]  :Z9_
    , }
,	}
    , } // a // b
MetaData rootA	{ char[ 4294967296 ] msg_type,// @lengthOf(
char[]  u128, uint64 a1 , int8 crc , Pad
    msg_type `doc`
,
}
//	t
/// triple
packet x_y_z
    {@lengthOf( crc) match packetx as f32a	{ 0123456789:A
,	00 :	u // @lengthOf(
}, }
")).
Eval vm_compute in ("<<<M1824>>>" ++ check (runes_of_ascii "// a // b
    	packet

stringy

{ 
string
    zchar ,
repeat
T	,  match	u
as charz { 007
//x
	:
	    //	t
	// @lengthOf(
float	// trailing space 
    ,  ""\" ++ [233]%N ++ runes_of_ascii """ :
    Logon""a	b""
: 
	    //	t

//	t
	pack
    ,  } ,
	match uint8x  as
    // " ++ [27880; 37322]%N ++ runes_of_ascii "
    roots  {	1
// `tick` ""quote"" 'q'
  :
len ,
} 
      //x
  // " ++ [27880; 37322]%N ++ runes_of_ascii "
    ,
	}	packet
    zchar
	{
    roots 
options1
    //x
    `// not a comment`  ,int64
As , i16
float
@lengthOf(falsey 
        // " ++ [27880; 37322]%N ++ runes_of_ascii "

  ) 
`a\`	,
int64 
msg_type `tab	here` ,
@tag(
	0
	// `tick` ""quote"" 'q'
  ) repeat
uint8x

,@lengthOf( x
	) 
repeat metadata,

    zchar[0
]
int,
uint64 zchar ,zchar[
7  // " ++ [27880; 37322]%N ++ runes_of_ascii "
  ]
    msg_type ,
@calculatedFrom( 
        /// triple
	  // " ++ [27880; 37322]%N ++ runes_of_ascii "
  """ ++ [28040; 24687]%N ++ runes_of_ascii """ )  crc
,
}root packet zchar {repeat leftPad
, } 
packet
	A  {  @lengthOf(

    string_
	)

x  @lengthOf( options1 
)`two words` 
,string

    len,
}  packet

    falsey  {

i64_ @calculatedFrom( ""{,}"" 
)
	, repeat string chars 
, 
zchar[ 
7	] calculatedFrom  ,Header{
	char u`two words`,

repeat
    char[]// c

	tag `say ""hi""`

    , Z9_ @lengthOf( 
T	) `line1
line2`
	,
} 
,msg_type @calculatedFrom(
    ""// no comment"" )
,

    @rightPad

(// packet A { u8 x, }
	'\x00' 
) @lengthOf(
	asx

    )falsey

    ,}// packet A { u8 x, }
 
")).
Eval vm_compute in ("<<<M1724>>>" ++ check (runes_of_ascii "
packet pack {@lengthOf(Foo 

// c
    ) asx@lengthOf(
	_x
)  /// triple
  ,
    u8
    x_y_z 
`two words`
,
repeat

    zchar[0

    ] roots
	`
`
    // `tick` ""quote"" 'q'
      ,
    lengthOf@calculatedFrom(

    ""abc""

    )
,	@tag(  3 )

@rightPad
    (

' '

    )

@calculatedFrom( ""1""
//x
    	// " ++ [27880; 37322]%N ++ runes_of_ascii "
)
	repeat
    uint64
	i64_	// trailing space 
`say ""hi""`// @lengthOf(
      ,@tag(
007
    )
    match
	roots 
as
    float

    { 
""a	b""

: lengthOf  , [
    1	, // @lengthOf(
	""\n""  ,""a\""b""	,""\" ++ [233]%N ++ runes_of_ascii """	,

""1"" 
, 
42	] :msg_type	,
""" ++ [128512]%N ++ runes_of_ascii """  : Foo
	}

,T 	 //x
{ match
	Header

as trueish {  [
    // `tick` ""quote"" 'q'
    // @lengthOf(
    0
	, 3  // @lengthOf(

	,	""{,}"" 
, 
""1"" , 00
    , 
0123456789	, 
""// no comment""

]

:  As

,
} ,},
    repeat	char[ 10 ] o

`
` ,

@calculatedFrom( 
    //
  ""`tick`"" 	 //x
      )
    repeat

crc
{repeatCount o  ,u8x
As  ,
},  }

packet  pack
    {

@calculatedFrom(""" ++ [233]%N ++ runes_of_ascii "t" ++ [233]%N ++ runes_of_ascii """  )
    u32
    f32a  ,
} MetaData  float {
u32

    options1
,

}packet
	f32a{ } ")).
Eval vm_compute in ("<<<M1853>>>" ++ check (runes_of_ascii "// top
packet Frame {
    // c2a
    // c2b
    u8 HK,
    // c5
    u8 BK,// c8a
    // c8b
    u8 TK,// c11a
    // c11b
    match HK as Hdr {
        // c16
        1 : HdrA,
        2 : HdrB,
        // c24a
        // c24b
    },
    // c26
    match BK as Body {
        // c31
        1 : BodyA,
        // c35
        2 : BodyB,
    },// c41
    match TK as Trl {
        // c46a
        // c46b
        1 : TrlA,
        // c50a
        // c50b
    },// c52a
    // c52b
}// c53a

// c53b
packet HdrA {
    u8 a,// c59
}// c60

packet HdrB {
    // c63a
    // c63b
    u16 b,// c66
}// c67

packet BodyA {
    // c70a
    // c70b
    u32 c,
}// c74

packet BodyB {
    // c77
    u64 d,// c80a
    // c80b
}// c81a

// c81b
packet TrlA {
    // c84
    u8 e,
    // c87
}// c88a

// c88b
root packet Msg {
    Frame,// c94a
    // c94b
    u8 x,// c97a
    // c97b
}
// c98")).
Eval vm_compute in ("<<<M362>>>" ++ check (runes_of_ascii "MetaData len
{i8 _x
    //	t
    `` , zchar[ 00 ] tag , roots
u
    // `tick` ""quote"" 'q'
    ,uint16 repeatCount , msg_type tag , } packet x_y_z
    {
metadata { i8i8 chars
,i64
chars , }
, repeat u16 asx
// a // b
// a // b
,
}	packet u8x  { @lengthOf( BodyLength	)	@leftPad(
// a // b
//
)float
    /// triple
    `
` ,
@calculatedFrom( ""// no comment"" ) float32 // " ++ [128512]%N ++ runes_of_ascii " emoji
chars`// not a comment` , uint32
u128 , @tag( 0 )
int16	tag , leftPad
    msg_type , // trailing space 
pack
    `tab	here` ,
@lengthOf(
repeatCount
// c
// c
)zchar[ 4294967296 ] len, i32 packetx`tab	here` , calculatedFrom ,metadata @calculatedFrom(
""// no comment"" ) , } options { // trailing space 
options1 = 42 ; i64_
    // a // b
    = char[] falsey=
// packet A { u8 x, }
//	t
42 // a // b
Packet =
true
;}
")).
Eval vm_compute in ("<<<M1358>>>" ++ check (runes_of_ascii "// top
options // c0a
  // c0b
{ // c1a
  // c1b
LittleEndian = false ;
    // c5
StringPrefixLenType =
    // c7
u16 ; // c9
} // c10
packet
    // c11
Heartbeat { // c13
@rightPad // c14
( // c15a
  // c15b
'0' ) // c17a
  // c17b
char[ 7 // c19a
  // c19b
] seqNo // c21a
  // c21b
, // c22a
  // c22b
uint64 // c23a
  // c23b
Tail // c24a
  // c24b
, i16 // c26
Flags // c27a
  // c27b
, u16
    // c29
msgKind // c30
, // c31a
  // c31b
}
    // c32
root // c33a
  // c33b
packet // c34
Reject
    // c35
{ // c36a
  // c36b
zchar[ 3 ] // c39a
  // c39b
tag7 // c40
,
    // c41
repeat // c42
Heartbeat // c43a
  // c43b
, // c44
repeat // c45a
  // c45b
string
    // c46
clOrdID // c47a
  // c47b
, // c48
} // c49
")).
Eval vm_compute in ("<<<M184>>>" ++ check (runes_of_ascii "packet options1{@leftPad	( '0' )	@rightPad ( // a // b
'\x00'
) @tag(
255
) /// triple
repeat string As `
`,
@calculatedFrom(
"""" )@calculatedFrom(//x
""x y"" )
a1
{ Foo {trueish { tag
@lengthOf(  i8i8 ) `doc`
, }
, zchar[
00 ] f32a @lengthOf( calculatedFrom) , repeat
zchar[ 1
    ] stringy`{ , }`
    , },uint64  repeatCount	@lengthOf(// `tick` ""quote"" 'q'
asx
    ) , char[ 42
] lengthOf @calculatedFrom(// c
""packet""), char[ 10 ] calculatedFrom @lengthOf( BodyLength ), } ,
asx`// not a comment`,  } options { matchKey =""" ++ [128512]%N ++ runes_of_ascii """ falsey = ""a\""b"" ; A // a // b
= ""CRC32"" msg_type
    =
    //x
    """ ++ [233]%N ++ runes_of_ascii "t" ++ [233]%N ++ runes_of_ascii """	; } MetaData o//	t
{
} packet
Pad{  }")).
Eval vm_compute in ("<<<M260>>>" ++ check (runes_of_ascii "packet metadata{ @rightPad
    (	) zchar[
//	t
// `tick` ""quote"" 'q'
0123456789] i64_
    // @lengthOf(
    @calculatedFrom( ""\n"" ) , @leftPad (
    ' '// " ++ [27880; 37322]%N ++ runes_of_ascii "
) zchar[ // `tick` ""quote"" 'q'
255
]
    MetaDataX `{ , }`// a // b
, @rightPad (
' ' )@calculatedFrom(""abc"" ) // " ++ [128512]%N ++ runes_of_ascii " emoji
@lengthOf(
matchKey
// `tick` ""quote"" 'q'
// `tick` ""quote"" 'q'
)
repeat char[ 42 ] packetx // packet A { u8 x, }
`" ++ [233]%N ++ runes_of_ascii "` ,  trueish@calculatedFrom( ""packet"" )
`a\` , matchKey int `" ++ [28040; 24687; 31867; 22411]%N ++ runes_of_ascii "` ,	@tag(
    // c
    0
) len{ char[65535 ] Header,
}
,@lengthOf( f32a ) zchar[	10  ]
    trueish `crlf
line` ,  }
")).
Eval vm_compute in ("<<<M1364>>>" ++ check (runes_of_ascii "options {
    StringPrefixLenType = u8;
    ArrayPrefixLenType = u8;
    FixedStringPadFromLeft = false;
    FixedStringPadChar = ' ';
}
packet Ack {
    char[] tag7,
}
packet Reject {
    InSym61 {
        repeat Ack,
        zchar[4] f1,
    },
}
packet Logout {
    char[4] clOrdID,
}
root packet Cancel {
    @leftPad(' ') char[10] price,
    u8 x,
    u32 venue @lengthOf(Body),
    match x as Body {
        [92, 175] : Logout,
        26 : Reject,
        144 : Ack,
    },
    u16 count @calculatedFrom(""CRC32""),
}
")).
Eval vm_compute in ("<<<M193>>>" ++ check (runes_of_ascii "
root packet lengthOf{
    char[ 3 ] Pad ,	@rightPad
    (  '0'
)
    crc `doc` ,i32 //x
uint8x
,	zchar { match Logon  as int { [ 0 , """ ++ [233]%N ++ runes_of_ascii "t" ++ [233]%N ++ runes_of_ascii """] :o , ""// no comment"" :len ,
} , asx
{
    //x
    char[	10 ]
u128 // a // b
@lengthOf(  x_y_z)`say ""hi""`, }
/// triple
//
, char[
1 ] A, u// c
chars
    `` , }, repeat matchKey
{ //x
string trueish@calculatedFrom(
    ""a	b""  )  , repeat
    // packet A { u8 x, }
    i8 msg_type `it's` ,	} , /// triple
}
packet float { }")).
Eval vm_compute in ("<<<M1940>>>" ++ check (runes_of_ascii "// top
MetaData
        // c0
  leftPad 

// c1
    { 
      // c2
  chars
	    // c3
	MetaDataX  
  // c4

, 
    // c5
  } 
    // c6
packet 
    // c7
  repeatCount

// c8
  {
// c9

char[  
      // c10
		255 
      // c11
	] 
  // c12
  uint8x

// c13
		`" ++ [233]%N ++ runes_of_ascii "` 

    // c14

,
    // c15
		}

    // c16
  	MetaData 
// c17
  pack
        // c18

{ 
  // c19
    As
// c20

Foo  
  // c21
, 
// c22

}  
  // c23
")).
Eval vm_compute in ("<<<M303>>>" ++ check (runes_of_ascii "  packet
    tag{ } packet
    //
    packetx { @calculatedFrom( ""x y""
    )@tag(
    42 )
@lengthOf(
    As  ) char a1`two words` ,
    @leftPad
(
    '\x00' )
    @tag(10)
@lengthOf( u)
    char[] falsey // " ++ [128512]%N ++ runes_of_ascii " emoji
,
    // " ++ [27880; 37322]%N ++ runes_of_ascii "
    }//
MetaData
f32a {
    string u128 , roots
    stringy , Header body,
    float options1
    //	t
    `it's`
    ,	i8i8 options1
`" ++ [28040; 24687; 31867; 22411]%N ++ runes_of_ascii "`
    ,
}")).
Eval vm_compute in ("<<<M1645>>>" ++ check (runes_of_ascii "
root
    packet
    Logon 
{
@rightPad
    ( // @lengthOf(

  '0' )
	repeat 
charz  // " ++ [27880; 37322]%N ++ runes_of_ascii "

  { 	 // " ++ [128512]%N ++ runes_of_ascii " emoji

Z9_

    `{ , }`
    ,string string_
`say ""hi""`,

repeat

int8 
rootA
    , match
    Foo as  pack	{  [

    42
    // c
	/// triple
		, 0
    ]
: u,""a\""b""
:

int
	,	}

// c
	// `tick` ""quote"" 'q'
    	,
    }
, 
}
")).
Eval vm_compute in ("<<<M57>>>" ++ check (runes_of_ascii "packet	tag { }
packet falsey
    { string charz @lengthOf(
    zchar ) ,
string // trailing space 
u @calculatedFrom( """ ++ [233]%N ++ runes_of_ascii "t" ++ [233]%N ++ runes_of_ascii """	) `// not a comment`
, @leftPad( '0' )
char[] leftPad @calculatedFrom(
    ""a	b"")`// not a comment` , @calculatedFrom(
    ""`tick`"" )
    @lengthOf(roots
) repeat MetaDataX
, }

")).
Eval vm_compute in ("<<<M94>>>" ++ check (runes_of_ascii "MetaData chars{ uint64	A, msg_type asx
    // c
    , Z9_  a1,
    stringy
    i64_ //
`doc` , }packet
/// triple
// a // b
x_y_z {	} options {
float // c
=float32 rootA= false ;
repeatCount// c
=  char[ 10 ]
; }	packet Z9_{zchar[007 ]
    //	t
    charz // c
,
} //x")).
Eval vm_compute in ("<<<M1306>>>" ++ check (runes_of_ascii "// top
packet // c0a
  // c0b
orderItem // c1a
  // c1b
{ u8 // c3
a // c4
, // c5a
  // c5b
}
    // c6
root packet // c8a
  // c8b
newOrder // c9a
  // c9b
{ orderItem // c11
, u8
    // c13
x // c14a
  // c14b
,
    // c15
} // c16
")).
Eval vm_compute in ("<<<M1585>>>" ++ check (runes_of_ascii "packet A {
    match k as n {
        ""x\
                y"" : B,
        [""x\
                y"", 1] : C,
        [
            1, 2, 3, 4, 5,
            ""x\
                        y""
        ] : D,
    },
}")).
Eval vm_compute in ("<<<M1325>>>" ++ check (runes_of_ascii "
root	packet
	Frame { u8
    K , 
Logon
	first  ,
match

    K 
as
Body{1 : Logon,
    2 :
Logout  ,
	}	,
} 
packet
Logon
	{
string user ,
} packet
Logout

{ u16 
reason , }")).
Eval vm_compute in ("<<<M60>>>" ++ check (runes_of_ascii "root packet _x
{ uint32 trueish @calculatedFrom( ""1"" ) `crlf
line`
,  }
    //
    packet	Header { repeat u64
stringy `// not a comment` , float32  msg_type ,}
")).
Eval vm_compute in ("<<<M537>>>" ++ check (runes_of_ascii "packet uint8x
{ match pack
    as msg_type	{
    0123456789 :	float
}
,
} packet //	t
a1
    { } o'\x01'ptions {packetx
    = '\x00'	; u128= ""a	b""  ; }
")).
Eval vm_compute in ("<<<M436>>>" ++ check (runes_of_ascii "packet uint8x
{ match pack
    as msg_type	{
    0123456789 : :	float
}
,
} packet //	t
a1
    { } options {packetx
    = '\x00'	; u128= ""a	b""  ; }
")).
Eval vm_compute in ("<<<M1706>>>" ++ check (runes_of_ascii "packet Logon {
    metadata @calculatedFrom(""a\\""),
    @tag(42)
    // " ++ [128512]%N ++ runes_of_ascii " emoji
    @tag(65535)
    repeat u16 o `line1
    line2`,
}

packet float {
}")).
Eval vm_compute in ("<<<M522>>>" ++ check (runes_of_ascii "packet uint8x
{ match pack
    as msg_type	{
    0123456789 :	float
}
,
} packet //	t
a1
    { } options {packetx
    = '\x00'	; u128= ;  ""a	b"" }
")).
Eval vm_compute in ("<<<M700>>>" ++ check (runes_of_ascii "// @lengthOf(
packet i8i8 { u128 o , }
options { MetaDataX = true true;
    BodyLength =""packet"" x_y_z= 007
crc //x
= ""abc"" ;
    msg_type =
i16 }")).
Eval vm_compute in ("<<<M696>>>" ++ check (runes_of_ascii "// @lengthOf(
packet i8i8 { u128 o , } }
options { MetaDataX = true;
    BodyLength =""packet"" x_y_z= 007
crc //x
= ""abc"" ;
    msg_type =
i16 }")).
Eval vm_compute in ("<<<M721>>>" ++ check (runes_of_ascii "// @lengthOf(
packet i8i8 { u128 o , }
options { MetaDataX = true;
    BodyLength =""packet"" x_y_z= 007
crc //x
= ""abc"" msg_type
    ; =
i16 }")).
Eval vm_compute in ("<<<M1482>>>" ++ check (runes_of_ascii "
packet	A	{

    match
k	as
    n  {[	""a"" ,  22
	,
    ""c c""  ,
	4

    ,  ""e""
,  66  ,""g"" ,
8 
,	""i""
,	10 ]	:
B
,  2 :
C

} ,  } ")).
Eval vm_compute in ("<<<M1650>>>" ++ check (runes_of_ascii "packet A {
    u8 a,
}

packet B {
    u16 b,
}

root packet P {
    u8 K,
    match K as M {
        1 : A,
        1 : B,
    },
}")).
Eval vm_compute in ("<<<M937>>>" ++ check (runes_of_ascii "packet A {
    u16 len @lengthOf(body) `a
    b
  c`,
    u32 crc @calculatedFrom(""CRC32"") `a
    b
  c`,
    string body,
}")).
Eval vm_compute in ("<<<M1147>>>" ++ check (runes_of_ascii "MetaData leftPad { // c
chars MetaDataX , } packet repeatCount { char[ 255 ] uint8x `" ++ [233]%N ++ runes_of_ascii "` , } MetaData pack { As Foo , }")).
Eval vm_compute in ("<<<M1179>>>" ++ check (runes_of_ascii "MetaData leftPad { chars MetaDataX , } packet repeatCount { char[ 255 ] uint8x `" ++ [233]%N ++ runes_of_ascii "` , } MetaData pack // c
{ As Foo , }")).
Eval vm_compute in ("<<<M1844>>>" ++ check (runes_of_ascii "packet A 
{ 
match
k
    as	n
    {

[

1	,

""bb""

    ,
	007

,
""d""

    , 
5 ]
    :
    B , 2 : C
	}  ,	}

")).
Eval vm_compute in ("<<<M911>>>" ++ check (runes_of_ascii "packet A {
  match k as n {
    [""a"", 22, ""c c"", 4, ""e"", 66, ""g"", 8, ""i"", 10, ""k"", 12] : B
    2 : C
  },
}")).
Eval vm_compute in ("<<<M888>>>" ++ check (runes_of_ascii "packet A {
  match k as n {
    [""a"", ""bb"", 007, ""d"", ""e"", 66, ""g"", ""h"", 9, ""j""] : B,
    2 : C
  },
}")).
Eval vm_compute in ("<<<M656>>>" ++ check (runes_of_ascii "// @lengthOf(
packet i8i8 { u128 o , }
options { MetaDataX = true;
    BodyLength =""packet"" x_y_z")).
Eval vm_compute in ("<<<M389>>>" ++ check (runes_of_ascii "root packet SimpleMessage {
    uint16 MsgType `" ++ [28040; 24687; 31867; 22411]%N ++ runes_of_ascii "`,
    string JsonBody `Json" ++ [23383; 31526; 20018; 28040; 24687; 20307]%N ++ runes_of_ascii "`,
}")).
Eval vm_compute in ("<<<M639>>>" ++ check (runes_of_ascii "
packet
    asx {match u128 as lengthOf
{
//	t
// `tick` ""quote"" 'q'
255 : x ,
    } ,	"" }")).
Eval vm_compute in ("<<<M604>>>" ++ check (runes_of_ascii "
packet
    asx {match u128 as lengthOf
{
//	t
// `tick` ""quote"" 'q'
255 : , x
    } ,	}")).
Eval vm_compute in ("<<<M1458>>>" ++ check (runes_of_ascii "
root	packet
    P { u16	a

,

    u32 Sum @calculatedFrom(

    ""CR\
C32"" 
)
, }
")).
Eval vm_compute in ("<<<M116>>>" ++ check (runes_of_ascii "root packet Z9_ { repeat lengthOf
pack , repeat
    A {	repeatCount`doc` ,
    },	}")).
Eval vm_compute in ("<<<M916>>>" ++ check (runes_of_ascii "packet A { Inner { match k as n { [1,22,007,4,5,66,7,8,9,10,11,12] : B, }, }, }")).
Eval vm_compute in ("<<<M818>>>" ++ check (runes_of_ascii "packet A {
  match k as n {
    [1, ""bb"", 007, ""d"", 5] : B
    2 : C
  },
}")).
Eval vm_compute in ("<<<M1879>>>" ++ check (runes_of_ascii "root
packet

    x {
    roots

@calculatedFrom( ""a\""b"" )
,
    }
")).
Eval vm_compute in ("<<<M787>>>" ++ check (runes_of_ascii "packet A {
  match k as n {
    [1, 22, 007] : B,
    2 : C
  },
}")).
Eval vm_compute in ("<<<M151>>>" ++ check (runes_of_ascii "packet
    stringy
{ } MetaData crc
/// triple
//x
{ u16 o ,}")).
Eval vm_compute in ("<<<M1713>>>" ++ check (runes_of_ascii "options {
    a = ""x\
        y"";
    b = ""x\
        y""
}")).
Eval vm_compute in ("<<<M1220>>>" ++ check (runes_of_ascii "packet body { i32 f32a `{ , }` , } options { }
// c
")).
Eval vm_compute in ("<<<M1520>>>" ++ check (runes_of_ascii "packet body {
    i32 f32a `{ , }`,
}

options {
}")).
Eval vm_compute in ("<<<M921>>>" ++ check (runes_of_ascii "MetaData M {
    u8 x `a
b`,
    T t `a
b`,
}")).
Eval vm_compute in ("<<<M1938>>>" ++ check (runes_of_ascii "root packet A {
    u8 x `a
        b`,
}")).
Eval vm_compute in ("<<<M1407>>>" ++ check (runes_of_ascii "
options

    { 	 // a // b
  }
")).
Eval vm_compute in ("<<<M1932>>>" ++ check (runes_of_ascii "packet A {
    u8 x `d" ++ [11]%N ++ runes_of_ascii "`,// c" ++ [11]%N ++ runes_of_ascii "
}")).
Eval vm_compute in ("<<<M1524>>>" ++ check (runes_of_ascii "root

    packet
chars {
}
")).
Eval vm_compute in ("<<<M217>>>" ++ check (runes_of_ascii "root	packet falsey
{
}
")).
Eval vm_compute in ("<<<M747>>>" ++ check (runes_of_ascii "true int16 u16 { f32a")).
Eval vm_compute in ("<<<M244>>>" ++ check (runes_of_ascii "MetaData u128{} //x")).
Eval vm_compute in ("<<<M1006>>>" ++ check (runes_of_ascii "packet A {
}
// c" ++ [8202]%N)).
Eval vm_compute in ("<<<M974>>>" ++ check (runes_of_ascii "packet A {
}// c ")).
Eval vm_compute in ("<<<M1705>>>" ++ check (runes_of_ascii "packet x {
}// c")).
Eval vm_compute in ("<<<M1804>>>" ++ check (runes_of_ascii "// " ++ [27880; 37322]%N ++ runes_of_ascii "
 
")).
Eval vm_compute in ("<<<M754>>>" ++ check (runes_of_ascii "Y )'")).
