From FP Require Import Lexer Parser ShowPT Digest Formatter.
From Coq Require Import String List NArith.
Import ListNotations.
Open Scope string_scope.
Set Printing Width 100000000.
Set Printing Depth 100000000.
Definition show_fres (r : fres) : string :=
  match r with
  | FOk s => "OK:" ++ sh_escaped s ""
  | FErr s => "ERR:" ++ sh_escaped s ""
  | FPanic p => "PANIC:" ++ p
  end.
Definition check (rs : list rune) : string := digest (show_fres (format_res rs)).
Definition full (rs : list rune) : string := show_fres (format_res rs).
Eval vm_compute in ("<<<M5>>>" ++ check (runes_of_ascii "MetaData  asx {char[] MetaDataX ,
lengthOf Z9_	, crc
    Foo ,char[ 4294967296]
BodyLength , Foo leftPad `doc`, tag // a // b
u128 , } root packet
    stringy { // trailing space 
match Header as
    repeatCount	{ [ ""{,}""] :
Header
/// triple
//
,255 :repeatCount , 00 :pack, 1 : trueish
    , 7
    : A }
    ,
T
    {Z9_
`
` ,
} ,
    int16 o
@calculatedFrom(
""it's""
) `line1
line2`	, match zchar
as As{ ""CRC32"" :	a1, 42: Header [ 10
    //
    ] : zchar // trailing space 
,
    }// " ++ [128512]%N ++ runes_of_ascii " emoji
, @tag( 42 )repeat i64_{
    // c
    char[00 ] _x `{ , }` ,
}
,repeat //x
char[] uint8x
`crlf
line` ,@leftPad
(	'\x00'
    ) @tag( 7 )
    int32
// a // b
// @lengthOf(
repeatCount
    @calculatedFrom(
""x y"" )
`// not a comment` , u32 zchar
    `
` , repeat stringy { i8i8 lengthOf
, } , // packet A { u8 x, }
@calculatedFrom(  ""abc"" ) @lengthOf( tag ) @lengthOf( /// triple
rootA )  char[3	] // c
rootA`" ++ [233]%N ++ runes_of_ascii "` ,// c
}MetaData crc
{
float32
asx `" ++ [233]%N ++ runes_of_ascii "` ,	string i64_// " ++ [128512]%N ++ runes_of_ascii " emoji
,
    }
root packet Packet
    //
    {charz @lengthOf( zchar) ,	f32
    f32a `{ , }` // a // b
, i64 matchKey @lengthOf( leftPad )
    , string trueish, @leftPad (  '0')
    // trailing space 
    tag@lengthOf( // a // b
string_ ) `doc` , match stringy
// @lengthOf(
// @lengthOf(
as calculatedFrom
    { [
0123456789 ]: repeatCount
//	t
//
,} ,// trailing space 
char[
3]
Header ,
int64 MetaDataX
,	@leftPad( ) len { packetx @lengthOf(chars ) `` ,
    }, @rightPad ( '0'
    )  x_y_z
,
} options{ rootA
// packet A { u8 x, }
//x
= '0'
; Foo =char
    ;A
    = zchar[ 0123456789 ]
// " ++ [27880; 37322]%N ++ runes_of_ascii "
//x
;packetx = """ ++ [233]%N ++ runes_of_ascii "t" ++ [233]%N ++ runes_of_ascii """
float = true } //x")).
Eval vm_compute in ("<<<M1528>>>" ++ check (runes_of_ascii "packet _x {
    leftPad `it's`,
    match Logon as matchKey {
        ""packet"" : stringy,
        3 : u,
        //
        ""1"" : Pad,
    },
    float32 Z9_ @lengthOf(i8i8) `" ++ [233]%N ++ runes_of_ascii "`,
    @tag(3)
    match As as Pad {
        """" : chars,
        ""x y"" : i64_,
    },
    @calculatedFrom(""it's"")
    @leftPad(' ')
    zchar[0123456789] falsey,
    match A as packetx {
        [42] : matchKey,
    },
    @leftPad(' ')
    match x as a1 {
        ""packet"" : a1,
        10 : pack,
        ""{,}"" : u8x,
        [007, 00] : trueish,
        ""x y"" : pack,
        """ ++ [233]%N ++ runes_of_ascii "t" ++ [233]%N ++ runes_of_ascii """ : matchKey,
    },
    @leftPad('0')
    uint8x u,
    zchar[3] u ``,
    @rightPad(' ')
    repeat _x ``,
}

MetaData Foo {
    a1 Z9_,
    options1 T,
    u32 u8x `crlf
        line`,
    metadata falsey,
    lengthOf x_y_z,
}

packet calculatedFrom {
    @tag(3)
    string A,
    match leftPad as a1 {
        //	t
        0123456789 : calculatedFrom,
    },
    match crc as body {
        00 : _x,
    },
    o @calculatedFrom(""x y""),
}

packet T {
}

packet Logon {
    @leftPad('\x00')
    As @calculatedFrom(""a	b"") `line1
        line2`,
    pack lengthOf,
}// `tick` ""quote"" 'q'")).
Eval vm_compute in ("<<<M1701>>>" ++ check (runes_of_ascii "root packet crc {
    @lengthOf(As)
    @calculatedFrom(""\" ++ [233]%N ++ runes_of_ascii """)
    zchar[4294967296] MetaDataX `doc`,/// triple
    rootA @calculatedFrom(""it's""),
    @tag(65535)
    @tag(7)
    @tag(00)
    len @lengthOf(A) `two words`,
    // trailing space 
    // " ++ [128512]%N ++ runes_of_ascii " emoji
    string rootA @lengthOf(pack),
    // " ++ [128512]%N ++ runes_of_ascii " emoji
    // trailing space 
    repeat zchar,
    @calculatedFrom(""abc"")
    @leftPad('\x00')
    @rightPad()
    match x_y_z as Z9_ {
        ""it's"" : Logon,
        ""x y"" : Packet,
        ""abc"" : trueish,
        4294967296 : repeatCount,
        """ ++ [128512]%N ++ runes_of_ascii """ : x_y_z,
    },
    char[10] stringy `it's`,
    @leftPad('\x00')
    rootA @lengthOf(i64_),
}

MetaData falsey {
    Packet repeatCount `tab	here`,
}

MetaData string_ {
    float64 roots `line1
        line2`,
    char As `
        `,
    zchar[65535] falsey `a\`,
    A T,
    _x metadata,
}

packet _x {
    zchar[255] string_ @lengthOf(u128) `{ , }`,
}

root packet Packet {
    repeat lengthOf,
}")).
Eval vm_compute in ("<<<M1640>>>" ++ check (runes_of_ascii "options {
    string_ = false;
    falsey = char[4294967296];
}

packet zchar {
    match float as len {
        [""" ++ [233]%N ++ runes_of_ascii "t" ++ [233]%N ++ runes_of_ascii """] : matchKey,
        3 : u,
        [4294967296, ""1""] : zchar,
    },
}

MetaData T {
}

packet packetx {
    uint16 uint8x @calculatedFrom(""it's""),
    stringy {
        i16 crc `{ , }`,
    },
    zchar[00] x,
    zchar {
        uint64 tag,
        zchar f32a `say ""hi""`,
        uint32 A `{ , }`,
        match _x as falsey {
            [007, """ ++ [128512]%N ++ runes_of_ascii """] : matchKey,
            // " ++ [128512]%N ++ runes_of_ascii " emoji
            [0123456789, 3] : T,
            // " ++ [128512]%N ++ runes_of_ascii " emoji
            // `tick` ""quote"" 'q'
            1 : Foo,
        },// trailing space 
    },
    A,
    zchar[4294967296] string_ @lengthOf(float),
    match rootA as As {
        [
            255, 0123456789, ""it's"", """ ++ [233]%N ++ runes_of_ascii "t" ++ [233]%N ++ runes_of_ascii """, ""{,}"",
            ""abc"", """ ++ [233]%N ++ runes_of_ascii "t" ++ [233]%N ++ runes_of_ascii """
        ] : int,
        4294967296 : tag,
    },
}")).
Eval vm_compute in ("<<<M209>>>" ++ check (runes_of_ascii "packet calculatedFrom { // a // b
string charz
`two words`
//	t
//x
, } packet stringy {
@lengthOf(msg_type
)	crc
    // " ++ [128512]%N ++ runes_of_ascii " emoji
    , @leftPad
(	'0')crc @lengthOf(
u128 //	t
) ,@leftPad(
    ' '
)match
x_y_z as
rootA { [// @lengthOf(
3 ,255 ] : int
    ""1"": o ,// a // b
10:tag
, // c
10// " ++ [128512]%N ++ runes_of_ascii " emoji
: Header
    ,3 :
a1,""" ++ [128512]%N ++ runes_of_ascii """ :
packetx
    , }
// packet A { u8 x, }
// packet A { u8 x, }
, match
// " ++ [27880; 37322]%N ++ runes_of_ascii "
// a // b
o as x//x
{  ""a	b"" : u8x ,} ,  @rightPad () repeat
u packetx
,
    T // " ++ [27880; 37322]%N ++ runes_of_ascii "
,repeat
Logon ,	T{repeat
x_y_z , // a // b
i8 crc
`two words` ,
char[] calculatedFrom
    @calculatedFrom(""x y""
) , } , roots calculatedFrom,
@lengthOf(
asx)  repeat x_y_z{ T
matchKey, } , }
options { float
=char[1 ]
    ;
    msg_type // c
=i8 x =
//
// `tick` ""quote"" 'q'
zchar[ 7] ; f32a =""\n""}
")).
Eval vm_compute in ("<<<M93>>>" ++ check (runes_of_ascii "packet float { char[]
    u8x
@lengthOf( roots ) ,
}MetaData leftPad	{ string
    // `tick` ""quote"" 'q'
    a1, }root
packet // " ++ [27880; 37322]%N ++ runes_of_ascii "
pack { falsey,
    /// triple
    match Logon
as // " ++ [128512]%N ++ runes_of_ascii " emoji
trueish
{""packet""
    : Foo ,"""" : len, 0123456789: i64_ , ""it's"" : packetx
    ,
    255
    : len
, }
    , repeat
As As `" ++ [233]%N ++ runes_of_ascii "` , @tag( 3  ) uint32 a1
, repeat  zchar[ 4294967296]
pack	,@leftPad (' ' )  zchar  @lengthOf( string_ ) `// not a comment` , repeat int ,
repeat
i8i8 // " ++ [27880; 37322]%N ++ runes_of_ascii "
{ u64
    // a // b
    tag `say ""hi""`	,u8x , char trueish  , repeat // packet A { u8 x, }
float32
    stringy `line1
line2` ,} ,match o
as	o { 007  : float },
// packet A { u8 x, }
// c
repeat
    Pad ,
// " ++ [27880; 37322]%N ++ runes_of_ascii "
// trailing space 
}")).
Eval vm_compute in ("<<<M1662>>>" ++ check (runes_of_ascii "options {
}

packet u8x {
    string uint8x @calculatedFrom(""{,}"") `crlf
    line`,
}

MetaData falsey {
    Logon packetx `tab	here`,
}

root packet o {
    falsey @calculatedFrom(""" ++ [28040; 24687]%N ++ runes_of_ascii """),
    @tag(0123456789)
    // `tick` ""quote"" 'q'
    char[0123456789] u128 @calculatedFrom(""{,}""),
    @tag(00)
    @lengthOf(stringy)
    @tag(4294967296)
    rootA Header,
    @lengthOf(As)
    repeat leftPad `// not a comment`,
    i8 leftPad @calculatedFrom(""""),
    @tag(10)
    zchar[007] packetx @lengthOf(u8x) `" ++ [28040; 24687; 31867; 22411]%N ++ runes_of_ascii "`,
}

packet options1 {
    //	t
    // trailing space 
    falsey {
        //	t
        zchar[3] roots,
        u32 Header,
    },// a // b
}")).
Eval vm_compute in ("<<<M1114>>>" ++ check (runes_of_ascii "// top
packet
    // c0
float
    // c1
{
    // c2
@rightPad
    // c3
(
    // c4
)
    // c5
rootA
    // c6
@lengthOf(
    // c7
trueish
    // c8
)
    // c9
,
    // c10
stringy
    // c11
@lengthOf(
    // c12
matchKey
    // c13
)
    // c14
,
    // c15
char[
    // c16
4294967296
    // c17
]
    // c18
pack
    // c19
@lengthOf(
    // c20
uint8x
    // c21
)
    // c22
,
    // c23
}
    // c24
root
    // c25
packet
    // c26
trueish
    // c27
{
    // c28
repeat
    // c29
uint64
    // c30
u128
    // c31
`line1
line2`
    // c32
,
    // c33
}
    // c34
")).
Eval vm_compute in ("<<<M1358>>>" ++ check (runes_of_ascii "options {
    StringPrefixLenType = u8;
    ArrayPrefixLenType = u8;
    FixedStringPadFromLeft = false;
    FixedStringPadChar = ' ';
}
packet Ack {
    char[] tag7,
}
packet Reject {
    InSym61 {
        repeat Ack,
        zchar[4] f1,
    },
}
packet Logout {
    char[4] clOrdID,
}
root packet Cancel {
    @leftPad(' ') char[10] price,
    u8 x,
    u32 venue @lengthOf(Body),
    match x as Body {
        [92, 175] : Logout,
        26 : Reject,
        144 : Ack,
    },
    u16 count @calculatedFrom(""CR\
C32""),
}
")).
Eval vm_compute in ("<<<M1524>>>" ++ check (runes_of_ascii "  // top
  MetaData
    // c0
    uint8x 
// c1
    {
// c2
char[] 
// c3
  	f32a
    // c4
  `// not a comment` 
    // c5
  ,
	// c6
	float32 
// c7

roots 
// c8
    ,
    // c9
  char[ 
// c10
	7
	// c11
  ] 
    // c12
u8x
// c13
  ,
    // c14
    zchar[
	// c15
  10 
// c16

  ] 
    // c17
    f32a 
        // c18

,  
      // c19

	u64
// c20
	pack
// c21
	, 
// c22
    u16 
// c23
pack
    // c24
      , 
      // c25
  } 
// c26
 
")).
Eval vm_compute in ("<<<M0>>>" ++ check (runes_of_ascii "packet leftPad// trailing space 
{@tag( 10 )
    @tag( 007 ) @lengthOf(	a1 )
// a // b
//
repeat metadata
    ,
} // " ++ [128512]%N ++ runes_of_ascii " emoji
options
    // @lengthOf(
    { lengthOf
= """ ++ [128512]%N ++ runes_of_ascii """	;
}  packet T
    // " ++ [27880; 37322]%N ++ runes_of_ascii "
    { A
{
//
// `tick` ""quote"" 'q'
tag@calculatedFrom(""abc"")
, }
    , @lengthOf( matchKey
    ) string	Header @lengthOf( metadata
) ,leftPad
    // trailing space 
    @calculatedFrom(
""a\""b"" )`crlf
line`,}
")).
Eval vm_compute in ("<<<M1823>>>" ++ check (runes_of_ascii "packet a1 {
    @calculatedFrom(""`tick`"")
    uint32 charz `crlf
        line`,
    // c
    //x
    a1 `tab	here`,
}

options {
    // " ++ [27880; 37322]%N ++ runes_of_ascii "
    // " ++ [128512]%N ++ runes_of_ascii " emoji
    stringy = 255;
    metadata = 4294967296
    pack = string;
    crc = string;
}

root packet crc {
    @tag(42)
    @calculatedFrom(""abc"")
    @rightPad('0')
    u128 u8x,
    @lengthOf(len)
    uint16 int,
}")).
Eval vm_compute in ("<<<M1696>>>" ++ check (runes_of_ascii "
packet

Foo // " ++ [128512]%N ++ runes_of_ascii " emoji
	{
@lengthOf( f32a 
)
char[ 
0123456789	//	t
  ] float 
`u8 x,`

, } packet	// a // b
i64_ 
{

@lengthOf(

    stringy 	 // packet A { u8 x, }
    	) 
char[]int
@calculatedFrom(
""{,}"")
    ,@tag(
007
)  //
      int64

    stringy `" ++ [233]%N ++ runes_of_ascii "` ,char[] A	@calculatedFrom(""\" ++ [233]%N ++ runes_of_ascii """

)
	`doc`
	, // " ++ [27880; 37322]%N ++ runes_of_ascii "

  }
")).
Eval vm_compute in ("<<<M370>>>" ++ check (runes_of_ascii "  root packet trueish // " ++ [128512]%N ++ runes_of_ascii " emoji
{ char[] MetaDataX , @leftPad (
    // trailing space 
    '0' )match float as
//x
// trailing space 
crc { 0123456789 :// " ++ [27880; 37322]%N ++ runes_of_ascii "
chars	, ""{,}"" : i8i8,
}
, f32a
    // " ++ [128512]%N ++ runes_of_ascii " emoji
    f32a `tab	here` ,// " ++ [128512]%N ++ runes_of_ascii " emoji
@lengthOf( Foo )
    Packet@calculatedFrom( """ ++ [28040; 24687]%N ++ runes_of_ascii """ ) `it's` , }
")).
Eval vm_compute in ("<<<M1856>>>" ++ check (runes_of_ascii "packet MDSnapshotZZ {
    u8 a,
}

packet OrderACK {
    u16 b,
}

packet HTTPServerInfo {
    string s,
}

root packet FIXMsg {
    u8 KType,
    MDSnapshotZZ,
    repeat OrderACK,
    match KType as Body {
        1 : HTTPServerInfo,
        2 : OrderACK,
    },
}")).
Eval vm_compute in ("<<<M1690>>>" ++ check (runes_of_ascii "packet _x {	repeat
char[] matchKey	// " ++ [128512]%N ++ runes_of_ascii " emoji

,
@leftPad ()

x_y_z /// triple
    T
,

Pad{
zchar[	1] rootA 
`tab	here` 
,},  Foo 
@calculatedFrom( """"
    // trailing space 
  )

,}  packet	MetaDataX
    {float64

    body
, }

")).
Eval vm_compute in ("<<<M1880>>>" ++ check (runes_of_ascii "packet f32a {
    @rightPad('0')
    @lengthOf(BodyLength)
    uint8 Foo ``,
    //x
    char[] options1 @calculatedFrom(""it's""),
    @tag(255)
    uint64 Header @calculatedFrom(""abc"") `
        `,
}")).
Eval vm_compute in ("<<<M1733>>>" ++ check (runes_of_ascii "packet
	A { match

    k

    as n { [

    ""a"" ,  ""bb""	,

007 ,
""d""  , ""e""  , 66 ,
""g""  ,
""h""  ,  9

,
""j""

    ,

    ""k""
, 12 ]
    :B

    , 2
:
C
	}
, }
")).
Eval vm_compute in ("<<<M224>>>" ++ check (runes_of_ascii "root packet
T
{ zchar[ // a // b
0123456789
] // c
uint8x , }  root packet metadata { @rightPad( )  x_y_z @lengthOf( stringy )
// `tick` ""quote"" 'q'
// c
, }")).
Eval vm_compute in ("<<<M55>>>" ++ check (runes_of_ascii "MetaData x_y_z
//x
//x
{ int32
    o
,zchar[
65535  ]Packet , i64_ o , i64 o`
` , } options
{ x =
//x
/// triple
u8;
// " ++ [27880; 37322]%N ++ runes_of_ascii "
// a // b
} // trailing space ")).
Eval vm_compute in ("<<<M526>>>" ++ check (runes_of_ascii "packet uint8x
{ match pack
    as msg_type	{
    0123456789 :	float
}
,
} packet //	t
a1
    { } options {packetx
    = '\x00'	; u128= ""a	b""  ; ; }
")).
Eval vm_compute in ("<<<M427>>>" ++ check (runes_of_ascii "packet uint8x
{ match pack
    as msg_type	0123456789
    { :	float
}
,
} packet //	t
a1
    { } options {packetx
    = '\x00'	; u128= ""a	b""  ; }
")).
Eval vm_compute in ("<<<M445>>>" ++ check (runes_of_ascii "packet uint8x
{ match pack
    as msg_type	{
    0123456789 :	float

,
} packet //	t
a1
    { } options {packetx
    = '\x00'	; u128= ""a	b""  ; }
")).
Eval vm_compute in ("<<<M410>>>" ++ check (runes_of_ascii "packet uint8x
{ match 
    as msg_type	{
    0123456789 :	float
}
,
} packet //	t
a1
    { } options {packetx
    = '\x00'	; u128= ""a	b""  ; }
")).
Eval vm_compute in ("<<<M664>>>" ++ check (runes_of_ascii "// @lengthOf(
packet i8i8 { u128 o , }
options { MetaDataX = true;
    BodyLength =""packet"" packet= 007
crc //x
= ""abc"" ;
    msg_type =
i16 }")).
Eval vm_compute in ("<<<M663>>>" ++ check (runes_of_ascii "// @lengthOf(
packet i8i8 { u128 o , }
options { MetaDataX = true;
    BodyLength =""packet"" x_y_z= 007
crc //x
= ""abc"" ;
    msg_type =
i16 ")).
Eval vm_compute in ("<<<M519>>>" ++ check (runes_of_ascii "packet uint8x
{ match pack
    as msg_type	{
    0123456789 :	float
}
,
} packet //	t
a1
    { } options {packetx
    = '\x00'	; u128")).
Eval vm_compute in ("<<<M1746>>>" ++ check (runes_of_ascii "
packet

    A { u16 len@lengthOf(
body
) `a
    b
  c`

, u32
crc @calculatedFrom( ""CRC32"" )	`a
    b
  c` 
,string

body

,}

")).
Eval vm_compute in ("<<<M34>>>" ++ check (runes_of_ascii "options {
Logon = 0 } options { msg_type = 3
    MetaDataX =
    // " ++ [128512]%N ++ runes_of_ascii " emoji
    int8
    uint8x=""""
    ;
    As = '0' }")).
Eval vm_compute in ("<<<M1165>>>" ++ check (runes_of_ascii "MetaData leftPad { chars MetaDataX , } packet repeatCount { char[ 255 // c
] uint8x `" ++ [233]%N ++ runes_of_ascii "` , } MetaData pack { As Foo , }")).
Eval vm_compute in ("<<<M907>>>" ++ check (runes_of_ascii "packet A {
  match k as n {
    [""a"", ""bb"", ""c c"", ""d"", ""e"", ""f"", ""g"", ""h"", ""i"", ""j"", ""k"", ""l""] : B
    2 : C
  },
}")).
Eval vm_compute in ("<<<M315>>>" ++ check (runes_of_ascii "packet Foo{ tag roots ,
    // `tick` ""quote"" 'q'
    i64_, @calculatedFrom( ""packet"" ) uint32 MetaDataX
, }
")).
Eval vm_compute in ("<<<M931>>>" ++ check (runes_of_ascii "packet A {
    u16 len @lengthOf(body) `
`,
    u32 crc @calculatedFrom(""CRC32"") `
`,
    string body,
}")).
Eval vm_compute in ("<<<M884>>>" ++ check (runes_of_ascii "packet A {
  match k as n {
    [""a"", 22, ""c c"", 4, ""e"", 66, ""g"", 8, ""i"", 10] : B,
    2 : C
  },
}")).
Eval vm_compute in ("<<<M1>>>" ++ check (runes_of_ascii "MetaData  crc {  Pad T
, zchar[
    0123456789
    ] a1 ,int8 trueish// c
, } packet float{ }
")).
Eval vm_compute in ("<<<M841>>>" ++ check (runes_of_ascii "packet A {
  match k as n {
    [""a"", ""bb"", ""c c"", ""d"", ""e"", ""f"", ""g""] : B,
    2 : C
  },
}")).
Eval vm_compute in ("<<<M644>>>" ++ check (runes_of_ascii "
packet
    asx {match u128 as lengthOf
{
//	t
// `tick` ""quote"" 'q'
255 : x" ++ [178]%N ++ runes_of_ascii " ,
    } ,	}")).
Eval vm_compute in ("<<<M607>>>" ++ check (runes_of_ascii "
packet
    asx {match u128 as lengthOf
{
//	t
// `tick` ""quote"" 'q'
255 : x 
    } ,	}")).
Eval vm_compute in ("<<<M865>>>" ++ check (runes_of_ascii "packet A {
  match k as n {
    [1, 22, 007, 4, 5, 66, 7, 8, 9] : B,
    2 : C
  },
}")).
Eval vm_compute in ("<<<M1482>>>" ++ check (runes_of_ascii "  packet roots{
    }MetaData

metadata
    {
	asx 
matchKey,uint64
rootA
    ,

}")).
Eval vm_compute in ("<<<M1251>>>" ++ check (runes_of_ascii "packet
Inner
	{u8	a 
,
} root
	packet 
P
{ Inner	ref_obj,  u8	x
,

    }

")).
Eval vm_compute in ("<<<M1483>>>" ++ check (runes_of_ascii "

  packet
    A
    {match k

    as
n	{[
""a""
	]	: 
B
	,
2 
:	C  } ,	}
")).
Eval vm_compute in ("<<<M42>>>" ++ check (runes_of_ascii "
packet roots
    { len leftPad `// not a comment`	,} packet packetx{}")).
Eval vm_compute in ("<<<M1438>>>" ++ check (runes_of_ascii "root packet P {
    u16 a,
    u32 Sum @calculatedFrom(""CRC32""),
}")).
Eval vm_compute in ("<<<M2>>>" ++ check (runes_of_ascii "root
// trailing space 
// " ++ [27880; 37322]%N ++ runes_of_ascii "
packet
u{  } // trailing space ")).
Eval vm_compute in ("<<<M930>>>" ++ check (runes_of_ascii "packet A {
    B b `
`,
    B `
`,
    repeat B bs `
`,
}")).
Eval vm_compute in ("<<<M1199>>>" ++ check (runes_of_ascii "packet // c
body { i32 f32a `{ , }` , } options { }")).
Eval vm_compute in ("<<<M654>>>" ++ check (runes_of_ascii "// @lengthOf(
packet i8i8 { u128 o , }
options {")).
Eval vm_compute in ("<<<M212>>>" ++ check (runes_of_ascii "packet
    MetaDataX {i16 u128`" ++ [233]%N ++ runes_of_ascii "` , //x
}")).
Eval vm_compute in ("<<<M325>>>" ++ check (runes_of_ascii "packet charz { } // packet A { u8 x, }")).
Eval vm_compute in ("<<<M1916>>>" ++ check (runes_of_ascii "packet

A{ u8

x `d `
,	// c 

	}
")).
Eval vm_compute in ("<<<M988>>>" ++ check (runes_of_ascii "packet A {
 u8 x `d" ++ [160]%N ++ runes_of_ascii "`, // c" ++ [160]%N ++ runes_of_ascii "
}")).
Eval vm_compute in ("<<<M655>>>" ++ check (runes_of_ascii "// @lengthOf(
packet i8i8 {")).
Eval vm_compute in ("<<<M286>>>" ++ check (runes_of_ascii " // `tick` ""quote"" 'q'")).
Eval vm_compute in ("<<<M20>>>" ++ check (runes_of_ascii "packet MetaDataX { }")).
Eval vm_compute in ("<<<M981>>>" ++ check (runes_of_ascii "packet A {
}
// c" ++ [12288]%N)).
Eval vm_compute in ("<<<M1074>>>" ++ check (runes_of_ascii "MetaData M {
}// c")).
Eval vm_compute in ("<<<M1228>>>" ++ check (runes_of_ascii "packet x // c
{ }")).
Eval vm_compute in ("<<<M1738>>>" ++ check (runes_of_ascii "packet As {
}")).
Eval vm_compute in ("<<<M1015>>>" ++ check (runes_of_ascii "// c" ++ [8233]%N)).
Eval vm_compute in ("<<<M735>>>" ++ check ([0]%N)).
