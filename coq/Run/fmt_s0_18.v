From FP Require Import Lexer Parser ShowPT Digest Formatter.
From Coq Require Import String List NArith.
Import ListNotations.
Open Scope string_scope.
Set Printing Width 100000000.
Set Printing Depth 100000000.
Definition show_fres (r : fres) : string :=
  match r with
  | FOk s => "OK:" ++ sh_escaped s ""
  | FErr s => "ERR:" ++ sh_escaped s ""
  | FPanic p => "PANIC:" ++ p
  end.
Definition check (rs : list rune) : string := digest (show_fres (format_res rs)).
Definition full (rs : list rune) : string := show_fres (format_res rs).
Eval vm_compute in ("<<<M314>>>" ++ check (runes_of_ascii "// c
packet
uint8x
{ @tag(
65535
    ) x_y_z ,
char[]  a1@calculatedFrom(
""`tick`"")
, @tag(1 )
    @tag(
    1 )
    @tag(4294967296 )
    repeat string rootA `tab	here` , repeat i32 tag , } packet pack { @calculatedFrom( ""// no comment"")@lengthOf(
uint8x )string zchar @calculatedFrom(""`tick`"" ) ,
    }
root packet tag {// trailing space 
@tag( 42/// triple
) @lengthOf(As)  @leftPad
    ( '0' )
match u128
as float { [00]:
charz ,},
} packet chars {
    @leftPad ( '\x00') char[	10	] len
@calculatedFrom( ""a	b"" )
    ,@tag( 00 )@tag(
    10)uint64 matchKey ,x_y_z
{ repeat // packet A { u8 x, }
string rootA	`doc` , tag // packet A { u8 x, }
, repeat char
//x
//	t
MetaDataX , int64
    asx
    // 50% %s
    ,
    } ,// trailing space 
i16
stringy  ,match x_y_z as BodyLength //x
{
    [""\" ++ [233]%N ++ runes_of_ascii """ ,
""" ++ [28040; 24687]%N ++ runes_of_ascii """
, 7, 0
, 7, 4294967296 ]: A , // " ++ [128512]%N ++ runes_of_ascii " emoji
}
, @calculatedFrom(""\n""
)
@leftPad
    //
    ( )f64 msg_type
, repeat Logon`say ""hi""`  , @tag( 007 ) match
    crc as
    msg_type	{ [""a\\""
,0123456789 , ""`tick`""
, """ ++ [233]%N ++ runes_of_ascii "t" ++ [233]%N ++ runes_of_ascii """  ,
//
// trailing space 
""{,}"" , // a // b
255,	0123456789
    //
    ]: // packet A { u8 x, }
Header 0123456789 : len // c
,65535
:BodyLength,
""CRC32""
:string_// " ++ [128512]%N ++ runes_of_ascii " emoji
,
4294967296 : len
    , """ ++ [28040; 24687]%N ++ runes_of_ascii """  : trueish},repeat string
    u ,	lengthOf Z9_ `{ , }`,} // 50% %s
packet
    trueish
{  f32 Logon @calculatedFrom(
    ""1"" ) , i64 matchKey
    @calculatedFrom( ""x y""// a // b
) //x
`" ++ [28040; 24687; 31867; 22411]%N ++ runes_of_ascii "` , i8i8 `it's`
    , msg_type
, uint8 lengthOf ,int trueish, char[ 0123456789
]
uint8x , i8 int @lengthOf( msg_type ) `say ""hi""` ,@rightPad	( )  repeat f64
    Z9_ , metadata{
    falsey @calculatedFrom(  ""abc"" ) ,	} //
, }")).
Eval vm_compute in ("<<<M1827>>>" ++ check (runes_of_ascii "
options
{

    StringPrefixLenType =u16 
;ArrayPrefixLenType
    = u16
;
} packet SampleBinary
{ uint16
	MsgType
`" ++ [28040; 24687; 31867; 22411]%N ++ runes_of_ascii "` ,

u16
BodyLenght
@lengthOf(
Body  ) `" ++ [28040; 24687; 20307; 38271; 24230]%N ++ runes_of_ascii "` , 
match
MsgType
as
    Body 
{ 1:
Logon
, 2
:
    Logout

    ,

3:

Heartbeat ,	4  :
	RiskControlRequest, 5 : RiskControlResponse
, }

, @calculatedFrom( 
""CRC32"" ) u32  Ckecksum
    `" ++ [26657; 39564; 21644]%N ++ runes_of_ascii "` , 
}
    packet
Logon	{	@leftPad

(

'0' )char[10
] 
UserName `" ++ [29992; 25143; 21517]%N ++ runes_of_ascii "`,

string Password
`" ++ [23494; 30721]%N ++ runes_of_ascii "`
	,	uint64 ClientId 
`" ++ [23458; 25143; 31471]%N ++ runes_of_ascii "ID`

    ,u16

    HeartbeatInterval  `" ++ [24515; 36339; 38388; 38548]%N ++ runes_of_ascii "`
,
} packet
Logout { @rightPad
('0'
    )
    char[
	10  ]UserName	`" ++ [29992; 25143; 21517]%N ++ runes_of_ascii "` 
,
uint64

    ClientId`" ++ [23458; 25143; 31471]%N ++ runes_of_ascii "ID`  ,  } packet Heartbeat {} packet	RiskControlRequest
{
string UniqueOrderId`" ++ [21807; 19968; 35746; 21333; 21495]%N ++ runes_of_ascii "`
    ,

    char[
16 ]ClOrdID
    `" ++ [23458; 25143; 35746; 21333; 21495]%N ++ runes_of_ascii "` ,

char[ 3
	]
MarketID `" ++ [24066; 22330]%N ++ runes_of_ascii "id`, 
char[
12
]  SecurityID
`" ++ [35777; 21048; 20195; 30721]%N ++ runes_of_ascii "` , char

    Side
`" ++ [20080; 21334; 26041; 21521]%N ++ runes_of_ascii "`
	, char

OrderType
    `" ++ [35746; 21333; 31867; 22411]%N ++ runes_of_ascii "`

, u64
    Price	`" ++ [20215; 26684]%N ++ runes_of_ascii "`, u32

Qty `" ++ [25968; 37327]%N ++ runes_of_ascii "`  ,	repeat 
string

    ExtraInfo
`" ++ [38468; 21152; 20449; 24687]%N ++ runes_of_ascii "`  , repeat 
SubOrder {
char[ 16	]
ClOrdID

    `" ++ [23376; 35746; 21333; 21495]%N ++ runes_of_ascii "`
	, 
u64

Price	`" ++ [23376; 35746; 21333; 20215; 26684]%N ++ runes_of_ascii "`,u32

Qty

`" ++ [23376; 35746; 21333; 25968; 37327]%N ++ runes_of_ascii "` ,
} , }

packet	RiskControlResponse{

string
UniqueOrderId

`" ++ [21807; 19968; 35746; 21333; 21495]%N ++ runes_of_ascii "`

, i32
Status `" ++ [29366; 24577]%N ++ runes_of_ascii "` , string
Msg`" ++ [32467; 26524; 20449; 24687]%N ++ runes_of_ascii "`

    ,

repeat 
Detail  , 
}

packet

Detail

{
	string
RuleName 
`" ++ [35268; 21017; 21517; 31216]%N ++ runes_of_ascii "`

    ,	u16
Code	`" ++ [21407; 22240; 20195; 30721]%N ++ runes_of_ascii "` 
,
}
")).
Eval vm_compute in ("<<<M1385>>>" ++ check (runes_of_ascii "// top
options // c0
{ LittleEndian
    // c2
= false ; // c5
StringPrefixLenType
    // c6
= // c7a
  // c7b
u16 // c8
;
    // c9
FixedStringPadFromLeft // c10
= // c11a
  // c11b
true // c12a
  // c12b
; // c13
FixedStringPadChar
    // c14
= // c15
'0' ; }
    // c18
packet // c19
Fill
    // c20
{ // c21a
  // c21b
} // c22
root
    // c23
packet // c24a
  // c24b
Order
    // c25
{ repeat // c27
Fill // c28a
  // c28b
, char[]
    // c30
clOrdID // c31a
  // c31b
, // c32
@rightPad // c33
(
    // c34
'\x00' // c35a
  // c35b
) char[ 4 // c38a
  // c38b
] lastPx
    // c40
, // c41a
  // c41b
char[] // c42
OrderId
    // c43
, // c44a
  // c44b
int8 tag7
    // c46
, // c47
u8 f1 ,
    // c50
u16 count // c52
@lengthOf( // c53a
  // c53b
Body ) // c55
, // c56a
  // c56b
match f1 as Body // c60
{ // c61a
  // c61b
[ 159 , 49
    // c65
] : // c67a
  // c67b
Fill
    // c68
,
    // c69
} , // c71
u16
    // c72
Tail
    // c73
@calculatedFrom( // c74a
  // c74b
""CRC32""
    // c75
) ,
    // c77
} // c78a
  // c78b
")).
Eval vm_compute in ("<<<M104>>>" ++ check (runes_of_ascii "MetaData Z9_{ string roots
, repeatCount packetx`say ""hi""`, }
//
// packet A { u8 x, }
packet float
{  repeat
char[]	metadata ,
zchar[ 00 ] leftPad @calculatedFrom(""" ++ [233]%N ++ runes_of_ascii "t" ++ [233]%N ++ runes_of_ascii """ )
`" ++ [233]%N ++ runes_of_ascii "`,string T
    @lengthOf( Pad)
`doc`
, match f32a as
    crc { ""x y"" :Foo
, // @lengthOf(
0: _x [ ""1"" ]
    :
// a // b
// packet A { u8 x, }
As [ 255 , 1 ,"""" ,	""1"", ""abc"" , """ ++ [233]%N ++ runes_of_ascii "t" ++ [233]%N ++ runes_of_ascii """	,
    10 ] :  leftPad	,// @lengthOf(
""{,}"" :
    a1  4294967296  :	body ,
    //
    } , lengthOf
@calculatedFrom(
    ""\" ++ [233]%N ++ runes_of_ascii """)
    , // packet A { u8 x, }
@calculatedFrom( ""`tick`""
    ) @lengthOf(
u
)  @leftPad (
    '0'
) match o as BodyLength  { [
    3
,
    1 ,""a\\"" ,""`tick`"" ,// @lengthOf(
1, 1 ]: asx , [ ""a	b""
, 255 ,
3
    , ""abc""
    ,65535 ] :
    asx ,
10
:Z9_
, [
10, //
""CRC32"", 7
] : roots
, } ,
    // 50% %s
    u16 a1 ,  @tag( 00) uint32	MetaDataX
`u8 x,` , @leftPad( '\x00')
    @rightPad //x
(
    )
    i64
calculatedFrom
,	}
")).
Eval vm_compute in ("<<<M1858>>>" ++ check (runes_of_ascii "options {
    ArrayPrefixLenType = u32;
    FixedStringPadFromLeft = false;
    FixedStringPadChar = '0';
}

packet Trade {
    repeat InVenue78 {
        u16 tag7,
        repeat InLastpx9 {
            u8 pad0,
        },
        int64 Tail,
        repeat InQty37 {
            char[2] OrderId,
            zchar[6] lastPx,
            int64 Qty,
        },
        uint8 Side2,
    },
}

packet Logon {
    repeat string venue,
    @rightPad('\x00')
    char[3] sym,
    zchar[9] count,
    zchar[7] f1,
    Trade,
}

packet Logout {
}

root packet Reject {
    int32 sym,
    u8 Px,
    u32 Tail @lengthOf(Body),
    match Px as Body {
        184 : Trade,
        173 : Logon,
        12 : Logout,
    },
    u32 tag7 @calculatedFrom(""CR\
        C32""),
}")).
Eval vm_compute in ("<<<M355>>>" ++ check (runes_of_ascii "options  { } root packet A {
@tag(
65535 ) @lengthOf( calculatedFrom )
match msg_type as
_x // `tick` ""quote"" 'q'
{// c
00
: MetaDataX// packet A { u8 x, }
, 0123456789 :matchKey , [	""""
    ]:
//	t
//x
stringy["""",255
, 4294967296 ,
    /// triple
    42 ,
3,""// no comment"" ] :  chars  [//	t
""abc"" , ""CRC32""
]// c
:A , ""\" ++ [233]%N ++ runes_of_ascii """
: stringy ,
    // `tick` ""quote"" 'q'
    }
    ,// @lengthOf(
match
// 50% %s
// " ++ [128512]%N ++ runes_of_ascii " emoji
trueish as repeatCount{ [ 4294967296 , """ ++ [233]%N ++ runes_of_ascii "t" ++ [233]%N ++ runes_of_ascii """] : //	t
crc ""a\\""
:falsey ,
""a\\"" : A
,	10 : // c
uint8x , ""it's"" :
    repeatCount
, } ,  asx float, @rightPad ( ) f64 int @lengthOf(roots
    )  `doc` , }
    // c
    options { string_=""packet"" ;}")).
Eval vm_compute in ("<<<M1195>>>" ++ check (runes_of_ascii "// top
options // c0
{ // c1
} // c2
MetaData // c3
packetx // c4
{ // c5
int // c6
falsey // c7
`two words` // c8
, // c9
int32 // c10
trueish // c11
, // c12
char[] // c13
u8x // c14
, // c15
A // c16
x // c17
`// not a comment` // c18
, // c19
} // c20
root // c21
packet // c22
i8i8 // c23
{ // c24
@lengthOf( // c25
repeatCount // c26
) // c27
@tag( // c28
1 // c29
) // c30
@calculatedFrom( // c31
""a	b"" // c32
) // c33
string // c34
stringy // c35
@calculatedFrom( // c36
""\n"" // c37
) // c38
`line1
line2` // c39
, // c40
pack // c41
`100% of %d` // c42
, // c43
} // c44
")).
Eval vm_compute in ("<<<M98>>>" ++ check (runes_of_ascii "MetaData
    //x
    Pad
{ u32  u128  `doc`
// @lengthOf(
//x
, char[] len`a\`, Header  tag
    , u8 repeatCount `tab	here`//	t
,/// triple
Pad int, } packet
    len{
//x
/// triple
As {
pack
_x `
`
, asx {
    //
    string  calculatedFrom
@lengthOf(
MetaDataX
) , stringy u8x, char[
    255 ] MetaDataX
@calculatedFrom( """"
), } ,
calculatedFrom {string_ len , } ,	Header @lengthOf(
// c
//x
charz ), }
    ,
    }
// " ++ [27880; 37322]%N ++ runes_of_ascii "
// " ++ [128512]%N ++ runes_of_ascii " emoji
options {
// c
// a // b
} options
    { packetx	= ""`tick`""
    ; /// triple
i64_	= ' '; }")).
Eval vm_compute in ("<<<M1137>>>" ++ check (runes_of_ascii "// top
packet // c0a
  // c0b
_x // c1
{
    // c2
match // c3a
  // c3b
Foo // c4
as // c5
Z9_
    // c6
{ ""a	b""
    // c8
: // c9
Pad // c10a
  // c10b
, }
    // c12
, // c13a
  // c13b
repeat // c14
x // c15
`// not a comment`
    // c16
, @rightPad // c18
( // c19a
  // c19b
' ' )
    // c21
@calculatedFrom( // c22
""a\\"" // c23a
  // c23b
)
    // c24
metadata // c25
MetaDataX // c26
, @tag(
    // c28
0 // c29a
  // c29b
) Logon
    // c31
int `two words`
    // c33
, } // c35
")).
Eval vm_compute in ("<<<M1722>>>" ++ check (runes_of_ascii "  options
	{
    T 
=""" ++ [28040; 24687]%N ++ runes_of_ascii """ 
;  string_
	// @lengthOf(
// 50% %s
=
false
	;  f32a
=
    0123456789	;

    Z9_
    = 
255
	}MetaData

chars 	 // " ++ [27880; 37322]%N ++ runes_of_ascii "
		{ 
float32 charz `{ , }`
,  // @lengthOf(
  	zchar[	1  ] 
u8x

    `100% of %d`  , uint16	asx

`two words` ,
    char[
	4294967296] Header
, i32
	Logon
    ,
	char[
0123456789]  // c
crc
    , 
} 
packet/// triple
	options1{ falsey `crlf
line`  ,
// `tick` ""quote"" 'q'

/// triple
    }
")).
Eval vm_compute in ("<<<M1282>>>" ++ check (runes_of_ascii "options {
    // c1
LittleEndian = true ; } // c6
packet // c7a
  // c7b
B
    // c8
{
    // c9
u8 // c10a
  // c10b
a // c11a
  // c11b
, // c12
string s // c14a
  // c14b
, // c15a
  // c15b
}
    // c16
root packet // c18a
  // c18b
P
    // c19
{ // c20
u16
    // c21
L // c22a
  // c22b
@lengthOf(
    // c23
B // c24
)
    // c25
, // c26a
  // c26b
B
    // c27
, // c28
u8 t ,
    // c31
} // c32a
  // c32b
")).
Eval vm_compute in ("<<<M18>>>" ++ check (runes_of_ascii "
packet
    tag  {@tag( 00 ) match x_y_z as Packet{[3
    ]:packetx , [// " ++ [128512]%N ++ runes_of_ascii " emoji
""{,}"" ]
// " ++ [27880; 37322]%N ++ runes_of_ascii "
// 50% %s
:
BodyLength ,
//x
//
00
    : i8i8 , 255  :	asx
    //
    , },} packet
Packet { @calculatedFrom(
    // " ++ [27880; 37322]%N ++ runes_of_ascii "
    """ ++ [233]%N ++ runes_of_ascii "t" ++ [233]%N ++ runes_of_ascii """ // 50% %s
)	match i8i8
as
    charz
// @lengthOf(
// " ++ [128512]%N ++ runes_of_ascii " emoji
{ 3
: f32a ""a\\"" // " ++ [27880; 37322]%N ++ runes_of_ascii "
: len
,	} , @tag(	10 ) @lengthOf( charz	) int , repeat	string Foo ,}")).
Eval vm_compute in ("<<<M102>>>" ++ check (runes_of_ascii "  packet matchKey { repeat BodyLength
{
metadata ,
    string asx `{ , }` ,
    }
    , len
{
    repeat a1 charz
    // trailing space 
    ,}  ,} packet
i8i8 { repeat  char[
0123456789 // @lengthOf(
]Z9_
    `it's` ,  match // trailing space 
Packet  as float { 1 :
lengthOf}
    , }
    packet x_y_z	{	repeat char[	1 ]
    //
    falsey	,
    }
")).
Eval vm_compute in ("<<<M1462>>>" ++ check (runes_of_ascii "
// c

packet
	BodyLength
	{
@tag(
42 )Header	tag	`u8 x,`
    ,

    }	options{  }

packet 
string_
	{	float32
rootA , uint8

MetaDataX	`crlf
line`

    , charz
    // " ++ [128512]%N ++ runes_of_ascii " emoji
, @tag(
4294967296
	)
    @rightPad	(

'\x00')

@tag(

    7
)

    // c
u32	u128 	 //x
  @calculatedFrom(

    ""\" ++ [233]%N ++ runes_of_ascii """),}
")).
Eval vm_compute in ("<<<M1482>>>" ++ check (runes_of_ascii "// top
MetaData msg_type {
    // c2
    int32 As `crlf
    line`,
    // c6
    MetaDataX x `a\`,
    // c10
    int8 _x,
    // c13
    char[] As `u8 x,`,
    // c17
    zchar[3] uint8x,
    // c22
    As Foo,
    // c25
}

// c26
root packet repeatCount {
    // c30
}
// c31")).
Eval vm_compute in ("<<<M210>>>" ++ check (runes_of_ascii "packet x  {/// triple
repeat// c
int ,}
root
packet
A
{i8i8 Packet,}
packet
    // `tick` ""quote"" 'q'
    pack {@lengthOf( msg_type
)
    // packet A { u8 x, }
    f32a As `it's`
, } root packet f32a
{ i64_
@lengthOf(// 50% %s
matchKey
)	`doc` ,
}
// " ++ [27880; 37322]%N ++ runes_of_ascii "
")).
Eval vm_compute in ("<<<M392>>>" ++ check (runes_of_ascii "packet
    asx asx { @calculatedFrom(
""""  ) @tag( 255 )repeat
// packet A { u8 x, }
// trailing space 
int16 u8x
,
@tag(
    //
    007 )
    @tag( 0
    /// triple
    ) @tag( 1) u
    @lengthOf( T ),
// `tick` ""quote"" 'q'
//x
} // " ++ [128512]%N ++ runes_of_ascii " emoji")).
Eval vm_compute in ("<<<M532>>>" ++ check (runes_of_ascii "packet
    asx { @calculatedFrom(
""""  ) @tag( 255 )repeat
// packet A { u8 x, }
// trailing space 
int16 u8x
,
\@tag(
    //
    007 )
    @tag( 0
    /// triple
    ) @tag( 1) u
    @lengthOf( T ),
// `tick` ""quote"" 'q'
//x
} // " ++ [128512]%N ++ runes_of_ascii " emoji")).
Eval vm_compute in ("<<<M479>>>" ++ check (runes_of_ascii "packet
    asx { @calculatedFrom(
""""  ) @tag( 255 )repeat
// packet A { u8 x, }
// trailing space 
int16 u8x
,
@tag(
    //
    007 )
    @tag( 0
    /// triple
    ( @tag( 1) u
    @lengthOf( T ),
// `tick` ""quote"" 'q'
//x
} // " ++ [128512]%N ++ runes_of_ascii " emoji")).
Eval vm_compute in ("<<<M406>>>" ++ check (runes_of_ascii "packet
    asx { @calculatedFrom(
  ) @tag( 255 )repeat
// packet A { u8 x, }
// trailing space 
int16 u8x
,
@tag(
    //
    007 )
    @tag( 0
    /// triple
    ) @tag( 1) u
    @lengthOf( T ),
// `tick` ""quote"" 'q'
//x
} // " ++ [128512]%N ++ runes_of_ascii " emoji")).
Eval vm_compute in ("<<<M56>>>" ++ check (runes_of_ascii "MetaData repeatCount
    { u8 x
`// not a comment`//x
,// @lengthOf(
char[] /// triple
packetx	,  u8 float ,	float32 As`two words`, Z9_ //	t
crc `" ++ [233]%N ++ runes_of_ascii "` ,
    }MetaData int { matchKey int ,leftPad
metadata `100% of %d`
,}

")).
Eval vm_compute in ("<<<M338>>>" ++ check (runes_of_ascii "root packet trueish// packet A { u8 x, }
{ @tag( 00
    // 50% %s
    ) rootA @lengthOf( float) ,
@rightPad (
'0' ) pack string_ ,
    }  packet i8i8
    {
string o
    @calculatedFrom( """ ++ [128512]%N ++ runes_of_ascii """	)
, }
")).
Eval vm_compute in ("<<<M1306>>>" ++ check (runes_of_ascii "  packet
A
{u8
	a ,
    }
    packet
B
    {	u16
	b

,
}
root	packet P
	{ u8
K1,
u8
	K2 ,
    match K1

as

M1 {
1
:
    A
,
	}  ,	match

    K2

as 
M2{1
:

B
    , }

,  }
")).
Eval vm_compute in ("<<<M672>>>" ++ check (runes_of_ascii "MetaData u
    { } MetaData o
{ float uint8x
`100% of %d` ,repeatCount u8x, string_ leftPad
, i32
    Foo , int64 x `two words` , calculatedFrom
stringy stringy `a\` ,
}
")).
Eval vm_compute in ("<<<M559>>>" ++ check (runes_of_ascii "MetaData u
    i64 } MetaData o
{ float uint8x
`100% of %d` ,repeatCount u8x, string_ leftPad
, i32
    Foo , int64 x `two words` , calculatedFrom
stringy `a\` ,
}
")).
Eval vm_compute in ("<<<M1670>>>" ++ check (runes_of_ascii "packet T {
    @calculatedFrom(""1"")
    @tag(0)
    crc {
        int16 falsey,/// triple
        int64 i8i8,
    },
    Header,
    trueish,
}
// packet A { u8 x, }")).
Eval vm_compute in ("<<<M673>>>" ++ check (runes_of_ascii "MetaData u
    { } MetaData o
{ float uint8x
`100% of %d` ,repeatCount u8x, string_ leftPad
, i32
    Foo , int64 x `two words` , calculatedFrom
`a\` stringy ,
}
")).
Eval vm_compute in ("<<<M711>>>" ++ check (runes_of_ascii "packet
crc
{repeat  Foo A  `u8 x,` ,	true uint8x ) string
matchKey @lengthOf( stringy ) `a\`
,
    // c
    }
MetaData chars{
leftPad
    //	t
    crc
`" ++ [233]%N ++ runes_of_ascii "`
,}")).
Eval vm_compute in ("<<<M1909>>>" ++ check (runes_of_ascii "
options 
{
    }options  {MetaDataX
=

    char
;} 
MetaData
	Pad
	{
i8

    metadata  , // c
string
    stringy
    ,
int8

    As `{ , }` ,}

")).
Eval vm_compute in ("<<<M475>>>" ++ check (runes_of_ascii "packet
    asx { @calculatedFrom(
""""  ) @tag( 255 )repeat
// packet A { u8 x, }
// trailing space 
int16 u8x
,
@tag(
    //
    007 )
    @tag(")).
Eval vm_compute in ("<<<M1489>>>" ++ check (runes_of_ascii "

  packet
A 
{ 
match k

    as  n{ [ ""a""
    ,  ""bb"" ,	007, ""d"", 
""e"",66
, 
""g""
	,""h""

    , 9
	] :
    B  ,

    2 :	C 
}
, }")).
Eval vm_compute in ("<<<M1924>>>" ++ check (runes_of_ascii "  packet 
u8x{@leftPad
(//	t
'0'//x
	)	uint8x  lengthOf `line1
line2`  
  // 50% %s
	, 
} packet	msg_type {}
MetaData u 
{
	}
")).
Eval vm_compute in ("<<<M528>>>" ++ check (runes_of_ascii "packet
    asx { @calculatedFrom(
""""  ) @tag( 255 )repeat
// packet A { u8 x, }
// trailing space 
int16 u8x
,
@tag(
")).
Eval vm_compute in ("<<<M1207>>>" ++ check (runes_of_ascii "options { } // c
options { MetaDataX = char ; } MetaData Pad { i8 metadata , string stringy , int8 As `{ , }` , }")).
Eval vm_compute in ("<<<M1239>>>" ++ check (runes_of_ascii "options { } options { MetaDataX = char ; } MetaData Pad { i8 metadata , string stringy , // c
int8 As `{ , }` , }")).
Eval vm_compute in ("<<<M908>>>" ++ check (runes_of_ascii "packet A {
  match k as n {
    [""a"", 22, ""c c"", 4, ""e"", 66, ""g"", 8, ""i"", 10, ""k"", 12] : B,
    2 : C
  },
}")).
Eval vm_compute in ("<<<M1696>>>" ++ check (runes_of_ascii "packet	A
{
match
k

    as 
n
{
[ ""a"",	22,
	""c c""
    ,	4,
    ""e""
,

    66
]

:
B 2:C}  ,}
")).
Eval vm_compute in ("<<<M897>>>" ++ check (runes_of_ascii "packet A {
  match k as n {
    [1, 22, ""c c"", 4, 5, ""f"", 7, 8, ""i"", 10, 11] : B,
    2 : C
  },
}")).
Eval vm_compute in ("<<<M1620>>>" ++ check (runes_of_ascii "
packet

    A  {match
	k
as

    n

{
    [""a""
    ,
""bb"" , 007] 
:
B,
    2:  C} ,	}
")).
Eval vm_compute in ("<<<M750>>>" ++ check (runes_of_ascii "a1 ""// no comment"" ' ' uint8 0 repeat char[ string MetaData ""`tick`"" uint64 00 char @tag(")).
Eval vm_compute in ("<<<M1315>>>" ++ check (runes_of_ascii "
packet
    order_item {	u8 
a
,
	}
root packet	new_order{  order_item ,

u8  x

,} ")).
Eval vm_compute in ("<<<M12>>>" ++ check (runes_of_ascii "options
    { x = ""a\\""; } MetaData u {u8
falsey ,
    crc zchar , }
/// triple
")).
Eval vm_compute in ("<<<M1735>>>" ++ check (runes_of_ascii "

  packet
	A
    {

    match  k as n 
{ [""a""
    ] : 
B  ,
	2
	:  C 
} ,}
")).
Eval vm_compute in ("<<<M802>>>" ++ check (runes_of_ascii "packet A {
  match k as n {
    [1, ""bb"", 007, ""d""] : B,
    2 : C
  },
}")).
Eval vm_compute in ("<<<M1939>>>" ++ check (runes_of_ascii "root packet Packet {
    match f32a as Foo {
        1 : tag,
    },
}")).
Eval vm_compute in ("<<<M1639>>>" ++ check (runes_of_ascii "
// c
		MetaData
	leftPad  {	msg_type
    As

    `{ , }` , }")).
Eval vm_compute in ("<<<M1163>>>" ++ check (runes_of_ascii "// top
packet
    // c0
x
    // c1
{
    // c2
}
    // c3
")).
Eval vm_compute in ("<<<M772>>>" ++ check (runes_of_ascii "packet A {
  match k as n {
    [1] : B
    2 : C
  },
}")).
Eval vm_compute in ("<<<M1918>>>" ++ check (runes_of_ascii "MetaData i64_ {
    zchar[0123456789] i8i8 `" ++ [233]%N ++ runes_of_ascii "`,
}")).
Eval vm_compute in ("<<<M981>>>" ++ check (runes_of_ascii "options {
    a = ""x\
y"";
    b = ""x\
y""
}")).
Eval vm_compute in ("<<<M987>>>" ++ check (runes_of_ascii "options {
    a = ""\
"";
    b = ""\
""
}")).
Eval vm_compute in ("<<<M1190>>>" ++ check (runes_of_ascii "options { A =
// c
""// no comment"" }")).
Eval vm_compute in ("<<<M747>>>" ++ check ([1771]%N ++ runes_of_ascii "$" ++ [65533]%N ++ runes_of_ascii ":" ++ [1970]%N ++ runes_of_ascii "6x" ++ [1777]%N ++ runes_of_ascii "[$-." ++ [65533]%N ++ runes_of_ascii "3" ++ [1235; 65533; 65533; 65533]%N ++ runes_of_ascii "$" ++ [65533; 65533]%N ++ runes_of_ascii "u" ++ [65533]%N ++ runes_of_ascii "@~" ++ [65533; 65533]%N ++ runes_of_ascii "P" ++ [0; 65533]%N ++ runes_of_ascii "l" ++ [65533; 16]%N)).
Eval vm_compute in ("<<<M173>>>" ++ check (runes_of_ascii "options	{ Z9_	= ""abc""
    ;
}
")).
Eval vm_compute in ("<<<M761>>>" ++ check (runes_of_ascii """\" ++ [233]%N ++ runes_of_ascii """ as char MetaData char[]")).
Eval vm_compute in ("<<<M1142>>>" ++ check (runes_of_ascii "
// c
root packet a1 { }")).
Eval vm_compute in ("<<<M1122>>>" ++ check (runes_of_ascii "// c
MetaData tag { }")).
Eval vm_compute in ("<<<M1021>>>" ++ check (runes_of_ascii "// c" ++ [8192]%N ++ runes_of_ascii "
packet A {
}")).
Eval vm_compute in ("<<<M993>>>" ++ check (runes_of_ascii "packet A {
}// c ")).
Eval vm_compute in ("<<<M367>>>" ++ check (runes_of_ascii "
 // @lengthOf(")).
Eval vm_compute in ("<<<M760>>>" ++ check (runes_of_ascii "V]kUb{")).
Eval vm_compute in ("<<<M728>>>" ++ check (runes_of_ascii "//")).
