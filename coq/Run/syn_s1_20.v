From FP Require Import Lexer Parser ShowPT Digest.
From Coq Require Import String List NArith.
Import ListNotations.
Open Scope string_scope.
Set Printing Width 100000000.
Set Printing Depth 100000000.
Definition nl : string := String (Ascii.ascii_of_nat 10) EmptyString.
Definition model_lex (rs : list rune) : string := show_toks (lex rs).
Definition model_parse (rs : list rune) : string :=
  show_pt (match lex rs with Some ts => parse ts | None => None end).
(* coqc is slow at printing long strings: digests first (Digest.v), full texts on demand *)
Definition check (rs : list rune) : string :=
  digest (model_lex rs) ++ " " ++ digest (model_parse rs).
Definition full (rs : list rune) : string := model_lex rs ++ nl ++ model_parse rs.
Definition terms (ts : list tok) (t : pt) : string :=
  digest (show_toks (Some ts)) ++ " " ++ digest (show_pt (Some t)) ++ " " ++ digest (show_pt (parse ts)).
Definition terms_full (ts : list tok) (t : pt) : string :=
  show_toks (Some ts) ++ nl ++ show_pt (Some t) ++ nl ++ show_pt (parse ts).
Eval vm_compute in ("<<<M20>>>" ++ check (runes_of_ascii "packet
int // " ++ [27880; 37322]%N ++ runes_of_ascii "
{ repeat // @lengthOf(
MetaDataX // a // b
{ //	t
pack
    { repeat Pad	{ i8 MetaDataX
, repeat pack	trueish ,
u
    // trailing space 
    charz	`" ++ [233]%N ++ runes_of_ascii "` ,string
int
, }	, f64 Z9_
    ,
} ,
} // c
,	} packet trueish {
@lengthOf(
    u)uint8 metadata
    `" ++ [28040; 24687; 31867; 22411]%N ++ runes_of_ascii "` , match	uint8x
as roots
{ """ ++ [233]%N ++ runes_of_ascii "t" ++ [233]%N ++ runes_of_ascii """:
    Pad 0123456789
: msg_type// " ++ [27880; 37322]%N ++ runes_of_ascii "
[ ""1"" ,	0 ,10] //	t
:
pack,
[ ""it's"" ,  ""\" ++ [233]%N ++ runes_of_ascii """ ] :u8x
, [// " ++ [128512]%N ++ runes_of_ascii " emoji
0123456789 ] :
MetaDataX
    // packet A { u8 x, }
    , },zchar[	00 ] pack @lengthOf( string_ ),// packet A { u8 x, }
@tag( 4294967296 )
x_y_z string_ ,
    } options {A
    =true float  =	""" ++ [28040; 24687]%N ++ runes_of_ascii """ ; }
MetaData Header { zchar[//
7 // `tick` ""quote"" 'q'
]u128
, char[]
/// triple
// trailing space 
u , string_ metadata	,
uint32 f32a `u8 x,` , } options{// trailing space 
roots
    =
    true;
int =false ; string_=
"""" }")).
Eval vm_compute in ("<<<T20>>>" ++ terms [mkTok 35 "packet" 1 0 false; mkTok 42 "int" 2 0 false; mkTok 44 (string_of_bytes [47; 47; 32; 230; 179; 168; 233; 135; 138]%N) 2 4 true; mkTok 2 "{" 3 0 false; mkTok 36 "repeat" 3 2 false; mkTok 44 "// @lengthOf(" 3 9 true; mkTok 42 "MetaDataX" 4 0 false; mkTok 44 "// a // b" 4 10 true; mkTok 2 "{" 5 0 false; mkTok 44 (string_of_bytes [47; 47; 9; 116]%N) 5 2 true; mkTok 42 "pack" 6 0 false; mkTok 2 "{" 7 4 false; mkTok 36 "repeat" 7 6 false; mkTok 42 "Pad" 7 13 false; mkTok 2 "{" 7 17 false; mkTok 24 "i8" 7 19 false; mkTok 42 "MetaDataX" 7 22 false; mkTok 40 "," 8 0 false; mkTok 36 "repeat" 8 2 false; mkTok 42 "pack" 8 9 false; mkTok 42 "trueish" 8 14 false; mkTok 40 "," 8 22 false; mkTok 42 "u" 9 0 false; mkTok 44 "// trailing space " 10 4 true; mkTok 42 "charz" 11 4 false; mkTok 43 (string_of_bytes [96; 195; 169; 96]%N) 11 10 false; mkTok 40 "," 11 14 false; mkTok 15 "string" 11 15 false; mkTok 42 "int" 12 0 false; mkTok 40 "," 13 0 false; mkTok 3 "}" 13 2 false; mkTok 40 "," 13 4 false; mkTok 29 "f64" 13 6 false; mkTok 42 "Z9_" 13 10 false; mkTok 40 "," 14 4 false; mkTok 3 "}" 15 0 false; mkTok 40 "," 15 2 false; mkTok 3 "}" 16 0 false; mkTok 44 "// c" 16 2 true; mkTok 40 "," 17 0 false; mkTok 3 "}" 17 2 false; mkTok 35 "packet" 17 4 false; mkTok 42 "trueish" 17 11 false; mkTok 2 "{" 17 19 false; mkTok 7 "@lengthOf(" 18 0 false; mkTok 42 "u" 19 4 false; mkTok 6 ")" 19 5 false; mkTok 20 "uint8" 19 6 false; mkTok 42 "metadata" 19 12 false; mkTok 43 (string_of_bytes [96; 230; 182; 136; 230; 129; 175; 231; 177; 187; 229; 158; 139; 96]%N) 20 4 false; mkTok 40 "," 20 11 false; mkTok 38 "match" 20 13 false; mkTok 42 "uint8x" 20 19 false; mkTok 17 "as" 21 0 false; mkTok 42 "roots" 21 3 false; mkTok 2 "{" 22 0 false; mkTok 31 (string_of_bytes [34; 195; 169; 116; 195; 169; 34]%N) 22 2 false; mkTok 39 ":" 22 7 false; mkTok 42 "Pad" 23 4 false; mkTok 30 "0123456789" 23 8 false; mkTok 39 ":" 24 0 false; mkTok 42 "msg_type" 24 2 false; mkTok 44 (string_of_bytes [47; 47; 32; 230; 179; 168; 233; 135; 138]%N) 24 10 true; mkTok 18 "[" 25 0 false; mkTok 31 """1""" 25 2 false; mkTok 40 "," 25 6 false; mkTok 30 "0" 25 8 false; mkTok 40 "," 25 10 false; mkTok 30 "10" 25 11 false; mkTok 13 "]" 25 13 false; mkTok 44 (string_of_bytes [47; 47; 9; 116]%N) 25 15 true; mkTok 39 ":" 26 0 false; mkTok 42 "pack" 27 0 false; mkTok 40 "," 27 4 false; mkTok 18 "[" 28 0 false; mkTok 31 """it's""" 28 2 false; mkTok 40 "," 28 9 false; mkTok 31 (string_of_bytes [34; 92; 195; 169; 34]%N) 28 12 false; mkTok 13 "]" 28 17 false; mkTok 39 ":" 28 19 false; mkTok 42 "u8x" 28 20 false; mkTok 40 "," 29 0 false; mkTok 18 "[" 29 2 false; mkTok 44 (string_of_bytes [47; 47; 32; 240; 159; 152; 128; 32; 101; 109; 111; 106; 105]%N) 29 3 true; mkTok 30 "0123456789" 30 0 false; mkTok 13 "]" 30 11 false; mkTok 39 ":" 30 13 false; mkTok 42 "MetaDataX" 31 0 false; mkTok 44 "// packet A { u8 x, }" 32 4 true; mkTok 40 "," 33 4 false; mkTok 3 "}" 33 6 false; mkTok 40 "," 33 7 false; mkTok 14 "zchar[" 33 8 false; mkTok 30 "00" 33 15 false; mkTok 13 "]" 33 18 false; mkTok 42 "pack" 33 20 false; mkTok 7 "@lengthOf(" 33 25 false; mkTok 42 "string_" 33 36 false; mkTok 6 ")" 33 44 false; mkTok 40 "," 33 45 false; mkTok 44 "// packet A { u8 x, }" 33 46 true; mkTok 9 "@tag(" 34 0 false; mkTok 30 "4294967296" 34 6 false; mkTok 6 ")" 34 17 false; mkTok 42 "x_y_z" 35 0 false; mkTok 42 "string_" 35 6 false; mkTok 40 "," 35 14 false; mkTok 3 "}" 36 4 false; mkTok 1 "options" 36 6 false; mkTok 2 "{" 36 14 false; mkTok 42 "A" 36 15 false; mkTok 4 "=" 37 4 false; mkTok 10 "true" 37 5 false; mkTok 42 "float" 37 10 false; mkTok 4 "=" 37 17 false; mkTok 31 (string_of_bytes [34; 230; 182; 136; 230; 129; 175; 34]%N) 37 19 false; mkTok 41 ";" 37 24 false; mkTok 3 "}" 37 26 false; mkTok 37 "MetaData" 38 0 false; mkTok 42 "Header" 38 9 false; mkTok 2 "{" 38 16 false; mkTok 14 "zchar[" 38 18 false; mkTok 44 "//" 38 24 true; mkTok 30 "7" 39 0 false; mkTok 44 "// `tick` ""quote"" 'q'" 39 2 true; mkTok 13 "]" 40 0 false; mkTok 42 "u128" 40 1 false; mkTok 40 "," 41 0 false; mkTok 16 "char[]" 41 2 false; mkTok 44 "/// triple" 42 0 true; mkTok 44 "// trailing space " 43 0 true; mkTok 42 "u" 44 0 false; mkTok 40 "," 44 2 false; mkTok 42 "string_" 44 4 false; mkTok 42 "metadata" 44 12 false; mkTok 40 "," 44 21 false; mkTok 22 "uint32" 45 0 false; mkTok 42 "f32a" 45 7 false; mkTok 43 "`u8 x,`" 45 12 false; mkTok 40 "," 45 20 false; mkTok 3 "}" 45 22 false; mkTok 1 "options" 45 24 false; mkTok 2 "{" 45 31 false; mkTok 44 "// trailing space " 45 32 true; mkTok 42 "roots" 46 0 false; mkTok 4 "=" 47 4 false; mkTok 10 "true" 48 4 false; mkTok 41 ";" 48 8 false; mkTok 42 "int" 49 0 false; mkTok 4 "=" 49 4 false; mkTok 11 "false" 49 5 false; mkTok 41 ";" 49 11 false; mkTok 42 "string_" 49 13 false; mkTok 4 "=" 49 20 false; mkTok 31 """""" 50 0 false; mkTok 3 "}" 50 3 false; mkTok 0 "<EOF>" 50 4 false] (mkPacket (mkPtok 35 "packet" 1 0 0) (Some (mkPtok 3 "}" 50 3 155)) [(DPacket (mkPacketDef (mkSpan (mkPtok 35 "packet" 1 0 0) (mkPtok 3 "}" 17 2 40)) None (mkPtok 35 "packet" 1 0 0) (mkPtok 42 "int" 2 0 1) (mkPtok 2 "{" 3 0 3) [(mkFieldWithAttr (mkSpan (mkPtok 36 "repeat" 3 2 4) (mkPtok 40 "," 17 0 39)) [] (InerObjectField (mkSpan (mkPtok 36 "repeat" 3 2 4) (mkPtok 40 "," 17 0 39)) (Some (mkPtok 36 "repeat" 3 2 4)) (InerObjectDecl (mkSpan (mkPtok 42 "MetaDataX" 4 0 6) (mkPtok 3 "}" 16 0 37)) (mkPtok 42 "MetaDataX" 4 0 6) (mkPtok 2 "{" 5 0 8) [(InerObjectField (mkSpan (mkPtok 42 "pack" 6 0 10) (mkPtok 40 "," 15 2 36)) None (InerObjectDecl (mkSpan (mkPtok 42 "pack" 6 0 10) (mkPtok 3 "}" 15 0 35)) (mkPtok 42 "pack" 6 0 10) (mkPtok 2 "{" 7 4 11) [(InerObjectField (mkSpan (mkPtok 36 "repeat" 7 6 12) (mkPtok 40 "," 13 4 31)) (Some (mkPtok 36 "repeat" 7 6 12)) (InerObjectDecl (mkSpan (mkPtok 42 "Pad" 7 13 13) (mkPtok 3 "}" 13 2 30)) (mkPtok 42 "Pad" 7 13 13) (mkPtok 2 "{" 7 17 14) [(MetaField (mkSpan (mkPtok 24 "i8" 7 19 15) (mkPtok 40 "," 8 0 17)) None (mkMetaDecl (mkSpan (mkPtok 24 "i8" 7 19 15) (mkPtok 40 "," 8 0 17)) (TyBasic (mkSpan (mkPtok 24 "i8" 7 19 15) (mkPtok 24 "i8" 7 19 15)) (mkBasicType (mkSpan (mkPtok 24 "i8" 7 19 15) (mkPtok 24 "i8" 7 19 15)) (mkPtok 24 "i8" 7 19 15))) (mkPtok 42 "MetaDataX" 7 22 16) None (mkPtok 40 "," 8 0 17))); (ObjectField (mkSpan (mkPtok 36 "repeat" 8 2 18) (mkPtok 40 "," 8 22 21)) (Some (mkPtok 36 "repeat" 8 2 18)) (mkPtok 42 "pack" 8 9 19) (Some (mkPtok 42 "trueish" 8 14 20)) None (mkPtok 40 "," 8 22 21)); (ObjectField (mkSpan (mkPtok 42 "u" 9 0 22) (mkPtok 40 "," 11 14 26)) None (mkPtok 42 "u" 9 0 22) (Some (mkPtok 42 "charz" 11 4 24)) (Some (mkPtok 43 (string_of_bytes [96; 195; 169; 96]%N) 11 10 25)) (mkPtok 40 "," 11 14 26)); (MetaField (mkSpan (mkPtok 15 "string" 11 15 27) (mkPtok 40 "," 13 0 29)) None (mkMetaDecl (mkSpan (mkPtok 15 "string" 11 15 27) (mkPtok 40 "," 13 0 29)) (TyDynamic (mkSpan (mkPtok 15 "string" 11 15 27) (mkPtok 15 "string" 11 15 27)) (mkDynamicString (mkSpan (mkPtok 15 "string" 11 15 27) (mkPtok 15 "string" 11 15 27)) (mkPtok 15 "string" 11 15 27))) (mkPtok 42 "int" 12 0 28) None (mkPtok 40 "," 13 0 29)))] (mkPtok 3 "}" 13 2 30)) (mkPtok 40 "," 13 4 31)); (MetaField (mkSpan (mkPtok 29 "f64" 13 6 32) (mkPtok 40 "," 14 4 34)) None (mkMetaDecl (mkSpan (mkPtok 29 "f64" 13 6 32) (mkPtok 40 "," 14 4 34)) (TyBasic (mkSpan (mkPtok 29 "f64" 13 6 32) (mkPtok 29 "f64" 13 6 32)) (mkBasicType (mkSpan (mkPtok 29 "f64" 13 6 32) (mkPtok 29 "f64" 13 6 32)) (mkPtok 29 "f64" 13 6 32))) (mkPtok 42 "Z9_" 13 10 33) None (mkPtok 40 "," 14 4 34)))] (mkPtok 3 "}" 15 0 35)) (mkPtok 40 "," 15 2 36))] (mkPtok 3 "}" 16 0 37)) (mkPtok 40 "," 17 0 39)))] (mkPtok 3 "}" 17 2 40))); (DPacket (mkPacketDef (mkSpan (mkPtok 35 "packet" 17 4 41) (mkPtok 3 "}" 36 4 107)) None (mkPtok 35 "packet" 17 4 41) (mkPtok 42 "trueish" 17 11 42) (mkPtok 2 "{" 17 19 43) [(mkFieldWithAttr (mkSpan (mkPtok 7 "@lengthOf(" 18 0 44) (mkPtok 40 "," 20 11 50)) [(FALengthOf (mkSpan (mkPtok 7 "@lengthOf(" 18 0 44) (mkPtok 6 ")" 19 5 46)) (mkLengthOf (mkSpan (mkPtok 7 "@lengthOf(" 18 0 44) (mkPtok 6 ")" 19 5 46)) (mkPtok 7 "@lengthOf(" 18 0 44) (mkPtok 42 "u" 19 4 45) (mkPtok 6 ")" 19 5 46)))] (MetaField (mkSpan (mkPtok 20 "uint8" 19 6 47) (mkPtok 40 "," 20 11 50)) None (mkMetaDecl (mkSpan (mkPtok 20 "uint8" 19 6 47) (mkPtok 40 "," 20 11 50)) (TyBasic (mkSpan (mkPtok 20 "uint8" 19 6 47) (mkPtok 20 "uint8" 19 6 47)) (mkBasicType (mkSpan (mkPtok 20 "uint8" 19 6 47) (mkPtok 20 "uint8" 19 6 47)) (mkPtok 20 "uint8" 19 6 47))) (mkPtok 42 "metadata" 19 12 48) (Some (mkPtok 43 (string_of_bytes [96; 230; 182; 136; 230; 129; 175; 231; 177; 187; 229; 158; 139; 96]%N) 20 4 49)) (mkPtok 40 "," 20 11 50)))); (mkFieldWithAttr (mkSpan (mkPtok 38 "match" 20 13 51) (mkPtok 40 "," 33 7 91)) [] (MatchField (mkSpan (mkPtok 38 "match" 20 13 51) (mkPtok 40 "," 33 7 91)) (mkMatchFieldDecl (mkSpan (mkPtok 38 "match" 20 13 51) (mkPtok 3 "}" 33 6 90)) (mkPtok 38 "match" 20 13 51) (mkPtok 42 "uint8x" 20 19 52) (mkPtok 17 "as" 21 0 53) (mkPtok 42 "roots" 21 3 54) (mkPtok 2 "{" 22 0 55) [(mkMatchPair (mkSpan (mkPtok 31 (string_of_bytes [34; 195; 169; 116; 195; 169; 34]%N) 22 2 56) (mkPtok 42 "Pad" 23 4 58)) (MKString (mkPtok 31 (string_of_bytes [34; 195; 169; 116; 195; 169; 34]%N) 22 2 56)) (mkPtok 39 ":" 22 7 57) (mkPtok 42 "Pad" 23 4 58) None); (mkMatchPair (mkSpan (mkPtok 30 "0123456789" 23 8 59) (mkPtok 42 "msg_type" 24 2 61)) (MKDigits (mkPtok 30 "0123456789" 23 8 59)) (mkPtok 39 ":" 24 0 60) (mkPtok 42 "msg_type" 24 2 61) None); (mkMatchPair (mkSpan (mkPtok 18 "[" 25 0 63) (mkPtok 40 "," 27 4 73)) (MKList (mkKeyList (mkSpan (mkPtok 18 "[" 25 0 63) (mkPtok 13 "]" 25 13 69)) (mkPtok 18 "[" 25 0 63) (mkPtok 31 """1""" 25 2 64) [((mkPtok 40 "," 25 6 65), (mkPtok 30 "0" 25 8 66)); ((mkPtok 40 "," 25 10 67), (mkPtok 30 "10" 25 11 68))] (mkPtok 13 "]" 25 13 69))) (mkPtok 39 ":" 26 0 71) (mkPtok 42 "pack" 27 0 72) (Some (mkPtok 40 "," 27 4 73))); (mkMatchPair (mkSpan (mkPtok 18 "[" 28 0 74) (mkPtok 40 "," 29 0 81)) (MKList (mkKeyList (mkSpan (mkPtok 18 "[" 28 0 74) (mkPtok 13 "]" 28 17 78)) (mkPtok 18 "[" 28 0 74) (mkPtok 31 """it's""" 28 2 75) [((mkPtok 40 "," 28 9 76), (mkPtok 31 (string_of_bytes [34; 92; 195; 169; 34]%N) 28 12 77))] (mkPtok 13 "]" 28 17 78))) (mkPtok 39 ":" 28 19 79) (mkPtok 42 "u8x" 28 20 80) (Some (mkPtok 40 "," 29 0 81))); (mkMatchPair (mkSpan (mkPtok 18 "[" 29 2 82) (mkPtok 40 "," 33 4 89)) (MKList (mkKeyList (mkSpan (mkPtok 18 "[" 29 2 82) (mkPtok 13 "]" 30 11 85)) (mkPtok 18 "[" 29 2 82) (mkPtok 30 "0123456789" 30 0 84) [] (mkPtok 13 "]" 30 11 85))) (mkPtok 39 ":" 30 13 86) (mkPtok 42 "MetaDataX" 31 0 87) (Some (mkPtok 40 "," 33 4 89)))] (mkPtok 3 "}" 33 6 90)) (mkPtok 40 "," 33 7 91))); (mkFieldWithAttr (mkSpan (mkPtok 14 "zchar[" 33 8 92) (mkPtok 40 "," 33 45 99)) [] (LengthField (mkSpan (mkPtok 14 "zchar[" 33 8 92) (mkPtok 40 "," 33 45 99)) (mkLengthFieldDecl (mkSpan (mkPtok 14 "zchar[" 33 8 92) (mkPtok 40 "," 33 45 99)) (Some (TyFixed (mkSpan (mkPtok 14 "zchar[" 33 8 92) (mkPtok 13 "]" 33 18 94)) (mkFixedString (mkSpan (mkPtok 14 "zchar[" 33 8 92) (mkPtok 13 "]" 33 18 94)) (mkPtok 14 "zchar[" 33 8 92) (mkPtok 30 "00" 33 15 93) (mkPtok 13 "]" 33 18 94)))) (mkPtok 42 "pack" 33 20 95) (mkLengthOf (mkSpan (mkPtok 7 "@lengthOf(" 33 25 96) (mkPtok 6 ")" 33 44 98)) (mkPtok 7 "@lengthOf(" 33 25 96) (mkPtok 42 "string_" 33 36 97) (mkPtok 6 ")" 33 44 98)) None (mkPtok 40 "," 33 45 99)))); (mkFieldWithAttr (mkSpan (mkPtok 9 "@tag(" 34 0 101) (mkPtok 40 "," 35 14 106)) [(FATag (mkSpan (mkPtok 9 "@tag(" 34 0 101) (mkPtok 6 ")" 34 17 103)) (mkTagAttr (mkSpan (mkPtok 9 "@tag(" 34 0 101) (mkPtok 6 ")" 34 17 103)) (mkPtok 9 "@tag(" 34 0 101) (mkPtok 30 "4294967296" 34 6 102) (mkPtok 6 ")" 34 17 103)))] (ObjectField (mkSpan (mkPtok 42 "x_y_z" 35 0 104) (mkPtok 40 "," 35 14 106)) None (mkPtok 42 "x_y_z" 35 0 104) (Some (mkPtok 42 "string_" 35 6 105)) None (mkPtok 40 "," 35 14 106)))] (mkPtok 3 "}" 36 4 107))); (DOption (mkOptionDef (mkSpan (mkPtok 1 "options" 36 6 108) (mkPtok 3 "}" 37 26 117)) (mkPtok 1 "options" 36 6 108) (mkPtok 2 "{" 36 14 109) [(mkOptionDecl (mkSpan (mkPtok 42 "A" 36 15 110) (mkPtok 10 "true" 37 5 112)) (mkPtok 42 "A" 36 15 110) (mkPtok 4 "=" 37 4 111) (VTrue (mkSpan (mkPtok 10 "true" 37 5 112) (mkPtok 10 "true" 37 5 112)) (mkPtok 10 "true" 37 5 112)) None); (mkOptionDecl (mkSpan (mkPtok 42 "float" 37 10 113) (mkPtok 41 ";" 37 24 116)) (mkPtok 42 "float" 37 10 113) (mkPtok 4 "=" 37 17 114) (VString (mkSpan (mkPtok 31 (string_of_bytes [34; 230; 182; 136; 230; 129; 175; 34]%N) 37 19 115) (mkPtok 31 (string_of_bytes [34; 230; 182; 136; 230; 129; 175; 34]%N) 37 19 115)) (mkPtok 31 (string_of_bytes [34; 230; 182; 136; 230; 129; 175; 34]%N) 37 19 115)) (Some (mkPtok 41 ";" 37 24 116)))] (mkPtok 3 "}" 37 26 117))); (DMeta (mkMetaDef (mkSpan (mkPtok 37 "MetaData" 38 0 118) (mkPtok 3 "}" 45 22 140)) (mkPtok 37 "MetaData" 38 0 118) (mkPtok 42 "Header" 38 9 119) (mkPtok 2 "{" 38 16 120) [(MIDecl (mkMetaDecl (mkSpan (mkPtok 14 "zchar[" 38 18 121) (mkPtok 40 "," 41 0 127)) (TyFixed (mkSpan (mkPtok 14 "zchar[" 38 18 121) (mkPtok 13 "]" 40 0 125)) (mkFixedString (mkSpan (mkPtok 14 "zchar[" 38 18 121) (mkPtok 13 "]" 40 0 125)) (mkPtok 14 "zchar[" 38 18 121) (mkPtok 30 "7" 39 0 123) (mkPtok 13 "]" 40 0 125))) (mkPtok 42 "u128" 40 1 126) None (mkPtok 40 "," 41 0 127))); (MIDecl (mkMetaDecl (mkSpan (mkPtok 16 "char[]" 41 2 128) (mkPtok 40 "," 44 2 132)) (TyDynamic (mkSpan (mkPtok 16 "char[]" 41 2 128) (mkPtok 16 "char[]" 41 2 128)) (mkDynamicString (mkSpan (mkPtok 16 "char[]" 41 2 128) (mkPtok 16 "char[]" 41 2 128)) (mkPtok 16 "char[]" 41 2 128))) (mkPtok 42 "u" 44 0 131) None (mkPtok 40 "," 44 2 132))); (MIRef (mkRefMetaDecl (mkSpan (mkPtok 42 "string_" 44 4 133) (mkPtok 40 "," 44 21 135)) (mkPtok 42 "string_" 44 4 133) (mkPtok 42 "metadata" 44 12 134) None (mkPtok 40 "," 44 21 135))); (MIDecl (mkMetaDecl (mkSpan (mkPtok 22 "uint32" 45 0 136) (mkPtok 40 "," 45 20 139)) (TyBasic (mkSpan (mkPtok 22 "uint32" 45 0 136) (mkPtok 22 "uint32" 45 0 136)) (mkBasicType (mkSpan (mkPtok 22 "uint32" 45 0 136) (mkPtok 22 "uint32" 45 0 136)) (mkPtok 22 "uint32" 45 0 136))) (mkPtok 42 "f32a" 45 7 137) (Some (mkPtok 43 "`u8 x,`" 45 12 138)) (mkPtok 40 "," 45 20 139)))] (mkPtok 3 "}" 45 22 140))); (DOption (mkOptionDef (mkSpan (mkPtok 1 "options" 45 24 141) (mkPtok 3 "}" 50 3 155)) (mkPtok 1 "options" 45 24 141) (mkPtok 2 "{" 45 31 142) [(mkOptionDecl (mkSpan (mkPtok 42 "roots" 46 0 144) (mkPtok 41 ";" 48 8 147)) (mkPtok 42 "roots" 46 0 144) (mkPtok 4 "=" 47 4 145) (VTrue (mkSpan (mkPtok 10 "true" 48 4 146) (mkPtok 10 "true" 48 4 146)) (mkPtok 10 "true" 48 4 146)) (Some (mkPtok 41 ";" 48 8 147))); (mkOptionDecl (mkSpan (mkPtok 42 "int" 49 0 148) (mkPtok 41 ";" 49 11 151)) (mkPtok 42 "int" 49 0 148) (mkPtok 4 "=" 49 4 149) (VFalse (mkSpan (mkPtok 11 "false" 49 5 150) (mkPtok 11 "false" 49 5 150)) (mkPtok 11 "false" 49 5 150)) (Some (mkPtok 41 ";" 49 11 151))); (mkOptionDecl (mkSpan (mkPtok 42 "string_" 49 13 152) (mkPtok 31 """""" 50 0 154)) (mkPtok 42 "string_" 49 13 152) (mkPtok 4 "=" 49 20 153) (VString (mkSpan (mkPtok 31 """""" 50 0 154) (mkPtok 31 """""" 50 0 154)) (mkPtok 31 """""" 50 0 154)) None)] (mkPtok 3 "}" 50 3 155)))])).
Eval vm_compute in ("<<<M52>>>" ++ check (runes_of_ascii "//x
packet Header
    {
    body
// " ++ [27880; 37322]%N ++ runes_of_ascii "
// " ++ [27880; 37322]%N ++ runes_of_ascii "
@calculatedFrom(
    ""CRC32"" )
`it's` ,repeat
int64//x
msg_type // " ++ [128512]%N ++ runes_of_ascii " emoji
,
//	t
//
@tag( 0 ) zchar[ 0 //
]
    int
//	t
// @lengthOf(
, }
    // " ++ [128512]%N ++ runes_of_ascii " emoji
    options { Packet=
true
    MetaDataX =
""" ++ [28040; 24687]%N ++ runes_of_ascii """ A
    = string} root packet	Logon {
    @leftPad // " ++ [27880; 37322]%N ++ runes_of_ascii "
('0' //x
)Header//
leftPad `doc` ,
    f32a
    {	rootA @lengthOf( calculatedFrom )	, int8
Packet `line1
line2` , } , repeat calculatedFrom
    { // `tick` ""quote"" 'q'
match
packetx as len { 1:matchKey ,
0123456789 :repeatCount ,
""\" ++ [233]%N ++ runes_of_ascii """ :
float , 255:
    MetaDataX
, },} ,
//x
// " ++ [27880; 37322]%N ++ runes_of_ascii "
leftPad {  repeat roots{ //	t
roots
@calculatedFrom(/// triple
""abc"" ),int32
BodyLength @calculatedFrom( ""packet"" )
,
}	, match repeatCount as
matchKey { ""abc"" : u128 , """ ++ [128512]%N ++ runes_of_ascii """ : a1
, ""a\\""
:rootA ,	[  3,3 ]// c
:
x_y_z	007 :Foo
    } ,
}
, // c
repeat rootA	matchKey	`it's` //	t
,	a1
    @calculatedFrom(""x y"" )  `line1
line2` ,int	,
    @tag(
// trailing space 
//x
65535) match metadata as	As
{ ""x y"": Foo	,//x
[ // `tick` ""quote"" 'q'
""x y"" ]:
    tag
//
// a // b
, 3
    : pack } ,repeat int8 charz ,char[] body , }
options {
    MetaDataX = char[ 0 ] ; } // a // b")).
Eval vm_compute in ("<<<M84>>>" ++ check (runes_of_ascii "packet
zchar {@rightPad (// a // b
) uint8 a1 `line1
line2` , @calculatedFrom( ""x y"" ) match pack as	matchKey
{
    /// triple
    """ ++ [28040; 24687]%N ++ runes_of_ascii """  : //x
u128 ,
    3 : i64_
    ""a\""b""
    : As , } ,
// " ++ [27880; 37322]%N ++ runes_of_ascii "
// @lengthOf(
u8 Packet	@calculatedFrom( ""// no comment"" ) //x
,
    }
//
")).
Eval vm_compute in ("<<<M116>>>" ++ check (runes_of_ascii "MetaData crc { uint8x float
,}
// @lengthOf(
")).
Eval vm_compute in ("<<<M148>>>" ++ check (runes_of_ascii "options // `tick` ""quote"" 'q'
{ repeatCount = 3/// triple
}")).
Eval vm_compute in ("<<<M180>>>" ++ check (runes_of_ascii "MetaData T  {
char[] metadata ,
    // `tick` ""quote"" 'q'
    i8
Header
    //	t
    ,
u128 chars `a\` , char[
    42
] calculatedFrom
, } // packet A { u8 x, }
packet stringy {
    @rightPad( // c
)
    //	t
    string trueish
`two words`, } MetaData metadata{ zchar[//
007]x_y_z
, zchar[ 10 ] u	`// not a comment`
    , string u8x, char[]repeatCount// " ++ [128512]%N ++ runes_of_ascii " emoji
, zchar Pad ,u32 f32a
    `doc`
, } // `tick` ""quote"" 'q'")).
Eval vm_compute in ("<<<M212>>>" ++ check (@nil rune)).
Eval vm_compute in ("<<<M244>>>" ++ check (runes_of_ascii "// " ++ [128512]%N ++ runes_of_ascii " emoji
options {repeatCount = u32 ;tag = ' ' ; } // a // b")).
Eval vm_compute in ("<<<T244>>>" ++ terms [mkTok 44 (string_of_bytes [47; 47; 32; 240; 159; 152; 128; 32; 101; 109; 111; 106; 105]%N) 1 0 true; mkTok 1 "options" 2 0 false; mkTok 2 "{" 2 8 false; mkTok 42 "repeatCount" 2 9 false; mkTok 4 "=" 2 21 false; mkTok 22 "u32" 2 23 false; mkTok 41 ";" 2 27 false; mkTok 42 "tag" 2 28 false; mkTok 4 "=" 2 32 false; mkTok 33 "' '" 2 34 false; mkTok 41 ";" 2 38 false; mkTok 3 "}" 2 40 false; mkTok 44 "// a // b" 2 42 true; mkTok 0 "<EOF>" 2 51 false] (mkPacket (mkPtok 1 "options" 2 0 1) (Some (mkPtok 3 "}" 2 40 11)) [(DOption (mkOptionDef (mkSpan (mkPtok 1 "options" 2 0 1) (mkPtok 3 "}" 2 40 11)) (mkPtok 1 "options" 2 0 1) (mkPtok 2 "{" 2 8 2) [(mkOptionDecl (mkSpan (mkPtok 42 "repeatCount" 2 9 3) (mkPtok 41 ";" 2 27 6)) (mkPtok 42 "repeatCount" 2 9 3) (mkPtok 4 "=" 2 21 4) (VType (mkSpan (mkPtok 22 "u32" 2 23 5) (mkPtok 22 "u32" 2 23 5)) (TyBasic (mkSpan (mkPtok 22 "u32" 2 23 5) (mkPtok 22 "u32" 2 23 5)) (mkBasicType (mkSpan (mkPtok 22 "u32" 2 23 5) (mkPtok 22 "u32" 2 23 5)) (mkPtok 22 "u32" 2 23 5)))) (Some (mkPtok 41 ";" 2 27 6))); (mkOptionDecl (mkSpan (mkPtok 42 "tag" 2 28 7) (mkPtok 41 ";" 2 38 10)) (mkPtok 42 "tag" 2 28 7) (mkPtok 4 "=" 2 32 8) (VPaddingChar (mkSpan (mkPtok 33 "' '" 2 34 9) (mkPtok 33 "' '" 2 34 9)) (mkPtok 33 "' '" 2 34 9)) (Some (mkPtok 41 ";" 2 38 10)))] (mkPtok 3 "}" 2 40 11)))])).
Eval vm_compute in ("<<<M276>>>" ++ check (runes_of_ascii "
")).
Eval vm_compute in ("<<<M308>>>" ++ check (runes_of_ascii "MetaData roots { zchar[ 7 ] body , } packet trueish { repeat zchar[ 0123456789
] i8i8 `line1
line2`
//x
/// triple
, } packet u8x { x_y_z chars
, @calculatedFrom( """ ++ [28040; 24687]%N ++ runes_of_ascii """) @calculatedFrom(
    """ ++ [28040; 24687]%N ++ runes_of_ascii """ )
    @tag( 007) int64
Foo// trailing space 
,int8 _x`it's`
, match x as Foo {
[// c
65535,	""" ++ [233]%N ++ runes_of_ascii "t" ++ [233]%N ++ runes_of_ascii """	,""abc"" ,
""\" ++ [233]%N ++ runes_of_ascii """// @lengthOf(
,	10 ]: // packet A { u8 x, }
Pad
, } ,
body
{ match msg_type as uint8x {
""a\""b"" :	falsey 0 :  Packet""it's""
:lengthOf //	t
""" ++ [28040; 24687]%N ++ runes_of_ascii """:
charz ,} ,
    // a // b
    }	,	@tag( 42 )@calculatedFrom(
""\" ++ [233]%N ++ runes_of_ascii """
    )// c
@lengthOf(
u )
    repeat char
calculatedFrom	, @tag(
// @lengthOf(
// " ++ [128512]%N ++ runes_of_ascii " emoji
1  )
@rightPad ( '\x00'
) @lengthOf( f32a )
int16 pack
`" ++ [233]%N ++ runes_of_ascii "` , @lengthOf(
    // c
    A //x
) repeat
char[]
    options1 , } packet _x { @lengthOf(
    options1)  string
    u8x @lengthOf(
_x// a // b
), repeat
// " ++ [128512]%N ++ runes_of_ascii " emoji
// packet A { u8 x, }
Pad
{ As	{ matchKey chars ,
} ,// trailing space 
} ,repeat string crc
    //
    `line1
line2` ,
    //
    } packet crc{@calculatedFrom( ""{,}"" )  a1 u128 , } //	t")).
Eval vm_compute in ("<<<M340>>>" ++ check (runes_of_ascii "
root// packet A { u8 x, }
packet As
// c
// packet A { u8 x, }
{}	packet charz {metadata @calculatedFrom(
""{,}"" )
,repeat
zchar[	007
] T
`tab	here`, repeat tag
{
int8 crc `two words` , repeat o// @lengthOf(
{ repeat
// " ++ [128512]%N ++ runes_of_ascii " emoji
// trailing space 
f32a,
} , repeat i16 Z9_ `say ""hi""` , zchar[ // @lengthOf(
3] body @lengthOf( Packet )
,} , @lengthOf(
    o ) match uint8x as As
    {
255	:
T ,	},
f32a
    @lengthOf( leftPad )
    // `tick` ""quote"" 'q'
    ,BodyLength _x `u8 x,` ,
} packet BodyLength
{ }
packet
leftPad
{ @leftPad(
// " ++ [128512]%N ++ runes_of_ascii " emoji
// packet A { u8 x, }
' ') repeat zchar[ 10
]	_x ,}
    options{ int =65535 ;
    }
")).
Eval vm_compute in ("<<<M372>>>" ++ check (runes_of_ascii "MetaData u128 { char[]falsey ,u8  roots	, i8
u `doc`, packetx int ,
}// c
packet asx
{ }
options	{ matchKey= ""// no comment"" Logon
= char[]
    u128=
false options1 =' '
len
    = '\x00'  }")).
Eval vm_compute in ("<<<M404>>>" ++ check (runes_of_ascii "root
    packet
    stringy{	u8x @lengthOf( A)
    , match f32a as // trailing space 
options1
// " ++ [27880; 37322]%N ++ runes_of_ascii "
//	t
{[
""a\""b"" ,	0123456789 ] : trueish[
    ""a\\""
, 3
, 65535
    , 255 ,
    """ ++ [233]%N ++ runes_of_ascii "t" ++ [233]%N ++ runes_of_ascii """, 65535 , ""\" ++ [233]%N ++ runes_of_ascii """ ] // `tick` ""quote"" 'q'
:  body,},
@calculatedFrom( """ ++ [128512]%N ++ runes_of_ascii """ ) repeat uint16 int //
,repeat
/// triple
/// triple
tag	, @leftPad () match int as u8x //
{[ 65535 ,	""" ++ [233]%N ++ runes_of_ascii "t" ++ [233]%N ++ runes_of_ascii """
    ] :
    metadata
,
    }//x
, @rightPad  () repeat zchar[ 7
//	t
// packet A { u8 x, }
] Logon
//
//	t
`crlf
line`
, As
// " ++ [128512]%N ++ runes_of_ascii " emoji
// packet A { u8 x, }
{
int64 roots , } , // packet A { u8 x, }
@tag(255
) int64 charz @calculatedFrom(
""a	b"" ) , BodyLength lengthOf  ,float64
As,  }packet	Foo { char[ 4294967296 ]float `u8 x,`
    , } packet _x { }
")).
Eval vm_compute in ("<<<M436>>>" ++ check (runes_of_ascii "packet zchar { @calculatedFrom( ""a\\""
// @lengthOf(
// " ++ [27880; 37322]%N ++ runes_of_ascii "
)f32a`{ , }` , match // c
calculatedFrom as pack {""" ++ [233]%N ++ runes_of_ascii "t" ++ [233]%N ++ runes_of_ascii """
    // a // b
    :As , 0123456789
:
i8i8 ,4294967296	:
A , } ,
//x
// trailing space 
i32
    packetx `say ""hi""`, repeatCount
// `tick` ""quote"" 'q'
// " ++ [128512]%N ++ runes_of_ascii " emoji
{
//
/// triple
repeat falsey {rootA // c
{ T Logon	`a\`,
}
,char[
    007]
// trailing space 
// " ++ [27880; 37322]%N ++ runes_of_ascii "
A // trailing space 
, } , // trailing space 
} ,
repeat
// " ++ [128512]%N ++ runes_of_ascii " emoji
// " ++ [27880; 37322]%N ++ runes_of_ascii "
Packet
    {  int64
    matchKey
    ,
}
, // c
string _x `crlf
line` ,float
    { repeat
u8x {metadata@calculatedFrom( //
""a\\"" )`it's`
    ,
}
    , },
@lengthOf( o
)
    @tag(
00  ) @tag( 0123456789
    )
    // a // b
    falsey {repeat asx `crlf
line`, repeat // a // b
o , }  ,@tag( 00)
    match
// `tick` ""quote"" 'q'
// `tick` ""quote"" 'q'
float
    as Foo
    { """ ++ [128512]%N ++ runes_of_ascii """ : tag , } , @tag(
255 )	repeat i8i8 ,}// `tick` ""quote"" 'q'
packet As { i8 a1@lengthOf( options1/// triple
)	,}")).
Eval vm_compute in ("<<<M468>>>" ++ check (runes_of_ascii "// `tick` ""quote"" 'q'
packet
    trueish {
    @lengthOf(
MetaDataX ) uint8x	@calculatedFrom(""a\""b""  ) ,}")).
Eval vm_compute in ("<<<T468>>>" ++ terms [mkTok 44 "// `tick` ""quote"" 'q'" 1 0 true; mkTok 35 "packet" 2 0 false; mkTok 42 "trueish" 3 4 false; mkTok 2 "{" 3 12 false; mkTok 7 "@lengthOf(" 4 4 false; mkTok 42 "MetaDataX" 5 0 false; mkTok 6 ")" 5 10 false; mkTok 42 "uint8x" 5 12 false; mkTok 5 "@calculatedFrom(" 5 19 false; mkTok 31 """a\""b""" 5 35 false; mkTok 6 ")" 5 43 false; mkTok 40 "," 5 45 false; mkTok 3 "}" 5 46 false; mkTok 0 "<EOF>" 5 47 false] (mkPacket (mkPtok 35 "packet" 2 0 1) (Some (mkPtok 3 "}" 5 46 12)) [(DPacket (mkPacketDef (mkSpan (mkPtok 35 "packet" 2 0 1) (mkPtok 3 "}" 5 46 12)) None (mkPtok 35 "packet" 2 0 1) (mkPtok 42 "trueish" 3 4 2) (mkPtok 2 "{" 3 12 3) [(mkFieldWithAttr (mkSpan (mkPtok 7 "@lengthOf(" 4 4 4) (mkPtok 40 "," 5 45 11)) [(FALengthOf (mkSpan (mkPtok 7 "@lengthOf(" 4 4 4) (mkPtok 6 ")" 5 10 6)) (mkLengthOf (mkSpan (mkPtok 7 "@lengthOf(" 4 4 4) (mkPtok 6 ")" 5 10 6)) (mkPtok 7 "@lengthOf(" 4 4 4) (mkPtok 42 "MetaDataX" 5 0 5) (mkPtok 6 ")" 5 10 6)))] (CheckSumField (mkSpan (mkPtok 42 "uint8x" 5 12 7) (mkPtok 40 "," 5 45 11)) (mkChecksumFieldDecl (mkSpan (mkPtok 42 "uint8x" 5 12 7) (mkPtok 40 "," 5 45 11)) None (mkPtok 42 "uint8x" 5 12 7) (mkCalculatedFrom (mkSpan (mkPtok 5 "@calculatedFrom(" 5 19 8) (mkPtok 6 ")" 5 43 10)) (mkPtok 5 "@calculatedFrom(" 5 19 8) (mkPtok 31 """a\""b""" 5 35 9) (mkPtok 6 ")" 5 43 10)) None (mkPtok 40 "," 5 45 11))))] (mkPtok 3 "}" 5 46 12)))])).
Eval vm_compute in ("<<<M500>>>" ++ check (runes_of_ascii "//

")).
Eval vm_compute in ("<<<M532>>>" ++ check (runes_of_ascii "  packet trueish { match
    options1 as
    Packet{[
    ""a\\"" , 3	, ""\" ++ [233]%N ++ runes_of_ascii """ //
,0123456789 ]  : Packet
    ,""// no comment""
    : BodyLength,
[
    10 ]: //	t
stringy , """ ++ [28040; 24687]%N ++ runes_of_ascii """ :  metadata [  ""`tick`""
    ,
7 , ""// no comment"" ] :int ,65535 :
//x
// packet A { u8 x, }
packetx ,
    } ,}
    packet
    f32a
{  @calculatedFrom( //	t
""{,}"" )
char[] len `doc`
    , @leftPad
    ( '\x00'
    ) repeat char[] Z9_ `tab	here` ,
match MetaDataX
// c
// packet A { u8 x, }
as crc {
    ""a	b""
    :	Pad , 10
:
matchKey  [
1 ,""{,}"" ,3 ] :
    uint8x , ""x y"" :
    Header , 7 // trailing space 
: repeatCount ,[ ""a\\"" , ""a\""b""
    // " ++ [128512]%N ++ runes_of_ascii " emoji
    , 10] : a1 ,
} ,
@calculatedFrom(""a\\"" )
    //x
    @leftPad
// a // b
// trailing space 
( ) @leftPad
    ( '\x00'	)calculatedFrom
`tab	here` , @rightPad (// c
'\x00' )
    float32
body ,  } packet
    Pad {Packet
    @calculatedFrom(
    ""a	b""
// trailing space 
// a // b
), @tag(
4294967296
    ) @rightPad// " ++ [128512]%N ++ runes_of_ascii " emoji
( ) @calculatedFrom(
    // a // b
    ""1""	) repeat tag
    matchKey `" ++ [28040; 24687; 31867; 22411]%N ++ runes_of_ascii "` ,  @tag(
    4294967296)
@lengthOf(string_
    ) falsey
//
// " ++ [27880; 37322]%N ++ runes_of_ascii "
i64_
    , @tag( 0123456789 ) As
u `two words` , @leftPad ( '0' ) options1{ uint8 zchar // c
, }
    , @leftPad	( ) repeat uint32
    // a // b
    asx ,	metadata { // c
char[ 0 ] len @lengthOf(T ) , }	, zchar[ 3 ]uint8x @lengthOf( trueish // `tick` ""quote"" 'q'
) `" ++ [233]%N ++ runes_of_ascii "` , @calculatedFrom(  ""CRC32""
)
    roots@lengthOf( x
    ), }")).
Eval vm_compute in ("<<<M564>>>" ++ check (runes_of_ascii "// c
packet BodyLength { u { char[ 007] i8i8`a\` , pack{ match charz as // packet A { u8 x, }
Header
    { ""\n""
    : leftPad } , } , string u8x @calculatedFrom( """ ++ [233]%N ++ runes_of_ascii "t" ++ [233]%N ++ runes_of_ascii """	)	, } ,
}
")).
Eval vm_compute in ("<<<M596>>>" ++ check (runes_of_ascii "packet crc {
// c
//x
@tag( 0 )
    float64
    falsey @calculatedFrom( ""packet""
)
, match x as matchKey
    { 42: options1 0:  crc  ,  007 : u128 ,	} ,
@calculatedFrom(""" ++ [233]%N ++ runes_of_ascii "t" ++ [233]%N ++ runes_of_ascii """ )repeat i8i8{ zchar[4294967296] x @lengthOf( As
) ,
repeat int32 a1
,i32 x`" ++ [28040; 24687; 31867; 22411]%N ++ runes_of_ascii "` , },
    int @lengthOf( metadata ) ,	repeat
trueish, uint16 int , x_y_z @lengthOf( roots
// `tick` ""quote"" 'q'
//
)`" ++ [28040; 24687; 31867; 22411]%N ++ runes_of_ascii "` , }
// packet A { u8 x, }
")).
Eval vm_compute in ("<<<M628>>>" ++ check (runes_of_ascii "options{	i8i8 = 65535
; asx/// triple
=
float64 charz	= ""`tick`"" As//
=
    7 ;
    i8i8 = ""\n"" }
// `tick` ""quote"" 'q'
// " ++ [27880; 37322]%N ++ runes_of_ascii "
packet u{ } options	{
// packet A { u8 x, }
/// triple
f32a =10 chars // trailing space 
=
""\" ++ [233]%N ++ runes_of_ascii """ x =uint8 ;
metadata =42 ;  lengthOf =true ;}
    options {
// " ++ [27880; 37322]%N ++ runes_of_ascii "
// " ++ [128512]%N ++ runes_of_ascii " emoji
BodyLength = true
    ; }")).
Eval vm_compute in ("<<<M660>>>" ++ check (runes_of_ascii "// packet A { u8 x, }
MetaData
    matchKey	{	}
")).
Eval vm_compute in ("<<<M692>>>" ++ check (runes_of_ascii "MetaData a1 { x_y_z crc `say ""hi""` , uint16 i8i8 `// not a comment`
, char[] u `{ , }`
, Pad Header
, u32
    packetx `{ , }` , }
")).
Eval vm_compute in ("<<<T692>>>" ++ terms [mkTok 37 "MetaData" 1 0 false; mkTok 42 "a1" 1 9 false; mkTok 2 "{" 1 12 false; mkTok 42 "x_y_z" 1 14 false; mkTok 42 "crc" 1 20 false; mkTok 43 "`say ""hi""`" 1 24 false; mkTok 40 "," 1 35 false; mkTok 21 "uint16" 1 37 false; mkTok 42 "i8i8" 1 44 false; mkTok 43 "`// not a comment`" 1 49 false; mkTok 40 "," 2 0 false; mkTok 16 "char[]" 2 2 false; mkTok 42 "u" 2 9 false; mkTok 43 "`{ , }`" 2 11 false; mkTok 40 "," 3 0 false; mkTok 42 "Pad" 3 2 false; mkTok 42 "Header" 3 6 false; mkTok 40 "," 4 0 false; mkTok 22 "u32" 4 2 false; mkTok 42 "packetx" 5 4 false; mkTok 43 "`{ , }`" 5 12 false; mkTok 40 "," 5 20 false; mkTok 3 "}" 5 22 false; mkTok 0 "<EOF>" 6 0 false] (mkPacket (mkPtok 37 "MetaData" 1 0 0) (Some (mkPtok 3 "}" 5 22 22)) [(DMeta (mkMetaDef (mkSpan (mkPtok 37 "MetaData" 1 0 0) (mkPtok 3 "}" 5 22 22)) (mkPtok 37 "MetaData" 1 0 0) (mkPtok 42 "a1" 1 9 1) (mkPtok 2 "{" 1 12 2) [(MIRef (mkRefMetaDecl (mkSpan (mkPtok 42 "x_y_z" 1 14 3) (mkPtok 40 "," 1 35 6)) (mkPtok 42 "x_y_z" 1 14 3) (mkPtok 42 "crc" 1 20 4) (Some (mkPtok 43 "`say ""hi""`" 1 24 5)) (mkPtok 40 "," 1 35 6))); (MIDecl (mkMetaDecl (mkSpan (mkPtok 21 "uint16" 1 37 7) (mkPtok 40 "," 2 0 10)) (TyBasic (mkSpan (mkPtok 21 "uint16" 1 37 7) (mkPtok 21 "uint16" 1 37 7)) (mkBasicType (mkSpan (mkPtok 21 "uint16" 1 37 7) (mkPtok 21 "uint16" 1 37 7)) (mkPtok 21 "uint16" 1 37 7))) (mkPtok 42 "i8i8" 1 44 8) (Some (mkPtok 43 "`// not a comment`" 1 49 9)) (mkPtok 40 "," 2 0 10))); (MIDecl (mkMetaDecl (mkSpan (mkPtok 16 "char[]" 2 2 11) (mkPtok 40 "," 3 0 14)) (TyDynamic (mkSpan (mkPtok 16 "char[]" 2 2 11) (mkPtok 16 "char[]" 2 2 11)) (mkDynamicString (mkSpan (mkPtok 16 "char[]" 2 2 11) (mkPtok 16 "char[]" 2 2 11)) (mkPtok 16 "char[]" 2 2 11))) (mkPtok 42 "u" 2 9 12) (Some (mkPtok 43 "`{ , }`" 2 11 13)) (mkPtok 40 "," 3 0 14))); (MIRef (mkRefMetaDecl (mkSpan (mkPtok 42 "Pad" 3 2 15) (mkPtok 40 "," 4 0 17)) (mkPtok 42 "Pad" 3 2 15) (mkPtok 42 "Header" 3 6 16) None (mkPtok 40 "," 4 0 17))); (MIDecl (mkMetaDecl (mkSpan (mkPtok 22 "u32" 4 2 18) (mkPtok 40 "," 5 20 21)) (TyBasic (mkSpan (mkPtok 22 "u32" 4 2 18) (mkPtok 22 "u32" 4 2 18)) (mkBasicType (mkSpan (mkPtok 22 "u32" 4 2 18) (mkPtok 22 "u32" 4 2 18)) (mkPtok 22 "u32" 4 2 18))) (mkPtok 42 "packetx" 5 4 19) (Some (mkPtok 43 "`{ , }`" 5 12 20)) (mkPtok 40 "," 5 20 21)))] (mkPtok 3 "}" 5 22 22)))])).
Eval vm_compute in ("<<<M724>>>" ++ check (runes_of_ascii "packet
MetaDataX
{
    matchKey , }packet x
    { i32 msg_type
,leftPad
{ string Logon // " ++ [27880; 37322]%N ++ runes_of_ascii "
@lengthOf(body )
    ,} ,/// triple
repeat
    options1
{
    i8i8 msg_type `a\` , } , @tag( 0
)
    @leftPad() // `tick` ""quote"" 'q'
int64 f32a
@lengthOf( asx) `tab	here`,char[]  pack
`" ++ [28040; 24687; 31867; 22411]%N ++ runes_of_ascii "` , //x
@lengthOf(	stringy ) repeat leftPad  , @leftPad // packet A { u8 x, }
( ' '//	t
) @leftPad (  )
    match Logon	as roots{//x
""`tick`""// a // b
:
string_
,	}	, @tag(
    0123456789// `tick` ""quote"" 'q'
)
@calculatedFrom(
    ""1""
) @leftPad(
) u32	x_y_z @calculatedFrom(
""\" ++ [233]%N ++ runes_of_ascii """ )
    ,}
")).
Eval vm_compute in ("<<<M756>>>" ++ check (runes_of_ascii "MetaData u { u128 tag `
`
, zchar[ 10 ] pack `say ""hi""`, string metadata`doc` , } packet
    chars
    {	match
    crc as trueish {
    // " ++ [27880; 37322]%N ++ runes_of_ascii "
    10: roots [ """ ++ [28040; 24687]%N ++ runes_of_ascii """ ,
    """" ,4294967296 , ""\n"" ,
007 ,
    ""a\""b"" , """"
, // `tick` ""quote"" 'q'
42  ]  : string_ ""{,}"" :	x_y_z,} ,
i8i8
int, asx
    ,}
//	t
")).
Eval vm_compute in ("<<<M788>>>" ++ check (runes_of_ascii "MetaData Foo { char[ 4294967296  ] BodyLength
    //
    `tab	here`
, }
")).
Eval vm_compute in ("<<<M820>>>" ++ check (runes_of_ascii "
packet i8i8 { match tag
as  i8i8
    { """ ++ [28040; 24687]%N ++ runes_of_ascii """ : pack ,
3
: rootA , [	1, //	t
3
]:falsey, }  ,
// " ++ [128512]%N ++ runes_of_ascii " emoji
// trailing space 
zchar[
10 ]string_ , // @lengthOf(
}packet falsey{string chars ,
uint8x
,@lengthOf( packetx ) char[]
Packet, }MetaData a1 {
chars roots
    //
    `crlf
line` , /// triple
asx zchar ,}
")).
Eval vm_compute in ("<<<M852>>>" ++ check (runes_of_ascii "//
options {
    Z9_  =	65535; } 	 ")).
Eval vm_compute in ("<<<M884>>>" ++ check (runes_of_ascii "packet stringy
{
repeat
    roots  {
    u64 pack
`doc` , char[ 7 ] Z9_@calculatedFrom(""abc"" )
`` , zchar lengthOf  `
` ,
}
, }")).
Eval vm_compute in ("<<<M916>>>" ++ check (runes_of_ascii "root packet crc	{ @calculatedFrom(""1""	) f32 x
, @calculatedFrom( ""// no comment""
)//x
string	chars ,	@calculatedFrom(  ""a\""b""
) @rightPad ( )
    @tag(
    7 )match A as matchKey {[ 42 ]:msg_type""x y"" : lengthOf
    ""a\\""
: packetx /// triple
,[""`tick`"",""x y""
, ""a\""b"" ,// packet A { u8 x, }
""x y""
, 00 ,
""it's""
    , 7
, """"
    ]: Logon }// a // b
,	@lengthOf(  falsey )repeat falsey `u8 x,` , u8x
{ int16
lengthOf
    `u8 x,` , f32a// " ++ [128512]%N ++ runes_of_ascii " emoji
packetx,
} , lengthOf @lengthOf(
calculatedFrom ) , @rightPad
('0')	f32	f32a ,
//
// packet A { u8 x, }
@calculatedFrom( """ ++ [128512]%N ++ runes_of_ascii """)tag ,
// " ++ [27880; 37322]%N ++ runes_of_ascii "
//x
string zchar `// not a comment` ,} MetaData matchKey {
    }	packet uint8x {
// a // b
//x
repeat lengthOf
// a // b
// @lengthOf(
{u16 u128 //
,Pad  , } , @tag( 4294967296	)
@calculatedFrom(	""x y"" ) @tag(	0) char[4294967296 ] options1 @calculatedFrom( ""CRC32"" )	,@rightPad ('\x00') repeat
    string
asx `a\` // " ++ [128512]%N ++ runes_of_ascii " emoji
, @calculatedFrom(
""" ++ [128512]%N ++ runes_of_ascii """ )	char[255
] len
@calculatedFrom(
""" ++ [233]%N ++ runes_of_ascii "t" ++ [233]%N ++ runes_of_ascii """ ) ,
@calculatedFrom( //x
""{,}"" )
repeat zchar
    calculatedFrom, @calculatedFrom( """ ++ [233]%N ++ runes_of_ascii "t" ++ [233]%N ++ runes_of_ascii """
    )string  o @lengthOf( u) ,uint64 falsey
    // " ++ [128512]%N ++ runes_of_ascii " emoji
    @calculatedFrom( ""\" ++ [233]%N ++ runes_of_ascii """ ) , zchar[ 65535 ] stringy @calculatedFrom( ""1""
), As , }packet BodyLength{  repeat uint32 body , zchar[ 65535 ]
    //	t
    Header ,As i8i8 `tab	here`,@calculatedFrom( """ ++ [128512]%N ++ runes_of_ascii """
    ) @rightPad( // trailing space 
'0'
) @tag(65535 )
    Pad { string
u128
, },@tag(  255 )
    @leftPad() @lengthOf(f32a) repeat o	,repeat i8i8{repeat f32a /// triple
float`line1
line2`, repeat char[ 0123456789 ]pack	`tab	here` , // `tick` ""quote"" 'q'
char[] x ,} ,
    @calculatedFrom(	"""" )
@lengthOf(lengthOf
    ) repeat char[ 65535 ] Foo , pack lengthOf , repeat Pad , }
packet // " ++ [128512]%N ++ runes_of_ascii " emoji
u8x {
    //
    @tag( // `tick` ""quote"" 'q'
255 ) repeat
zchar[ // trailing space 
4294967296
]
pack ,// " ++ [128512]%N ++ runes_of_ascii " emoji
char[ 0123456789 ] charz// trailing space 
@calculatedFrom( //x
""a\""b"" )// packet A { u8 x, }
,
    //
    @lengthOf( Header
)
// c
//x
f32a
    {  u128 @calculatedFrom(
    """"
    // " ++ [128512]%N ++ runes_of_ascii " emoji
    )
    `line1
line2` , T @calculatedFrom( ""a\""b""
)
, int32	lengthOf @lengthOf(
    msg_type  ) ,
Foo@calculatedFrom(
    ""a\""b""
) ,
} , }")).
Eval vm_compute in ("<<<T916>>>" ++ terms [mkTok 34 "root" 1 0 false; mkTok 35 "packet" 1 5 false; mkTok 42 "crc" 1 12 false; mkTok 2 "{" 1 16 false; mkTok 5 "@calculatedFrom(" 1 18 false; mkTok 31 """1""" 1 34 false; mkTok 6 ")" 1 38 false; mkTok 28 "f32" 1 40 false; mkTok 42 "x" 1 44 false; mkTok 40 "," 2 0 false; mkTok 5 "@calculatedFrom(" 2 2 false; mkTok 31 """// no comment""" 2 19 false; mkTok 6 ")" 3 0 false; mkTok 44 "//x" 3 1 true; mkTok 15 "string" 4 0 false; mkTok 42 "chars" 4 7 false; mkTok 40 "," 4 13 false; mkTok 5 "@calculatedFrom(" 4 15 false; mkTok 31 """a\""b""" 4 33 false; mkTok 6 ")" 5 0 false; mkTok 32 "@rightPad" 5 2 false; mkTok 8 "(" 5 12 false; mkTok 6 ")" 5 14 false; mkTok 9 "@tag(" 6 4 false; mkTok 30 "7" 7 4 false; mkTok 6 ")" 7 6 false; mkTok 38 "match" 7 7 false; mkTok 42 "A" 7 13 false; mkTok 17 "as" 7 15 false; mkTok 42 "matchKey" 7 18 false; mkTok 2 "{" 7 27 false; mkTok 18 "[" 7 28 false; mkTok 30 "42" 7 30 false; mkTok 13 "]" 7 33 false; mkTok 39 ":" 7 34 false; mkTok 42 "msg_type" 7 35 false; mkTok 31 """x y""" 7 43 false; mkTok 39 ":" 7 49 false; mkTok 42 "lengthOf" 7 51 false; mkTok 31 """a\\""" 8 4 false; mkTok 39 ":" 9 0 false; mkTok 42 "packetx" 9 2 false; mkTok 44 "/// triple" 9 10 true; mkTok 40 "," 10 0 false; mkTok 18 "[" 10 1 false; mkTok 31 """`tick`""" 10 2 false; mkTok 40 "," 10 10 false; mkTok 31 """x y""" 10 11 false; mkTok 40 "," 11 0 false; mkTok 31 """a\""b""" 11 2 false; mkTok 40 "," 11 9 false; mkTok 44 "// packet A { u8 x, }" 11 10 true; mkTok 31 """x y""" 12 0 false; mkTok 40 "," 13 0 false; mkTok 30 "00" 13 2 false; mkTok 40 "," 13 5 false; mkTok 31 """it's""" 14 0 false; mkTok 40 "," 15 4 false; mkTok 30 "7" 15 6 false; mkTok 40 "," 16 0 false; mkTok 31 """""" 16 2 false; mkTok 13 "]" 17 4 false; mkTok 39 ":" 17 5 false; mkTok 42 "Logon" 17 7 false; mkTok 3 "}" 17 13 false; mkTok 44 "// a // b" 17 14 true; mkTok 40 "," 18 0 false; mkTok 7 "@lengthOf(" 18 2 false; mkTok 42 "falsey" 18 14 false; mkTok 6 ")" 18 21 false; mkTok 36 "repeat" 18 22 false; mkTok 42 "falsey" 18 29 false; mkTok 43 "`u8 x,`" 18 36 false; mkTok 40 "," 18 44 false; mkTok 42 "u8x" 18 46 false; mkTok 2 "{" 19 0 false; mkTok 25 "int16" 19 2 false; mkTok 42 "lengthOf" 20 0 false; mkTok 43 "`u8 x,`" 21 4 false; mkTok 40 "," 21 12 false; mkTok 42 "f32a" 21 14 false; mkTok 44 (string_of_bytes [47; 47; 32; 240; 159; 152; 128; 32; 101; 109; 111; 106; 105]%N) 21 18 true; mkTok 42 "packetx" 22 0 false; mkTok 40 "," 22 7 false; mkTok 3 "}" 23 0 false; mkTok 40 "," 23 2 false; mkTok 42 "lengthOf" 23 4 false; mkTok 7 "@lengthOf(" 23 13 false; mkTok 42 "calculatedFrom" 24 0 false; mkTok 6 ")" 24 15 false; mkTok 40 "," 24 17 false; mkTok 32 "@rightPad" 24 19 false; mkTok 8 "(" 25 0 false; mkTok 33 "'0'" 25 1 false; mkTok 6 ")" 25 4 false; mkTok 28 "f32" 25 6 false; mkTok 42 "f32a" 25 10 false; mkTok 40 "," 25 15 false; mkTok 44 "//" 26 0 true; mkTok 44 "// packet A { u8 x, }" 27 0 true; mkTok 5 "@calculatedFrom(" 28 0 false; mkTok 31 (string_of_bytes [34; 240; 159; 152; 128; 34]%N) 28 17 false; mkTok 6 ")" 28 20 false; mkTok 42 "tag" 28 21 false; mkTok 40 "," 28 25 false; mkTok 44 (string_of_bytes [47; 47; 32; 230; 179; 168; 233; 135; 138]%N) 29 0 true; mkTok 44 "//x" 30 0 true; mkTok 15 "string" 31 0 false; mkTok 42 "zchar" 31 7 false; mkTok 43 "`// not a comment`" 31 13 false; mkTok 40 "," 31 32 false; mkTok 3 "}" 31 33 false; mkTok 37 "MetaData" 31 35 false; mkTok 42 "matchKey" 31 44 false; mkTok 2 "{" 31 53 false; mkTok 3 "}" 32 4 false; mkTok 35 "packet" 32 6 false; mkTok 42 "uint8x" 32 13 false; mkTok 2 "{" 32 20 false; mkTok 44 "// a // b" 33 0 true; mkTok 44 "//x" 34 0 true; mkTok 36 "repeat" 35 0 false; mkTok 42 "lengthOf" 35 7 false; mkTok 44 "// a // b" 36 0 true; mkTok 44 "// @lengthOf(" 37 0 true; mkTok 2 "{" 38 0 false; mkTok 21 "u16" 38 1 false; mkTok 42 "u128" 38 5 false; mkTok 44 "//" 38 10 true; mkTok 40 "," 39 0 false; mkTok 42 "Pad" 39 1 false; mkTok 40 "," 39 6 false; mkTok 3 "}" 39 8 false; mkTok 40 "," 39 10 false; mkTok 9 "@tag(" 39 12 false; mkTok 30 "4294967296" 39 18 false; mkTok 6 ")" 39 29 false; mkTok 5 "@calculatedFrom(" 40 0 false; mkTok 31 """x y""" 40 17 false; mkTok 6 ")" 40 23 false; mkTok 9 "@tag(" 40 25 false; mkTok 30 "0" 40 31 false; mkTok 6 ")" 40 32 false; mkTok 12 "char[" 40 34 false; mkTok 30 "4294967296" 40 39 false; mkTok 13 "]" 40 50 false; mkTok 42 "options1" 40 52 false; mkTok 5 "@calculatedFrom(" 40 61 false; mkTok 31 """CRC32""" 40 78 false; mkTok 6 ")" 40 86 false; mkTok 40 "," 40 88 false; mkTok 32 "@rightPad" 40 89 false; mkTok 8 "(" 40 99 false; mkTok 33 "'\x00'" 40 100 false; mkTok 6 ")" 40 106 false; mkTok 36 "repeat" 40 108 false; mkTok 15 "string" 41 4 false; mkTok 42 "asx" 42 0 false; mkTok 43 "`a\`" 42 4 false; mkTok 44 (string_of_bytes [47; 47; 32; 240; 159; 152; 128; 32; 101; 109; 111; 106; 105]%N) 42 9 true; mkTok 40 "," 43 0 false; mkTok 5 "@calculatedFrom(" 43 2 false; mkTok 31 (string_of_bytes [34; 240; 159; 152; 128; 34]%N) 44 0 false; mkTok 6 ")" 44 4 false; mkTok 12 "char[" 44 6 false; mkTok 30 "255" 44 11 false; mkTok 13 "]" 45 0 false; mkTok 42 "len" 45 2 false; mkTok 5 "@calculatedFrom(" 46 0 false; mkTok 31 (string_of_bytes [34; 195; 169; 116; 195; 169; 34]%N) 47 0 false; mkTok 6 ")" 47 6 false; mkTok 40 "," 47 8 false; mkTok 5 "@calculatedFrom(" 48 0 false; mkTok 44 "//x" 48 17 true; mkTok 31 """{,}""" 49 0 false; mkTok 6 ")" 49 6 false; mkTok 36 "repeat" 50 0 false; mkTok 42 "zchar" 50 7 false; mkTok 42 "calculatedFrom" 51 4 false; mkTok 40 "," 51 18 false; mkTok 5 "@calculatedFrom(" 51 20 false; mkTok 31 (string_of_bytes [34; 195; 169; 116; 195; 169; 34]%N) 51 37 false; mkTok 6 ")" 52 4 false; mkTok 15 "string" 52 5 false; mkTok 42 "o" 52 13 false; mkTok 7 "@lengthOf(" 52 15 false; mkTok 42 "u" 52 26 false; mkTok 6 ")" 52 27 false; mkTok 40 "," 52 29 false; mkTok 23 "uint64" 52 30 false; mkTok 42 "falsey" 52 37 false; mkTok 44 (string_of_bytes [47; 47; 32; 240; 159; 152; 128; 32; 101; 109; 111; 106; 105]%N) 53 4 true; mkTok 5 "@calculatedFrom(" 54 4 false; mkTok 31 (string_of_bytes [34; 92; 195; 169; 34]%N) 54 21 false; mkTok 6 ")" 54 26 false; mkTok 40 "," 54 28 false; mkTok 14 "zchar[" 54 30 false; mkTok 30 "65535" 54 37 false; mkTok 13 "]" 54 43 false; mkTok 42 "stringy" 54 45 false; mkTok 5 "@calculatedFrom(" 54 53 false; mkTok 31 """1""" 54 70 false; mkTok 6 ")" 55 0 false; mkTok 40 "," 55 1 false; mkTok 42 "As" 55 3 false; mkTok 40 "," 55 6 false; mkTok 3 "}" 55 8 false; mkTok 35 "packet" 55 9 false; mkTok 42 "BodyLength" 55 16 false; mkTok 2 "{" 55 26 false; mkTok 36 "repeat" 55 29 false; mkTok 22 "uint32" 55 36 false; mkTok 42 "body" 55 43 false; mkTok 40 "," 55 48 false; mkTok 14 "zchar[" 55 50 false; mkTok 30 "65535" 55 57 false; mkTok 13 "]" 55 63 false; mkTok 44 (string_of_bytes [47; 47; 9; 116]%N) 56 4 true; mkTok 42 "Header" 57 4 false; mkTok 40 "," 57 11 false; mkTok 42 "As" 57 12 false; mkTok 42 "i8i8" 57 15 false; mkTok 43 (string_of_bytes [96; 116; 97; 98; 9; 104; 101; 114; 101; 96]%N) 57 20 false; mkTok 40 "," 57 30 false; mkTok 5 "@calculatedFrom(" 57 31 false; mkTok 31 (string_of_bytes [34; 240; 159; 152; 128; 34]%N) 57 48 false; mkTok 6 ")" 58 4 false; mkTok 32 "@rightPad" 58 6 false; mkTok 8 "(" 58 15 false; mkTok 44 "// trailing space " 58 17 true; mkTok 33 "'0'" 59 0 false; mkTok 6 ")" 60 0 false; mkTok 9 "@tag(" 60 2 false; mkTok 30 "65535" 60 7 false; mkTok 6 ")" 60 13 false; mkTok 42 "Pad" 61 4 false; mkTok 2 "{" 61 8 false; mkTok 15 "string" 61 10 false; mkTok 42 "u128" 62 0 false; mkTok 40 "," 63 0 false; mkTok 3 "}" 63 2 false; mkTok 40 "," 63 3 false; mkTok 9 "@tag(" 63 4 false; mkTok 30 "255" 63 11 false; mkTok 6 ")" 63 15 false; mkTok 32 "@leftPad" 64 4 false; mkTok 8 "(" 64 12 false; mkTok 6 ")" 64 13 false; mkTok 7 "@lengthOf(" 64 15 false; mkTok 42 "f32a" 64 25 false; mkTok 6 ")" 64 29 false; mkTok 36 "repeat" 64 31 false; mkTok 42 "o" 64 38 false; mkTok 40 "," 64 40 false; mkTok 36 "repeat" 64 41 false; mkTok 42 "i8i8" 64 48 false; mkTok 2 "{" 64 52 false; mkTok 36 "repeat" 64 53 false; mkTok 42 "f32a" 64 60 false; mkTok 44 "/// triple" 64 65 true; mkTok 42 "float" 65 0 false; mkTok 43 (string_of_bytes [96; 108; 105; 110; 101; 49; 10; 108; 105; 110; 101; 50; 96]%N) 65 5 false; mkTok 40 "," 66 6 false; mkTok 36 "repeat" 66 8 false; mkTok 12 "char[" 66 15 false; mkTok 30 "0123456789" 66 21 false; mkTok 13 "]" 66 32 false; mkTok 42 "pack" 66 33 false; mkTok 43 (string_of_bytes [96; 116; 97; 98; 9; 104; 101; 114; 101; 96]%N) 66 38 false; mkTok 40 "," 66 49 false; mkTok 44 "// `tick` ""quote"" 'q'" 66 51 true; mkTok 16 "char[]" 67 0 false; mkTok 42 "x" 67 7 false; mkTok 40 "," 67 9 false; mkTok 3 "}" 67 10 false; mkTok 40 "," 67 12 false; mkTok 5 "@calculatedFrom(" 68 4 false; mkTok 31 """""" 68 21 false; mkTok 6 ")" 68 24 false; mkTok 7 "@lengthOf(" 69 0 false; mkTok 42 "lengthOf" 69 10 false; mkTok 6 ")" 70 4 false; mkTok 36 "repeat" 70 6 false; mkTok 12 "char[" 70 13 false; mkTok 30 "65535" 70 19 false; mkTok 13 "]" 70 25 false; mkTok 42 "Foo" 70 27 false; mkTok 40 "," 70 31 false; mkTok 42 "pack" 70 33 false; mkTok 42 "lengthOf" 70 38 false; mkTok 40 "," 70 47 false; mkTok 36 "repeat" 70 49 false; mkTok 42 "Pad" 70 56 false; mkTok 40 "," 70 60 false; mkTok 3 "}" 70 62 false; mkTok 35 "packet" 71 0 false; mkTok 44 (string_of_bytes [47; 47; 32; 240; 159; 152; 128; 32; 101; 109; 111; 106; 105]%N) 71 7 true; mkTok 42 "u8x" 72 0 false; mkTok 2 "{" 72 4 false; mkTok 44 "//" 73 4 true; mkTok 9 "@tag(" 74 4 false; mkTok 44 "// `tick` ""quote"" 'q'" 74 10 true; mkTok 30 "255" 75 0 false; mkTok 6 ")" 75 4 false; mkTok 36 "repeat" 75 6 false; mkTok 14 "zchar[" 76 0 false; mkTok 44 "// trailing space " 76 7 true; mkTok 30 "4294967296" 77 0 false; mkTok 13 "]" 78 0 false; mkTok 42 "pack" 79 0 false; mkTok 40 "," 79 5 false; mkTok 44 (string_of_bytes [47; 47; 32; 240; 159; 152; 128; 32; 101; 109; 111; 106; 105]%N) 79 6 true; mkTok 12 "char[" 80 0 false; mkTok 30 "0123456789" 80 6 false; mkTok 13 "]" 80 17 false; mkTok 42 "charz" 80 19 false; mkTok 44 "// trailing space " 80 24 true; mkTok 5 "@calculatedFrom(" 81 0 false; mkTok 44 "//x" 81 17 true; mkTok 31 """a\""b""" 82 0 false; mkTok 6 ")" 82 7 false; mkTok 44 "// packet A { u8 x, }" 82 8 true; mkTok 40 "," 83 0 false; mkTok 44 "//" 84 4 true; mkTok 7 "@lengthOf(" 85 4 false; mkTok 42 "Header" 85 15 false; mkTok 6 ")" 86 0 false; mkTok 44 "// c" 87 0 true; mkTok 44 "//x" 88 0 true; mkTok 42 "f32a" 89 0 false; mkTok 2 "{" 90 4 false; mkTok 42 "u128" 90 7 false; mkTok 5 "@calculatedFrom(" 90 12 false; mkTok 31 """""" 91 4 false; mkTok 44 (string_of_bytes [47; 47; 32; 240; 159; 152; 128; 32; 101; 109; 111; 106; 105]%N) 92 4 true; mkTok 6 ")" 93 4 false; mkTok 43 (string_of_bytes [96; 108; 105; 110; 101; 49; 10; 108; 105; 110; 101; 50; 96]%N) 94 4 false; mkTok 40 "," 95 7 false; mkTok 42 "T" 95 9 false; mkTok 5 "@calculatedFrom(" 95 11 false; mkTok 31 """a\""b""" 95 28 false; mkTok 6 ")" 96 0 false; mkTok 40 "," 97 0 false; mkTok 26 "int32" 97 2 false; mkTok 42 "lengthOf" 97 8 false; mkTok 7 "@lengthOf(" 97 17 false; mkTok 42 "msg_type" 98 4 false; mkTok 6 ")" 98 14 false; mkTok 40 "," 98 16 false; mkTok 42 "Foo" 99 0 false; mkTok 5 "@calculatedFrom(" 99 3 false; mkTok 31 """a\""b""" 100 4 false; mkTok 6 ")" 101 0 false; mkTok 40 "," 101 2 false; mkTok 3 "}" 102 0 false; mkTok 40 "," 102 2 false; mkTok 3 "}" 102 4 false; mkTok 0 "<EOF>" 102 5 false] (mkPacket (mkPtok 34 "root" 1 0 0) (Some (mkPtok 3 "}" 102 4 356)) [(DPacket (mkPacketDef (mkSpan (mkPtok 34 "root" 1 0 0) (mkPtok 3 "}" 31 33 111)) (Some (mkPtok 34 "root" 1 0 0)) (mkPtok 35 "packet" 1 5 1) (mkPtok 42 "crc" 1 12 2) (mkPtok 2 "{" 1 16 3) [(mkFieldWithAttr (mkSpan (mkPtok 5 "@calculatedFrom(" 1 18 4) (mkPtok 40 "," 2 0 9)) [(FACalculatedFrom (mkSpan (mkPtok 5 "@calculatedFrom(" 1 18 4) (mkPtok 6 ")" 1 38 6)) (mkCalculatedFrom (mkSpan (mkPtok 5 "@calculatedFrom(" 1 18 4) (mkPtok 6 ")" 1 38 6)) (mkPtok 5 "@calculatedFrom(" 1 18 4) (mkPtok 31 """1""" 1 34 5) (mkPtok 6 ")" 1 38 6)))] (MetaField (mkSpan (mkPtok 28 "f32" 1 40 7) (mkPtok 40 "," 2 0 9)) None (mkMetaDecl (mkSpan (mkPtok 28 "f32" 1 40 7) (mkPtok 40 "," 2 0 9)) (TyBasic (mkSpan (mkPtok 28 "f32" 1 40 7) (mkPtok 28 "f32" 1 40 7)) (mkBasicType (mkSpan (mkPtok 28 "f32" 1 40 7) (mkPtok 28 "f32" 1 40 7)) (mkPtok 28 "f32" 1 40 7))) (mkPtok 42 "x" 1 44 8) None (mkPtok 40 "," 2 0 9)))); (mkFieldWithAttr (mkSpan (mkPtok 5 "@calculatedFrom(" 2 2 10) (mkPtok 40 "," 4 13 16)) [(FACalculatedFrom (mkSpan (mkPtok 5 "@calculatedFrom(" 2 2 10) (mkPtok 6 ")" 3 0 12)) (mkCalculatedFrom (mkSpan (mkPtok 5 "@calculatedFrom(" 2 2 10) (mkPtok 6 ")" 3 0 12)) (mkPtok 5 "@calculatedFrom(" 2 2 10) (mkPtok 31 """// no comment""" 2 19 11) (mkPtok 6 ")" 3 0 12)))] (MetaField (mkSpan (mkPtok 15 "string" 4 0 14) (mkPtok 40 "," 4 13 16)) None (mkMetaDecl (mkSpan (mkPtok 15 "string" 4 0 14) (mkPtok 40 "," 4 13 16)) (TyDynamic (mkSpan (mkPtok 15 "string" 4 0 14) (mkPtok 15 "string" 4 0 14)) (mkDynamicString (mkSpan (mkPtok 15 "string" 4 0 14) (mkPtok 15 "string" 4 0 14)) (mkPtok 15 "string" 4 0 14))) (mkPtok 42 "chars" 4 7 15) None (mkPtok 40 "," 4 13 16)))); (mkFieldWithAttr (mkSpan (mkPtok 5 "@calculatedFrom(" 4 15 17) (mkPtok 40 "," 18 0 66)) [(FACalculatedFrom (mkSpan (mkPtok 5 "@calculatedFrom(" 4 15 17) (mkPtok 6 ")" 5 0 19)) (mkCalculatedFrom (mkSpan (mkPtok 5 "@calculatedFrom(" 4 15 17) (mkPtok 6 ")" 5 0 19)) (mkPtok 5 "@calculatedFrom(" 4 15 17) (mkPtok 31 """a\""b""" 4 33 18) (mkPtok 6 ")" 5 0 19))); (FAPadding (mkSpan (mkPtok 32 "@rightPad" 5 2 20) (mkPtok 6 ")" 5 14 22)) (mkPaddingAttr (mkSpan (mkPtok 32 "@rightPad" 5 2 20) (mkPtok 6 ")" 5 14 22)) (mkPtok 32 "@rightPad" 5 2 20) (mkPtok 8 "(" 5 12 21) None (mkPtok 6 ")" 5 14 22))); (FATag (mkSpan (mkPtok 9 "@tag(" 6 4 23) (mkPtok 6 ")" 7 6 25)) (mkTagAttr (mkSpan (mkPtok 9 "@tag(" 6 4 23) (mkPtok 6 ")" 7 6 25)) (mkPtok 9 "@tag(" 6 4 23) (mkPtok 30 "7" 7 4 24) (mkPtok 6 ")" 7 6 25)))] (MatchField (mkSpan (mkPtok 38 "match" 7 7 26) (mkPtok 40 "," 18 0 66)) (mkMatchFieldDecl (mkSpan (mkPtok 38 "match" 7 7 26) (mkPtok 3 "}" 17 13 64)) (mkPtok 38 "match" 7 7 26) (mkPtok 42 "A" 7 13 27) (mkPtok 17 "as" 7 15 28) (mkPtok 42 "matchKey" 7 18 29) (mkPtok 2 "{" 7 27 30) [(mkMatchPair (mkSpan (mkPtok 18 "[" 7 28 31) (mkPtok 42 "msg_type" 7 35 35)) (MKList (mkKeyList (mkSpan (mkPtok 18 "[" 7 28 31) (mkPtok 13 "]" 7 33 33)) (mkPtok 18 "[" 7 28 31) (mkPtok 30 "42" 7 30 32) [] (mkPtok 13 "]" 7 33 33))) (mkPtok 39 ":" 7 34 34) (mkPtok 42 "msg_type" 7 35 35) None); (mkMatchPair (mkSpan (mkPtok 31 """x y""" 7 43 36) (mkPtok 42 "lengthOf" 7 51 38)) (MKString (mkPtok 31 """x y""" 7 43 36)) (mkPtok 39 ":" 7 49 37) (mkPtok 42 "lengthOf" 7 51 38) None); (mkMatchPair (mkSpan (mkPtok 31 """a\\""" 8 4 39) (mkPtok 40 "," 10 0 43)) (MKString (mkPtok 31 """a\\""" 8 4 39)) (mkPtok 39 ":" 9 0 40) (mkPtok 42 "packetx" 9 2 41) (Some (mkPtok 40 "," 10 0 43))); (mkMatchPair (mkSpan (mkPtok 18 "[" 10 1 44) (mkPtok 42 "Logon" 17 7 63)) (MKList (mkKeyList (mkSpan (mkPtok 18 "[" 10 1 44) (mkPtok 13 "]" 17 4 61)) (mkPtok 18 "[" 10 1 44) (mkPtok 31 """`tick`""" 10 2 45) [((mkPtok 40 "," 10 10 46), (mkPtok 31 """x y""" 10 11 47)); ((mkPtok 40 "," 11 0 48), (mkPtok 31 """a\""b""" 11 2 49)); ((mkPtok 40 "," 11 9 50), (mkPtok 31 """x y""" 12 0 52)); ((mkPtok 40 "," 13 0 53), (mkPtok 30 "00" 13 2 54)); ((mkPtok 40 "," 13 5 55), (mkPtok 31 """it's""" 14 0 56)); ((mkPtok 40 "," 15 4 57), (mkPtok 30 "7" 15 6 58)); ((mkPtok 40 "," 16 0 59), (mkPtok 31 """""" 16 2 60))] (mkPtok 13 "]" 17 4 61))) (mkPtok 39 ":" 17 5 62) (mkPtok 42 "Logon" 17 7 63) None)] (mkPtok 3 "}" 17 13 64)) (mkPtok 40 "," 18 0 66))); (mkFieldWithAttr (mkSpan (mkPtok 7 "@lengthOf(" 18 2 67) (mkPtok 40 "," 18 44 73)) [(FALengthOf (mkSpan (mkPtok 7 "@lengthOf(" 18 2 67) (mkPtok 6 ")" 18 21 69)) (mkLengthOf (mkSpan (mkPtok 7 "@lengthOf(" 18 2 67) (mkPtok 6 ")" 18 21 69)) (mkPtok 7 "@lengthOf(" 18 2 67) (mkPtok 42 "falsey" 18 14 68) (mkPtok 6 ")" 18 21 69)))] (ObjectField (mkSpan (mkPtok 36 "repeat" 18 22 70) (mkPtok 40 "," 18 44 73)) (Some (mkPtok 36 "repeat" 18 22 70)) (mkPtok 42 "falsey" 18 29 71) None (Some (mkPtok 43 "`u8 x,`" 18 36 72)) (mkPtok 40 "," 18 44 73))); (mkFieldWithAttr (mkSpan (mkPtok 42 "u8x" 18 46 74) (mkPtok 40 "," 23 2 85)) [] (InerObjectField (mkSpan (mkPtok 42 "u8x" 18 46 74) (mkPtok 40 "," 23 2 85)) None (InerObjectDecl (mkSpan (mkPtok 42 "u8x" 18 46 74) (mkPtok 3 "}" 23 0 84)) (mkPtok 42 "u8x" 18 46 74) (mkPtok 2 "{" 19 0 75) [(MetaField (mkSpan (mkPtok 25 "int16" 19 2 76) (mkPtok 40 "," 21 12 79)) None (mkMetaDecl (mkSpan (mkPtok 25 "int16" 19 2 76) (mkPtok 40 "," 21 12 79)) (TyBasic (mkSpan (mkPtok 25 "int16" 19 2 76) (mkPtok 25 "int16" 19 2 76)) (mkBasicType (mkSpan (mkPtok 25 "int16" 19 2 76) (mkPtok 25 "int16" 19 2 76)) (mkPtok 25 "int16" 19 2 76))) (mkPtok 42 "lengthOf" 20 0 77) (Some (mkPtok 43 "`u8 x,`" 21 4 78)) (mkPtok 40 "," 21 12 79))); (ObjectField (mkSpan (mkPtok 42 "f32a" 21 14 80) (mkPtok 40 "," 22 7 83)) None (mkPtok 42 "f32a" 21 14 80) (Some (mkPtok 42 "packetx" 22 0 82)) None (mkPtok 40 "," 22 7 83))] (mkPtok 3 "}" 23 0 84)) (mkPtok 40 "," 23 2 85))); (mkFieldWithAttr (mkSpan (mkPtok 42 "lengthOf" 23 4 86) (mkPtok 40 "," 24 17 90)) [] (LengthField (mkSpan (mkPtok 42 "lengthOf" 23 4 86) (mkPtok 40 "," 24 17 90)) (mkLengthFieldDecl (mkSpan (mkPtok 42 "lengthOf" 23 4 86) (mkPtok 40 "," 24 17 90)) None (mkPtok 42 "lengthOf" 23 4 86) (mkLengthOf (mkSpan (mkPtok 7 "@lengthOf(" 23 13 87) (mkPtok 6 ")" 24 15 89)) (mkPtok 7 "@lengthOf(" 23 13 87) (mkPtok 42 "calculatedFrom" 24 0 88) (mkPtok 6 ")" 24 15 89)) None (mkPtok 40 "," 24 17 90)))); (mkFieldWithAttr (mkSpan (mkPtok 32 "@rightPad" 24 19 91) (mkPtok 40 "," 25 15 97)) [(FAPadding (mkSpan (mkPtok 32 "@rightPad" 24 19 91) (mkPtok 6 ")" 25 4 94)) (mkPaddingAttr (mkSpan (mkPtok 32 "@rightPad" 24 19 91) (mkPtok 6 ")" 25 4 94)) (mkPtok 32 "@rightPad" 24 19 91) (mkPtok 8 "(" 25 0 92) (Some (mkPtok 33 "'0'" 25 1 93)) (mkPtok 6 ")" 25 4 94)))] (MetaField (mkSpan (mkPtok 28 "f32" 25 6 95) (mkPtok 40 "," 25 15 97)) None (mkMetaDecl (mkSpan (mkPtok 28 "f32" 25 6 95) (mkPtok 40 "," 25 15 97)) (TyBasic (mkSpan (mkPtok 28 "f32" 25 6 95) (mkPtok 28 "f32" 25 6 95)) (mkBasicType (mkSpan (mkPtok 28 "f32" 25 6 95) (mkPtok 28 "f32" 25 6 95)) (mkPtok 28 "f32" 25 6 95))) (mkPtok 42 "f32a" 25 10 96) None (mkPtok 40 "," 25 15 97)))); (mkFieldWithAttr (mkSpan (mkPtok 5 "@calculatedFrom(" 28 0 100) (mkPtok 40 "," 28 25 104)) [(FACalculatedFrom (mkSpan (mkPtok 5 "@calculatedFrom(" 28 0 100) (mkPtok 6 ")" 28 20 102)) (mkCalculatedFrom (mkSpan (mkPtok 5 "@calculatedFrom(" 28 0 100) (mkPtok 6 ")" 28 20 102)) (mkPtok 5 "@calculatedFrom(" 28 0 100) (mkPtok 31 (string_of_bytes [34; 240; 159; 152; 128; 34]%N) 28 17 101) (mkPtok 6 ")" 28 20 102)))] (ObjectField (mkSpan (mkPtok 42 "tag" 28 21 103) (mkPtok 40 "," 28 25 104)) None (mkPtok 42 "tag" 28 21 103) None None (mkPtok 40 "," 28 25 104))); (mkFieldWithAttr (mkSpan (mkPtok 15 "string" 31 0 107) (mkPtok 40 "," 31 32 110)) [] (MetaField (mkSpan (mkPtok 15 "string" 31 0 107) (mkPtok 40 "," 31 32 110)) None (mkMetaDecl (mkSpan (mkPtok 15 "string" 31 0 107) (mkPtok 40 "," 31 32 110)) (TyDynamic (mkSpan (mkPtok 15 "string" 31 0 107) (mkPtok 15 "string" 31 0 107)) (mkDynamicString (mkSpan (mkPtok 15 "string" 31 0 107) (mkPtok 15 "string" 31 0 107)) (mkPtok 15 "string" 31 0 107))) (mkPtok 42 "zchar" 31 7 108) (Some (mkPtok 43 "`// not a comment`" 31 13 109)) (mkPtok 40 "," 31 32 110))))] (mkPtok 3 "}" 31 33 111))); (DMeta (mkMetaDef (mkSpan (mkPtok 37 "MetaData" 31 35 112) (mkPtok 3 "}" 32 4 115)) (mkPtok 37 "MetaData" 31 35 112) (mkPtok 42 "matchKey" 31 44 113) (mkPtok 2 "{" 31 53 114) [] (mkPtok 3 "}" 32 4 115))); (DPacket (mkPacketDef (mkSpan (mkPtok 35 "packet" 32 6 116) (mkPtok 3 "}" 55 8 206)) None (mkPtok 35 "packet" 32 6 116) (mkPtok 42 "uint8x" 32 13 117) (mkPtok 2 "{" 32 20 118) [(mkFieldWithAttr (mkSpan (mkPtok 36 "repeat" 35 0 121) (mkPtok 40 "," 39 10 133)) [] (InerObjectField (mkSpan (mkPtok 36 "repeat" 35 0 121) (mkPtok 40 "," 39 10 133)) (Some (mkPtok 36 "repeat" 35 0 121)) (InerObjectDecl (mkSpan (mkPtok 42 "lengthOf" 35 7 122) (mkPtok 3 "}" 39 8 132)) (mkPtok 42 "lengthOf" 35 7 122) (mkPtok 2 "{" 38 0 125) [(MetaField (mkSpan (mkPtok 21 "u16" 38 1 126) (mkPtok 40 "," 39 0 129)) None (mkMetaDecl (mkSpan (mkPtok 21 "u16" 38 1 126) (mkPtok 40 "," 39 0 129)) (TyBasic (mkSpan (mkPtok 21 "u16" 38 1 126) (mkPtok 21 "u16" 38 1 126)) (mkBasicType (mkSpan (mkPtok 21 "u16" 38 1 126) (mkPtok 21 "u16" 38 1 126)) (mkPtok 21 "u16" 38 1 126))) (mkPtok 42 "u128" 38 5 127) None (mkPtok 40 "," 39 0 129))); (ObjectField (mkSpan (mkPtok 42 "Pad" 39 1 130) (mkPtok 40 "," 39 6 131)) None (mkPtok 42 "Pad" 39 1 130) None None (mkPtok 40 "," 39 6 131))] (mkPtok 3 "}" 39 8 132)) (mkPtok 40 "," 39 10 133))); (mkFieldWithAttr (mkSpan (mkPtok 9 "@tag(" 39 12 134) (mkPtok 40 "," 40 88 150)) [(FATag (mkSpan (mkPtok 9 "@tag(" 39 12 134) (mkPtok 6 ")" 39 29 136)) (mkTagAttr (mkSpan (mkPtok 9 "@tag(" 39 12 134) (mkPtok 6 ")" 39 29 136)) (mkPtok 9 "@tag(" 39 12 134) (mkPtok 30 "4294967296" 39 18 135) (mkPtok 6 ")" 39 29 136))); (FACalculatedFrom (mkSpan (mkPtok 5 "@calculatedFrom(" 40 0 137) (mkPtok 6 ")" 40 23 139)) (mkCalculatedFrom (mkSpan (mkPtok 5 "@calculatedFrom(" 40 0 137) (mkPtok 6 ")" 40 23 139)) (mkPtok 5 "@calculatedFrom(" 40 0 137) (mkPtok 31 """x y""" 40 17 138) (mkPtok 6 ")" 40 23 139))); (FATag (mkSpan (mkPtok 9 "@tag(" 40 25 140) (mkPtok 6 ")" 40 32 142)) (mkTagAttr (mkSpan (mkPtok 9 "@tag(" 40 25 140) (mkPtok 6 ")" 40 32 142)) (mkPtok 9 "@tag(" 40 25 140) (mkPtok 30 "0" 40 31 141) (mkPtok 6 ")" 40 32 142)))] (CheckSumField (mkSpan (mkPtok 12 "char[" 40 34 143) (mkPtok 40 "," 40 88 150)) (mkChecksumFieldDecl (mkSpan (mkPtok 12 "char[" 40 34 143) (mkPtok 40 "," 40 88 150)) (Some (TyFixed (mkSpan (mkPtok 12 "char[" 40 34 143) (mkPtok 13 "]" 40 50 145)) (mkFixedString (mkSpan (mkPtok 12 "char[" 40 34 143) (mkPtok 13 "]" 40 50 145)) (mkPtok 12 "char[" 40 34 143) (mkPtok 30 "4294967296" 40 39 144) (mkPtok 13 "]" 40 50 145)))) (mkPtok 42 "options1" 40 52 146) (mkCalculatedFrom (mkSpan (mkPtok 5 "@calculatedFrom(" 40 61 147) (mkPtok 6 ")" 40 86 149)) (mkPtok 5 "@calculatedFrom(" 40 61 147) (mkPtok 31 """CRC32""" 40 78 148) (mkPtok 6 ")" 40 86 149)) None (mkPtok 40 "," 40 88 150)))); (mkFieldWithAttr (mkSpan (mkPtok 32 "@rightPad" 40 89 151) (mkPtok 40 "," 43 0 160)) [(FAPadding (mkSpan (mkPtok 32 "@rightPad" 40 89 151) (mkPtok 6 ")" 40 106 154)) (mkPaddingAttr (mkSpan (mkPtok 32 "@rightPad" 40 89 151) (mkPtok 6 ")" 40 106 154)) (mkPtok 32 "@rightPad" 40 89 151) (mkPtok 8 "(" 40 99 152) (Some (mkPtok 33 "'\x00'" 40 100 153)) (mkPtok 6 ")" 40 106 154)))] (MetaField (mkSpan (mkPtok 36 "repeat" 40 108 155) (mkPtok 40 "," 43 0 160)) (Some (mkPtok 36 "repeat" 40 108 155)) (mkMetaDecl (mkSpan (mkPtok 15 "string" 41 4 156) (mkPtok 40 "," 43 0 160)) (TyDynamic (mkSpan (mkPtok 15 "string" 41 4 156) (mkPtok 15 "string" 41 4 156)) (mkDynamicString (mkSpan (mkPtok 15 "string" 41 4 156) (mkPtok 15 "string" 41 4 156)) (mkPtok 15 "string" 41 4 156))) (mkPtok 42 "asx" 42 0 157) (Some (mkPtok 43 "`a\`" 42 4 158)) (mkPtok 40 "," 43 0 160)))); (mkFieldWithAttr (mkSpan (mkPtok 5 "@calculatedFrom(" 43 2 161) (mkPtok 40 "," 47 8 171)) [(FACalculatedFrom (mkSpan (mkPtok 5 "@calculatedFrom(" 43 2 161) (mkPtok 6 ")" 44 4 163)) (mkCalculatedFrom (mkSpan (mkPtok 5 "@calculatedFrom(" 43 2 161) (mkPtok 6 ")" 44 4 163)) (mkPtok 5 "@calculatedFrom(" 43 2 161) (mkPtok 31 (string_of_bytes [34; 240; 159; 152; 128; 34]%N) 44 0 162) (mkPtok 6 ")" 44 4 163)))] (CheckSumField (mkSpan (mkPtok 12 "char[" 44 6 164) (mkPtok 40 "," 47 8 171)) (mkChecksumFieldDecl (mkSpan (mkPtok 12 "char[" 44 6 164) (mkPtok 40 "," 47 8 171)) (Some (TyFixed (mkSpan (mkPtok 12 "char[" 44 6 164) (mkPtok 13 "]" 45 0 166)) (mkFixedString (mkSpan (mkPtok 12 "char[" 44 6 164) (mkPtok 13 "]" 45 0 166)) (mkPtok 12 "char[" 44 6 164) (mkPtok 30 "255" 44 11 165) (mkPtok 13 "]" 45 0 166)))) (mkPtok 42 "len" 45 2 167) (mkCalculatedFrom (mkSpan (mkPtok 5 "@calculatedFrom(" 46 0 168) (mkPtok 6 ")" 47 6 170)) (mkPtok 5 "@calculatedFrom(" 46 0 168) (mkPtok 31 (string_of_bytes [34; 195; 169; 116; 195; 169; 34]%N) 47 0 169) (mkPtok 6 ")" 47 6 170)) None (mkPtok 40 "," 47 8 171)))); (mkFieldWithAttr (mkSpan (mkPtok 5 "@calculatedFrom(" 48 0 172) (mkPtok 40 "," 51 18 179)) [(FACalculatedFrom (mkSpan (mkPtok 5 "@calculatedFrom(" 48 0 172) (mkPtok 6 ")" 49 6 175)) (mkCalculatedFrom (mkSpan (mkPtok 5 "@calculatedFrom(" 48 0 172) (mkPtok 6 ")" 49 6 175)) (mkPtok 5 "@calculatedFrom(" 48 0 172) (mkPtok 31 """{,}""" 49 0 174) (mkPtok 6 ")" 49 6 175)))] (ObjectField (mkSpan (mkPtok 36 "repeat" 50 0 176) (mkPtok 40 "," 51 18 179)) (Some (mkPtok 36 "repeat" 50 0 176)) (mkPtok 42 "zchar" 50 7 177) (Some (mkPtok 42 "calculatedFrom" 51 4 178)) None (mkPtok 40 "," 51 18 179))); (mkFieldWithAttr (mkSpan (mkPtok 5 "@calculatedFrom(" 51 20 180) (mkPtok 40 "," 52 29 188)) [(FACalculatedFrom (mkSpan (mkPtok 5 "@calculatedFrom(" 51 20 180) (mkPtok 6 ")" 52 4 182)) (mkCalculatedFrom (mkSpan (mkPtok 5 "@calculatedFrom(" 51 20 180) (mkPtok 6 ")" 52 4 182)) (mkPtok 5 "@calculatedFrom(" 51 20 180) (mkPtok 31 (string_of_bytes [34; 195; 169; 116; 195; 169; 34]%N) 51 37 181) (mkPtok 6 ")" 52 4 182)))] (LengthField (mkSpan (mkPtok 15 "string" 52 5 183) (mkPtok 40 "," 52 29 188)) (mkLengthFieldDecl (mkSpan (mkPtok 15 "string" 52 5 183) (mkPtok 40 "," 52 29 188)) (Some (TyDynamic (mkSpan (mkPtok 15 "string" 52 5 183) (mkPtok 15 "string" 52 5 183)) (mkDynamicString (mkSpan (mkPtok 15 "string" 52 5 183) (mkPtok 15 "string" 52 5 183)) (mkPtok 15 "string" 52 5 183)))) (mkPtok 42 "o" 52 13 184) (mkLengthOf (mkSpan (mkPtok 7 "@lengthOf(" 52 15 185) (mkPtok 6 ")" 52 27 187)) (mkPtok 7 "@lengthOf(" 52 15 185) (mkPtok 42 "u" 52 26 186) (mkPtok 6 ")" 52 27 187)) None (mkPtok 40 "," 52 29 188)))); (mkFieldWithAttr (mkSpan (mkPtok 23 "uint64" 52 30 189) (mkPtok 40 "," 54 28 195)) [] (CheckSumField (mkSpan (mkPtok 23 "uint64" 52 30 189) (mkPtok 40 "," 54 28 195)) (mkChecksumFieldDecl (mkSpan (mkPtok 23 "uint64" 52 30 189) (mkPtok 40 "," 54 28 195)) (Some (TyBasic (mkSpan (mkPtok 23 "uint64" 52 30 189) (mkPtok 23 "uint64" 52 30 189)) (mkBasicType (mkSpan (mkPtok 23 "uint64" 52 30 189) (mkPtok 23 "uint64" 52 30 189)) (mkPtok 23 "uint64" 52 30 189)))) (mkPtok 42 "falsey" 52 37 190) (mkCalculatedFrom (mkSpan (mkPtok 5 "@calculatedFrom(" 54 4 192) (mkPtok 6 ")" 54 26 194)) (mkPtok 5 "@calculatedFrom(" 54 4 192) (mkPtok 31 (string_of_bytes [34; 92; 195; 169; 34]%N) 54 21 193) (mkPtok 6 ")" 54 26 194)) None (mkPtok 40 "," 54 28 195)))); (mkFieldWithAttr (mkSpan (mkPtok 14 "zchar[" 54 30 196) (mkPtok 40 "," 55 1 203)) [] (CheckSumField (mkSpan (mkPtok 14 "zchar[" 54 30 196) (mkPtok 40 "," 55 1 203)) (mkChecksumFieldDecl (mkSpan (mkPtok 14 "zchar[" 54 30 196) (mkPtok 40 "," 55 1 203)) (Some (TyFixed (mkSpan (mkPtok 14 "zchar[" 54 30 196) (mkPtok 13 "]" 54 43 198)) (mkFixedString (mkSpan (mkPtok 14 "zchar[" 54 30 196) (mkPtok 13 "]" 54 43 198)) (mkPtok 14 "zchar[" 54 30 196) (mkPtok 30 "65535" 54 37 197) (mkPtok 13 "]" 54 43 198)))) (mkPtok 42 "stringy" 54 45 199) (mkCalculatedFrom (mkSpan (mkPtok 5 "@calculatedFrom(" 54 53 200) (mkPtok 6 ")" 55 0 202)) (mkPtok 5 "@calculatedFrom(" 54 53 200) (mkPtok 31 """1""" 54 70 201) (mkPtok 6 ")" 55 0 202)) None (mkPtok 40 "," 55 1 203)))); (mkFieldWithAttr (mkSpan (mkPtok 42 "As" 55 3 204) (mkPtok 40 "," 55 6 205)) [] (ObjectField (mkSpan (mkPtok 42 "As" 55 3 204) (mkPtok 40 "," 55 6 205)) None (mkPtok 42 "As" 55 3 204) None None (mkPtok 40 "," 55 6 205)))] (mkPtok 3 "}" 55 8 206))); (DPacket (mkPacketDef (mkSpan (mkPtok 35 "packet" 55 9 207) (mkPtok 3 "}" 70 62 294)) None (mkPtok 35 "packet" 55 9 207) (mkPtok 42 "BodyLength" 55 16 208) (mkPtok 2 "{" 55 26 209) [(mkFieldWithAttr (mkSpan (mkPtok 36 "repeat" 55 29 210) (mkPtok 40 "," 55 48 213)) [] (MetaField (mkSpan (mkPtok 36 "repeat" 55 29 210) (mkPtok 40 "," 55 48 213)) (Some (mkPtok 36 "repeat" 55 29 210)) (mkMetaDecl (mkSpan (mkPtok 22 "uint32" 55 36 211) (mkPtok 40 "," 55 48 213)) (TyBasic (mkSpan (mkPtok 22 "uint32" 55 36 211) (mkPtok 22 "uint32" 55 36 211)) (mkBasicType (mkSpan (mkPtok 22 "uint32" 55 36 211) (mkPtok 22 "uint32" 55 36 211)) (mkPtok 22 "uint32" 55 36 211))) (mkPtok 42 "body" 55 43 212) None (mkPtok 40 "," 55 48 213)))); (mkFieldWithAttr (mkSpan (mkPtok 14 "zchar[" 55 50 214) (mkPtok 40 "," 57 11 219)) [] (MetaField (mkSpan (mkPtok 14 "zchar[" 55 50 214) (mkPtok 40 "," 57 11 219)) None (mkMetaDecl (mkSpan (mkPtok 14 "zchar[" 55 50 214) (mkPtok 40 "," 57 11 219)) (TyFixed (mkSpan (mkPtok 14 "zchar[" 55 50 214) (mkPtok 13 "]" 55 63 216)) (mkFixedString (mkSpan (mkPtok 14 "zchar[" 55 50 214) (mkPtok 13 "]" 55 63 216)) (mkPtok 14 "zchar[" 55 50 214) (mkPtok 30 "65535" 55 57 215) (mkPtok 13 "]" 55 63 216))) (mkPtok 42 "Header" 57 4 218) None (mkPtok 40 "," 57 11 219)))); (mkFieldWithAttr (mkSpan (mkPtok 42 "As" 57 12 220) (mkPtok 40 "," 57 30 223)) [] (ObjectField (mkSpan (mkPtok 42 "As" 57 12 220) (mkPtok 40 "," 57 30 223)) None (mkPtok 42 "As" 57 12 220) (Some (mkPtok 42 "i8i8" 57 15 221)) (Some (mkPtok 43 (string_of_bytes [96; 116; 97; 98; 9; 104; 101; 114; 101; 96]%N) 57 20 222)) (mkPtok 40 "," 57 30 223))); (mkFieldWithAttr (mkSpan (mkPtok 5 "@calculatedFrom(" 57 31 224) (mkPtok 40 "," 63 3 241)) [(FACalculatedFrom (mkSpan (mkPtok 5 "@calculatedFrom(" 57 31 224) (mkPtok 6 ")" 58 4 226)) (mkCalculatedFrom (mkSpan (mkPtok 5 "@calculatedFrom(" 57 31 224) (mkPtok 6 ")" 58 4 226)) (mkPtok 5 "@calculatedFrom(" 57 31 224) (mkPtok 31 (string_of_bytes [34; 240; 159; 152; 128; 34]%N) 57 48 225) (mkPtok 6 ")" 58 4 226))); (FAPadding (mkSpan (mkPtok 32 "@rightPad" 58 6 227) (mkPtok 6 ")" 60 0 231)) (mkPaddingAttr (mkSpan (mkPtok 32 "@rightPad" 58 6 227) (mkPtok 6 ")" 60 0 231)) (mkPtok 32 "@rightPad" 58 6 227) (mkPtok 8 "(" 58 15 228) (Some (mkPtok 33 "'0'" 59 0 230)) (mkPtok 6 ")" 60 0 231))); (FATag (mkSpan (mkPtok 9 "@tag(" 60 2 232) (mkPtok 6 ")" 60 13 234)) (mkTagAttr (mkSpan (mkPtok 9 "@tag(" 60 2 232) (mkPtok 6 ")" 60 13 234)) (mkPtok 9 "@tag(" 60 2 232) (mkPtok 30 "65535" 60 7 233) (mkPtok 6 ")" 60 13 234)))] (InerObjectField (mkSpan (mkPtok 42 "Pad" 61 4 235) (mkPtok 40 "," 63 3 241)) None (InerObjectDecl (mkSpan (mkPtok 42 "Pad" 61 4 235) (mkPtok 3 "}" 63 2 240)) (mkPtok 42 "Pad" 61 4 235) (mkPtok 2 "{" 61 8 236) [(MetaField (mkSpan (mkPtok 15 "string" 61 10 237) (mkPtok 40 "," 63 0 239)) None (mkMetaDecl (mkSpan (mkPtok 15 "string" 61 10 237) (mkPtok 40 "," 63 0 239)) (TyDynamic (mkSpan (mkPtok 15 "string" 61 10 237) (mkPtok 15 "string" 61 10 237)) (mkDynamicString (mkSpan (mkPtok 15 "string" 61 10 237) (mkPtok 15 "string" 61 10 237)) (mkPtok 15 "string" 61 10 237))) (mkPtok 42 "u128" 62 0 238) None (mkPtok 40 "," 63 0 239)))] (mkPtok 3 "}" 63 2 240)) (mkPtok 40 "," 63 3 241))); (mkFieldWithAttr (mkSpan (mkPtok 9 "@tag(" 63 4 242) (mkPtok 40 "," 64 40 253)) [(FATag (mkSpan (mkPtok 9 "@tag(" 63 4 242) (mkPtok 6 ")" 63 15 244)) (mkTagAttr (mkSpan (mkPtok 9 "@tag(" 63 4 242) (mkPtok 6 ")" 63 15 244)) (mkPtok 9 "@tag(" 63 4 242) (mkPtok 30 "255" 63 11 243) (mkPtok 6 ")" 63 15 244))); (FAPadding (mkSpan (mkPtok 32 "@leftPad" 64 4 245) (mkPtok 6 ")" 64 13 247)) (mkPaddingAttr (mkSpan (mkPtok 32 "@leftPad" 64 4 245) (mkPtok 6 ")" 64 13 247)) (mkPtok 32 "@leftPad" 64 4 245) (mkPtok 8 "(" 64 12 246) None (mkPtok 6 ")" 64 13 247))); (FALengthOf (mkSpan (mkPtok 7 "@lengthOf(" 64 15 248) (mkPtok 6 ")" 64 29 250)) (mkLengthOf (mkSpan (mkPtok 7 "@lengthOf(" 64 15 248) (mkPtok 6 ")" 64 29 250)) (mkPtok 7 "@lengthOf(" 64 15 248) (mkPtok 42 "f32a" 64 25 249) (mkPtok 6 ")" 64 29 250)))] (ObjectField (mkSpan (mkPtok 36 "repeat" 64 31 251) (mkPtok 40 "," 64 40 253)) (Some (mkPtok 36 "repeat" 64 31 251)) (mkPtok 42 "o" 64 38 252) None None (mkPtok 40 "," 64 40 253))); (mkFieldWithAttr (mkSpan (mkPtok 36 "repeat" 64 41 254) (mkPtok 40 "," 67 12 275)) [] (InerObjectField (mkSpan (mkPtok 36 "repeat" 64 41 254) (mkPtok 40 "," 67 12 275)) (Some (mkPtok 36 "repeat" 64 41 254)) (InerObjectDecl (mkSpan (mkPtok 42 "i8i8" 64 48 255) (mkPtok 3 "}" 67 10 274)) (mkPtok 42 "i8i8" 64 48 255) (mkPtok 2 "{" 64 52 256) [(ObjectField (mkSpan (mkPtok 36 "repeat" 64 53 257) (mkPtok 40 "," 66 6 262)) (Some (mkPtok 36 "repeat" 64 53 257)) (mkPtok 42 "f32a" 64 60 258) (Some (mkPtok 42 "float" 65 0 260)) (Some (mkPtok 43 (string_of_bytes [96; 108; 105; 110; 101; 49; 10; 108; 105; 110; 101; 50; 96]%N) 65 5 261)) (mkPtok 40 "," 66 6 262)); (MetaField (mkSpan (mkPtok 36 "repeat" 66 8 263) (mkPtok 40 "," 66 49 269)) (Some (mkPtok 36 "repeat" 66 8 263)) (mkMetaDecl (mkSpan (mkPtok 12 "char[" 66 15 264) (mkPtok 40 "," 66 49 269)) (TyFixed (mkSpan (mkPtok 12 "char[" 66 15 264) (mkPtok 13 "]" 66 32 266)) (mkFixedString (mkSpan (mkPtok 12 "char[" 66 15 264) (mkPtok 13 "]" 66 32 266)) (mkPtok 12 "char[" 66 15 264) (mkPtok 30 "0123456789" 66 21 265) (mkPtok 13 "]" 66 32 266))) (mkPtok 42 "pack" 66 33 267) (Some (mkPtok 43 (string_of_bytes [96; 116; 97; 98; 9; 104; 101; 114; 101; 96]%N) 66 38 268)) (mkPtok 40 "," 66 49 269))); (MetaField (mkSpan (mkPtok 16 "char[]" 67 0 271) (mkPtok 40 "," 67 9 273)) None (mkMetaDecl (mkSpan (mkPtok 16 "char[]" 67 0 271) (mkPtok 40 "," 67 9 273)) (TyDynamic (mkSpan (mkPtok 16 "char[]" 67 0 271) (mkPtok 16 "char[]" 67 0 271)) (mkDynamicString (mkSpan (mkPtok 16 "char[]" 67 0 271) (mkPtok 16 "char[]" 67 0 271)) (mkPtok 16 "char[]" 67 0 271))) (mkPtok 42 "x" 67 7 272) None (mkPtok 40 "," 67 9 273)))] (mkPtok 3 "}" 67 10 274)) (mkPtok 40 "," 67 12 275))); (mkFieldWithAttr (mkSpan (mkPtok 5 "@calculatedFrom(" 68 4 276) (mkPtok 40 "," 70 31 287)) [(FACalculatedFrom (mkSpan (mkPtok 5 "@calculatedFrom(" 68 4 276) (mkPtok 6 ")" 68 24 278)) (mkCalculatedFrom (mkSpan (mkPtok 5 "@calculatedFrom(" 68 4 276) (mkPtok 6 ")" 68 24 278)) (mkPtok 5 "@calculatedFrom(" 68 4 276) (mkPtok 31 """""" 68 21 277) (mkPtok 6 ")" 68 24 278))); (FALengthOf (mkSpan (mkPtok 7 "@lengthOf(" 69 0 279) (mkPtok 6 ")" 70 4 281)) (mkLengthOf (mkSpan (mkPtok 7 "@lengthOf(" 69 0 279) (mkPtok 6 ")" 70 4 281)) (mkPtok 7 "@lengthOf(" 69 0 279) (mkPtok 42 "lengthOf" 69 10 280) (mkPtok 6 ")" 70 4 281)))] (MetaField (mkSpan (mkPtok 36 "repeat" 70 6 282) (mkPtok 40 "," 70 31 287)) (Some (mkPtok 36 "repeat" 70 6 282)) (mkMetaDecl (mkSpan (mkPtok 12 "char[" 70 13 283) (mkPtok 40 "," 70 31 287)) (TyFixed (mkSpan (mkPtok 12 "char[" 70 13 283) (mkPtok 13 "]" 70 25 285)) (mkFixedString (mkSpan (mkPtok 12 "char[" 70 13 283) (mkPtok 13 "]" 70 25 285)) (mkPtok 12 "char[" 70 13 283) (mkPtok 30 "65535" 70 19 284) (mkPtok 13 "]" 70 25 285))) (mkPtok 42 "Foo" 70 27 286) None (mkPtok 40 "," 70 31 287)))); (mkFieldWithAttr (mkSpan (mkPtok 42 "pack" 70 33 288) (mkPtok 40 "," 70 47 290)) [] (ObjectField (mkSpan (mkPtok 42 "pack" 70 33 288) (mkPtok 40 "," 70 47 290)) None (mkPtok 42 "pack" 70 33 288) (Some (mkPtok 42 "lengthOf" 70 38 289)) None (mkPtok 40 "," 70 47 290))); (mkFieldWithAttr (mkSpan (mkPtok 36 "repeat" 70 49 291) (mkPtok 40 "," 70 60 293)) [] (ObjectField (mkSpan (mkPtok 36 "repeat" 70 49 291) (mkPtok 40 "," 70 60 293)) (Some (mkPtok 36 "repeat" 70 49 291)) (mkPtok 42 "Pad" 70 56 292) None None (mkPtok 40 "," 70 60 293)))] (mkPtok 3 "}" 70 62 294))); (DPacket (mkPacketDef (mkSpan (mkPtok 35 "packet" 71 0 295) (mkPtok 3 "}" 102 4 356)) None (mkPtok 35 "packet" 71 0 295) (mkPtok 42 "u8x" 72 0 297) (mkPtok 2 "{" 72 4 298) [(mkFieldWithAttr (mkSpan (mkPtok 9 "@tag(" 74 4 300) (mkPtok 40 "," 79 5 310)) [(FATag (mkSpan (mkPtok 9 "@tag(" 74 4 300) (mkPtok 6 ")" 75 4 303)) (mkTagAttr (mkSpan (mkPtok 9 "@tag(" 74 4 300) (mkPtok 6 ")" 75 4 303)) (mkPtok 9 "@tag(" 74 4 300) (mkPtok 30 "255" 75 0 302) (mkPtok 6 ")" 75 4 303)))] (MetaField (mkSpan (mkPtok 36 "repeat" 75 6 304) (mkPtok 40 "," 79 5 310)) (Some (mkPtok 36 "repeat" 75 6 304)) (mkMetaDecl (mkSpan (mkPtok 14 "zchar[" 76 0 305) (mkPtok 40 "," 79 5 310)) (TyFixed (mkSpan (mkPtok 14 "zchar[" 76 0 305) (mkPtok 13 "]" 78 0 308)) (mkFixedString (mkSpan (mkPtok 14 "zchar[" 76 0 305) (mkPtok 13 "]" 78 0 308)) (mkPtok 14 "zchar[" 76 0 305) (mkPtok 30 "4294967296" 77 0 307) (mkPtok 13 "]" 78 0 308))) (mkPtok 42 "pack" 79 0 309) None (mkPtok 40 "," 79 5 310)))); (mkFieldWithAttr (mkSpan (mkPtok 12 "char[" 80 0 312) (mkPtok 40 "," 83 0 322)) [] (CheckSumField (mkSpan (mkPtok 12 "char[" 80 0 312) (mkPtok 40 "," 83 0 322)) (mkChecksumFieldDecl (mkSpan (mkPtok 12 "char[" 80 0 312) (mkPtok 40 "," 83 0 322)) (Some (TyFixed (mkSpan (mkPtok 12 "char[" 80 0 312) (mkPtok 13 "]" 80 17 314)) (mkFixedString (mkSpan (mkPtok 12 "char[" 80 0 312) (mkPtok 13 "]" 80 17 314)) (mkPtok 12 "char[" 80 0 312) (mkPtok 30 "0123456789" 80 6 313) (mkPtok 13 "]" 80 17 314)))) (mkPtok 42 "charz" 80 19 315) (mkCalculatedFrom (mkSpan (mkPtok 5 "@calculatedFrom(" 81 0 317) (mkPtok 6 ")" 82 7 320)) (mkPtok 5 "@calculatedFrom(" 81 0 317) (mkPtok 31 """a\""b""" 82 0 319) (mkPtok 6 ")" 82 7 320)) None (mkPtok 40 "," 83 0 322)))); (mkFieldWithAttr (mkSpan (mkPtok 7 "@lengthOf(" 85 4 324) (mkPtok 40 "," 102 2 355)) [(FALengthOf (mkSpan (mkPtok 7 "@lengthOf(" 85 4 324) (mkPtok 6 ")" 86 0 326)) (mkLengthOf (mkSpan (mkPtok 7 "@lengthOf(" 85 4 324) (mkPtok 6 ")" 86 0 326)) (mkPtok 7 "@lengthOf(" 85 4 324) (mkPtok 42 "Header" 85 15 325) (mkPtok 6 ")" 86 0 326)))] (InerObjectField (mkSpan (mkPtok 42 "f32a" 89 0 329) (mkPtok 40 "," 102 2 355)) None (InerObjectDecl (mkSpan (mkPtok 42 "f32a" 89 0 329) (mkPtok 3 "}" 102 0 354)) (mkPtok 42 "f32a" 89 0 329) (mkPtok 2 "{" 90 4 330) [(CheckSumField (mkSpan (mkPtok 42 "u128" 90 7 331) (mkPtok 40 "," 95 7 337)) (mkChecksumFieldDecl (mkSpan (mkPtok 42 "u128" 90 7 331) (mkPtok 40 "," 95 7 337)) None (mkPtok 42 "u128" 90 7 331) (mkCalculatedFrom (mkSpan (mkPtok 5 "@calculatedFrom(" 90 12 332) (mkPtok 6 ")" 93 4 335)) (mkPtok 5 "@calculatedFrom(" 90 12 332) (mkPtok 31 """""" 91 4 333) (mkPtok 6 ")" 93 4 335)) (Some (mkPtok 43 (string_of_bytes [96; 108; 105; 110; 101; 49; 10; 108; 105; 110; 101; 50; 96]%N) 94 4 336)) (mkPtok 40 "," 95 7 337))); (CheckSumField (mkSpan (mkPtok 42 "T" 95 9 338) (mkPtok 40 "," 97 0 342)) (mkChecksumFieldDecl (mkSpan (mkPtok 42 "T" 95 9 338) (mkPtok 40 "," 97 0 342)) None (mkPtok 42 "T" 95 9 338) (mkCalculatedFrom (mkSpan (mkPtok 5 "@calculatedFrom(" 95 11 339) (mkPtok 6 ")" 96 0 341)) (mkPtok 5 "@calculatedFrom(" 95 11 339) (mkPtok 31 """a\""b""" 95 28 340) (mkPtok 6 ")" 96 0 341)) None (mkPtok 40 "," 97 0 342))); (LengthField (mkSpan (mkPtok 26 "int32" 97 2 343) (mkPtok 40 "," 98 16 348)) (mkLengthFieldDecl (mkSpan (mkPtok 26 "int32" 97 2 343) (mkPtok 40 "," 98 16 348)) (Some (TyBasic (mkSpan (mkPtok 26 "int32" 97 2 343) (mkPtok 26 "int32" 97 2 343)) (mkBasicType (mkSpan (mkPtok 26 "int32" 97 2 343) (mkPtok 26 "int32" 97 2 343)) (mkPtok 26 "int32" 97 2 343)))) (mkPtok 42 "lengthOf" 97 8 344) (mkLengthOf (mkSpan (mkPtok 7 "@lengthOf(" 97 17 345) (mkPtok 6 ")" 98 14 347)) (mkPtok 7 "@lengthOf(" 97 17 345) (mkPtok 42 "msg_type" 98 4 346) (mkPtok 6 ")" 98 14 347)) None (mkPtok 40 "," 98 16 348))); (CheckSumField (mkSpan (mkPtok 42 "Foo" 99 0 349) (mkPtok 40 "," 101 2 353)) (mkChecksumFieldDecl (mkSpan (mkPtok 42 "Foo" 99 0 349) (mkPtok 40 "," 101 2 353)) None (mkPtok 42 "Foo" 99 0 349) (mkCalculatedFrom (mkSpan (mkPtok 5 "@calculatedFrom(" 99 3 350) (mkPtok 6 ")" 101 0 352)) (mkPtok 5 "@calculatedFrom(" 99 3 350) (mkPtok 31 """a\""b""" 100 4 351) (mkPtok 6 ")" 101 0 352)) None (mkPtok 40 "," 101 2 353)))] (mkPtok 3 "}" 102 0 354)) (mkPtok 40 "," 102 2 355)))] (mkPtok 3 "}" 102 4 356)))])).
Eval vm_compute in ("<<<M948>>>" ++ check (runes_of_ascii "
packet msg_type { @tag(// " ++ [27880; 37322]%N ++ runes_of_ascii "
00 //	t
)
zchar[ 0123456789 ] //	t
rootA	, }")).
Eval vm_compute in ("<<<M980>>>" ++ check (runes_of_ascii "/// triple
options {
    // packet A { u8 x, }
    Foo = 00 ; } root packet	string_ {u32 falsey	@calculatedFrom( ""x y"" )
`u8 x,`	,} root packet // `tick` ""quote"" 'q'
T { } // `tick` ""quote"" 'q'")).
Eval vm_compute in ("<<<M1012>>>" ++ check (runes_of_ascii "
")).
Eval vm_compute in ("<<<M1044>>>" ++ check (@nil rune)).
Eval vm_compute in ("<<<M1076>>>" ++ check (runes_of_ascii "  MetaData stringy { zchar[ 4294967296
] charz , string// `tick` ""quote"" 'q'
x_y_z
    ,  }

")).
Eval vm_compute in ("<<<M1108>>>" ++ check (runes_of_ascii "options
    {Header = '\x00';
}")).
Eval vm_compute in ("<<<M1140>>>" ++ check (runes_of_ascii "packet packetx { /// triple
@rightPad ('0' ) @tag( 007)Logon Pad ,  }
")).
Eval vm_compute in ("<<<T1140>>>" ++ terms [mkTok 35 "packet" 1 0 false; mkTok 42 "packetx" 1 7 false; mkTok 2 "{" 1 15 false; mkTok 44 "/// triple" 1 17 true; mkTok 32 "@rightPad" 2 0 false; mkTok 8 "(" 2 10 false; mkTok 33 "'0'" 2 11 false; mkTok 6 ")" 2 15 false; mkTok 9 "@tag(" 2 17 false; mkTok 30 "007" 2 23 false; mkTok 6 ")" 2 26 false; mkTok 42 "Logon" 2 27 false; mkTok 42 "Pad" 2 33 false; mkTok 40 "," 2 37 false; mkTok 3 "}" 2 40 false; mkTok 0 "<EOF>" 3 0 false] (mkPacket (mkPtok 35 "packet" 1 0 0) (Some (mkPtok 3 "}" 2 40 14)) [(DPacket (mkPacketDef (mkSpan (mkPtok 35 "packet" 1 0 0) (mkPtok 3 "}" 2 40 14)) None (mkPtok 35 "packet" 1 0 0) (mkPtok 42 "packetx" 1 7 1) (mkPtok 2 "{" 1 15 2) [(mkFieldWithAttr (mkSpan (mkPtok 32 "@rightPad" 2 0 4) (mkPtok 40 "," 2 37 13)) [(FAPadding (mkSpan (mkPtok 32 "@rightPad" 2 0 4) (mkPtok 6 ")" 2 15 7)) (mkPaddingAttr (mkSpan (mkPtok 32 "@rightPad" 2 0 4) (mkPtok 6 ")" 2 15 7)) (mkPtok 32 "@rightPad" 2 0 4) (mkPtok 8 "(" 2 10 5) (Some (mkPtok 33 "'0'" 2 11 6)) (mkPtok 6 ")" 2 15 7))); (FATag (mkSpan (mkPtok 9 "@tag(" 2 17 8) (mkPtok 6 ")" 2 26 10)) (mkTagAttr (mkSpan (mkPtok 9 "@tag(" 2 17 8) (mkPtok 6 ")" 2 26 10)) (mkPtok 9 "@tag(" 2 17 8) (mkPtok 30 "007" 2 23 9) (mkPtok 6 ")" 2 26 10)))] (ObjectField (mkSpan (mkPtok 42 "Logon" 2 27 11) (mkPtok 40 "," 2 37 13)) None (mkPtok 42 "Logon" 2 27 11) (Some (mkPtok 42 "Pad" 2 33 12)) None (mkPtok 40 "," 2 37 13)))] (mkPtok 3 "}" 2 40 14)))])).
Eval vm_compute in ("<<<M1172>>>" ++ check (runes_of_ascii "packet
u128 {
    @tag( 0 ) BodyLength { Z9_ {  stringy {	metadata
// @lengthOf(
// a // b
, } ,	zchar @lengthOf(
x_y_z)
, match	lengthOf
as
    float{ 10 : repeatCount,
}
    , repeat
string Pad `" ++ [233]%N ++ runes_of_ascii "` , } , // packet A { u8 x, }
u64
u128 @calculatedFrom( ""a\""b""
    ) ,} ,@rightPad
(	'0') uint32
    x_y_z@lengthOf(crc ) ,
    match tag	as
roots {
    4294967296 : packetx , 007
    :
    Packet
,// packet A { u8 x, }
[ """ ++ [128512]%N ++ runes_of_ascii """
,	7
// trailing space 
//
, 255 // " ++ [27880; 37322]%N ++ runes_of_ascii "
, ""a	b""
]
: x_y_z
,
3	:
    //	t
    u128,
""a	b"" : u128,}  , Foo
@lengthOf( o ), i32 int
    , options1 ,	@rightPad(
    ) @rightPad (  '\x00' )
x
`crlf
line` , @tag(
255
)  int16 u8x@lengthOf(trueish)  `" ++ [28040; 24687; 31867; 22411]%N ++ runes_of_ascii "` ,
f64 leftPad @calculatedFrom( ""CRC32"" ) `doc`,
    }")).
Eval vm_compute in ("<<<M1204>>>" ++ check (runes_of_ascii "options { i64_ =
true} root packet // c
repeatCount { u32 Foo //	t
, int8	rootA ,  zchar[
0
]
MetaDataX ,	@calculatedFrom( ""a\""b"" ) char  o, // " ++ [128512]%N ++ runes_of_ascii " emoji
}packet i64_ { } //
packet Foo
{ }
")).
Eval vm_compute in ("<<<M1236>>>" ++ check (runes_of_ascii "MetaData
calculatedFrom
{
    Foo uint8x,o Packet `a\`
, int8
Packet
,
As calculatedFrom
, } options  { T
// trailing space 
// c
= u64 ; stringy =/// triple
f64 ; BodyLength =
// a // b
/// triple
true ; } 	 ")).
Eval vm_compute in ("<<<M1268>>>" ++ check (runes_of_ascii "packet f32a
{}
")).
Eval vm_compute in ("<<<M1300>>>" ++ check (runes_of_ascii "root
packet i8i8 { } options {pack
=
char[3
    ]body= ""// no comment"" ;
// @lengthOf(
// c
i8i8
    // packet A { u8 x, }
    = i32 //	t
;	falsey
=""a\\"" }
")).
Eval vm_compute in ("<<<M1332>>>" ++ check (runes_of_ascii "options {
    i64_ =
// c
// trailing space 
""x y"";
    chars
// a // b
//	t
=
    65535 metadata= i32; // trailing space 
} root  packet
chars { @lengthOf( /// triple
chars
    // " ++ [128512]%N ++ runes_of_ascii " emoji
    ) repeat  Logon
// " ++ [128512]%N ++ runes_of_ascii " emoji
//	t
{ string len @lengthOf(
    crc ) //x
,u128 @lengthOf( x )
, } , }
    packet chars
{ @lengthOf(charz)@calculatedFrom( """ ++ [233]%N ++ runes_of_ascii "t" ++ [233]%N ++ runes_of_ascii """  )
@calculatedFrom( """ ++ [128512]%N ++ runes_of_ascii """ )repeat
    // " ++ [128512]%N ++ runes_of_ascii " emoji
    repeatCount
    Packet `u8 x,`,match
rootA as
    /// triple
    falsey {
    ""{,}""
:
As ,
00
: // " ++ [128512]%N ++ runes_of_ascii " emoji
lengthOf ,
""\n"" : u8x, """ ++ [233]%N ++ runes_of_ascii "t" ++ [233]%N ++ runes_of_ascii """  :T 3:
    /// triple
    calculatedFrom ,}, @leftPad ( )@calculatedFrom(
    ""it's"" )	repeat crc
    stringy`
` ,@lengthOf(// `tick` ""quote"" 'q'
metadata ) repeat falsey{ char[]
Foo `a\` , match leftPad //	t
as  BodyLength {
""CRC32"": body , ""1"": x
,""a\\"":	calculatedFrom,
[
    // @lengthOf(
    1
,00]
:
float }
, repeat
    char calculatedFrom , Foo { u64  Header `
` ,}
, } , }
")).
Eval vm_compute in ("<<<M1364>>>" ++ check (runes_of_ascii "packet float //	t
{ //
}
MetaData i8i8 {uint8x i8i8,
}")).
Eval vm_compute in ("<<<T1364>>>" ++ terms [mkTok 35 "packet" 1 0 false; mkTok 42 "float" 1 7 false; mkTok 44 (string_of_bytes [47; 47; 9; 116]%N) 1 13 true; mkTok 2 "{" 2 0 false; mkTok 44 "//" 2 2 true; mkTok 3 "}" 3 0 false; mkTok 37 "MetaData" 4 0 false; mkTok 42 "i8i8" 4 9 false; mkTok 2 "{" 4 14 false; mkTok 42 "uint8x" 4 15 false; mkTok 42 "i8i8" 4 22 false; mkTok 40 "," 4 26 false; mkTok 3 "}" 5 0 false; mkTok 0 "<EOF>" 5 1 false] (mkPacket (mkPtok 35 "packet" 1 0 0) (Some (mkPtok 3 "}" 5 0 12)) [(DPacket (mkPacketDef (mkSpan (mkPtok 35 "packet" 1 0 0) (mkPtok 3 "}" 3 0 5)) None (mkPtok 35 "packet" 1 0 0) (mkPtok 42 "float" 1 7 1) (mkPtok 2 "{" 2 0 3) [] (mkPtok 3 "}" 3 0 5))); (DMeta (mkMetaDef (mkSpan (mkPtok 37 "MetaData" 4 0 6) (mkPtok 3 "}" 5 0 12)) (mkPtok 37 "MetaData" 4 0 6) (mkPtok 42 "i8i8" 4 9 7) (mkPtok 2 "{" 4 14 8) [(MIRef (mkRefMetaDecl (mkSpan (mkPtok 42 "uint8x" 4 15 9) (mkPtok 40 "," 4 26 11)) (mkPtok 42 "uint8x" 4 15 9) (mkPtok 42 "i8i8" 4 22 10) None (mkPtok 40 "," 4 26 11)))] (mkPtok 3 "}" 5 0 12)))])).
Eval vm_compute in ("<<<M1396>>>" ++ check (runes_of_ascii "packet
falsey
    { }
")).
Eval vm_compute in ("<<<M1428>>>" ++ check (runes_of_ascii "// `tick` ""quote"" 'q'
options { i8i8
=
    // @lengthOf(
    ""{,}""  ;
calculatedFrom
// " ++ [128512]%N ++ runes_of_ascii " emoji
// trailing space 
=42 ;
}")).
Eval vm_compute in ("<<<M1460>>>" ++ check (runes_of_ascii "options { options1 =
char[
00
]
    ; len=
""" ++ [128512]%N ++ runes_of_ascii """ ; a1
    =
    42
    Header =
' '}packet Foo { }

")).
Eval vm_compute in ("<<<M1492>>>" ++ check (runes_of_ascii "packet metadata {//	t
leftPad  { u64 stringy , }
,
} packet
matchKey
{  repeat u64 x_y_z, }MetaData
f32a{
} root packet  As  {
@lengthOf(	Logon  ) float64
A , @leftPad  (// " ++ [27880; 37322]%N ++ runes_of_ascii "
'0' )u32
    i64_ /// triple
`// not a comment`/// triple
, repeat i8
    chars ,@lengthOf( x_y_z
)	Foo x
, stringy , chars @calculatedFrom( ""CRC32"" ) ,
    @tag(
0 ) int64 pack `
` ,
@rightPad ( )
@calculatedFrom(
""abc"" )
@tag(// packet A { u8 x, }
0 ) char[	0 ] msg_type // a // b
,// " ++ [27880; 37322]%N ++ runes_of_ascii "
tag {
    char[	007 ]	zchar@lengthOf(
    chars) , As@lengthOf(	charz )
    `doc` , body `u8 x,`	,
    } ,Foo
    `two words`
    ,
}
")).
Eval vm_compute in ("<<<M1524>>>" ++ check (runes_of_ascii "root packet calculatedFrom { }
")).
Eval vm_compute in ("<<<M1556>>>" ++ check (runes_of_ascii "
packet
i64_ { repeat i64 _x ,float32 charz, @calculatedFrom(
    """ ++ [128512]%N ++ runes_of_ascii """
)BodyLength
// `tick` ""quote"" 'q'
//	t
{	float32
stringy// " ++ [27880; 37322]%N ++ runes_of_ascii "
`line1
line2`, } , @leftPad
(	) char[ 0
] int  @calculatedFrom( ""1"" /// triple
)``  ,//x
match charz //
as lengthOf {""a\""b""
    :
    Foo , 00 : BodyLength
,""1"" : stringy ,  ""a\""b""
    : Z9_ ,
0123456789
//	t
// " ++ [27880; 37322]%N ++ runes_of_ascii "
: i8i8 ""it's""	:
    lengthOf
    } ,char[]
rootA
@calculatedFrom( """" ),uint16
Packet`
` , char[1
    ] len
,
zchar[  10]
// " ++ [27880; 37322]%N ++ runes_of_ascii "
// c
As , i32 f32a ,  }packet
    chars {	@calculatedFrom(
""" ++ [28040; 24687]%N ++ runes_of_ascii """
    )  char[
    // c
    3
] charz @lengthOf( Logon ) `say ""hi""` , i8i8
{u32 msg_type ,
// `tick` ""quote"" 'q'
//	t
}, match
    Header as Pad {""a\\"": chars ,[ 7 , 7 , """ ++ [28040; 24687]%N ++ runes_of_ascii """ // @lengthOf(
] :
    // " ++ [128512]%N ++ runes_of_ascii " emoji
    BodyLength ,
    42
: i8i8 7:
len // trailing space 
, ""it's""
    : body , }
    , //	t
uint16 BodyLength  @calculatedFrom(
""a	b""
    // packet A { u8 x, }
    ) // @lengthOf(
`
`
    ,	@tag(
0123456789 )
    i64
    Packet,
    }
")).
Eval vm_compute in ("<<<M1588>>>" ++ check (runes_of_ascii "MetaData
/// triple
// a // b
pack { x_y_z zchar
// @lengthOf(
// trailing space 
`{ , }`
,  }
")).
Eval vm_compute in ("<<<T1588>>>" ++ terms [mkTok 37 "MetaData" 1 0 false; mkTok 44 "/// triple" 2 0 true; mkTok 44 "// a // b" 3 0 true; mkTok 42 "pack" 4 0 false; mkTok 2 "{" 4 5 false; mkTok 42 "x_y_z" 4 7 false; mkTok 42 "zchar" 4 13 false; mkTok 44 "// @lengthOf(" 5 0 true; mkTok 44 "// trailing space " 6 0 true; mkTok 43 "`{ , }`" 7 0 false; mkTok 40 "," 8 0 false; mkTok 3 "}" 8 3 false; mkTok 0 "<EOF>" 9 0 false] (mkPacket (mkPtok 37 "MetaData" 1 0 0) (Some (mkPtok 3 "}" 8 3 11)) [(DMeta (mkMetaDef (mkSpan (mkPtok 37 "MetaData" 1 0 0) (mkPtok 3 "}" 8 3 11)) (mkPtok 37 "MetaData" 1 0 0) (mkPtok 42 "pack" 4 0 3) (mkPtok 2 "{" 4 5 4) [(MIRef (mkRefMetaDecl (mkSpan (mkPtok 42 "x_y_z" 4 7 5) (mkPtok 40 "," 8 0 10)) (mkPtok 42 "x_y_z" 4 7 5) (mkPtok 42 "zchar" 4 13 6) (Some (mkPtok 43 "`{ , }`" 7 0 9)) (mkPtok 40 "," 8 0 10)))] (mkPtok 3 "}" 8 3 11)))])).
Eval vm_compute in ("<<<M1620>>>" ++ check (runes_of_ascii "packet /// triple
Z9_ { @lengthOf(
matchKey)i16
BodyLength
@calculatedFrom(
// " ++ [128512]%N ++ runes_of_ascii " emoji
// " ++ [27880; 37322]%N ++ runes_of_ascii "
""a\""b"" // packet A { u8 x, }
) `" ++ [233]%N ++ runes_of_ascii "` , match packetx as BodyLength {	"""": stringy , 007
    : a1 ,
    00: o
, 007 : BodyLength /// triple
}
, // @lengthOf(
x
    @calculatedFrom( ""\n"" ) , } options {
Z9_ = false ; } 	 ")).
Eval vm_compute in ("<<<M1652>>>" ++ check (runes_of_ascii "MetaData float {
    o
Pad
`tab	here` ,	f64 pack
`` , uint16 asx,
repeatCount int `line1
line2`, f32a trueish	,}packet string_{ match
    // @lengthOf(
    roots
    as A { ""x y"" :
Z9_
,""it's"" :
msg_type	""" ++ [28040; 24687]%N ++ runes_of_ascii """ : msg_type , ""x y"":
tag	,
}
    , @lengthOf( u
// a // b
// c
)
    // packet A { u8 x, }
    match uint8x  as
msg_type { 65535 : u8x ,
    }, int16 string_ @calculatedFrom(
""x y"") `doc` , f64 _x @calculatedFrom("""")	, // " ++ [27880; 37322]%N ++ runes_of_ascii "
} 	 ")).
Eval vm_compute in ("<<<M1684>>>" ++ check (runes_of_ascii "
options
    {	packetx
    =""" ++ [128512]%N ++ runes_of_ascii """ ; repeatCount
    =
i32 ; // c
}  packet zchar { trueish// " ++ [27880; 37322]%N ++ runes_of_ascii "
, repeat pack u
    // " ++ [128512]%N ++ runes_of_ascii " emoji
    , // packet A { u8 x, }
}
    options { string_ = true u=
// @lengthOf(
//
false; }packet
MetaDataX{repeat x_y_z  T
    ,@tag(  3 ) // `tick` ""quote"" 'q'
repeat i32
    Foo , @calculatedFrom(
""{,}""
) @tag(00) @lengthOf( packetx ) match repeatCount as
    tag { [
"""" ,  0 , ""1"", ""packet""
,/// triple
""// no comment""
,  ""1"" ,
    // trailing space 
    00
]: Header //
}
, zchar[ // " ++ [128512]%N ++ runes_of_ascii " emoji
3 ]
    pack `
` , @tag(
    42 ) uint8x
@calculatedFrom(
    ""CRC32"" ) ,@calculatedFrom(
""// no comment"" ) @leftPad(
// " ++ [128512]%N ++ runes_of_ascii " emoji
//	t
'\x00' ) msg_type
@lengthOf( Z9_)  , @lengthOf(
msg_type
    )
    asx ,@lengthOf(	metadata )
    @tag( 3) @lengthOf( metadata ) f32 BodyLength	@lengthOf(/// triple
T ) , body
,
@leftPad ( '\x00') //x
zchar[ 255 //x
]
    // c
    repeatCount
    @lengthOf( body ) `a\`
,
}
")).
Eval vm_compute in ("<<<M1716>>>" ++ check (runes_of_ascii "packet  repeatCount
    { /// triple
repeat string
    msg_type
`crlf
line` , i8 calculatedFrom
,	@calculatedFrom(
""" ++ [233]%N ++ runes_of_ascii "t" ++ [233]%N ++ runes_of_ascii """
    //x
    ) // `tick` ""quote"" 'q'
uint8x @calculatedFrom( ""{,}"" )`doc` ,	} packet lengthOf {//	t
char[ 3] Logon
,// " ++ [128512]%N ++ runes_of_ascii " emoji
match // `tick` ""quote"" 'q'
i64_
as i64_ {[7 ,
    42 ,
    /// triple
    4294967296
, ""{,}"", 1,
// trailing space 
// `tick` ""quote"" 'q'
""a\""b"" ]
    : _x ,  1: crc ,
}
    , }
    packet
Pad // packet A { u8 x, }
{roots , match options1 as	crc { ""a\\"": packetx
, ""\" ++ [233]%N ++ runes_of_ascii """:
//
// trailing space 
_x  [
4294967296 , 0123456789  , ""1"", 00 ]: uint8x ,""a\\""//	t
: f32a ,""x y"" :charz
// trailing space 
// packet A { u8 x, }
, } , }
")).
Eval vm_compute in ("<<<M1748>>>" ++ check (runes_of_ascii "packet f32a { // a // b
}
")).
Eval vm_compute in ("<<<M1780>>>" ++ check (runes_of_ascii "packet metadata
// c
// " ++ [27880; 37322]%N ++ runes_of_ascii "
{	@leftPad (
    '\x00' ) match crc // " ++ [27880; 37322]%N ++ runes_of_ascii "
as metadata
{ [ 007, 255 ,  3
//
// trailing space 
,
    1 ,
    // packet A { u8 x, }
    10
, 10 ] :Header , [ ""1""  , ""`tick`"" , 65535,""a\""b"" ,
    007 ,
    007 , 0, """ ++ [233]%N ++ runes_of_ascii "t" ++ [233]%N ++ runes_of_ascii """]: a1 ,	},zchar[255 ]repeatCount @lengthOf( stringy)
    ,
uint16
    zchar
, }
root packet	f32a
// a // b
// packet A { u8 x, }
{ u8 tag `a\`,
} packet trueish{ @tag( 0123456789 ) @tag( 007 ) u32	metadata `two words` , float32 T @calculatedFrom( ""a\\"") `" ++ [233]%N ++ runes_of_ascii "` , match stringy
as x_y_z {// a // b
[ ""a\""b""
]: a1 , }
, int8
rootA `tab	here` , int packetx , @tag(0 ) repeat i16 lengthOf `// not a comment` ,}")).
Eval vm_compute in ("<<<M1812>>>" ++ check (runes_of_ascii "MetaData rootA// @lengthOf(
{
string f32a , float zchar , //
string options1
, string crc `` , } // c
root packet _x  {
@calculatedFrom(	""it's"") // packet A { u8 x, }
match x	as leftPad { ""\n""
: matchKey
} ,
string rootA
`crlf
line` // a // b
,  }// trailing space 
packet
    zchar //x
{ } // " ++ [27880; 37322]%N)).
Eval vm_compute in ("<<<T1812>>>" ++ terms [mkTok 37 "MetaData" 1 0 false; mkTok 42 "rootA" 1 9 false; mkTok 44 "// @lengthOf(" 1 14 true; mkTok 2 "{" 2 0 false; mkTok 15 "string" 3 0 false; mkTok 42 "f32a" 3 7 false; mkTok 40 "," 3 12 false; mkTok 42 "float" 3 14 false; mkTok 42 "zchar" 3 20 false; mkTok 40 "," 3 26 false; mkTok 44 "//" 3 28 true; mkTok 15 "string" 4 0 false; mkTok 42 "options1" 4 7 false; mkTok 40 "," 5 0 false; mkTok 15 "string" 5 2 false; mkTok 42 "crc" 5 9 false; mkTok 43 "``" 5 13 false; mkTok 40 "," 5 16 false; mkTok 3 "}" 5 18 false; mkTok 44 "// c" 5 20 true; mkTok 34 "root" 6 0 false; mkTok 35 "packet" 6 5 false; mkTok 42 "_x" 6 12 false; mkTok 2 "{" 6 16 false; mkTok 5 "@calculatedFrom(" 7 0 false; mkTok 31 """it's""" 7 17 false; mkTok 6 ")" 7 23 false; mkTok 44 "// packet A { u8 x, }" 7 25 true; mkTok 38 "match" 8 0 false; mkTok 42 "x" 8 6 false; mkTok 17 "as" 8 8 false; mkTok 42 "leftPad" 8 11 false; mkTok 2 "{" 8 19 false; mkTok 31 """\n""" 8 21 false; mkTok 39 ":" 9 0 false; mkTok 42 "matchKey" 9 2 false; mkTok 3 "}" 10 0 false; mkTok 40 "," 10 2 false; mkTok 15 "string" 11 0 false; mkTok 42 "rootA" 11 7 false; mkTok 43 (string_of_bytes [96; 99; 114; 108; 102; 13; 10; 108; 105; 110; 101; 96]%N) 12 0 false; mkTok 44 "// a // b" 13 6 true; mkTok 40 "," 14 0 false; mkTok 3 "}" 14 3 false; mkTok 44 "// trailing space " 14 4 true; mkTok 35 "packet" 15 0 false; mkTok 42 "zchar" 16 4 false; mkTok 44 "//x" 16 10 true; mkTok 2 "{" 17 0 false; mkTok 3 "}" 17 2 false; mkTok 44 (string_of_bytes [47; 47; 32; 230; 179; 168; 233; 135; 138]%N) 17 4 true; mkTok 0 "<EOF>" 17 9 false] (mkPacket (mkPtok 37 "MetaData" 1 0 0) (Some (mkPtok 3 "}" 17 2 49)) [(DMeta (mkMetaDef (mkSpan (mkPtok 37 "MetaData" 1 0 0) (mkPtok 3 "}" 5 18 18)) (mkPtok 37 "MetaData" 1 0 0) (mkPtok 42 "rootA" 1 9 1) (mkPtok 2 "{" 2 0 3) [(MIDecl (mkMetaDecl (mkSpan (mkPtok 15 "string" 3 0 4) (mkPtok 40 "," 3 12 6)) (TyDynamic (mkSpan (mkPtok 15 "string" 3 0 4) (mkPtok 15 "string" 3 0 4)) (mkDynamicString (mkSpan (mkPtok 15 "string" 3 0 4) (mkPtok 15 "string" 3 0 4)) (mkPtok 15 "string" 3 0 4))) (mkPtok 42 "f32a" 3 7 5) None (mkPtok 40 "," 3 12 6))); (MIRef (mkRefMetaDecl (mkSpan (mkPtok 42 "float" 3 14 7) (mkPtok 40 "," 3 26 9)) (mkPtok 42 "float" 3 14 7) (mkPtok 42 "zchar" 3 20 8) None (mkPtok 40 "," 3 26 9))); (MIDecl (mkMetaDecl (mkSpan (mkPtok 15 "string" 4 0 11) (mkPtok 40 "," 5 0 13)) (TyDynamic (mkSpan (mkPtok 15 "string" 4 0 11) (mkPtok 15 "string" 4 0 11)) (mkDynamicString (mkSpan (mkPtok 15 "string" 4 0 11) (mkPtok 15 "string" 4 0 11)) (mkPtok 15 "string" 4 0 11))) (mkPtok 42 "options1" 4 7 12) None (mkPtok 40 "," 5 0 13))); (MIDecl (mkMetaDecl (mkSpan (mkPtok 15 "string" 5 2 14) (mkPtok 40 "," 5 16 17)) (TyDynamic (mkSpan (mkPtok 15 "string" 5 2 14) (mkPtok 15 "string" 5 2 14)) (mkDynamicString (mkSpan (mkPtok 15 "string" 5 2 14) (mkPtok 15 "string" 5 2 14)) (mkPtok 15 "string" 5 2 14))) (mkPtok 42 "crc" 5 9 15) (Some (mkPtok 43 "``" 5 13 16)) (mkPtok 40 "," 5 16 17)))] (mkPtok 3 "}" 5 18 18))); (DPacket (mkPacketDef (mkSpan (mkPtok 34 "root" 6 0 20) (mkPtok 3 "}" 14 3 43)) (Some (mkPtok 34 "root" 6 0 20)) (mkPtok 35 "packet" 6 5 21) (mkPtok 42 "_x" 6 12 22) (mkPtok 2 "{" 6 16 23) [(mkFieldWithAttr (mkSpan (mkPtok 5 "@calculatedFrom(" 7 0 24) (mkPtok 40 "," 10 2 37)) [(FACalculatedFrom (mkSpan (mkPtok 5 "@calculatedFrom(" 7 0 24) (mkPtok 6 ")" 7 23 26)) (mkCalculatedFrom (mkSpan (mkPtok 5 "@calculatedFrom(" 7 0 24) (mkPtok 6 ")" 7 23 26)) (mkPtok 5 "@calculatedFrom(" 7 0 24) (mkPtok 31 """it's""" 7 17 25) (mkPtok 6 ")" 7 23 26)))] (MatchField (mkSpan (mkPtok 38 "match" 8 0 28) (mkPtok 40 "," 10 2 37)) (mkMatchFieldDecl (mkSpan (mkPtok 38 "match" 8 0 28) (mkPtok 3 "}" 10 0 36)) (mkPtok 38 "match" 8 0 28) (mkPtok 42 "x" 8 6 29) (mkPtok 17 "as" 8 8 30) (mkPtok 42 "leftPad" 8 11 31) (mkPtok 2 "{" 8 19 32) [(mkMatchPair (mkSpan (mkPtok 31 """\n""" 8 21 33) (mkPtok 42 "matchKey" 9 2 35)) (MKString (mkPtok 31 """\n""" 8 21 33)) (mkPtok 39 ":" 9 0 34) (mkPtok 42 "matchKey" 9 2 35) None)] (mkPtok 3 "}" 10 0 36)) (mkPtok 40 "," 10 2 37))); (mkFieldWithAttr (mkSpan (mkPtok 15 "string" 11 0 38) (mkPtok 40 "," 14 0 42)) [] (MetaField (mkSpan (mkPtok 15 "string" 11 0 38) (mkPtok 40 "," 14 0 42)) None (mkMetaDecl (mkSpan (mkPtok 15 "string" 11 0 38) (mkPtok 40 "," 14 0 42)) (TyDynamic (mkSpan (mkPtok 15 "string" 11 0 38) (mkPtok 15 "string" 11 0 38)) (mkDynamicString (mkSpan (mkPtok 15 "string" 11 0 38) (mkPtok 15 "string" 11 0 38)) (mkPtok 15 "string" 11 0 38))) (mkPtok 42 "rootA" 11 7 39) (Some (mkPtok 43 (string_of_bytes [96; 99; 114; 108; 102; 13; 10; 108; 105; 110; 101; 96]%N) 12 0 40)) (mkPtok 40 "," 14 0 42))))] (mkPtok 3 "}" 14 3 43))); (DPacket (mkPacketDef (mkSpan (mkPtok 35 "packet" 15 0 45) (mkPtok 3 "}" 17 2 49)) None (mkPtok 35 "packet" 15 0 45) (mkPtok 42 "zchar" 16 4 46) (mkPtok 2 "{" 17 0 48) [] (mkPtok 3 "}" 17 2 49)))])).
Eval vm_compute in ("<<<M1844>>>" ++ check (runes_of_ascii "root packet
    a1{ @calculatedFrom(  ""`tick`""
    /// triple
    ) match a1 as chars // a // b
{ 4294967296
    : packetx,
""packet"" : crc /// triple
, ""CRC32""	://	t
BodyLength ,
""// no comment""
:	Packet ,}
// packet A { u8 x, }
// packet A { u8 x, }
,
i8  Header@calculatedFrom(""abc"" ) , @calculatedFrom( // c
""// no comment"" )
// @lengthOf(
//x
@tag(
    42 ) repeat
float32	As
, } MetaData
BodyLength { float Pad
`" ++ [28040; 24687; 31867; 22411]%N ++ runes_of_ascii "` ,  i8
    // a // b
    repeatCount `a\`,
    }	packet asx { repeat zchar[ 0 ]x_y_z
    , pack
    //x
    packetx `" ++ [233]%N ++ runes_of_ascii "`,repeat string roots , } packet len { charz
u
, metadata `
`,
    metadata,@tag( 00
) stringy,
match x as x_y_z // @lengthOf(
{
    1:
    rootA , } ,
    @rightPad ( '0' )
    i64_ @lengthOf( roots
) `a\` , metadata i8i8 , @leftPad ( ' ' //	t
)
f64 string_ `` , repeat
MetaDataX,
@rightPad ( '0'
    )
    /// triple
    zchar[	7
] charz @calculatedFrom( """ ++ [233]%N ++ runes_of_ascii "t" ++ [233]%N ++ runes_of_ascii """ )	`two words` ,
} // `tick` ""quote"" 'q'
root packet Pad
    {u8x msg_type
    // c
    , @tag( 42
    )crc @calculatedFrom(
""a	b""
) , match
rootA
as u { ""\n"": As	, """ ++ [233]%N ++ runes_of_ascii "t" ++ [233]%N ++ runes_of_ascii """
:crc , [ 0 ,""" ++ [233]%N ++ runes_of_ascii "t" ++ [233]%N ++ runes_of_ascii """
, ""abc"" ]  : o ,  ""a	b"" :
    len,	0123456789 :  chars
[
    /// triple
    4294967296
, 1, ""a	b"" ,""a\""b"" ,
00 ,
    00
,""""
, // a // b
65535]: o ,}  , @calculatedFrom(	""packet"" ) uint16 trueish `crlf
line`, leftPad
    calculatedFrom `it's`
    // @lengthOf(
    ,	@calculatedFrom( ""x y"" )
    @calculatedFrom( ""it's""  )  @lengthOf( len )
repeat len  `// not a comment` ,
repeat //
i64
    uint8x
`
`
// a // b
// @lengthOf(
,	uint32 leftPad
    @calculatedFrom(	""a	b""
//x
// " ++ [27880; 37322]%N ++ runes_of_ascii "
)	, }
")).
Eval vm_compute in ("<<<M1876>>>" ++ check (runes_of_ascii "packet BodyLength
{
@leftPad('\x00'
//
//x
)repeat chars, } packet len
{ @leftPad ( // `tick` ""quote"" 'q'
' ' )//x
@tag( 007
) int64 Packet // a // b
`a\`
    , }
// @lengthOf(
//x
packet float {
} packet
packetx {}
")).
Eval vm_compute in ("<<<M1908>>>" ++ check (runes_of_ascii "MetaData int { char[]
    pack ,
}
// " ++ [128512]%N ++ runes_of_ascii " emoji
")).
Eval vm_compute in ("<<<M1940>>>" ++ check (runes_of_ascii "
")).
Eval vm_compute in ("<<<M1972>>>" ++ check (runes_of_ascii "packet i8i8{ Z9_ { u8x
lengthOf
,char[] _x @lengthOf(
    u128 ), lengthOf, i64 i8i8 , } , Packet u , @rightPad ( )
match _x
as body
{
    ""`tick`"" :	repeatCount, 00 // trailing space 
: // " ++ [128512]%N ++ runes_of_ascii " emoji
uint8x// " ++ [27880; 37322]%N ++ runes_of_ascii "
0123456789	:
    len
    ,// trailing space 
[ ""\n""
, ""1""
    // packet A { u8 x, }
    ]
:
//x
//
o
, """"  : A , } , repeat u32
    // @lengthOf(
    A
`
` ,char[
    42 ] charz
,repeat
uint8x float
`two words` ,@calculatedFrom( """ ++ [28040; 24687]%N ++ runes_of_ascii """
    )
a1
,}
")).
Eval vm_compute in ("<<<M2004>>>" ++ check (runes_of_ascii "options {
    StringPrefixLenType = u16;
    ArrayPrefixLenType = u16;
}

packet SampleBinary {
    uint16 MsgType `" ++ [28040; 24687; 31867; 22411]%N ++ runes_of_ascii "`,
    u16 BodyLenght @lengthOf(Body) `" ++ [28040; 24687; 20307; 38271; 24230]%N ++ runes_of_ascii "`,
    match MsgType as Body {
        1 : Logon,
        2 : Logout,
        3 : Heartbeat,
        4 : RiskControlRequest,
        5 : RiskControlResponse,
    },
    @calculatedFrom(""CRC32"")
    u32 Ckecksum `" ++ [26657; 39564; 21644]%N ++ runes_of_ascii "`,
}

packet Logon {
    @leftPad('0')
    char[10] UserName `" ++ [29992; 25143; 21517]%N ++ runes_of_ascii "`,
    string Password `" ++ [23494; 30721]%N ++ runes_of_ascii "`,
    uint64 ClientId `" ++ [23458; 25143; 31471]%N ++ runes_of_ascii "ID`,
    u16 HeartbeatInterval `" ++ [24515; 36339; 38388; 38548]%N ++ runes_of_ascii "`,
}

packet Logout {
    @rightPad('0')
    char[10] UserName `" ++ [29992; 25143; 21517]%N ++ runes_of_ascii "`,
    uint64 ClientId `" ++ [23458; 25143; 31471]%N ++ runes_of_ascii "ID`,
}

packet Heartbeat {
}

packet RiskControlRequest {
    string UniqueOrderId `" ++ [21807; 19968; 35746; 21333; 21495]%N ++ runes_of_ascii "`,
    char[16] ClOrdID `" ++ [23458; 25143; 35746; 21333; 21495]%N ++ runes_of_ascii "`,
    char[3] MarketID `" ++ [24066; 22330]%N ++ runes_of_ascii "id`,
    char[12] SecurityID `" ++ [35777; 21048; 20195; 30721]%N ++ runes_of_ascii "`,
    char Side `" ++ [20080; 21334; 26041; 21521]%N ++ runes_of_ascii "`,
    char OrderType `" ++ [35746; 21333; 31867; 22411]%N ++ runes_of_ascii "`,
    u64 Price `" ++ [20215; 26684]%N ++ runes_of_ascii "`,
    u32 Qty `" ++ [25968; 37327]%N ++ runes_of_ascii "`,
    repeat string ExtraInfo `" ++ [38468; 21152; 20449; 24687]%N ++ runes_of_ascii "`,
    repeat SubOrder {
        char[16] ClOrdID `" ++ [23376; 35746; 21333; 21495]%N ++ runes_of_ascii "`,
        u64 Price `" ++ [23376; 35746; 21333; 20215; 26684]%N ++ runes_of_ascii "`,
        u32 Qty `" ++ [23376; 35746; 21333; 25968; 37327]%N ++ runes_of_ascii "`,
    },
}

packet RiskControlResponse {
    string UniqueOrderId `" ++ [21807; 19968; 35746; 21333; 21495]%N ++ runes_of_ascii "`,
    i32 Status `" ++ [29366; 24577]%N ++ runes_of_ascii "`,
    string Msg `" ++ [32467; 26524; 20449; 24687]%N ++ runes_of_ascii "`,
    repeat Detail,
}

packet Detail {
    string RuleName `" ++ [35268; 21017; 21517; 31216]%N ++ runes_of_ascii "`,
    u16 Code `" ++ [21407; 22240; 20195; 30721]%N ++ runes_of_ascii "`,
}")).
Eval vm_compute in ("<<<M2036>>>" ++ check (runes_of_ascii "options{ i64_ = string trueish ; =
    '\x00'
    leftPad = ""a\\"" /// triple
; crc
    = 255; uint8x
=
""abc""
    ;}")).
Eval vm_compute in ("<<<M2068>>>" ++ check (runes_of_ascii "options{ i64_ = string ; trueish =
    '\x00'
    leftPad =")).
Eval vm_compute in ("<<<M2100>>>" ++ check (runes_of_ascii "options{ i64_ = string ; trueish =
    '\x00'
    leftPad = ""a\\"" /// triple
; crc
    = 255; uint8x
= =
""abc""
    ;}")).
Eval vm_compute in ("<<<M2132>>>" ++ check (runes_of_ascii "options{ i64_ = string ; trueish =
    '\x00'
    leftPad = ""a\\"" /// triple
?; crc
    = 255; uint8x
=
""abc""
    ;}")).
Eval vm_compute in ("<<<M2164>>>" ++ check (runes_of_ascii "  packet
asx
{
/// triple
// @lengthOf(
u32")).
Eval vm_compute in ("<<<M2196>>>" ++ check (runes_of_ascii "  packet
asx
{
/// triple
// @lengthOf(
u32 stringy
`" ++ [28040; 24687; 31867; 22411]%N ++ runes_of_ascii "` ,} MetaData
    A {string string  _x, zchar Header `a\`
// @lengthOf(
// packet A { u8 x, }
, char[] MetaDataX
,zchar[ 1 ]
    matchKey
    , char[] //
u,	char[0123456789 ]
    matchKey
    `{ , }`, }
")).
Eval vm_compute in ("<<<M2228>>>" ++ check (runes_of_ascii "  packet
asx
{
/// triple
// @lengthOf(
u32 stringy
`" ++ [28040; 24687; 31867; 22411]%N ++ runes_of_ascii "` ,} MetaData
    A {string  _x, zchar Header `a\`
// @lengthOf(
// packet A { u8 x, }
float32 char[] MetaDataX
,zchar[ 1 ]
    matchKey
    , char[] //
u,	char[0123456789 ]
    matchKey
    `{ , }`, }
")).
Eval vm_compute in ("<<<M2260>>>" ++ check (runes_of_ascii "  packet
asx
{
/// triple
// @lengthOf(
u32 stringy
`" ++ [28040; 24687; 31867; 22411]%N ++ runes_of_ascii "` ,} MetaData
    A {string  _x, zchar Header `a\`
// @lengthOf(
// packet A { u8 x, }
, char[] MetaDataX
,zchar[ 1 ]
    
    , char[] //
u,	char[0123456789 ]
    matchKey
    `{ , }`, }
")).
Eval vm_compute in ("<<<M2292>>>" ++ check (runes_of_ascii "  packet
asx
{
/// triple
// @lengthOf(
u32 stringy
`" ++ [28040; 24687; 31867; 22411]%N ++ runes_of_ascii "` ,} MetaData
    A {string  _x, zchar Header `a\`
// @lengthOf(
// packet A { u8 x, }
, char[] MetaDataX
,zchar[ 1 ]
    matchKey
    , char[] //
u,	char[ ] 0123456789
    matchKey
    `{ , }`, }
")).
Eval vm_compute in ("<<<M2324>>>" ++ check (runes_of_ascii "  packet
asx
{
/// triple
// @lengthOf(
u32 stringy
`" ++ [28040; 24687; 31867; 22411]%N ++ runes_of_ascii "` ,} MetaData
    A {string  _x, zchar Header `a\`
// @lengthOf(
// packet A { u8 x, }
, char[] MetaDataX
,zchar[ 1 #]
    matchKey
    , char[] //
u,	char[0123456789 ]
    matchKey
    `{ , }`, }
")).
Eval vm_compute in ("<<<M2356>>>" ++ check (runes_of_ascii "root
    packet
Packet
 // trailing space 
matchKey `tab	here` ,}")).
Eval vm_compute in ("<<<M2388>>>" ++ check (runes_of_ascii "root
    packet
Packet
{ // trailing spa""ce 
matchKey `tab	here` ,}")).
Eval vm_compute in ("<<<M2420>>>" ++ check (runes_of_ascii "options{ falsey // a // b
packet
    '0' } options { repeatCount =
true ; string_// a // b
=
// c
// " ++ [27880; 37322]%N ++ runes_of_ascii "
int64
// trailing space 
/// triple
; } // @lengthOf(")).
Eval vm_compute in ("<<<M2452>>>" ++ check (runes_of_ascii "options{ falsey // a // b
=
    '0' } options { repeatCount =
 ; string_// a // b
=
// c
// " ++ [27880; 37322]%N ++ runes_of_ascii "
int64
// trailing space 
/// triple
; } // @lengthOf(")).
Eval vm_compute in ("<<<M2484>>>" ++ check (runes_of_ascii "options{ falsey // a // b
=
    '0' } options { repeatCount =
true ; string_// a // b
=
// c
// " ++ [27880; 37322]%N ++ runes_of_ascii "
int64
// trailing space 
/// triple
; char[] // @lengthOf(")).
Eval vm_compute in ("<<<M2516>>>" ++ check (runes_of_ascii "options:}root packet
metadata {
@lengthOf(x ) float32
body ``, }
    MetaData
Z9_
    {
    string string_ , Logon x
,
uint32
    // packet A { u8 x, }
    Z9_,asx
_x
    `tab	here` , }
")).
Eval vm_compute in ("<<<M2548>>>" ++ check (runes_of_ascii "options{}root packet
metadata {
@lengthOf( ) float32
body ``, }
    MetaData
Z9_
    {
    string string_ , Logon x
,
uint32
    // packet A { u8 x, }
    Z9_,asx
_x
    `tab	here` , }
")).
Eval vm_compute in ("<<<M2580>>>" ++ check (runes_of_ascii "options{}root packet
metadata {
@lengthOf(x ) float32
body ``, MetaData
    }
Z9_
    {
    string string_ , Logon x
,
uint32
    // packet A { u8 x, }
    Z9_,asx
_x
    `tab	here` , }
")).
Eval vm_compute in ("<<<M2612>>>" ++ check (runes_of_ascii "options{}root packet
metadata {
@lengthOf(x ) float32
body ``, }
    MetaData
Z9_
    {
    string string_")).
Eval vm_compute in ("<<<M2644>>>" ++ check (runes_of_ascii "options{}root packet
metadata {
@lengthOf(x ) float32
body ``, }
    MetaData
Z9_
    {
    string string_ , Logon x
,
uint32
    // packet A { u8 x, }
    Z9_,asx asx
_x
    `tab	here` , }
")).
Eval vm_compute in ("<<<M2676>>>" ++ check (runes_of_ascii "options{}root packet
' metadata {
@lengthOf(x ) float32
body ``, }
    MetaData
Z9_
    {
    string string_ , Logon x
,
uint32
    // packet A { u8 x, }
    Z9_,asx
_x
    `tab	here` , }
")).
Eval vm_compute in ("<<<M2708>>>" ++ check (runes_of_ascii "options {
    falsey")).
Eval vm_compute in ("<<<M2740>>>" ++ check (runes_of_ascii "options {
    falsey=
? ""a\\"" ; }")).
Eval vm_compute in ("<<<M2772>>>" ++ check (runes_of_ascii "MetaData f32a
{
    //	t
    }root
    tag packet  {
}
")).
Eval vm_compute in ("<<<M2804>>>" ++ check (runes_of_ascii "MetaData f32a
{
    //	t
    " ++ [233]%N ++ runes_of_ascii " }root
    packet tag  {
}
")).
Eval vm_compute in ("<<<M2836>>>" ++ check (runes_of_ascii "
options
    {msg_type =
    float32  root
packet Z9_{ char /// triple
crc @lengthOf(
options1 ) //
,} MetaData a1{}
")).
Eval vm_compute in ("<<<M2868>>>" ++ check (runes_of_ascii "
options
    {msg_type =
    float32  }root
packet Z9_{ char /// triple
@lengthOf( crc
options1 ) //
,} MetaData a1{}
")).
Eval vm_compute in ("<<<M2900>>>" ++ check (runes_of_ascii "
options
    {msg_type =
    float32  }root
packet Z9_{ char /// triple
crc @lengthOf(
options1 ) //
,}")).
Eval vm_compute in ("<<<M2932>>>" ++ check (runes_of_ascii "
options
    {msg_type =
    float32  }root
packet Z9_{ char /// triple
crc @lengthOf(
options1 ) //
@leftpad,} MetaData a1{}
")).
Eval vm_compute in ("<<<M2964>>>" ++ check (runes_of_ascii "packet crc{ // " ++ [128512]%N ++ runes_of_ascii " emoji
repeat string `a\`
i8i8, }
")).
Eval vm_compute in ("<<<M2996>>>" ++ check (runes_of_ascii "packet crc{ // " ++ [128512]%N ++ runes_of_ascii " emoji
'\x01'repeat string i8i8
`a\`, }
")).
Eval vm_compute in ("<<<M3028>>>" ++ check (runes_of_ascii "packet BodyLength {} MetaData { zchar[// @lengthOf(
42 ]
    pack , string_
A , char[]crc , _x trueish ,
// " ++ [27880; 37322]%N ++ runes_of_ascii "
// " ++ [128512]%N ++ runes_of_ascii " emoji
zchar[
    3 ]	T // trailing space 
, } packet body
{
    }
")).
Eval vm_compute in ("<<<M3060>>>" ++ check (runes_of_ascii "packet BodyLength {} MetaData zchar{ zchar[// @lengthOf(
42 ]
    pack string_ ,
A , char[]crc , _x trueish ,
// " ++ [27880; 37322]%N ++ runes_of_ascii "
// " ++ [128512]%N ++ runes_of_ascii " emoji
zchar[
    3 ]	T // trailing space 
, } packet body
{
    }
")).
Eval vm_compute in ("<<<M3092>>>" ++ check (runes_of_ascii "packet BodyLength {} MetaData zchar{ zchar[// @lengthOf(
42 ]
    pack , string_
A , char[]crc")).
Eval vm_compute in ("<<<M3124>>>" ++ check (runes_of_ascii "packet BodyLength {} MetaData zchar{ zchar[// @lengthOf(
42 ]
    pack , string_
A , char[]crc , _x trueish ,
// " ++ [27880; 37322]%N ++ runes_of_ascii "
// " ++ [128512]%N ++ runes_of_ascii " emoji
zchar[
    3 ]	T T // trailing space 
, } packet body
{
    }
")).
Eval vm_compute in ("<<<M3156>>>" ++ check (runes_of_ascii "packet BodyLength {} MetaData zchar{ zchar[// @lengthOf(
42 ]
    pack , string_
A , char[]crc , _x trueish ,
// " ++ [27880; 37322]%N ++ runes_of_ascii "
// " ++ [128512]%N ++ runes_of_ascii " emoji
zchar[
    3 ]	T // trailing space 
, } packet body
{")).
Eval vm_compute in ("<<<M3188>>>" ++ check (runes_of_ascii "packet")).
Eval vm_compute in ("<<<M3220>>>" ++ check (runes_of_ascii "packet
string_ {@lengthOf( int ) match packetx as as f32a {
    1 :	calculatedFrom , }  ,
    } packet len
    //	t
    { @calculatedFrom( """ ++ [233]%N ++ runes_of_ascii "t" ++ [233]%N ++ runes_of_ascii """ ) body Header , char[] lengthOf  `two words` ,chars{repeat string_ matchKey ,
    } ,
    }
")).
Eval vm_compute in ("<<<M3252>>>" ++ check (runes_of_ascii "packet
string_ {@lengthOf( int ) match packetx as f32a {
    1 :	calculatedFrom 10 }  ,
    } packet len
    //	t
    { @calculatedFrom( """ ++ [233]%N ++ runes_of_ascii "t" ++ [233]%N ++ runes_of_ascii """ ) body Header , char[] lengthOf  `two words` ,chars{repeat string_ matchKey ,
    } ,
    }
")).
Eval vm_compute in ("<<<M3284>>>" ++ check (runes_of_ascii "packet
string_ {@lengthOf( int ) match packetx as f32a {
    1 :	calculatedFrom , }  ,
    } packet len
    //	t
    {  """ ++ [233]%N ++ runes_of_ascii "t" ++ [233]%N ++ runes_of_ascii """ ) body Header , char[] lengthOf  `two words` ,chars{repeat string_ matchKey ,
    } ,
    }
")).
Eval vm_compute in ("<<<M3316>>>" ++ check (runes_of_ascii "packet
string_ {@lengthOf( int ) match packetx as f32a {
    1 :	calculatedFrom , }  ,
    } packet len
    //	t
    { @calculatedFrom( """ ++ [233]%N ++ runes_of_ascii "t" ++ [233]%N ++ runes_of_ascii """ ) body Header , lengthOf char[]  `two words` ,chars{repeat string_ matchKey ,
    } ,
    }
")).
Eval vm_compute in ("<<<M3348>>>" ++ check (runes_of_ascii "packet
string_ {@lengthOf( int ) match packetx as f32a {
    1 :	calculatedFrom , }  ,
    } packet len
    //	t
    { @calculatedFrom( """ ++ [233]%N ++ runes_of_ascii "t" ++ [233]%N ++ runes_of_ascii """ ) body Header , char[] lengthOf  `two words` ,chars{")).
Eval vm_compute in ("<<<M3380>>>" ++ check (runes_of_ascii "packet
string_ {@lengthOf( int ) match packetx as f32a {
    1 :	calculatedFrom , }  ,
    } packet len
    //	t
    { @calculatedFrom( """ ++ [233]%N ++ runes_of_ascii "t" ++ [233]%N ++ runes_of_ascii """ ) body Header , char[] lengthOf  `two words` ,chars{repeat string_ matchKey ,
    } ,")).
Eval vm_compute in ("<<<M3412>>>" ++ check (runes_of_ascii "/// triple
root
packet // packet A { u8 x, }
chars { @lengthOf(charz )
stringy,  @tag(  0 ) // a // b
asx
    As
,
// trailing space 
// trailing space 
x_y_z {
repeat i16 charz , }")).
Eval vm_compute in ("<<<M3444>>>" ++ check (runes_of_ascii "/// triple
root
packet // packet A { u8 x, }
chars { @lengthOf(charz )
stringy,  @tag(  0 ) // a // b
asx
    As
,
// trailing space 
// trailing space 
x_y_z { {
repeat i16 charz , } ,	int16  crc ,}
")).
Eval vm_compute in ("<<<M3476>>>" ++ check (runes_of_ascii "/// triple
root
packet // packet A { u8 x, }
chars @lengthOf( {charz )
stringy,  @tag(  0 ) // a // b
asx
    As
,
// trailing space 
// trailing space 
x_y_z {
repeat i16 charz , } ,	int16  crc ,}
")).
Eval vm_compute in ("<<<M3508>>>" ++ check (runes_of_ascii "i8i8")).
Eval vm_compute in ("<<<M3540>>>" ++ check (runes_of_ascii "'\x0'")).
Eval vm_compute in ("<<<M3572>>>" ++ check (runes_of_ascii """")).
Eval vm_compute in ("<<<M3604>>>" ++ check (runes_of_ascii "1_")).
Eval vm_compute in ("<<<M3636>>>" ++ check (runes_of_ascii "packet A { x }")).
Eval vm_compute in ("<<<M3668>>>" ++ check (runes_of_ascii "packet A { B { match k as n { 1 : C }, }, }")).
Eval vm_compute in ("<<<M3700>>>" ++ check (runes_of_ascii "packet A { } 1")).
Eval vm_compute in ("<<<M3732>>>" ++ check (runes_of_ascii "options { a = char[3]; b = zchar[0] c = char[] d = string e = u8 }")).
Eval vm_compute in ("<<<M3764>>>" ++ check ([65533]%N ++ runes_of_ascii "D'" ++ [65533]%N ++ runes_of_ascii "	@" ++ [33821; 65533; 65533; 65533; 6]%N ++ runes_of_ascii "Ug}r" ++ [65533; 15]%N ++ runes_of_ascii "!" ++ [65533; 65533]%N ++ runes_of_ascii "e" ++ [65533; 65533]%N ++ runes_of_ascii "\" ++ [65533; 65533; 65533]%N ++ runes_of_ascii "@" ++ [65533; 65533; 65533; 65533]%N ++ runes_of_ascii "T" ++ [65533; 65533]%N)).
Eval vm_compute in ("<<<M3796>>>" ++ check ([65533; 65533]%N ++ runes_of_ascii "	" ++ [65533]%N ++ runes_of_ascii ".}" ++ [65533]%N)).
Eval vm_compute in ("<<<M3828>>>" ++ check ([30]%N ++ runes_of_ascii "V/" ++ [65533]%N ++ runes_of_ascii "ic" ++ [65533; 65533; 65533]%N ++ runes_of_ascii "%" ++ [65533; 65533; 65533]%N ++ runes_of_ascii "O" ++ [65533]%N ++ runes_of_ascii "!" ++ [65533]%N ++ runes_of_ascii "o" ++ [65533]%N ++ runes_of_ascii "]" ++ [65533; 65533; 65533; 11]%N)).
Eval vm_compute in ("<<<M3860>>>" ++ check ([65533]%N ++ runes_of_ascii "Ze" ++ [3; 65533; 19; 65533; 19]%N ++ runes_of_ascii "o" ++ [22]%N ++ runes_of_ascii "5" ++ [65533; 65533; 65533]%N ++ runes_of_ascii "*Zk)" ++ [4; 65533]%N ++ runes_of_ascii "T" ++ [65533; 65533; 6]%N ++ runes_of_ascii "K?" ++ [65533; 65533; 27; 65533; 0; 65533; 65533; 65533; 65533; 65533; 127; 65533]%N ++ runes_of_ascii ";")).
Eval vm_compute in ("<<<M3892>>>" ++ check ([65533; 1687; 65533]%N ++ runes_of_ascii "'?" ++ [65533]%N ++ runes_of_ascii """>" ++ [65533; 65533; 65533; 1235; 65533]%N ++ runes_of_ascii "zPN" ++ [21; 65533; 65533]%N)).
Eval vm_compute in ("<<<M3924>>>" ++ check ([40659; 65533; 65533; 65533]%N ++ runes_of_ascii "f")).
Eval vm_compute in ("<<<M3956>>>" ++ check ([1581]%N ++ runes_of_ascii "b" ++ [997]%N ++ runes_of_ascii "2Noo" ++ [65533]%N ++ runes_of_ascii "0/$T" ++ [65533]%N ++ runes_of_ascii "i" ++ [65533; 65533; 65533; 2]%N ++ runes_of_ascii "/v")).
Eval vm_compute in ("<<<M3988>>>" ++ check ([27; 65533; 65533]%N ++ runes_of_ascii ",%" ++ [65533]%N ++ runes_of_ascii "v" ++ [65533]%N ++ runes_of_ascii "@" ++ [65533; 2; 65533]%N ++ runes_of_ascii "8G6" ++ [65533; 65533]%N ++ runes_of_ascii "A" ++ [48969; 65533; 12]%N ++ runes_of_ascii "b" ++ [65533; 127; 65533; 8; 65533; 65533; 65533]%N)).
