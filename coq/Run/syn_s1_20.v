From FP Require Import Lexer Parser ShowPT Digest.
From Coq Require Import String List NArith.
Import ListNotations.
Open Scope string_scope.
Set Printing Width 100000000.
Set Printing Depth 100000000.
Definition nl : string := String (Ascii.ascii_of_nat 10) EmptyString.
Definition model_lex (rs : list rune) : string := show_toks (lex rs).
Definition model_parse (rs : list rune) : string :=
  show_pt (match lex rs with Some ts => parse ts | None => None end).
(* coqc is slow at printing long strings: digests first (Digest.v), full texts on demand *)
Definition check (rs : list rune) : string :=
  digest (model_lex rs) ++ " " ++ digest (model_parse rs).
Definition full (rs : list rune) : string := model_lex rs ++ nl ++ model_parse rs.
Definition terms (ts : list tok) (t : pt) : string :=
  digest (show_toks (Some ts)) ++ " " ++ digest (show_pt (Some t)) ++ " " ++ digest (show_pt (parse ts)).
Definition terms_full (ts : list tok) (t : pt) : string :=
  show_toks (Some ts) ++ nl ++ show_pt (Some t) ++ nl ++ show_pt (parse ts).
Eval vm_compute in ("<<<M20>>>" ++ check (runes_of_ascii "packet // " ++ [27880; 37322]%N ++ runes_of_ascii "
MetaDataX /// triple
{char[ 1 ]T  ,
char[] Foo @calculatedFrom(
""{,}"" )
, a1
    // " ++ [27880; 37322]%N ++ runes_of_ascii "
    ,@lengthOf( roots) falsey int `u8 x,` , char[
    0123456789 ] a1 `
`,  string
Z9_ @calculatedFrom( ""`tick`"" ) , zchar[
00 ] Logon
    @lengthOf(u128 // " ++ [128512]%N ++ runes_of_ascii " emoji
)  `tab	here`
    ,@calculatedFrom( ""a	b""
) Z9_ { repeat stringy
    { int16  string_ ,
    string //x
tag @lengthOf(// `tick` ""quote"" 'q'
a1)// 50% %s
, } ,
    }
, repeat charz
    {lengthOf f32a , } ,char[ 65535] crc`" ++ [28040; 24687; 31867; 22411]%N ++ runes_of_ascii "` ,} packet len
{
    rootA // c
{ repeat string string_ ,
string pack
,
char[]
roots,
}
, } //")).
Eval vm_compute in ("<<<T20>>>" ++ terms [mkTok 35 "packet" 1 0 false; mkTok 44 (string_of_bytes [47; 47; 32; 230; 179; 168; 233; 135; 138]%N) 1 7 true; mkTok 42 "MetaDataX" 2 0 false; mkTok 44 "/// triple" 2 10 true; mkTok 2 "{" 3 0 false; mkTok 12 "char[" 3 1 false; mkTok 30 "1" 3 7 false; mkTok 13 "]" 3 9 false; mkTok 42 "T" 3 10 false; mkTok 40 "," 3 13 false; mkTok 16 "char[]" 4 0 false; mkTok 42 "Foo" 4 7 false; mkTok 5 "@calculatedFrom(" 4 11 false; mkTok 31 """{,}""" 5 0 false; mkTok 6 ")" 5 6 false; mkTok 40 "," 6 0 false; mkTok 42 "a1" 6 2 false; mkTok 44 (string_of_bytes [47; 47; 32; 230; 179; 168; 233; 135; 138]%N) 7 4 true; mkTok 40 "," 8 4 false; mkTok 7 "@lengthOf(" 8 5 false; mkTok 42 "roots" 8 16 false; mkTok 6 ")" 8 21 false; mkTok 42 "falsey" 8 23 false; mkTok 42 "int" 8 30 false; mkTok 43 "`u8 x,`" 8 34 false; mkTok 40 "," 8 42 false; mkTok 12 "char[" 8 44 false; mkTok 30 "0123456789" 9 4 false; mkTok 13 "]" 9 15 false; mkTok 42 "a1" 9 17 false; mkTok 43 (string_of_bytes [96; 10; 96]%N) 9 20 false; mkTok 40 "," 10 1 false; mkTok 15 "string" 10 4 false; mkTok 42 "Z9_" 11 0 false; mkTok 5 "@calculatedFrom(" 11 4 false; mkTok 31 """`tick`""" 11 21 false; mkTok 6 ")" 11 30 false; mkTok 40 "," 11 32 false; mkTok 14 "zchar[" 11 34 false; mkTok 30 "00" 12 0 false; mkTok 13 "]" 12 3 false; mkTok 42 "Logon" 12 5 false; mkTok 7 "@lengthOf(" 13 4 false; mkTok 42 "u128" 13 14 false; mkTok 44 (string_of_bytes [47; 47; 32; 240; 159; 152; 128; 32; 101; 109; 111; 106; 105]%N) 13 19 true; mkTok 6 ")" 14 0 false; mkTok 43 (string_of_bytes [96; 116; 97; 98; 9; 104; 101; 114; 101; 96]%N) 14 3 false; mkTok 40 "," 15 4 false; mkTok 5 "@calculatedFrom(" 15 5 false; mkTok 31 (string_of_bytes [34; 97; 9; 98; 34]%N) 15 22 false; mkTok 6 ")" 16 0 false; mkTok 42 "Z9_" 16 2 false; mkTok 2 "{" 16 6 false; mkTok 36 "repeat" 16 8 false; mkTok 42 "stringy" 16 15 false; mkTok 2 "{" 17 4 false; mkTok 25 "int16" 17 6 false; mkTok 42 "string_" 17 13 false; mkTok 40 "," 17 21 false; mkTok 15 "string" 18 4 false; mkTok 44 "//x" 18 11 true; mkTok 42 "tag" 19 0 false; mkTok 7 "@lengthOf(" 19 4 false; mkTok 44 "// `tick` ""quote"" 'q'" 19 14 true; mkTok 42 "a1" 20 0 false; mkTok 6 ")" 20 2 false; mkTok 44 "// 50% %s" 20 3 true; mkTok 40 "," 21 0 false; mkTok 3 "}" 21 2 false; mkTok 40 "," 21 4 false; mkTok 3 "}" 22 4 false; mkTok 40 "," 23 0 false; mkTok 36 "repeat" 23 2 false; mkTok 42 "charz" 23 9 false; mkTok 2 "{" 24 4 false; mkTok 42 "lengthOf" 24 5 false; mkTok 42 "f32a" 24 14 false; mkTok 40 "," 24 19 false; mkTok 3 "}" 24 21 false; mkTok 40 "," 24 23 false; mkTok 12 "char[" 24 24 false; mkTok 30 "65535" 24 30 false; mkTok 13 "]" 24 35 false; mkTok 42 "crc" 24 37 false; mkTok 43 (string_of_bytes [96; 230; 182; 136; 230; 129; 175; 231; 177; 187; 229; 158; 139; 96]%N) 24 40 false; mkTok 40 "," 24 47 false; mkTok 3 "}" 24 48 false; mkTok 35 "packet" 24 50 false; mkTok 42 "len" 24 57 false; mkTok 2 "{" 25 0 false; mkTok 42 "rootA" 26 4 false; mkTok 44 "// c" 26 10 true; mkTok 2 "{" 27 0 false; mkTok 36 "repeat" 27 2 false; mkTok 15 "string" 27 9 false; mkTok 42 "string_" 27 16 false; mkTok 40 "," 27 24 false; mkTok 15 "string" 28 0 false; mkTok 42 "pack" 28 7 false; mkTok 40 "," 29 0 false; mkTok 16 "char[]" 30 0 false; mkTok 42 "roots" 31 0 false; mkTok 40 "," 31 5 false; mkTok 3 "}" 32 0 false; mkTok 40 "," 33 0 false; mkTok 3 "}" 33 2 false; mkTok 44 "//" 33 4 true; mkTok 0 "<EOF>" 33 6 false] (mkPacket (mkPtok 35 "packet" 1 0 0) (Some (mkPtok 3 "}" 33 2 105)) [(DPacket (mkPacketDef (mkSpan (mkPtok 35 "packet" 1 0 0) (mkPtok 3 "}" 24 48 86)) None (mkPtok 35 "packet" 1 0 0) (mkPtok 42 "MetaDataX" 2 0 2) (mkPtok 2 "{" 3 0 4) [(mkFieldWithAttr (mkSpan (mkPtok 12 "char[" 3 1 5) (mkPtok 40 "," 3 13 9)) [] (MetaField (mkSpan (mkPtok 12 "char[" 3 1 5) (mkPtok 40 "," 3 13 9)) None (mkMetaDecl (mkSpan (mkPtok 12 "char[" 3 1 5) (mkPtok 40 "," 3 13 9)) (TyFixed (mkSpan (mkPtok 12 "char[" 3 1 5) (mkPtok 13 "]" 3 9 7)) (mkFixedString (mkSpan (mkPtok 12 "char[" 3 1 5) (mkPtok 13 "]" 3 9 7)) (mkPtok 12 "char[" 3 1 5) (mkPtok 30 "1" 3 7 6) (mkPtok 13 "]" 3 9 7))) (mkPtok 42 "T" 3 10 8) None (mkPtok 40 "," 3 13 9)))); (mkFieldWithAttr (mkSpan (mkPtok 16 "char[]" 4 0 10) (mkPtok 40 "," 6 0 15)) [] (CheckSumField (mkSpan (mkPtok 16 "char[]" 4 0 10) (mkPtok 40 "," 6 0 15)) (mkChecksumFieldDecl (mkSpan (mkPtok 16 "char[]" 4 0 10) (mkPtok 40 "," 6 0 15)) (Some (TyDynamic (mkSpan (mkPtok 16 "char[]" 4 0 10) (mkPtok 16 "char[]" 4 0 10)) (mkDynamicString (mkSpan (mkPtok 16 "char[]" 4 0 10) (mkPtok 16 "char[]" 4 0 10)) (mkPtok 16 "char[]" 4 0 10)))) (mkPtok 42 "Foo" 4 7 11) (mkCalculatedFrom (mkSpan (mkPtok 5 "@calculatedFrom(" 4 11 12) (mkPtok 6 ")" 5 6 14)) (mkPtok 5 "@calculatedFrom(" 4 11 12) (mkPtok 31 """{,}""" 5 0 13) (mkPtok 6 ")" 5 6 14)) None (mkPtok 40 "," 6 0 15)))); (mkFieldWithAttr (mkSpan (mkPtok 42 "a1" 6 2 16) (mkPtok 40 "," 8 4 18)) [] (ObjectField (mkSpan (mkPtok 42 "a1" 6 2 16) (mkPtok 40 "," 8 4 18)) None (mkPtok 42 "a1" 6 2 16) None None (mkPtok 40 "," 8 4 18))); (mkFieldWithAttr (mkSpan (mkPtok 7 "@lengthOf(" 8 5 19) (mkPtok 40 "," 8 42 25)) [(FALengthOf (mkSpan (mkPtok 7 "@lengthOf(" 8 5 19) (mkPtok 6 ")" 8 21 21)) (mkLengthOf (mkSpan (mkPtok 7 "@lengthOf(" 8 5 19) (mkPtok 6 ")" 8 21 21)) (mkPtok 7 "@lengthOf(" 8 5 19) (mkPtok 42 "roots" 8 16 20) (mkPtok 6 ")" 8 21 21)))] (ObjectField (mkSpan (mkPtok 42 "falsey" 8 23 22) (mkPtok 40 "," 8 42 25)) None (mkPtok 42 "falsey" 8 23 22) (Some (mkPtok 42 "int" 8 30 23)) (Some (mkPtok 43 "`u8 x,`" 8 34 24)) (mkPtok 40 "," 8 42 25))); (mkFieldWithAttr (mkSpan (mkPtok 12 "char[" 8 44 26) (mkPtok 40 "," 10 1 31)) [] (MetaField (mkSpan (mkPtok 12 "char[" 8 44 26) (mkPtok 40 "," 10 1 31)) None (mkMetaDecl (mkSpan (mkPtok 12 "char[" 8 44 26) (mkPtok 40 "," 10 1 31)) (TyFixed (mkSpan (mkPtok 12 "char[" 8 44 26) (mkPtok 13 "]" 9 15 28)) (mkFixedString (mkSpan (mkPtok 12 "char[" 8 44 26) (mkPtok 13 "]" 9 15 28)) (mkPtok 12 "char[" 8 44 26) (mkPtok 30 "0123456789" 9 4 27) (mkPtok 13 "]" 9 15 28))) (mkPtok 42 "a1" 9 17 29) (Some (mkPtok 43 (string_of_bytes [96; 10; 96]%N) 9 20 30)) (mkPtok 40 "," 10 1 31)))); (mkFieldWithAttr (mkSpan (mkPtok 15 "string" 10 4 32) (mkPtok 40 "," 11 32 37)) [] (CheckSumField (mkSpan (mkPtok 15 "string" 10 4 32) (mkPtok 40 "," 11 32 37)) (mkChecksumFieldDecl (mkSpan (mkPtok 15 "string" 10 4 32) (mkPtok 40 "," 11 32 37)) (Some (TyDynamic (mkSpan (mkPtok 15 "string" 10 4 32) (mkPtok 15 "string" 10 4 32)) (mkDynamicString (mkSpan (mkPtok 15 "string" 10 4 32) (mkPtok 15 "string" 10 4 32)) (mkPtok 15 "string" 10 4 32)))) (mkPtok 42 "Z9_" 11 0 33) (mkCalculatedFrom (mkSpan (mkPtok 5 "@calculatedFrom(" 11 4 34) (mkPtok 6 ")" 11 30 36)) (mkPtok 5 "@calculatedFrom(" 11 4 34) (mkPtok 31 """`tick`""" 11 21 35) (mkPtok 6 ")" 11 30 36)) None (mkPtok 40 "," 11 32 37)))); (mkFieldWithAttr (mkSpan (mkPtok 14 "zchar[" 11 34 38) (mkPtok 40 "," 15 4 47)) [] (LengthField (mkSpan (mkPtok 14 "zchar[" 11 34 38) (mkPtok 40 "," 15 4 47)) (mkLengthFieldDecl (mkSpan (mkPtok 14 "zchar[" 11 34 38) (mkPtok 40 "," 15 4 47)) (Some (TyFixed (mkSpan (mkPtok 14 "zchar[" 11 34 38) (mkPtok 13 "]" 12 3 40)) (mkFixedString (mkSpan (mkPtok 14 "zchar[" 11 34 38) (mkPtok 13 "]" 12 3 40)) (mkPtok 14 "zchar[" 11 34 38) (mkPtok 30 "00" 12 0 39) (mkPtok 13 "]" 12 3 40)))) (mkPtok 42 "Logon" 12 5 41) (mkLengthOf (mkSpan (mkPtok 7 "@lengthOf(" 13 4 42) (mkPtok 6 ")" 14 0 45)) (mkPtok 7 "@lengthOf(" 13 4 42) (mkPtok 42 "u128" 13 14 43) (mkPtok 6 ")" 14 0 45)) (Some (mkPtok 43 (string_of_bytes [96; 116; 97; 98; 9; 104; 101; 114; 101; 96]%N) 14 3 46)) (mkPtok 40 "," 15 4 47)))); (mkFieldWithAttr (mkSpan (mkPtok 5 "@calculatedFrom(" 15 5 48) (mkPtok 40 "," 23 0 71)) [(FACalculatedFrom (mkSpan (mkPtok 5 "@calculatedFrom(" 15 5 48) (mkPtok 6 ")" 16 0 50)) (mkCalculatedFrom (mkSpan (mkPtok 5 "@calculatedFrom(" 15 5 48) (mkPtok 6 ")" 16 0 50)) (mkPtok 5 "@calculatedFrom(" 15 5 48) (mkPtok 31 (string_of_bytes [34; 97; 9; 98; 34]%N) 15 22 49) (mkPtok 6 ")" 16 0 50)))] (InerObjectField (mkSpan (mkPtok 42 "Z9_" 16 2 51) (mkPtok 40 "," 23 0 71)) None (InerObjectDecl (mkSpan (mkPtok 42 "Z9_" 16 2 51) (mkPtok 3 "}" 22 4 70)) (mkPtok 42 "Z9_" 16 2 51) (mkPtok 2 "{" 16 6 52) [(InerObjectField (mkSpan (mkPtok 36 "repeat" 16 8 53) (mkPtok 40 "," 21 4 69)) (Some (mkPtok 36 "repeat" 16 8 53)) (InerObjectDecl (mkSpan (mkPtok 42 "stringy" 16 15 54) (mkPtok 3 "}" 21 2 68)) (mkPtok 42 "stringy" 16 15 54) (mkPtok 2 "{" 17 4 55) [(MetaField (mkSpan (mkPtok 25 "int16" 17 6 56) (mkPtok 40 "," 17 21 58)) None (mkMetaDecl (mkSpan (mkPtok 25 "int16" 17 6 56) (mkPtok 40 "," 17 21 58)) (TyBasic (mkSpan (mkPtok 25 "int16" 17 6 56) (mkPtok 25 "int16" 17 6 56)) (mkBasicType (mkSpan (mkPtok 25 "int16" 17 6 56) (mkPtok 25 "int16" 17 6 56)) (mkPtok 25 "int16" 17 6 56))) (mkPtok 42 "string_" 17 13 57) None (mkPtok 40 "," 17 21 58))); (LengthField (mkSpan (mkPtok 15 "string" 18 4 59) (mkPtok 40 "," 21 0 67)) (mkLengthFieldDecl (mkSpan (mkPtok 15 "string" 18 4 59) (mkPtok 40 "," 21 0 67)) (Some (TyDynamic (mkSpan (mkPtok 15 "string" 18 4 59) (mkPtok 15 "string" 18 4 59)) (mkDynamicString (mkSpan (mkPtok 15 "string" 18 4 59) (mkPtok 15 "string" 18 4 59)) (mkPtok 15 "string" 18 4 59)))) (mkPtok 42 "tag" 19 0 61) (mkLengthOf (mkSpan (mkPtok 7 "@lengthOf(" 19 4 62) (mkPtok 6 ")" 20 2 65)) (mkPtok 7 "@lengthOf(" 19 4 62) (mkPtok 42 "a1" 20 0 64) (mkPtok 6 ")" 20 2 65)) None (mkPtok 40 "," 21 0 67)))] (mkPtok 3 "}" 21 2 68)) (mkPtok 40 "," 21 4 69))] (mkPtok 3 "}" 22 4 70)) (mkPtok 40 "," 23 0 71))); (mkFieldWithAttr (mkSpan (mkPtok 36 "repeat" 23 2 72) (mkPtok 40 "," 24 23 79)) [] (InerObjectField (mkSpan (mkPtok 36 "repeat" 23 2 72) (mkPtok 40 "," 24 23 79)) (Some (mkPtok 36 "repeat" 23 2 72)) (InerObjectDecl (mkSpan (mkPtok 42 "charz" 23 9 73) (mkPtok 3 "}" 24 21 78)) (mkPtok 42 "charz" 23 9 73) (mkPtok 2 "{" 24 4 74) [(ObjectField (mkSpan (mkPtok 42 "lengthOf" 24 5 75) (mkPtok 40 "," 24 19 77)) None (mkPtok 42 "lengthOf" 24 5 75) (Some (mkPtok 42 "f32a" 24 14 76)) None (mkPtok 40 "," 24 19 77))] (mkPtok 3 "}" 24 21 78)) (mkPtok 40 "," 24 23 79))); (mkFieldWithAttr (mkSpan (mkPtok 12 "char[" 24 24 80) (mkPtok 40 "," 24 47 85)) [] (MetaField (mkSpan (mkPtok 12 "char[" 24 24 80) (mkPtok 40 "," 24 47 85)) None (mkMetaDecl (mkSpan (mkPtok 12 "char[" 24 24 80) (mkPtok 40 "," 24 47 85)) (TyFixed (mkSpan (mkPtok 12 "char[" 24 24 80) (mkPtok 13 "]" 24 35 82)) (mkFixedString (mkSpan (mkPtok 12 "char[" 24 24 80) (mkPtok 13 "]" 24 35 82)) (mkPtok 12 "char[" 24 24 80) (mkPtok 30 "65535" 24 30 81) (mkPtok 13 "]" 24 35 82))) (mkPtok 42 "crc" 24 37 83) (Some (mkPtok 43 (string_of_bytes [96; 230; 182; 136; 230; 129; 175; 231; 177; 187; 229; 158; 139; 96]%N) 24 40 84)) (mkPtok 40 "," 24 47 85))))] (mkPtok 3 "}" 24 48 86))); (DPacket (mkPacketDef (mkSpan (mkPtok 35 "packet" 24 50 87) (mkPtok 3 "}" 33 2 105)) None (mkPtok 35 "packet" 24 50 87) (mkPtok 42 "len" 24 57 88) (mkPtok 2 "{" 25 0 89) [(mkFieldWithAttr (mkSpan (mkPtok 42 "rootA" 26 4 90) (mkPtok 40 "," 33 0 104)) [] (InerObjectField (mkSpan (mkPtok 42 "rootA" 26 4 90) (mkPtok 40 "," 33 0 104)) None (InerObjectDecl (mkSpan (mkPtok 42 "rootA" 26 4 90) (mkPtok 3 "}" 32 0 103)) (mkPtok 42 "rootA" 26 4 90) (mkPtok 2 "{" 27 0 92) [(MetaField (mkSpan (mkPtok 36 "repeat" 27 2 93) (mkPtok 40 "," 27 24 96)) (Some (mkPtok 36 "repeat" 27 2 93)) (mkMetaDecl (mkSpan (mkPtok 15 "string" 27 9 94) (mkPtok 40 "," 27 24 96)) (TyDynamic (mkSpan (mkPtok 15 "string" 27 9 94) (mkPtok 15 "string" 27 9 94)) (mkDynamicString (mkSpan (mkPtok 15 "string" 27 9 94) (mkPtok 15 "string" 27 9 94)) (mkPtok 15 "string" 27 9 94))) (mkPtok 42 "string_" 27 16 95) None (mkPtok 40 "," 27 24 96))); (MetaField (mkSpan (mkPtok 15 "string" 28 0 97) (mkPtok 40 "," 29 0 99)) None (mkMetaDecl (mkSpan (mkPtok 15 "string" 28 0 97) (mkPtok 40 "," 29 0 99)) (TyDynamic (mkSpan (mkPtok 15 "string" 28 0 97) (mkPtok 15 "string" 28 0 97)) (mkDynamicString (mkSpan (mkPtok 15 "string" 28 0 97) (mkPtok 15 "string" 28 0 97)) (mkPtok 15 "string" 28 0 97))) (mkPtok 42 "pack" 28 7 98) None (mkPtok 40 "," 29 0 99))); (MetaField (mkSpan (mkPtok 16 "char[]" 30 0 100) (mkPtok 40 "," 31 5 102)) None (mkMetaDecl (mkSpan (mkPtok 16 "char[]" 30 0 100) (mkPtok 40 "," 31 5 102)) (TyDynamic (mkSpan (mkPtok 16 "char[]" 30 0 100) (mkPtok 16 "char[]" 30 0 100)) (mkDynamicString (mkSpan (mkPtok 16 "char[]" 30 0 100) (mkPtok 16 "char[]" 30 0 100)) (mkPtok 16 "char[]" 30 0 100))) (mkPtok 42 "roots" 31 0 101) None (mkPtok 40 "," 31 5 102)))] (mkPtok 3 "}" 32 0 103)) (mkPtok 40 "," 33 0 104)))] (mkPtok 3 "}" 33 2 105)))])).
Eval vm_compute in ("<<<M52>>>" ++ check (runes_of_ascii "options  { o =// `tick` ""quote"" 'q'
true
// trailing space 
//x
;Z9_  =false ; Z9_ =""" ++ [128512]%N ++ runes_of_ascii """;
    // " ++ [27880; 37322]%N ++ runes_of_ascii "
    } root packet f32a{  int8 metadata
,
@leftPad (
//x
// @lengthOf(
)
float32	int
`100% of %d` , } packet float {@calculatedFrom( ""// no comment"") @tag( 65535 ) @lengthOf(
msg_type ) match
    u as A
{
[ 007 , 7// a // b
, ""x y"", 7, ""{,}"" ]: rootA ,
    """ ++ [128512]%N ++ runes_of_ascii """
    : packetx 0: i8i8
, 4294967296 :
zchar
, 4294967296
    :
x, }
, float32 uint8x
// 50% %s
// c
, match string_ as packetx { """ ++ [128512]%N ++ runes_of_ascii """: stringy, ""\n""
    : x
,""""	:
zchar , 1 : tag ,
    3
: Foo
// trailing space 
//x
,
[ 00]
    :  leftPad , // a // b
},  @calculatedFrom(""1"")
uint64
f32a,@calculatedFrom( ""// no comment"" ) char[
00 ]	trueish	@calculatedFrom( ""a\""b""
)`// not a comment`, repeatCount// 50% %s
{
char /// triple
charz  ,
float64 falsey	@lengthOf(
    chars)  `doc`
,
// " ++ [128512]%N ++ runes_of_ascii " emoji
//
uint16 crc
, int32 pack
    `doc` ,
}  , //x
Foo
    @calculatedFrom(// @lengthOf(
""a\""b""
)
`
`
    // trailing space 
    , zchar @lengthOf(
body ) , }

")).
Eval vm_compute in ("<<<M84>>>" ++ check (runes_of_ascii "
packet tag  {}")).
Eval vm_compute in ("<<<M116>>>" ++ check (runes_of_ascii " 	 ")).
Eval vm_compute in ("<<<M148>>>" ++ check (runes_of_ascii "
root packet matchKey {  repeat x{ trueish calculatedFrom, match leftPad
as _x
{ 1
:i64_
,  """ ++ [28040; 24687]%N ++ runes_of_ascii """
    :	options1
    // c
    }  ,repeat char[]  uint8x ,A{repeat metadata
roots `a\` , //
char[10 ] x_y_z@calculatedFrom( ""\" ++ [233]%N ++ runes_of_ascii """ ) `tab	here` ,leftPad, float32 f32a @calculatedFrom(
""" ++ [233]%N ++ runes_of_ascii "t" ++ [233]%N ++ runes_of_ascii """ ) `{ , }`
,
} // `tick` ""quote"" 'q'
, }
    ,
// trailing space 
// c
}
")).
Eval vm_compute in ("<<<M180>>>" ++ check (runes_of_ascii "
root packet i8i8
{}
")).
Eval vm_compute in ("<<<M212>>>" ++ check (runes_of_ascii "packet pack// " ++ [27880; 37322]%N ++ runes_of_ascii "
{ zchar[	007] chars
, int {
char[] asx `two words` , zchar[ 42]a1`crlf
line`
    , tag
Packet, tag @lengthOf( i8i8 )	`crlf
line`
, } ,
uint16 Packet`two words` ,	@calculatedFrom( ""abc"" ) @calculatedFrom(
// c
// " ++ [128512]%N ++ runes_of_ascii " emoji
""" ++ [28040; 24687]%N ++ runes_of_ascii """
)// `tick` ""quote"" 'q'
@lengthOf(
MetaDataX )
char[7
]
    roots  @lengthOf(
matchKey ) , }
options { tag =  '0' packetx =""packet"";
matchKey
= char[ 3 ]
;
    MetaDataX = true
    } root	packet	repeatCount { T
@lengthOf(	int) // @lengthOf(
, }
")).
Eval vm_compute in ("<<<M244>>>" ++ check (runes_of_ascii "packet string_ { // c
matchKey
@calculatedFrom(  ""it's""
)  , @tag( 65535
)
    char[  255
]stringy , @leftPad (' ')	@rightPad
(
'0' )  u64 leftPad
    @calculatedFrom( // trailing space 
""abc"" )
, @calculatedFrom( """ ++ [233]%N ++ runes_of_ascii "t" ++ [233]%N ++ runes_of_ascii """ ) repeat
u
    //	t
    , match
string_ as packetx {
    ""packet"" : Pad , 1
    : metadata
    ,	""`tick`"" // `tick` ""quote"" 'q'
:a1 // 50% %s
""" ++ [128512]%N ++ runes_of_ascii """ :charz ,
} , repeat zchar[
    10]	_x
,
    }
")).
Eval vm_compute in ("<<<T244>>>" ++ terms [mkTok 35 "packet" 1 0 false; mkTok 42 "string_" 1 7 false; mkTok 2 "{" 1 15 false; mkTok 44 "// c" 1 17 true; mkTok 42 "matchKey" 2 0 false; mkTok 5 "@calculatedFrom(" 3 0 false; mkTok 31 """it's""" 3 18 false; mkTok 6 ")" 4 0 false; mkTok 40 "," 4 3 false; mkTok 9 "@tag(" 4 5 false; mkTok 30 "65535" 4 11 false; mkTok 6 ")" 5 0 false; mkTok 12 "char[" 6 4 false; mkTok 30 "255" 6 11 false; mkTok 13 "]" 7 0 false; mkTok 42 "stringy" 7 1 false; mkTok 40 "," 7 9 false; mkTok 32 "@leftPad" 7 11 false; mkTok 8 "(" 7 20 false; mkTok 33 "' '" 7 21 false; mkTok 6 ")" 7 24 false; mkTok 32 "@rightPad" 7 26 false; mkTok 8 "(" 8 0 false; mkTok 33 "'0'" 9 0 false; mkTok 6 ")" 9 4 false; mkTok 23 "u64" 9 7 false; mkTok 42 "leftPad" 9 11 false; mkTok 5 "@calculatedFrom(" 10 4 false; mkTok 44 "// trailing space " 10 21 true; mkTok 31 """abc""" 11 0 false; mkTok 6 ")" 11 6 false; mkTok 40 "," 12 0 false; mkTok 5 "@calculatedFrom(" 12 2 false; mkTok 31 (string_of_bytes [34; 195; 169; 116; 195; 169; 34]%N) 12 19 false; mkTok 6 ")" 12 25 false; mkTok 36 "repeat" 12 27 false; mkTok 42 "u" 13 0 false; mkTok 44 (string_of_bytes [47; 47; 9; 116]%N) 14 4 true; mkTok 40 "," 15 4 false; mkTok 38 "match" 15 6 false; mkTok 42 "string_" 16 0 false; mkTok 17 "as" 16 8 false; mkTok 42 "packetx" 16 11 false; mkTok 2 "{" 16 19 false; mkTok 31 """packet""" 17 4 false; mkTok 39 ":" 17 13 false; mkTok 42 "Pad" 17 15 false; mkTok 40 "," 17 19 false; mkTok 30 "1" 17 21 false; mkTok 39 ":" 18 4 false; mkTok 42 "metadata" 18 6 false; mkTok 40 "," 19 4 false; mkTok 31 """`tick`""" 19 6 false; mkTok 44 "// `tick` ""quote"" 'q'" 19 15 true; mkTok 39 ":" 20 0 false; mkTok 42 "a1" 20 1 false; mkTok 44 "// 50% %s" 20 4 true; mkTok 31 (string_of_bytes [34; 240; 159; 152; 128; 34]%N) 21 0 false; mkTok 39 ":" 21 4 false; mkTok 42 "charz" 21 5 false; mkTok 40 "," 21 11 false; mkTok 3 "}" 22 0 false; mkTok 40 "," 22 2 false; mkTok 36 "repeat" 22 4 false; mkTok 14 "zchar[" 22 11 false; mkTok 30 "10" 23 4 false; mkTok 13 "]" 23 6 false; mkTok 42 "_x" 23 8 false; mkTok 40 "," 24 0 false; mkTok 3 "}" 25 4 false; mkTok 0 "<EOF>" 26 0 false] (mkPacket (mkPtok 35 "packet" 1 0 0) (Some (mkPtok 3 "}" 25 4 69)) [(DPacket (mkPacketDef (mkSpan (mkPtok 35 "packet" 1 0 0) (mkPtok 3 "}" 25 4 69)) None (mkPtok 35 "packet" 1 0 0) (mkPtok 42 "string_" 1 7 1) (mkPtok 2 "{" 1 15 2) [(mkFieldWithAttr (mkSpan (mkPtok 42 "matchKey" 2 0 4) (mkPtok 40 "," 4 3 8)) [] (CheckSumField (mkSpan (mkPtok 42 "matchKey" 2 0 4) (mkPtok 40 "," 4 3 8)) (mkChecksumFieldDecl (mkSpan (mkPtok 42 "matchKey" 2 0 4) (mkPtok 40 "," 4 3 8)) None (mkPtok 42 "matchKey" 2 0 4) (mkCalculatedFrom (mkSpan (mkPtok 5 "@calculatedFrom(" 3 0 5) (mkPtok 6 ")" 4 0 7)) (mkPtok 5 "@calculatedFrom(" 3 0 5) (mkPtok 31 """it's""" 3 18 6) (mkPtok 6 ")" 4 0 7)) None (mkPtok 40 "," 4 3 8)))); (mkFieldWithAttr (mkSpan (mkPtok 9 "@tag(" 4 5 9) (mkPtok 40 "," 7 9 16)) [(FATag (mkSpan (mkPtok 9 "@tag(" 4 5 9) (mkPtok 6 ")" 5 0 11)) (mkTagAttr (mkSpan (mkPtok 9 "@tag(" 4 5 9) (mkPtok 6 ")" 5 0 11)) (mkPtok 9 "@tag(" 4 5 9) (mkPtok 30 "65535" 4 11 10) (mkPtok 6 ")" 5 0 11)))] (MetaField (mkSpan (mkPtok 12 "char[" 6 4 12) (mkPtok 40 "," 7 9 16)) None (mkMetaDecl (mkSpan (mkPtok 12 "char[" 6 4 12) (mkPtok 40 "," 7 9 16)) (TyFixed (mkSpan (mkPtok 12 "char[" 6 4 12) (mkPtok 13 "]" 7 0 14)) (mkFixedString (mkSpan (mkPtok 12 "char[" 6 4 12) (mkPtok 13 "]" 7 0 14)) (mkPtok 12 "char[" 6 4 12) (mkPtok 30 "255" 6 11 13) (mkPtok 13 "]" 7 0 14))) (mkPtok 42 "stringy" 7 1 15) None (mkPtok 40 "," 7 9 16)))); (mkFieldWithAttr (mkSpan (mkPtok 32 "@leftPad" 7 11 17) (mkPtok 40 "," 12 0 31)) [(FAPadding (mkSpan (mkPtok 32 "@leftPad" 7 11 17) (mkPtok 6 ")" 7 24 20)) (mkPaddingAttr (mkSpan (mkPtok 32 "@leftPad" 7 11 17) (mkPtok 6 ")" 7 24 20)) (mkPtok 32 "@leftPad" 7 11 17) (mkPtok 8 "(" 7 20 18) (Some (mkPtok 33 "' '" 7 21 19)) (mkPtok 6 ")" 7 24 20))); (FAPadding (mkSpan (mkPtok 32 "@rightPad" 7 26 21) (mkPtok 6 ")" 9 4 24)) (mkPaddingAttr (mkSpan (mkPtok 32 "@rightPad" 7 26 21) (mkPtok 6 ")" 9 4 24)) (mkPtok 32 "@rightPad" 7 26 21) (mkPtok 8 "(" 8 0 22) (Some (mkPtok 33 "'0'" 9 0 23)) (mkPtok 6 ")" 9 4 24)))] (CheckSumField (mkSpan (mkPtok 23 "u64" 9 7 25) (mkPtok 40 "," 12 0 31)) (mkChecksumFieldDecl (mkSpan (mkPtok 23 "u64" 9 7 25) (mkPtok 40 "," 12 0 31)) (Some (TyBasic (mkSpan (mkPtok 23 "u64" 9 7 25) (mkPtok 23 "u64" 9 7 25)) (mkBasicType (mkSpan (mkPtok 23 "u64" 9 7 25) (mkPtok 23 "u64" 9 7 25)) (mkPtok 23 "u64" 9 7 25)))) (mkPtok 42 "leftPad" 9 11 26) (mkCalculatedFrom (mkSpan (mkPtok 5 "@calculatedFrom(" 10 4 27) (mkPtok 6 ")" 11 6 30)) (mkPtok 5 "@calculatedFrom(" 10 4 27) (mkPtok 31 """abc""" 11 0 29) (mkPtok 6 ")" 11 6 30)) None (mkPtok 40 "," 12 0 31)))); (mkFieldWithAttr (mkSpan (mkPtok 5 "@calculatedFrom(" 12 2 32) (mkPtok 40 "," 15 4 38)) [(FACalculatedFrom (mkSpan (mkPtok 5 "@calculatedFrom(" 12 2 32) (mkPtok 6 ")" 12 25 34)) (mkCalculatedFrom (mkSpan (mkPtok 5 "@calculatedFrom(" 12 2 32) (mkPtok 6 ")" 12 25 34)) (mkPtok 5 "@calculatedFrom(" 12 2 32) (mkPtok 31 (string_of_bytes [34; 195; 169; 116; 195; 169; 34]%N) 12 19 33) (mkPtok 6 ")" 12 25 34)))] (ObjectField (mkSpan (mkPtok 36 "repeat" 12 27 35) (mkPtok 40 "," 15 4 38)) (Some (mkPtok 36 "repeat" 12 27 35)) (mkPtok 42 "u" 13 0 36) None None (mkPtok 40 "," 15 4 38))); (mkFieldWithAttr (mkSpan (mkPtok 38 "match" 15 6 39) (mkPtok 40 "," 22 2 62)) [] (MatchField (mkSpan (mkPtok 38 "match" 15 6 39) (mkPtok 40 "," 22 2 62)) (mkMatchFieldDecl (mkSpan (mkPtok 38 "match" 15 6 39) (mkPtok 3 "}" 22 0 61)) (mkPtok 38 "match" 15 6 39) (mkPtok 42 "string_" 16 0 40) (mkPtok 17 "as" 16 8 41) (mkPtok 42 "packetx" 16 11 42) (mkPtok 2 "{" 16 19 43) [(mkMatchPair (mkSpan (mkPtok 31 """packet""" 17 4 44) (mkPtok 40 "," 17 19 47)) (MKString (mkPtok 31 """packet""" 17 4 44)) (mkPtok 39 ":" 17 13 45) (mkPtok 42 "Pad" 17 15 46) (Some (mkPtok 40 "," 17 19 47))); (mkMatchPair (mkSpan (mkPtok 30 "1" 17 21 48) (mkPtok 40 "," 19 4 51)) (MKDigits (mkPtok 30 "1" 17 21 48)) (mkPtok 39 ":" 18 4 49) (mkPtok 42 "metadata" 18 6 50) (Some (mkPtok 40 "," 19 4 51))); (mkMatchPair (mkSpan (mkPtok 31 """`tick`""" 19 6 52) (mkPtok 42 "a1" 20 1 55)) (MKString (mkPtok 31 """`tick`""" 19 6 52)) (mkPtok 39 ":" 20 0 54) (mkPtok 42 "a1" 20 1 55) None); (mkMatchPair (mkSpan (mkPtok 31 (string_of_bytes [34; 240; 159; 152; 128; 34]%N) 21 0 57) (mkPtok 40 "," 21 11 60)) (MKString (mkPtok 31 (string_of_bytes [34; 240; 159; 152; 128; 34]%N) 21 0 57)) (mkPtok 39 ":" 21 4 58) (mkPtok 42 "charz" 21 5 59) (Some (mkPtok 40 "," 21 11 60)))] (mkPtok 3 "}" 22 0 61)) (mkPtok 40 "," 22 2 62))); (mkFieldWithAttr (mkSpan (mkPtok 36 "repeat" 22 4 63) (mkPtok 40 "," 24 0 68)) [] (MetaField (mkSpan (mkPtok 36 "repeat" 22 4 63) (mkPtok 40 "," 24 0 68)) (Some (mkPtok 36 "repeat" 22 4 63)) (mkMetaDecl (mkSpan (mkPtok 14 "zchar[" 22 11 64) (mkPtok 40 "," 24 0 68)) (TyFixed (mkSpan (mkPtok 14 "zchar[" 22 11 64) (mkPtok 13 "]" 23 6 66)) (mkFixedString (mkSpan (mkPtok 14 "zchar[" 22 11 64) (mkPtok 13 "]" 23 6 66)) (mkPtok 14 "zchar[" 22 11 64) (mkPtok 30 "10" 23 4 65) (mkPtok 13 "]" 23 6 66))) (mkPtok 42 "_x" 23 8 67) None (mkPtok 40 "," 24 0 68))))] (mkPtok 3 "}" 25 4 69)))])).
Eval vm_compute in ("<<<M276>>>" ++ check (runes_of_ascii "  packet
u8x// 50% %s
{ @rightPad
    (
    ' ' ) repeat MetaDataX`it's`	, }
")).
Eval vm_compute in ("<<<M308>>>" ++ check (runes_of_ascii "// c
packet _x {	lengthOf A `crlf
line`
, i64_
    //x
    { uint64 u ,
    }
    , @tag(  1 ) zchar[ 4294967296
// 50% %s
// a // b
]
    // " ++ [27880; 37322]%N ++ runes_of_ascii "
    leftPad `" ++ [233]%N ++ runes_of_ascii "`
    /// triple
    , } root packet MetaDataX
    {
    string
    roots@lengthOf(falsey ) `two words` , roots asx , repeat Packet  , repeat uint64 falsey
// c
//
, uint8
MetaDataX  @calculatedFrom( """" ) ,
leftPad ,	@calculatedFrom(
    ""{,}"" )
float64 leftPad	@calculatedFrom(
""packet""  ),}
    root packet msg_type { T,@calculatedFrom( """ ++ [28040; 24687]%N ++ runes_of_ascii """)
char[ 255]x
, @leftPad
    (
'0'
    )char[
// `tick` ""quote"" 'q'
// " ++ [128512]%N ++ runes_of_ascii " emoji
65535 ]
    A `{ , }`,match//x
Z9_ as zchar  {[42 ,""" ++ [28040; 24687]%N ++ runes_of_ascii """,""" ++ [233]%N ++ runes_of_ascii "t" ++ [233]%N ++ runes_of_ascii """ ,10 , 1	, ""\n"" ]
    :
len ,[
    ""a	b""	]
:packetx,
    } // packet A { u8 x, }
,
    string u128,	@calculatedFrom(
""" ++ [28040; 24687]%N ++ runes_of_ascii """	) @calculatedFrom(
""CRC32""
    ) asx	calculatedFrom  ,
@tag(
7 ) repeat body {string	tag , u32 As , }
// " ++ [27880; 37322]%N ++ runes_of_ascii "
//
, @calculatedFrom(""\n"" )	int16
A
    @calculatedFrom( ""CRC32""	) `` ,
    }")).
Eval vm_compute in ("<<<M340>>>" ++ check (runes_of_ascii "  packet
leftPad { @leftPad
    ( '\x00') int32
    stringy `it's`
// c
// packet A { u8 x, }
, body { lengthOf x_y_z `line1
line2` ,falsey pack, asx , uint32 trueish	@lengthOf( // trailing space 
MetaDataX
)
`{ , }`	, }	,  @calculatedFrom( """ ++ [128512]%N ++ runes_of_ascii """
) falsey@lengthOf(
f32a) `line1
line2`
,string u128 @calculatedFrom( ""a\""b""  )
, i64 asx@lengthOf( u )	`line1
line2`
    , uint8x @calculatedFrom(""packet"" )`a\`, @calculatedFrom(""`tick`"" ) As  `it's` , @lengthOf( Z9_
) i16 packetx , @lengthOf(BodyLength) stringy @lengthOf(
    Header )`" ++ [233]%N ++ runes_of_ascii "`
, } options// 50% %s
{Foo =	""" ++ [28040; 24687]%N ++ runes_of_ascii """
; BodyLength =
' '
    lengthOf =
""a\""b"" ; stringy= ""abc""; int= false // trailing space 
}")).
Eval vm_compute in ("<<<M372>>>" ++ check (runes_of_ascii "options // packet A { u8 x, }
{ roots= ""{,}""
    asx= ""a	b"" tag =  '0'// a // b
;
Packet = false;
    zchar =
    255
    }")).
Eval vm_compute in ("<<<M404>>>" ++ check (runes_of_ascii "// a // b
packet
    // @lengthOf(
    matchKey{
repeat
    Z9_{ a1 //
@calculatedFrom(""" ++ [28040; 24687]%N ++ runes_of_ascii """
/// triple
/// triple
)	, } ,} root packet T { //
}")).
Eval vm_compute in ("<<<M436>>>" ++ check (runes_of_ascii "packet _x{uint8 repeatCount `say ""hi""`
,
Foo {i8	stringy
@lengthOf( float ) ``
//x
// trailing space 
,
    uint8x `u8 x,`, repeat
// `tick` ""quote"" 'q'
// " ++ [128512]%N ++ runes_of_ascii " emoji
i8i8
// 50% %s
//
, // c
As {
    _x pack , } ,}  ,}MetaData
    // packet A { u8 x, }
    i8i8  { zchar[	00 // trailing space 
] a1 `doc` // trailing space 
, }
options
// 50% %s
// " ++ [128512]%N ++ runes_of_ascii " emoji
{ } options
    {
    body =	false ; x_y_z  = false ; u128=
    int64 ;
f32a =""it's""; //
}
")).
Eval vm_compute in ("<<<M468>>>" ++ check (runes_of_ascii "
")).
Eval vm_compute in ("<<<T468>>>" ++ terms [mkTok 0 "<EOF>" 2 0 false] (mkPacket (mkPtok 0 "<EOF>" 2 0 0) None [])).
Eval vm_compute in ("<<<M500>>>" ++ check (runes_of_ascii "packet
metadata { // " ++ [27880; 37322]%N ++ runes_of_ascii "
f64 u8x	,u16
    o `tab	here` , msg_type
    { u8 a1 @lengthOf( u
// c
// @lengthOf(
)
    `tab	here` , } , char[65535
] crc
@calculatedFrom( ""CRC32"") ,
    }
    MetaData Logon{ msg_type x ,  }")).
Eval vm_compute in ("<<<M532>>>" ++ check (runes_of_ascii "MetaData	x_y_z
{
    // " ++ [128512]%N ++ runes_of_ascii " emoji
    char[
1 ]Pad , } packet
_x{ o,//
repeat int8 // c
MetaDataX , zchar[ 42 ] Z9_
    ,	@leftPad ( '\x00')uint64 string_ `tab	here` ,
    int16 T , @lengthOf( matchKey )char crc // trailing space 
@lengthOf(  asx ) , @rightPad ( // 50% %s
'0') x_y_z`line1
line2` ,
    } options{ roots= char[	4294967296
]; } packet// a // b
string_ { packetx@lengthOf(
_x
) ,
repeatCount
@calculatedFrom( ""a	b""
) ,
// 50% %s
// @lengthOf(
match Header as pack
    {""it's"" : zchar// @lengthOf(
, }	, @lengthOf(
trueish
) @rightPad	( ) @lengthOf(Z9_ )
u8 trueish
//x
// c
, }MetaData T { }
// " ++ [27880; 37322]%N ++ runes_of_ascii "
")).
Eval vm_compute in ("<<<M564>>>" ++ check (runes_of_ascii "MetaData uint8x
    {rootA Z9_`" ++ [233]%N ++ runes_of_ascii "`
    ,
    float64
    _x `it's`//	t
, zchar lengthOf // packet A { u8 x, }
,}
")).
Eval vm_compute in ("<<<M596>>>" ++ check (runes_of_ascii "
packet
MetaDataX { repeat f32 MetaDataX
    , }
")).
Eval vm_compute in ("<<<M628>>>" ++ check (runes_of_ascii "root
packet// a // b
options1{ repeatCount
//	t
// a // b
@calculatedFrom( ""{,}""
    )
,// packet A { u8 x, }
uint8x @calculatedFrom( ""\" ++ [233]%N ++ runes_of_ascii """) `crlf
line` , @calculatedFrom( ""x y""
) uint16
    packetx ,
    char[]// `tick` ""quote"" 'q'
f32a @calculatedFrom( """" ) `doc`
    ,
/// triple
//
@tag(
    3)
@calculatedFrom( """ ++ [233]%N ++ runes_of_ascii "t" ++ [233]%N ++ runes_of_ascii """ ) u32 trueish , u16 options1 , lengthOf @calculatedFrom( """" ) `doc` , @lengthOf(
    // " ++ [27880; 37322]%N ++ runes_of_ascii "
    Packet ) @tag(255) @lengthOf( f32a // a // b
)Header
@lengthOf( i8i8
) ,
    @leftPad ( ' ' ) repeat i8i8 ,
// @lengthOf(
// " ++ [27880; 37322]%N ++ runes_of_ascii "
match matchKey as
    stringy {42 :body, ""a\\""
    : chars , 7
    :
    charz // 50% %s
, """" : a1 , ""{,}""
    :string_	,""{,}"" : MetaDataX
} ,}")).
Eval vm_compute in ("<<<M660>>>" ++ check (runes_of_ascii "options
{
    o=
i16 ; crc  =true ; zchar
= ""\" ++ [233]%N ++ runes_of_ascii """ ; u128= """ ++ [128512]%N ++ runes_of_ascii """ ;}
    // a // b
    MetaData
Logon
{ string options1`doc`	, char[//
007] int`" ++ [233]%N ++ runes_of_ascii "`, } MetaData pack
{
x rootA
,	roots u8x `crlf
line` ,
a1 Z9_ `line1
line2` , }
")).
Eval vm_compute in ("<<<M692>>>" ++ check (runes_of_ascii "MetaData A { }

")).
Eval vm_compute in ("<<<T692>>>" ++ terms [mkTok 37 "MetaData" 1 0 false; mkTok 42 "A" 1 9 false; mkTok 2 "{" 1 11 false; mkTok 3 "}" 1 13 false; mkTok 0 "<EOF>" 3 0 false] (mkPacket (mkPtok 37 "MetaData" 1 0 0) (Some (mkPtok 3 "}" 1 13 3)) [(DMeta (mkMetaDef (mkSpan (mkPtok 37 "MetaData" 1 0 0) (mkPtok 3 "}" 1 13 3)) (mkPtok 37 "MetaData" 1 0 0) (mkPtok 42 "A" 1 9 1) (mkPtok 2 "{" 1 11 2) [] (mkPtok 3 "}" 1 13 3)))])).
Eval vm_compute in ("<<<M724>>>" ++ check (runes_of_ascii "MetaData  metadata { }
")).
Eval vm_compute in ("<<<M756>>>" ++ check (runes_of_ascii "packet  calculatedFrom
{ @calculatedFrom(""" ++ [128512]%N ++ runes_of_ascii """ )// @lengthOf(
repeat // 50% %s
zchar[007 ] i8i8, @calculatedFrom( ""// no comment"" // " ++ [128512]%N ++ runes_of_ascii " emoji
) char[] //x
x_y_z ,	} root packet u128
    { i64 int@lengthOf(f32a ) ,  }")).
Eval vm_compute in ("<<<M788>>>" ++ check (runes_of_ascii "packet  len
{ repeat // `tick` ""quote"" 'q'
Pad{match A as x
    /// triple
    {
[""1"" , 42 , 0123456789
    ,
""abc"" ,
""it's""// c
,
""" ++ [233]%N ++ runes_of_ascii "t" ++ [233]%N ++ runes_of_ascii """ ,
7 ,
// 50% %s
// @lengthOf(
10 ]  :calculatedFrom 0 : len } ,
    int8
string_ , // a // b
repeat repeatCount , } , f64	As
    ,zchar[	7
] x `" ++ [233]%N ++ runes_of_ascii "`
//	t
// @lengthOf(
,
@calculatedFrom(
    //x
    ""a\\"" ) Header{
//x
/// triple
repeat char[ 255 // c
]  metadata,	pack@lengthOf(
T) , }
, } packet T {	float64  u8x	`// not a comment`,
    match u128 as
roots // " ++ [128512]%N ++ runes_of_ascii " emoji
{
[ """ ++ [128512]%N ++ runes_of_ascii """ ]
: msg_type ,  ""\n"" : u8x
00  : crc } , u16 lengthOf
@calculatedFrom(
    """ ++ [233]%N ++ runes_of_ascii "t" ++ [233]%N ++ runes_of_ascii """)
    ,@tag( 1 )	zchar[
7 ] falsey
`doc`  ,char[]
    metadata	, Packet @calculatedFrom( ""`tick`"" ) , //	t
@tag( // c
42 ) A ,
// " ++ [128512]%N ++ runes_of_ascii " emoji
// packet A { u8 x, }
Packet
@calculatedFrom( ""{,}"") , }
options{ Pad
    = false
    T =
'\x00' // trailing space 
;asx = false; _x =""\" ++ [233]%N ++ runes_of_ascii """ ;} packet float {	uint8x{ repeatCount ,
u32 lengthOf@calculatedFrom(	""a	b""
    ) `" ++ [233]%N ++ runes_of_ascii "` ,
i16 u, } ,}
root packet Foo {match asx as Foo
{ [""" ++ [128512]%N ++ runes_of_ascii """ ,
""1""] :roots
    ,
    ""`tick`""
    :
    a1  , 0123456789 :string_ , } , }
")).
Eval vm_compute in ("<<<M820>>>" ++ check (runes_of_ascii "packet msg_type {
repeat stringy Header`` , @leftPad ( '\x00'
    )repeat leftPad ,
repeat
f32a
    ,	@calculatedFrom(
""it's""
) @tag(
    255 ) match roots as trueish
{ 7 :
    tag ,
},  repeat zchar[ // @lengthOf(
0 ] repeatCount
/// triple
// trailing space 
, string	f32a,
string body , @calculatedFrom("""" )uint64 f32a ,
    } packet asx {  leftPad
    ``
    //	t
    , @rightPad ( '0' )
//
// `tick` ""quote"" 'q'
int8 leftPad , @rightPad( '0' )asx @lengthOf( // @lengthOf(
falsey )
    , @tag(// a // b
00 ) // `tick` ""quote"" 'q'
u32 pack
    ,@tag(
    007
)repeat stringy repeatCount `" ++ [28040; 24687; 31867; 22411]%N ++ runes_of_ascii "`, @lengthOf( roots ) u16 pack @lengthOf( roots
    ) , @calculatedFrom( ""1"" )
    @tag( 1 )
match calculatedFrom as
pack {
""a\\""
    :
Logon//	t
,
[ // 50% %s
""" ++ [128512]%N ++ runes_of_ascii """
] : u8x
    , 1 :calculatedFrom , """ ++ [128512]%N ++ runes_of_ascii """ :	Z9_	, 0 :
_x } , f32 Header
, } packet asx { @tag(00 )@rightPad
    ( '0')
@calculatedFrom(""a\\""// @lengthOf(
) int64 leftPad
    `u8 x,`
    , repeat stringy `two words`
/// triple
// @lengthOf(
,@lengthOf( len )@tag( 7 )
i16
int , @lengthOf( repeatCount
    ) i8i8@lengthOf(
roots
) `" ++ [28040; 24687; 31867; 22411]%N ++ runes_of_ascii "` ,
    string int @calculatedFrom(
    ""\n"" ) `100% of %d`
    , repeat i8i8 rootA
`two words`, T {
roots @lengthOf( o )  ,
    // a // b
    },Pad
// trailing space 
// a // b
,@lengthOf(As )f32 options1 , } MetaData
a1
    {
zchar[ 255 ] tag `say ""hi""`, } options { BodyLength = // 50% %s
0123456789 }
")).
Eval vm_compute in ("<<<M852>>>" ++ check (runes_of_ascii "root
packet// packet A { u8 x, }
repeatCount
{
    repeat calculatedFrom {char[4294967296 ] // " ++ [27880; 37322]%N ++ runes_of_ascii "
msg_type `it's`
//
/// triple
, } , match // " ++ [27880; 37322]%N ++ runes_of_ascii "
repeatCount as u8x {  [ 0
, ""a	b"" , ""a\\"" , ""CRC32"" , ""`tick`"" , ""a\""b"" ] : tag
,
// `tick` ""quote"" 'q'
// trailing space 
7
    // " ++ [27880; 37322]%N ++ runes_of_ascii "
    :Z9_ 3 :leftPad}
// " ++ [128512]%N ++ runes_of_ascii " emoji
// packet A { u8 x, }
,}
")).
Eval vm_compute in ("<<<M884>>>" ++ check (runes_of_ascii "// trailing space 
packet a1 {string BodyLength @lengthOf( leftPad ) ,	int8 u128 @calculatedFrom(""1"") `it's`
    ,
@calculatedFrom( ""CRC32"" // " ++ [128512]%N ++ runes_of_ascii " emoji
) @rightPad
( )	repeat Z9_
, @calculatedFrom(
""" ++ [128512]%N ++ runes_of_ascii """
) char[] metadata
@calculatedFrom( //x
""a\""b"" )
, repeat
    msg_type u128 , @tag(
    255)  @leftPad ( )@lengthOf( f32a) repeat
    // " ++ [128512]%N ++ runes_of_ascii " emoji
    o , repeat i8i8 { repeat f32a float `// not a comment` ,
repeat char[ 0123456789 ] pack`{ , }`,A  `" ++ [28040; 24687; 31867; 22411]%N ++ runes_of_ascii "` , } , lengthOf { i64
    // 50% %s
    Foo ,}, // trailing space 
pack lengthOf ,
    } packet repeatCount // trailing space 
{
T `// not a comment`, @tag(
    00 ) leftPad
Packet
`100% of %d` ,char[0123456789  ] charz
    @calculatedFrom(""a\""b"") ,@lengthOf(Header ) f32a	{u128 @calculatedFrom("""") `// not a comment` /// triple
,T@calculatedFrom( ""a\""b"" ) , int32 lengthOf	@lengthOf( msg_type // `tick` ""quote"" 'q'
) , Foo@calculatedFrom( ""a\""b""
    )	, }
,a1
    { i16 x @calculatedFrom( ""a\\"" ) `{ , }` , match i8i8 as packetx { 00
: // " ++ [128512]%N ++ runes_of_ascii " emoji
As ,
    //
    0 // `tick` ""quote"" 'q'
: packetx 3
: // trailing space 
A
,
} ,// 50% %s
packetx
Pad, },
@lengthOf(int
    )match leftPad as	tag
    //
    { ""1""
:
// c
//x
matchKey
    ,  } ,
    }
    // " ++ [128512]%N ++ runes_of_ascii " emoji
    options
    { Packet = false ;
chars
= 00	; uint8x
    =  false ;
o=
    00
; tag
= 7 ; } options { }
packet trueish { @calculatedFrom(""" ++ [128512]%N ++ runes_of_ascii """ ) options1 @calculatedFrom( /// triple
"""" ) `tab	here` ,
u16 calculatedFrom
@lengthOf( leftPad
) `" ++ [233]%N ++ runes_of_ascii "`,match x_y_z as tag{
    1 : trueish , } ,
    string
// c
// c
body @calculatedFrom(
    ""x y""// c
) , @calculatedFrom(
// @lengthOf(
//x
""{,}""
) char[ 1 ]Pad ,  Foo
    Z9_,
match  roots as asx //
{ 255 :i8i8
    }
,
    i16 repeatCount
    //
    , uint8 x , }
")).
Eval vm_compute in ("<<<M916>>>" ++ check (runes_of_ascii "packet a1 { @rightPad(
    ) zchar[ 7 ]BodyLength
, }MetaData repeatCount { pack calculatedFrom //	t
,
Header uint8x/// triple
,string_ tag,// " ++ [27880; 37322]%N ++ runes_of_ascii "
options1 rootA
    //	t
    ,} // trailing space ")).
Eval vm_compute in ("<<<T916>>>" ++ terms [mkTok 35 "packet" 1 0 false; mkTok 42 "a1" 1 7 false; mkTok 2 "{" 1 10 false; mkTok 32 "@rightPad" 1 12 false; mkTok 8 "(" 1 21 false; mkTok 6 ")" 2 4 false; mkTok 14 "zchar[" 2 6 false; mkTok 30 "7" 2 13 false; mkTok 13 "]" 2 15 false; mkTok 42 "BodyLength" 2 16 false; mkTok 40 "," 3 0 false; mkTok 3 "}" 3 2 false; mkTok 37 "MetaData" 3 3 false; mkTok 42 "repeatCount" 3 12 false; mkTok 2 "{" 3 24 false; mkTok 42 "pack" 3 26 false; mkTok 42 "calculatedFrom" 3 31 false; mkTok 44 (string_of_bytes [47; 47; 9; 116]%N) 3 46 true; mkTok 40 "," 4 0 false; mkTok 42 "Header" 5 0 false; mkTok 42 "uint8x" 5 7 false; mkTok 44 "/// triple" 5 13 true; mkTok 40 "," 6 0 false; mkTok 42 "string_" 6 1 false; mkTok 42 "tag" 6 9 false; mkTok 40 "," 6 12 false; mkTok 44 (string_of_bytes [47; 47; 32; 230; 179; 168; 233; 135; 138]%N) 6 13 true; mkTok 42 "options1" 7 0 false; mkTok 42 "rootA" 7 9 false; mkTok 44 (string_of_bytes [47; 47; 9; 116]%N) 8 4 true; mkTok 40 "," 9 4 false; mkTok 3 "}" 9 5 false; mkTok 44 "// trailing space " 9 7 true; mkTok 0 "<EOF>" 9 25 false] (mkPacket (mkPtok 35 "packet" 1 0 0) (Some (mkPtok 3 "}" 9 5 31)) [(DPacket (mkPacketDef (mkSpan (mkPtok 35 "packet" 1 0 0) (mkPtok 3 "}" 3 2 11)) None (mkPtok 35 "packet" 1 0 0) (mkPtok 42 "a1" 1 7 1) (mkPtok 2 "{" 1 10 2) [(mkFieldWithAttr (mkSpan (mkPtok 32 "@rightPad" 1 12 3) (mkPtok 40 "," 3 0 10)) [(FAPadding (mkSpan (mkPtok 32 "@rightPad" 1 12 3) (mkPtok 6 ")" 2 4 5)) (mkPaddingAttr (mkSpan (mkPtok 32 "@rightPad" 1 12 3) (mkPtok 6 ")" 2 4 5)) (mkPtok 32 "@rightPad" 1 12 3) (mkPtok 8 "(" 1 21 4) None (mkPtok 6 ")" 2 4 5)))] (MetaField (mkSpan (mkPtok 14 "zchar[" 2 6 6) (mkPtok 40 "," 3 0 10)) None (mkMetaDecl (mkSpan (mkPtok 14 "zchar[" 2 6 6) (mkPtok 40 "," 3 0 10)) (TyFixed (mkSpan (mkPtok 14 "zchar[" 2 6 6) (mkPtok 13 "]" 2 15 8)) (mkFixedString (mkSpan (mkPtok 14 "zchar[" 2 6 6) (mkPtok 13 "]" 2 15 8)) (mkPtok 14 "zchar[" 2 6 6) (mkPtok 30 "7" 2 13 7) (mkPtok 13 "]" 2 15 8))) (mkPtok 42 "BodyLength" 2 16 9) None (mkPtok 40 "," 3 0 10))))] (mkPtok 3 "}" 3 2 11))); (DMeta (mkMetaDef (mkSpan (mkPtok 37 "MetaData" 3 3 12) (mkPtok 3 "}" 9 5 31)) (mkPtok 37 "MetaData" 3 3 12) (mkPtok 42 "repeatCount" 3 12 13) (mkPtok 2 "{" 3 24 14) [(MIRef (mkRefMetaDecl (mkSpan (mkPtok 42 "pack" 3 26 15) (mkPtok 40 "," 4 0 18)) (mkPtok 42 "pack" 3 26 15) (mkPtok 42 "calculatedFrom" 3 31 16) None (mkPtok 40 "," 4 0 18))); (MIRef (mkRefMetaDecl (mkSpan (mkPtok 42 "Header" 5 0 19) (mkPtok 40 "," 6 0 22)) (mkPtok 42 "Header" 5 0 19) (mkPtok 42 "uint8x" 5 7 20) None (mkPtok 40 "," 6 0 22))); (MIRef (mkRefMetaDecl (mkSpan (mkPtok 42 "string_" 6 1 23) (mkPtok 40 "," 6 12 25)) (mkPtok 42 "string_" 6 1 23) (mkPtok 42 "tag" 6 9 24) None (mkPtok 40 "," 6 12 25))); (MIRef (mkRefMetaDecl (mkSpan (mkPtok 42 "options1" 7 0 27) (mkPtok 40 "," 9 4 30)) (mkPtok 42 "options1" 7 0 27) (mkPtok 42 "rootA" 7 9 28) None (mkPtok 40 "," 9 4 30)))] (mkPtok 3 "}" 9 5 31)))])).
Eval vm_compute in ("<<<M948>>>" ++ check (runes_of_ascii "packet a1
{
    /// triple
    string_@lengthOf(As ) `
` , // " ++ [128512]%N ++ runes_of_ascii " emoji
}")).
Eval vm_compute in ("<<<M980>>>" ++ check (runes_of_ascii "
root packet len { @calculatedFrom( ""a\\"")  @tag( 7) @lengthOf( int ) u
@calculatedFrom(
    """" ) ,}
packet stringy
    {// a // b
repeat
    string zchar ``
, @leftPad
    (
' ' )
    i8i8 //
{crc i64_ , } , charz @calculatedFrom( ""1"" )`" ++ [28040; 24687; 31867; 22411]%N ++ runes_of_ascii "`	, @tag( 0123456789) msg_type `it's` ,} packet T {options1
    , match rootA
//
// @lengthOf(
as i64_ { 42	:	repeatCount
// " ++ [128512]%N ++ runes_of_ascii " emoji
//	t
,
0123456789 :  len, }
    ,
repeat// packet A { u8 x, }
o asx
`u8 x,` , repeat i8i8
`" ++ [28040; 24687; 31867; 22411]%N ++ runes_of_ascii "`, //
MetaDataX `doc`
,	packetx {
    f32 Logon @calculatedFrom( ""`tick`"" )`it's` , u lengthOf
`a\`, }
    , @lengthOf( a1 )
chars , //	t
char[] u128@lengthOf(a1
)`" ++ [28040; 24687; 31867; 22411]%N ++ runes_of_ascii "`,match metadata as zchar { //x
""1"" : lengthOf, 1	: _x, [ 7
    , // @lengthOf(
""" ++ [28040; 24687]%N ++ runes_of_ascii """ ,""" ++ [128512]%N ++ runes_of_ascii """ ,
1, 4294967296
    ] :
// packet A { u8 x, }
//x
Packet , [
// packet A { u8 x, }
// a // b
""a\\""	]:As
    } ,
char[65535
// trailing space 
// trailing space 
] uint8x ,	}
")).
Eval vm_compute in ("<<<M1012>>>" ++ check (runes_of_ascii "
packet
    Pad {
int64
repeatCount
    `" ++ [233]%N ++ runes_of_ascii "` , }options {}
")).
Eval vm_compute in ("<<<M1044>>>" ++ check (runes_of_ascii "root
packet
    roots
{
    repeat stringy uint8x
, repeatCount {char metadata @lengthOf(_x ) // @lengthOf(
`crlf
line`,
    //
    repeatCount { char msg_type ,} ,	}, }")).
Eval vm_compute in ("<<<M1076>>>" ++ check (runes_of_ascii "options {// a // b
}")).
Eval vm_compute in ("<<<M1108>>>" ++ check (runes_of_ascii "options{crc =//x
00 ; Packet= uint32 ; MetaDataX = '\x00' ; } // a // b")).
Eval vm_compute in ("<<<M1140>>>" ++ check (runes_of_ascii "packet chars	{ @lengthOf(Pad )
    f64
    asx , } MetaData asx { char[] lengthOf// " ++ [27880; 37322]%N ++ runes_of_ascii "
, } packet options1 {
    @tag( 65535  )u32
falsey , }
")).
Eval vm_compute in ("<<<T1140>>>" ++ terms [mkTok 35 "packet" 1 0 false; mkTok 42 "chars" 1 7 false; mkTok 2 "{" 1 13 false; mkTok 7 "@lengthOf(" 1 15 false; mkTok 42 "Pad" 1 25 false; mkTok 6 ")" 1 29 false; mkTok 29 "f64" 2 4 false; mkTok 42 "asx" 3 4 false; mkTok 40 "," 3 8 false; mkTok 3 "}" 3 10 false; mkTok 37 "MetaData" 3 12 false; mkTok 42 "asx" 3 21 false; mkTok 2 "{" 3 25 false; mkTok 16 "char[]" 3 27 false; mkTok 42 "lengthOf" 3 34 false; mkTok 44 (string_of_bytes [47; 47; 32; 230; 179; 168; 233; 135; 138]%N) 3 42 true; mkTok 40 "," 4 0 false; mkTok 3 "}" 4 2 false; mkTok 35 "packet" 4 4 false; mkTok 42 "options1" 4 11 false; mkTok 2 "{" 4 20 false; mkTok 9 "@tag(" 5 4 false; mkTok 30 "65535" 5 10 false; mkTok 6 ")" 5 17 false; mkTok 22 "u32" 5 18 false; mkTok 42 "falsey" 6 0 false; mkTok 40 "," 6 7 false; mkTok 3 "}" 6 9 false; mkTok 0 "<EOF>" 7 0 false] (mkPacket (mkPtok 35 "packet" 1 0 0) (Some (mkPtok 3 "}" 6 9 27)) [(DPacket (mkPacketDef (mkSpan (mkPtok 35 "packet" 1 0 0) (mkPtok 3 "}" 3 10 9)) None (mkPtok 35 "packet" 1 0 0) (mkPtok 42 "chars" 1 7 1) (mkPtok 2 "{" 1 13 2) [(mkFieldWithAttr (mkSpan (mkPtok 7 "@lengthOf(" 1 15 3) (mkPtok 40 "," 3 8 8)) [(FALengthOf (mkSpan (mkPtok 7 "@lengthOf(" 1 15 3) (mkPtok 6 ")" 1 29 5)) (mkLengthOf (mkSpan (mkPtok 7 "@lengthOf(" 1 15 3) (mkPtok 6 ")" 1 29 5)) (mkPtok 7 "@lengthOf(" 1 15 3) (mkPtok 42 "Pad" 1 25 4) (mkPtok 6 ")" 1 29 5)))] (MetaField (mkSpan (mkPtok 29 "f64" 2 4 6) (mkPtok 40 "," 3 8 8)) None (mkMetaDecl (mkSpan (mkPtok 29 "f64" 2 4 6) (mkPtok 40 "," 3 8 8)) (TyBasic (mkSpan (mkPtok 29 "f64" 2 4 6) (mkPtok 29 "f64" 2 4 6)) (mkBasicType (mkSpan (mkPtok 29 "f64" 2 4 6) (mkPtok 29 "f64" 2 4 6)) (mkPtok 29 "f64" 2 4 6))) (mkPtok 42 "asx" 3 4 7) None (mkPtok 40 "," 3 8 8))))] (mkPtok 3 "}" 3 10 9))); (DMeta (mkMetaDef (mkSpan (mkPtok 37 "MetaData" 3 12 10) (mkPtok 3 "}" 4 2 17)) (mkPtok 37 "MetaData" 3 12 10) (mkPtok 42 "asx" 3 21 11) (mkPtok 2 "{" 3 25 12) [(MIDecl (mkMetaDecl (mkSpan (mkPtok 16 "char[]" 3 27 13) (mkPtok 40 "," 4 0 16)) (TyDynamic (mkSpan (mkPtok 16 "char[]" 3 27 13) (mkPtok 16 "char[]" 3 27 13)) (mkDynamicString (mkSpan (mkPtok 16 "char[]" 3 27 13) (mkPtok 16 "char[]" 3 27 13)) (mkPtok 16 "char[]" 3 27 13))) (mkPtok 42 "lengthOf" 3 34 14) None (mkPtok 40 "," 4 0 16)))] (mkPtok 3 "}" 4 2 17))); (DPacket (mkPacketDef (mkSpan (mkPtok 35 "packet" 4 4 18) (mkPtok 3 "}" 6 9 27)) None (mkPtok 35 "packet" 4 4 18) (mkPtok 42 "options1" 4 11 19) (mkPtok 2 "{" 4 20 20) [(mkFieldWithAttr (mkSpan (mkPtok 9 "@tag(" 5 4 21) (mkPtok 40 "," 6 7 26)) [(FATag (mkSpan (mkPtok 9 "@tag(" 5 4 21) (mkPtok 6 ")" 5 17 23)) (mkTagAttr (mkSpan (mkPtok 9 "@tag(" 5 4 21) (mkPtok 6 ")" 5 17 23)) (mkPtok 9 "@tag(" 5 4 21) (mkPtok 30 "65535" 5 10 22) (mkPtok 6 ")" 5 17 23)))] (MetaField (mkSpan (mkPtok 22 "u32" 5 18 24) (mkPtok 40 "," 6 7 26)) None (mkMetaDecl (mkSpan (mkPtok 22 "u32" 5 18 24) (mkPtok 40 "," 6 7 26)) (TyBasic (mkSpan (mkPtok 22 "u32" 5 18 24) (mkPtok 22 "u32" 5 18 24)) (mkBasicType (mkSpan (mkPtok 22 "u32" 5 18 24) (mkPtok 22 "u32" 5 18 24)) (mkPtok 22 "u32" 5 18 24))) (mkPtok 42 "falsey" 6 0 25) None (mkPtok 40 "," 6 7 26))))] (mkPtok 3 "}" 6 9 27)))])).
Eval vm_compute in ("<<<M1172>>>" ++ check (runes_of_ascii "MetaData Header
{ // @lengthOf(
}packet i8i8 { // " ++ [27880; 37322]%N ++ runes_of_ascii "
@calculatedFrom(
""it's"" )@leftPad  ('0')
    @lengthOf(msg_type
)u8 Logon `{ , }` ,}
")).
Eval vm_compute in ("<<<M1204>>>" ++ check (runes_of_ascii "
packet	u {match Z9_ as
Z9_ { 7 :  packetx ,	}// packet A { u8 x, }
, uint8x `// not a comment`
    , @lengthOf(
    // @lengthOf(
    x ) pack `line1
line2` ,
@tag( 65535) x_y_z `a\` , float32 tag `100% of %d`	, leftPad
leftPad , @calculatedFrom( ""CRC32"" ) @rightPad( ' ') string x
// " ++ [27880; 37322]%N ++ runes_of_ascii "
// " ++ [128512]%N ++ runes_of_ascii " emoji
, // " ++ [128512]%N ++ runes_of_ascii " emoji
@leftPad  ( ' '
)i8
// `tick` ""quote"" 'q'
// packet A { u8 x, }
T @lengthOf(
    Z9_ ) ,packetx
    @calculatedFrom(
    ""packet""
)
    , }
    options	{u8x=  007 ; x_y_z=
    ""a	b"" ; }
packet
falsey {
    @lengthOf( int ) @calculatedFrom(
    ""// no comment"" ) @calculatedFrom(""" ++ [28040; 24687]%N ++ runes_of_ascii """
)
    // @lengthOf(
    zchar[ 4294967296//
] //	t
u , int8 BodyLength @lengthOf(
f32a )
,
    @tag(	4294967296 )	uint16  calculatedFrom `doc` , float32
    As ,
}packet tag
{ } packet	leftPad {@rightPad
    ( )
repeat
    char[ 42 ]i8i8 , } 	 ")).
Eval vm_compute in ("<<<M1236>>>" ++ check (runes_of_ascii "options	{ Foo= true	;  }packet u128 {
    //x
    @calculatedFrom(
    // a // b
    ""x y""
    )
lengthOf @lengthOf(
    msg_type ) `line1
line2`, @tag( 4294967296) match
uint8x as
x{ 00 : // " ++ [27880; 37322]%N ++ runes_of_ascii "
T
,""`tick`"" : i64_ ,} ,
repeat // a // b
body , }
")).
Eval vm_compute in ("<<<M1268>>>" ++ check (runes_of_ascii "// a // b
packet// " ++ [128512]%N ++ runes_of_ascii " emoji
trueish{ }
")).
Eval vm_compute in ("<<<M1300>>>" ++ check (runes_of_ascii "// " ++ [128512]%N ++ runes_of_ascii " emoji
MetaData Header {  string
tag , char[ 0123456789]uint8x
`{ , }`
,float64  falsey , }")).
Eval vm_compute in ("<<<M1332>>>" ++ check (runes_of_ascii "
packet crc
    {
    match asx
as tag { 1
:u8x , [ 4294967296,""CRC32""
, 65535 , ""x y"" , 00	]
: calculatedFrom , ""a\\"" :
    packetx ,
} ,
    metadata @calculatedFrom( // packet A { u8 x, }
""" ++ [28040; 24687]%N ++ runes_of_ascii """ )	`` , string
    string_@calculatedFrom(
""a	b""
) ,
    } packet
options1{  char[] MetaDataX	@lengthOf( roots	) , }")).
Eval vm_compute in ("<<<M1364>>>" ++ check (runes_of_ascii "packet
leftPad //x
{
T `u8 x,` ,
x @calculatedFrom(""1"")
// a // b
// trailing space 
`` , // " ++ [128512]%N ++ runes_of_ascii " emoji
}")).
Eval vm_compute in ("<<<T1364>>>" ++ terms [mkTok 35 "packet" 1 0 false; mkTok 42 "leftPad" 2 0 false; mkTok 44 "//x" 2 8 true; mkTok 2 "{" 3 0 false; mkTok 42 "T" 4 0 false; mkTok 43 "`u8 x,`" 4 2 false; mkTok 40 "," 4 10 false; mkTok 42 "x" 5 0 false; mkTok 5 "@calculatedFrom(" 5 2 false; mkTok 31 """1""" 5 18 false; mkTok 6 ")" 5 21 false; mkTok 44 "// a // b" 6 0 true; mkTok 44 "// trailing space " 7 0 true; mkTok 43 "``" 8 0 false; mkTok 40 "," 8 3 false; mkTok 44 (string_of_bytes [47; 47; 32; 240; 159; 152; 128; 32; 101; 109; 111; 106; 105]%N) 8 5 true; mkTok 3 "}" 9 0 false; mkTok 0 "<EOF>" 9 1 false] (mkPacket (mkPtok 35 "packet" 1 0 0) (Some (mkPtok 3 "}" 9 0 16)) [(DPacket (mkPacketDef (mkSpan (mkPtok 35 "packet" 1 0 0) (mkPtok 3 "}" 9 0 16)) None (mkPtok 35 "packet" 1 0 0) (mkPtok 42 "leftPad" 2 0 1) (mkPtok 2 "{" 3 0 3) [(mkFieldWithAttr (mkSpan (mkPtok 42 "T" 4 0 4) (mkPtok 40 "," 4 10 6)) [] (ObjectField (mkSpan (mkPtok 42 "T" 4 0 4) (mkPtok 40 "," 4 10 6)) None (mkPtok 42 "T" 4 0 4) None (Some (mkPtok 43 "`u8 x,`" 4 2 5)) (mkPtok 40 "," 4 10 6))); (mkFieldWithAttr (mkSpan (mkPtok 42 "x" 5 0 7) (mkPtok 40 "," 8 3 14)) [] (CheckSumField (mkSpan (mkPtok 42 "x" 5 0 7) (mkPtok 40 "," 8 3 14)) (mkChecksumFieldDecl (mkSpan (mkPtok 42 "x" 5 0 7) (mkPtok 40 "," 8 3 14)) None (mkPtok 42 "x" 5 0 7) (mkCalculatedFrom (mkSpan (mkPtok 5 "@calculatedFrom(" 5 2 8) (mkPtok 6 ")" 5 21 10)) (mkPtok 5 "@calculatedFrom(" 5 2 8) (mkPtok 31 """1""" 5 18 9) (mkPtok 6 ")" 5 21 10)) (Some (mkPtok 43 "``" 8 0 13)) (mkPtok 40 "," 8 3 14))))] (mkPtok 3 "}" 9 0 16)))])).
Eval vm_compute in ("<<<M1396>>>" ++ check (runes_of_ascii "// " ++ [128512]%N ++ runes_of_ascii " emoji

")).
Eval vm_compute in ("<<<M1428>>>" ++ check (runes_of_ascii "// " ++ [27880; 37322]%N ++ runes_of_ascii "
options { As
    = false x =
false;
}
//x
")).
Eval vm_compute in ("<<<M1460>>>" ++ check (runes_of_ascii "MetaData
    calculatedFrom{
    string Header,}
")).
Eval vm_compute in ("<<<M1492>>>" ++ check (runes_of_ascii "packet  _x { @lengthOf( len )
    @lengthOf( A
)@lengthOf( //x
Header	)
    // packet A { u8 x, }
    crc rootA
    `two words` , } MetaData
body
    { zchar Logon ,  pack As	,
string _x `" ++ [28040; 24687; 31867; 22411]%N ++ runes_of_ascii "` //x
, i64 u  , char[] charz `say ""hi""`	,}")).
Eval vm_compute in ("<<<M1524>>>" ++ check (runes_of_ascii "root
packet body{stringy // c
@calculatedFrom( ""a	b"" )  `say ""hi""` , }

")).
Eval vm_compute in ("<<<M1556>>>" ++ check (runes_of_ascii "options {// packet A { u8 x, }
Packet =""x y"" ; x=
""abc""
;
_x
= ""a	b""// `tick` ""quote"" 'q'
zchar = ""it's""	}
")).
Eval vm_compute in ("<<<M1588>>>" ++ check (runes_of_ascii "
options{ options1 =""`tick`"" BodyLength	= ""x y""; } packet
    o
{
// @lengthOf(
// c
uint64 charz `tab	here` , }  packet o { body @lengthOf( trueish ) , repeat
    u8 charz	,@tag( 4294967296 ) Pad
float ,
    repeat
    // c
    u32 Z9_ `100% of %d`
, char[0	]//	t
chars// @lengthOf(
@calculatedFrom( ""x y"" )
`two words` , // @lengthOf(
}
")).
Eval vm_compute in ("<<<T1588>>>" ++ terms [mkTok 1 "options" 2 0 false; mkTok 2 "{" 2 7 false; mkTok 42 "options1" 2 9 false; mkTok 4 "=" 2 18 false; mkTok 31 """`tick`""" 2 19 false; mkTok 42 "BodyLength" 2 28 false; mkTok 4 "=" 2 39 false; mkTok 31 """x y""" 2 41 false; mkTok 41 ";" 2 46 false; mkTok 3 "}" 2 48 false; mkTok 35 "packet" 2 50 false; mkTok 42 "o" 3 4 false; mkTok 2 "{" 4 0 false; mkTok 44 "// @lengthOf(" 5 0 true; mkTok 44 "// c" 6 0 true; mkTok 23 "uint64" 7 0 false; mkTok 42 "charz" 7 7 false; mkTok 43 (string_of_bytes [96; 116; 97; 98; 9; 104; 101; 114; 101; 96]%N) 7 13 false; mkTok 40 "," 7 24 false; mkTok 3 "}" 7 26 false; mkTok 35 "packet" 7 29 false; mkTok 42 "o" 7 36 false; mkTok 2 "{" 7 38 false; mkTok 42 "body" 7 40 false; mkTok 7 "@lengthOf(" 7 45 false; mkTok 42 "trueish" 7 56 false; mkTok 6 ")" 7 64 false; mkTok 40 "," 7 66 false; mkTok 36 "repeat" 7 68 false; mkTok 20 "u8" 8 4 false; mkTok 42 "charz" 8 7 false; mkTok 40 "," 8 13 false; mkTok 9 "@tag(" 8 14 false; mkTok 30 "4294967296" 8 20 false; mkTok 6 ")" 8 31 false; mkTok 42 "Pad" 8 33 false; mkTok 42 "float" 9 0 false; mkTok 40 "," 9 6 false; mkTok 36 "repeat" 10 4 false; mkTok 44 "// c" 11 4 true; mkTok 22 "u32" 12 4 false; mkTok 42 "Z9_" 12 8 false; mkTok 43 "`100% of %d`" 12 12 false; mkTok 40 "," 13 0 false; mkTok 12 "char[" 13 2 false; mkTok 30 "0" 13 7 false; mkTok 13 "]" 13 9 false; mkTok 44 (string_of_bytes [47; 47; 9; 116]%N) 13 10 true; mkTok 42 "chars" 14 0 false; mkTok 44 "// @lengthOf(" 14 5 true; mkTok 5 "@calculatedFrom(" 15 0 false; mkTok 31 """x y""" 15 17 false; mkTok 6 ")" 15 23 false; mkTok 43 "`two words`" 16 0 false; mkTok 40 "," 16 12 false; mkTok 44 "// @lengthOf(" 16 14 true; mkTok 3 "}" 17 0 false; mkTok 0 "<EOF>" 18 0 false] (mkPacket (mkPtok 1 "options" 2 0 0) (Some (mkPtok 3 "}" 17 0 56)) [(DOption (mkOptionDef (mkSpan (mkPtok 1 "options" 2 0 0) (mkPtok 3 "}" 2 48 9)) (mkPtok 1 "options" 2 0 0) (mkPtok 2 "{" 2 7 1) [(mkOptionDecl (mkSpan (mkPtok 42 "options1" 2 9 2) (mkPtok 31 """`tick`""" 2 19 4)) (mkPtok 42 "options1" 2 9 2) (mkPtok 4 "=" 2 18 3) (VString (mkSpan (mkPtok 31 """`tick`""" 2 19 4) (mkPtok 31 """`tick`""" 2 19 4)) (mkPtok 31 """`tick`""" 2 19 4)) None); (mkOptionDecl (mkSpan (mkPtok 42 "BodyLength" 2 28 5) (mkPtok 41 ";" 2 46 8)) (mkPtok 42 "BodyLength" 2 28 5) (mkPtok 4 "=" 2 39 6) (VString (mkSpan (mkPtok 31 """x y""" 2 41 7) (mkPtok 31 """x y""" 2 41 7)) (mkPtok 31 """x y""" 2 41 7)) (Some (mkPtok 41 ";" 2 46 8)))] (mkPtok 3 "}" 2 48 9))); (DPacket (mkPacketDef (mkSpan (mkPtok 35 "packet" 2 50 10) (mkPtok 3 "}" 7 26 19)) None (mkPtok 35 "packet" 2 50 10) (mkPtok 42 "o" 3 4 11) (mkPtok 2 "{" 4 0 12) [(mkFieldWithAttr (mkSpan (mkPtok 23 "uint64" 7 0 15) (mkPtok 40 "," 7 24 18)) [] (MetaField (mkSpan (mkPtok 23 "uint64" 7 0 15) (mkPtok 40 "," 7 24 18)) None (mkMetaDecl (mkSpan (mkPtok 23 "uint64" 7 0 15) (mkPtok 40 "," 7 24 18)) (TyBasic (mkSpan (mkPtok 23 "uint64" 7 0 15) (mkPtok 23 "uint64" 7 0 15)) (mkBasicType (mkSpan (mkPtok 23 "uint64" 7 0 15) (mkPtok 23 "uint64" 7 0 15)) (mkPtok 23 "uint64" 7 0 15))) (mkPtok 42 "charz" 7 7 16) (Some (mkPtok 43 (string_of_bytes [96; 116; 97; 98; 9; 104; 101; 114; 101; 96]%N) 7 13 17)) (mkPtok 40 "," 7 24 18))))] (mkPtok 3 "}" 7 26 19))); (DPacket (mkPacketDef (mkSpan (mkPtok 35 "packet" 7 29 20) (mkPtok 3 "}" 17 0 56)) None (mkPtok 35 "packet" 7 29 20) (mkPtok 42 "o" 7 36 21) (mkPtok 2 "{" 7 38 22) [(mkFieldWithAttr (mkSpan (mkPtok 42 "body" 7 40 23) (mkPtok 40 "," 7 66 27)) [] (LengthField (mkSpan (mkPtok 42 "body" 7 40 23) (mkPtok 40 "," 7 66 27)) (mkLengthFieldDecl (mkSpan (mkPtok 42 "body" 7 40 23) (mkPtok 40 "," 7 66 27)) None (mkPtok 42 "body" 7 40 23) (mkLengthOf (mkSpan (mkPtok 7 "@lengthOf(" 7 45 24) (mkPtok 6 ")" 7 64 26)) (mkPtok 7 "@lengthOf(" 7 45 24) (mkPtok 42 "trueish" 7 56 25) (mkPtok 6 ")" 7 64 26)) None (mkPtok 40 "," 7 66 27)))); (mkFieldWithAttr (mkSpan (mkPtok 36 "repeat" 7 68 28) (mkPtok 40 "," 8 13 31)) [] (MetaField (mkSpan (mkPtok 36 "repeat" 7 68 28) (mkPtok 40 "," 8 13 31)) (Some (mkPtok 36 "repeat" 7 68 28)) (mkMetaDecl (mkSpan (mkPtok 20 "u8" 8 4 29) (mkPtok 40 "," 8 13 31)) (TyBasic (mkSpan (mkPtok 20 "u8" 8 4 29) (mkPtok 20 "u8" 8 4 29)) (mkBasicType (mkSpan (mkPtok 20 "u8" 8 4 29) (mkPtok 20 "u8" 8 4 29)) (mkPtok 20 "u8" 8 4 29))) (mkPtok 42 "charz" 8 7 30) None (mkPtok 40 "," 8 13 31)))); (mkFieldWithAttr (mkSpan (mkPtok 9 "@tag(" 8 14 32) (mkPtok 40 "," 9 6 37)) [(FATag (mkSpan (mkPtok 9 "@tag(" 8 14 32) (mkPtok 6 ")" 8 31 34)) (mkTagAttr (mkSpan (mkPtok 9 "@tag(" 8 14 32) (mkPtok 6 ")" 8 31 34)) (mkPtok 9 "@tag(" 8 14 32) (mkPtok 30 "4294967296" 8 20 33) (mkPtok 6 ")" 8 31 34)))] (ObjectField (mkSpan (mkPtok 42 "Pad" 8 33 35) (mkPtok 40 "," 9 6 37)) None (mkPtok 42 "Pad" 8 33 35) (Some (mkPtok 42 "float" 9 0 36)) None (mkPtok 40 "," 9 6 37))); (mkFieldWithAttr (mkSpan (mkPtok 36 "repeat" 10 4 38) (mkPtok 40 "," 13 0 43)) [] (MetaField (mkSpan (mkPtok 36 "repeat" 10 4 38) (mkPtok 40 "," 13 0 43)) (Some (mkPtok 36 "repeat" 10 4 38)) (mkMetaDecl (mkSpan (mkPtok 22 "u32" 12 4 40) (mkPtok 40 "," 13 0 43)) (TyBasic (mkSpan (mkPtok 22 "u32" 12 4 40) (mkPtok 22 "u32" 12 4 40)) (mkBasicType (mkSpan (mkPtok 22 "u32" 12 4 40) (mkPtok 22 "u32" 12 4 40)) (mkPtok 22 "u32" 12 4 40))) (mkPtok 42 "Z9_" 12 8 41) (Some (mkPtok 43 "`100% of %d`" 12 12 42)) (mkPtok 40 "," 13 0 43)))); (mkFieldWithAttr (mkSpan (mkPtok 12 "char[" 13 2 44) (mkPtok 40 "," 16 12 54)) [] (CheckSumField (mkSpan (mkPtok 12 "char[" 13 2 44) (mkPtok 40 "," 16 12 54)) (mkChecksumFieldDecl (mkSpan (mkPtok 12 "char[" 13 2 44) (mkPtok 40 "," 16 12 54)) (Some (TyFixed (mkSpan (mkPtok 12 "char[" 13 2 44) (mkPtok 13 "]" 13 9 46)) (mkFixedString (mkSpan (mkPtok 12 "char[" 13 2 44) (mkPtok 13 "]" 13 9 46)) (mkPtok 12 "char[" 13 2 44) (mkPtok 30 "0" 13 7 45) (mkPtok 13 "]" 13 9 46)))) (mkPtok 42 "chars" 14 0 48) (mkCalculatedFrom (mkSpan (mkPtok 5 "@calculatedFrom(" 15 0 50) (mkPtok 6 ")" 15 23 52)) (mkPtok 5 "@calculatedFrom(" 15 0 50) (mkPtok 31 """x y""" 15 17 51) (mkPtok 6 ")" 15 23 52)) (Some (mkPtok 43 "`two words`" 16 0 53)) (mkPtok 40 "," 16 12 54))))] (mkPtok 3 "}" 17 0 56)))])).
Eval vm_compute in ("<<<M1620>>>" ++ check (runes_of_ascii "packet	Pad // c
{@lengthOf(
asx ) int
{ // 50% %s
int16
    falsey,
    repeat uint8x, }
    , }MetaData
metadata {
    // trailing space 
    char[] i8i8 ,// 50% %s
char[] i64_ , i64_	As , float64 string_, } MetaData msg_type  { }")).
Eval vm_compute in ("<<<M1652>>>" ++ check (runes_of_ascii "packet repeatCount
{
}
")).
Eval vm_compute in ("<<<M1684>>>" ++ check (runes_of_ascii "root packet// " ++ [27880; 37322]%N ++ runes_of_ascii "
MetaDataX
{@rightPad // " ++ [27880; 37322]%N ++ runes_of_ascii "
(  )
repeat uint8 i64_ , char[]
tag
`u8 x,`	, @rightPad
( '0'	)
/// triple
// packet A { u8 x, }
@tag(
3 // c
) @lengthOf( i8i8 )
    u8
    msg_type@calculatedFrom(""CRC32"" ) `100% of %d`
    , @lengthOf(
x)
metadata `line1
line2`,	zchar[ 7 ] // trailing space 
metadata , matchKey
, }
")).
Eval vm_compute in ("<<<M1716>>>" ++ check (runes_of_ascii "// c
packet
    /// triple
    crc
    {
    } MetaData stringy {f64 As ,  char[] tag , u32 rootA `// not a comment`
, }
    root  packet
// trailing space 
//x
i8i8{ leftPad ,	char[	42] falsey `100% of %d` ,} // c")).
Eval vm_compute in ("<<<M1748>>>" ++ check (runes_of_ascii "MetaData leftPad {
pack
    /// triple
    calculatedFrom`u8 x,` , }packet chars { @lengthOf(
u128
) MetaDataX// a // b
@lengthOf( Z9_) `two words`
    // `tick` ""quote"" 'q'
    ,	char	leftPad, MetaDataX  ,match // @lengthOf(
Header as As { [ // " ++ [128512]%N ++ runes_of_ascii " emoji
0 , 4294967296 , 1
]: falsey [
""CRC32""
]:Z9_, 4294967296:leftPad	42 :// `tick` ""quote"" 'q'
Pad ,[ ""`tick`""// packet A { u8 x, }
] :
    repeatCount
, [ 0	, 42 , ""it's"" ,
    1]: x ,// packet A { u8 x, }
} ,
    @tag( 1 )
    float
    @lengthOf( stringy	)
// c
//
`" ++ [233]%N ++ runes_of_ascii "`
    , } options { a1 =
0123456789 ;  }
")).
Eval vm_compute in ("<<<M1780>>>" ++ check (runes_of_ascii "MetaData	int {//	t
uint32 matchKey
`tab	here` ,
    uint64 string_ ,u128
_x, } options	{lengthOf = true
    i64_
// 50% %s
// trailing space 
= 42 } packet
    roots
{ @rightPad( ' ' )
repeat Logon
{  falsey
    string_ `// not a comment` , u16 chars `line1
line2`
, pack{ roots { repeat
msg_type,} ,char[] Pad @calculatedFrom( ""CRC32"" //
)
, } ,} ,//x
@leftPad (
' '
    )@lengthOf(  f32a
)T { i16 // " ++ [128512]%N ++ runes_of_ascii " emoji
Pad @lengthOf( rootA
) `` ,// @lengthOf(
int8
f32a @lengthOf( Pad ), uint8 A
    `" ++ [233]%N ++ runes_of_ascii "` , } // " ++ [27880; 37322]%N ++ runes_of_ascii "
,@tag( 0123456789 )	f32a ,
@lengthOf(// `tick` ""quote"" 'q'
crc
    )repeat string Packet `it's`	,@tag(
1 )
@rightPad ( ) @tag(0	) zchar[ 7 ]BodyLength
/// triple
// @lengthOf(
@lengthOf(f32a
), }
packet zchar { charz `say ""hi""`
, zchar[
7] body	@calculatedFrom(""a	b"" ) `line1
line2` , } // packet A { u8 x, }")).
Eval vm_compute in ("<<<M1812>>>" ++ check (runes_of_ascii "packet
    trueish {
    u64 // c
lengthOf @lengthOf(  asx ), i8i8 crc  ,	repeat MetaDataX
{
packetx{	zchar[ 255 // 50% %s
]// 50% %s
zchar `a\` ,  int64 a1 `// not a comment`  , float32 leftPad @calculatedFrom( ""1"") , //x
f64 Header// @lengthOf(
, }
,
    uint16 pack@calculatedFrom(
// `tick` ""quote"" 'q'
//	t
""abc"" ) , char[ 3] leftPad
    ,
u8 // a // b
i64_
    `u8 x,` , } ,
@calculatedFrom(
""a	b""
    )stringy, } root packet chars	{
    match  i8i8 as uint8x{ [
// `tick` ""quote"" 'q'
// trailing space 
""\" ++ [233]%N ++ runes_of_ascii """ , ""abc""
    ]// " ++ [128512]%N ++ runes_of_ascii " emoji
: chars
, ""`tick`"" :
f32a [ // " ++ [27880; 37322]%N ++ runes_of_ascii "
""packet"" ]:
MetaDataX	""\n"" : tag , } ,
    // 50% %s
    @rightPad ( '0'  )
    len @calculatedFrom( ""a\\""
    )
`" ++ [233]%N ++ runes_of_ascii "`	, @calculatedFrom(  ""1""
    ) u8x  { repeat string_
    , repeat
Z9_ { repeat int8	Logon `it's` , } // packet A { u8 x, }
,
    }
    // 50% %s
    ,
@calculatedFrom(""// no comment"" )@lengthOf(
    u8x )  falsey,
    } // " ++ [128512]%N ++ runes_of_ascii " emoji")).
Eval vm_compute in ("<<<T1812>>>" ++ terms [mkTok 35 "packet" 1 0 false; mkTok 42 "trueish" 2 4 false; mkTok 2 "{" 2 12 false; mkTok 23 "u64" 3 4 false; mkTok 44 "// c" 3 8 true; mkTok 42 "lengthOf" 4 0 false; mkTok 7 "@lengthOf(" 4 9 false; mkTok 42 "asx" 4 21 false; mkTok 6 ")" 4 25 false; mkTok 40 "," 4 26 false; mkTok 42 "i8i8" 4 28 false; mkTok 42 "crc" 4 33 false; mkTok 40 "," 4 38 false; mkTok 36 "repeat" 4 40 false; mkTok 42 "MetaDataX" 4 47 false; mkTok 2 "{" 5 0 false; mkTok 42 "packetx" 6 0 false; mkTok 2 "{" 6 7 false; mkTok 14 "zchar[" 6 9 false; mkTok 30 "255" 6 16 false; mkTok 44 "// 50% %s" 6 20 true; mkTok 13 "]" 7 0 false; mkTok 44 "// 50% %s" 7 1 true; mkTok 42 "zchar" 8 0 false; mkTok 43 "`a\`" 8 6 false; mkTok 40 "," 8 11 false; mkTok 27 "int64" 8 14 false; mkTok 42 "a1" 8 20 false; mkTok 43 "`// not a comment`" 8 23 false; mkTok 40 "," 8 43 false; mkTok 28 "float32" 8 45 false; mkTok 42 "leftPad" 8 53 false; mkTok 5 "@calculatedFrom(" 8 61 false; mkTok 31 """1""" 8 78 false; mkTok 6 ")" 8 81 false; mkTok 40 "," 8 83 false; mkTok 44 "//x" 8 85 true; mkTok 29 "f64" 9 0 false; mkTok 42 "Header" 9 4 false; mkTok 44 "// @lengthOf(" 9 10 true; mkTok 40 "," 10 0 false; mkTok 3 "}" 10 2 false; mkTok 40 "," 11 0 false; mkTok 21 "uint16" 12 4 false; mkTok 42 "pack" 12 11 false; mkTok 5 "@calculatedFrom(" 12 15 false; mkTok 44 "// `tick` ""quote"" 'q'" 13 0 true; mkTok 44 (string_of_bytes [47; 47; 9; 116]%N) 14 0 true; mkTok 31 """abc""" 15 0 false; mkTok 6 ")" 15 6 false; mkTok 40 "," 15 8 false; mkTok 12 "char[" 15 10 false; mkTok 30 "3" 15 16 false; mkTok 13 "]" 15 17 false; mkTok 42 "leftPad" 15 19 false; mkTok 40 "," 16 4 false; mkTok 20 "u8" 17 0 false; mkTok 44 "// a // b" 17 3 true; mkTok 42 "i64_" 18 0 false; mkTok 43 "`u8 x,`" 19 4 false; mkTok 40 "," 19 12 false; mkTok 3 "}" 19 14 false; mkTok 40 "," 19 16 false; mkTok 5 "@calculatedFrom(" 20 0 false; mkTok 31 (string_of_bytes [34; 97; 9; 98; 34]%N) 21 0 false; mkTok 6 ")" 22 4 false; mkTok 42 "stringy" 22 5 false; mkTok 40 "," 22 12 false; mkTok 3 "}" 22 14 false; mkTok 34 "root" 22 16 false; mkTok 35 "packet" 22 21 false; mkTok 42 "chars" 22 28 false; mkTok 2 "{" 22 34 false; mkTok 38 "match" 23 4 false; mkTok 42 "i8i8" 23 11 false; mkTok 17 "as" 23 16 false; mkTok 42 "uint8x" 23 19 false; mkTok 2 "{" 23 25 false; mkTok 18 "[" 23 27 false; mkTok 44 "// `tick` ""quote"" 'q'" 24 0 true; mkTok 44 "// trailing space " 25 0 true; mkTok 31 (string_of_bytes [34; 92; 195; 169; 34]%N) 26 0 false; mkTok 40 "," 26 5 false; mkTok 31 """abc""" 26 7 false; mkTok 13 "]" 27 4 false; mkTok 44 (string_of_bytes [47; 47; 32; 240; 159; 152; 128; 32; 101; 109; 111; 106; 105]%N) 27 5 true; mkTok 39 ":" 28 0 false; mkTok 42 "chars" 28 2 false; mkTok 40 "," 29 0 false; mkTok 31 """`tick`""" 29 2 false; mkTok 39 ":" 29 11 false; mkTok 42 "f32a" 30 0 false; mkTok 18 "[" 30 5 false; mkTok 44 (string_of_bytes [47; 47; 32; 230; 179; 168; 233; 135; 138]%N) 30 7 true; mkTok 31 """packet""" 31 0 false; mkTok 13 "]" 31 9 false; mkTok 39 ":" 31 10 false; mkTok 42 "MetaDataX" 32 0 false; mkTok 31 """\n""" 32 10 false; mkTok 39 ":" 32 15 false; mkTok 42 "tag" 32 17 false; mkTok 40 "," 32 21 false; mkTok 3 "}" 32 23 false; mkTok 40 "," 32 25 false; mkTok 44 "// 50% %s" 33 4 true; mkTok 32 "@rightPad" 34 4 false; mkTok 8 "(" 34 14 false; mkTok 33 "'0'" 34 16 false; mkTok 6 ")" 34 21 false; mkTok 42 "len" 35 4 false; mkTok 5 "@calculatedFrom(" 35 8 false; mkTok 31 """a\\""" 35 25 false; mkTok 6 ")" 36 4 false; mkTok 43 (string_of_bytes [96; 195; 169; 96]%N) 37 0 false; mkTok 40 "," 37 4 false; mkTok 5 "@calculatedFrom(" 37 6 false; mkTok 31 """1""" 37 24 false; mkTok 6 ")" 38 4 false; mkTok 42 "u8x" 38 6 false; mkTok 2 "{" 38 11 false; mkTok 36 "repeat" 38 13 false; mkTok 42 "string_" 38 20 false; mkTok 40 "," 39 4 false; mkTok 36 "repeat" 39 6 false; mkTok 42 "Z9_" 40 0 false; mkTok 2 "{" 40 4 false; mkTok 36 "repeat" 40 6 false; mkTok 24 "int8" 40 13 false; mkTok 42 "Logon" 40 18 false; mkTok 43 "`it's`" 40 24 false; mkTok 40 "," 40 31 false; mkTok 3 "}" 40 33 false; mkTok 44 "// packet A { u8 x, }" 40 35 true; mkTok 40 "," 41 0 false; mkTok 3 "}" 42 4 false; mkTok 44 "// 50% %s" 43 4 true; mkTok 40 "," 44 4 false; mkTok 5 "@calculatedFrom(" 45 0 false; mkTok 31 """// no comment""" 45 16 false; mkTok 6 ")" 45 32 false; mkTok 7 "@lengthOf(" 45 33 false; mkTok 42 "u8x" 46 4 false; mkTok 6 ")" 46 8 false; mkTok 42 "falsey" 46 11 false; mkTok 40 "," 46 17 false; mkTok 3 "}" 47 4 false; mkTok 44 (string_of_bytes [47; 47; 32; 240; 159; 152; 128; 32; 101; 109; 111; 106; 105]%N) 47 6 true; mkTok 0 "<EOF>" 47 16 false] (mkPacket (mkPtok 35 "packet" 1 0 0) (Some (mkPtok 3 "}" 47 4 145)) [(DPacket (mkPacketDef (mkSpan (mkPtok 35 "packet" 1 0 0) (mkPtok 3 "}" 22 14 68)) None (mkPtok 35 "packet" 1 0 0) (mkPtok 42 "trueish" 2 4 1) (mkPtok 2 "{" 2 12 2) [(mkFieldWithAttr (mkSpan (mkPtok 23 "u64" 3 4 3) (mkPtok 40 "," 4 26 9)) [] (LengthField (mkSpan (mkPtok 23 "u64" 3 4 3) (mkPtok 40 "," 4 26 9)) (mkLengthFieldDecl (mkSpan (mkPtok 23 "u64" 3 4 3) (mkPtok 40 "," 4 26 9)) (Some (TyBasic (mkSpan (mkPtok 23 "u64" 3 4 3) (mkPtok 23 "u64" 3 4 3)) (mkBasicType (mkSpan (mkPtok 23 "u64" 3 4 3) (mkPtok 23 "u64" 3 4 3)) (mkPtok 23 "u64" 3 4 3)))) (mkPtok 42 "lengthOf" 4 0 5) (mkLengthOf (mkSpan (mkPtok 7 "@lengthOf(" 4 9 6) (mkPtok 6 ")" 4 25 8)) (mkPtok 7 "@lengthOf(" 4 9 6) (mkPtok 42 "asx" 4 21 7) (mkPtok 6 ")" 4 25 8)) None (mkPtok 40 "," 4 26 9)))); (mkFieldWithAttr (mkSpan (mkPtok 42 "i8i8" 4 28 10) (mkPtok 40 "," 4 38 12)) [] (ObjectField (mkSpan (mkPtok 42 "i8i8" 4 28 10) (mkPtok 40 "," 4 38 12)) None (mkPtok 42 "i8i8" 4 28 10) (Some (mkPtok 42 "crc" 4 33 11)) None (mkPtok 40 "," 4 38 12))); (mkFieldWithAttr (mkSpan (mkPtok 36 "repeat" 4 40 13) (mkPtok 40 "," 19 16 62)) [] (InerObjectField (mkSpan (mkPtok 36 "repeat" 4 40 13) (mkPtok 40 "," 19 16 62)) (Some (mkPtok 36 "repeat" 4 40 13)) (InerObjectDecl (mkSpan (mkPtok 42 "MetaDataX" 4 47 14) (mkPtok 3 "}" 19 14 61)) (mkPtok 42 "MetaDataX" 4 47 14) (mkPtok 2 "{" 5 0 15) [(InerObjectField (mkSpan (mkPtok 42 "packetx" 6 0 16) (mkPtok 40 "," 11 0 42)) None (InerObjectDecl (mkSpan (mkPtok 42 "packetx" 6 0 16) (mkPtok 3 "}" 10 2 41)) (mkPtok 42 "packetx" 6 0 16) (mkPtok 2 "{" 6 7 17) [(MetaField (mkSpan (mkPtok 14 "zchar[" 6 9 18) (mkPtok 40 "," 8 11 25)) None (mkMetaDecl (mkSpan (mkPtok 14 "zchar[" 6 9 18) (mkPtok 40 "," 8 11 25)) (TyFixed (mkSpan (mkPtok 14 "zchar[" 6 9 18) (mkPtok 13 "]" 7 0 21)) (mkFixedString (mkSpan (mkPtok 14 "zchar[" 6 9 18) (mkPtok 13 "]" 7 0 21)) (mkPtok 14 "zchar[" 6 9 18) (mkPtok 30 "255" 6 16 19) (mkPtok 13 "]" 7 0 21))) (mkPtok 42 "zchar" 8 0 23) (Some (mkPtok 43 "`a\`" 8 6 24)) (mkPtok 40 "," 8 11 25))); (MetaField (mkSpan (mkPtok 27 "int64" 8 14 26) (mkPtok 40 "," 8 43 29)) None (mkMetaDecl (mkSpan (mkPtok 27 "int64" 8 14 26) (mkPtok 40 "," 8 43 29)) (TyBasic (mkSpan (mkPtok 27 "int64" 8 14 26) (mkPtok 27 "int64" 8 14 26)) (mkBasicType (mkSpan (mkPtok 27 "int64" 8 14 26) (mkPtok 27 "int64" 8 14 26)) (mkPtok 27 "int64" 8 14 26))) (mkPtok 42 "a1" 8 20 27) (Some (mkPtok 43 "`// not a comment`" 8 23 28)) (mkPtok 40 "," 8 43 29))); (CheckSumField (mkSpan (mkPtok 28 "float32" 8 45 30) (mkPtok 40 "," 8 83 35)) (mkChecksumFieldDecl (mkSpan (mkPtok 28 "float32" 8 45 30) (mkPtok 40 "," 8 83 35)) (Some (TyBasic (mkSpan (mkPtok 28 "float32" 8 45 30) (mkPtok 28 "float32" 8 45 30)) (mkBasicType (mkSpan (mkPtok 28 "float32" 8 45 30) (mkPtok 28 "float32" 8 45 30)) (mkPtok 28 "float32" 8 45 30)))) (mkPtok 42 "leftPad" 8 53 31) (mkCalculatedFrom (mkSpan (mkPtok 5 "@calculatedFrom(" 8 61 32) (mkPtok 6 ")" 8 81 34)) (mkPtok 5 "@calculatedFrom(" 8 61 32) (mkPtok 31 """1""" 8 78 33) (mkPtok 6 ")" 8 81 34)) None (mkPtok 40 "," 8 83 35))); (MetaField (mkSpan (mkPtok 29 "f64" 9 0 37) (mkPtok 40 "," 10 0 40)) None (mkMetaDecl (mkSpan (mkPtok 29 "f64" 9 0 37) (mkPtok 40 "," 10 0 40)) (TyBasic (mkSpan (mkPtok 29 "f64" 9 0 37) (mkPtok 29 "f64" 9 0 37)) (mkBasicType (mkSpan (mkPtok 29 "f64" 9 0 37) (mkPtok 29 "f64" 9 0 37)) (mkPtok 29 "f64" 9 0 37))) (mkPtok 42 "Header" 9 4 38) None (mkPtok 40 "," 10 0 40)))] (mkPtok 3 "}" 10 2 41)) (mkPtok 40 "," 11 0 42)); (CheckSumField (mkSpan (mkPtok 21 "uint16" 12 4 43) (mkPtok 40 "," 15 8 50)) (mkChecksumFieldDecl (mkSpan (mkPtok 21 "uint16" 12 4 43) (mkPtok 40 "," 15 8 50)) (Some (TyBasic (mkSpan (mkPtok 21 "uint16" 12 4 43) (mkPtok 21 "uint16" 12 4 43)) (mkBasicType (mkSpan (mkPtok 21 "uint16" 12 4 43) (mkPtok 21 "uint16" 12 4 43)) (mkPtok 21 "uint16" 12 4 43)))) (mkPtok 42 "pack" 12 11 44) (mkCalculatedFrom (mkSpan (mkPtok 5 "@calculatedFrom(" 12 15 45) (mkPtok 6 ")" 15 6 49)) (mkPtok 5 "@calculatedFrom(" 12 15 45) (mkPtok 31 """abc""" 15 0 48) (mkPtok 6 ")" 15 6 49)) None (mkPtok 40 "," 15 8 50))); (MetaField (mkSpan (mkPtok 12 "char[" 15 10 51) (mkPtok 40 "," 16 4 55)) None (mkMetaDecl (mkSpan (mkPtok 12 "char[" 15 10 51) (mkPtok 40 "," 16 4 55)) (TyFixed (mkSpan (mkPtok 12 "char[" 15 10 51) (mkPtok 13 "]" 15 17 53)) (mkFixedString (mkSpan (mkPtok 12 "char[" 15 10 51) (mkPtok 13 "]" 15 17 53)) (mkPtok 12 "char[" 15 10 51) (mkPtok 30 "3" 15 16 52) (mkPtok 13 "]" 15 17 53))) (mkPtok 42 "leftPad" 15 19 54) None (mkPtok 40 "," 16 4 55))); (MetaField (mkSpan (mkPtok 20 "u8" 17 0 56) (mkPtok 40 "," 19 12 60)) None (mkMetaDecl (mkSpan (mkPtok 20 "u8" 17 0 56) (mkPtok 40 "," 19 12 60)) (TyBasic (mkSpan (mkPtok 20 "u8" 17 0 56) (mkPtok 20 "u8" 17 0 56)) (mkBasicType (mkSpan (mkPtok 20 "u8" 17 0 56) (mkPtok 20 "u8" 17 0 56)) (mkPtok 20 "u8" 17 0 56))) (mkPtok 42 "i64_" 18 0 58) (Some (mkPtok 43 "`u8 x,`" 19 4 59)) (mkPtok 40 "," 19 12 60)))] (mkPtok 3 "}" 19 14 61)) (mkPtok 40 "," 19 16 62))); (mkFieldWithAttr (mkSpan (mkPtok 5 "@calculatedFrom(" 20 0 63) (mkPtok 40 "," 22 12 67)) [(FACalculatedFrom (mkSpan (mkPtok 5 "@calculatedFrom(" 20 0 63) (mkPtok 6 ")" 22 4 65)) (mkCalculatedFrom (mkSpan (mkPtok 5 "@calculatedFrom(" 20 0 63) (mkPtok 6 ")" 22 4 65)) (mkPtok 5 "@calculatedFrom(" 20 0 63) (mkPtok 31 (string_of_bytes [34; 97; 9; 98; 34]%N) 21 0 64) (mkPtok 6 ")" 22 4 65)))] (ObjectField (mkSpan (mkPtok 42 "stringy" 22 5 66) (mkPtok 40 "," 22 12 67)) None (mkPtok 42 "stringy" 22 5 66) None None (mkPtok 40 "," 22 12 67)))] (mkPtok 3 "}" 22 14 68))); (DPacket (mkPacketDef (mkSpan (mkPtok 34 "root" 22 16 69) (mkPtok 3 "}" 47 4 145)) (Some (mkPtok 34 "root" 22 16 69)) (mkPtok 35 "packet" 22 21 70) (mkPtok 42 "chars" 22 28 71) (mkPtok 2 "{" 22 34 72) [(mkFieldWithAttr (mkSpan (mkPtok 38 "match" 23 4 73) (mkPtok 40 "," 32 25 103)) [] (MatchField (mkSpan (mkPtok 38 "match" 23 4 73) (mkPtok 40 "," 32 25 103)) (mkMatchFieldDecl (mkSpan (mkPtok 38 "match" 23 4 73) (mkPtok 3 "}" 32 23 102)) (mkPtok 38 "match" 23 4 73) (mkPtok 42 "i8i8" 23 11 74) (mkPtok 17 "as" 23 16 75) (mkPtok 42 "uint8x" 23 19 76) (mkPtok 2 "{" 23 25 77) [(mkMatchPair (mkSpan (mkPtok 18 "[" 23 27 78) (mkPtok 40 "," 29 0 88)) (MKList (mkKeyList (mkSpan (mkPtok 18 "[" 23 27 78) (mkPtok 13 "]" 27 4 84)) (mkPtok 18 "[" 23 27 78) (mkPtok 31 (string_of_bytes [34; 92; 195; 169; 34]%N) 26 0 81) [((mkPtok 40 "," 26 5 82), (mkPtok 31 """abc""" 26 7 83))] (mkPtok 13 "]" 27 4 84))) (mkPtok 39 ":" 28 0 86) (mkPtok 42 "chars" 28 2 87) (Some (mkPtok 40 "," 29 0 88))); (mkMatchPair (mkSpan (mkPtok 31 """`tick`""" 29 2 89) (mkPtok 42 "f32a" 30 0 91)) (MKString (mkPtok 31 """`tick`""" 29 2 89)) (mkPtok 39 ":" 29 11 90) (mkPtok 42 "f32a" 30 0 91) None); (mkMatchPair (mkSpan (mkPtok 18 "[" 30 5 92) (mkPtok 42 "MetaDataX" 32 0 97)) (MKList (mkKeyList (mkSpan (mkPtok 18 "[" 30 5 92) (mkPtok 13 "]" 31 9 95)) (mkPtok 18 "[" 30 5 92) (mkPtok 31 """packet""" 31 0 94) [] (mkPtok 13 "]" 31 9 95))) (mkPtok 39 ":" 31 10 96) (mkPtok 42 "MetaDataX" 32 0 97) None); (mkMatchPair (mkSpan (mkPtok 31 """\n""" 32 10 98) (mkPtok 40 "," 32 21 101)) (MKString (mkPtok 31 """\n""" 32 10 98)) (mkPtok 39 ":" 32 15 99) (mkPtok 42 "tag" 32 17 100) (Some (mkPtok 40 "," 32 21 101)))] (mkPtok 3 "}" 32 23 102)) (mkPtok 40 "," 32 25 103))); (mkFieldWithAttr (mkSpan (mkPtok 32 "@rightPad" 34 4 105) (mkPtok 40 "," 37 4 114)) [(FAPadding (mkSpan (mkPtok 32 "@rightPad" 34 4 105) (mkPtok 6 ")" 34 21 108)) (mkPaddingAttr (mkSpan (mkPtok 32 "@rightPad" 34 4 105) (mkPtok 6 ")" 34 21 108)) (mkPtok 32 "@rightPad" 34 4 105) (mkPtok 8 "(" 34 14 106) (Some (mkPtok 33 "'0'" 34 16 107)) (mkPtok 6 ")" 34 21 108)))] (CheckSumField (mkSpan (mkPtok 42 "len" 35 4 109) (mkPtok 40 "," 37 4 114)) (mkChecksumFieldDecl (mkSpan (mkPtok 42 "len" 35 4 109) (mkPtok 40 "," 37 4 114)) None (mkPtok 42 "len" 35 4 109) (mkCalculatedFrom (mkSpan (mkPtok 5 "@calculatedFrom(" 35 8 110) (mkPtok 6 ")" 36 4 112)) (mkPtok 5 "@calculatedFrom(" 35 8 110) (mkPtok 31 """a\\""" 35 25 111) (mkPtok 6 ")" 36 4 112)) (Some (mkPtok 43 (string_of_bytes [96; 195; 169; 96]%N) 37 0 113)) (mkPtok 40 "," 37 4 114)))); (mkFieldWithAttr (mkSpan (mkPtok 5 "@calculatedFrom(" 37 6 115) (mkPtok 40 "," 44 4 136)) [(FACalculatedFrom (mkSpan (mkPtok 5 "@calculatedFrom(" 37 6 115) (mkPtok 6 ")" 38 4 117)) (mkCalculatedFrom (mkSpan (mkPtok 5 "@calculatedFrom(" 37 6 115) (mkPtok 6 ")" 38 4 117)) (mkPtok 5 "@calculatedFrom(" 37 6 115) (mkPtok 31 """1""" 37 24 116) (mkPtok 6 ")" 38 4 117)))] (InerObjectField (mkSpan (mkPtok 42 "u8x" 38 6 118) (mkPtok 40 "," 44 4 136)) None (InerObjectDecl (mkSpan (mkPtok 42 "u8x" 38 6 118) (mkPtok 3 "}" 42 4 134)) (mkPtok 42 "u8x" 38 6 118) (mkPtok 2 "{" 38 11 119) [(ObjectField (mkSpan (mkPtok 36 "repeat" 38 13 120) (mkPtok 40 "," 39 4 122)) (Some (mkPtok 36 "repeat" 38 13 120)) (mkPtok 42 "string_" 38 20 121) None None (mkPtok 40 "," 39 4 122)); (InerObjectField (mkSpan (mkPtok 36 "repeat" 39 6 123) (mkPtok 40 "," 41 0 133)) (Some (mkPtok 36 "repeat" 39 6 123)) (InerObjectDecl (mkSpan (mkPtok 42 "Z9_" 40 0 124) (mkPtok 3 "}" 40 33 131)) (mkPtok 42 "Z9_" 40 0 124) (mkPtok 2 "{" 40 4 125) [(MetaField (mkSpan (mkPtok 36 "repeat" 40 6 126) (mkPtok 40 "," 40 31 130)) (Some (mkPtok 36 "repeat" 40 6 126)) (mkMetaDecl (mkSpan (mkPtok 24 "int8" 40 13 127) (mkPtok 40 "," 40 31 130)) (TyBasic (mkSpan (mkPtok 24 "int8" 40 13 127) (mkPtok 24 "int8" 40 13 127)) (mkBasicType (mkSpan (mkPtok 24 "int8" 40 13 127) (mkPtok 24 "int8" 40 13 127)) (mkPtok 24 "int8" 40 13 127))) (mkPtok 42 "Logon" 40 18 128) (Some (mkPtok 43 "`it's`" 40 24 129)) (mkPtok 40 "," 40 31 130)))] (mkPtok 3 "}" 40 33 131)) (mkPtok 40 "," 41 0 133))] (mkPtok 3 "}" 42 4 134)) (mkPtok 40 "," 44 4 136))); (mkFieldWithAttr (mkSpan (mkPtok 5 "@calculatedFrom(" 45 0 137) (mkPtok 40 "," 46 17 144)) [(FACalculatedFrom (mkSpan (mkPtok 5 "@calculatedFrom(" 45 0 137) (mkPtok 6 ")" 45 32 139)) (mkCalculatedFrom (mkSpan (mkPtok 5 "@calculatedFrom(" 45 0 137) (mkPtok 6 ")" 45 32 139)) (mkPtok 5 "@calculatedFrom(" 45 0 137) (mkPtok 31 """// no comment""" 45 16 138) (mkPtok 6 ")" 45 32 139))); (FALengthOf (mkSpan (mkPtok 7 "@lengthOf(" 45 33 140) (mkPtok 6 ")" 46 8 142)) (mkLengthOf (mkSpan (mkPtok 7 "@lengthOf(" 45 33 140) (mkPtok 6 ")" 46 8 142)) (mkPtok 7 "@lengthOf(" 45 33 140) (mkPtok 42 "u8x" 46 4 141) (mkPtok 6 ")" 46 8 142)))] (ObjectField (mkSpan (mkPtok 42 "falsey" 46 11 143) (mkPtok 40 "," 46 17 144)) None (mkPtok 42 "falsey" 46 11 143) None None (mkPtok 40 "," 46 17 144)))] (mkPtok 3 "}" 47 4 145)))])).
Eval vm_compute in ("<<<M1844>>>" ++ check (runes_of_ascii "packet matchKey { }
packet falsey { int64
_x,
//	t
// c
@calculatedFrom(
    ""1""
// a // b
// a // b
)// packet A { u8 x, }
u64	Foo @calculatedFrom( ""a	b"")	,@lengthOf(
    // @lengthOf(
    u128 )//x
@lengthOf( len
/// triple
//
) string
string_ , }")).
Eval vm_compute in ("<<<M1876>>>" ++ check (runes_of_ascii "options {// c
i64_ = zchar[65535// packet A { u8 x, }
];
MetaDataX // packet A { u8 x, }
= 0123456789 //	t
; o = ""abc""
; //	t
tag
=
    ""a\\"" ; }
packet leftPad
{ repeat
    char[] uint8x ,
repeat As `" ++ [233]%N ++ runes_of_ascii "` , } packet Logon{ // c
@lengthOf(
// a // b
// " ++ [128512]%N ++ runes_of_ascii " emoji
u128 // 50% %s
)
    matchKey float
,// `tick` ""quote"" 'q'
} MetaData Pad { u64 o
, } packet chars { zchar[ 10] rootA ,int64 o,
    // " ++ [128512]%N ++ runes_of_ascii " emoji
    i8i8
    @calculatedFrom( ""1"" ) `
`	, @tag(  0123456789 )match leftPad as len{	""a\\""	: Pad
007 : body ,
""a\\"" :matchKey
    ,
    ""a\\"" :stringy,
// a // b
//
[ 00,
    007	, """ ++ [233]%N ++ runes_of_ascii "t" ++ [233]%N ++ runes_of_ascii """
,
    3 ,7// " ++ [128512]%N ++ runes_of_ascii " emoji
, """ ++ [233]%N ++ runes_of_ascii "t" ++ [233]%N ++ runes_of_ascii """  ,	""`tick`"" ]: string_ } , i64 T `tab	here` , string
    x_y_z
    , repeatCount
// trailing space 
// " ++ [128512]%N ++ runes_of_ascii " emoji
@calculatedFrom( ""packet"" ) ,trueish `u8 x,`
    , }
//
")).
Eval vm_compute in ("<<<M1908>>>" ++ check (runes_of_ascii "packet
    Pad	{ repeat  int64 i8i8,int64 int,@tag(
    007 ) zchar[ 0123456789 ]
    tag ,
}root packet x_y_z
    {
repeat
    lengthOf
,i32 metadata `" ++ [233]%N ++ runes_of_ascii "` , i64_ `" ++ [233]%N ++ runes_of_ascii "` , }
")).
Eval vm_compute in ("<<<M1940>>>" ++ check (runes_of_ascii "packet
options1 { // 50% %s
u128
@calculatedFrom(""CRC32"") , char[ 3 ] As ,
char[ 10 ]Logon`
`
    , uint64 f32a @calculatedFrom( ""x y"") ,
repeat
stringy Packet `line1
line2` , match// " ++ [128512]%N ++ runes_of_ascii " emoji
msg_type // 50% %s
as
BodyLength { ""\n"" : rootA ,0
: u  ,	4294967296 :options1 ""a	b""
:
/// triple
//x
rootA
    }
, repeat
char[3 ]  asx ,
repeat  string
    u8x ,
@leftPad( '\x00')
u {
matchKey `a\` /// triple
,
    match repeatCount // trailing space 
as o{ 007 :u128 [ ""a\\"" ]: string_
    ,""" ++ [28040; 24687]%N ++ runes_of_ascii """: Header , 10:  float
,} , Foo	@lengthOf( Header	) , match stringy as float
    { ""\" ++ [233]%N ++ runes_of_ascii """: Z9_
},
    } , @leftPad ( )
charz ,//x
}")).
Eval vm_compute in ("<<<M1972>>>" ++ check (runes_of_ascii "
root packet
x_y_z  { @leftPad
    ( ' ' )
float `two words` ,
@rightPad (
    '0'
)len@calculatedFrom( """ ++ [233]%N ++ runes_of_ascii "t" ++ [233]%N ++ runes_of_ascii """ )// " ++ [27880; 37322]%N ++ runes_of_ascii "
, }
")).
Eval vm_compute in ("<<<M2004>>>" ++ check (runes_of_ascii "options {
    StringPrefixLenType = u16;
    ArrayPrefixLenType = u16;
}

packet SampleBinary {
    uint16 MsgType `" ++ [28040; 24687; 31867; 22411]%N ++ runes_of_ascii "`,
    u16 BodyLenght @lengthOf(Body) `" ++ [28040; 24687; 20307; 38271; 24230]%N ++ runes_of_ascii "`,
    match MsgType as Body {
        1 : Logon,
        2 : Logout,
        3 : Heartbeat,
        4 : RiskControlRequest,
        5 : RiskControlResponse,
    },
    @calculatedFrom(""CRC32"")
    u32 Ckecksum `" ++ [26657; 39564; 21644]%N ++ runes_of_ascii "`,
}

packet Logon {
    @leftPad('0')
    char[10] UserName `" ++ [29992; 25143; 21517]%N ++ runes_of_ascii "`,
    string Password `" ++ [23494; 30721]%N ++ runes_of_ascii "`,
    uint64 ClientId `" ++ [23458; 25143; 31471]%N ++ runes_of_ascii "ID`,
    u16 HeartbeatInterval `" ++ [24515; 36339; 38388; 38548]%N ++ runes_of_ascii "`,
}

packet Logout {
    @rightPad('0')
    char[10] UserName `" ++ [29992; 25143; 21517]%N ++ runes_of_ascii "`,
    uint64 ClientId `" ++ [23458; 25143; 31471]%N ++ runes_of_ascii "ID`,
}

packet Heartbeat {
}

packet RiskControlRequest {
    string UniqueOrderId `" ++ [21807; 19968; 35746; 21333; 21495]%N ++ runes_of_ascii "`,
    char[16] ClOrdID `" ++ [23458; 25143; 35746; 21333; 21495]%N ++ runes_of_ascii "`,
    char[3] MarketID `" ++ [24066; 22330]%N ++ runes_of_ascii "id`,
    char[12] SecurityID `" ++ [35777; 21048; 20195; 30721]%N ++ runes_of_ascii "`,
    char Side `" ++ [20080; 21334; 26041; 21521]%N ++ runes_of_ascii "`,
    char OrderType `" ++ [35746; 21333; 31867; 22411]%N ++ runes_of_ascii "`,
    u64 Price `" ++ [20215; 26684]%N ++ runes_of_ascii "`,
    u32 Qty `" ++ [25968; 37327]%N ++ runes_of_ascii "`,
    repeat string ExtraInfo `" ++ [38468; 21152; 20449; 24687]%N ++ runes_of_ascii "`,
    repeat SubOrder {
        char[16] ClOrdID `" ++ [23376; 35746; 21333; 21495]%N ++ runes_of_ascii "`,
        u64 Price `" ++ [23376; 35746; 21333; 20215; 26684]%N ++ runes_of_ascii "`,
        u32 Qty `" ++ [23376; 35746; 21333; 25968; 37327]%N ++ runes_of_ascii "`,
    },
}

packet RiskControlResponse {
    string UniqueOrderId `" ++ [21807; 19968; 35746; 21333; 21495]%N ++ runes_of_ascii "`,
    i32 Status `" ++ [29366; 24577]%N ++ runes_of_ascii "`,
    string Msg `" ++ [32467; 26524; 20449; 24687]%N ++ runes_of_ascii "`,
    repeat Detail,
}

packet Detail {
    string RuleName `" ++ [35268; 21017; 21517; 31216]%N ++ runes_of_ascii "`,
    u16 Code `" ++ [21407; 22240; 20195; 30721]%N ++ runes_of_ascii "`,
}")).
Eval vm_compute in ("<<<M2036>>>" ++ check (runes_of_ascii "MetaData repeatCount { float64 packetx}
, root packet  metadata {
char _x @lengthOf( trueish ), @leftPad
( ' '// " ++ [27880; 37322]%N ++ runes_of_ascii "
)/// triple
char[] len`doc` , // packet A { u8 x, }
repeatCount , }
")).
Eval vm_compute in ("<<<M2068>>>" ++ check (runes_of_ascii "MetaData repeatCount { float64 packetx,
} root packet  metadata {")).
Eval vm_compute in ("<<<M2100>>>" ++ check (runes_of_ascii "MetaData repeatCount { float64 packetx,
} root packet  metadata {
char _x @lengthOf( trueish ), @leftPad
( ( ' '// " ++ [27880; 37322]%N ++ runes_of_ascii "
)/// triple
char[] len`doc` , // packet A { u8 x, }
repeatCount , }
")).
Eval vm_compute in ("<<<M2132>>>" ++ check (runes_of_ascii "MetaData repeatCount { float64 packetx,
} root packet  metadata {
char _x @lengthOf( trueish ), @leftPad
( ' '// " ++ [27880; 37322]%N ++ runes_of_ascii "
)/// triple
char[] len`doc` u8 // packet A { u8 x, }
repeatCount , }
")).
Eval vm_compute in ("<<<M2164>>>" ++ check (runes_of_ascii "MetaData repeatCount { float64 packetx,
} root packet  metada$ta {
char _x @lengthOf( trueish ), @leftPad
( ' '// " ++ [27880; 37322]%N ++ runes_of_ascii "
)/// triple
char[] len`doc` , // packet A { u8 x, }
repeatCount , }
")).
Eval vm_compute in ("<<<M2196>>>" ++ check (runes_of_ascii "options{
leftPad
    =65535
; ;
a1 = true ; packetx=  '\x00' ; packetx
=  """ ++ [28040; 24687]%N ++ runes_of_ascii """MetaDataX= // " ++ [27880; 37322]%N ++ runes_of_ascii "
false }root // c
packet // packet A { u8 x, }
Pad { repeat
u8 Header
// packet A { u8 x, }
//	t
`{ , }`
// a // b
//x
, }
")).
Eval vm_compute in ("<<<M2228>>>" ++ check (runes_of_ascii "options{
leftPad
    =65535
;
a1 = true ; packetx int16  '\x00' ; packetx
=  """ ++ [28040; 24687]%N ++ runes_of_ascii """MetaDataX= // " ++ [27880; 37322]%N ++ runes_of_ascii "
false }root // c
packet // packet A { u8 x, }
Pad { repeat
u8 Header
// packet A { u8 x, }
//	t
`{ , }`
// a // b
//x
, }
")).
Eval vm_compute in ("<<<M2260>>>" ++ check (runes_of_ascii "options{
leftPad
    =65535
;
a1 = true ; packetx=  '\x00' ; packetx
=  """ ++ [28040; 24687]%N ++ runes_of_ascii """MetaDataX // " ++ [27880; 37322]%N ++ runes_of_ascii "
false }root // c
packet // packet A { u8 x, }
Pad { repeat
u8 Header
// packet A { u8 x, }
//	t
`{ , }`
// a // b
//x
, }
")).
Eval vm_compute in ("<<<M2292>>>" ++ check (runes_of_ascii "options{
leftPad
    =65535
;
a1 = true ; packetx=  '\x00' ; packetx
=  """ ++ [28040; 24687]%N ++ runes_of_ascii """MetaDataX= // " ++ [27880; 37322]%N ++ runes_of_ascii "
false }root // c
packet // packet A { u8 x, }
Pad repeat {
u8 Header
// packet A { u8 x, }
//	t
`{ , }`
// a // b
//x
, }
")).
Eval vm_compute in ("<<<M2324>>>" ++ check (runes_of_ascii "options{
leftPad
    ")).
Eval vm_compute in ("<<<M2356>>>" ++ check (runes_of_ascii "
packet float
	@calculatedFrom( """ ++ [233]%N ++ runes_of_ascii "t" ++ [233]%N ++ runes_of_ascii """ )
@rightPad ( '\x00' )
    @calculatedFrom( ""x y"" ) string chars  ,
    // a // b
    char[0 ]
    u	@lengthOf( i8i8 ) `{ , }` ,repeat char[] o //x
`// not a comment`, } // c")).
Eval vm_compute in ("<<<M2388>>>" ++ check (runes_of_ascii "
packet float
{	@calculatedFrom( """ ++ [233]%N ++ runes_of_ascii "t" ++ [233]%N ++ runes_of_ascii """ )
@rightPad ( ) '\x00'
    @calculatedFrom( ""x y"" ) string chars  ,
    // a // b
    char[0 ]
    u	@lengthOf( i8i8 ) `{ , }` ,repeat char[] o //x
`// not a comment`, } // c")).
Eval vm_compute in ("<<<M2420>>>" ++ check (runes_of_ascii "
packet float
{	@calculatedFrom( """ ++ [233]%N ++ runes_of_ascii "t" ++ [233]%N ++ runes_of_ascii """ )
@rightPad ( '\x00' )
    @calculatedFrom( ""x y"" ) string")).
Eval vm_compute in ("<<<M2452>>>" ++ check (runes_of_ascii "
packet float
{	@calculatedFrom( """ ++ [233]%N ++ runes_of_ascii "t" ++ [233]%N ++ runes_of_ascii """ )
@rightPad ( '\x00' )
    @calculatedFrom( ""x y"" ) string chars  ,
    // a // b
    char[0 ]
    u	@lengthOf( i8i8 i8i8 ) `{ , }` ,repeat char[] o //x
`// not a comment`, } // c")).
Eval vm_compute in ("<<<M2484>>>" ++ check (runes_of_ascii "
packet float
{	@calculatedFrom( """ ++ [233]%N ++ runes_of_ascii "t" ++ [233]%N ++ runes_of_ascii """ )
@rightPad ( '\x00' )
    @calculatedFrom( ""x y"" ) string chars  ,
    // a // b
    char[0 ]
    u	@lengthOf( i8i8 ) `{ , }` ,repeat char[] packet //x
`// not a comment`, } // c")).
Eval vm_compute in ("<<<M2516>>>" ++ check (runes_of_ascii "
packet float
{	@calculatedFrom( """ ++ [233]%N ++ runes_of_ascii "t" ++ [233]%N ++ runes_of_ascii """ )
@rightPad ( '\x00' )|
    @calculatedFrom( ""x y"" ) string chars  ,
    // a // b
    char[0 ]
    u	@lengthOf( i8i8 ) `{ , }` ,repeat char[] o //x
`// not a comment`, } // c")).
Eval vm_compute in ("<<<M2548>>>" ++ check (runes_of_ascii "root packet u128{
    repeat
    zchar[ zchar[ 65535 ] u `" ++ [28040; 24687; 31867; 22411]%N ++ runes_of_ascii "` ,// `tick` ""quote"" 'q'
} packet i64_ {repeatCount
    `
` ,	} // " ++ [128512]%N ++ runes_of_ascii " emoji")).
Eval vm_compute in ("<<<M2580>>>" ++ check (runes_of_ascii "root packet u128{
    repeat
    zchar[ 65535 ] u `" ++ [28040; 24687; 31867; 22411]%N ++ runes_of_ascii "` ,// `tick` ""quote"" 'q'
u64 packet i64_ {repeatCount
    `
` ,	} // " ++ [128512]%N ++ runes_of_ascii " emoji")).
Eval vm_compute in ("<<<M2612>>>" ++ check (runes_of_ascii "root packet u128{
    repeat
    zchar[ 65535 ] u `" ++ [28040; 24687; 31867; 22411]%N ++ runes_of_ascii "` ,// `tick` ""quote"" 'q'
} packet i64_ {repeatCount
    `
` ,	 // " ++ [128512]%N ++ runes_of_ascii " emoji")).
Eval vm_compute in ("<<<M2644>>>" ++ check (runes_of_ascii "
MetaData
roots roots { int8
    BodyLength ,//	t
}
")).
Eval vm_compute in ("<<<M2676>>>" ++ check (runes_of_ascii "
MetaData
roots { int8
   ")).
Eval vm_compute in ("<<<M2708>>>" ++ check (runes_of_ascii "options {")).
Eval vm_compute in ("<<<M2740>>>" ++ check (runes_of_ascii "options {Packet = ""CRC32""i8i8 = false; leftPad leftPad =
    '\x00'
    // `tick` ""quote"" 'q'
    ; o=255  ;
    // packet A { u8 x, }
    }")).
Eval vm_compute in ("<<<M2772>>>" ++ check (runes_of_ascii "options {Packet = ""CRC32""i8i8 = false; leftPad =
    '\x00'
    // `tick` ""quote"" 'q'
    ; o=""a	b""  ;
    // packet A { u8 x, }
    }")).
Eval vm_compute in ("<<<M2804>>>" ++ check (runes_of_ascii "options {Packet = ""CRC32""i8i8 = false; " ++ [21517; 23383]%N ++ runes_of_ascii " =
    '\x00'
    // `tick` ""quote"" 'q'
    ; o=255  ;
    // packet A { u8 x, }
    }")).
Eval vm_compute in ("<<<M2836>>>" ++ check (runes_of_ascii "
packet metadata { @rightPad (
    // packet A { u8 x, }
    ' ' ) ) repeat u32	A
,matchKey ,
    @lengthOf( string_ ) @lengthOf( body )
    // a // b
    @lengthOf(float  )	repeat
int32 u8x
    // c
    `tab	here`
, } // a // b")).
Eval vm_compute in ("<<<M2868>>>" ++ check (runes_of_ascii "
packet metadata { @rightPad (
    // packet A { u8 x, }
    ' ' ) repeat u32	A
,matchKey zchar[
    @lengthOf( string_ ) @lengthOf( body )
    // a // b
    @lengthOf(float  )	repeat
int32 u8x
    // c
    `tab	here`
, } // a // b")).
Eval vm_compute in ("<<<M2900>>>" ++ check (runes_of_ascii "
packet metadata { @rightPad (
    // packet A { u8 x, }
    ' ' ) repeat u32	A
,matchKey ,
    @lengthOf( string_ ) @lengthOf( body )
    // a // b
    float  )	repeat
int32 u8x
    // c
    `tab	here`
, } // a // b")).
Eval vm_compute in ("<<<M2932>>>" ++ check (runes_of_ascii "
packet metadata { @rightPad (
    // packet A { u8 x, }
    ' ' ) repeat u32	A
,matchKey ,
    @lengthOf( string_ ) @lengthOf( body )
    // a // b
    @lengthOf(float  )	repeat
int32 u8x
    // c
    ,
`tab	here` } // a // b")).
Eval vm_compute in ("<<<M2964>>>" ++ check (runes_of_ascii "
packet metadata { @rightPad (
    // packet A { u8 x, }
    ' ' ) repeat u32	A
," ++ [252]%N ++ runes_of_ascii "ber ,
    @lengthOf( string_ ) @lengthOf( body )
    // a // b
    @lengthOf(float  )	repeat
int32 u8x
    // c
    `tab	here`
, } // a // b")).
Eval vm_compute in ("<<<M2996>>>" ++ check (runes_of_ascii "packet x{
string
zchar , //	t

")).
Eval vm_compute in ("<<<M3028>>>" ++ check (runes_of_ascii "
MetaData Logon Logon
{ // c
}root packet
    Pad {
    } options
{
u
    =
    ""CRC32""
    // " ++ [128512]%N ++ runes_of_ascii " emoji
    i64_ = u16;
T =65535 x = ' '
    ; u128
= true ; }")).
Eval vm_compute in ("<<<M3060>>>" ++ check (runes_of_ascii "
MetaData Logon
{ // c
}root packet
    Pad packet
    } options
{
u
    =
    ""CRC32""
    // " ++ [128512]%N ++ runes_of_ascii " emoji
    i64_ = u16;
T =65535 x = ' '
    ; u128
= true ; }")).
Eval vm_compute in ("<<<M3092>>>" ++ check (runes_of_ascii "
MetaData Logon
{ // c
}root packet
    Pad {
    } options
{
u
    =
    ""CRC32""
    // " ++ [128512]%N ++ runes_of_ascii " emoji
     = u16;
T =65535 x = ' '
    ; u128
= true ; }")).
Eval vm_compute in ("<<<M3124>>>" ++ check (runes_of_ascii "
MetaData Logon
{ // c
}root packet
    Pad {
    } options
{
u
    =
    ""CRC32""
    // " ++ [128512]%N ++ runes_of_ascii " emoji
    i64_ = u16;
T =x 65535 = ' '
    ; u128
= true ; }")).
Eval vm_compute in ("<<<M3156>>>" ++ check (runes_of_ascii "
MetaData Logon
{ // c
}root packet
    Pad {
    } options
{
u
    =
    ""CRC32""
    // " ++ [128512]%N ++ runes_of_ascii " emoji
    i64_ = u16;
T =65535 x = ' '
    ; u128")).
Eval vm_compute in ("<<<M3188>>>" ++ check (runes_of_ascii "
MetaData Logon
{ // c
}root packet
    Pad {
    } options
{
u
    =
    ""CRC32""
    // " ++ [128512]%N ++ runes_of_ascii " emoji
    " ++ [8232]%N ++ runes_of_ascii "i64_ = u16;
T =65535 x = ' '
    ; u128
= true ; }")).
Eval vm_compute in ("<<<M3220>>>" ++ check (runes_of_ascii "MetaData body{}
packet	{ Packet x_y_z @calculatedFrom(  ""a\\"")// `tick` ""quote"" 'q'
, }
")).
Eval vm_compute in ("<<<M3252>>>" ++ check (runes_of_ascii "MetaData body{}
packet	Packet { x_y_z @calculatedFrom(  ""a\\"")")).
Eval vm_compute in ("<<<M3284>>>" ++ check (runes_of_ascii "packet  {} root packet len {repeat u // " ++ [128512]%N ++ runes_of_ascii " emoji
`{ , }` , }
")).
Eval vm_compute in ("<<<M3316>>>" ++ check (runes_of_ascii "packet f32a {} root packet len repeat{ u // " ++ [128512]%N ++ runes_of_ascii " emoji
`{ , }` , }
")).
Eval vm_compute in ("<<<M3348>>>" ++ check (runes_of_ascii "packet f32a {} root packet len {repeat u // " ++ [128512]%N ++ runes_of_ascii " emoji
`{ , }` '1', }
")).
Eval vm_compute in ("<<<M3380>>>" ++ check (runes_of_ascii "options{ _x=""\" ++ [233]%N ++ runes_of_ascii """;
    Logon = 10	; Foo= 7;
i64_= char[]} options {
matchKey = ""// no comment"" // a // b
falsey = string
; trueish =
    4294967296
options1=
    ""it's"" ""it's"" string_	= true } options {
    /// triple
    }")).
Eval vm_compute in ("<<<M3412>>>" ++ check (runes_of_ascii "options{ _x=""\" ++ [233]%N ++ runes_of_ascii """;
    Logon = 10	; Foo= 7;
i64_= char[]} options {
matchKey = ""// no comment"" // a // b
falsey = string
; trueish =
    4294967296
options1= =
    ""it's"" string_	= true } options {
    /// triple
    }")).
Eval vm_compute in ("<<<M3444>>>" ++ check (runes_of_ascii "options{ _x=""\" ++ [233]%N ++ runes_of_ascii """;
    Logon = 10	; Foo= 7;
=i64_ char[]} options {
matchKey = ""// no comment"" // a // b
falsey = string
; trueish =
    4294967296
options1=
    ""it's"" string_	= true } options {
    /// triple
    }")).
Eval vm_compute in ("<<<M3476>>>" ++ check (runes_of_ascii "options{ _x=""\" ++ [233]%N ++ runes_of_ascii """;
    Logon = 10	; Foo= 7;
i64_= char[]} options {
matchKey = ""// no comment"" // a // b
falsey = string
; trueish =
    4294967296
options1=
    ""it's"" string_	= = true } options {
    /// triple
    }")).
Eval vm_compute in ("<<<M3508>>>" ++ check (runes_of_ascii "i8i8")).
Eval vm_compute in ("<<<M3540>>>" ++ check (runes_of_ascii "'\x0'")).
Eval vm_compute in ("<<<M3572>>>" ++ check (runes_of_ascii """")).
Eval vm_compute in ("<<<M3604>>>" ++ check (runes_of_ascii "1_")).
Eval vm_compute in ("<<<M3636>>>" ++ check (runes_of_ascii "packet A { x }")).
Eval vm_compute in ("<<<M3668>>>" ++ check (runes_of_ascii "packet A { B { match k as n { 1 : C }, }, }")).
Eval vm_compute in ("<<<M3700>>>" ++ check (runes_of_ascii "packet A { } 1")).
Eval vm_compute in ("<<<M3732>>>" ++ check (runes_of_ascii "options { a = char[3]; b = zchar[0] c = char[] d = string e = u8 }")).
Eval vm_compute in ("<<<M3764>>>" ++ check (runes_of_ascii "r4" ++ [65533; 65533]%N ++ runes_of_ascii "xQ" ++ [8]%N)).
Eval vm_compute in ("<<<M3796>>>" ++ check (runes_of_ascii "up30`" ++ [1680]%N)).
Eval vm_compute in ("<<<M3828>>>" ++ check ([65533; 65533]%N ++ runes_of_ascii "_e" ++ [65533]%N ++ runes_of_ascii ":" ++ [65533; 65533; 6220]%N ++ runes_of_ascii "ASzc" ++ [65533; 15]%N ++ runes_of_ascii "8%'" ++ [65533]%N ++ runes_of_ascii "Q$&q@" ++ [65533; 1890; 65533; 65533]%N ++ runes_of_ascii "J

" ++ [24; 65533]%N ++ runes_of_ascii "q" ++ [65533]%N)).
Eval vm_compute in ("<<<M3860>>>" ++ check (runes_of_ascii "u" ++ [65533]%N ++ runes_of_ascii "e" ++ [65533; 65533; 27]%N ++ runes_of_ascii "1" ++ [65533; 65533]%N ++ runes_of_ascii "w" ++ [65533; 65533; 65533; 65533]%N ++ runes_of_ascii "k" ++ [65533; 65533]%N ++ runes_of_ascii "Vw" ++ [65533; 65533; 65533; 65533]%N)).
Eval vm_compute in ("<<<M3892>>>" ++ check ([65533; 65533]%N ++ runes_of_ascii "7" ++ [65533]%N ++ runes_of_ascii "r%" ++ [65533; 65533]%N ++ runes_of_ascii "U" ++ [65533; 65533]%N ++ runes_of_ascii "k+ " ++ [65533; 20; 65533; 20; 20]%N)).
Eval vm_compute in ("<<<M3924>>>" ++ check (runes_of_ascii "D" ++ [65533; 65533; 22]%N ++ runes_of_ascii "j" ++ [65533]%N ++ runes_of_ascii "bXq'8]" ++ [65533; 65533]%N ++ runes_of_ascii "`" ++ [65533; 16]%N ++ runes_of_ascii "a]" ++ [20; 25; 65533; 2; 65533; 65533]%N ++ runes_of_ascii "85")).
Eval vm_compute in ("<<<M3956>>>" ++ check ([31; 27; 65533]%N ++ runes_of_ascii "+" ++ [65533]%N)).
Eval vm_compute in ("<<<M3988>>>" ++ check ([65533; 65533]%N ++ runes_of_ascii "[ " ++ [65533; 65533]%N ++ runes_of_ascii "1" ++ [65533]%N ++ runes_of_ascii "w" ++ [65533; 23; 65533]%N ++ runes_of_ascii "(" ++ [65533; 65533; 65533; 5; 65533]%N)).
