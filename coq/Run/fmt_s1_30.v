From FP Require Import Lexer Parser ShowPT Digest Formatter.
From Coq Require Import String List NArith.
Import ListNotations.
Open Scope string_scope.
Set Printing Width 100000000.
Set Printing Depth 100000000.
Definition show_fres (r : fres) : string :=
  match r with
  | FOk s => "OK:" ++ sh_escaped s ""
  | FErr s => "ERR:" ++ sh_escaped s ""
  | FPanic p => "PANIC:" ++ p
  end.
Definition check (rs : list rune) : string := digest (show_fres (format_res rs)).
Definition full (rs : list rune) : string := show_fres (format_res rs).
Eval vm_compute in ("<<<M125>>>" ++ check (runes_of_ascii "root packet u{ zchar[ 00] body , @lengthOf( o ) match
u as u{
    ""\" ++ [233]%N ++ runes_of_ascii """ : Z9_
    //x
    [/// triple
65535 ,
255 , ""x y"" ] // a // b
:
chars,
0123456789:float , } , }packet x_y_z {
zchar[ 3 ]u
    , @tag(
    10 ) zchar[ 4294967296 ]  body // @lengthOf(
`tab	here` ,
@lengthOf(Pad
// a // b
// @lengthOf(
) repeat i64_ crc ,
repeat
    u16
    msg_type,	@rightPad
// @lengthOf(
//	t
(
) char[]
/// triple
// @lengthOf(
float //	t
, @rightPad
( )@leftPad
( )repeat char[ 4294967296
]options1 , repeat f64 _x`` , u64 string_//
,	} root packet packetx
{int32 i8i8 @calculatedFrom( ""\" ++ [233]%N ++ runes_of_ascii """
// a // b
// trailing space 
)
    `100% of %d`
// " ++ [128512]%N ++ runes_of_ascii " emoji
// " ++ [128512]%N ++ runes_of_ascii " emoji
, @tag( 1 ) @lengthOf( // " ++ [128512]%N ++ runes_of_ascii " emoji
i64_ )
    @calculatedFrom( ""x y""
    )
// `tick` ""quote"" 'q'
//	t
char[
    0123456789
    ]
rootA @calculatedFrom(
""// no comment"" )
    `" ++ [28040; 24687; 31867; 22411]%N ++ runes_of_ascii "` ,u32
T @lengthOf(x )
    `it's`, char MetaDataX/// triple
, } packet
/// triple
// `tick` ""quote"" 'q'
Header {@calculatedFrom(
""`tick`""  )
    @tag( 3) x crc,
    @calculatedFrom( ""it's"" )
u16 Z9_
`" ++ [28040; 24687; 31867; 22411]%N ++ runes_of_ascii "` ,	@calculatedFrom(
""`tick`"")
As , // c
@leftPad //	t
( )
    // trailing space 
    u128  @calculatedFrom(
    """ ++ [28040; 24687]%N ++ runes_of_ascii """ ) , @calculatedFrom(""// no comment""// trailing space 
)
repeat
As { body {
repeat f32a
{ match Z9_ as
BodyLength
    { ""it's"" : Logon }
//x
//
,
    char[ 65535 ] pack,
Packet @calculatedFrom( // `tick` ""quote"" 'q'
""a\\"") , char[] _x @calculatedFrom( """") , } , } ,} ,
    @tag(
65535
    )
@calculatedFrom(//
""abc"" )@calculatedFrom( ""`tick`"" )
    BodyLength {	crc matchKey,	asx ,
    match /// triple
repeatCount //	t
as
int{
""1""
:Logon
,
},
asx
    {repeat
_x ,
x Foo
`" ++ [233]%N ++ runes_of_ascii "` ,
repeat// c
zchar[42 ]A
    , u16
lengthOf `100% of %d`
, }
    // `tick` ""quote"" 'q'
    ,
    // a // b
    } ,
@rightPad (' ' )
    match  Z9_ as i64_ {
    //	t
    1 :
// 50% %s
// trailing space 
Header ,	""\n"": lengthOf  , } , string_ {  repeat char[ 255 // c
] Pad
    , }  ,
    float32
    leftPad @calculatedFrom( ""a\\"" )  , }
packet
calculatedFrom // c
{}
")).
Eval vm_compute in ("<<<M3562>>>" ++ check (runes_of_ascii "root packet MetaDataX {
    @lengthOf(u128)
    @rightPad(' ')
    @calculatedFrom(""" ++ [233]%N ++ runes_of_ascii "t" ++ [233]%N ++ runes_of_ascii """)
    T @lengthOf(Foo),
    calculatedFrom pack,
    @tag(65535)
    Header `100% of %d`,
    @rightPad(' ')
    tag T `tab	here`,
    @tag(65535)
    crc @lengthOf(BodyLength) `// not a comment`,
    @calculatedFrom(""CRC32"")
    repeat i16 i64_,
    @calculatedFrom(""// no comment"")
    @calculatedFrom(""CRC32"")
    zchar[007] u `say ""hi""`,
    @tag(3)
    // a // b
    i8 pack @calculatedFrom(""\n"") `doc`,
}

root packet Logon {
    @lengthOf(len)
    x_y_z @lengthOf(MetaDataX),
    // 50% %s
}

// @lengthOf(
// " ++ [27880; 37322]%N ++ runes_of_ascii "
packet u128 {
    /// triple
    @tag(0)
    A rootA `" ++ [28040; 24687; 31867; 22411]%N ++ runes_of_ascii "`,
    @calculatedFrom(""it's"")
    match calculatedFrom as crc {
        4294967296 : charz,
        [4294967296] : As,
        4294967296 : metadata,
        // " ++ [128512]%N ++ runes_of_ascii " emoji
        [""{,}"", 255, 65535, ""x y"", """ ++ [28040; 24687]%N ++ runes_of_ascii """] : _x,
        ""1"" : i8i8,
        007 : len,
    },
    @lengthOf(lengthOf)
    match chars as Pad {
        10 : string_,
        007 : chars,
    },
    body {
        float64 uint8x `crlf
        line`,
        i64 a1 `crlf
        line`,// c
    },
    @calculatedFrom(""a\\"")
    repeat char[1] len `doc`,
    repeat zchar[42] Foo `// not a comment`,
}

packet leftPad {
    char[42] leftPad @calculatedFrom("""") `{ , }`,
    falsey repeatCount,
    int8 float @lengthOf(matchKey) `doc`,
    @tag(10)
    match roots as As {
        [
            00, ""a\""b"", 7, ""\n"", 255,
            ""abc"", """", """ ++ [128512]%N ++ runes_of_ascii """
        ] : body,
        007 : Header,
        [""" ++ [233]%N ++ runes_of_ascii "t" ++ [233]%N ++ runes_of_ascii """, 42, 255] : Pad,
        [65535, ""{,}"", 1] : falsey,
        7 : u8x,
    },
    @calculatedFrom(""abc"")
    @tag(00)
    char[7] len,// trailing space 
    repeat u32 leftPad,
}")).
Eval vm_compute in ("<<<M280>>>" ++ check (runes_of_ascii "packet i8i8 {// packet A { u8 x, }
match /// triple
float
as x_y_z { """" :
u128 // trailing space 
} ,
@calculatedFrom(	""packet"" ) repeat
char[
// " ++ [27880; 37322]%N ++ runes_of_ascii "
// " ++ [128512]%N ++ runes_of_ascii " emoji
65535
]
uint8x ,	@rightPad (
    ' ' ) leftPad `doc` ,tag @calculatedFrom(// `tick` ""quote"" 'q'
""x y"" //
) `// not a comment` , @leftPad(' ' ) zchar[
    00 ]int
    `" ++ [28040; 24687; 31867; 22411]%N ++ runes_of_ascii "`
,}  root packet pack
// " ++ [128512]%N ++ runes_of_ascii " emoji
//
{options1
{
rootA {char[ 42 ]
//
// @lengthOf(
float
    // `tick` ""quote"" 'q'
    ,
    char[ //	t
255
    ] roots
    // @lengthOf(
    , // " ++ [128512]%N ++ runes_of_ascii " emoji
repeat int64
matchKey , // packet A { u8 x, }
} // `tick` ""quote"" 'q'
,Header , u8x  zchar `{ , }`	, }
, match  x_y_z
as
options1 {""x y""
    :
    calculatedFrom ""x y"" :
pack , [""x y"" , 1, 0,
/// triple
// `tick` ""quote"" 'q'
""\" ++ [233]%N ++ runes_of_ascii """ ,	4294967296 ,
    ""a	b"" ,42 ,
0123456789]
: lengthOf ,	4294967296 :
    len ,
} ,asx@lengthOf( // " ++ [27880; 37322]%N ++ runes_of_ascii "
Header ) , match
float as calculatedFrom {3 : T,
    """ ++ [28040; 24687]%N ++ runes_of_ascii """
    // trailing space 
    :// @lengthOf(
uint8x
255: Packet
,}// " ++ [128512]%N ++ runes_of_ascii " emoji
, repeat char[] Header , } packet
u128 {
    @calculatedFrom(
//	t
//	t
""" ++ [233]%N ++ runes_of_ascii "t" ++ [233]%N ++ runes_of_ascii """ ) @lengthOf( calculatedFrom	)	zchar	, @lengthOf( Packet )
    lengthOf @calculatedFrom(
//x
// 50% %s
""\n"" ) ``,
@rightPad //	t
() char[ 0123456789
]	float
,@lengthOf( options1) @tag(
7
    // c
    )
@tag(007 ) crc int,}  packet i64_{
    // c
    @tag( 7) repeat string Logon  , @tag( 1) u32 metadata @lengthOf( rootA),} 	 ")).
Eval vm_compute in ("<<<M883>>>" ++ check (runes_of_ascii "packet  chars{ char[255
] Header , @leftPad ( '0' ) repeat i64_ { zchar @lengthOf( Foo) ,} , charz // packet A { u8 x, }
{ // packet A { u8 x, }
float64 packetx ,  o { char[	255 ] tag @calculatedFrom( ""CRC32"" ) `// not a comment`	,
    MetaDataX
    @calculatedFrom(
"""" )
    , } ,
    calculatedFrom{ zchar[ 3 ]
i8i8	@calculatedFrom( ""{,}"" ) , repeat
    packetx As ,
    repeat	leftPad {
    repeat u16 // @lengthOf(
packetx
// packet A { u8 x, }
// " ++ [27880; 37322]%N ++ runes_of_ascii "
`" ++ [28040; 24687; 31867; 22411]%N ++ runes_of_ascii "`
    ,repeat zchar[ 0123456789// @lengthOf(
] i64_ , }
    /// triple
    , }, // " ++ [128512]%N ++ runes_of_ascii " emoji
int16 As @calculatedFrom( """ ++ [128512]%N ++ runes_of_ascii """
    ), } , @calculatedFrom( """ ++ [233]%N ++ runes_of_ascii "t" ++ [233]%N ++ runes_of_ascii """ ) repeat zchar[ 7
//x
//x
] options1 `{ , }`  , } MetaData
//	t
// @lengthOf(
crc { roots u `line1
line2` ,
uint16
    // trailing space 
    int ,
    /// triple
    } root packet  Packet {  T{ char[
007
    // " ++ [128512]%N ++ runes_of_ascii " emoji
    ]
A
    , repeat
leftPad tag,}, @leftPad // @lengthOf(
()
@tag( // a // b
42 )@lengthOf( u128) repeat metadata,  repeat zchar[007]
crc
`u8 x,`,
@calculatedFrom( ""{,}"" )
match
o as falsey  {// a // b
[ 0 ,
1 , // @lengthOf(
""\n"" // packet A { u8 x, }
, 10
    ,
42, 7 , ""1"" ] : MetaDataX  ,
0// trailing space 
:
    metadata ,""{,}"" : Logon, ""1"" : float 0123456789
: a1
,007 : _x }
    , // " ++ [27880; 37322]%N ++ runes_of_ascii "
repeat
    As //
, } packet string_
{}
")).
Eval vm_compute in ("<<<M705>>>" ++ check (runes_of_ascii "root packet
    pack {}  packet Z9_	{
u64 BodyLength ,
    @calculatedFrom( ""// no comment""
)@lengthOf(	tag  ) packetx `
` ,// `tick` ""quote"" 'q'
charz
, @tag( 255 ) lengthOf { repeat calculatedFrom
{
// c
// 50% %s
char[]stringy `
`, }
,	repeat
len `" ++ [233]%N ++ runes_of_ascii "` , string falsey `a\`,	repeat string
x `tab	here`  ,
    }, char[]roots ,char metadata
, @leftPad(
'\x00' ) @lengthOf(As ) Packet//
@lengthOf(
BodyLength )`" ++ [28040; 24687; 31867; 22411]%N ++ runes_of_ascii "`
,	repeat lengthOf{
// c
//	t
repeat
MetaDataX u128`
`
    , repeat string  calculatedFrom , char len ,  float32 _x,}
,match trueish as pack{ [ """"
,
""CRC32""
, 3 , 00 ,
    1 , 65535,
""a\""b"" // c
] : charz	,
    }, }
packet tag // a // b
{ zchar[ 4294967296 ]
    uint8x ,
@tag(
4294967296)
    char[ // " ++ [128512]%N ++ runes_of_ascii " emoji
0 ]  Pad `{ , }` ,// a // b
repeatCount falsey
    ,repeat uint64 _x , @calculatedFrom( ""// no comment"" ) repeat calculatedFrom ,
repeat metadata
    { repeat char trueish
`{ , }` ,
}  ,repeat
charz
roots
, @tag( 00 )
    //	t
    u16 x `{ , }` ,
// c
//x
@tag( 3 )
@lengthOf(
    metadata ) // packet A { u8 x, }
@tag( 0123456789)
repeat
    u64 roots
, //x
repeat
char[] MetaDataX ,
// `tick` ""quote"" 'q'
// packet A { u8 x, }
}
")).
Eval vm_compute in ("<<<M7>>>" ++ check (runes_of_ascii "
packet stringy {
    @tag( 3
) @rightPad ( ) //x
@lengthOf( charz ) i8i8
@lengthOf(
    // @lengthOf(
    BodyLength )
`line1
line2` , msg_type @calculatedFrom( ""CRC32""
    )
,
    }
packet a1 {
repeat i32 x  , i16
msg_type @calculatedFrom( ""it's""  ) `crlf
line`, }  packet
// a // b
// @lengthOf(
Z9_  {repeat asx
    `100% of %d` ,int ,
// " ++ [128512]%N ++ runes_of_ascii " emoji
// " ++ [27880; 37322]%N ++ runes_of_ascii "
@tag( 10) int16  Logon ,i64 roots `line1
line2` , u64 Pad@calculatedFrom(  ""\" ++ [233]%N ++ runes_of_ascii """ )	,@leftPad
// " ++ [27880; 37322]%N ++ runes_of_ascii "
// a // b
(
) @leftPad ( ' ' ) @tag(007 )
u
@calculatedFrom(""" ++ [233]%N ++ runes_of_ascii "t" ++ [233]%N ++ runes_of_ascii """ ) `
`
,
}	packet  asx {string i64_ @lengthOf( pack ) ,@tag(
10)
char[ 1 ]T  , repeat leftPad { repeat uint64 repeatCount ,
int64
// " ++ [27880; 37322]%N ++ runes_of_ascii "
// trailing space 
pack
`it's` , repeat char[ 255  ] BodyLength, } ,
// `tick` ""quote"" 'q'
//	t
@lengthOf( f32a ) calculatedFrom { roots//
,
match metadata as x_y_z
// 50% %s
// 50% %s
{
42
:metadata
[ ""\n""
,""a\\""]:As [  0,"""" ,42 , 4294967296 ,""abc"" , ""CRC32"", ""a	b"" , 007 ]
:falsey,
[
    ""a	b""
, 7 ]
: i64_// @lengthOf(
,
[ """ ++ [28040; 24687]%N ++ runes_of_ascii """
,
""{,}"" ,  65535 ,
42 , ""{,}"" ,255 ,
255
    ]: string_/// triple
,
    7 // a // b
: T }
, } , }")).
Eval vm_compute in ("<<<M4184>>>" ++ check (runes_of_ascii "
MetaData
    //x
		float
    {u8 uint8x,  
  // @lengthOf(
  	// packet A { u8 x, }
  } options
{  }

    root
    packet

T 	 /// triple
	{
    u
,
}

packet 
x_y_z	// c
	{@lengthOf(
    T) 
asx 
lengthOf

    `
`
    ,
repeat
f64
// c
    // a // b
      metadata 
,
    char[ 4294967296 ]

u8x ,
	repeat  uint8
	zchar ,// a // b
  @tag(	0123456789 
)  repeat 
i64 
_x 
, u16
    u 

// `tick` ""quote"" 'q'

,  match
roots 
as 
Header

    {

007 : 
zchar  
      // packet A { u8 x, }
	""it's""
    :rootA, [
	""it's""

    ,
	""\n""
	,  ""x y"" ,00	,

42

    , ""it's"" 
] :

    len  , 0  : Z9_ , 	 //x
    }

,

    match Logon

    as falsey 
{ 4294967296	:  T ""CRC32""

:
    u8x

    ,
[ """ ++ [28040; 24687]%N ++ runes_of_ascii """
,""1""  ,	""it's"" ,  ""a\\"",  3,	4294967296 ,
""" ++ [128512]%N ++ runes_of_ascii """ 
    // " ++ [27880; 37322]%N ++ runes_of_ascii "
// @lengthOf(
    ,
    ""CRC32""	]
: _x,
    [  ""// no comment""
,  // trailing space 
  0123456789 ,10	,	65535 ,
    """ ++ [128512]%N ++ runes_of_ascii """]

:	T ,42
:
lengthOf , 0
:

x_y_z	,
    } ,
match

    crc as
u8x
{
[

42
]	:repeatCount
    0

    : 
calculatedFrom	, }	,
	}
")).
Eval vm_compute in ("<<<M1316>>>" ++ check (runes_of_ascii "packet
    Packet {  @lengthOf(
    crc
    ) // 50% %s
repeat zchar[ 0123456789 ] charz, @lengthOf(
len )
    leftPad	x_y_z  , x{
    string a1
@lengthOf( Logon
) ,
}
,@tag( 0
    //
    ) @lengthOf(u8x )@calculatedFrom( ""it's""	) string
zchar
`` ,
}
MetaData repeatCount
    { } packet trueish { u64 o// " ++ [27880; 37322]%N ++ runes_of_ascii "
@lengthOf(
T )
    ,
repeat f64
    BodyLength , int32	x @calculatedFrom(
    ""1""
    ),
    @tag( 10) Z9_ `{ , }`
    , f32a // trailing space 
{
    //x
    repeat zchar[ 0123456789
    ] A , repeat// trailing space 
i64
stringy
    ,//
leftPad
    //x
    `tab	here`,
} ,	}//
packet
u128
{ match _x
as // " ++ [128512]%N ++ runes_of_ascii " emoji
MetaDataX {	[""x y"", 42	]
: A
    , } , // " ++ [128512]%N ++ runes_of_ascii " emoji
@lengthOf( charz) charz
    { match x_y_z
as f32a { [007,// trailing space 
10
// @lengthOf(
// `tick` ""quote"" 'q'
, 42 , """ ++ [233]%N ++ runes_of_ascii "t" ++ [233]%N ++ runes_of_ascii """
,
0123456789/// triple
]:x_y_z, 7: u128 ,""// no comment"" : repeatCount, // " ++ [128512]%N ++ runes_of_ascii " emoji
""a\\"" :	int
,""x y"":
u128 } , } , i16
chars @lengthOf(
zchar
)
`it's` ,
}	packet asx {}")).
Eval vm_compute in ("<<<M773>>>" ++ check (runes_of_ascii "  root//x
packet
Packet {match x_y_z as
    Header {[""abc"" ,
    65535, 3] :tag , 10
:
    msg_type
    ""`tick`""
: stringy 4294967296 : Pad , } ,@calculatedFrom(
""x y""
    )
    @tag(
255 ) @lengthOf(body	) zchar[ 65535 ] Pad `say ""hi""` ,@calculatedFrom(""abc"" ) char[]leftPad @calculatedFrom(""`tick`"" // `tick` ""quote"" 'q'
)`" ++ [233]%N ++ runes_of_ascii "` , }// trailing space 
packet  x_y_z { i64_ , u32 As
    @lengthOf( string_ // " ++ [128512]%N ++ runes_of_ascii " emoji
) ,@tag( 0) x_y_z
As
, @lengthOf( falsey )@calculatedFrom( ""\" ++ [233]%N ++ runes_of_ascii """)u8
    string_ , char[
    7]_x `crlf
line` ,i8 trueish
@lengthOf( x)
,
// packet A { u8 x, }
// packet A { u8 x, }
} MetaData
int { } packet As
{ @leftPad ('\x00'
)f64
trueish
    // `tick` ""quote"" 'q'
    @calculatedFrom( """ ++ [28040; 24687]%N ++ runes_of_ascii """ ) , repeat string roots /// triple
,repeat leftPad
    // @lengthOf(
    As
`" ++ [28040; 24687; 31867; 22411]%N ++ runes_of_ascii "` ,
repeat int32 As
    `// not a comment`
    ,
    @rightPad (
' ' ) @rightPad //
( ' ' )
/// triple
// @lengthOf(
char[	10] Z9_ ,}
")).
Eval vm_compute in ("<<<M3813>>>" ++ check (runes_of_ascii "options {
    crc = 42
    a1 = ""\" ++ [233]%N ++ runes_of_ascii """;
}

packet x_y_z {
    int32 u @calculatedFrom(""""),
    trueish {
        match zchar as i8i8 {
            0123456789 : int,
            [
                ""`tick`"", ""{,}"", """ ++ [28040; 24687]%N ++ runes_of_ascii """, ""// no comment"", 0,
                65535, 3
            ] : u8x,
            0123456789 : calculatedFrom,
        },
        repeat string trueish,
        matchKey {
            repeat charz,
            metadata @calculatedFrom(""it's"") `two words`,
        },
    },
    // " ++ [128512]%N ++ runes_of_ascii " emoji
    repeat string Pad,
    @calculatedFrom(""a\\"")
    @calculatedFrom(""" ++ [128512]%N ++ runes_of_ascii """)
    repeat rootA {
        f32 Logon `100% of %d`,
        zchar[4294967296] len @calculatedFrom(""// no comment""),
    },
}

packet Packet {
    msg_type,// packet A { u8 x, }
    trueish {
        roots @calculatedFrom(""a\\""),
    },
    // a // b
    // trailing space 
    repeat zchar,
    u16 i8i8,
}")).
Eval vm_compute in ("<<<M631>>>" ++ check (runes_of_ascii "root packet leftPad
    { repeat zchar[ 1 ]Foo	`crlf
line` ,i8 lengthOf  , @tag( 3) repeat repeatCount`say ""hi""` // @lengthOf(
,
    match repeatCount as BodyLength { // 50% %s
""1"" : metadata , ""1""  :
i64_ ,
[  7
    ,	""\n"" ,
""{,}"" ,	1, ""a\""b"" ]	:
i64_ , 7
: i8i8 , } , @calculatedFrom( """"
    ) u8 string_
// trailing space 
// " ++ [128512]%N ++ runes_of_ascii " emoji
@calculatedFrom( """ ++ [28040; 24687]%N ++ runes_of_ascii """) ,
float64
// @lengthOf(
//	t
Z9_ ,x {
repeat packetx
    //	t
    , int8 As// a // b
`line1
line2` ,
    u128  { //	t
char[] BodyLength @calculatedFrom(
""a\""b""  )
,
repeat x_y_z {
match options1 as charz { /// triple
42
    : int , 007 :
    float , ""x y""
: leftPad
    , [ ""\" ++ [233]%N ++ runes_of_ascii """ ,
1 ]
// packet A { u8 x, }
// `tick` ""quote"" 'q'
: lengthOf, //	t
}	,
    } ,
} ,
    uint8x `{ , }` , } , lengthOf
@lengthOf( zchar ) ,
char[]
    crc`// not a comment`  , } // @lengthOf(")).
Eval vm_compute in ("<<<M3928>>>" ++ check (runes_of_ascii "root packet  len{	// a // b
    char[ 0123456789 	 // " ++ [27880; 37322]%N ++ runes_of_ascii "
	] pack  @calculatedFrom(
    ""a\\""	) `say ""hi""`
,

    match
Header
    as trueish
    {
	[	""a\\""
	, 255,007

]:

asx,
} ,	match

    Pad 
as

Foo	// `tick` ""quote"" 'q'
{ ""\n"" :uint8x

1

    : lengthOf

, 65535 : u128 ,}	,
}packet tag
    {
	o  rootA	`` ,
	}root  packet
    tag{
uint8x , @lengthOf(
int
	)// 50% %s
	  @tag(	0
)	Pad, 

// packet A { u8 x, }
// 50% %s
    u8 
x
    , @lengthOf(
	Z9_	) 
f32 BodyLength `tab	here`
	,  repeat
char[

    255
]f32a ,
repeat

msg_type 
lengthOf

,	@leftPad
    ( '\x00' )repeat int32
	asx ,
repeat
	string

f32a ,
    @leftPad ( )  len Foo  ,	} // trailing space 
packet
uint8x{ 
calculatedFrom  
      // 50% %s
,
/// triple
// trailing space 
	}	MetaData
    asx { // c
	} ")).
Eval vm_compute in ("<<<M303>>>" ++ check (runes_of_ascii "packet matchKey {
pack { repeat i32 body
    , string
/// triple
// 50% %s
crc
    @lengthOf(
As  )
, } , @lengthOf( len )repeat f64 u// @lengthOf(
, uint8 matchKey
    ,/// triple
@lengthOf(Logon )int32
a1  `crlf
line` ,A@lengthOf( msg_type/// triple
)
,@leftPad ( ' ') asx@lengthOf( tag
    ), u32 crc
`u8 x,` ,//x
char[] Header`// not a comment`// packet A { u8 x, }
,
@rightPad (' ' ) repeat A`a\`	,
}packet repeatCount
    {  } packet lengthOf
//
// @lengthOf(
{
// a // b
// c
match As
//	t
// `tick` ""quote"" 'q'
as
    asx
{ ""CRC32"" : rootA
    ,
""a	b"" : packetx , } , }
root
    packet
matchKey {
    @leftPad (
    '\x00') uint16
trueish
    @lengthOf( i64_ ) `{ , }`
,	@lengthOf(	i64_	) int calculatedFrom ,@leftPad
    //
    ( '0' ) float64 body ,}")).
Eval vm_compute in ("<<<M3997>>>" ++ check (runes_of_ascii "options{

    LittleEndian =  false
;

    StringPrefixLenType=

u32 ;
	ArrayPrefixLenType	=
u32; 
FixedStringPadChar  =
' ' ;

    } 
packet

    Order
{

    InX16 {i64
Tail,char[ 
4
] price  , repeat 
char[
    4 ]Qty ,
    }
,InSym89 
{ int8

x, char[
8]	clOrdID ,

    i32 tag7 
,	char[  7]
venue
,

    int64

Ref  ,
}
,

zchar[

7 ] Flags ,
}

packet

Logon {  zchar[3]
sym ,  }
    packet	Leg{ InCount34

{
	char[  10]OrderId
	,

}
    ,

    } packet  Party
	{

}
root	packet

    Ack {
    repeat
Leg
,  char[

    8
]

    Flags,u8
    seqNo ,

u16
    Qty @lengthOf(  Body
) 
, match
    seqNo

as  Body {	21 
:

    Order

    ,	56 : Logon  , 
138:

    Leg

    , 
73
    :

Party
, },
}

")).
Eval vm_compute in ("<<<M3460>>>" ++ check (runes_of_ascii "options {
    LittleEndian = false;
    StringPrefixLenType = u32;
    ArrayPrefixLenType = u32;
    FixedStringPadChar = ' ';
}
packet Order {
    InX16 {
        i64 Tail,
        char[4] price,
        repeat char[4] Qty,
    },
    InSym89 {
        int8 x,
        char[8] clOrdID,
        i32 tag7,
        char[7] venue,
        int64 Ref,
    },
    zchar[7] Flags,
}
packet Logon {
    zchar[3] sym,
}
packet Leg {
    InCount34 {
        char[10] OrderId,
    },
}
packet Party {
}
root packet Ack {
    repeat Leg,
    char[8] Flags,
    u8 seqNo,
    u16 Qty @lengthOf(Body),
    match seqNo as Body {
        21 : Order,
        56 : Logon,
        138 : Leg,
        73 : Party,
    },
}
")).
Eval vm_compute in ("<<<M716>>>" ++ check (runes_of_ascii "  packet asx
{  repeat lengthOf {f32 matchKey `" ++ [28040; 24687; 31867; 22411]%N ++ runes_of_ascii "`, } , @leftPad
( ) match
a1
    as asx { [ ""\" ++ [233]%N ++ runes_of_ascii """ ,10
    , ""it's""
, ""a\\""]
/// triple
// trailing space 
: metadata ,
[
42	]:
    crc , 42 :	metadata , 10 :
// c
/// triple
_x ,} , @lengthOf( options1 )
match pack as len { 7
:
    Z9_  ,
    // packet A { u8 x, }
    0
: i64_
, 65535: u8x ,  4294967296 :
    packetx,	[
""x y""  ,
/// triple
// @lengthOf(
""packet"" , ""CRC32"", 00  ,  1,
00
    // a // b
    , ""CRC32"" ]
    :T ,
}, @rightPad (' ' )
@leftPad
    ( '\x00' )
@tag( 00
    ) i32 pack, @leftPad ('0' )	lengthOf @calculatedFrom(""\n""
)
    , uint64 float `100% of %d` , }
    // trailing space 
    options { }")).
Eval vm_compute in ("<<<M370>>>" ++ check (runes_of_ascii "root packet matchKey {packetx  { repeat
char[] _x ,}  ,repeat int32  pack
    `say ""hi""` , repeat i8i8 x , @leftPad (
'0' ) match a1 as pack { 00 :
    zchar } ,
    @tag(  007 ) repeat repeatCount
    pack , @tag(
4294967296
) repeat rootA {	Pad
    , stringy
{ T
MetaDataX
,repeat roots{repeat
char[
4294967296] float
    `it's` ,
    }  , zchar[
255 ] u128  @lengthOf( asx  )
, repeat crc
    { char[4294967296 ]stringy, } ,} ,
match
Pad
    // " ++ [128512]%N ++ runes_of_ascii " emoji
    as	options1{
007: msg_type ,
[ 7
] : Z9_ , 1 :T [""" ++ [128512]%N ++ runes_of_ascii """ ]
: zchar [ 007, 0 ] :
    BodyLength
""" ++ [128512]%N ++ runes_of_ascii """:
msg_type  , } , f32
uint8x , } // trailing space 
, }
    root //
packet falsey { }
")).
Eval vm_compute in ("<<<M3866>>>" ++ check (runes_of_ascii "MetaData pack {
    char[10] _x,
    calculatedFrom MetaDataX `" ++ [233]%N ++ runes_of_ascii "`,/// triple
    int32 pack,
    i16 lengthOf `doc`,
    a1 u ``,
    char[255] T,
}

/// triple
MetaData stringy {
    T falsey `say ""hi""`,
    char[7] leftPad `" ++ [233]%N ++ runes_of_ascii "`,
}

root packet packetx {
    char[42] u,
    i32 tag @calculatedFrom(""abc"") `" ++ [233]%N ++ runes_of_ascii "`,// " ++ [27880; 37322]%N ++ runes_of_ascii "
    u8 calculatedFrom `say ""hi""`,
    repeat _x ``,
    repeat leftPad falsey,
    i8i8 {
        string T `line1
                line2`,
    },
}

MetaData T {
    _x msg_type,
    char[007] trueish,
    char[] lengthOf `two words`,
    char[] zchar `line1
        line2`,
    metadata uint8x `" ++ [233]%N ++ runes_of_ascii "`,
    // " ++ [27880; 37322]%N ++ runes_of_ascii "
}")).
Eval vm_compute in ("<<<M3548>>>" ++ check (runes_of_ascii "MetaData x_y_z {
    // " ++ [128512]%N ++ runes_of_ascii " emoji
    char[1] Pad,
}

packet _x {
    o,//
    repeat int8 MetaDataX,
    zchar[42] Z9_,
    @leftPad('\x00')
    uint64 string_ `tab	here`,
    int16 T,
    @lengthOf(matchKey)
    char crc @lengthOf(asx),
    @rightPad('0')
    x_y_z `line1
    line2`,
}

options {
    roots = char[4294967296];
}

packet string_ {
    packetx @lengthOf(_x),
    repeatCount @calculatedFrom(""a	b""),
    // 50% %s
    // @lengthOf(
    match Header as pack {
        ""it's"" : zchar,
    },
    @lengthOf(trueish)
    @rightPad()
    @lengthOf(Z9_)
    u8 trueish,
}

MetaData T {
}
// " ++ [27880; 37322]%N)).
Eval vm_compute in ("<<<M3523>>>" ++ check (runes_of_ascii "  root
    packet	// c1
  Frame 	 // c2
{u8
K, // c6
  Logon

// c7
  	first 
        // c8
  , // c9a
	// c9b
    match 
	    // c10
	K// c11
    as // c12a
    // c12b
	Body

{
	// c14
1 	 // c15a

// c15b
  : 	 // c16
	Logon	// c17
, 2 
        // c19
    :// c20
  Logout // c21a
    // c21b
	, // c22a

// c22b
	}  // c23a
  // c23b
    ,// c24
    }
    packet  
  // c26
    Logon // c27
  { // c28a
    // c28b
      string  
      // c29
	user// c30
	,	// c31a

	// c31b

  }packet  Logout // c34
	{
    // c35
    	u16 	 // c36
  reason
    // c37

	, }")).
Eval vm_compute in ("<<<M49>>>" ++ check (runes_of_ascii "packet uint8x // 50% %s
{ char[]
crc`" ++ [233]%N ++ runes_of_ascii "`
,
u8 //x
BodyLength`crlf
line` , @tag(65535 )
@calculatedFrom( ""packet"" ) uint8x {
lengthOf
{ match
u8x as msg_type  {
    ""{,}"" : metadata
, 4294967296 : float ,10 :
a1 ,	65535 : len, """ ++ [128512]%N ++ runes_of_ascii """
: zchar ,[
""" ++ [128512]%N ++ runes_of_ascii """ ]
    :
Pad	,} , zchar[ 42 ] leftPad , f64/// triple
crc ,
    u64
A@calculatedFrom( ""CRC32"" ) , }
    , }
, @lengthOf(
crc) repeat
u128 Pad
    , stringy
    trueish`say ""hi""`
,
As matchKey  ,@tag( 10 )
    charz @calculatedFrom( ""it's"") // trailing space 
, // " ++ [128512]%N ++ runes_of_ascii " emoji
@rightPad (
' ' ) a1 float	,
}
")).
Eval vm_compute in ("<<<M339>>>" ++ check (runes_of_ascii "// a // b
packet i8i8	{}
    packet calculatedFrom
{ @calculatedFrom(  """ ++ [28040; 24687]%N ++ runes_of_ascii """ ) @lengthOf(
T
    // 50% %s
    )@rightPad ( ' '
)repeat
    chars
    // packet A { u8 x, }
    { string_
{ repeat metadata BodyLength
`tab	here` ,
char[]
    x `u8 x,`
    ,  } , uint32 lengthOf , //	t
pack options1 `100% of %d`//
, } , int64 Pad`100% of %d` , @lengthOf(tag ) repeat	uint64
falsey,
//x
// 50% %s
@leftPad
    ( '0'
)	repeat u8x
`
` , i16 options1,int
@calculatedFrom( """ ++ [28040; 24687]%N ++ runes_of_ascii """
) ,// " ++ [128512]%N ++ runes_of_ascii " emoji
char[ 1
]
T// `tick` ""quote"" 'q'
`{ , }` , }
")).
Eval vm_compute in ("<<<M4229>>>" ++ check (runes_of_ascii "MetaData asx {
    char[00] u8x,
    trueish tag `it's`,
}

root packet i64_ {
    repeat repeatCount msg_type,
    char[7] asx,
}

options {
    BodyLength = true;
}

packet x {
    @tag(1)
    @rightPad('\x00')
    // trailing space 
    @lengthOf(f32a)
    int16 pack `
    `,
    repeat char[] options1,// c
    string options1 @lengthOf(calculatedFrom) `" ++ [233]%N ++ runes_of_ascii "`,// @lengthOf(
    @tag(1)
    Packet string_,
    As {
        matchKey chars,
    },
    repeat string crc `// not a comment`,
    repeat T,
}
//x")).
Eval vm_compute in ("<<<M3793>>>" ++ check (runes_of_ascii "packet chars {
    i8i8 @calculatedFrom(""a\""b"") `
        `,
    @lengthOf(Foo)
    @lengthOf(roots)
    @tag(255)
    zchar[7] rootA @calculatedFrom("""") `" ++ [28040; 24687; 31867; 22411]%N ++ runes_of_ascii "`,
}

// packet A { u8 x, }
//x
packet u128 {
    match calculatedFrom as i64_ {
        007 : charz,
        1 : u8x,
        00 : stringy,
        ""1"" : roots,
        42 : Packet,
    },
    // " ++ [27880; 37322]%N ++ runes_of_ascii "
    //	t
    a1,
    u ``,
    @calculatedFrom(""`tick`"")
    @leftPad('0')
    repeat char[1] x,
}

options {
    Z9_ = '0';
}")).
Eval vm_compute in ("<<<M82>>>" ++ check (runes_of_ascii "options
    {f32a	= zchar[ 65535 ]	;
//	t
// trailing space 
Logon
    = // `tick` ""quote"" 'q'
""1"" x_y_z /// triple
=65535 u=
    ""// no comment""
    ; A = ""a\\""
; } //	t
root packet BodyLength { match	crc
as charz { """ ++ [128512]%N ++ runes_of_ascii """ : matchKey, 0123456789 :
T, ""it's"" // " ++ [27880; 37322]%N ++ runes_of_ascii "
: f32a,
7
// `tick` ""quote"" 'q'
// a // b
: body , [ 7 ]  : x_y_z, }
,  }
    MetaData
    string_ { len metadata `line1
line2` ,
    f64 calculatedFrom ,x_y_z x
, char[ 0123456789] Header  , }
")).
Eval vm_compute in ("<<<M829>>>" ++ check (runes_of_ascii "packet
Logon{ @lengthOf(  x ) @lengthOf( // trailing space 
Packet  )  char[ 3// @lengthOf(
] u8x ,  @lengthOf(trueish) repeat string asx, @tag(
    4294967296) packetx `say ""hi""`/// triple
,@calculatedFrom( // a // b
""{,}"" )  repeat
    i64_ ,	i64 uint8x
    `doc` ,
i64 float @lengthOf(
calculatedFrom  ) ,
// `tick` ""quote"" 'q'
// " ++ [27880; 37322]%N ++ runes_of_ascii "
@tag( //x
10 )
    match asx as body { """ ++ [128512]%N ++ runes_of_ascii """ : i8i8
, 1
    // c
    : // `tick` ""quote"" 'q'
zchar ,
}, }")).
Eval vm_compute in ("<<<M236>>>" ++ check (runes_of_ascii "packet string_ { // c
matchKey
@calculatedFrom(  ""it's""
)  , @tag( 65535
)
    char[  255
]stringy , @leftPad (' ')	@rightPad
(
'0' )  u64 leftPad
    @calculatedFrom( // trailing space 
""abc"" )
, @calculatedFrom( """ ++ [233]%N ++ runes_of_ascii "t" ++ [233]%N ++ runes_of_ascii """ ) repeat
u
    //	t
    , match
string_ as packetx {
    ""packet"" : Pad , 1
    : metadata
    ,	""`tick`"" // `tick` ""quote"" 'q'
:a1 // 50% %s
""" ++ [128512]%N ++ runes_of_ascii """ :charz ,
} , repeat zchar[
    10]	_x
,
    }
")).
Eval vm_compute in ("<<<M3598>>>" ++ check (runes_of_ascii "packet
    metadata
{  @calculatedFrom(""" ++ [128512]%N ++ runes_of_ascii """  //
	) 
    //
	repeat
chars	{

    repeat falsey o

    , int32	falsey	@calculatedFrom(
""`tick`""
)
	,}	, }

    options

{	// packet A { u8 x, }
  falsey =

""1"";
    matchKey=string

;BodyLength
	=

    ""\" ++ [233]%N ++ runes_of_ascii """

    ;	// " ++ [128512]%N ++ runes_of_ascii " emoji
    calculatedFrom=true }
packet Foo { 
_x	falsey ,
    string_ x_y_z
`two words`

,msg_type

    body  `say ""hi""`
, }
")).
Eval vm_compute in ("<<<M3854>>>" ++ check (runes_of_ascii "
packet	//	t
	len
{
	@leftPad
(  ' '	) string_
f32a

, 
// " ++ [128512]%N ++ runes_of_ascii " emoji
// 50% %s
} 
      //x
  // @lengthOf(
  MetaData As

{char[	42

    ]
	string_	`say ""hi""` ,i8	Logon
,	MetaDataX f32a

    , 
} options
{
pack

    = zchar[
42  ]	; 
x_y_z
    = zchar[ 10  ]
;int	=
	""1"" 
;

    x_y_z	=  
  // `tick` ""quote"" 'q'
	  // `tick` ""quote"" 'q'

	""packet"" matchKey
=' '

    }
")).
Eval vm_compute in ("<<<M1380>>>" ++ check (runes_of_ascii "MetaData u8x
    {  u32
metadata, } // packet A { u8 x, }
MetaData calculatedFrom
    // trailing space 
    {
    calculatedFrom repeatCount
`// not a comment` ,
roots// 50% %s
options1 , zchar[	1
] i8i8, // `tick` ""quote"" 'q'
zchar[
0123456789	] i8i8, i64 charz , u8 f32a, }  packet string_// c
{ /// triple
@calculatedFrom(
""\" ++ [233]%N ++ runes_of_ascii """
    ) repeat stringy`it's`
    , }
")).
Eval vm_compute in ("<<<M1270>>>" ++ check (runes_of_ascii "// `tick` ""quote"" 'q'
root packet
pack  { @tag(
    // " ++ [27880; 37322]%N ++ runes_of_ascii "
    4294967296)
    body
    {zchar[ 00 ] A @lengthOf( Z9_
    // @lengthOf(
    ) , repeat char[
    //
    65535
]
f32a ,	zchar[ // packet A { u8 x, }
10] //	t
matchKey@calculatedFrom(
""// no comment""
) `crlf
line`
,
body{ string
charz @calculatedFrom( ""// no comment""  ) // c
,
} ,},
}
")).
Eval vm_compute in ("<<<M4163>>>" ++ check (runes_of_ascii "root packet  u
{
	_x  @calculatedFrom(// " ++ [27880; 37322]%N ++ runes_of_ascii "
      ""// no comment"") ,  @lengthOf(  // " ++ [27880; 37322]%N ++ runes_of_ascii "
      i64_

    )  char f32a	@calculatedFrom( // 50% %s
		""`tick`""

    )

    ,	@tag(
    007
)	@lengthOf( 
a1
	)
@leftPad(	' ' ) 
	    /// triple
    f32	_x `it's`	, @tag(
65535	) zchar[
0]

i64_
	@lengthOf( 
options1 ) ,  } 
// " ++ [128512]%N ++ runes_of_ascii " emoji
")).
Eval vm_compute in ("<<<M476>>>" ++ check (runes_of_ascii "
packet // a // b
rootA
{
} options {	} MetaData body { //x
i8i8 //
A, i16 Header ,
calculatedFrom
T,	char[] packetx
`say ""hi""` ,
    Foo uint8x , int64 Header`doc`
    ,
} MetaData
packetx{ i64 string_ `say ""hi""`
    ,uint8 calculatedFrom ,
    a1
MetaDataX
,MetaDataX tag ,f64 u8x,  f64
    asx, } // `tick` ""quote"" 'q'")).
Eval vm_compute in ("<<<M189>>>" ++ check (runes_of_ascii "root
// trailing space 
// `tick` ""quote"" 'q'
packet crc
    /// triple
    {
@tag( 0123456789  ) repeat int64 o // 50% %s
,  @calculatedFrom(
    ""1"" ) match
    // trailing space 
    asx as
pack {
[ // " ++ [128512]%N ++ runes_of_ascii " emoji
0 ,255,	4294967296 , ""x y""	,
// " ++ [128512]%N ++ runes_of_ascii " emoji
// packet A { u8 x, }
""x y""
    , 42 ] : u8x,
    },
}")).
Eval vm_compute in ("<<<M4147>>>" ++ check (runes_of_ascii "packet falsey {
    match x_y_z as Z9_ {
        ""CRC32"" : metadata,
        ""CRC32"" : u,
        10 : Logon,
        ""it's"" : repeatCount,
        7 : options1,
    },
    @calculatedFrom(""a\\"")
    zchar[0] zchar @calculatedFrom(""a\\"") `say ""hi""`,
}

MetaData matchKey {
    u32 matchKey `doc`,
}")).
Eval vm_compute in ("<<<M4170>>>" ++ check (runes_of_ascii "MetaData T {
    float32 pack ``,
    i64_ i64_ `" ++ [233]%N ++ runes_of_ascii "`,
    Packet o,
    //	t
    //
    i64_ Logon,
    As A,//
}

packet a1 {
    @tag(0123456789)
    match lengthOf as As {
        ""a\\"" : repeatCount,
        """ ++ [128512]%N ++ runes_of_ascii """ : x,
        [65535, 42] : roots,
        [10, 0] : lengthOf,
    },
}")).
Eval vm_compute in ("<<<M935>>>" ++ check (runes_of_ascii "
root
    packet BodyLength	{ @tag(	65535 )
zchar[
7]	msg_type, MetaDataX
    @calculatedFrom(
    ""// no comment"" )
    ,
// packet A { u8 x, }
// c
} root packet
    stringy {@tag(00 ) repeat pack leftPad // packet A { u8 x, }
`tab	here`
,repeat body ,  }MetaData a1 {  }")).
Eval vm_compute in ("<<<M1619>>>" ++ check (runes_of_ascii "// 50% %s
packet	a1
    { zchar[
// a // b
// 50% %s
007]
T `it's`
    ,@rightPad
    // a // b
    (
'\x00')
    o repeatCount , }  packet Logon {  repeat packet	Logon //x
{ repeat // " ++ [128512]%N ++ runes_of_ascii " emoji
uint16 u128
    //
    `a\`,
falsey
@calculatedFrom(""packet"" ) ,
    } 	 ")).
Eval vm_compute in ("<<<M1547>>>" ++ check (runes_of_ascii "// 50% %s
packet	a1
    { zchar[
// a // b
// 50% %s
007]
T T `it's`
    ,@rightPad
    // a // b
    (
'\x00')
    o repeatCount , }  packet Logon {  }packet	Logon //x
{ repeat // " ++ [128512]%N ++ runes_of_ascii " emoji
uint16 u128
    //
    `a\`,
falsey
@calculatedFrom(""packet"" ) ,
    } 	 ")).
Eval vm_compute in ("<<<M1701>>>" ++ check (runes_of_ascii "// 50% %s
packet	a1
    { zchar[
// a // b
// 50% %s
007]
T `it's`
    ,@rightPad
    // a // b
    (
'\x00'%)
    o repeatCount , }  packet Logon {  }packet	Logon //x
{ repeat // " ++ [128512]%N ++ runes_of_ascii " emoji
uint16 u128
    //
    `a\`,
falsey
@calculatedFrom(""packet"" ) ,
    } 	 ")).
Eval vm_compute in ("<<<M1658>>>" ++ check (runes_of_ascii "// 50% %s
packet	a1
    { zchar[
// a // b
// 50% %s
007]
T `it's`
    ,@rightPad
    // a // b
    (
'\x00')
    o repeatCount , }  packet Logon {  }packet	Logon //x
{ repeat // " ++ [128512]%N ++ runes_of_ascii " emoji
uint16 u128
    //
    `a\`falsey
,
@calculatedFrom(""packet"" ) ,
    } 	 ")).
Eval vm_compute in ("<<<M130>>>" ++ check (runes_of_ascii "
options
    { falsey = '0'
} options {i8i8=u16
    ; roots = zchar[
65535 ] ; roots // @lengthOf(
= ""abc"" } //
MetaData asx{ f32a u8x
`it's` , float32 // @lengthOf(
falsey , options1 lengthOf`// not a comment`
,
// trailing space 
// packet A { u8 x, }
}
")).
Eval vm_compute in ("<<<M1621>>>" ++ check (runes_of_ascii "// 50% %s
packet	a1
    { zchar[
// a // b
// 50% %s
007]
T `it's`
    ,@rightPad
    // a // b
    (
'\x00')
    o repeatCount , }  packet Logon {  }	Logon //x
{ repeat // " ++ [128512]%N ++ runes_of_ascii " emoji
uint16 u128
    //
    `a\`,
falsey
@calculatedFrom(""packet"" ) ,
    } 	 ")).
Eval vm_compute in ("<<<M3769>>>" ++ check (runes_of_ascii "options { 
float= 7 
; }root packet
	packetx {repeat Foo 
    // " ++ [128512]%N ++ runes_of_ascii " emoji
// packet A { u8 x, }
  , 
repeat

// a // b
// packet A { u8 x, }

uint32	//	t
As 
, @rightPad ( '0'

    )string_

    As	`// not a comment`
,zchar[
7 ]
    Z9_ ,
	}

")).
Eval vm_compute in ("<<<M484>>>" ++ check (runes_of_ascii "root packet
lengthOf {@calculatedFrom( ""\n"" ) @leftPad
    ( '\x00'  ) @tag(65535 ) repeat lengthOf {repeat uint8 Z9_
, repeat  f32
BodyLength`crlf
line`
    , repeat i8i8 ,
    // packet A { u8 x, }
    pack
    BodyLength ,
    } , }
")).
Eval vm_compute in ("<<<M3359>>>" ++ check (runes_of_ascii "// top
options // c0
{ // c1
LittleEndian =
    // c3
true // c4a
  // c4b
; // c5
} // c6
root packet // c8a
  // c8b
P // c9a
  // c9b
{ repeat // c11a
  // c11b
char
    // c12
cs
    // c13
, u8 x , // c17a
  // c17b
} // c18
")).
Eval vm_compute in ("<<<M475>>>" ++ check (runes_of_ascii "packet pack	{ i32
    _x `" ++ [28040; 24687; 31867; 22411]%N ++ runes_of_ascii "` , u8x {
    //
    i8 a1 ,}
    , @calculatedFrom( ""a\""b""
)
    @tag(255
    // @lengthOf(
    )@calculatedFrom(	""" ++ [28040; 24687]%N ++ runes_of_ascii """
// " ++ [128512]%N ++ runes_of_ascii " emoji
// c
) i32 Logon  ,} options { metadata =	""" ++ [28040; 24687]%N ++ runes_of_ascii """} /// triple")).
Eval vm_compute in ("<<<M4376>>>" ++ check (runes_of_ascii "packet Pad {
    repeat i32 Z9_,
}

MetaData u8x {
    // " ++ [128512]%N ++ runes_of_ascii " emoji
    msg_type Logon `a\`,
}

MetaData Pad {
    //	t
}

options {
    body = 4294967296;
    a1 = 42;
    asx = '\x00';
    //
    // @lengthOf(
}")).
Eval vm_compute in ("<<<M3568>>>" ++ check (runes_of_ascii "root packet roots {
    repeat stringy uint8x,
    repeatCount {
        char metadata @lengthOf(_x) `crlf
        line`,
        //
        repeatCount {
            char msg_type,
        },
    },
}")).
Eval vm_compute in ("<<<M742>>>" ++ check (runes_of_ascii "root
packet i64_ {  u8
Logon ,asx
@lengthOf( calculatedFrom ) `two words`
, @rightPad ('\x00' ) @tag(4294967296 ) @leftPad ( )u32 roots
    , repeat
    // " ++ [128512]%N ++ runes_of_ascii " emoji
    char[
65535 ] Foo , }
")).
Eval vm_compute in ("<<<M621>>>" ++ check (runes_of_ascii "
options { falsey
//	t
// packet A { u8 x, }
=  ""a	b"" T =// c
true
} options {
    u8x =false ;float =char[] /// triple
;Header= true
    msg_type
    =int8 ;
tag =3 ; // " ++ [128512]%N ++ runes_of_ascii " emoji
}")).
Eval vm_compute in ("<<<M1175>>>" ++ check (runes_of_ascii "
packet
    rootA
{ repeat Packet BodyLength `line1
line2` // " ++ [27880; 37322]%N ++ runes_of_ascii "
,
    i32 float , x_y_z
    `" ++ [233]%N ++ runes_of_ascii "` , }packet //	t
msg_type{ // a // b
char[]rootA @lengthOf(
    Z9_ ),  }
")).
Eval vm_compute in ("<<<M3446>>>" ++ check (runes_of_ascii "packet

u128 
{ 
u8
a	,
} root
packet Msg
	{

u8
	k ,
	u24{
    u8
	Hi,	u16 Lo	, }
    , repeat
i24 {  u32 q
    ,}
	,
	u128	, u16
	float32x

,string 
s	,

    } ")).
Eval vm_compute in ("<<<M597>>>" ++ check (runes_of_ascii "packet calculatedFrom
{ }
    MetaData Z9_{
int8 Packet `100% of %d`
    ,
    }
    MetaData T {
i8i8
    u128 `crlf
line`
    ,
zchar[ 10
] asx `u8 x,` , }")).
Eval vm_compute in ("<<<M3384>>>" ++ check (runes_of_ascii "  options{

    LittleEndian= true ;	}
packet	B

{ u8  a
,string
	s  ,
}
root 
packet
    P{u16  L @lengthOf(
	B
)

    ,
    B

    ,

u8 
t , }
")).
Eval vm_compute in ("<<<M1972>>>" ++ check (runes_of_ascii "
packet leftPad {
@leftPad( '0')
u32
i64_ `100% of %d` `100% of %d` ,repeat// 50% %s
i8 chars
    ,
} MetaData
    f32a
{ // packet A { u8 x, }
}")).
Eval vm_compute in ("<<<M2118>>>" ++ check (runes_of_ascii "MetaData BodyLength
{ int8 Foo
, string
    MetaDataX , float zchar ,pack options1
' 'asx string_, }
packet u8x {Foo@lengthOf(charz )
`" ++ [28040; 24687; 31867; 22411]%N ++ runes_of_ascii "`,  }
")).
Eval vm_compute in ("<<<M2201>>>" ++ check (runes_of_ascii "MetaData BodyLength
{ int8 Foo
, string
    MetaDataX , float zchar ,pack options1
,asx string_, }
packet u8x {Foo@lengthOf(charz %)
`" ++ [28040; 24687; 31867; 22411]%N ++ runes_of_ascii "`,  }
")).
Eval vm_compute in ("<<<M2137>>>" ++ check (runes_of_ascii "MetaData BodyLength
{ int8 Foo
, string
    MetaDataX , float zchar ,pack options1
,asx string_, packet
} u8x {Foo@lengthOf(charz )
`" ++ [28040; 24687; 31867; 22411]%N ++ runes_of_ascii "`,  }
")).
Eval vm_compute in ("<<<M2185>>>" ++ check (runes_of_ascii "MetaData BodyLength
{ int8 Foo
, string
    MetaDataX , float zchar ,pack options1
,asx string_, }
packet u8x {Foo@lengthOf(charz )
`" ++ [28040; 24687; 31867; 22411]%N ++ runes_of_ascii "`,  
")).
Eval vm_compute in ("<<<M2065>>>" ++ check (runes_of_ascii "MetaData BodyLength
{ int8 
, string
    MetaDataX , float zchar ,pack options1
,asx string_, }
packet u8x {Foo@lengthOf(charz )
`" ++ [28040; 24687; 31867; 22411]%N ++ runes_of_ascii "`,  }
")).
Eval vm_compute in ("<<<M3804>>>" ++ check (runes_of_ascii "packet A {
    match k as n {
        [
            1, ""bb"", 007, ""d"", 5,
            ""f"", 7, ""h"", 9
        ] : B,
        2 : C,
    },
}")).
Eval vm_compute in ("<<<M2022>>>" ++ check (runes_of_ascii "
packet leftPad {
@leftPad( '0')
u32
i64_ `100% of %d` ,repeat// 50% %s
i8 chars
    ,
} MetaData
    f32a
{ // packet A { u8 x, }
} }")).
Eval vm_compute in ("<<<M1994>>>" ++ check (runes_of_ascii "
packet leftPad {
@leftPad( '0')
u32
i64_ `100% of %d` ,repeat// 50% %s
i8 uint64
    ,
} MetaData
    f32a
{ // packet A { u8 x, }
}")).
Eval vm_compute in ("<<<M1949>>>" ++ check (runes_of_ascii "
packet leftPad {
@leftPad{ '0')
u32
i64_ `100% of %d` ,repeat// 50% %s
i8 chars
    ,
} MetaData
    f32a
{ // packet A { u8 x, }
}")).
Eval vm_compute in ("<<<M2265>>>" ++ check (runes_of_ascii "options
    {
x_y_z// " ++ [27880; 37322]%N ++ runes_of_ascii "
= 10 ; }
packet body {
    @calculatedFrom(
// trailing space 
// " ++ [27880; 37322]%N ++ runes_of_ascii "
)
""1""	match T as Foo
    {
255 :T , }
,}")).
Eval vm_compute in ("<<<M2160>>>" ++ check (runes_of_ascii "MetaData BodyLength
{ int8 Foo
, string
    MetaDataX , float zchar ,pack options1
,asx string_, }
packet u8x {Foo charz )
`" ++ [28040; 24687; 31867; 22411]%N ++ runes_of_ascii "`,  }
")).
Eval vm_compute in ("<<<M2283>>>" ++ check (runes_of_ascii "options
    {
x_y_z// " ++ [27880; 37322]%N ++ runes_of_ascii "
= 10 ; }
packet body {
    @calculatedFrom(
// trailing space 
// " ++ [27880; 37322]%N ++ runes_of_ascii "
""1""
)	match T  Foo
    {
255 :T , }
,}")).
Eval vm_compute in ("<<<M2414>>>" ++ check (runes_of_ascii "MetaData
    calculatedFrom
{ zchar[  10 ]
    As`tab	here`,
    }// trailing space 
options  { roots ='\x00' ; f32 packet A
{ }
")).
Eval vm_compute in ("<<<M2420>>>" ++ check (runes_of_ascii "MetaData
    calculatedFrom
{ zchar[  10 ]
    As`tab	here`,
    }// trailing space 
options  { roots =; '\x00' } packet A
{ }
")).
Eval vm_compute in ("<<<M4319>>>" ++ check (runes_of_ascii "
MetaData 
//
      options1  {
pack
string_
,i8

Header ,

float64
	o
, }root
	packet u8x{
    // " ++ [27880; 37322]%N ++ runes_of_ascii "
      // a // b
	} ")).
Eval vm_compute in ("<<<M1830>>>" ++ check (runes_of_ascii "packet packet o {
    roots `it's`
// trailing space 
//x
, char[ 42
    ]  A, // " ++ [27880; 37322]%N ++ runes_of_ascii "
f64
repeatCount
    `crlf
line`
,}")).
Eval vm_compute in ("<<<M1231>>>" ++ check (runes_of_ascii "options { lengthOf = ""`tick`"";repeatCount = 3 ;
    metadata  =
    255	;	i64_	= ' '
    // packet A { u8 x, }
    }
")).
Eval vm_compute in ("<<<M3543>>>" ++ check (runes_of_ascii "root packet MetaDataX {
    @calculatedFrom(""CRC32"")
    @calculatedFrom("""")
    int64 Pad @lengthOf(u128) `" ++ [28040; 24687; 31867; 22411]%N ++ runes_of_ascii "`,
}")).
Eval vm_compute in ("<<<M1849>>>" ++ check (runes_of_ascii "packet o {
    roots ,
// trailing space 
//x
`it's` char[ 42
    ]  A, // " ++ [27880; 37322]%N ++ runes_of_ascii "
f64
repeatCount
    `crlf
line`
,}")).
Eval vm_compute in ("<<<M4139>>>" ++ check (runes_of_ascii "packet matchKey {
    @calculatedFrom(""// no comment"")
    repeat rootA,// a // b
    body ``,
}

packet u128 {
}")).
Eval vm_compute in ("<<<M3834>>>" ++ check (runes_of_ascii "

  packet 
A{ u16  // a
      len 	 // b
    @lengthOf( 	 // c

  body  // d
    )	// e
`d` 	 // f
    ,

}

")).
Eval vm_compute in ("<<<M3621>>>" ++ check (runes_of_ascii "

  packet
pack
{  repeat  charz,
@leftPad
    (

) roots
    @lengthOf( 
Packet  )
	`it's`
    ,  //	t

} ")).
Eval vm_compute in ("<<<M1279>>>" ++ check (runes_of_ascii "packet
leftPad //x
{
T `u8 x,` ,
x @calculatedFrom(""1"")
// a // b
// trailing space 
`` , // " ++ [128512]%N ++ runes_of_ascii " emoji
}")).
Eval vm_compute in ("<<<M4321>>>" ++ check (runes_of_ascii "options {
}

packet roots {
    leftPad falsey,
    char[1] u8x,
    crc {
        charz asx,
    },
}")).
Eval vm_compute in ("<<<M827>>>" ++ check (runes_of_ascii "options
    {	pack= ""`tick`"" ; pack
    =
    0123456789 i64_ = // `tick` ""quote"" 'q'
zchar[ 42]}
")).
Eval vm_compute in ("<<<M3379>>>" ++ check (runes_of_ascii "packet B {
    u8 a,
    string s,
}
root packet P {
    u16 L @lengthOf(B),
    B,
    u8 t,
}
")).
Eval vm_compute in ("<<<M4026>>>" ++ check (runes_of_ascii "
packet
	repeatCount 	 //	t

{@calculatedFrom(""a\""b""  )
int16
	A

, }
options{u8x
=' '
;
} ")).
Eval vm_compute in ("<<<M1440>>>" ++ check (runes_of_ascii "packet
T
{ match repeatCount char	calculatedFrom
{ [65535 ]	: As	,
} ,}
// trailing space 
")).
Eval vm_compute in ("<<<M1509>>>" ++ check (runes_of_ascii "packet
T
{ match repeatCount as	calculatedFrom
{ [?65535 ]	: As	,
} ,}
// trailing space 
")).
Eval vm_compute in ("<<<M1479>>>" ++ check (runes_of_ascii "packet
T
{ match repeatCount as	calculatedFrom
{ [65535 ]	: As	}
, ,}
// trailing space 
")).
Eval vm_compute in ("<<<M1761>>>" ++ check (runes_of_ascii "options{  lengthOf =//x
i16;
    BodyLength = 0 ; pack pack
= false;
    A = char[ 3 ] }")).
Eval vm_compute in ("<<<M1827>>>" ++ check (runes_of_ascii "options{  lengthOf =//x
i16;
    BodyLength = 0 ; pack
= false;
    " ++ [252]%N ++ runes_of_ascii "ber = char[ 3 ] }")).
Eval vm_compute in ("<<<M2941>>>" ++ check (runes_of_ascii "packet A {
  match k as n {
    [""a"", 22, ""c c"", 4, ""e"", 66, ""g""] : B
    2 : C
  },
}")).
Eval vm_compute in ("<<<M1515>>>" ++ check (runes_of_ascii "packet
T
{ match na" ++ [239]%N ++ runes_of_ascii "ve as	calculatedFrom
{ [65535 ]	: As	,
} ,}
// trailing space 
")).
Eval vm_compute in ("<<<M1725>>>" ++ check (runes_of_ascii "options{  lengthOf //x
i16;
    BodyLength = 0 ; pack
= false;
    A = char[ 3 ] }")).
Eval vm_compute in ("<<<M645>>>" ++ check (runes_of_ascii "root packet
    _x {  zchar[ 10 ] A `tab	here`
    // `tick` ""quote"" 'q'
    , }
")).
Eval vm_compute in ("<<<M285>>>" ++ check (runes_of_ascii "// `tick` ""quote"" 'q'
MetaData
string_ { uint8
asx
    ,
    string A //	t
, }
")).
Eval vm_compute in ("<<<M3259>>>" ++ check (runes_of_ascii "MetaData Foo { zchar[ 0 ] matchKey , // c
} options { lengthOf = i32 u = 00 ; }")).
Eval vm_compute in ("<<<M3566>>>" ++ check (runes_of_ascii "

  packet i8i8
{	repeat 
    // " ++ [128512]%N ++ runes_of_ascii " emoji
    char //x
		int

, 

// " ++ [27880; 37322]%N ++ runes_of_ascii "
	  } ")).
Eval vm_compute in ("<<<M2922>>>" ++ check (runes_of_ascii "packet A {
  match k as n {
    [1, 22, 007, 4, 5, 66] : B
    2 : C
  },
}")).
Eval vm_compute in ("<<<M1794>>>" ++ check (runes_of_ascii "options{  lengthOf =//x
i16;
    BodyLength = 0 ; pack
= false;
    A =")).
Eval vm_compute in ("<<<M1260>>>" ++ check (runes_of_ascii "// 50% %s
options
    // c
    {
    f32a = '\x00' ; lengthOf = ' ' ;}")).
Eval vm_compute in ("<<<M2959>>>" ++ check (runes_of_ascii "packet A { Inner { match k as n { [1,22,007,4,5,66,7,8] : B, }, }, }")).
Eval vm_compute in ("<<<M3037>>>" ++ check (runes_of_ascii "packet A {
    B b `a

b`,
    B `a

b`,
    repeat B bs `a

b`,
}")).
Eval vm_compute in ("<<<M786>>>" ++ check (runes_of_ascii "MetaData Packet
{ Z9_ zchar , Packet falsey
,
    //x
    } 	 ")).
Eval vm_compute in ("<<<M1005>>>" ++ check (runes_of_ascii "// " ++ [128512]%N ++ runes_of_ascii " emoji
packet
tag { @leftPad(
) repeat
u64 metadata ,  }
")).
Eval vm_compute in ("<<<M3528>>>" ++ check (runes_of_ascii "options	{rootA
=""abc"" /// triple
	  ;  pack  = false ;
	}

")).
Eval vm_compute in ("<<<M4005>>>" ++ check (runes_of_ascii "root

    packet
	u128 {
chars
`doc`
	,

    }	// c
 
")).
Eval vm_compute in ("<<<M3952>>>" ++ check (runes_of_ascii "  packet

x_y_z{ As
@lengthOf(

repeatCount

    ),
} ")).
Eval vm_compute in ("<<<M544>>>" ++ check (runes_of_ascii "packet int { uint16  msg_type
, }
packet trueish { }
")).
Eval vm_compute in ("<<<M2798>>>" ++ check (runes_of_ascii "uint8 } ""abc"" } o true u16 ""a\\"" i16 match ""1"" 255")).
Eval vm_compute in ("<<<M342>>>" ++ check (runes_of_ascii "/// triple
options { BodyLength =
    007
; }

")).
Eval vm_compute in ("<<<M2257>>>" ++ check (runes_of_ascii "options
    {
x_y_z// " ++ [27880; 37322]%N ++ runes_of_ascii "
= 10 ; }
packet body")).
Eval vm_compute in ("<<<M2739>>>" ++ check (runes_of_ascii "{ u64 roots char[ { false `crlf
line` body")).
Eval vm_compute in ("<<<M3060>>>" ++ check (runes_of_ascii "packet A {
    u8 x `100% of %s %d %v`,
}")).
Eval vm_compute in ("<<<M433>>>" ++ check (runes_of_ascii "packet u8x
    {} // packet A { u8 x, }")).
Eval vm_compute in ("<<<M1970>>>" ++ check (runes_of_ascii "
packet leftPad {
@leftPad( '0')
u32")).
Eval vm_compute in ("<<<M2680>>>" ++ check (runes_of_ascii "options { a = 1; } options { a = 1; }")).
Eval vm_compute in ("<<<M3873>>>" ++ check (runes_of_ascii "options {
    u8x = false
    // c
}")).
Eval vm_compute in ("<<<M2375>>>" ++ check (runes_of_ascii "MetaData
Foo {Header //
pack 	} 	 ")).
Eval vm_compute in ("<<<M374>>>" ++ check (runes_of_ascii "packet len
    { repeat  int ,}
")).
Eval vm_compute in ("<<<M1148>>>" ++ check (runes_of_ascii "options
{ o = '0' // c
} // " ++ [27880; 37322]%N)).
Eval vm_compute in ("<<<M3104>>>" ++ check (runes_of_ascii "packet A {
 u8 x `d" ++ [160]%N ++ runes_of_ascii "`, // c" ++ [160]%N ++ runes_of_ascii "
}")).
Eval vm_compute in ("<<<M3808>>>" ++ check (runes_of_ascii "MetaData MetaDataX {
    //
}")).
Eval vm_compute in ("<<<M1097>>>" ++ check (runes_of_ascii "
MetaData  o { }
// a // b
")).
Eval vm_compute in ("<<<M2602>>>" ++ check (runes_of_ascii "packet A { x @leftPad(), }")).
Eval vm_compute in ("<<<M1300>>>" ++ check (runes_of_ascii "root packet metadata{ }
")).
Eval vm_compute in ("<<<M4208>>>" ++ check (runes_of_ascii "

  packet
A {}
// c" ++ [12288]%N ++ runes_of_ascii "
")).
Eval vm_compute in ("<<<M2710>>>" ++ check ([26; 65533; 14]%N ++ runes_of_ascii "c<" ++ [65533; 65533]%N ++ runes_of_ascii "d<>C" ++ [65533]%N ++ runes_of_ascii "V" ++ [600]%N ++ runes_of_ascii "P" ++ [1; 29]%N ++ runes_of_ascii "M/" ++ [65533; 65533]%N)).
Eval vm_compute in ("<<<M927>>>" ++ check (runes_of_ascii "
packet float
{
}
")).
Eval vm_compute in ("<<<M2667>>>" ++ check (runes_of_ascii "options { a = b; }")).
Eval vm_compute in ("<<<M3153>>>" ++ check (runes_of_ascii "// c" ++ [12]%N ++ runes_of_ascii "
packet A {
}")).
Eval vm_compute in ("<<<M3095>>>" ++ check (runes_of_ascii "packet A {
}// c" ++ [12288]%N)).
Eval vm_compute in ("<<<M2669>>>" ++ check (runes_of_ascii "options { = 1; }")).
Eval vm_compute in ("<<<M2699>>>" ++ check (runes_of_ascii ".ykz<,`h_Jksz;")).
Eval vm_compute in ("<<<M78>>>" ++ check (runes_of_ascii "options
{ }")).
Eval vm_compute in ("<<<M2750>>>" ++ check (runes_of_ascii "G3.A's7ff")).
Eval vm_compute in ("<<<M2499>>>" ++ check (runes_of_ascii "@tag(1)")).
Eval vm_compute in ("<<<M698>>>" ++ check (runes_of_ascii "// c
")).
Eval vm_compute in ("<<<M3111>>>" ++ check (runes_of_ascii "// c" ++ [5760]%N)).
Eval vm_compute in ("<<<M2550>>>" ++ check (runes_of_ascii "[[]]")).
Eval vm_compute in ("<<<M2551>>>" ++ check (runes_of_ascii "a	b")).
Eval vm_compute in ("<<<M2692>>>" ++ check (runes_of_ascii "		")).
