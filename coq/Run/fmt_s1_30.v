From FP Require Import Lexer Parser ShowPT Digest Formatter.
From Coq Require Import String List NArith.
Import ListNotations.
Open Scope string_scope.
Set Printing Width 100000000.
Set Printing Depth 100000000.
Definition show_fres (r : fres) : string :=
  match r with
  | FOk s => "OK:" ++ sh_escaped s ""
  | FErr s => "ERR:" ++ sh_escaped s ""
  | FPanic p => "PANIC:" ++ p
  end.
Definition check (rs : list rune) : string := digest (show_fres (format_res rs)).
Definition full (rs : list rune) : string := show_fres (format_res rs).
Eval vm_compute in ("<<<M3871>>>" ++ check (runes_of_ascii "  MetaData
leftPad{Header

    falsey,}
    packet
x_y_z {	@calculatedFrom(
""`tick`""  )
    @rightPad	// `tick` ""quote"" 'q'
	('\x00'	)

match 
matchKey as
    As
    { [

""CRC32"",""\n""]	/// triple
	:

    Logon
,
    [ 007	,""" ++ [28040; 24687]%N ++ runes_of_ascii """ 
,""" ++ [28040; 24687]%N ++ runes_of_ascii """,  """ ++ [128512]%N ++ runes_of_ascii """
    ,0123456789  ]

:  //	t
	x
[
1

    ]: /// triple
	i8i8 ,""`tick`"" :  u8x

    ,
	} ,int64	_x
    `tab	here`
    // trailing space 
		,@rightPad (
    )  char[	255

] uint8x `a\`	, 
string	string_ //x
  ,
    repeat	int16  packetx ,	// " ++ [27880; 37322]%N ++ runes_of_ascii "
  @rightPad(

    ' '
) string string_
    ,i16
	asx @lengthOf(
        // " ++ [128512]%N ++ runes_of_ascii " emoji
      // trailing space 
int)  `// not a comment` ,  float32 uint8x ,
	i8	i64_
@calculatedFrom( 
""\n""
    ) 
	// packet A { u8 x, }
    	,}
    packet
    T{ string_ 
// a // b
    // @lengthOf(
@lengthOf(A )
`{ , }`

,@calculatedFrom(
    """" ) 
match Pad as
u
{	[ ""1"" 	 // " ++ [128512]%N ++ runes_of_ascii " emoji
  ,""1""  ]  :
body
    ,[
0123456789,	""a\\""
,

    /// triple
  // trailing space 
""" ++ [128512]%N ++ runes_of_ascii """, ""it's""
	, ""it's""]:
    lengthOf ,
	""" ++ [128512]%N ++ runes_of_ascii """ :
    A, [  0123456789

// c
	/// triple
	, 3 ] :rootA
	,
    4294967296
    :
rootA } ,
    string

    metadata@lengthOf(
A	) 

// packet A { u8 x, }
, @lengthOf( msg_type
    )
@rightPad(
' ' 
) @rightPad

    (
)
f64

u128

@lengthOf(

    rootA
    /// triple
  	// @lengthOf(
    ) `{ , }`
	,

}
packet int 
{@tag(
255 
	// a // b
    )

@rightPad	( ' '  )repeat
    char[ 10 
] u128
    ,
@calculatedFrom(
    ""\" ++ [233]%N ++ runes_of_ascii """
    )
    char[
007
    ]
calculatedFrom ,

    @rightPad  (
    '\x00'  )repeat  zchar[ 
007
	] 
i8i8  ,
@calculatedFrom( ""// no comment"" ) char[]	x_y_z
,
zchar[ 

// trailing space 
	  0123456789 ] 
msg_type@calculatedFrom(  ""a\""b""
	)

    ,

    u8

f32a

    @lengthOf(
rootA )

    `crlf
line`

, zchar[
    7// " ++ [128512]%N ++ runes_of_ascii " emoji
    	]
	msg_type

@lengthOf(Header

    ) `// not a comment`
	,char[42]roots  `" ++ [233]%N ++ runes_of_ascii "` //

, @lengthOf(
    stringy

    ) @lengthOf(As
)

    // trailing space 
// " ++ [128512]%N ++ runes_of_ascii " emoji
		zchar[7
	] msg_type // " ++ [128512]%N ++ runes_of_ascii " emoji
`{ , }` ,

    }
root packet

u
    { 	 // c
  repeat uint64 As 
,
    }")).
Eval vm_compute in ("<<<M271>>>" ++ check (runes_of_ascii "// " ++ [27880; 37322]%N ++ runes_of_ascii "
options
    {
zchar // a // b
= ""x y""
; options1 = u16
;} packet
Pad{ Z9_@calculatedFrom(
"""")`
` , @tag( 42
    ) //
@tag( 00 ) @lengthOf( zchar	) match _x// packet A { u8 x, }
as metadata	{
007: As ""`tick`""// packet A { u8 x, }
: lengthOf,255 :lengthOf ""a	b""
// trailing space 
// " ++ [27880; 37322]%N ++ runes_of_ascii "
:
Packet 255: a1
    , // c
[ 00 ,
    0 , 10 ,	""a\\"" , ""it's"" ,
10, 7	]
: Foo , }
    , match Header
as  o{
[// packet A { u8 x, }
255 ]
    : zchar ,0123456789 :leftPad
    [	007	, 3 ] : leftPad , // c
0: packetx
, } , } MetaData
    Pad { // packet A { u8 x, }
} packet T
    // packet A { u8 x, }
    {
    // " ++ [27880; 37322]%N ++ runes_of_ascii "
    charz
    @lengthOf(asx) `` , }
packet
matchKey
{  @tag( 3
) @calculatedFrom( ""a	b""
/// triple
// c
)
@calculatedFrom("""" ) pack	rootA
    ,  repeat //	t
leftPad `` , repeat uint32 Foo `u8 x,` , @calculatedFrom(
""" ++ [233]%N ++ runes_of_ascii "t" ++ [233]%N ++ runes_of_ascii """) repeat char[ 65535 ] u , @lengthOf( _x )@lengthOf( u8x ) repeat zchar[ 0123456789 ] x
, match i64_ // " ++ [27880; 37322]%N ++ runes_of_ascii "
as falsey{ // trailing space 
255 :
f32a , ""{,}"" : x ,""\" ++ [233]%N ++ runes_of_ascii """	: matchKey
,
[	"""",
    // trailing space 
    ""{,}"" ,
    10 , """ ++ [128512]%N ++ runes_of_ascii """
// a // b
// packet A { u8 x, }
, ""a	b"", 0
,
""1"",65535
]: len , ""\" ++ [233]%N ++ runes_of_ascii """ :
    T
, [ ""CRC32"" ,
    // " ++ [128512]%N ++ runes_of_ascii " emoji
    1 , ""// no comment""
, 007,1 ,	""`tick`"", """ ++ [128512]%N ++ runes_of_ascii """
]// packet A { u8 x, }
: a1  },match
x as
As
{
    ""a	b"":	o , 007
:MetaDataX  ,  [
""a	b""
]:
falsey , ""// no comment""
    : Z9_""packet"":
    _x
    // " ++ [128512]%N ++ runes_of_ascii " emoji
    , },repeat rootA {	uint8 MetaDataX
    @calculatedFrom(
    ""abc""
    ) ,
    match // `tick` ""quote"" 'q'
int as// a // b
asx {	[10	,
10 , ""`tick`""  , 00 , 4294967296 ]
    :
    o ,
    ""CRC32"" :
string_ , [ 0
]
:	roots 65535 :
// " ++ [27880; 37322]%N ++ runes_of_ascii "
// trailing space 
_x //
, ""it's"" : Pad, 4294967296 : Pad , }
,	u16	chars
`line1
line2`
, //x
}
    ,
}")).
Eval vm_compute in ("<<<M1092>>>" ++ check (runes_of_ascii "packet	crc {Logon  {u64 Z9_
// " ++ [27880; 37322]%N ++ runes_of_ascii "
// c
@lengthOf(A
) , f64 int,//
match BodyLength as MetaDataX // a // b
{
""" ++ [28040; 24687]%N ++ runes_of_ascii """ :
msg_type ,00 :
falsey, 00 :
tag // @lengthOf(
,
""it's"": options1, 007
    //	t
    : len ,65535 :
    falsey , } ,	repeat char[] int  ,//x
}, }
root packet	repeatCount { }packet BodyLength{
stringy // trailing space 
{	len	`
`,
    }
    ,  repeat i32 int // a // b
,
match Foo as crc
// trailing space 
/// triple
{
0: i8i8, 3 : // " ++ [27880; 37322]%N ++ runes_of_ascii "
chars
,
}
,repeat  x  { zchar[
007 ]
    chars
,
    repeat chars
    // " ++ [27880; 37322]%N ++ runes_of_ascii "
    {
repeat stringy {x_y_z u128 , string options1 `two words`
, char[  0123456789
]body
    `crlf
line` ,  repeat int32 i64_
, } ,
char[ //x
42]
crc
, Pad
    `tab	here` , f32a
{lengthOf f32a ,} , } ,} ,
i8 stringy , f32a  {match body as body
{
""\" ++ [233]%N ++ runes_of_ascii """// packet A { u8 x, }
:	u128	} ,
    repeat
string len
    `a\`
    , repeat As
// c
//	t
asx `it's` , } , }	MetaData rootA {
//
//
metadata metadata , A _x , u T , char[ // " ++ [128512]%N ++ runes_of_ascii " emoji
3 ] a1 `line1
line2` // " ++ [128512]%N ++ runes_of_ascii " emoji
,
zchar[ 4294967296  ] packetx
    // @lengthOf(
    `{ , }` , string
Logon `" ++ [233]%N ++ runes_of_ascii "` ,  } packet BodyLength
    {@calculatedFrom( /// triple
""\n""
    )
int8
    a1
    @lengthOf( falsey
) , //
@calculatedFrom( ""\" ++ [233]%N ++ runes_of_ascii """)@tag(0123456789
    ) lengthOf , @tag( 007
    // c
    ) //
match Logon // " ++ [27880; 37322]%N ++ runes_of_ascii "
as f32a
// @lengthOf(
/// triple
{ 0 :
zchar // @lengthOf(
, } ,@lengthOf( i8i8 ) match options1
    //	t
    as string_ { [""a\""b"" , 00 , /// triple
4294967296, 4294967296
, ""a	b"",1 ] :
A
}
,}
")).
Eval vm_compute in ("<<<M896>>>" ++ check (runes_of_ascii "MetaData
falsey { char[] f32a
`" ++ [28040; 24687; 31867; 22411]%N ++ runes_of_ascii "` , u8x len
/// triple
// " ++ [128512]%N ++ runes_of_ascii " emoji
`" ++ [233]%N ++ runes_of_ascii "`, char[] uint8x , f32 trueish
, char[ 10 ] len `two words`,
    rootA  int
, }
root
packet
    A{ Z9_, repeat MetaDataX
    `it's` , @tag(
007 )	repeat options1 A//	t
,repeat x `line1
line2` ,  MetaDataX
    /// triple
    @lengthOf( options1 ) `say ""hi""`	,
}
// trailing space 
// " ++ [27880; 37322]%N ++ runes_of_ascii "
root packet rootA{ @tag( 255
) char[ 10 ]	Foo @lengthOf( metadata) ``
//
// " ++ [128512]%N ++ runes_of_ascii " emoji
,  @leftPad
    (
'\x00'
) msg_type {
//x
// a // b
float32 // packet A { u8 x, }
Pad
,
    repeat uint32 Logon , },
    @leftPad(
    )
stringy
@calculatedFrom(
""" ++ [128512]%N ++ runes_of_ascii """) `" ++ [28040; 24687; 31867; 22411]%N ++ runes_of_ascii "`  , @tag( 4294967296 )	@tag( 4294967296 ) @lengthOf( // trailing space 
i8i8 ) BodyLength { zchar[42 ] u128 , crc
    {char[
255] Z9_ @lengthOf( int	)
// packet A { u8 x, }
// " ++ [128512]%N ++ runes_of_ascii " emoji
, } ,
}
, @tag(//x
10	)zchar[ 3 ] //	t
stringy @calculatedFrom( ""\n""
) // " ++ [27880; 37322]%N ++ runes_of_ascii "
, a1
    calculatedFrom ,
} packet // packet A { u8 x, }
u8x {
x_y_z@lengthOf(lengthOf ) `crlf
line` , match	uint8x
    as  repeatCount { [
""a\""b""
,
""// no comment"" ] :
    Header [ ""a\\""
    ,// " ++ [27880; 37322]%N ++ runes_of_ascii "
4294967296 ]: roots
// " ++ [128512]%N ++ runes_of_ascii " emoji
// " ++ [128512]%N ++ runes_of_ascii " emoji
,
// " ++ [128512]%N ++ runes_of_ascii " emoji
// @lengthOf(
42 : rootA ,
    [
1 , """" /// triple
,""`tick`"" , ""a	b"" ] : tag
,  ""1""
    : u8x // a // b
,
    }, f32a`a\`
    //x
    ,
@lengthOf( u8x  ) pack asx
, uint64	leftPad , repeat char[ 0] Pad , }
")).
Eval vm_compute in ("<<<M3731>>>" ++ check (runes_of_ascii "options {
    T = ""it's"";// trailing space 
    Z9_ = ""\" ++ [233]%N ++ runes_of_ascii """
    int = '\x00'
    u8x = ""`tick`""
    crc = ""packet"";
}

root packet string_ {
    match charz as u {
        // " ++ [128512]%N ++ runes_of_ascii " emoji
        0123456789 : zchar,
        42 : rootA,
        007 : crc,
        """ ++ [28040; 24687]%N ++ runes_of_ascii """ : Foo,
        [007, ""x y""] : int,
        // " ++ [27880; 37322]%N ++ runes_of_ascii "
    },
    @tag(7)
    repeat metadata,
    string len @lengthOf(o) `crlf
    line`,
    repeat int32 falsey `
    `,
    @leftPad()
    x @calculatedFrom(""// no comment"") `// not a comment`,
    uint16 rootA,
    @lengthOf(a1)
    char calculatedFrom,
    @tag(3)
    zchar[65535] body,
}

packet Logon {
    @leftPad()
    @tag(7)
    char u128 `say ""hi""`,
    @tag(10)
    char[42] roots,
}

root packet i64_ {
    repeat _x {
        repeat MetaDataX o,
    },
    u128 {
        asx {
            u8 a1,
            repeat As,// a // b
        },
    },
    int16 Foo,
    u64 asx `
    `,
    u8x @lengthOf(crc),
    @calculatedFrom(""CRC32"")
    @lengthOf(body)
    @tag(7)
    falsey body `{ , }`,
    MetaDataX {
        trueish MetaDataX `tab	here`,
        char[3] i8i8 @calculatedFrom(""" ++ [128512]%N ++ runes_of_ascii """) `" ++ [233]%N ++ runes_of_ascii "`,
    },
}

options {
    _x = false
    _x = char[0123456789]
    repeatCount = ' '
    _x = ""packet"";
}")).
Eval vm_compute in ("<<<M557>>>" ++ check (runes_of_ascii "packet falsey
{ repeat
    zchar[ 0  ]
    x_y_z `it's`, repeat char[] MetaDataX
`u8 x,` ,
@rightPad
// trailing space 
// trailing space 
( )
    match i8i8 as
    charz{ [ 4294967296, 00 ]: crc
, } ,repeat
    string u8x `` ,
Pad , @lengthOf(// c
u128 )  @tag( 65535 )
//	t
// " ++ [128512]%N ++ runes_of_ascii " emoji
tag body
    // c
    , } packet As  {
    @calculatedFrom( ""// no comment""
) repeat uint64
msg_type
    //	t
    `two words`
, @tag(007 )
    @calculatedFrom(
""`tick`""//x
)@rightPad (	'\x00' //
) int32	repeatCount, repeat	repeatCount	Pad
, x
    MetaDataX
    `a\`	,char[	1 ] uint8x `u8 x,` , @calculatedFrom(
    """" ) @calculatedFrom( ""// no comment"" )@tag(3) repeat i64// trailing space 
trueish
/// triple
// `tick` ""quote"" 'q'
, @lengthOf( MetaDataX
    )
Z9_, }  MetaData Logon
    /// triple
    {  i8i8 matchKey , u64
i8i8
, // trailing space 
options1 zchar
    // " ++ [128512]%N ++ runes_of_ascii " emoji
    `" ++ [28040; 24687; 31867; 22411]%N ++ runes_of_ascii "` ,}
//
/// triple
root	packet matchKey
    /// triple
    { T matchKey //	t
, repeat	uint64
    // packet A { u8 x, }
    crc
`" ++ [28040; 24687; 31867; 22411]%N ++ runes_of_ascii "`	, repeat
    zchar[ 0123456789 ]	i8i8 ,string len//	t
, } MetaData x_y_z
/// triple
// a // b
{
    i8i8 i64_
, }

")).
Eval vm_compute in ("<<<M522>>>" ++ check (runes_of_ascii "root packet i64_
// " ++ [27880; 37322]%N ++ runes_of_ascii "
// a // b
{/// triple
lengthOf {// c
T	{/// triple
zchar tag ,match
//
// `tick` ""quote"" 'q'
body
    //	t
    as
    //x
    falsey{00 :
BodyLength
    , [ 10 , 0,""1""	, 0123456789 , ""a\\"" ,""`tick`"",
    """",
    4294967296 ]
    :
stringy // c
, // trailing space 
"""" : // " ++ [128512]%N ++ runes_of_ascii " emoji
trueish
, // packet A { u8 x, }
[""CRC32"" , 00 , 10
,
    1  ] :
int , } , i8 T ,
    // `tick` ""quote"" 'q'
    } /// triple
, msg_type{ int64 u ,
}
,match rootA//x
as i64_ {
    7
: uint8x ,} ,
} ,
repeat// `tick` ""quote"" 'q'
calculatedFrom //x
{
Pad T,
    repeatCount
    int , i16
    crc @calculatedFrom( ""packet""
) `` ,
    match
// `tick` ""quote"" 'q'
// packet A { u8 x, }
u128
as
As { """" : crc,
[ 65535 , 4294967296 , 007
    ,
""a	b""
, 10 // `tick` ""quote"" 'q'
]
    : rootA
, } , } ,
    zchar[4294967296 ]  u
,
repeat uint16
    string_ `a\`	, } root
packet A{	match Logon as asx { [	3 ,	""a	b""
] : MetaDataX ,
    0
: lengthOf ,""packet""
:
// packet A { u8 x, }
// " ++ [27880; 37322]%N ++ runes_of_ascii "
u8x,	255 : repeatCount , [00 ,""""  ] :
charz
,
["""" ]:msg_type, }  ,}
")).
Eval vm_compute in ("<<<M3755>>>" ++ check (runes_of_ascii "// c
packet options1 {
    roots @lengthOf(zchar),
    @calculatedFrom(""" ++ [128512]%N ++ runes_of_ascii """)
    uint64 matchKey,
    @tag(42)
    i64 Logon @lengthOf(i64_) `doc`,
    @calculatedFrom(""a\""b"")
    A,
    @calculatedFrom(""it's"")
    repeat Pad ``,
    @tag(7)
    zchar[00] trueish `" ++ [233]%N ++ runes_of_ascii "`,
    repeat options1 {
        repeatCount {
            Header,
            char[7] Logon `a\`,/// triple
        },
    },
    char[1] int `doc`,// a // b
    @calculatedFrom("""")
    @calculatedFrom(""a	b"")
    @lengthOf(packetx)
    msg_type {
        string calculatedFrom `{ , }`,
        zchar @calculatedFrom(""" ++ [28040; 24687]%N ++ runes_of_ascii """),
        uint8 o `doc`,
        f32a,
    },//x
}

MetaData Z9_ {
    char A,
}

packet options1 {
    msg_type {
        chars,
        zchar[3] crc `doc`,
    },
    @lengthOf(crc)
    @tag(10)
    @lengthOf(asx)
    zchar[10] Header @calculatedFrom(""a\\"") `u8 x,`,
}

packet int {
    string x_y_z,
    @calculatedFrom(""\" ++ [233]%N ++ runes_of_ascii """)
    match pack as roots {
        65535 : options1,
        // @lengthOf(
    },
}")).
Eval vm_compute in ("<<<M4403>>>" ++ check (runes_of_ascii "packet leftPad {
}

packet u {
    @leftPad(' ')
    char[65535] leftPad,
    int8 packetx,
    string stringy `crlf
        line`,
    @leftPad(' ')
    // " ++ [128512]%N ++ runes_of_ascii " emoji
    i64 x @lengthOf(u) `" ++ [28040; 24687; 31867; 22411]%N ++ runes_of_ascii "`,
    @lengthOf(pack)
    // a // b
    //
    u64 asx @lengthOf(repeatCount) `u8 x,`,
    o A,
}

root packet charz {
    char[] repeatCount @lengthOf(tag) ``,
    repeat pack `a\`,
    @calculatedFrom(""// no comment"")
    T {
        string rootA @calculatedFrom(""{,}""),
    },
    repeat As Foo,
    char[3] trueish,
    @calculatedFrom("""")
    @lengthOf(metadata)
    @leftPad('0')
    repeat u64 float `{ , }`,
    stringy {
        // packet A { u8 x, }
        // c
        metadata {
            u8 f32a `two words`,
            repeat char[007] f32a `
                        `,
        },
        u32 asx @calculatedFrom(""" ++ [233]%N ++ runes_of_ascii "t" ++ [233]%N ++ runes_of_ascii """),
        float64 i8i8,//x
    },
    // c
    // " ++ [27880; 37322]%N ++ runes_of_ascii "
    match lengthOf as zchar {
        00 : o,
    },
}")).
Eval vm_compute in ("<<<M4249>>>" ++ check (runes_of_ascii "  root 
packet 
As

{
repeat
    //	t
	x

msg_type	,
	} MetaData
crc
	{// c
u8	x
,	}	root

    packet
// " ++ [128512]%N ++ runes_of_ascii " emoji
    	Logon
{

@calculatedFrom(
""1"" )  @rightPad	( ' ')

@leftPad (
    ) string msg_type
    @lengthOf(
	uint8x
)
    `a\`  ,	match
    calculatedFrom 
as	i8i8
{
[
""\" ++ [233]%N ++ runes_of_ascii """ ]
:

options1
, 	 // c

1
    :

asx

    ,

    [

42 ,

42 
    //

,//	t
    """ ++ [28040; 24687]%N ++ runes_of_ascii """// `tick` ""quote"" 'q'

  ,""""
,  // " ++ [128512]%N ++ runes_of_ascii " emoji
    7

    ]  // @lengthOf(
    :

    x_y_z ,
    [ 	 // " ++ [27880; 37322]%N ++ runes_of_ascii "

0	//x
	] 
:
	    // packet A { u8 x, }
  asx

    //

	7
    :
u8x
[7
    ]: 
u  ,
},
	}
MetaData
repeatCount 
{
float
    Foo , As 	 //	t
i8i8	,}
	packet
tag  {  @leftPad  (
' ' )

match
Z9_

as
msg_type{  
      //

	[
10 ,
	""a\""b"" , 
0

    , 255, 7

,

0123456789

,
	10
	]	:

Logon,
	""" ++ [233]%N ++ runes_of_ascii "t" ++ [233]%N ++ runes_of_ascii """	:
    a1 
, 7

// packet A { u8 x, }
		/// triple
	:
i64_, 
255
:
leftPad
    }
, }")).
Eval vm_compute in ("<<<M1053>>>" ++ check (runes_of_ascii "packet
    repeatCount
    {	match	float as u { // trailing space 
""" ++ [128512]%N ++ runes_of_ascii """ :	i64_ , // trailing space 
}
    , repeat Z9_
    {string metadata `u8 x,` , }	,
u8 lengthOf ,
repeat float { zchar[ 255 // `tick` ""quote"" 'q'
]
    matchKey@lengthOf( u8x ) , uint8 Packet
    `" ++ [233]%N ++ runes_of_ascii "`	,x_y_z As	, zchar[
/// triple
// " ++ [128512]%N ++ runes_of_ascii " emoji
3 ] chars `it's` ,
} ,
    repeat a1
,@calculatedFrom(  ""it's"")uint64 x_y_z ,
match metadata  as Packet
{ [ """ ++ [233]%N ++ runes_of_ascii "t" ++ [233]%N ++ runes_of_ascii """]
: BodyLength , 3 :
    o  ,
    //
    65535 : Z9_// " ++ [27880; 37322]%N ++ runes_of_ascii "
, [ ""CRC32""] :
    Packet ,  ""a\\"":
int , 4294967296 : Foo,}
, repeat
// trailing space 
// c
int {
    // `tick` ""quote"" 'q'
    lengthOf @lengthOf(o
// trailing space 
// " ++ [27880; 37322]%N ++ runes_of_ascii "
) // " ++ [128512]%N ++ runes_of_ascii " emoji
`// not a comment`// c
, repeat Packet a1 ,}	,
    //
    @lengthOf( u )char[ 10 // @lengthOf(
] packetx @calculatedFrom(""abc"" ) , @rightPad
    ( '0' )  T,}
")).
Eval vm_compute in ("<<<M3758>>>" ++ check (runes_of_ascii "// top
options {
    StringPrefixLenType = u8;
    // c5
    ArrayPrefixLenType = u32;// c9a
    // c9b
}

packet Quote {
    // c13
    u32 Ref,// c16
    InNote74 {
        // c18
        u8 pad0,// c21a
        // c21b
    },
    // c23
}

// c24
packet Ack {
    // c27a
    // c27b
    repeat string OrderId,
}// c32

packet Logout {
    // c35
    zchar[7] venue,// c40
    char[12] Px,// c45
    string count,
    // c48
    char[] Tail,
    // c51
    char[] Qty,// c54a
    // c54b
    Quote,// c56
}

root packet Trade {
    // c61
    zchar[2] price,// c66
    u32 x,// c69a
    // c69b
    u32 lastPx @lengthOf(Body),
    // c75
    match x as Body {
        // c80
        148 : Ack,
        171 : Quote,
        15 : Logout,
        // c92a
        // c92b
    },
    // c94
}")).
Eval vm_compute in ("<<<M4505>>>" ++ check (runes_of_ascii "
packet A 
{ 
repeatCount

{ 
        // " ++ [27880; 37322]%N ++ runes_of_ascii "
      repeat string	//	t
    falsey`" ++ [233]%N ++ runes_of_ascii "`
, x	Z9_//x
,  rootA  repeatCount
`a\` 
, repeat 	 // " ++ [128512]%N ++ runes_of_ascii " emoji
	char[]
    x_y_z 
`` ,
}
,
}root	packet
//
int
	{
@calculatedFrom(  ""\n"" )

    @calculatedFrom(""a\\"" 	 // trailing space 

) repeat

    lengthOf

repeatCount  `two words` 
    // packet A { u8 x, }
    // c
	,

    }
    root
	packet BodyLength

{ @calculatedFrom(""`tick`"" )  repeat
	asx{	zchar[ 10
] 
MetaDataX , repeat
	char[4294967296
	]
rootA
    `say ""hi""`	, 
uint64
As
`" ++ [233]%N ++ runes_of_ascii "`

    ,
    chars

u ,	}
    ,
    @tag(
	0123456789 )@tag(
0)string
	roots

`" ++ [28040; 24687; 31867; 22411]%N ++ runes_of_ascii "`,u8  crc /// triple
	`{ , }`
    , // a // b

@calculatedFrom(

""CRC32""
)
    repeat	i64_ _x

    ,
char
    Packet , }

")).
Eval vm_compute in ("<<<M201>>>" ++ check (runes_of_ascii "packet _x{
    u ,@lengthOf( len)
    match f32a as
    Pad{""packet"": metadata,
""CRC32"":x_y_z[ ""abc"" , ""{,}"" ] : Logon , }
    // c
    , zchar[ 7  ]	a1  ,
    @tag( 65535 ) @tag(
0123456789
    )
    //x
    @lengthOf(
asx ) repeat
i16 // @lengthOf(
tag `{ , }` // `tick` ""quote"" 'q'
,
    @leftPad	(
'\x00' ) match i64_ as x { 0 :crc , [
//	t
// trailing space 
""// no comment"" ] : uint8x ,
    42
// a // b
// trailing space 
:  string_	, 007 : trueish , [10 ]// " ++ [128512]%N ++ runes_of_ascii " emoji
: rootA
""" ++ [28040; 24687]%N ++ runes_of_ascii """
    : // trailing space 
len , } //
, @rightPad (
'\x00' // trailing space 
) @tag(
    //
    00 ) @calculatedFrom( """ ++ [233]%N ++ runes_of_ascii "t" ++ [233]%N ++ runes_of_ascii """ ) // c
char[]float
@calculatedFrom(	""\n"" ),repeat f32 trueish `crlf
line` ,} // @lengthOf(")).
Eval vm_compute in ("<<<M927>>>" ++ check (runes_of_ascii "packet msg_type{ trueish	float ,zchar[ 0123456789 ]
    trueish @lengthOf( i8i8 )
, i64  Pad ,
//x
/// triple
i64_  @lengthOf(	_x )
    // a // b
    ``
, // `tick` ""quote"" 'q'
match Foo  as As { [ """ ++ [28040; 24687]%N ++ runes_of_ascii """  , //
""packet""
    ,
    1 , 7
//
/// triple
,3
, ""a	b""
    ,  7 ] :
_x 255
: Foo , ""x y"" :  i64_ ,
1 :
options1 // trailing space 
,} , lengthOf { //	t
char[] u128 , u32 o , }
    ,
    }
options {} MetaData len
    {
char Logon
    //	t
    ,
repeatCount lengthOf ,
    Z9_  o ,
    string MetaDataX
`
` , uint32 repeatCount , Header falsey ,
//	t
// trailing space 
} // `tick` ""quote"" 'q'
MetaData calculatedFrom{ string	Packet `crlf
line`
, }
// packet A { u8 x, }
")).
Eval vm_compute in ("<<<M4143>>>" ++ check (runes_of_ascii "root packet f32a {
    zchar[0123456789] Foo,
    zchar @lengthOf(a1),
    @rightPad()
    @tag(3)
    match int as stringy {
        [0] : chars,
        0 : i8i8,
        42 : i64_,
        [255, 7, ""1"", ""a\\""] : leftPad,
        """ ++ [233]%N ++ runes_of_ascii "t" ++ [233]%N ++ runes_of_ascii """ : Header,
        [7] : repeatCount,
    },
    i32 falsey @lengthOf(u128) `two words`,
    @tag(0)
    char[] uint8x `{ , }`,// " ++ [128512]%N ++ runes_of_ascii " emoji
    repeat MetaDataX {
        string len,// `tick` ""quote"" 'q'
    },
    @leftPad('\x00')
    zchar[0123456789] o,
    f32 As @calculatedFrom(""a\\""),
    @lengthOf(string_)
    repeat u128 ``,
    pack {
        crc stringy,
        repeat string asx,
    },
}")).
Eval vm_compute in ("<<<M1028>>>" ++ check (runes_of_ascii "
options { Packet=' ' BodyLength=
65535 zchar	=
'0'// @lengthOf(
; lengthOf //x
=
    false ;}options {
o
= true ;
Foo
    = ""a\\"";} MetaData chars{
    zchar[
00
// " ++ [128512]%N ++ runes_of_ascii " emoji
//
] // packet A { u8 x, }
A ,
Packet calculatedFrom
    , falsey
options1, int32 x_y_z, char[]
    zchar
// " ++ [128512]%N ++ runes_of_ascii " emoji
// " ++ [128512]%N ++ runes_of_ascii " emoji
, }
    MetaData // " ++ [27880; 37322]%N ++ runes_of_ascii "
_x { stringy f32a
`u8 x,`  ,
} packet f32a
//
// " ++ [27880; 37322]%N ++ runes_of_ascii "
{
    @calculatedFrom(""a\\"" )// " ++ [128512]%N ++ runes_of_ascii " emoji
match a1
as x_y_z
{
    [ """ ++ [233]%N ++ runes_of_ascii "t" ++ [233]%N ++ runes_of_ascii """ , """" ,""" ++ [128512]%N ++ runes_of_ascii """ , ""`tick`"" ,
""x y"" , //	t
""abc""
// `tick` ""quote"" 'q'
// " ++ [27880; 37322]%N ++ runes_of_ascii "
,
    ""\" ++ [233]%N ++ runes_of_ascii """ ,""packet""]	: int
,
    }	,
//
// c
repeat uint16	f32a `crlf
line` , }")).
Eval vm_compute in ("<<<M678>>>" ++ check (runes_of_ascii "packet
MetaDataX
{
    matchKey , }packet x
    { i32 msg_type
,leftPad
{ string Logon // " ++ [27880; 37322]%N ++ runes_of_ascii "
@lengthOf(body )
    ,} ,/// triple
repeat
    options1
{
    i8i8 msg_type `a\` , } , @tag( 0
)
    @leftPad() // `tick` ""quote"" 'q'
int64 f32a
@lengthOf( asx) `tab	here`,char[]  pack
`" ++ [28040; 24687; 31867; 22411]%N ++ runes_of_ascii "` , //x
@lengthOf(	stringy ) repeat leftPad  , @leftPad // packet A { u8 x, }
( ' '//	t
) @leftPad (  )
    match Logon	as roots{//x
""`tick`""// a // b
:
string_
,	}	, @tag(
    0123456789// `tick` ""quote"" 'q'
)
@calculatedFrom(
    ""1""
) @leftPad(
) u32	x_y_z @calculatedFrom(
""\" ++ [233]%N ++ runes_of_ascii """ )
    ,}
")).
Eval vm_compute in ("<<<M3753>>>" ++ check (runes_of_ascii "options {
    leftPad = ""{,}""
    f32a = true
    trueish = zchar[007];
    crc = ""`tick`"";// c
}//x

root packet body {
    asx @lengthOf(f32a) ``,
    f64 body @lengthOf(int),
    zchar[255] BodyLength,
    zchar[7] leftPad `line1
    line2`,
    @lengthOf(asx)
    u128 @lengthOf(BodyLength) `// not a comment`,
    @lengthOf(As)
    char[42] _x @lengthOf(i8i8) `line1
    line2`,
    char[1] options1 @calculatedFrom(""packet"") `say ""hi""`,
}

options {
    leftPad = 007;
    charz = false
    repeatCount = ""// no comment""
    u = 0123456789
}")).
Eval vm_compute in ("<<<M4398>>>" ++ check (runes_of_ascii "MetaData a1 {
    // `tick` ""quote"" 'q'
    //	t
    _x asx,
}

MetaData Packet {
    BodyLength int,
}

root packet x {
    @leftPad(' ')
    f64 repeatCount @lengthOf(x) `line1
    line2`,
    @rightPad('\x00')
    match i8i8 as pack {
        [
            10, """ ++ [128512]%N ++ runes_of_ascii """, 10, ""a	b"", 1,
            7
        ] : leftPad,
        [
            255, 10, 0, 1, """ ++ [233]%N ++ runes_of_ascii "t" ++ [233]%N ++ runes_of_ascii """,
            ""x y""
        ] : A,
        """ ++ [28040; 24687]%N ++ runes_of_ascii """ : u,
        00 : charz,
        // a // b
        """ ++ [28040; 24687]%N ++ runes_of_ascii """ : len,
        0 : As,
    },
    f32 x `" ++ [233]%N ++ runes_of_ascii "`,
}

MetaData x {
}")).
Eval vm_compute in ("<<<M4488>>>" ++ check (runes_of_ascii "
packet 
roots
    {repeat u8x`two words`  , repeat
	roots 	 // " ++ [128512]%N ++ runes_of_ascii " emoji
{// " ++ [27880; 37322]%N ++ runes_of_ascii "
	  char[ 1 ]
Z9_
    `it's`
,  // " ++ [128512]%N ++ runes_of_ascii " emoji

  char[ 	 // trailing space 
	  42
    ]

    float `" ++ [28040; 24687; 31867; 22411]%N ++ runes_of_ascii "`
,	} ,
char[]
	As  `a\`

,

calculatedFrom

    { 
repeat	uint64
    trueish , 
}
, repeat  i64 MetaDataX ,	repeat string	uint8x `say ""hi""`
    ,
_x A `
`  ,
    @lengthOf(// `tick` ""quote"" 'q'

Packet )
    @tag(7 )@leftPad 
( // packet A { u8 x, }
	)
	Header
{ u128 
,  repeat char[]
	trueish
    `a\` 
,
}  , }")).
Eval vm_compute in ("<<<M3873>>>" ++ check (runes_of_ascii "
MetaData
    asx {

    u32
    asx  ,
//
		// a // b
	roots Packet

    // " ++ [128512]%N ++ runes_of_ascii " emoji
	,}
root 
packet 
pack	{  // @lengthOf(
	len

@calculatedFrom( ""// no comment""	)  ,  match pack

as leftPad{

    [	007]	// `tick` ""quote"" 'q'
    :
    crc  
      //	t
		, 10	:
tag,
7 
:	packetx 
, """ ++ [28040; 24687]%N ++ runes_of_ascii """ 
:
    stringy, 65535: i64_	,
	1:
MetaDataX , } , 
zchar[ 
	/// triple

  4294967296]  chars

    @calculatedFrom(
	    //	t
	""\n"" 

    // `tick` ""quote"" 'q'
	// " ++ [27880; 37322]%N ++ runes_of_ascii "
)
	,
    }
")).
Eval vm_compute in ("<<<M592>>>" ++ check (runes_of_ascii "// " ++ [128512]%N ++ runes_of_ascii " emoji
packet int
    { }options { string_=true
Z9_ = //
'\x00'
    ; uint8x
    = false}
packet body
{ int16
Foo ,
repeat	string
roots `
`
// " ++ [128512]%N ++ runes_of_ascii " emoji
//
,//	t
stringy a1
    `tab	here` ,int8
    repeatCount , @lengthOf(chars )
    match
    _x as repeatCount{""CRC32"" :
f32a ,
    [
    // packet A { u8 x, }
    0123456789 ,""it's"" ]:
    Logon
    , [""// no comment"" ,10
, ""a\""b"" ]	:trueish
, [ 0 ]: trueish , 0
: BodyLength, },
    } /// triple")).
Eval vm_compute in ("<<<M191>>>" ++ check (runes_of_ascii "packet x
{ repeat
    string_
    { repeat asx	Foo
    /// triple
    ,int16 i8i8 , char[] matchKey ,
// @lengthOf(
// trailing space 
match calculatedFrom as // a // b
roots  { 3
: x_y_z , }
    , }
, @lengthOf(x ) repeat o `say ""hi""`
    ,//	t
char[] string_	`" ++ [28040; 24687; 31867; 22411]%N ++ runes_of_ascii "`
, @lengthOf( f32a )	match
    Pad as
    A //	t
{ ""a	b"": u128 , [""\" ++ [233]%N ++ runes_of_ascii """ ,
65535
    , 255
,""CRC32""
,
1 ]
    : i8i8
0123456789 : falsey //	t
, } , }packet zchar { }
")).
Eval vm_compute in ("<<<M3787>>>" ++ check (runes_of_ascii "
packet
	Packet 

// " ++ [128512]%N ++ runes_of_ascii " emoji
//	t
{

@leftPad( 
'\x00'	) 
        // `tick` ""quote"" 'q'
    match
trueish

    as	Pad 
{  65535
    :

    Header
    ,
00 :	// `tick` ""quote"" 'q'
	roots 
[
    """ ++ [233]%N ++ runes_of_ascii "t" ++ [233]%N ++ runes_of_ascii """  ,

""1""

    ,	""packet""

    ,
    42 
,

0
,

    ""x y""
    ,""" ++ [128512]%N ++ runes_of_ascii """,

""a	b""
]
:	BodyLength
    ,
    """ ++ [28040; 24687]%N ++ runes_of_ascii """:	Packet  , [ """ ++ [128512]%N ++ runes_of_ascii """

    ]:

body	}
,

    }	//x
options
        // a // b

	{ /// triple
As  =
	u16 } ")).
Eval vm_compute in ("<<<M635>>>" ++ check (runes_of_ascii "  MetaData
    f32a {
char[]
trueish ,  float64 u128
`" ++ [28040; 24687; 31867; 22411]%N ++ runes_of_ascii "` ,
    //	t
    tag // a // b
f32a ,matchKey // " ++ [128512]%N ++ runes_of_ascii " emoji
int `two words` , i8	pack `a\` , } packet asx	{ int8	Header`say ""hi""`,} MetaData roots {i32 tag `" ++ [233]%N ++ runes_of_ascii "` ,
    crc  Z9_ ,
T T
    `
` , //
int32  matchKey,
matchKey Header`line1
line2`
// " ++ [27880; 37322]%N ++ runes_of_ascii "
// trailing space 
,
// `tick` ""quote"" 'q'
//x
char[
0 ] MetaDataX
    ,
// c
// @lengthOf(
} // " ++ [27880; 37322]%N)).
Eval vm_compute in ("<<<M4335>>>" ++ check (runes_of_ascii "options {
}

options {
    a1 = ' '
    falsey = false;
    f32a = 10;
    // packet A { u8 x, }
}

packet u8x {
    repeat BodyLength {
        calculatedFrom @calculatedFrom(""{,}"") `{ , }`,
        uint8 MetaDataX `say ""hi""`,
    },
}

MetaData matchKey {
    i8 roots `
        `,
    i64 rootA `say ""hi""`,/// triple
    f64 chars `" ++ [28040; 24687; 31867; 22411]%N ++ runes_of_ascii "`,
    zchar[3] asx `" ++ [233]%N ++ runes_of_ascii "`,
    string msg_type,
}")).
Eval vm_compute in ("<<<M3523>>>" ++ check (runes_of_ascii "// top
packet
    // c0
float // c1a
  // c1b
{ // c2a
  // c2b
repeat // c3
i8i8 MetaDataX // c5
`it's` // c6
, rootA // c8
, // c9a
  // c9b
repeat // c10
int8 // c11
int // c12
, match // c14
repeatCount // c15
as // c16a
  // c16b
x_y_z {
    // c18
""{,}"" // c19a
  // c19b
: // c20
Logon // c21
, // c22a
  // c22b
} // c23
, // c24a
  // c24b
} // c25a
  // c25b
")).
Eval vm_compute in ("<<<M3543>>>" ++ check (runes_of_ascii "// top
packet
    // c0
B // c1a
  // c1b
{ u8 // c3
a // c4a
  // c4b
, }
    // c6
root // c7
packet
    // c8
P
    // c9
{ // c10
u8 // c11
K // c12
,
    // c13
u8
    // c14
L // c15a
  // c15b
@lengthOf( Body
    // c17
) ,
    // c19
match
    // c20
K as Body {
    // c24
1 // c25
: B ,
    // c28
} // c29a
  // c29b
, // c30
}
    // c31
")).
Eval vm_compute in ("<<<M4101>>>" ++ check (runes_of_ascii "  packet 
calculatedFrom
    {

@calculatedFrom(
""a	b""
	)T// packet A { u8 x, }
      {

zchar[

0123456789] 
falsey
    `say ""hi""`

,
	match

o  as
    // " ++ [27880; 37322]%N ++ runes_of_ascii "
	matchKey
{

    [  ""`tick`""
    , 
//
""it's""
]: int
    ,	1
    :
float// a // b

  , }
    ,
    string
    Foo @calculatedFrom(
""a\\"" )
,  // `tick` ""quote"" 'q'
}  , } ")).
Eval vm_compute in ("<<<M1102>>>" ++ check (runes_of_ascii "packet int{ @tag(7 )
@tag(007 )zchar[ 4294967296	]	Logon @calculatedFrom(""it's"" )	`" ++ [233]%N ++ runes_of_ascii "`
    ,
    @leftPad (
)@lengthOf( falsey ) char
    x @lengthOf(
// `tick` ""quote"" 'q'
// " ++ [27880; 37322]%N ++ runes_of_ascii "
msg_type )  `it's` ,
    match
a1 as BodyLength
{ 42 : u
}
, repeat float32 packetx , asx `u8 x,` // trailing space 
, lengthOf ,
roots
, }")).
Eval vm_compute in ("<<<M2003>>>" ++ check (runes_of_ascii "MetaData
    u { }  options {
// c
// @lengthOf(
float = int8 ;rootA =false ; As =	int16 // `tick` ""quote"" 'q'
repeatCount
    // trailing space 
    =
    int16
; u8x =
    //	t
    '\x00' ; } options	{
    repeatCount
@tag( 0
u128
    //
    = false ; i64_
// trailing space 
// `tick` ""quote"" 'q'
= '0' ; //	t
}
")).
Eval vm_compute in ("<<<M2006>>>" ++ check (runes_of_ascii "MetaData
    u { }  options {
// c
// @lengthOf(
float = int8 ;rootA =false ; As =	int16 // `tick` ""quote"" 'q'
repeatCount
    // trailing space 
    =
    int16
; u8x =
    //	t
    '\x00' ; } options	{
    repeatCount
= 0 0
u128
    //
    = false ; i64_
// trailing space 
// `tick` ""quote"" 'q'
= '0' ; //	t
}
")).
Eval vm_compute in ("<<<M1328>>>" ++ check (runes_of_ascii "MetaData Pad
{	roots	f32a , char[ 10
// trailing space 
//	t
] u8x	, //	t
calculatedFrom
A , }
packet leftPad	{ roots// " ++ [27880; 37322]%N ++ runes_of_ascii "
@lengthOf(
string_) `two words`
,@tag(
255
)match o as options1	{ [
    0 //
, ""1""
,
""" ++ [128512]%N ++ runes_of_ascii """
//x
//	t
,42 ]
    :
    //
    i8i8
    , } , /// triple
repeatCount msg_type , }	options
{
    }")).
Eval vm_compute in ("<<<M1997>>>" ++ check (runes_of_ascii "MetaData
    u { }  options {
// c
// @lengthOf(
float = int8 ;rootA =false ; As =	int16 // `tick` ""quote"" 'q'
repeatCount
    // trailing space 
    =
    int16
; u8x =
    //	t
    '\x00' ; } options	{
    =
repeatCount 0
u128
    //
    = false ; i64_
// trailing space 
// `tick` ""quote"" 'q'
= '0' ; //	t
}
")).
Eval vm_compute in ("<<<M1990>>>" ++ check (runes_of_ascii "MetaData
    u { }  options {
// c
// @lengthOf(
float = int8 ;rootA =false ; As =	int16 // `tick` ""quote"" 'q'
repeatCount
    // trailing space 
    =
    int16
; u8x =
    //	t
    '\x00' ; } options	
    repeatCount
= 0
u128
    //
    = false ; i64_
// trailing space 
// `tick` ""quote"" 'q'
= '0' ; //	t
}
")).
Eval vm_compute in ("<<<M3847>>>" ++ check (runes_of_ascii "packet
    //	t
    	// trailing spa'ce 
  _x { 
      // packet A { u8 x, }
      // c
  char[	3  ]u8x@lengthOf(  u8x)

    ,
@calculatedFrom(

    """ ++ [128512]%N ++ runes_of_ascii """// @lengthOf(
		)
i16

Foo	@lengthOf(  string_
) 
`doc` ,	repeat
    i64 
metadata  , @lengthOf( string_

    )	i8	// c
	u	`line1
line2`

    ,}")).
Eval vm_compute in ("<<<M290>>>" ++ check (runes_of_ascii "packet i8i8
{ zchar[	10 ]a1 ,	}packet x_y_z {
//
// c
} options{	matchKey
= false// " ++ [128512]%N ++ runes_of_ascii " emoji
;
Foo=
i32 ; MetaDataX  = 007 pack =
""" ++ [28040; 24687]%N ++ runes_of_ascii """
// a // b
// c
; }  packet leftPad  {} root packet// a // b
stringy{/// triple
rootA Pad ,	falsey @calculatedFrom( ""it's"") `two words` , u8x float
, int64
u8x, } //x")).
Eval vm_compute in ("<<<M447>>>" ++ check (runes_of_ascii "packet roots { @tag(  255) zchar[ 00] lengthOf	`" ++ [233]%N ++ runes_of_ascii "`
    , zchar[ 7
// @lengthOf(
//
] u `say ""hi""`// " ++ [27880; 37322]%N ++ runes_of_ascii "
, }  options { } options { calculatedFrom
= 4294967296 // " ++ [128512]%N ++ runes_of_ascii " emoji
i64_ = '\x00' ; i64_
= ""abc"" ; }  MetaData roots{
    char[]
    BodyLength`two words`
, i16 Header `// not a comment`, }")).
Eval vm_compute in ("<<<M219>>>" ++ check (runes_of_ascii "MetaData _x
{As	f32a `doc` // " ++ [128512]%N ++ runes_of_ascii " emoji
, }
packet// @lengthOf(
x {	zchar[  255
    ]	calculatedFrom  ,string_@calculatedFrom( ""a	b"" ) , @calculatedFrom(""" ++ [128512]%N ++ runes_of_ascii """)@tag(
4294967296 )@calculatedFrom(""a	b""
) char[ 0 ]i64_
`" ++ [28040; 24687; 31867; 22411]%N ++ runes_of_ascii "` ,
    @leftPad(' '  ) repeat
// c
// c
MetaDataX
    ,}")).
Eval vm_compute in ("<<<M332>>>" ++ check (runes_of_ascii "// packet A { u8 x, }
options{
    T
=""packet"" ; } MetaData x_y_z
{
char roots ,
    T f32a `{ , }`, } root packet // " ++ [128512]%N ++ runes_of_ascii " emoji
uint8x
{ @calculatedFrom( ""// no comment"") repeat As
{rootA
@calculatedFrom(
""" ++ [28040; 24687]%N ++ runes_of_ascii """ ) `{ , }` , u16 zchar`{ , }` ,  char[	7
]o `" ++ [233]%N ++ runes_of_ascii "` ,
} ,}
")).
Eval vm_compute in ("<<<M4359>>>" ++ check (runes_of_ascii "
packet

    falsey 
    //
  {
@calculatedFrom(  // @lengthOf(

  ""`tick`""
)  Pad 
/// triple

  // c
    {
match	pack	as  roots {
""" ++ [233]%N ++ runes_of_ascii "t" ++ [233]%N ++ runes_of_ascii """ :
u
	,
    42 :  //
	  As
    ""packet"" :

    Logon
    , }
	,
},	} 
options{ 
}
root

    packet 
stringy

{	}

")).
Eval vm_compute in ("<<<M1565>>>" ++ check (runes_of_ascii "packet
//	t
// trailing space 
_x {
// packet A { u8 x, }
// c
char[
3
    ] u8x @lengthOf(
u8x ) , @calculatedFrom(""" ++ [128512]%N ++ runes_of_ascii """ // @lengthOf(
)
i16	uint64
@lengthOf(	string_
    )`doc`	, repeat	i64 metadata , @lengthOf( string_
) i8 // c
u  `line1
line2`	,
}
")).
Eval vm_compute in ("<<<M1530>>>" ++ check (runes_of_ascii "packet
//	t
// trailing space 
_x {
// packet A { u8 x, }
// c
char[
3
    ] u8x @lengthOf(
true ) , @calculatedFrom(""" ++ [128512]%N ++ runes_of_ascii """ // @lengthOf(
)
i16	Foo
@lengthOf(	string_
    )`doc`	, repeat	i64 metadata , @lengthOf( string_
) i8 // c
u  `line1
line2`	,
}
")).
Eval vm_compute in ("<<<M1564>>>" ++ check (runes_of_ascii "packet
//	t
// trailing space 
_x {
// packet A { u8 x, }
// c
char[
3
    ] u8x @lengthOf(
u8x ) , @calculatedFrom(""" ++ [128512]%N ++ runes_of_ascii """ // @lengthOf(
)
i16	@lengthOf(
Foo	string_
    )`doc`	, repeat	i64 metadata , @lengthOf( string_
) i8 // c
u  `line1
line2`	,
}
")).
Eval vm_compute in ("<<<M1577>>>" ++ check (runes_of_ascii "packet
//	t
// trailing space 
_x {
// packet A { u8 x, }
// c
char[
3
    ] u8x @lengthOf(
u8x ) , @calculatedFrom(""" ++ [128512]%N ++ runes_of_ascii """ // @lengthOf(
)
i16	Foo
@lengthOf(	string_
    `doc`	, repeat	i64 metadata , @lengthOf( string_
) i8 // c
u  `line1
line2`	,
}
")).
Eval vm_compute in ("<<<M280>>>" ++ check (runes_of_ascii "
options
{charz =""x y"" calculatedFrom =	'0'	} packet msg_type {msg_type asx, string// packet A { u8 x, }
packetx ,MetaDataX,
Header { i64 packetx`tab	here`
,  }, } options { // @lengthOf(
uint8x = 0 x_y_z =	""x y""
// packet A { u8 x, }
//	t
; }")).
Eval vm_compute in ("<<<M1004>>>" ++ check (runes_of_ascii "root
packet calculatedFrom { repeat string charz,@calculatedFrom( """ ++ [233]%N ++ runes_of_ascii "t" ++ [233]%N ++ runes_of_ascii """
)
Foo @lengthOf(
    tag ) `a\`,match
_x  as
    As // c
{""{,}"" :f32a,	} ,}
    MetaData body { leftPad asx , u Pad //x
`
` , zchar[3]
leftPad ,
metadata chars ,	}
")).
Eval vm_compute in ("<<<M3>>>" ++ check (runes_of_ascii "
options	{
} MetaData pack {string T ,
    msg_type
    // a // b
    stringy `" ++ [233]%N ++ runes_of_ascii "`
, }
    // " ++ [128512]%N ++ runes_of_ascii " emoji
    packet a1 {
// " ++ [128512]%N ++ runes_of_ascii " emoji
// packet A { u8 x, }
repeat i32 x , i16 msg_type @calculatedFrom( ""it's""
    )`two words` , } // " ++ [27880; 37322]%N)).
Eval vm_compute in ("<<<M1747>>>" ++ check (runes_of_ascii "options { trueish = ""`tick`"" ; string_= """ ++ [233]%N ++ runes_of_ascii "t" ++ [233]%N ++ runes_of_ascii """
    // c
    } root
    packet body { stringy @calculatedFrom( @calculatedFrom(
""a	b"" ) `line1
line2` , }
packet Logon {
    @leftPad(
    ' ' ) //	t
u16 string_ `u8 x,` ,
}
")).
Eval vm_compute in ("<<<M4311>>>" ++ check (runes_of_ascii "
options  // c
    {
x_y_z
	=
	f64 }// " ++ [27880; 37322]%N ++ runes_of_ascii "
  root 
packet As{

@tag( 255 )
string
    BodyLength,

@leftPad

( )
    match Foo
as body
{
	007
    : 
i8i8, 42
	: metadata
,	// @lengthOf(
"""" :body

,

    }	, }")).
Eval vm_compute in ("<<<M1727>>>" ++ check (runes_of_ascii "options { trueish = ""`tick`"" ; string_= """ ++ [233]%N ++ runes_of_ascii "t" ++ [233]%N ++ runes_of_ascii """
    // c
    } root
    packet packet body { stringy @calculatedFrom(
""a	b"" ) `line1
line2` , }
packet Logon {
    @leftPad(
    ' ' ) //	t
u16 string_ `u8 x,` ,
}
")).
Eval vm_compute in ("<<<M3610>>>" ++ check (runes_of_ascii "packet Logon {
    string user,
}
root packet Frame {
    u8 K,
    match K as Body {
        1 : Logon,
        2 : Logout,
    },
    Tail,
}
packet Logout {
    u16 reason,
}
packet Tail {
    u32 crc,
}
")).
Eval vm_compute in ("<<<M1759>>>" ++ check (runes_of_ascii "options { trueish = ""`tick`"" ; string_= """ ++ [233]%N ++ runes_of_ascii "t" ++ [233]%N ++ runes_of_ascii """
    // c
    } root
    packet body { stringy @calculatedFrom(
""a	b"" i8 `line1
line2` , }
packet Logon {
    @leftPad(
    ' ' ) //	t
u16 string_ `u8 x,` ,
}
")).
Eval vm_compute in ("<<<M1758>>>" ++ check (runes_of_ascii "options { trueish = ""`tick`"" ; string_= """ ++ [233]%N ++ runes_of_ascii "t" ++ [233]%N ++ runes_of_ascii """
    // c
    } root
    packet body { stringy @calculatedFrom(
""a	b"" `line1
line2` ) , }
packet Logon {
    @leftPad(
    ' ' ) //	t
u16 string_ `u8 x,` ,
}
")).
Eval vm_compute in ("<<<M1771>>>" ++ check (runes_of_ascii "options { trueish = ""`tick`"" ; string_= """ ++ [233]%N ++ runes_of_ascii "t" ++ [233]%N ++ runes_of_ascii """
    // c
    } root
    packet body { stringy @calculatedFrom(
""a	b"" ) `line1
line2` , 
packet Logon {
    @leftPad(
    ' ' ) //	t
u16 string_ `u8 x,` ,
}
")).
Eval vm_compute in ("<<<M1675>>>" ++ check (runes_of_ascii "[ { trueish = ""`tick`"" ; string_= """ ++ [233]%N ++ runes_of_ascii "t" ++ [233]%N ++ runes_of_ascii """
    // c
    } root
    packet body { stringy @calculatedFrom(
""a	b"" ) `line1
line2` , }
packet Logon {
    @leftPad(
    ' ' ) //	t
u16 string_ `u8 x,` ,
}
")).
Eval vm_compute in ("<<<M3687>>>" ++ check (runes_of_ascii "//	t
MetaData
    chars	{ falsey

pack , packetx

zchar  `
`,
}  // " ++ [128512]%N ++ runes_of_ascii " emoji
    packet
	u128

    {
@lengthOf( tag	)@tag(
	// trailing space 
  1
)

@rightPad	('\x00'
    )i64

T
    ,
}
")).
Eval vm_compute in ("<<<M513>>>" ++ check (runes_of_ascii "packet
u128 {
f64 chars ``
, @lengthOf(metadata ) @lengthOf(matchKey
    )// trailing space 
@tag(42
    )a1@lengthOf( MetaDataX ) `
` ,
}
    // c
    packet f32a	{
    // " ++ [128512]%N ++ runes_of_ascii " emoji
    }
")).
Eval vm_compute in ("<<<M3389>>>" ++ check (runes_of_ascii "// top
MetaData // c0
body // c1
{ // c2
i64 // c3
pack // c4
`it's` // c5
, // c6
} // c7
packet // c8
stringy // c9
{ // c10
int16 // c11
calculatedFrom // c12
, // c13
} // c14
")).
Eval vm_compute in ("<<<M1065>>>" ++ check (runes_of_ascii "packet	stringy { // trailing space 
@lengthOf(rootA ) repeat char[] len`u8 x,`, float32 zchar,@tag(
    42
) @tag(
    255
) @tag( 10 )
    repeatCount, repeat leftPad ,} 	 ")).
Eval vm_compute in ("<<<M3726>>>" ++ check (runes_of_ascii "packet A {
    match k as n {
        [
            ""a"", 22, ""c c"", 4, ""e"",
            66, ""g"", 8, ""i"", 10,
            ""k"", 12
        ] : B,
        2 : C,
    },
}")).
Eval vm_compute in ("<<<M4444>>>" ++ check (runes_of_ascii "
root
packet

matchKey
	{zchar[
3]

    pack
    @calculatedFrom( ""a	b""
	)

    `doc` ,

    }

options

{ }
    MetaData A{  // c
    int8
	msg_type,
	}

")).
Eval vm_compute in ("<<<M2336>>>" ++ check (runes_of_ascii "// c
packet x { @lengthOf( metadata ) repeat lengthOf
,a1{
trueish	,// c
repeat//	t
MetaDataX , } , zchar[
    options	] rootA // `tick` ""quote"" 'q'
,
    }
")).
Eval vm_compute in ("<<<M58>>>" ++ check (runes_of_ascii "root packet chars { /// triple
int16 trueish	@lengthOf( MetaDataX)
`tab	here`,} MetaData
T
// a // b
// c
{
    int64 packetx `doc`
    // @lengthOf(
    ,}")).
Eval vm_compute in ("<<<M2390>>>" ++ check (runes_of_ascii "// c
packet x i8 @lengthOf( metadata ) repeat lengthOf
,a1{
trueish	,// c
repeat//	t
MetaDataX , } , zchar[
    42	] rootA // `tick` ""quote"" 'q'
,
    }
")).
Eval vm_compute in ("<<<M2379>>>" ++ check (runes_of_ascii "// c
packet x { @lengthOf( ) metadata repeat lengthOf
,a1{
trueish	,// c
repeat//	t
MetaDataX , } , zchar[
    42	] rootA // `tick` ""quote"" 'q'
,
    }
")).
Eval vm_compute in ("<<<M4063>>>" ++ check (runes_of_ascii "

  packet A

    { match  k

    as n{
    [
	1,

    22
	,  007 ,
    4,	5
, 66
,
	7
,
8 ,

    9 ,	10

    ,11	,	12 ]  :	B
,
	2 
: C	},
} ")).
Eval vm_compute in ("<<<M2347>>>" ++ check (runes_of_ascii "// c
packet x { @lengthOf( metadata ) repeat lengthOf
,{
trueish	,// c
repeat//	t
MetaDataX , } , zchar[
    42	] rootA // `tick` ""quote"" 'q'
,
    }
")).
Eval vm_compute in ("<<<M2127>>>" ++ check (runes_of_ascii "options{
_x
= true
} options
{ o	= /// triple
u64
    ; chars
= ""\n"" } root packet	Pad
/// triple
// packet A { u8 x, }
{	chars
    // a // b
    ,}")).
Eval vm_compute in ("<<<M4374>>>" ++ check (runes_of_ascii "  root

packet
matchKey{	zchar[ 

    // c
  3 ]
pack @calculatedFrom(
	""a	b"" )
`doc` ,
	}	options
	{

}
MetaData A
    {

int8

    msg_type, } ")).
Eval vm_compute in ("<<<M3746>>>" ++ check (runes_of_ascii "//x
options {
    pack = ""{,}"";
    asx = 65535;
    u = zchar[007];
    // trailing space 
    i8i8 = char[]
    As = ' '
}// packet A { u8 x, }")).
Eval vm_compute in ("<<<M4274>>>" ++ check (runes_of_ascii "

  packet
    B {u8 a ,
	}
root packet  P

    {u8 K

,
    u64  L
@lengthOf(	Body) ,match K 
as

    Body
    {

    1  :B	, } 
,
	}
")).
Eval vm_compute in ("<<<M4386>>>" ++ check (runes_of_ascii "options {
}

packet tag {
    u64 u @lengthOf(u128),
    char[] Pad @lengthOf(crc),
    i32 options1 @lengthOf(msg_type),
}

options {
}")).
Eval vm_compute in ("<<<M4035>>>" ++ check (runes_of_ascii "// top
options {
    FixedStringPadFromLeft = true;// c5
}

// c6
root packet P {
    // c10
    char[4] z,// c15
}// c16a
// c16b")).
Eval vm_compute in ("<<<M4233>>>" ++ check (runes_of_ascii "// c
root packet matchKey {
    zchar[3] pack @calculatedFrom(""a	b"") `doc`,
}

options {
}

MetaData A {
    int8 msg_type,
}")).
Eval vm_compute in ("<<<M2321>>>" ++ check (runes_of_ascii "// c
packet x { @lengthOf( metadata ) repeat lengthOf
,a1{
trueish	,// c
repeat//	t
MetaDataX , } , zchar[
    42	] rootA")).
Eval vm_compute in ("<<<M3329>>>" ++ check (runes_of_ascii "root packet matchKey { zchar[ 3 ] pack @calculatedFrom(
// c
""a	b"" ) `doc` , } options { } MetaData A { int8 msg_type , }")).
Eval vm_compute in ("<<<M4495>>>" ++ check (runes_of_ascii "  packet chars
	{

}
packet 
        // c
    MetaDataX

{

@tag(42
    )
i16
string_

    ,
	repeat x `say ""hi""`
	, } ")).
Eval vm_compute in ("<<<M1484>>>" ++ check (runes_of_ascii "
packet
    falsey { Header@calculatedFrom(""packet""  ) , char[
    0123456789 ] packetx
    , } // `tick` ""quote""? 'q'")).
Eval vm_compute in ("<<<M4555>>>" ++ check (runes_of_ascii "  options

{string_ 	 // " ++ [128512]%N ++ runes_of_ascii " emoji

  =
false ;

}
options

{
options1

= '\x00'falsey =10
	tag  /// triple
=65535
} ")).
Eval vm_compute in ("<<<M4407>>>" ++ check (runes_of_ascii "

  packet chars
{ }
packet MetaDataX { // c
    @tag(

42
) 
i16
    string_ 
,

    repeat
x
`say ""hi""`
, }
")).
Eval vm_compute in ("<<<M996>>>" ++ check (runes_of_ascii "
MetaData // `tick` ""quote"" 'q'
Foo { char[
    4294967296
    ] // packet A { u8 x, }
string_ , T float , }
")).
Eval vm_compute in ("<<<M2964>>>" ++ check (runes_of_ascii "packet A {
  match k as n {
    [""a"", ""bb"", ""c c"", ""d"", ""e"", ""f"", ""g"", ""h"", ""i"", ""j""] : B,
    2 : C
  },
}")).
Eval vm_compute in ("<<<M3838>>>" ++ check (runes_of_ascii "MetaData float {
    float64 charz `
    `,
}

root packet chars {
    // c
    @rightPad('0')
    Foo,
}")).
Eval vm_compute in ("<<<M4390>>>" ++ check (runes_of_ascii "
options	{ u
	= uint16 i8i8 =
i8
    ;

string_=
false; 
asx
    =  true lengthOf=0123456789
; 
}
")).
Eval vm_compute in ("<<<M4068>>>" ++ check (runes_of_ascii "
packet
metadata // c
	{ 
Logon{A `" ++ [28040; 24687; 31867; 22411]%N ++ runes_of_ascii "` ,
tag  o  ,
    } ,zchar

len

`// not a comment`

,  } ")).
Eval vm_compute in ("<<<M2988>>>" ++ check (runes_of_ascii "packet A {
  match k as n {
    [1, 22, 007, 4, 5, 66, 7, 8, 9, 10, 11, 12] : B,
    2 : C
  },
}")).
Eval vm_compute in ("<<<M2302>>>" ++ check (runes_of_ascii "options
{ } options { BodyLength= u16 Header= f64 ; u128 =
    true
    ; } // a // b@leftpad")).
Eval vm_compute in ("<<<M2239>>>" ++ check (runes_of_ascii "options
{ } options { BodyLength string u16 Header= f64 ; u128 =
    true
    ; } // a // b")).
Eval vm_compute in ("<<<M2299>>>" ++ check (runes_of_ascii "options
{ } options { BodyLength= u1@tag6 Header= f64 ; u128 =
    true
    ; } // a // b")).
Eval vm_compute in ("<<<M3277>>>" ++ check (runes_of_ascii "MetaData float { float64 charz // c
`
` , } root packet chars { @rightPad ( '0' ) Foo , }")).
Eval vm_compute in ("<<<M3488>>>" ++ check (runes_of_ascii "packet chars
// c
{ } packet MetaDataX { @tag( 42 ) i16 string_ , repeat x `say ""hi""` , }")).
Eval vm_compute in ("<<<M3984>>>" ++ check (runes_of_ascii "MetaData body {
    i64 pack `it's`,
}

packet stringy {
    int16 calculatedFrom,
}
// c")).
Eval vm_compute in ("<<<M2264>>>" ++ check (runes_of_ascii "options
{ } options { BodyLength= u16 Header= f64 i8 u128 =
    true
    ; } // a // b")).
Eval vm_compute in ("<<<M2214>>>" ++ check (runes_of_ascii "options
} { options { BodyLength= u16 Header= f64 ; u128 =
    true
    ; } // a // b")).
Eval vm_compute in ("<<<M3228>>>" ++ check (runes_of_ascii "packet metadata { Logon { A `" ++ [28040; 24687; 31867; 22411]%N ++ runes_of_ascii "` ,
// c
tag o , } , zchar len `// not a comment` , }")).
Eval vm_compute in ("<<<M2251>>>" ++ check (runes_of_ascii "options
{ } options { BodyLength= u16 Header f64 ; u128 =
    true
    ; } // a // b")).
Eval vm_compute in ("<<<M3451>>>" ++ check (runes_of_ascii "packet o { repeat Logon uint8x , } options { asx = // c
zchar[ 3 ] stringy = '\x00' }")).
Eval vm_compute in ("<<<M147>>>" ++ check (runes_of_ascii "packet
    zchar { @lengthOf(Header )f32 string_ `a\`
    , } // packet A { u8 x, }")).
Eval vm_compute in ("<<<M3394>>>" ++ check (runes_of_ascii "MetaData // c
body { i64 pack `it's` , } packet stringy { int16 calculatedFrom , }")).
Eval vm_compute in ("<<<M4522>>>" ++ check (runes_of_ascii "
packet A  {match
k
    as  n
{

    [
    1  , ""bb""	]
:  B ,	2 :
	C
} 
,  }
")).
Eval vm_compute in ("<<<M1331>>>" ++ check (runes_of_ascii "MetaData  options1
    { i8 falsey ,
    int8  Foo `
` , }
root packet asx{} 	 ")).
Eval vm_compute in ("<<<M778>>>" ++ check (runes_of_ascii "options {repeatCount
= int64 u8x =
//	t
// packet A { u8 x, }
' '
;
}
// " ++ [27880; 37322]%N ++ runes_of_ascii "
")).
Eval vm_compute in ("<<<M63>>>" ++ check (runes_of_ascii "MetaData
    Packet { string Logon `" ++ [233]%N ++ runes_of_ascii "`
,
    int8
    _x
//	t
// " ++ [27880; 37322]%N ++ runes_of_ascii "
,
}

")).
Eval vm_compute in ("<<<M355>>>" ++ check (runes_of_ascii "options { leftPad= int32 // packet A { u8 x, }
}
// packet A { u8 x, }
")).
Eval vm_compute in ("<<<M1382>>>" ++ check (runes_of_ascii "options
{	trueish = f64
    ;
i8i8  =
int16 ;rootA = ""`tick`"" ;} 	 ")).
Eval vm_compute in ("<<<M3574>>>" ++ check (runes_of_ascii "root packet P {
    u8 s_u8,
    repeat u8 r_u8,
    u16 b_len,
}
")).
Eval vm_compute in ("<<<M1909>>>" ++ check (runes_of_ascii "MetaData
    u { }  options {
// c
// @lengthOf(
float = int8 ;")).
Eval vm_compute in ("<<<M2862>>>" ++ check (runes_of_ascii "packet A {
  match k as n {
    [1, 22] : B,
    2 : C
  },
}")).
Eval vm_compute in ("<<<M498>>>" ++ check (runes_of_ascii "options
{
//x
// c
} options
    {
Foo
    = ""`tick`"" }
")).
Eval vm_compute in ("<<<M3385>>>" ++ check (runes_of_ascii "packet x { @rightPad ( ) repeat roots Logon `doc` , // c
}")).
Eval vm_compute in ("<<<M410>>>" ++ check (runes_of_ascii "packet crc { @rightPad ('0'
) //x
char[] asx `doc`	,}
")).
Eval vm_compute in ("<<<M995>>>" ++ check (runes_of_ascii "options
{ Header
    // c
    =""a	b"" ;  } // a // b")).
Eval vm_compute in ("<<<M3868>>>" ++ check (runes_of_ascii "  MetaData
leftPad 	 // `tick` ""quote"" 'q'

	{} ")).
Eval vm_compute in ("<<<M85>>>" ++ check (runes_of_ascii "
MetaData f32a { char[ 42
    ] zchar
, //x
}")).
Eval vm_compute in ("<<<M2563>>>" ++ check (runes_of_ascii "packet A { repeat x @calculatedFrom(""c""), }")).
Eval vm_compute in ("<<<M3203>>>" ++ check (runes_of_ascii "root packet u128 { chars `it's` , } // c
")).
Eval vm_compute in ("<<<M4167>>>" ++ check (runes_of_ascii "options {
    Header = ""a	b"";
}// a // b")).
Eval vm_compute in ("<<<M2608>>>" ++ check (runes_of_ascii "packet A { match k as n { [] : B }, }")).
Eval vm_compute in ("<<<M311>>>" ++ check (runes_of_ascii "  options {
    asx =
    '0'
;}
")).
Eval vm_compute in ("<<<M2707>>>" ++ check (runes_of_ascii ")1g5_\^|d<j.^kB#_~;!UCf%63fU|C}lDJ")).
Eval vm_compute in ("<<<M1336>>>" ++ check (runes_of_ascii "root
    packet
chars
{
//x
//
}")).
Eval vm_compute in ("<<<M4151>>>" ++ check (runes_of_ascii "packet A {
    // a
    u8 x,
}")).
Eval vm_compute in ("<<<M3160>>>" ++ check (runes_of_ascii "MetaData M {
}// c
packet A {}")).
Eval vm_compute in ("<<<M4171>>>" ++ check (runes_of_ascii "options
	{
    a
    = 1

} ")).
Eval vm_compute in ("<<<M2578>>>" ++ check (runes_of_ascii "packet A { u8 x `d` `e`, }")).
Eval vm_compute in ("<<<M3259>>>" ++ check (runes_of_ascii "root packet pack
// c
{ }")).
Eval vm_compute in ("<<<M2577>>>" ++ check (runes_of_ascii "packet A { x `d` `e`, }")).
Eval vm_compute in ("<<<M2705>>>" ++ check (runes_of_ascii "u64 MetaData char , ]")).
Eval vm_compute in ("<<<M4588>>>" ++ check (runes_of_ascii "root packet pack {
}")).
Eval vm_compute in ("<<<M3475>>>" ++ check (runes_of_ascii "MetaData o
// c
{ }")).
Eval vm_compute in ("<<<M3101>>>" ++ check (runes_of_ascii "// c" ++ [8233]%N ++ runes_of_ascii "
packet A {
}")).
Eval vm_compute in ("<<<M2656>>>" ++ check (runes_of_ascii "options { a = 1 }")).
Eval vm_compute in ("<<<M2654>>>" ++ check (runes_of_ascii "MetaData M M { }")).
Eval vm_compute in ("<<<M183>>>" ++ check (runes_of_ascii "packet T
{}
")).
Eval vm_compute in ("<<<M2093>>>" ++ check (runes_of_ascii "options{
_x")).
Eval vm_compute in ("<<<M2465>>>" ++ check (runes_of_ascii "Metadata")).
Eval vm_compute in ("<<<M2428>>>" ++ check (runes_of_ascii "char [")).
Eval vm_compute in ("<<<M2467>>>" ++ check (runes_of_ascii "match")).
Eval vm_compute in ("<<<M1021>>>" ++ check (runes_of_ascii "


")).
Eval vm_compute in ("<<<M2471>>>" ++ check (runes_of_ascii "'0'")).
Eval vm_compute in ("<<<M476>>>" ++ check (runes_of_ascii "
")).
Eval vm_compute in ("<<<M2557>>>" ++ check ([21517]%N)).
